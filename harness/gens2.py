"""Generators for the properties beyond C01/C02/C04 (all randomness from the rng passed in)."""
from harness import gens
from harness.gens import (CFGS, CFGS_PACKED, INT_DT, FLT_DT, INT_RANGE, npix_of, nfine_of, ncov_of,
                          pick_map, rand_value, rand_pixels, rand_update, legal_ops)

CHK_ALL = ['values', 'cov', 'valid', 'nvalid', 'raw', 'layout']
CHK_PROD = ['values', 'cov', 'valid', 'nvalid', 'raw', 'layout']


def chk(h, what=None):
    st = dict(op='check', h=h)
    if what is not None:
        st['what'] = what
    else:
        st['what'] = CHK_ALL
    return st


def mk_plain(rng, h, cfg, dtype, sentinel=None, cov_pixels=None):
    return dict(op='mk', h=h, kind='plain', nc=cfg[0], ns=cfg[1], dtype=dtype, sentinel=sentinel,
                cov_pixels=cov_pixels)


def fill_steps(rng, mk, h, nsteps=None, forms=('pix', 'pix', 'setitem_arr', 'ring'), none_ok=True):
    """a few valid updates on handle h (shuffled growth, clears)"""
    out = []
    for _ in range(nsteps if nsteps is not None else rng.randint(1, 4)):
        st = rand_update(rng, mk, h=h, forms=forms)
        if not none_ok and st.get('values') is None:
            continue
        out.append(st)
    return out


def cross_check_derived(rng, mk, h, out, what=None):
    """steps: derive map [out] from map [h] through a producer that hands on the coverage object (scalar operator,
    astype, as_bit_packed_map, field copy), check it; grow [h], re-check [out]; grow [out], re-check [h]"""
    what = what or ['values', 'cov', 'valid', 'nvalid', 'raw', 'layout']
    kind = mk['kind']
    steps = []
    if kind == 'plain' and mk.get('dtype') == 'b':
        cands = [dict(op='bconst', h=h, out=out, fn=rng.choice(['or', 'xor']), const=False, inplace=False)]
        if mk['ns'] >= 4 * mk['nc']:
            cands.append(dict(op='aspacked', h=h, out=out))      # needs two levels between coverage and map
        steps.append(rng.choice(cands))
    elif kind == 'packed':
        steps.append(dict(op='bconst', h=h, out=out, fn=rng.choice(['or', 'xor']), const=False, inplace=False))
    elif kind == 'plain':
        if rng.random() < 0.5:
            steps.append(dict(op='astype', h=h, out=out, dtype=mk['dtype'], sentinel=mk.get('sentinel')))
        else:
            steps.append(dict(op='sop', h=h, out=out, inplace=False, fn='+', scalar=0.0 if mk['dtype'] in FLT_DT else 0))
    elif kind == 'rec':
        steps.append(dict(op='single', h=h, out=out, field=rng.choice([n for n, _ in mk['fields']]), copy=True))
    else:
        steps.append(dict(op='sop', h=h, out=out, inplace=False, fn='|', bits=[0]))
    steps.append(chk(out, what))
    g = dict(op='grow', which=rng.randrange(5), off=rng.randrange(16), alt=rng.randrange(40))
    if rng.random() < 0.5:
        steps += [dict(g, h=h), chk(h, what), chk(out, what), dict(g, h=out, which=g['which'] + 1), chk(out, what), chk(h, what)]
    else:
        steps += [dict(g, h=out), chk(out, what), chk(h, what), dict(g, h=h, which=g['which'] + 1), chk(h, what), chk(out, what)]
    return steps


# ------------------------------------------------------------------ C12
def gen_c12(rng):
    kind = rng.choice(['plain', 'plain', 'plain', 'wide'])
    mk = pick_map(rng, kinds=(kind,), h=0)
    while mk['kind'] == 'plain' and mk['dtype'] == 'b':
        mk = pick_map(rng, kinds=(kind,), h=0)
    cfg = (mk['nc'], mk['ns'])
    hist = [mk] + fill_steps(rng, mk, 0, rng.randint(1, 3)) + [chk(0)]
    nxt = 1
    # a mask map of the same resolution (its coverage resolution may differ from the map's)
    mcfg = cfg
    if rng.random() < 0.35:
        mcfg = (rng.choice([c for c in (1, 2, 4, 8) if c <= cfg[1]]), cfg[1])
    if rng.random() < 0.5:
        mm = dict(op='mk', h=50, kind='wide', nc=mcfg[0], ns=mcfg[1], maxbits=rng.choice([3, 8, 9, 20]), sentinel=None,
                  cov_pixels=None)
    else:
        mdt = rng.choice(['i2', 'i4', 'i8', 'u1', 'u2', 'u8', 'i1'])
        mm = mk_plain(rng, 50, mcfg, mdt, sentinel=0)
    hist.append(mm)
    hist += fill_steps(rng, mm, 50, rng.randint(1, 2), none_ok=False)
    cur = 0
    # magnitude bound of the stored values (fixed-width wrap-around and out-of-range float->int conversion
    # are not modelled: NumPy leaves the latter undefined): the sum over the fill steps of the largest
    # magnitude written (a value may be the sentinel, and 'add' accumulates over repeated pixels and steps)
    bound = 20
    if mk['kind'] == 'plain':
        tot = 0
        for st0 in hist:
            if st0.get('op') != 'upd' or st0.get('h') != 0 or st0.get('values') is None:
                continue
            vs = st0['values'] if isinstance(st0['values'], list) else [st0['values']]
            mag = max([abs(float(v)) for v in vs if isinstance(v, (int, float)) and not isinstance(v, bool)] or [0.0])
            mult = max([st0['pixels'].count(p) for p in set(st0['pixels'])] or [1])
            tot += mag * mult
        bound = max(bound, int(tot) + 1)
    cur_dt = mk.get('dtype')
    fbits = 2

    def fits(b, dt):
        if dt in FLT_DT or dt is None:
            return b < 2 ** 20
        if dt == 'b':
            return True
        lo, hi = INT_RANGE[dt]
        return b <= hi and (lo < 0 or True) and b <= (hi if lo == 0 else min(hi, -lo))
    for _ in range(rng.randint(1, 5)):
        r = rng.random()
        inplace = rng.random() < 0.4
        out = cur if inplace else nxt
        if r < 0.45:
            st = dict(op='sop', h=cur, out=out, inplace=inplace)
            if mk['kind'] == 'wide':
                width = (mk['maxbits'] - 1) // 8 + 1
                st['fn'] = rng.choice(['&', '|', '^'])
                st['bits'] = sorted(set(rng.randrange(8 * width) for _ in range(rng.randint(1, 3))))
                written = [v for st0 in hist if st0.get('op') == 'upd' and st0.get('h') == 0 and st0.get('values') is not None
                           for v in (st0['values'] if isinstance(st0['values'], list) else [st0['values']])
                           if isinstance(v, int) and not isinstance(v, bool) and v > 0]
                if st['fn'] == '^' and written and width > 1 and rng.random() < 0.6:
                    # xor that clears every bit a pixel has (in its low bytes) and sets one in a higher byte
                    v = rng.choice(written)
                    vb = [b for b in range(8 * width) if (v >> b) & 1]
                    hi_byte = max(vb) // 8 + 1
                    if vb and hi_byte < width:
                        st['bits'] = sorted(set(vb + [rng.randrange(8 * hi_byte, 8 * width)]))
            elif mk['dtype'] in FLT_DT:
                st['fn'] = rng.choice(['+', '-', '*', '/', '**'])
                st['scalar'] = {'+': rng.choice([1.5, -2.0, 0.25, 3]), '-': rng.choice([1.5, -2.0, 0.25, 2]),
                                '*': rng.choice([2.0, -0.5, 4, 3.0]), '/': rng.choice([2.0, -4.0, 0.5, 2]),
                                '**': rng.choice([2, 2.0])}[st['fn']]
            else:
                st['fn'] = rng.choice(['+', '-', '*', '&', '|', '^'])
                lo, hi = INT_RANGE[mk['dtype']]
                if st['fn'] in '&|^':
                    st['scalar'] = rng.choice([1, 3, 5, 6, 12])
                else:
                    st['scalar'] = rng.choice([1, 2, 3] if lo == 0 else [1, 2, 3, -1, -2])
                    if st['fn'] == '-' and lo == 0:
                        st['scalar'] = 0
            if mk['kind'] != 'wide':
                sc = abs(st['scalar'])
                nb = {'+': bound + sc, '-': bound + sc, '*': bound * max(1, sc), '/': bound * 4, '**': bound ** 2,
                      '&': bound, '|': bound + 16, '^': bound + 16}[st['fn']]
                if not fits(nb, cur_dt):
                    continue
                if cur_dt in FLT_DT:
                    # binary fraction digits of the stored values (inputs are multiples of 1/4): the result must
                    # stay exactly representable (24 / 53 significant bits), rounding is not modelled
                    nfb = {'+': max(fbits, 2), '-': max(fbits, 2), '*': fbits + 1, '/': fbits + 2, '**': 2 * fbits}[st['fn']]
                    if max(1, int(nb)).bit_length() + nfb > (22 if cur_dt == 'f4' else 50):
                        continue
                    fbits = nfb
                bound = nb
            hist.append(st)
        elif r < 0.8:
            st = dict(op='amask', h=cur, out=out, hm=50, inplace=inplace)
            if mm['kind'] == 'wide':
                width = (mm['maxbits'] - 1) // 8 + 1
                if rng.random() < 0.5:
                    st['mode'] = 'arr'
                    st['bits'] = sorted(set(rng.randrange(8 * width) for _ in range(rng.randint(1, 3))))
                else:
                    st['mode'] = 'none'
            else:
                if rng.random() < 0.5:
                    st['mode'] = 'bits'
                    # 0 = an explicit but empty bit selection: nothing is masked
                    st['bits'] = rng.choice([0, 0, 1, 2, 3, 4, 6, 8, 16])
                else:
                    st['mode'] = 'none'
            # the cached count is queried before the call so that a stale cache is visible after it
            hist.append(chk(cur, ['nvalid']))
            hist.append(st)
        else:
            if mk['kind'] != 'plain':
                continue
            tdt = rng.choice(INT_DT + FLT_DT + ['b'])
            st = dict(op='astype', h=cur, out=nxt, dtype=tdt)
            if tdt in FLT_DT:
                st['sentinel'] = rng.choice([None, None, -1.0, 0.0, -9999.0])
            elif tdt == 'b':
                st['sentinel'] = None
            else:
                lo, hi = INT_RANGE[tdt]
                st['sentinel'] = rng.choice([None, 0, hi, lo])
            # keep values representable: generated values are in [-20, 20] or dyadic quarters
            if tdt.startswith('u') or tdt == 'b':
                # negative values wrap for unsigned targets: skip unless the source is unsigned
                if not (mk['dtype'].startswith('u')):
                    continue
            if not fits(bound, tdt):
                continue
            if tdt in FLT_DT and cur_dt in FLT_DT and \
                    max(1, int(bound)).bit_length() + fbits > (22 if tdt == 'f4' else 50):
                continue      # the conversion would round
            hist.append(st)
            hist.append(chk(nxt))
            nxt += 1
            hist.append(chk(cur))
            continue
        hist.append(chk(out))
        if not inplace:
            hist.append(chk(cur))      # the source is unchanged
            cur = out
            nxt += 1
    if mk['kind'] == 'plain' and cfg[1] >= 4 * cfg[0] and rng.random() < 0.3:
        # conversion to a bit-packed validity map (the source may have grown in any order)
        hist.append(dict(op='aspacked', h=cur, out=nxt))
        hist.append(chk(nxt, ['values', 'cov', 'valid', 'nvalid']))
        hist.append(chk(cur, ['values', 'cov', 'valid']))
    return hist


# ------------------------------------------------------------------ C11
def gen_c11(rng):
    cfg = rng.choice(CFGS_PACKED)
    nm = rng.randint(2, 3)
    hist = []
    mks = []
    for h in range(nm):
        packed = rng.random() < 0.5
        mk = dict(op='mk', h=h, kind='packed' if packed else 'plain', nc=cfg[0], ns=cfg[1], sentinel=None)
        if not packed:
            mk['dtype'] = 'b'
        if rng.random() < 0.3:
            ncov = ncov_of(cfg)
            mk['cov_pixels'] = rng.sample(range(ncov), rng.randint(1, min(3, ncov)))
        else:
            mk['cov_pixels'] = None
        mks.append(mk)
        hist.append(mk)
        if rng.random() < 0.85:
            hist += fill_steps(rng, mk, h, rng.randint(1, 3), forms=('pix', 'pix', 'setitem_arr'))
        if rng.random() < 0.3:
            # the same content over storage that does not own its memory (cannot be resized in place)
            hist.append(dict(op='rewrap', h=h, out=h, pad=rng.randint(0, 5)))
        hist.append(chk(h))
    nxt = nm
    live = list(range(nm))
    for _ in range(rng.randint(1, 5)):
        a = rng.choice(live)
        inplace = rng.random() < 0.4
        out = a if inplace else nxt
        r = rng.random()
        if r < 0.25:
            hist.append(chk(a, ['nvalid']))
            hist.append(dict(op='bconst', h=a, out=out, fn='invert', inplace=inplace))
        elif r < 0.45:
            hist.append(dict(op='bconst', h=a, out=out, fn=rng.choice(['and', 'or', 'xor']),
                             const=rng.random() < 0.5, inplace=inplace))
        else:
            b = rng.choice(live)
            hist.append(chk(a, ['nvalid']))
            hist.append(dict(op='bmap', h=a, out=out, fn=rng.choice(['and', 'or', 'xor']), h2=b, inplace=inplace))
            hist.append(chk(b))
        hist.append(chk(out))
        if not inplace:
            hist.append(chk(a))
            live.append(out)
            nxt += 1
    return hist


# ------------------------------------------------------------------ C06
def gen_c06(rng):
    cfg = rng.choice([(1, 2), (1, 4), (2, 4), (2, 8), (1, 8), (2, 2)])
    mode = rng.choice(['int', 'int', 'float', 'wide'])
    nm = rng.randint(2, 4)
    hist = []
    if mode == 'wide':
        maxbits = rng.choice([3, 8, 9, 17])
        mks = [dict(op='mk', h=h, kind='wide', nc=cfg[0], ns=cfg[1], maxbits=maxbits, sentinel=None, cov_pixels=None)
               for h in range(nm)]
        names = ['or_union', 'or_intersection', 'and_union', 'and_intersection', 'xor_union', 'xor_intersection']
    elif mode == 'int':
        dt = rng.choice(INT_DT)
        lo, hi = INT_RANGE[dt]
        mks = []
        for h in range(nm):
            sent = rng.choice([None, 0, 0, hi, lo, 1, max(lo, -1)])
            mks.append(mk_plain(rng, h, cfg, dt, sentinel=sent))
        names = ['sum_union', 'sum_intersection', 'product_union', 'product_intersection', 'or_union',
                 'or_intersection', 'and_union', 'and_intersection', 'xor_union', 'xor_intersection',
                 'max_union', 'max_intersection', 'min_union', 'min_intersection', 'divide_intersection',
                 'floor_divide_intersection', 'ufunc_union', 'ufunc_intersection']
    else:
        dt = rng.choice(FLT_DT)
        mks = []
        for h in range(nm):
            sent = rng.choice([None, None, 0.0, -1.0, 1.0, -9999.0])
            mks.append(mk_plain(rng, h, cfg, dt, sentinel=sent))
        names = ['sum_union', 'sum_intersection', 'product_union', 'product_intersection',
                 'max_union', 'max_intersection', 'min_union', 'min_intersection', 'divide_intersection',
                 'ufunc_union', 'ufunc_intersection']
    npix = npix_of(cfg)
    nfine = nfine_of(cfg)
    ncov = ncov_of(cfg)
    name = rng.choice(names)
    # coverage geometry: a shared pool of coverage pixels, each map takes a subset
    pool = rng.sample(range(ncov), min(ncov, rng.randint(1, 4)))
    for mk in mks:
        hist.append(mk)
        geom = rng.choice(['sub', 'sub', 'all', 'empty', 'other'])
        if geom == 'empty':
            continue
        covs = pool if geom == 'all' else ([c for c in pool if rng.random() < 0.6] or pool[:1])
        if geom == 'other':
            covs = [rng.randrange(ncov)]
        n = rng.randint(1, 10)
        pix = []
        for _ in range(n):
            p = rng.choice(covs) * nfine + rng.randrange(nfine)
            if p not in pix:
                pix.append(p)
        vals = []
        for p in pix:
            if mode == 'wide':
                vals.append(rand_value(rng, mk))
            elif mode == 'int':
                lo, hi = INT_RANGE[mk['dtype']]
                if name.startswith('divide') or name.startswith('floor'):
                    v = rng.choice([1, 2, 4, 8]) * (rng.choice([1, -1]) if lo < 0 else 1)
                elif name.startswith('product'):
                    v = rng.randint(max(lo, -3), min(hi, 3))
                else:
                    v = rng.randint(max(lo, -20), min(hi, 20))
                vals.append(v)
            else:
                if name.startswith('divide'):
                    v = rng.choice([1.0, 2.0, 4.0, 0.5, -2.0, 8.0, -0.25])
                elif name.startswith('product'):
                    v = rng.choice([1.0, 2.0, -2.0, 0.5, 4.0, -1.0, 3.0, 0.0])
                else:
                    v = rng.randint(-32, 32) / 4.0
                vals.append(v)
        sent = mk.get('sentinel')
        hist.append(dict(op='upd', h=mk['h'], form='pix', operation='replace', expect='ok', pixels=pix,
                         values=vals, single=False))
    hs = list(range(nm))
    if rng.random() < 0.2:
        # the same map object listed twice (the first map again later in the list included)
        hs.insert(rng.randint(1, len(hs)), rng.choice([0, 0, hs[-1]]))
    st = dict(op='mop', out=20, name=name, hs=hs)
    if name.startswith('divide') and mode == 'float' and dt == 'f8' and rng.random() < 0.3:
        st['dtype_out'] = 'f4'       # a narrower requested output type
    if name.startswith('ufunc'):
        uf = rng.choice(['add', 'multiply', 'maximum', 'minimum', 'subtract'] if mode == 'float'
                        else ['add', 'maximum', 'minimum'])
        st['ufunc'] = uf
        st['filler'] = {'add': 0, 'subtract': 0, 'multiply': 1, 'maximum': -100, 'minimum': 100}[uf]
        if mode == 'float':
            st['filler'] = float(st['filler'])
        if mode == 'int' and INT_RANGE[dt][0] == 0 and st['filler'] < 0:
            st['filler'] = 0
    hist.append(st)
    hist.append(chk(20))
    for h in range(nm):
        hist.append(chk(h, ['values', 'cov', 'valid']))
    return hist


# ------------------------------------------------------------------ C07 / C15
def gen_c07(rng):
    kind = rng.choice(['float', 'float', 'int', 'int0', 'rec', 'wide', 'bool'])
    cfg = rng.choice([(1, 4), (2, 4), (2, 8), (1, 8), (4, 8), (2, 16)])
    hist = []
    if kind == 'float':
        mk = mk_plain(rng, 0, cfg, rng.choice(FLT_DT), sentinel=rng.choice([None, None, -1.0, 0.0]))
        reds = ['mean', 'median', 'std', 'max', 'min', 'sum', 'prod', 'wmean']
    elif kind == 'int':
        dt = rng.choice(['i2', 'i4', 'i8', 'u2', 'i1'])
        mk = mk_plain(rng, 0, cfg, dt, sentinel=rng.choice([None, None, 5]))
        reds = ['mean', 'median', 'std', 'max', 'min', 'sum', 'prod', 'wmean']
    elif kind == 'int0':
        dt = rng.choice(['i2', 'i4', 'i8', 'u1', 'u2', 'u8'])
        mk = mk_plain(rng, 0, cfg, dt, sentinel=0)
        reds = ['and', 'or', 'or', 'max', 'sum']
    elif kind == 'bool':
        mk = mk_plain(rng, 0, cfg, 'b')
        reds = ['mean', 'max', 'sum']
    elif kind == 'rec':
        mk = pick_map(rng, kinds=('rec',), h=0)
        mk['nc'], mk['ns'] = cfg
        mk['cov_pixels'] = None
        reds = ['mean', 'median', 'max', 'min', 'sum', 'wmean', 'std']
    else:
        mk = dict(op='mk', h=0, kind='wide', nc=cfg[0], ns=cfg[1], maxbits=rng.choice([3, 8, 9, 17]), sentinel=None,
                  cov_pixels=None)
        reds = ['and', 'or']
    hist.append(mk)
    npix = npix_of(cfg)
    nfine = nfine_of(cfg)
    ncov = ncov_of(cfg)
    # choose the output resolution: any power of two below nside_sparse, on both sides of nside_coverage
    outs = []
    n = cfg[1] // 2
    while n >= 1:
        outs.append(n)
        n //= 2
    nside_out = rng.choice(outs)
    r = (cfg[1] // nside_out) ** 2
    # pixels: coarse pixels with 0, 1, some, all valid children
    covs = rng.sample(range(ncov), min(ncov, rng.randint(1, 3)))
    pix = []
    for c in covs:
        base = c * nfine
        ngroups = max(1, nfine // r) if r <= nfine else 1
        for _ in range(rng.randint(1, 3)):
            if r <= nfine:
                g0 = base + rng.randrange(ngroups) * r
                span = r
            else:
                g0 = base
                span = nfine
            mode = rng.choice(['one', 'some', 'all'])
            if mode == 'one':
                cand = [g0 + rng.randrange(span)]
            elif mode == 'all':
                cand = list(range(g0, g0 + span))
            else:
                cand = [p for p in range(g0, g0 + span) if rng.random() < 0.5]
            for p in cand:
                if p not in pix:
                    pix.append(p)
    if not pix:
        pix = [0]
    rng.shuffle(pix)
    pix = pix[:40]
    vals = []
    for p in pix:
        if kind in ('float',):
            vals.append(rng.randint(-16, 16) / 4.0)
        elif kind == 'int':
            lo, hi = INT_RANGE[mk['dtype']]
            vals.append(rng.randint(max(lo, -6), 6))
        elif kind == 'int0':
            vals.append(rng.randint(1, 15))
        else:
            vals.append(rand_value(rng, mk, allow_sentinel=False))
    if kind == 'wide':
        vals = [v or 1 for v in vals]
    # split the fill in two updates so that coverage growth order varies
    k = rng.randint(1, len(pix))
    hist.append(dict(op='upd', h=0, form='pix', operation='replace', expect='ok', pixels=pix[:k], values=vals[:k],
                     single=False))
    if k < len(pix):
        hist.append(dict(op='upd', h=0, form='pix', operation='replace', expect='ok', pixels=pix[k:], values=vals[k:],
                         single=False))
    red = rng.choice(reds)
    if kind == 'float' and red == 'prod':
        pass
    hw = None
    if red == 'wmean' or (rng.random() < 0.1 and kind in ('float', 'int')):
        # weights: a float map with the same valid set, possibly grown in another order
        wdt = rng.choice(FLT_DT)
        wmk = mk_plain(rng, 1, cfg, wdt, sentinel=rng.choice([None, None, -1.0]))
        hist.append(wmk)
        def isvalid(v):
            sent = mk.get('sentinel')
            if mk['kind'] == 'rec':
                names = [n for n, _ in mk['fields']]
                v = v[names.index(mk['primary'])]
            if mk['kind'] == 'plain' and mk.get('dtype') == 'b':
                return bool(v)
            if sent is None:
                dt = mk.get('dtype') if mk['kind'] == 'plain' else dict(mk['fields'])[mk['primary']]
                if dt and dt.startswith('u'):
                    sent = 0       # default sentinel of unsigned types
            return sent is None or v != sent
        order = [j for j in range(len(pix)) if isvalid(vals[j])]
        if not order:
            order = [0]
            vals[0] = rand_value(rng, mk, allow_sentinel=False)
            if not isvalid(vals[0]):
                return gen_c07(rng)
            first_fill = [st0 for st0 in hist if st0.get('op') == 'upd' and st0.get('h') == 0][0]
            first_fill['values'][0] = vals[0]
        if rng.random() < 0.5:
            rng.shuffle(order)
        wv = [rng.choice([0.5, 1.0, 2.0, 4.0, 0.25]) for _ in pix]
        k2 = rng.randint(1, len(order))
        o1, o2 = order[:k2], order[k2:]
        hist.append(dict(op='upd', h=1, form='pix', operation='replace', expect='ok', pixels=[pix[j] for j in o1],
                         values=[wv[j] for j in o1], single=False))
        if o2:
            hist.append(dict(op='upd', h=1, form='pix', operation='replace', expect='ok', pixels=[pix[j] for j in o2],
                             values=[wv[j] for j in o2], single=False))
        hw = 1
        hist.append(chk(1, ['values', 'cov', 'valid', 'nvalid']))
    if kind == 'rec' and pix:
        # records that are invalid (primary = sentinel) but carry values in the other fields, in the middle of
        # valid ones: degrade and the degraded export by key must ignore them
        names = [n_ for n_, _ in mk['fields']]
        ip = names.index(mk['primary'])
        pdt = dict(mk['fields'])[mk['primary']]
        sentv = mk.get('sentinel')
        if sentv is None and pdt in FLT_DT:
            sentv = -1.6375e+30
        if sentv is not None and rng.random() < 0.5:
            extra = []
            for p0 in pix[:3]:
                for q0 in (p0 ^ 1, p0 ^ 2):
                    if q0 not in pix and q0 not in extra and 0 <= q0 < npix:
                        extra.append(q0)
            extra = extra[:3]
            if extra:
                recs = []
                for _ in extra:
                    v_ = list(rand_value(rng, mk, allow_sentinel=False))
                    v_[ip] = sentv
                    recs.append(v_)
                hist.append(dict(op='upd', h=0, form='pix', operation='replace', expect='ok', pixels=extra, values=recs,
                                 single=False))
    hist.append(chk(0))
    hist.append(dict(op='degrade', h=0, out=5, nside_out=nside_out, reduction=red, hw=hw))
    hist.append(chk(5))
    if kind == 'rec' and red in ('mean', 'median', 'max', 'min', 'sum', 'std') and nside_out >= cfg[0]:
        hist.append(dict(op='tohp', h=0, nside=nside_out, reduction=red, key=rng.choice([n_ for n_, _ in mk['fields']])))
    if kind in ('float', 'int') and red in ('mean', 'median', 'max', 'min', 'sum', 'std') and rng.random() < 0.5:
        # the degraded dense export (generate_healpix_map(nside=, reduction=)) in NEST and in RING order
        # against degrade followed by export
        hist.append(dict(op='tohp', h=0, nside=nside_out, reduction=red))
    hist.append(chk(0))                 # the source is unchanged
    if hw is not None:
        hist.append(chk(1, ['values', 'cov', 'valid', 'nvalid', 'raw']))     # and so are the weights
    return hist


def gen_c15(rng):
    kind = rng.choice(['float', 'int', 'bool', 'rec', 'float', 'int', 'rec', 'wide', 'packed'])
    cfg = rng.choice([(1, 2), (1, 4), (2, 4), (2, 8), (1, 1), (2, 2)])
    if kind in ('wide', 'packed'):
        # lookups with finer pixel numbers and fractional-detection maps (upgrade is not offered for these kinds)
        mk = pick_map(rng, kinds=(kind,), h=0)
        if kind == 'wide':
            mk['nc'], mk['ns'] = cfg
        mk['cov_pixels'] = None
        hist = [mk] + fill_steps(rng, mk, 0, rng.randint(1, 3), forms=('pix', 'pix', 'setitem_arr'))
        hist.append(chk(0, ['values', 'cov', 'valid', 'nvalid', 'fracdet', 'covmap', 'finer']))
        return hist
    if kind == 'float':
        mk = mk_plain(rng, 0, cfg, rng.choice(FLT_DT), sentinel=rng.choice([None, -1.0]))
    elif kind == 'int':
        mk = mk_plain(rng, 0, cfg, rng.choice(['i2', 'i4', 'i8', 'u2']), sentinel=rng.choice([None, 0, 7]))
    elif kind == 'bool':
        mk = mk_plain(rng, 0, cfg, 'b')
    else:
        mk = pick_map(rng, kinds=('rec',), h=0)
        mk['nc'], mk['ns'] = cfg
        mk['cov_pixels'] = None
    hist = [mk] + fill_steps(rng, mk, 0, rng.randint(1, 3), forms=('pix', 'pix', 'setitem_arr'))
    hist.append(chk(0, ['values', 'cov', 'valid', 'nvalid', 'raw', 'layout', 'fracdet', 'covmap', 'finer']))
    up = cfg[1] * rng.choice([2, 2, 4])
    hist.append(dict(op='upgrade', h=0, out=1, nside_out=up))
    hist.append(chk(1))
    hist.append(chk(0))
    if kind != 'bool':
        red = rng.choice(['mean', 'median', 'min', 'max'])
        hist.append(dict(op='degrade', h=1, out=2, nside_out=cfg[1], reduction=red, hw=None))
        hist.append(chk(2))
        hist.append(dict(op='sameas', h=2, ref=0))
    return hist


# ------------------------------------------------------------------ C08
def rand_ranges(rng, cfg, overlapping):
    npix = npix_of(cfg)
    nfine = nfine_of(cfg)
    ncov = ncov_of(cfg)
    edges = [c * nfine for c in range(ncov + 1)]
    rows = []
    used = []
    for _ in range(rng.randint(1, 4)):
        mode = rng.random()
        if mode < 0.35:
            e = rng.choice(edges)
            a = max(0, min(npix, e + rng.choice([-2, -1, 0, 1])))
            e2 = rng.choice(edges)
            b = max(0, min(npix, e2 + rng.choice([-1, 0, 1, 2])))
        elif mode < 0.5:
            a = rng.randrange(npix)
            b = npix
        elif mode < 0.6:
            a = rng.randrange(npix)
            b = a              # empty range
        else:
            a = rng.randrange(npix)
            b = min(npix, a + rng.randint(1, 3 * nfine))
        if b < a:
            a, b = b, a
        if a >= npix:
            continue
        if not overlapping:
            if any(not (b <= x or y <= a) for x, y in used if x < y) and a < b:
                continue
        used.append((a, b))
        rows.append([a, b])
    if not rows:
        rows = [[0, min(npix, 3)]]
    return rows


def gen_c08(rng):
    mk = pick_map(rng, kinds=('plain', 'plain', 'wide', 'packed', 'rec'), h=0)
    cfg = (mk['nc'], mk['ns'])
    hist = [mk]
    if rng.random() < 0.6:
        hist += fill_steps(rng, mk, 0, rng.randint(1, 2), forms=('pix', 'setitem_arr'))
    if rng.random() < 0.25:
        # the same content over storage that does not own its memory (as after a read or a degrade): growth has
        # to replace the storage array
        hist.append(dict(op='rewrap', h=0, out=0, pad=rng.randint(0, 5)))
    hist.append(chk(0))
    for _ in range(rng.randint(1, 4)):
        ops = legal_ops(mk)
        op = rng.choice(ops) if rng.random() < 0.6 else 'replace'
        st = dict(op='rng', h=0, operation=op, thr=rng.choice([0, 0, 0, None]))
        st['ranges'] = rand_ranges(rng, cfg, overlapping=(op != 'replace') or rng.random() < 0.3)
        if op == 'replace' and rng.random() < 0.25:
            st['value'] = None
        else:
            v = rand_value(rng, mk)
            if mk['kind'] == 'plain' and mk['dtype'] in INT_DT and op == 'add':
                v = max(0 if INT_RANGE[mk['dtype']][0] == 0 else -3, min(3, v))
            st['value'] = v
        if mk['kind'] == 'rec' and st['value'] is not None:
            continue      # a record single value cannot be passed as a scalar; ranges need a single value
        hist.append(st)
        hist.append(chk(0))
    return hist


# ------------------------------------------------------------------ C13
def gen_c13(rng):
    maxbits = rng.choice([1, 2, 7, 8, 9, 15, 16, 17, 24, 33, 63, 64, 65])
    cfg = rng.choice(CFGS)
    mk = dict(op='mk', h=0, kind='wide', nc=cfg[0], ns=cfg[1], maxbits=maxbits, sentinel=None, cov_pixels=None)
    width = (maxbits - 1) // 8 + 1
    W = 8 * width
    interesting = sorted(set(b for b in [0, 7, 8, 15, 16, W - 1, W - 8, maxbits - 1, 1] if 0 <= b < W))
    hist = [mk, chk(0)]

    def bitlist():
        n = rng.randint(1, 3)
        l = sorted(set(rng.choice(interesting) if rng.random() < 0.7 else rng.randrange(W) for _ in range(n)))
        if rng.random() < 0.25:
            # a position listed twice, any order: still the same set
            l = l + [rng.choice(l)]
            rng.shuffle(l)
        return l
    for _ in range(rng.randint(1, 6)):
        r = rng.random()
        if r < 0.12:
            # oversize: must raise ValueError and leave the map unchanged
            bad = bitlist() + [rng.choice([W, W + 1, W + 7, W + 8])]
            hist.append(dict(op='bits', h=0, which=rng.choice(['set', 'clear']),
                             pixels=rand_pixels(rng, mk, unique=False, nmax=6), bits=bad))
        elif r < 0.6:
            hist.append(dict(op='bits', h=0, which='set', pixels=rand_pixels(rng, mk, unique=False, nmax=8),
                             bits=bitlist(), as_tuple=rng.random() < 0.3))
        elif r < 0.8:
            hist.append(dict(op='bits', h=0, which='clear', pixels=rand_pixels(rng, mk, unique=False, nmax=8),
                             bits=bitlist(), as_tuple=rng.random() < 0.3))
        elif r < 0.88:
            hist.append(dict(op='sop', h=0, out=0, inplace=True, fn=rng.choice(['&', '|', '^']), bits=bitlist(),
                             as_tuple=rng.random() < 0.3))
        else:
            # update_values_pix with one packed row per pixel; for or/and a pixel is repeated with a
            # different row (accumulation over repeated pixels)
            st = rand_update(rng, mk, h=0, forms=('pix',))
            if st['operation'] in ('or', 'and') and isinstance(st.get('values'), list) and not st.get('single') \
                    and st['pixels']:
                for _ in range(rng.randint(1, 2)):
                    j = rng.randrange(len(st['pixels']))
                    st['pixels'].append(st['pixels'][j])
                    st['values'].append(rand_value(rng, mk))
            hist.append(st)
        hist.append(chk(0))
        hist.append(dict(op='chkbits', h=0, bitlists=[[b] for b in interesting] + [bitlist()], as_tuple=rng.random() < 0.3))
    if rng.random() < 0.25:
        # union / intersection operations on the sets (C06 on wide masks): the second map uses the bits of
        # ONE byte only, so whole bytes are empty in one operand
        mk2 = dict(mk, h=1)
        hist.append(mk2)
        byte = rng.randrange(width)
        pix2 = rand_pixels(rng, mk, unique=False, nmax=10)
        for st0 in hist:
            if st0.get('op') == 'bits' and st0.get('h') == 0 and st0.get('which') == 'set' and rng.random() < 0.7:
                pix2 = pix2 + list(st0['pixels'])[:4]
        bits2 = sorted(set(8 * byte + rng.randrange(8) for _ in range(rng.randint(1, 3))))
        hist.append(dict(op='bits', h=1, which='set', pixels=pix2, bits=bits2))
        hist.append(chk(1))
        name = rng.choice(['and_union', 'and_intersection', 'or_union', 'or_intersection', 'xor_union', 'xor_intersection'])
        hs = [0, 1] if rng.random() < 0.5 else [1, 0]
        hist.append(dict(op='mop', out=5, name=name, hs=hs))
        hist.append(chk(5))
        hist.append(dict(op='chkbits', h=5, bitlists=[[b] for b in interesting]))
    if rng.random() < 0.3:
        # a map derived with a copying bit-list operator, then growth of either side, each re-checked with its bits
        hist += cross_check_derived(rng, mk, 0, 30)
        hist.append(dict(op='chkbits', h=30, bitlists=[[b] for b in interesting[:3]]))
        hist.append(dict(op='chkbits', h=0, bitlists=[[b] for b in interesting[:3]]))
    return hist


# ------------------------------------------------------------------ C14
def gen_c14(rng):
    mk = pick_map(rng, kinds=('rec',), h=0)
    names = [n for n, _ in mk['fields']]
    hist = [mk, chk(0)]
    for _ in range(rng.randint(1, 6)):
        r = rng.random()
        if r < 0.5:
            hist.append(rand_update(rng, mk, h=0, forms=('pix', 'pix', 'setitem_arr')))
        elif r < 0.75:
            f = rng.choice(names)
            ft = dict(mk['fields'])[f]
            pix = rand_pixels(rng, mk, unique=True, nmax=5)
            if ft in FLT_DT:
                vals = [rng.randint(-32, 32) / 4.0 for _ in pix]
            else:
                lo, hi = INT_RANGE[ft]
                vals = [rng.randint(max(lo, -20), min(hi, 20)) for _ in pix]
            hist.append(dict(op='vwrite', h=0, field=f, pixels=pix, values=vals, target='any'))
        else:
            f = rng.choice(names)
            hist.append(dict(op='vwrite_valid', h=0, field=f, n=rng.randint(1, 4), seed=rng.randrange(10 ** 6)))
        if rng.random() < 0.3:
            # a write through a view addressed by pixel ranges (either side of the size threshold) that reach
            # over invalid pixels: rejected, the parent unchanged
            npix_ = npix_of((mk['nc'], mk['ns']))
            a_ = rng.randrange(npix_)
            b_ = min(npix_, a_ + rng.randint(2, 3 * nfine_of((mk['nc'], mk['ns']))))
            f = rng.choice(names)
            hist.append(dict(op='vrange', h=0, field=f, ranges=[(a_, b_)], value=1, thr=rng.choice([0, 0, None])))
        hist.append(chk(0))
        f = rng.choice(names)
        hist.append(dict(op='single', h=0, out=10, field=f, copy=True))
        hist.append(chk(10, ['values', 'cov', 'valid', 'nvalid']))
        if rng.random() < 0.3:
            # the copy is a map of its own: growing it must not be seen through the parent, and vice versa
            hist.append(dict(op='grow', h=10, which=rng.randrange(5), off=rng.randrange(16), alt=rng.randrange(40)))
            hist.append(chk(10, ['values', 'cov', 'valid', 'nvalid', 'raw', 'layout']))
            hist.append(chk(0))
            hist.append(dict(op='grow', h=0, which=rng.randrange(5), off=rng.randrange(16), alt=rng.randrange(40)))
            hist.append(chk(0))
            hist.append(chk(10, ['values', 'cov', 'valid', 'nvalid', 'raw', 'layout']))
        f = rng.choice(names)
        hist.append(dict(op='single', h=0, out=11, field=f, copy=False))
        hist.append(chk(11, ['values', 'cov', 'valid']))
    return hist


# ------------------------------------------------------------------ C02: every mutator, queries in between
CHK_ACC = ['values', 'cov', 'valid', 'nvalid', 'covmap', 'fracdet', 'covpix', 'submaps']


def gen_c02(rng):
    kind = rng.choice(['plain', 'plain', 'wide', 'rec', 'packed', 'bool'])
    if kind == 'bool':
        cfg = rng.choice(CFGS_PACKED)
        mk = mk_plain(rng, 0, cfg, 'b')
    else:
        mk = pick_map(rng, kinds=(kind,), h=0)
    cfg = (mk['nc'], mk['ns'])
    hist = [mk, chk(0, CHK_ACC)]
    isbool = (mk['kind'] == 'packed') or (mk['kind'] == 'plain' and mk.get('dtype') == 'b')
    # a second boolean map for map-with-map operators
    if isbool:
        mk2 = dict(mk)
        mk2['h'] = 1
        mk2['cov_pixels'] = None
        hist.append(mk2)
        hist += fill_steps(rng, mk2, 1, 1, forms=('pix',))
    # a mask map for apply_mask
    mm = mk_plain(rng, 50, cfg, 'u2', sentinel=0)
    hist.append(mm)
    hist += fill_steps(rng, mm, 50, 1, forms=('pix',), none_ok=False)
    for _ in range(rng.randint(2, 7)):
        r = rng.random()
        # the cached count is always populated before the mutation
        hist.append(chk(0, ['nvalid']))
        if mk['kind'] == 'wide' and rng.random() < 0.3:
            # in-place operator with a bit list: '&' keeps only the listed bits, '^' can empty pixels
            width = (mk['maxbits'] - 1) // 8 + 1
            hist.append(dict(op='sop', h=0, out=0, inplace=True, fn=rng.choice(['&', '&', '^', '|']),
                             bits=sorted(set(rng.randrange(8 * width) for _ in range(rng.randint(1, 3))))))
        elif r < 0.3:
            hist.append(rand_update(rng, mk, h=0))
        elif r < 0.5:
            ops = legal_ops(mk)
            op = rng.choice(ops)
            st = dict(op='rng', h=0, operation=op, thr=rng.choice([0, 0, None]))
            # 'add' over OVERLAPPING ranges on a map with a custom non-zero sentinel is known finding F36 of C08
            # (an intermediate sum equal to the sentinel is re-zeroed): not this property's concern
            st['ranges'] = rand_ranges(rng, cfg, overlapping=not (op == 'add' and mk.get('sentinel') not in (None, 0, 0.0)))
            if mk['kind'] == 'rec':
                st['value'] = None
                st['operation'] = 'replace'
            elif op == 'replace' and rng.random() < 0.3:
                st['value'] = None
            else:
                v = rand_value(rng, mk)
                if mk['kind'] == 'plain' and mk['dtype'] in INT_DT and op == 'add':
                    v = max(0 if INT_RANGE[mk['dtype']][0] == 0 else -3, min(3, v))
                st['value'] = v
            hist.append(st)
        elif r < 0.62 and isbool:
            q = rng.random()
            if q < 0.4:
                hist.append(dict(op='bconst', h=0, out=0, fn='invert', inplace=True))
            elif q < 0.6:
                hist.append(dict(op='bconst', h=0, out=0, fn=rng.choice(['and', 'or', 'xor']), const=rng.random() < 0.5,
                                 inplace=True))
            else:
                hist.append(dict(op='bmap', h=0, out=0, fn=rng.choice(['and', 'or', 'xor']), h2=1, inplace=True))
        elif r < 0.62 and mk['kind'] == 'plain' and mk['dtype'] != 'b':
            if mk['dtype'] in FLT_DT:
                hist.append(dict(op='sop', h=0, out=0, inplace=True, fn=rng.choice(['+', '*']), scalar=rng.choice([1.0, 2.0])))
            else:
                hist.append(dict(op='sop', h=0, out=0, inplace=True, fn='+', scalar=rng.choice([0, 1])))
        elif r < 0.62 and mk['kind'] == 'wide':
            width = (mk['maxbits'] - 1) // 8 + 1
            if rng.random() < 0.5:
                hist.append(dict(op='bits', h=0, which=rng.choice(['set', 'clear']),
                                 pixels=rand_pixels(rng, mk, unique=False, nmax=6), bits=[rng.randrange(8 * width)]))
            else:
                # in-place operator with a bit list: '&' / '^' can empty pixels, '|' changes none
                hist.append(dict(op='sop', h=0, out=0, inplace=True, fn=rng.choice(['&', '^', '^', '|']),
                                 bits=sorted(set(rng.randrange(8 * width) for _ in range(rng.randint(1, 3))))))
        elif r < 0.62 and mk['kind'] == 'rec':
            names = [n for n, _ in mk['fields']]
            hist.append(dict(op='vwrite_valid', h=0, field=rng.choice(names), n=2, seed=rng.randrange(10 ** 6)))
        elif r < 0.8 and mk['kind'] != 'packed':
            hist.append(dict(op='amask', h=0, out=0, hm=50, inplace=True, mode=rng.choice(['none', 'bits']),
                             bits=rng.choice([1, 2, 3, 4])))
        else:
            hist.append(rand_update(rng, mk, h=0, forms=('pix', 'setitem_arr')))
        hist.append(chk(0, CHK_ACC))
    if rng.random() < 0.3 and mk['kind'] != 'wide':
        hist += cross_check_derived(rng, mk, 0, 60, what=CHK_ACC)
    return hist


# ------------------------------------------------------------------ C09: two-phase histories
def gen_c09(rng):
    """derive a map with a producer, then mutate / grow either side and re-observe the other"""
    prod = rng.choice(['copy', 'sop', 'astype', 'aspacked', 'degrade', 'degrade_same', 'degrade_w', 'upgrade', 'amask',
                       'single', 'covpixmap', 'mop', 'bmap', 'bconst', 'invert', 'wr', 'covpixmap_unc'])
    cfgs = [(1, 4), (2, 4), (2, 8), (1, 8), (4, 8)]
    cfg = rng.choice(cfgs)
    hist = []
    srcs = [0]
    if prod in ('bmap', 'bconst', 'invert', 'aspacked'):
        cfg = rng.choice(CFGS_PACKED)
        packed = rng.random() < 0.5 and prod != 'aspacked'
        mk = dict(op='mk', h=0, kind='packed' if packed else 'plain', nc=cfg[0], ns=cfg[1], sentinel=None, cov_pixels=None)
        if not packed:
            mk['dtype'] = 'b'
    elif prod == 'single':
        mk = pick_map(rng, kinds=('rec',), h=0)
        mk['nc'], mk['ns'] = cfg
        mk['cov_pixels'] = None
    elif prod in ('degrade_w',):
        mk = mk_plain(rng, 0, cfg, rng.choice(FLT_DT), sentinel=None)
    elif prod in ('mop', 'astype', 'sop', 'amask', 'degrade', 'upgrade', 'degrade_same'):
        mk = mk_plain(rng, 0, cfg, rng.choice(['f8', 'f4', 'i4', 'i8', 'u2']), sentinel=rng.choice([None, 0]))
        if mk['dtype'] in FLT_DT and mk['sentinel'] == 0:
            mk['sentinel'] = 0.0
    else:
        mk = pick_map(rng, kinds=('plain', 'wide', 'rec', 'packed'), h=0)
        if mk['kind'] != 'packed':
            mk['nc'], mk['ns'] = cfg
            mk['cov_pixels'] = None
    cfg = (mk['nc'], mk['ns'])
    hist.append(mk)
    hist.append(dict(op='setmeta', h=0, metadata={'AKEY': 5, 'LONGERKEYNAME': 'x'}))
    # leave at least one coverage pixel uncovered so that growth is possible
    ncov = ncov_of(cfg)
    nfine = nfine_of(cfg)
    covs = rng.sample(range(ncov), max(1, min(ncov - 2, rng.randint(1, 3))))
    pix = []
    for _ in range(rng.randint(2, 10)):
        p = rng.choice(covs) * nfine + rng.randrange(nfine)
        if p not in pix:
            pix.append(p)
    vals = [rand_value(rng, mk, allow_sentinel=False) for _ in pix]
    if mk['kind'] == 'wide':
        vals = [v or 1 for v in vals]
    hist.append(dict(op='upd', h=0, form='pix', operation='replace', expect='ok', pixels=pix, values=vals, single=False))
    out = 5
    if prod == 'copy':
        hist.append(dict(op='copy', h=0, out=out))
    elif prod == 'sop':
        hist.append(dict(op='sop', h=0, out=out, inplace=False, fn='+', scalar=1.0 if mk['dtype'] in FLT_DT else 1))
    elif prod == 'astype':
        hist.append(dict(op='astype', h=0, out=out, dtype='f8', sentinel=None))
    elif prod == 'aspacked':
        hist.append(dict(op='aspacked', h=0, out=out))
    elif prod in ('degrade', 'degrade_same', 'degrade_w'):
        nside_out = cfg[1] if prod == 'degrade_same' else rng.choice([n for n in (1, 2, 4, 8) if n < cfg[1]])
        hw = None
        red = rng.choice(['mean', 'sum', 'max'])
        if prod == 'degrade_w':
            wmk = mk_plain(rng, 1, cfg, 'f8', sentinel=None)
            hist.append(wmk)
            hist.append(dict(op='upd', h=1, form='pix', operation='replace', expect='ok', pixels=pix,
                             values=[rng.choice([0.5, 1.0, 2.0]) for _ in pix], single=False))
            hw = 1
            red = 'wmean'
            srcs.append(1)
        hist.append(dict(op='degrade', h=0, out=out, nside_out=nside_out, reduction=red, hw=hw))
    elif prod == 'upgrade':
        hist.append(dict(op='upgrade', h=0, out=out, nside_out=cfg[1] * 2))
    elif prod == 'amask':
        mm = mk_plain(rng, 1, cfg, 'u2', sentinel=0)
        hist.append(mm)
        if rng.random() < 0.3:
            # a mask that selects none of the valid pixels: the result is still a new map
            free = [p for p in range(npix_of(cfg)) if p not in pix][:3] or [0]
            hist.append(dict(op='upd', h=1, form='pix', operation='replace', expect='ok', pixels=free,
                             values=[1 for _ in free], single=False))
        else:
            hist.append(dict(op='upd', h=1, form='pix', operation='replace', expect='ok', pixels=pix[:max(1, len(pix) // 2)],
                             values=[rng.choice([1, 2, 3]) for _ in pix[:max(1, len(pix) // 2)]], single=False))
        srcs.append(1)
        hist.append(dict(op='amask', h=0, out=out, hm=1, inplace=False, mode='none'))
    elif prod == 'single':
        names = [n for n, _ in mk['fields']]
        hist.append(dict(op='single', h=0, out=out, field=rng.choice(names), copy=True))
    elif prod in ('covpixmap', 'covpixmap_unc'):
        hist.append(dict(op='covpixmap', h=0, out=out, which=rng.randrange(4), uncovered=(prod == 'covpixmap_unc')))
    elif prod == 'mop':
        mk2 = dict(mk)
        mk2['h'] = 1
        hist.append(mk2)
        pix2 = [p for p in pix if rng.random() < 0.6] or pix[:1]
        hist.append(dict(op='upd', h=1, form='pix', operation='replace', expect='ok', pixels=pix2,
                         values=[rand_value(rng, mk, allow_sentinel=False) for _ in pix2], single=False))
        srcs.append(1)
        hist.append(dict(op='mop', out=out, name=rng.choice(['sum_union', 'sum_intersection', 'max_union']), hs=[0, 1]))
    elif prod in ('bmap',):
        mk2 = dict(mk)
        mk2['h'] = 1
        if rng.random() < 0.5:
            mk2['kind'] = 'packed' if mk['kind'] == 'plain' else 'plain'
            if mk2['kind'] == 'plain':
                mk2['dtype'] = 'b'
            else:
                mk2.pop('dtype', None)
        hist.append(mk2)
        pix2 = [rng.randrange(npix_of(cfg)) for _ in range(4)]
        hist.append(dict(op='upd', h=1, form='pix', operation='replace', expect='ok', pixels=sorted(set(pix2)),
                         values=True, single=True))
        srcs.append(1)
        hist.append(dict(op='bmap', h=0, out=out, fn=rng.choice(['and', 'or', 'xor']), h2=1, inplace=False))
    elif prod == 'bconst':
        hist.append(dict(op='bconst', h=0, out=out, fn=rng.choice(['and', 'or', 'xor']), const=True, inplace=False))
    elif prod == 'invert':
        hist.append(dict(op='bconst', h=0, out=out, fn='invert', inplace=False))
    elif prod == 'wr':
        hist.append(dict(op='wr', h=0, out=out, compress=rng.random() < 0.5, pixels=None))
    # what the result shares with its arguments (model table), then: every argument is unchanged by the call
    hist.append(dict(op='sharing', out=out, srcs=list(srcs), prod=prod))
    for s in srcs:
        hist.append(chk(s, ['values', 'cov', 'valid', 'nvalid', 'raw']))
    hist.append(chk(out, ['values', 'cov', 'valid', 'nvalid', 'raw', 'layout']))
    order = rng.random() < 0.5
    for phase in (0, 1):
        if (phase == 0) == order:
            # mutate / grow the result: sources unchanged
            for s in srcs:
                hist.append(dict(op='snapshot', h=s, name='s%d' % s))
            hist.append(dict(op='metamut', h=out, others=srcs))
            hist.append(dict(op='grow', h=out, which=rng.randrange(5), off=rng.randrange(16), alt=rng.randrange(40)))
            hist.append(chk(out, ['values', 'cov', 'valid', 'nvalid', 'raw', 'layout']))
            for s in srcs:
                hist.append(dict(op='unchanged', h=s, name='s%d' % s,
                                 what='modifying the result of an operation disturbed one of its arguments'))
                hist.append(chk(s, ['values', 'cov', 'valid', 'nvalid', 'raw', 'layout']))
        else:
            # mutate / grow the sources: result unchanged
            hist.append(dict(op='snapshot', h=out, name='r'))
            for s in srcs:
                hist.append(dict(op='grow', h=s, which=rng.randrange(5), off=rng.randrange(16), alt=rng.randrange(40)))
                hist.append(chk(s, ['values', 'cov', 'valid', 'nvalid', 'raw', 'layout']))
            hist.append(dict(op='unchanged', h=out, name='r',
                             what='modifying an argument after the call disturbed the result'))
            hist.append(chk(out, ['values', 'cov', 'valid', 'nvalid', 'raw', 'layout']))
    return hist


# ------------------------------------------------------------------ C03
ALL_DT = INT_DT + FLT_DT + ['b']


def gen_c03(rng):
    mk = pick_map(rng, kinds=('plain', 'plain', 'plain', 'wide', 'rec', 'packed'), h=0)
    if mk['kind'] == 'plain' and rng.random() < 0.5:
        mk['dtype'] = rng.choice(['i1', 'u2', 'u4', 'u8', 'i2', 'f4'])
        lo, hi = INT_RANGE.get(mk['dtype'], (None, None))
        if mk['dtype'] in INT_DT:
            mk['sentinel'] = rng.choice([None, 0, hi, lo])
        else:
            mk['sentinel'] = rng.choice([None, -1.0, 0.5])
    cfg = (mk['nc'], mk['ns'])
    hist = [mk]
    hist += fill_steps(rng, mk, 0, rng.randint(1, 4))
    hist.append(chk(0))
    ncov = ncov_of(cfg)
    md = None
    if rng.random() < 0.5:
        md = {'AKEY': rng.randint(0, 99), 'SHORT': 'abc'}
        if rng.random() < 0.6:
            md['AVERYLONGKEYNAME'] = rng.randint(0, 9)
            md['FLOATKEY'] = 1.5
    r = rng.random()
    if r < 0.45:
        pixels = None
    else:
        k = rng.randint(1, min(6, ncov))
        pixels = rng.sample(range(ncov), k)       # unsorted, may include uncovered and trailing pixels
        if rng.random() < 0.3:
            pixels.append(ncov - 1) if (ncov - 1) not in pixels else None
    st = dict(op='wr', h=0, out=5, compress=rng.random() < 0.5, pixels=pixels)
    if md is not None:
        st['metadata'] = md
        if rng.random() < 0.4:
            # the accepted metadata first, then an assignment that must be rejected: the file carries the former
            hist.append(dict(op='setmeta', h=0, metadata=md))
            hist.append(dict(op='setmeta', h=0, bad=True, metadata=dict(md, AKEY=-1, lowercase=3)))
            st.pop('metadata')
            st['expect_metadata'] = md
    hist.append(st)
    hist.append(dict(op='ifexists', h=5))
    hist.append(chk(5, ['values', 'cov', 'valid', 'nvalid', 'raw', 'layout', 'paths', 'covmap']))
    hist.append(chk(0, ['values', 'cov', 'valid']))
    # continuation: the map read back is queried, updated and extended like the original
    for _ in range(rng.randint(1, 3)):
        q = rng.random()
        if q < 0.4:
            hist.append(dict(op='grow', h=5, which=rng.randrange(5), off=rng.randrange(16), alt=rng.randrange(40)))
        elif q < 0.8:
            stu = rand_update(rng, mk, h=5, forms=('pix', 'setitem_arr', 'pix'))
            hist.append(stu)
        else:
            hist.append(dict(op='wr', h=5, out=6, compress=rng.random() < 0.5, pixels=None))
            hist.append(chk(6, ['values', 'cov', 'valid', 'nvalid', 'raw', 'layout']))
        hist.append(chk(5, ['values', 'cov', 'valid', 'nvalid', 'raw', 'layout']))
    return hist


# ------------------------------------------------------------------ C10: twins by different routes
def gen_c10(rng):
    route = rng.choice(['shuffled', 'prealloc', 'cleared', 'wr', 'wr_partial', 'degrade', 'upgrade', 'astype', 'sop', 'single',
                        'covpixmap', 'mop', 'copy', 'mklike', 'bmap', 'rewrap', 'shuffled_f', 'aspacked'])
    cfg = rng.choice([(1, 4), (2, 4), (2, 8), (1, 8), (4, 8)])
    hist = []
    if route == 'aspacked':
        # an ordinary boolean map grown in arbitrary order, handed out again as a bit-packed map
        cfg = rng.choice([c for c in CFGS_PACKED if c[1] >= 4 * c[0]])
        mk = dict(op='mk', h=0, kind='plain', dtype='b', nc=cfg[0], ns=cfg[1], sentinel=None, cov_pixels=None)
    elif route in ('degrade', 'upgrade', 'astype', 'sop', 'mop'):
        mk = mk_plain(rng, 0, cfg, rng.choice(['f8', 'f4', 'i4', 'i8']), sentinel=None)
    elif route == 'shuffled_f':
        # a float map grown in arbitrary order (continuations with weights apply to these)
        mk = mk_plain(rng, 0, cfg, rng.choice(FLT_DT), sentinel=None)
    elif route == 'single':
        mk = pick_map(rng, kinds=('rec',), h=0)
        mk['nc'], mk['ns'] = cfg
        mk['cov_pixels'] = None
    elif route == 'bmap':
        cfg = rng.choice(CFGS_PACKED)
        mk = dict(op='mk', h=0, kind=rng.choice(['packed', 'plain']), nc=cfg[0], ns=cfg[1], sentinel=None, cov_pixels=None)
        if mk['kind'] == 'plain':
            mk['dtype'] = 'b'
    else:
        mk = pick_map(rng, kinds=('plain', 'wide', 'rec', 'packed'), h=0)
        if mk['kind'] != 'packed':
            mk['nc'], mk['ns'] = cfg
            mk['cov_pixels'] = None
    cfg = (mk['nc'], mk['ns'])
    if route == 'prealloc':
        mk['cov_pixels'] = rng.sample(range(ncov_of(cfg)), min(ncov_of(cfg) - 1, rng.randint(1, 4)))
    hist.append(mk)
    hist += fill_steps(rng, mk, 0, rng.randint(2, 4), forms=('pix', 'pix', 'setitem_arr'))
    if route == 'cleared':
        st = rand_update(rng, mk, h=0, forms=('pix',))
        st['operation'] = 'replace'
        st['values'] = None
        st.pop('single', None)
        seen = []
        for p in st['pixels']:
            if p not in seen:
                seen.append(p)
        st['pixels'] = seen
        hist.append(st)
    m1 = 0
    if route in ('wr', 'wr_partial'):
        pixels = None
        if route == 'wr_partial':
            pixels = rng.sample(range(ncov_of(cfg)), rng.randint(1, ncov_of(cfg)))
        hist.append(dict(op='wr', h=0, out=1, compress=rng.random() < 0.5, pixels=pixels))
        hist.append(dict(op='ifexists', h=1))
        m1 = 1
    elif route == 'degrade':
        hist.append(dict(op='degrade', h=0, out=1, nside_out=rng.choice([n for n in (1, 2, 4) if n < cfg[1]]),
                         reduction=rng.choice(['max', 'min', 'sum']), hw=None))
        m1 = 1
    elif route == 'upgrade':
        hist.append(dict(op='upgrade', h=0, out=1, nside_out=cfg[1] * 2))
        m1 = 1
    elif route == 'astype':
        hist.append(dict(op='astype', h=0, out=1, dtype='f8', sentinel=None))
        m1 = 1
    elif route == 'sop':
        hist.append(dict(op='sop', h=0, out=1, inplace=False, fn='+', scalar=1.0 if mk['dtype'] in FLT_DT else 1))
        m1 = 1
    elif route == 'single':
        names = [n for n, _ in mk['fields']]
        hist.append(dict(op='single', h=0, out=1, field=rng.choice(names), copy=True))
        m1 = 1
    elif route == 'covpixmap':
        hist.append(dict(op='covpixmap', h=0, out=1, which=rng.randrange(4)))
        m1 = 1
    elif route == 'mop':
        mk2 = dict(mk, h=7)
        hist.append(mk2)
        hist += fill_steps(rng, mk2, 7, 1, forms=('pix',), none_ok=False)
        hist.append(dict(op='mop', out=1, name=rng.choice(['sum_union', 'max_union', 'min_intersection', 'sum_intersection']), hs=[0, 7]))
        m1 = 1
    elif route == 'copy':
        hist.append(dict(op='copy', h=0, out=1))
        m1 = 1
    elif route == 'rewrap':
        hist.append(dict(op='rewrap', h=0, out=1, pad=rng.randint(0, 5)))
        m1 = 1
    elif route == 'aspacked':
        hist.append(dict(op='aspacked', h=0, out=1))
        m1 = 1
    elif route == 'mklike':
        hist.append(dict(op='mklike', h=0, out=1))
        m1 = 1
    elif route == 'bmap':
        mk2 = dict(mk, h=7)
        hist.append(mk2)
        hist += fill_steps(rng, mk2, 7, 1, forms=('pix',), none_ok=False)
        hist.append(dict(op='bmap', h=0, out=1, fn=rng.choice(['or', 'xor', 'and']), h2=7, inplace=False))
        m1 = 1
    m2 = 20
    hist.append(dict(op='canon', h=m1, out=m2))
    hist.append(chk(m1, ['values', 'cov', 'valid', 'nvalid']))
    hist.append(chk(m2, ['values', 'cov', 'valid', 'nvalid', 'raw', 'layout']))
    hist.append(dict(op='sameas', h=m1, ref=m2, what='a map and its canonical rebuild differ'))
    # continuation on both twins
    nxt = 30
    is_float_twin = (mk['kind'] == 'plain' and mk.get('dtype') in FLT_DT and mk.get('sentinel') is None
                     and route not in ('degrade', 'upgrade', 'astype', 'single', 'covpixmap', 'mklike', 'mop'))
    for _ in range(rng.randint(1, 3)):
        q = rng.random()
        if is_float_twin and q < 0.3:
            # weighted degrade: each twin serves as the weights' layout for the other (weights v*v + 1 > 0)
            w1, w2 = nxt, nxt + 1
            for src, dst in ((m1, w1), (m2, w2)):
                hist.append(dict(op='sop', h=src, out=dst, inplace=False, fn='**', scalar=2.0))
                hist.append(dict(op='sop', h=dst, out=dst, inplace=True, fn='+', scalar=1.0))
            nso = rng.choice([n for n in (1, 2, 4) if n < cfg[1]])
            hist.append(dict(op='degrade', h=m2, out=nxt + 2, nside_out=nso, reduction='wmean', hw=w1))
            hist.append(dict(op='degrade', h=m2, out=nxt + 3, nside_out=nso, reduction='wmean', hw=w2))
            hist.append(dict(op='degrade', h=m1, out=nxt + 4, nside_out=nso, reduction='wmean', hw=w2))
            hist.append(chk(nxt + 2, ['values', 'cov', 'valid', 'nvalid']))
            hist.append(chk(nxt + 3, ['values', 'cov', 'valid', 'nvalid']))
            hist.append(chk(nxt + 4, ['values', 'cov', 'valid', 'nvalid']))
            hist.append(dict(op='sameas', h=nxt + 2, ref=nxt + 3,
                             what='weighted degrade differs with content-equal weights of another layout'))
            hist.append(dict(op='sameas', h=nxt + 4, ref=nxt + 3,
                             what='weighted degrade of content-equal maps differs'))
            nxt += 5
        elif q < 0.2 and m1 != 0 and route in ('astype', 'sop', 'single', 'copy', 'rewrap', 'bmap'):
            # the map m1 was derived from is still alive: growing either of the two must not show in the other
            a = dict(op='grow', h=m1, which=rng.randrange(5), off=rng.randrange(16), alt=rng.randrange(40))
            hist += [a, dict(a, h=m2), chk(0)]
            b0 = dict(op='grow', h=0, which=rng.randrange(5), off=rng.randrange(16), alt=rng.randrange(40))
            hist += [b0, chk(0)]
        elif q < 0.35 and mk['kind'] in ('plain', 'packed', 'wide') and route not in ('degrade', 'upgrade', 'astype', 'single'):
            # the count is queried, then both twins get the same update through the pixel-range path
            ops_ = legal_ops(mk)
            op_ = rng.choice([o for o in ops_ if o != 'add'] or ['replace'])
            st_ = dict(op='rng', operation=op_, thr=0, ranges=rand_ranges(rng, cfg, overlapping=False))
            st_['value'] = None if (op_ == 'replace' and rng.random() < 0.3) else rand_value(rng, mk, allow_sentinel=False)
            hist += [chk(m1, ['nvalid']), chk(m2, ['nvalid']), dict(st_, h=m1), dict(st_, h=m2)]
        elif q < 0.45:
            a = dict(op='grow', h=m1, which=rng.randrange(5), off=rng.randrange(16), alt=rng.randrange(40))
            hist += [a, dict(a, h=m2)]
        elif q < 0.55:
            a = dict(op='copy', h=m1, out=nxt)
            hist += [a, dict(a, h=m2, out=nxt + 1)]
            hist.append(dict(op='sameas', h=nxt, ref=nxt + 1, what='copies of content-equal maps differ'))
            nxt += 2
        elif q < 0.75:
            a = dict(op='wr', h=m1, out=nxt, compress=True, pixels=None)
            hist += [a, dict(a, h=m2, out=nxt + 1)]
            hist.append(dict(op='sameas', h=nxt, ref=nxt + 1, what='files written from content-equal maps read back differently'))
            nxt += 2
        else:
            a = dict(op='queries', h=m1, ref=m2)
            hist.append(a)
        hist.append(chk(m1, ['values', 'cov', 'valid', 'nvalid', 'raw', 'layout']))
        hist.append(chk(m2, ['values', 'cov', 'valid', 'nvalid', 'raw', 'layout']))
        hist.append(dict(op='sameas', h=m1, ref=m2, what='content-equal maps diverged under the same continuation'))
    return hist


# ------------------------------------------------------------------ C16
def gen_c16(rng):
    cfg = rng.choice([(1, 2), (1, 4), (2, 4), (2, 8), (1, 8), (4, 8), (1, 1)])
    dt = rng.choice(['f4', 'f8', 'f8', 'i4', 'i8', 'i2'])
    npix = npix_of(cfg)
    n = rng.randint(1, min(30, npix))
    pix = rng.sample(range(npix), n)
    if dt in FLT_DT:
        vals = [rng.randint(-32, 32) / 4.0 for _ in pix]
        sent = None
    else:
        lo, hi = INT_RANGE[dt]
        sent = rng.choice([lo, -1, 0])
        vals = [v if v != sent else v + 1 for v in (rng.randint(-20, 20) for _ in pix)]
    hist = [dict(op='fromhp', out=0, nc=cfg[0], ns=cfg[1], dtype=dt, nest=rng.random() < 0.5, sentinel=sent,
                 pixels=pix, values=vals)]
    hist.append(chk(0, ['values', 'cov', 'valid', 'nvalid', 'raw', 'layout', 'paths']))
    hist.append(dict(op='hpround', h=0))
    st = dict(op='tohp', h=0)
    if cfg[1] > 1 and rng.random() < 0.5:
        st['nside'] = rng.choice([x for x in (1, 2, 4) if x < cfg[1]])
        st['reduction'] = rng.choice(['mean', 'max', 'sum'])
    hist.append(st)
    # some updates through ring / position addressing, then export again
    mk = mk_plain(rng, 0, cfg, dt, sentinel=sent)
    for _ in range(rng.randint(0, 2)):
        hist.append(rand_update(rng, mk, h=0, forms=('ring', 'pos', 'pix')))
        hist.append(chk(0, ['values', 'cov', 'valid', 'paths']))
    hist.append(dict(op='tohp', h=0))
    if rng.random() < 0.6:
        hist.append(dict(op='hpfile', h=0, out=3))
        hist.append(chk(3, ['values', 'valid', 'nvalid', 'layout']))
    if rng.random() < 0.4:
        # HEALPix-format files of the map: explicit partial (healsparse's writer), implicit NEST / RING with one or
        # several elements per row (written with astropy, as other HEALPix software writes them)
        fmts = ['explicit']
        if dt in FLT_DT:
            fmts += ['implicit_nest', 'implicit_ring', 'implicit_ring']
        hist.append(dict(op='rdeghp', h=0, outp=4, fmt=rng.choice(fmts), rows2d=rng.random() < 0.5, nside_out=None))
        hist.append(dict(op='ifexists', h=4))
        hist.append(chk(4, ['values', 'valid', 'nvalid', 'layout', 'cov']))
    if dt in FLT_DT or True:
        k = rng.randint(1, 6)
        lon = [rng.choice([0.0, 359.99, 45.0, 90.0, rng.uniform(0, 360)]) for _ in range(k)]
        lat = [rng.choice([89.9, -89.9, 0.0, rng.uniform(-89, 89)]) for _ in range(k)]
        # positions next to valid pixels so that the weighted mean is exercised
        import hpgeom as hpg
        plon, plat = hpg.pixel_to_angle(cfg[1], [p for p in pix[:3]])
        lon += [float(x) + rng.uniform(-0.5, 0.5) for x in plon]
        lat += [max(-89.9, min(89.9, float(x) + rng.uniform(-0.5, 0.5))) for x in plat]
        lon = [x % 360.0 for x in lon]
        hist.append(dict(op='interp', h=0, lon=lon, lat=lat))
    return hist


def gen_c16_rec(rng):
    """a record-array map updated through a field view with RING-ordered pixels (nest=False)"""
    mk = pick_map(rng, kinds=('rec',), h=0)
    names = [n for n, _ in mk['fields']]
    hist = [mk]
    pix = rand_pixels(rng, mk, unique=True, nmax=8)
    vals = [rand_value(rng, mk, allow_sentinel=False) for _ in pix]
    # every record stays valid throughout: the primary field never holds the map's sentinel (writing the sentinel
    # through a view is F22/F32 territory, decided under C02 and C14, not here)
    ip = names.index(mk['primary'])
    pt = dict(mk['fields'])[mk['primary']]
    sent = mk.get('sentinel')
    if sent is None and pt not in FLT_DT:
        sent = INT_RANGE[pt][0]
    for v in vals:
        while sent is not None and v[ip] == sent:
            v[ip] = v[ip] + 1
    # a boolean flag column next to the numeric ones (never the primary)
    boolf = None
    others = [n for n in names if n != mk['primary']]
    if others and rng.random() < 0.4:
        boolf = rng.choice(others)
        mk['fields'] = [(n, 'b' if n == boolf else t) for n, t in mk['fields']]
        ib = names.index(boolf)
        for v in vals:
            v[ib] = rng.random() < 0.6
    hist.append(dict(op='upd', h=0, form='pix', operation='replace', expect='ok', pixels=pix, values=vals, single=False))
    hist.append(chk(0))
    for _ in range(rng.randint(1, 2)):
        f = rng.choice([n for n in names if n != boolf])
        ft = dict(mk['fields'])[f]
        sub = [p for p in pix if rng.random() < 0.6] or pix[:1]
        if ft in FLT_DT:
            vv = [rng.randint(1, 32) / 4.0 for _ in sub]
        else:
            lo, hi = INT_RANGE[ft]
            vv = [rng.randint(1, min(hi, 20)) for _ in sub]
        if f == mk['primary'] and sent is not None:
            vv = [v + 1 if v == sent else v for v in vv]
        hist.append(dict(op='vwrite', h=0, field=f, pixels=sub, values=vv, target='valid', ring=True))
        hist.append(chk(0))
    hist.append(dict(op='tohp', h=0, key=rng.choice(names)))
    if boolf is not None:
        hist.append(dict(op='tohp', h=0, key=boolf))       # the dense export of the flag column: False where invalid
    return hist


def gen_c16_bool(rng):
    cfg = rng.choice([(1, 4), (2, 8)])
    mk = mk_plain(rng, 0, cfg, 'b')
    hist = [mk] + fill_steps(rng, mk, 0, 2, forms=('pix',))
    hist.append(dict(op='tohp', h=0))
    hist.append(dict(op='hpfile', h=0, out=3))
    hist.append(chk(3, ['values', 'valid']))
    return hist


# ------------------------------------------------------------------ C17
def gen_c17(rng):
    cfg = rng.choice([(1, 2), (1, 4), (2, 8), (1, 16), (2, 16), (4, 16), (1, 8), (4, 4), (2, 2), (1, 1), (8, 8)])
    mk = pick_map(rng, kinds=('plain', 'plain', 'wide', 'packed', 'rec'), h=0)
    if mk['kind'] != 'packed':
        mk['nc'], mk['ns'] = cfg
    mk['cov_pixels'] = None
    cfg = (mk['nc'], mk['ns'])
    npix = npix_of(cfg)
    nfine = nfine_of(cfg)
    # valid set: scatter, full cells at some level, full minus k
    pix = set()
    for _ in range(rng.randint(1, 4)):
        mode = rng.random()
        if mode < 0.3:
            for _ in range(rng.randint(1, 6)):
                pix.add(rng.randrange(npix))
        else:
            lvl = rng.choice([1, 4, 16, 64, 256, nfine, 4 * nfine])
            lvl = min(lvl, npix // 12 * 4 if npix >= 48 else 4)
            lvl = max(1, lvl)
            base = rng.randrange(npix // lvl) * lvl
            cell = list(range(base, base + lvl))
            k = rng.choice([0, 0, 1, 1, 2])
            for _ in range(min(k, len(cell) - 1)):
                cell.remove(rng.choice(cell))
            pix.update(cell)
    pix = sorted(pix)
    rng.shuffle(pix)
    pix = pix[:600]
    vals = [rand_value(rng, mk, allow_sentinel=False) for _ in pix]
    if mk['kind'] == 'wide':
        vals = [v or 1 for v in vals]
    if mk['kind'] == 'packed' or (mk['kind'] == 'plain' and mk.get('dtype') == 'b'):
        vals = [True for _ in pix]
    hist = [mk]
    k = rng.randint(1, len(pix))
    hist.append(dict(op='upd', h=0, form='pix', operation='replace', expect='ok', pixels=pix[:k], values=vals[:k], single=False))
    if k < len(pix):
        hist.append(dict(op='upd', h=0, form='pix', operation='replace', expect='ok', pixels=pix[k:], values=vals[k:], single=False))
    hist.append(dict(op='moc', h=0))
    return hist


def gen_c17_deep(rng):
    """a cell nine or more levels above the sparse resolution with exactly one (or two) missing child"""
    depth = rng.choice([9, 9, 10])
    ns = 2 ** depth
    nc = 1
    mk = mk_plain(rng, 0, (nc, ns), rng.choice(['f4', 'i2', 'b']), sentinel=None)
    mk['nomodel'] = True
    base_cell = rng.randrange(12)
    lo = base_cell * 4 ** depth
    hi = lo + 4 ** depth
    holes = sorted(rng.sample(range(lo, hi), rng.choice([1, 1, 2])))
    rows = []
    a = lo
    for hpx in holes:
        if a < hpx:
            rows.append([a, hpx])
        a = hpx + 1
    if a < hi:
        rows.append([a, hi])
    val = True if mk['dtype'] == 'b' else 1
    return [mk, dict(op='rng', h=0, operation='replace', thr=0, ranges=rows, value=val, nomodel=True), dict(op='moc', h=0)]


def gen_c17_big(rng):
    """orders 13 to 16 (UNIQ numbers around and beyond 32 bits), every base pixel incl. the last ones: scattered pixels, one
    full group of siblings (merged one level up) and one group with a missing sibling"""
    order = rng.choice([15, 15, 16, 14, 14, 13])      # 14: the largest UNIQ numbers just pass 2**31
    ns = 2 ** order
    nc = rng.choice([32, 64, 128])
    npix = 12 * ns * ns
    pix = set()
    for _ in range(rng.randint(1, 5)):
        base = rng.choice([rng.randrange(12), 11, 8, 0])
        pix.add(base * ns * ns + rng.randrange(ns * ns))
    g = rng.randrange(npix // 4) * 4
    pix.update(range(g, g + 4))
    g2 = (rng.randrange(npix // 16) * 16)
    grp = list(range(g2, g2 + 16))
    grp.remove(rng.choice(grp))
    if rng.random() < 0.5:
        pix.update(grp)
    return [dict(op='mocbig', nc=nc, ns=ns, pixels=sorted(pix), dtype=rng.choice(['b', 'f4', 'i2']))]


# ------------------------------------------------------------------ C18
def gen_c18(rng):
    kind = rng.choice(['plain', 'plain', 'wide', 'rec'])
    ns = rng.choice([4, 8])
    nfiles = rng.randint(1, 4)
    base = pick_map(rng, kinds=(kind,), h=0)
    hist = []
    hs = []
    npix = 12 * ns * ns
    nc_out = rng.choice([None, 1, 2, 4])
    if nc_out is not None and nc_out > ns:
        nc_out = None
    # an output coverage pixel region where the inputs interleave
    region = rng.randrange(12)
    region_lo, region_hi = region * (npix // 12), (region + 1) * (npix // 12)
    used = set()
    overlap_wanted = rng.random() < 0.25
    if overlap_wanted:
        nfiles = max(nfiles, 2)
    for k in range(nfiles):
        mk = dict(base)
        mk['h'] = k
        mk['nc'] = rng.choice([c for c in (1, 2, 4) if c <= ns])
        mk['ns'] = ns
        mk['cov_pixels'] = None
        hist.append(mk)
        pix = []
        for _ in range(rng.randint(1, 12)):
            p = rng.randrange(region_lo, region_hi) if rng.random() < 0.7 else rng.randrange(npix)
            if p in pix:
                continue
            if p in used and not overlap_wanted:
                continue
            pix.append(p)
        if not pix:
            pix = [p for p in range(region_lo, region_hi) if p not in used][:1]
        if overlap_wanted and used and rng.random() < 0.7:
            # share one or two valid pixels with an earlier file
            for p in rng.sample(sorted(used), min(len(used), rng.randint(1, 2))):
                if p not in pix:
                    pix.append(p)
        used.update(pix)
        vals = [rand_value(rng, mk, allow_sentinel=False) for _ in pix]
        if kind == 'wide':
            vals = [v or 1 for v in vals]
        if rng.random() < 0.6 and len(pix) > 1:
            # several updates, highest coverage pixels first: the file's block order then differs from
            # the ascending pixel order
            nf_k = (ns // mk['nc']) ** 2
            order = sorted(range(len(pix)), key=lambda j: -(pix[j] // nf_k))
            nchunk = rng.randint(2, 3)
            size = max(1, (len(order) + nchunk - 1) // nchunk)
            for c0 in range(0, len(order), size):
                sel = order[c0:c0 + size]
                hist.append(dict(op='upd', h=k, form='pix', operation='replace', expect='ok',
                                 pixels=[pix[j] for j in sel], values=[vals[j] for j in sel], single=False))
        else:
            hist.append(dict(op='upd', h=k, form='pix', operation='replace', expect='ok', pixels=pix, values=vals,
                             single=False))
        hs.append(k)
    st = dict(op='cat', hs=hs, out=20, nside_coverage_out=nc_out)
    if rng.random() < 0.5 or overlap_wanted:
        st['check_overlap'] = True
    if rng.random() < (0.5 if overlap_wanted else 0.15):
        # or_overlap: integer maps (wide masks included) are or-ed where inputs overlap, other kinds still raise
        st['or_overlap'] = True
    hist.append(st)
    hist.append(dict(op='ifexists', h=20))
    hist.append(chk(20, ['values', 'valid', 'nvalid', 'layout', 'cov', 'raw']))
    return hist


# ------------------------------------------------------------------ C19
def gen_c19(rng):
    kind = rng.choice(['float', 'float', 'int', 'int0', 'rec', 'wide'])
    cfg = rng.choice([(1, 4), (2, 4), (2, 8), (1, 8), (4, 8)])
    if kind == 'float':
        mk = mk_plain(rng, 0, cfg, rng.choice(FLT_DT), sentinel=rng.choice([None, None, -1.0]))
        reds = ['mean', 'median', 'std', 'max', 'min', 'sum', 'prod', 'wmean']
    elif kind == 'int':
        mk = mk_plain(rng, 0, cfg, rng.choice(['i2', 'i4', 'i8']), sentinel=rng.choice([None, 5]))
        reds = ['mean', 'max', 'min', 'sum', 'wmean', 'median']
    elif kind == 'int0':
        mk = mk_plain(rng, 0, cfg, rng.choice(['i2', 'i4', 'u2', 'u1']), sentinel=0)
        reds = ['or', 'and', 'max']
    elif kind == 'rec':
        mk = pick_map(rng, kinds=('rec',), h=0)
        mk['nc'], mk['ns'] = cfg
        mk['cov_pixels'] = None
        reds = ['mean', 'max', 'min', 'sum', 'wmean']
    else:
        mk = dict(op='mk', h=0, kind='wide', nc=cfg[0], ns=cfg[1], maxbits=rng.choice([3, 8, 9]), sentinel=None, cov_pixels=None)
        reds = ['or', 'and']
    hist = [mk]
    ncov = ncov_of(cfg)
    nfine = nfine_of(cfg)
    covs = rng.sample(range(ncov), min(ncov, rng.randint(1, 4)))
    pix = []
    for c in covs:
        for _ in range(rng.randint(1, 8)):
            p = c * nfine + rng.randrange(nfine)
            if p not in pix:
                pix.append(p)
    vals = []
    for p in pix:
        if kind == 'float':
            vals.append(rng.randint(-16, 16) / 4.0)
        elif kind == 'int':
            vals.append(rng.randint(-6, 6))
        elif kind == 'int0':
            vals.append(rng.randint(1, 15))
        else:
            vals.append(rand_value(rng, mk, allow_sentinel=False))
    if kind == 'wide':
        vals = [v or 1 for v in vals]
    k = rng.randint(1, len(pix))
    hist.append(dict(op='upd', h=0, form='pix', operation='replace', expect='ok', pixels=pix[:k], values=vals[:k], single=False))
    if k < len(pix):
        hist.append(dict(op='upd', h=0, form='pix', operation='replace', expect='ok', pixels=pix[k:], values=vals[k:], single=False))
    red = rng.choice(reds)
    outs = [n for n in (1, 2, 4) if cfg[0] <= n < cfg[1]]
    if not outs:
        return gen_c19(rng)
    nside_out = rng.choice(outs)
    hw = None
    if red == 'wmean':
        wmk = mk_plain(rng, 1, cfg, rng.choice(FLT_DT), sentinel=None)
        hist.append(wmk)

        def isvalid(v):
            sent = mk.get('sentinel')
            if mk['kind'] == 'rec':
                names = [n for n, _ in mk['fields']]
                v = v[names.index(mk['primary'])]
                dtp = dict(mk['fields'])[mk['primary']]
            else:
                dtp = mk.get('dtype')
            if sent is None and dtp and dtp.startswith('u'):
                sent = 0
            return sent is None or v != sent
        order = [j for j in range(len(pix)) if isvalid(vals[j])]
        if not order:
            return gen_c19(rng)
        if rng.random() < 0.5:
            rng.shuffle(order)
        hist.append(dict(op='upd', h=1, form='pix', operation='replace', expect='ok', pixels=[pix[j] for j in order],
                         values=[rng.choice([0.5, 1.0, 2.0, 4.0]) for _ in order], single=False))
        hw = 1
    if kind in ('float', 'int', 'int0') and rng.random() < 0.3:
        # HEALPix-format input of the same map (explicit partial; implicit NEST / RING for default-sentinel floats)
        fmts = ['explicit', 'explicit']
        if kind == 'float' and mk.get('sentinel') is None:
            fmts += ['implicit_nest', 'implicit_ring']
        red_hp = rng.choice([r for r in reds if r != 'wmean'])
        hist.append(dict(op='rdeghp', h=0, outp=12, fmt=rng.choice(fmts), rows2d=rng.random() < 0.5,
                         nside_out=nside_out, reduction=red_hp))
        hist.append(dict(op='ifexists', h=12))
        hist.append(chk(12, ['values', 'valid', 'nvalid', 'cov']))
    pixels = None
    if rng.random() < 0.6:
        pixels = rng.sample(range(ncov), rng.randint(1, min(5, ncov)))
        if rng.random() < 0.4 and (ncov - 1) not in pixels:
            pixels.append(ncov - 1)           # a pixel beyond the last covered one
    hist.append(dict(op='rdeg', h=0, out=10, out2=11, nside_out=nside_out, reduction=red, pixels=pixels, hw=hw,
                     compress=rng.random() < 0.5))
    hist.append(dict(op='ifexists', h=10))
    c10 = chk(10, ['values', 'cov', 'valid', 'nvalid', 'raw', 'layout'])
    if red == 'and':
        c10['l1only'] = True        # (the 'and' reduction over partly valid groups is finding F21 of C07, not of C19)
    hist.append(c10)
    hist.append(dict(op='sameas', h=10, ref=11, what='degrade-on-read differs from read followed by degrade'))
    hist.append(dict(op='covsame', h=10, ref=11))
    return hist


# ------------------------------------------------------------------ C20
def gen_c20(rng):
    import hpgeom as hpg
    cfg = rng.choice([(1, 4), (2, 8), (4, 16), (2, 16), (8, 32)])
    mk = mk_plain(rng, 0, cfg, rng.choice(['f8', 'i4', 'b']), sentinel=None)
    npix = npix_of(cfg)
    shape = rng.choice(['single', 'scatter', 'cap_n', 'cap_s', 'lon0', 'patches', 'small', 'polar_lon0', 'polar_lon0'])
    ns = cfg[1]
    if shape == 'single':
        pix = [rng.randrange(npix)]
    elif shape == 'scatter':
        pix = rng.sample(range(npix), min(npix, rng.randint(2, 12)))
    elif shape in ('cap_n', 'cap_s'):
        lat = 88.0 if shape == 'cap_n' else -88.0
        pix = [int(p) for p in hpg.query_circle(ns, 10.0, lat, 6.0)]
    elif shape == 'lon0':
        pix = [int(p) for p in hpg.query_circle(ns, rng.choice([0.0, 359.5, 1.0]), rng.uniform(-50, 50), 8.0)]
    elif shape == 'polar_lon0':
        # near a pole and wrapping through longitude zero, filling whole coverage pixels
        cfg = rng.choice([(8, 32), (16, 64), (32, 128)])
        mk = mk_plain(rng, 0, cfg, rng.choice(['f8', 'f4']), sentinel=None)
        ns = cfg[1]
        npix = npix_of(cfg)
        sgn = rng.choice([1.0, -1.0])
        lo, hi = sorted([sgn * rng.uniform(80.0, 84.0), sgn * rng.uniform(86.0, 89.5)])
        hw = rng.uniform(15.0, 30.0)
        cra, cdec = hpg.pixel_to_angle(cfg[0], list(range(12 * cfg[0] ** 2)))
        covp = [c for c in range(12 * cfg[0] ** 2)
                if (cra[c] > 360.0 - hw or cra[c] < hw) and lo < cdec[c] < hi]
        nf = (cfg[1] // cfg[0]) ** 2
        pix = []
        for c in covp[:12]:
            pix += list(range(c * nf, (c + 1) * nf))
    elif shape == 'patches':
        pix = []
        for _ in range(3):
            pix += [int(p) for p in hpg.query_circle(ns, rng.uniform(20, 340), rng.uniform(-60, 60), 5.0)]
    else:
        base = rng.randrange(npix // 4) * 4
        pix = [base, base + 1, base + 2, base + 3][:rng.randint(2, 4)]
    pix = sorted(set(pix))[:300]
    if not pix:
        pix = [0]
    val = True if mk['dtype'] == 'b' else 1
    hist = [mk, dict(op='upd', h=0, form='pix', operation='replace', expect='ok', pixels=pix, values=val, single=True,
                     pyscalar=True)]
    if shape != 'polar_lon0' and rng.random() < 0.35:
        # a history before the draw: the count is queried (memoised), then the footprint changes through another
        # path (range slice path, explicit pixels, clearing): the generators must draw from the footprint as it is now
        hist.append(chk(0, ['nvalid']))
        mode = rng.choice(['rng_add', 'rng_add', 'upd_add', 'clear'])
        if mode == 'rng_add':
            a = rng.randrange(npix)
            b = min(npix, a + rng.randint(1, 40))
            hist.append(dict(op='rng', h=0, operation='replace', thr=0, ranges=[(a, b)], value=val))
        elif mode == 'upd_add':
            extra = [p for p in rng.sample(range(npix), min(npix, 6)) if p not in pix] or [pix[0]]
            hist.append(dict(op='upd', h=0, form='pix', operation='replace', expect='ok', pixels=extra, values=val,
                             single=True, pyscalar=True))
        elif len(pix) > 1:
            drop = rng.sample(pix, rng.randint(1, len(pix) - 1))
            if rng.random() < 0.5:
                hist.append(dict(op='upd', h=0, form='pix', operation='replace', expect='ok', pixels=drop, values=None))
            else:
                a = min(drop)
                hist.append(dict(op='rng', h=0, operation='replace', thr=0, ranges=[(a, a + 1)], value=None))
    kind = rng.choice(['fast', 'fast', 'slow'])
    n = rng.choice([0, 1, 17, 1000])
    st = dict(op='rand', h=0, kind=kind, n=n, seed=rng.randrange(2 ** 31), footprint=shape)
    if kind == 'fast':
        st['nside_randoms'] = ns * rng.choice([2, 4, 8])
        if len(pix) <= 4 and rng.random() < 0.7:
            st['nside_randoms'] = ns * 2
            st['n'] = 40 * len(pix) * 4 + 200
            st['occupancy'] = True
    else:
        if len(pix) <= 12 and rng.random() < 0.6:
            st['n'] = 60 * len(pix) + 100
            st['occupancy'] = True
        elif shape == 'polar_lon0':
            st['n'] = 100 * len(pix) + 100
            st['occupancy'] = True
            st['timeout'] = 60
    hist.append(st)
    return hist


# ------------------------------------------------------------------ geometry histories (C08, C13)
def rand_shape(rng, ns):
    t = rng.choice(['circle', 'circle', 'polygon', 'ellipse', 'box'])
    ra = rng.choice([rng.uniform(5, 355), 0.5, 359.5, 180.0])
    dec = rng.choice([rng.uniform(-70, 70), 85.0, -85.0, 0.0])
    size = rng.uniform(2.0, 12.0)
    if t == 'circle':
        s = dict(type='circle', ra=ra, dec=dec, radius=size)
    elif t == 'ellipse':
        s = dict(type='ellipse', ra=ra, dec=max(-60, min(60, dec)), a=size, b=size / 2.0, alpha=rng.uniform(0, 180))
    elif t == 'polygon':
        d = max(-60, min(60, dec))
        r0 = ra if 20 < ra < 340 else 100.0
        s = dict(type='polygon', ras=[r0 - size, r0 + size, r0 + size, r0 - size], decs=[d - size / 2, d - size / 2, d + size / 2, d + size / 2])
    else:
        d = max(-60, min(60, dec))
        r0 = ra if 20 < ra < 340 else 100.0
        s = dict(type='box', ra1=r0 - size, ra2=r0 + size, dec1=d - size / 2, dec2=d + size / 2)
    if rng.random() < 0.3 and ns >= 8:
        s['nside_render'] = rng.choice([x for x in (ns // 4, ns // 2, ns) if x >= 1])
    return s


def gen_geom(rng, wide_only=False):
    cfg = rng.choice([(1, 8), (2, 8), (2, 16), (4, 16), (4, 32)])
    kind = 'wide' if wide_only else rng.choice(['wide', 'int', 'bool', 'packed'])
    hist = []
    if kind == 'wide':
        maxbits = rng.choice([8, 9, 16, 17, 24, 33])
        mk = dict(op='mk', h=0, kind='wide', nc=cfg[0], ns=cfg[1], maxbits=maxbits, sentinel=None, cov_pixels=None)
        width = (maxbits - 1) // 8 + 1

        def val():
            cands = [b for b in (0, 7, 8, 15, 16, 8 * width - 1, 1, 3) if b < 8 * width]
            return sorted(set(rng.choice(cands) for _ in range(rng.randint(1, 3))))
    elif kind == 'int':
        mk = mk_plain(rng, 0, cfg, rng.choice(['i2', 'i4', 'u2', 'i8', 'u1']), sentinel=0)

        def val():
            return rng.choice([1, 2, 3, 4, 8])
    elif kind == 'bool':
        mk = mk_plain(rng, 0, cfg, 'b')

        def val():
            return True
    else:
        cfgp = rng.choice([(1, 8), (2, 8), (2, 16), (4, 16)])
        mk = dict(op='mk', h=0, kind='packed', nc=cfgp[0], ns=cfgp[1], sentinel=None, cov_pixels=None)
        cfg = cfgp

        def val():
            return True
    hist.append(mk)
    if rng.random() < 0.5:
        hist += fill_steps(rng, mk, 0, 1, forms=('pix',), none_ok=False)
    hist.append(chk(0))
    nxt = 5
    for _ in range(rng.randint(1, 3)):
        q = rng.random()
        if q < (0.35 if kind == 'wide' else 0.2):
            v = val()
            st = dict(op='geom', mode='get_map', out=nxt, shape=rand_shape(rng, cfg[1]), value=v, nc=cfg[0], ns=cfg[1])
            if kind == 'wide':
                st['maxbits'] = rng.choice([None, None, max(v) + 1, max(v) + 9])
                if st['maxbits'] is None and rng.random() < 0.6:
                    # the width is inferred from a bit list whose largest bit lies on a byte boundary
                    top = rng.choice([0, 8, 16, 24, 32])
                    v = sorted(set([b for b in v if b < top] + [top]))
                    st['value'] = v
            else:
                st['dtype'] = mk.get('dtype', 'b') if kind != 'packed' else 'b'
            if kind == 'packed':
                continue
            hist.append(st)
            hist.append(chk(nxt))
            if kind == 'wide':
                hist.append(dict(op='chkbits', h=nxt, bitlists=[[b] for b in v]))
            nxt += 1
        elif q < 0.3:
            v = val()
            hist.append(dict(op='geom', mode='get_map_like', out=nxt, like=0, shape=rand_shape(rng, cfg[1]), value=v))
            hist.append(chk(nxt))
            nxt += 1
        elif q < 0.42 and kind in ('wide', 'int'):
            hist.append(chk(0, ['nvalid']))
            hist.append(dict(op='geom', mode='realize', h=0, shapes=[rand_shape(rng, cfg[1]) for _ in range(rng.randint(1, 2))],
                             value=val(), thr=rng.choice([None, 0])))
            hist.append(chk(0))
        else:
            modes = ['or', 'ior', 'and', 'iand']
            if kind == 'int':
                modes += ['add', 'iadd']
            mode = rng.choice(modes)
            st = dict(op='geom', mode=mode, h=0, shape=rand_shape(rng, cfg[1]), value=val(), thr=rng.choice([None, 0, 0]))
            if mode in ('or', 'and', 'add'):
                st['out'] = nxt
            hist.append(chk(0, ['nvalid']))
            hist.append(st)
            if 'out' in st:
                hist.append(chk(nxt))
                nxt += 1
            hist.append(chk(0))
            if kind == 'wide':
                hist.append(dict(op='chkbits', h=0, bitlists=[[b] for b in st['value']]))
    return hist
