#!/bin/bash
# run all 20 quick checks with several seeds, 4 properties at a time; print only failures
cd /verif
for seed in "$@"; do
  echo "== seed $seed"
  ls coq/theories/Properties/ | sed -n 's/^\(C[0-9][0-9]\)\.v$/\1/p' | xargs -P 4 -I{} sh -c "./check {} --no-build --seed $seed 2>&1 | grep -v 'WARNING conda' | grep -v '^KNOWN-FINDING' | tail -3 | sed 's/^/{} s$seed: /'" | grep -v " 0 failures" 
done
echo MULTISEED-DONE
