"""Infrastructure shared by all property checks: paths, build, model runner, evidence,
known findings, replay files.  Run under /venv/bin/python with PYTHONPATH=/repo:/verif."""
import os
import sys
import json
import time
import fcntl
import hashlib
import subprocess
from fractions import Fraction

VERIF = os.environ.get('VERIF_DIR', '/verif')
REPO = os.environ.get('VERIF_REPO', '/repo')
COQ = os.path.join(VERIF, 'coq')
RUNNER = os.path.join(COQ, 'runner', 'runner')
WORK = os.path.join(VERIF, 'work')
EVID = os.path.join(VERIF, 'evidence')
REPLAY = os.path.join(VERIF, 'replay')

TRUSTED_BASE = [
    "Coq 8.16.1 kernel via coqc (vm_compute used; native_compute not used)",
    "axioms: none declared; per-theorem Print Assumptions output is parsed on every run",
    "extraction: Require Extraction + ExtrOcamlBasic only (its Extract Inductive for bool, option, "
    "unit, list, prod, sumbool and Extract Inlined Constant for andb, orb, negb, fst, snd); no "
    "Extract Constant of ours; Z/N/positive/Q/nat stay Coq datatypes",
    "OCaml 4.13.1 compiler and the driver coq/runner/main.ml (line parser/printer)",
    "correspondence harness (harness/*.py): generators, implementation runner, comparison (the model is hand "
    "written; the tie to /repo is this per-run behavioural correspondence, there is no source translator)",
    "NumPy element arithmetic, hpgeom, astropy FITS: modelled/oracle, not verified",
]


def log(*a):
    print(*a, file=sys.stderr, flush=True)


class BuildError(Exception):
    pass


def sh(cmd, cwd=None, timeout=1800):
    p = subprocess.run(cmd, shell=True, cwd=cwd, stdout=subprocess.PIPE, stderr=subprocess.STDOUT,
                       timeout=timeout, text=True)
    return p.returncode, p.stdout


def build(jobs=16):
    """Regenerate Src facts from /repo, build the Coq development and the extracted runner.
    Returns dict(ok, log, failed_files).  Serialised by a file lock."""
    os.makedirs(WORK, exist_ok=True)
    lock = open(os.path.join(VERIF, '.build.lock'), 'w')
    fcntl.flock(lock, fcntl.LOCK_EX)
    try:
        t0 = time.time()
        from harness import translate
        facts = translate.regenerate()
        rc, out = sh('coq_makefile -f _CoqProject -o Makefile > /dev/null 2>&1; '
                     'timeout 1500 make -k -j%d 2>&1 | grep -v "^COQDEP\\|^COQC \\|^CAMLC\\|^WARNING conda" ' % jobs,
                     cwd=COQ, timeout=1800)
        failed = []
        for line in out.splitlines():
            if line.startswith('File "./theories/'):
                f = line.split('"')[1]
                if f not in failed:
                    failed.append(f)
        model_ok = all(os.path.exists(os.path.join(COQ, 'theories', f + '.vo'))
                       for f in MODEL_FILES)
        if not model_ok:
            raise BuildError('model files failed to build:\n' + out[-4000:])
        # extraction + runner, only when the model changed
        exec_vo = os.path.join(COQ, 'theories', 'Exec.vo')
        stamp = max(os.path.getmtime(os.path.join(COQ, 'theories', f + '.vo'))
                    for f in MODEL_FILES if os.path.exists(os.path.join(COQ, 'theories', f + '.vo')))
        stamp = max(stamp, os.path.getmtime(os.path.join(COQ, 'runner', 'main.ml')),
                    os.path.getmtime(os.path.join(COQ, 'theories', 'Extract.v')))
        if not os.path.exists(RUNNER) or os.path.getmtime(RUNNER) < stamp:
            rc2, out2 = sh('coqc -Q ../theories HS ../theories/Extract.v 2>&1 && '
                           'ocamlfind ocamlopt -O3 -w -a model.mli model.ml main.ml -o runner 2>&1; '
                           'rm -f ../theories/Extract.vo ../theories/Extract.glob ../theories/.Extract.aux',
                           cwd=os.path.join(COQ, 'runner'), timeout=600)
            if not os.path.exists(RUNNER) or os.path.getmtime(RUNNER) < stamp:
                raise BuildError('runner build failed:\n' + out2[-4000:])
        return dict(ok=(len(failed) == 0), log=out[-6000:], failed_files=failed, facts=facts,
                    wall_s=time.time() - t0)
    finally:
        fcntl.flock(lock, fcntl.LOCK_UN)
        lock.close()


MODEL_FILES = ['Prelude', 'Cov', 'Map', 'Spec', 'Exec', 'Packed', 'Moc', 'Ops', 'Spec2', 'Exec2']


def check_property_file(pid):
    """Compile Properties/<pid>.v on its own and parse Print Assumptions.
    Returns dict(obligations, discharged, theorems=[(name, assumptions)], ok, log)."""
    src = os.path.join(COQ, 'theories', 'Properties', pid + '.v')
    text = open(src).read()
    import re
    names = re.findall(r'^\s*Print Assumptions\s+([A-Za-z0-9_\.]+)\s*\.', text, re.M)
    rc, out = sh('timeout 900 coqc -Q theories HS theories/Properties/%s.v 2>&1 | grep -v "^WARNING conda"' % pid,
                 cwd=COQ, timeout=1000)
    vo = src[:-2] + '.vo'
    compiled = os.path.exists(vo) and os.path.getmtime(vo) >= os.path.getmtime(src) and 'Error' not in out
    # split output into one block per Print Assumptions
    blocks = []
    cur = None
    for line in out.splitlines():
        if line.startswith('Closed under the global context'):
            blocks.append([])
            cur = None
        elif line.startswith('Axioms:'):
            cur = []
            blocks.append(cur)
        elif cur is not None and line.strip():
            if not line.startswith(' ') and ':' in line:
                cur.append(line.split(':')[0].strip())
            elif not line.startswith(' '):
                cur.append(line.strip())
    ALLOWED = ()  # no axiom is expected anywhere in this development
    theorems = []
    discharged = 0
    for i, n in enumerate(names):
        if compiled and i < len(blocks):
            ax = blocks[i]
            good = all(a in ALLOWED for a in ax)
            theorems.append(dict(name=n, axioms=ax, ok=good))
            discharged += 1 if good else 0
        else:
            theorems.append(dict(name=n, axioms=None, ok=False))
    return dict(obligations=len(names), discharged=discharged, theorems=theorems,
                ok=(compiled and discharged == len(names) and len(names) > 0), log=out[-3000:])


# ---------------- model runner ----------------

def enc_groups(groups):
    return ';'.join(' '.join(str(int(x)) for x in g) for g in groups)


def _run_model_shard(histories):
    lines = []
    for h in histories:
        lines.append('R')
        for op in h:
            lines.append(enc_groups(op))
    inp = '\n'.join(lines) + '\n'
    def _big_stack():
        import resource
        try:
            resource.setrlimit(resource.RLIMIT_STACK, (resource.RLIM_INFINITY, resource.RLIM_INFINITY))
        except Exception:
            pass
    p = subprocess.run([RUNNER], input=inp, stdout=subprocess.PIPE, stderr=subprocess.PIPE, text=True,
                       preexec_fn=_big_stack)
    if p.returncode != 0:
        raise RuntimeError('model runner failed: ' + p.stderr[-2000:])
    out = p.stdout.split('\n')
    res = []
    k = 0
    for h in histories:
        assert out[k] == 'R', out[k][:100]
        k += 1
        rs = []
        for _ in h:
            rs.append([[int(t) for t in g.split()] for g in out[k].split(';')])
            k += 1
        res.append(rs)
    return res


def run_model(histories, jobs=None):
    """histories: list of list of op (op = list of int lists).  Returns list of list of result,
    result = list of int lists.  Shards run as parallel runner processes."""
    jobs = jobs or int(os.environ.get('VERIF_JOBS', '16'))
    n = len(histories)
    if n <= 4 or jobs <= 1:
        return _run_model_shard(histories)
    from concurrent.futures import ThreadPoolExecutor
    nsh = min(jobs, n)
    shards = [histories[i::nsh] for i in range(nsh)]
    with ThreadPoolExecutor(max_workers=nsh) as ex:
        outs = list(ex.map(_run_model_shard, shards))
    res = [None] * n
    for i, o in enumerate(outs):
        for j, r in enumerate(o):
            res[i + j * nsh] = r
    return res


# ---------------- values ----------------

def frac(x):
    """exact rational of a Python/NumPy scalar"""
    import numpy as np
    if isinstance(x, (bool, np.bool_)):
        return Fraction(int(x))
    if isinstance(x, (int, np.integer)):
        return Fraction(int(x))
    n, d = float(x).as_integer_ratio()
    return Fraction(n, d)


def fr_tokens(f):
    return [f.numerator, f.denominator]


# ---------------- evidence / findings ----------------

def load_known_findings():
    p = os.path.join(VERIF, 'known_findings.json')
    if not os.path.exists(p):
        return []
    return json.load(open(p)).get('findings', [])


def write_evidence(pid, tier, seed, coverage, assumptions, wall_s, violations):
    os.makedirs(EVID, exist_ok=True)
    ev = dict(property_id=pid, tier=tier, seed=seed, level='proof', coverage=coverage,
              assumptions=assumptions, wall_s=round(wall_s, 2), violations=violations)
    with open(os.path.join(EVID, pid + '.json'), 'w') as f:
        json.dump(ev, f, indent=1, default=str)


def write_replay(pid, payload):
    os.makedirs(REPLAY, exist_ok=True)
    s = json.dumps(payload, sort_keys=True, default=str)
    hsh = hashlib.sha256(s.encode()).hexdigest()[:12]
    path = os.path.join(REPLAY, '%s-%s.json' % (pid, hsh))
    with open(path, 'w') as f:
        json.dump(payload, f, indent=1, default=str)
    return path


FORBIDDEN = r"Admitted|\badmit\b|^\s*Axiom\b|^\s*Parameter\b|^\s*Conjecture\b|Unset Guard|bypass_check|type-in-type|impredicative-set|Admit Obligations"


def scan_sources():
    """grep the whole development for declarations that would weaken the proofs"""
    import re
    hits = []
    root = os.path.join(COQ, 'theories')
    for dp, dn, fn in os.walk(root):
        for f in fn:
            if f.endswith('.v'):
                for k, line in enumerate(open(os.path.join(dp, f)), 1):
                    if re.search(FORBIDDEN, line) and not line.lstrip().startswith('(*'):
                        hits.append('%s:%d: %s' % (os.path.relpath(os.path.join(dp, f), root), k, line.strip()[:100]))
    return hits


def coqchk(pid):
    """independent re-check of the property module and everything it depends on"""
    rc, out = sh('timeout 2400 coqchk -silent -o -Q theories HS HS.Properties.%s 2>&1 | grep -v "^WARNING conda"' % pid,
                 cwd=COQ, timeout=2500)
    ax = None
    lines = out.splitlines()
    for i, l in enumerate(lines):
        if l.startswith('* Axioms:'):
            ax = l.split(':', 1)[1].strip()
            j = i + 1
            while j < len(lines) and lines[j].strip() and not lines[j].startswith('*'):
                ax += ' ' + lines[j].strip()
                j += 1
    ok = (ax == '<none>') and 'type-in-type: <none>' in out and 'unsafe (co)fixpoints: <none>' in out and \
        'positivity is assumed: <none>' in out
    return dict(ok=ok, axioms=ax, tail=out[-600:])
