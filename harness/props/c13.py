"""C13 — see DESIGN.md section 7 (C13)."""
from harness import histprop, gens2

RULE = ("seeded random histories from harness/gens2.gen_c13; after every step the affected maps are observed over ALL "
        "pixels (values, coverage mask, valid set, count, raw arrays, extracted layout predicate) and compared with "
        "the L1 model and the L0 dense specification; result parameters (resolution, kind, dtype, sentinel) are "
        "checked against the documented rules; non-trivial = an operation followed by a check, distinct by the "
        "SHA-256 of the JSON history")


def run(tier, seed, boost=False, facts=None):
    n = 300 if tier == 'quick' else 5000
    if boost:
        n *= 3
    def gen(rng):
        if rng.random() < 0.2:
            return gens2.gen_geom(rng, wide_only=True)
        return gens2.gen_c13(rng)
    return histprop.run_property('C13', gen, n, seed + int('C13'[1:]), RULE)


def replay(payload):
    return histprop.replay_history(payload)
