"""C05 — bit-packed boolean maps are indistinguishable from ordinary boolean maps; the packed array
behaves like a NumPy boolean array."""
import copy
import random
from collections import Counter

import numpy as np

from harness import core, histprop, gens, gens2, hsops

RULE = ("(A) array level: for every length n up to the bound and random bit patterns, EVERY slice [a:b] of the root "
        "and nested slices of it: the view descriptor (byte range, start/stop bit) and the first/middle/last "
        "decomposition are compared with the Coq model (Packed.slice_view / extract_fml, extracted), and values, len, "
        "sum, slice/index assignment (bool, ndarray, aligned packed operand), |= &= ^= with bool and packed operands, "
        "invert, copy, resize and index-array get/set are compared with the same operation on a NumPy boolean array "
        "(the parent's bits outside the view must not change); the RAW BYTES of the view's buffer after every bulk and "
        "index-array operation, and sum() of every view, are compared with the extracted byte-level model "
        "(Packed.bulk_op / set_bits / clear_bits / test_bit_at / sum_view); the 256-entry population-count table is compared with "
        "the model entry by entry; (B) map level: a bit-packed map and an ordinary boolean twin are driven by the same "
        "seeded histories (updates replace/or/and with scalars, arrays, None, repeated pixels, ranges with arbitrary "
        "alignment, boolean operators with packed/unpacked operands, invert, copy, write/read, sub-maps) and compared "
        "with each other and with the L1/L0 models after every step; non-trivial = an operation followed by a "
        "comparison; distinct by (n, a, b, operation) or SHA-256 of the history")


def _view_desc(root, v):
    off = v._data.__array_interface__['data'][0] - root._data.__array_interface__['data'][0]
    return [int(off), int(off + len(v._data)), int(v._start_index), int(v._stop_index)]


def _fml_desc(v):
    first, mid, last = v._extract_first_middle_last(mask_extra=False)
    base = v._data.__array_interface__['data'][0]
    if first[0] is None:
        f = (0, 0)
    else:
        f = (int(first[1]), 8 if first[2] is None else int(first[2]))
    if mid is None or len(mid) == 0:
        m = (0, 0)
    else:
        lo = int(mid.__array_interface__['data'][0] - base)
        m = (lo, lo + len(mid))
    if last[0] is None:
        la = (0, 0)
    else:
        la = (0 if last[1] is None else int(last[1]), int(last[2]))
    return [f, m, la]


def _norm(lo, hi):
    return (0, 0) if lo >= hi else (lo, hi)


def array_level(tier, seed):
    from healsparse.packedBoolArray import _PackedBoolArray as PBA
    rng = random.Random(seed)
    nmax = 18 if tier == 'quick' else 40
    ops = []          # model ops
    exp = []          # (kind, expected, label)
    fails = []
    dist = Counter()
    evals = 0
    keys = set()

    def bad(label, detail=None):
        fails.append(dict(step=0, what=label, layer='L0', impl=detail, model=None))

    for n in list(range(0, nmax + 1)) + [64, 65, 127]:
        ref = np.array([rng.random() < 0.5 for _ in range(n)], dtype=np.bool_)
        root = PBA.from_boolean_array(ref.copy())
        nd = len(root._data)
        if not np.array_equal(np.asarray(root), ref) or len(root) != n or int(root.sum()) != int(ref.sum()):
            bad('from_boolean_array / asarray / len / sum differ from NumPy (n=%d)' % n)
        pairs = [(a, b) for a in range(n + 1) for b in range(a, n + 1)]
        if n > nmax:
            pairs = rng.sample(pairs, 150)
        for a, b in pairs:
            evals += 1
            keys.add((n, a, b))
            try:
                v = root[a:b]
            except Exception as e:  # noqa
                bad('slice [%d:%d] of a %d-bit array raised %s' % (a, b, n, type(e).__name__))
                continue
            ops.append([[40], [0, nd, 0, n], [1, a], [1, b]])
            exp.append(('view', _view_desc(root, v), 'view descriptor of x[%d:%d], n=%d' % (a, b, n)))
            if b > a:
                ops.append([[41], _view_desc(root, v)])
                exp.append(('fml', _fml_desc(v), 'first/middle/last of x[%d:%d], n=%d' % (a, b, n)))
                # sum() of the view on its own bytes vs the model's masked edge counts + table sum
                ops.append([[46], [0, len(v._data), int(v._start_index), int(v._stop_index)], [int(x) for x in v._data]])
                exp.append(('bytes', [int(v.sum())], 'sum() of x[%d:%d], n=%d' % (a, b, n)))
            if not np.array_equal(np.asarray(v), ref[a:b]) or len(v) != b - a or int(v.sum()) != int(ref[a:b].sum()):
                bad('values/len/sum of x[%d:%d] differ from NumPy (n=%d)' % (a, b, n))
            # nested slice
            if b - a >= 1 and rng.random() < 0.5:
                c = rng.randint(0, b - a)
                d = rng.randint(c, b - a)
                try:
                    u = v[c:d]
                    ops.append([[40], _view_desc(root, v), [1, c], [1, d]])
                    exp.append(('view', _view_desc(root, u), 'nested view x[%d:%d][%d:%d], n=%d' % (a, b, c, d, n)))
                    if not np.array_equal(np.asarray(u), ref[a:b][c:d]) or int(u.sum()) != int(ref[a:b][c:d].sum()):
                        bad('values of nested slice x[%d:%d][%d:%d] differ from NumPy (n=%d)' % (a, b, c, d, n))
                    dist['nested'] += 1
                except Exception as e:  # noqa
                    bad('nested slice x[%d:%d][%d:%d] raised %s (n=%d)' % (a, b, c, d, type(e).__name__, n))
            # one mutating operation through the view, compared with NumPy on a copy
            if rng.random() < (0.35 if tier == 'quick' else 0.6):
                r2 = ref.copy()
                p2 = PBA.from_boolean_array(ref.copy())
                opn = rng.choice(['set_bool', 'set_arr', 'set_pba', 'ior_b', 'iand_b', 'ixor_b', 'ior_p', 'iand_p', 'ixor_p',
                                  'invert', 'idx_get', 'idx_set_b', 'idx_set_a', 'copy', 'resize'])
                dist[opn] += 1
                try:
                    w = p2[a:b]
                    val = rng.random() < 0.5
                    other = np.array([rng.random() < 0.5 for _ in range(b - a)], dtype=np.bool_)
                    # byte level: the view's own buffer before the call, for the model of the bulk
                    # operations (Packed.bulk_op) and of the index-array operations
                    bytes_before = [int(x) for x in w._data]
                    vdesc = [0, len(w._data), int(w._start_index), int(w._stop_index)]
                    byte_op = None      # (model op groups, label)
                    if opn == 'set_bool':
                        p2[a:b] = val
                        r2[a:b] = val
                        byte_op = ([[43], vdesc, [0], bytes_before, [255 if val else 0]], 'x[a:b] = bool')
                    elif opn == 'set_arr':
                        p2[a:b] = other
                        r2[a:b] = other
                        if b > a:
                            ob = PBA.from_boolean_array(other, start_index=w._start_index)
                            byte_op = ([[43], vdesc, [0], bytes_before, [int(x) for x in ob._data]], 'x[a:b] = ndarray')
                    elif opn == 'set_pba':
                        ob = PBA.from_boolean_array(other, start_index=w._start_index)
                        p2[a:b] = ob
                        r2[a:b] = other
                        if b > a:
                            byte_op = ([[43], vdesc, [0], bytes_before, [int(x) for x in ob._data]], 'x[a:b] = packed')
                    elif opn in ('ior_b', 'iand_b', 'ixor_b'):
                        if opn == 'ior_b':
                            w |= val
                            r2[a:b] |= val
                        elif opn == 'iand_b':
                            w &= val
                            r2[a:b] &= val
                        else:
                            w ^= val
                            r2[a:b] ^= val
                        byte_op = ([[43], vdesc, [{'iand_b': 1, 'ior_b': 2, 'ixor_b': 3}[opn]], bytes_before,
                                    [255 if val else 0]], opn)
                    elif opn in ('ior_p', 'iand_p', 'ixor_p'):
                        o = PBA.from_boolean_array(other, start_index=w._start_index)
                        if opn == 'ior_p':
                            w |= o
                            r2[a:b] |= other
                        elif opn == 'iand_p':
                            w &= o
                            r2[a:b] &= other
                        else:
                            w ^= o
                            r2[a:b] ^= other
                        if b > a:
                            byte_op = ([[43], vdesc, [{'iand_p': 1, 'ior_p': 2, 'ixor_p': 3}[opn]], bytes_before,
                                        [int(x) for x in o._data]], opn)
                    elif opn == 'invert':
                        w.invert()
                        r2[a:b] = ~r2[a:b]
                        byte_op = ([[43], vdesc, [4], bytes_before, [0]], 'invert')
                    elif opn == 'idx_get':
                        if b - a > 0:
                            ix = np.array([rng.randrange(b - a) for _ in range(rng.randint(0, 6))], dtype=np.int64)
                            got = w[ix]
                            if len(ix) > 0 and not np.array_equal(np.asarray(got), r2[a:b][ix]):
                                bad('index-array read through x[%d:%d] differs from NumPy (n=%d)' % (a, b, n))
                            if len(ix) > 0:
                                ops.append([[44], [2], [int(x) + int(w._start_index) for x in ix], bytes_before])
                                exp.append(('bytes', [int(bool(x)) for x in np.atleast_1d(got)],
                                            'bits tested through x[%d:%d] at %s, n=%d' % (a, b, ix.tolist(), n)))
                    elif opn in ('idx_set_b', 'idx_set_a'):
                        if b - a > 0:
                            ix = np.array([rng.randrange(b - a) for _ in range(rng.randint(0, 6))], dtype=np.int64)
                            if opn == 'idx_set_b':
                                w[ix] = val
                                r2[a:b][ix] = val
                                byte_op = ([[44], [0 if val else 1], [int(x) + int(w._start_index) for x in ix],
                                            bytes_before], 'x[idx] = bool')
                            else:
                                ixu = np.unique(ix)
                                vv = np.array([rng.random() < 0.5 for _ in ixu], dtype=np.bool_)
                                w[ixu] = vv
                                tmp = r2[a:b]
                                tmp[ixu] = vv
                                byte_op = ([[44], [3], [int(x) + int(w._start_index) for x in ixu[vv]], bytes_before,
                                            [int(x) + int(w._start_index) for x in ixu[~vv]]], 'x[idx] = ndarray')
                    elif opn == 'copy':
                        cpy = w.copy()
                        if not np.array_equal(np.asarray(cpy), r2[a:b]):
                            bad('copy of x[%d:%d] differs (n=%d)' % (a, b, n))
                        if [int(x) for x in w._data] != bytes_before:
                            bad('copy of x[%d:%d] changed the bytes of its source (n=%d)' % (a, b, n))
                        if b > a:
                            # the copy's own bytes (padding cleared) vs Packed.copy_view
                            ops.append([[47], vdesc, bytes_before])
                            exp.append(('bytes', [int(x) for x in cpy._data],
                                        'bytes of the copy of x[%d:%d], n=%d' % (a, b, n)))
                            dist['bytes:copy'] += 1
                        extra = rng.randint(1, 20)
                        cbytes = [int(x) for x in cpy._data]
                        cdesc = [0, len(cpy._data), int(cpy._start_index), int(cpy._stop_index)]
                        cpy.resize(b - a + extra)
                        if b > a:
                            ops.append([[48], cdesc, cbytes, [b - a + extra]])
                            exp.append(('resize', ([0, len(cpy._data), int(cpy._start_index), int(cpy._stop_index)],
                                                   [int(x) for x in cpy._data]),
                                        'view and bytes of the copy of x[%d:%d] after resize(+%d), n=%d' % (a, b, extra, n)))
                            dist['bytes:resize_copy'] += 1
                        if not np.array_equal(np.asarray(cpy), np.concatenate([r2[a:b], np.zeros(extra, dtype=np.bool_)])):
                            bad('a copy of x[%d:%d] enlarged by %d bits differs from the NumPy copy padded with False (n=%d)'
                                % (a, b, extra, n))
                        if b > a:
                            cpy[0:b - a] = True
                    elif opn == 'resize':
                        extra = rng.randint(0, 20)
                        rbytes = [int(x) for x in p2._data]
                        rdesc = [0, len(p2._data), int(p2._start_index), int(p2._stop_index)]
                        p2.resize(n + extra)
                        r2 = np.concatenate([r2, np.zeros(extra, dtype=np.bool_)])
                        ops.append([[48], rdesc, rbytes, [n + extra]])
                        exp.append(('resize', ([0, len(p2._data), int(p2._start_index), int(p2._stop_index)],
                                               [int(x) for x in p2._data]),
                                    'view and bytes after resize(%d) of a %d-bit array' % (n + extra, n)))
                        dist['bytes:resize'] += 1
                        if n > 0 and rng.random() < 0.3:
                            shrunk = False
                            try:
                                p2.resize(n + extra - 1 - rng.randrange(n))
                                shrunk = True
                            except ValueError:
                                pass
                            if shrunk:
                                bad('resize to a smaller size was accepted (n=%d)' % n)
                    if byte_op is not None and b > a:
                        # the raw bytes of the view's buffer after the call (padding and neighbours included)
                        ops.append(byte_op[0])
                        exp.append(('bytes', [int(x) for x in w._data],
                                    'bytes of the buffer after %s through x[%d:%d], n=%d' % (byte_op[1], a, b, n)))
                        dist['bytes:' + opn] += 1
                    if not np.array_equal(np.asarray(p2), r2):
                        bad('%s through x[%d:%d]: parent differs from NumPy (n=%d)' % (opn, a, b, n),
                            dict(got=np.asarray(p2).astype(int).tolist(), want=r2.astype(int).tolist()))
                except Exception as e:  # noqa
                    bad('%s through x[%d:%d] raised %s: %s (n=%d)' % (opn, a, b, type(e).__name__, e, n))
    # population count table
    pba = PBA(size=8)
    lut = pba._bit_count(np.arange(256, dtype=np.uint8))
    for x in range(256):
        ops.append([[42], [x]])
        exp.append(('lut', int(lut[x]), 'bit-count table entry %d' % x))
    res = core.run_model([ops])[0]
    for r, (kind, want, label) in zip(res, exp):
        if kind == 'view':
            if r[0][0] == 1 and want[1] - want[0] == 0 and r[1][1] - r[1][0] == 0 and r[1][2:] == want[2:]:
                continue      # an empty byte range: NumPy reports no meaningful address for it
            if r[0][0] != 1 or r[1] != want:
                fails.append(dict(step=0, what=label + ' differs from the model', layer='L1', impl=want, model=r))
        elif kind == 'bytes':
            if r[0][0] != 1 or list(r[1]) != want:
                fails.append(dict(step=0, what=label + ' differ from the byte-level model', layer='L1', impl=want,
                                  model=r[1] if len(r) > 1 else r))
        elif kind == 'resize':
            if r[0][0] != 1 or list(r[1]) != want[0] or list(r[2]) != want[1]:
                fails.append(dict(step=0, what=label + ' differ from the byte-level model', layer='L1', impl=want,
                                  model=r[1:] if len(r) > 1 else r))
        elif kind == 'fml':
            got = [_norm(r[1][0], r[1][1]), _norm(r[1][2], r[1][3]), _norm(r[1][4], r[1][5])]
            w2 = [_norm(*want[0]), _norm(*want[1]), _norm(*want[2])]
            if got != w2:
                fails.append(dict(step=0, what=label + ' differs from the model', layer='L1', impl=w2, model=got))
        else:
            if r[1][0] != want:
                fails.append(dict(step=0, what=label + ' differs from the model', layer='L1', impl=want, model=r[1]))
    return dict(evaluations=evals + 256, keys=len(keys), fails=fails, dist=dict(dist))


# ------------------------------------------------------------------ map level: twins
def twin(st, off=100):
    t = copy.deepcopy(st)
    for k in ('h', 'out', 'h2', 'hm', 'ref'):
        if k in t and isinstance(t[k], int):
            t[k] = t[k] + off
    if 'hs' in t:
        t['hs'] = [x + off for x in t['hs']]
    return t


def gen_twins(rng):
    cfg = rng.choice(gens.CFGS_PACKED)
    hist = []

    def both(st, packed_first=True):
        hist.append(st)
        hist.append(twin(st))
    cp = None
    if rng.random() < 0.3:
        cp = rng.sample(range(gens.ncov_of(cfg)), rng.randint(1, 3))
    mkp = dict(op='mk', h=0, kind='packed', nc=cfg[0], ns=cfg[1], sentinel=None, cov_pixels=cp)
    mku = dict(op='mk', h=100, kind='plain', dtype='b', nc=cfg[0], ns=cfg[1], sentinel=None, cov_pixels=cp)
    hist += [mkp, mku]
    # a second operand pair
    mkp2 = dict(mkp, h=1, cov_pixels=None)
    mku2 = dict(mku, h=101, cov_pixels=None)
    hist += [mkp2, mku2]
    st = gens.rand_update(rng, mkp, h=1, forms=('pix',))
    both(st)

    def compare(h):
        hist.append(gens2.chk(h, ['values', 'cov', 'valid', 'nvalid', 'raw', 'layout', 'fracdet', 'covmap', 'covpix', 'submaps']))
        hist.append(gens2.chk(h + 100, ['values', 'cov', 'valid', 'nvalid', 'raw', 'layout', 'fracdet', 'covmap', 'covpix', 'submaps']))
        hist.append(dict(op='sameas', h=h, ref=h + 100, what='bit-packed map and its ordinary boolean twin differ'))
    compare(0)
    cur = 0
    nxt = 5
    for _ in range(rng.randint(2, 6)):
        r = rng.random()
        if r < 0.4:
            st = gens.rand_update(rng, mkp, h=cur, forms=('pix', 'pix', 'setitem_arr', 'setitem_slice', 'ring', 'pos'))
            if st['operation'] != 'replace' and st.get('values') is not None and not st.get('single'):
                # repeated pixels must accumulate
                if len(st['pixels']) >= 2 and rng.random() < 0.5:
                    st['pixels'][-1] = st['pixels'][0]
            both(st)
        elif r < 0.55:
            op = rng.choice(['replace', 'or', 'and'])
            st = dict(op='rng', h=cur, operation=op, thr=0, ranges=gens2.rand_ranges(rng, cfg, overlapping=True))
            st['value'] = None if (op == 'replace' and rng.random() < 0.3) else (rng.random() < 0.6)
            both(st)
        elif r < 0.7:
            inplace = rng.random() < 0.5
            out = cur if inplace else nxt
            q = rng.random()
            if q < 0.3:
                st = dict(op='bconst', h=cur, out=out, fn='invert', inplace=inplace)
            elif q < 0.5:
                st = dict(op='bconst', h=cur, out=out, fn=rng.choice(['and', 'or', 'xor']), const=rng.random() < 0.5, inplace=inplace)
            else:
                st = dict(op='bmap', h=cur, out=out, fn=rng.choice(['and', 'or', 'xor']), h2=1, inplace=inplace)
                if rng.random() < 0.5:
                    # mixed kinds: the packed map takes the UNPACKED second operand and vice versa
                    hist.append(dict(st, h2=101))
                    hist.append(dict(twin(st), h2=1))
                    if not inplace:
                        cur = out
                        nxt += 1
                    compare(cur)
                    continue
            both(st)
            if not inplace:
                cur = out
                nxt += 1
        elif r < 0.8:
            both(dict(op='copy', h=cur, out=nxt))
            cur = nxt
            nxt += 1
            if rng.random() < 0.4:
                # type conversion of both twins: the same valid set and values whatever the storage kind
                both(dict(op='astype', h=cur, out=nxt, dtype=rng.choice(['i4', 'f8', 'b', 'i2']), sentinel=None))
                hist.append(gens2.chk(nxt, ['values', 'cov', 'valid', 'nvalid']))
                hist.append(gens2.chk(nxt + 100, ['values', 'cov', 'valid', 'nvalid']))
                hist.append(dict(op='sameas', h=nxt, ref=nxt + 100, what='astype of a bit-packed map and of its ordinary boolean twin differ'))
                nxt += 1
        elif r < 0.92:
            pixels = None
            if rng.random() < 0.4:
                pixels = rng.sample(range(gens.ncov_of(cfg)), rng.randint(1, 4))
            both(dict(op='wr', h=cur, out=nxt, compress=rng.random() < 0.5, pixels=pixels))
            # (the partial read may be rejected when no pixel is covered: then the old handle stays)
            hist.append(dict(op='sameas_if', h=nxt, ref=nxt + 100))
            if pixels is None:
                cur = nxt          # carry on with the map that was read back (it must grow like any other)
                nxt += 1
                both(dict(op='grow', h=cur, which=rng.randrange(5), off=rng.randrange(16), alt=rng.randrange(40)))
                compare(cur)
                if rng.random() < 0.4:
                    # a map of the OTHER storage kind made like the map read back (whose metadata now carries the
                    # file's storage keywords), filled, written and read back: the file must describe the new map
                    hist.append(dict(op='mklike', h=cur, out=nxt, bit_packed=False))
                    hist.append(dict(op='mklike', h=cur + 100, out=nxt + 100, bit_packed=True))
                    st2 = gens.rand_update(rng, mkp, h=nxt, forms=('pix',))
                    both(st2)
                    both(dict(op='wr', h=nxt, out=nxt + 1, compress=rng.random() < 0.5, pixels=None))
                    hist.append(dict(op='sameas_if', h=nxt + 1, ref=nxt + 101))
                    hist.append(gens2.chk(nxt + 1, ['values', 'cov', 'valid', 'nvalid']))
                    hist.append(gens2.chk(nxt + 101, ['values', 'cov', 'valid', 'nvalid']))
                    nxt += 2
            else:
                nxt += 1
            continue
        else:
            both(dict(op='mklike', h=cur, out=nxt))
            hist.append(gens2.chk(nxt, ['values', 'cov', 'valid']))
            hist.append(dict(op='kindsame', h=nxt, ref=cur))
            hist.append(dict(op='kindsame', h=nxt + 100, ref=cur + 100))
            nxt += 1
            continue
        compare(cur)
    return hist


def run(tier, seed, boost=False, facts=None):
    n = 150 if tier == 'quick' else 3000
    if boost:
        n *= 3
    res = histprop.run_property('C05', gen_twins, n, seed + 5, RULE)
    arr = array_level(tier, seed)
    cov = res['coverage']
    cov['evaluations'] += arr['evaluations']
    cov['distinct_nontrivial'] += arr['keys']
    cov['array_level_operations'] = arr['dist']
    for f in arr['fails'][:5]:
        kind = 'property' if f['layer'] in ('L0', 'impl') else 'correspondence'
        res['failures'].append(dict(kind=kind, known=None, text='%s: %s' % (kind, f['what']),
                                    payload=dict(property='C05', origin='array-level', mismatches=[f], history=[],
                                                 layer_class=kind)))
    return res


def replay(payload):
    if payload.get('origin') == 'array-level':
        arr = array_level('quick', 20260926)
        return dict(fails=bool(arr['fails']), mismatches=arr['fails'][:5])
    return histprop.replay_history(payload)
