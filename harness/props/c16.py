"""C16 — HEALPix interchange, RING/NEST and position addressing are consistent."""
from harness import histprop, gens2, ops2

RULE = ("seeded histories (gens2.gen_c16 / gen_c16_bool): a dense HEALPix array (float32/64, int; random UNSEEN / "
        "sentinel pattern; NEST or RING) is converted to a sparse map and back; generate_healpix_map in both orderings "
        "(and with nside=, reduction=) is compared with the map's values; updates through nest=False and position "
        "addressing; all read paths compared after every step; HEALPix explicit files (healsparse's writer) and implicit NEST/RING files with one or several elements per row (written with astropy) read back; "
        "interpolate_pos compared with the weighted mean of hpgeom's neighbours computed by the model (both validity "
        "rules); non-trivial = a conversion followed by a comparison, distinct by SHA-256")


def gen(rng):
    r = rng.random()
    if r < 0.1:
        return gens2.gen_c16_bool(rng)
    if r < 0.2:
        return gens2.gen_c16_rec(rng)      # RING-addressed writes through field views
    return gens2.gen_c16(rng)


def run(tier, seed, boost=False, facts=None):
    n = 250 if tier == 'quick' else 4000
    if boost:
        n *= 3
    try:
        return histprop.run_property('C16', gen, n, seed + 16, RULE)
    finally:
        ops2.cleanup()


def replay(payload):
    try:
        return histprop.replay_history(payload)
    finally:
        ops2.cleanup()
