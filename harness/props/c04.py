"""C04 — every reachable map (and written file) obeys the published storage layout."""
from harness import histprop, gens, gens2

RULE = ("the extracted Coq predicate layoutb_with (the one theorem C04_wf_implies_published_layout is about) "
        "is evaluated on the implementation's raw _cov_index_map, _sparse_map validity flags and "
        "_block_to_cov_index after every API call of seeded random histories: update histories of all kinds incl. "
        "malformed/raising calls, and the histories of the other properties' generators (multi-map operations, "
        "degrade, upgrade, ranges, boolean and scalar operators, astype, apply_mask, two-phase producer histories "
        "with growth of results and arguments, write/read) so that every map RETURNED by an operation is inspected; "
        "the COV/SPARSE extensions of written files are read with astropy and checked with the same predicate; raw "
        "arrays are also compared cell by cell with the L1 model state; non-trivial = an operation followed by a "
        "check, distinct by SHA-256 of the JSON history")

OTHERS = ['gen_c06', 'gen_c07', 'gen_c08', 'gen_c09', 'gen_c09', 'gen_c11', 'gen_c12', 'gen_c15', 'gen_c02', 'gen_c19', 'gen_c19']


def gen_bool_true_sentinel(rng):
    """a boolean map whose sentinel is True (False is then the valid value), through the constant operators"""
    cfg = rng.choice([(1, 4), (2, 4), (2, 8)])
    npix = 12 * cfg[1] ** 2
    h = [dict(op='mk', h=0, kind='plain', nc=cfg[0], ns=cfg[1], dtype='b', sentinel=True, cov_pixels=None),
         dict(op='upd', h=0, form='pix', operation='replace', expect='ok',
              pixels=rng.sample(range(npix), rng.randint(1, 8)), values=False, single=True, pyscalar=True),
         dict(op='check', h=0, what=['raw', 'layout', 'cov'])]
    nxt = 1
    for _ in range(rng.randint(1, 3)):
        inplace = rng.random() < 0.4
        fn = rng.choice(['and', 'or', 'xor', 'invert'])
        st = dict(op='bconst', h=0, out=0 if inplace else nxt, fn=fn, inplace=inplace)
        if fn != 'invert':
            st['const'] = rng.random() < 0.5
        h.append(st)
        h.append(dict(op='check', h=st['out'], what=['raw', 'layout', 'cov'], l1only=True))
        if not inplace:
            nxt += 1
    return h


def gen_rdeg_subset(rng):
    """degrade-on-read of a proper subset of the covered coverage pixels (every reduction family): the map
    returned must have one block per coverage pixel read"""
    cfg = rng.choice([(1, 4), (2, 4), (2, 8), (4, 8)])
    ncov = 12 * cfg[0] ** 2
    nfine = (cfg[1] // cfg[0]) ** 2
    kind = rng.choice(['int0', 'int0', 'float', 'wide'])
    if kind == 'int0':
        mk = gens2.mk_plain(rng, 0, cfg, rng.choice(['i2', 'i4', 'u2', 'u1']), sentinel=0)
        reds = ['or', 'and', 'max']
        val = lambda: rng.randint(1, 15)      # noqa
    elif kind == 'float':
        mk = gens2.mk_plain(rng, 0, cfg, rng.choice(['f4', 'f8']), sentinel=None)
        reds = ['mean', 'max', 'sum']
        val = lambda: rng.randint(-16, 16) / 4.0      # noqa
    else:
        mk = dict(op='mk', h=0, kind='wide', nc=cfg[0], ns=cfg[1], maxbits=rng.choice([3, 9]), sentinel=None, cov_pixels=None)
        reds = ['or', 'and']
        val = lambda: rng.randint(1, 7)      # noqa
    covs = rng.sample(range(ncov), min(ncov, rng.randint(2, 4)))
    pix = sorted(set(c * nfine + rng.randrange(nfine) for c in covs for _ in range(rng.randint(1, 4))))
    h = [mk, dict(op='upd', h=0, form='pix', operation='replace', expect='ok', pixels=pix, values=[val() for _ in pix], single=False)]
    sub = rng.sample(covs, rng.randint(1, len(covs) - 1))
    if rng.random() < 0.4:
        sub.append(rng.choice([c for c in range(ncov) if c not in covs] or [covs[0]]))
    outs = [n for n in (1, 2, 4) if cfg[0] <= n < cfg[1]]
    h.append(dict(op='rdeg', h=0, out=10, out2=11, nside_out=rng.choice(outs), reduction=rng.choice(reds),
                  pixels=sorted(set(sub)), hw=None, compress=rng.random() < 0.5))
    h.append(dict(op='ifexists', h=10))
    h.append(dict(op='check', h=10, what=['raw', 'layout', 'cov'], l1only=True))
    return h


def gen(rng):
    r0 = rng.random()
    if r0 < 0.08:
        return gen_bool_true_sentinel(rng)
    if r0 < 0.16:
        return gen_rdeg_subset(rng)
    if rng.random() < 0.5:
        h = getattr(gens2, rng.choice(OTHERS))(rng)
        for st in h:
            if st['op'] == 'check':
                # C04 speaks about the layout only: the value-level clauses of the other properties (and
                # their known findings) are judged by their own checks
                st['what'] = [w for w in st.get('what', gens2.CHK_ALL) if w in ('raw', 'layout', 'cov')] or ['layout']
                st['l1only'] = True
        return [st for st in h if st['op'] not in ('sameas', 'unchanged', 'chkbits', 'sameas_if')]
    h = gens.gen_c01_history(rng, max_steps=8)
    if rng.random() < 0.1:
        # a pre-allocation list naming a coverage pixel twice: rejected, or a map that still obeys the layout
        nc_ = rng.choice([1, 2, 4])
        cp_ = [rng.randrange(12 * nc_ * nc_) for _ in range(rng.randint(1, 3))]
        cp_.insert(rng.randint(0, len(cp_)), rng.choice(cp_))
        h.append(dict(op='mkdup', nc=nc_, ns=nc_ * rng.choice([1, 2, 4]), dtype=rng.choice(['f4', 'f8', 'i4', 'b']),
                      cov_pixels=cp_))
    if rng.random() < 0.25:
        # the map read back from a file (its arrays do not own their memory), then grown twice
        mk = h[0]
        h.append(dict(op='wr', h=0, out=1, compress=rng.random() < 0.5, pixels=None))
        h.append(dict(op='ifexists', h=1))
        for _ in range(2):
            h.append(dict(op='grow', h=1, which=rng.randrange(5), off=rng.randrange(16), alt=rng.randrange(40)))
            h.append(dict(op='check', h=1))
    for st in h:
        if st['op'] == 'check':
            st['what'] = ['raw', 'layout', 'cov']
    return h


def run(tier, seed, boost=False, facts=None):
    n = 400 if tier == 'quick' else 6000
    if boost:
        n *= 3
    return histprop.run_property('C04', gen, n, seed + 4, RULE)


def replay(payload):
    return histprop.replay_history(payload)
