"""C04 — every reachable map (and written file) obeys the published storage layout."""
from harness import histprop, gens

RULE = ("the extracted Coq predicate layoutb_with (the one theorem C04_wf_implies_published_layout is about) "
        "is evaluated on the implementation's raw _cov_index_map, _sparse_map validity flags and "
        "_block_to_cov_index after every API call of seeded random histories (all kinds/dtypes/configurations, "
        "valid and malformed/raising updates, shuffled growth, pre-allocated coverage pixels); raw arrays are "
        "also compared cell by cell with the L1 model state; non-trivial = an update followed by a check, "
        "distinct by SHA-256 of the JSON history")


def gen(rng):
    h = gens.gen_c01_history(rng, max_steps=8)
    for st in h:
        if st['op'] == 'check':
            st['what'] = ['raw', 'layout', 'cov']
    return h


def run(tier, seed, boost=False, facts=None):
    n = 400 if tier == 'quick' else 6000
    if boost:
        n *= 3
    return histprop.run_property('C04', gen, n, seed + 4, RULE)


def replay(payload):
    return histprop.replay_history(payload)
