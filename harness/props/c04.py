"""C04 — every reachable map (and written file) obeys the published storage layout."""
from harness import histprop, gens, gens2

RULE = ("the extracted Coq predicate layoutb_with (the one theorem C04_wf_implies_published_layout is about) "
        "is evaluated on the implementation's raw _cov_index_map, _sparse_map validity flags and "
        "_block_to_cov_index after every API call of seeded random histories: update histories of all kinds incl. "
        "malformed/raising calls, and the histories of the other properties' generators (multi-map operations, "
        "degrade, upgrade, ranges, boolean and scalar operators, astype, apply_mask, two-phase producer histories "
        "with growth of results and arguments, write/read) so that every map RETURNED by an operation is inspected; "
        "the COV/SPARSE extensions of written files are read with astropy and checked with the same predicate; raw "
        "arrays are also compared cell by cell with the L1 model state; non-trivial = an operation followed by a "
        "check, distinct by SHA-256 of the JSON history")

OTHERS = ['gen_c06', 'gen_c07', 'gen_c08', 'gen_c09', 'gen_c09', 'gen_c11', 'gen_c12', 'gen_c15', 'gen_c02']


def gen(rng):
    if rng.random() < 0.5:
        h = getattr(gens2, rng.choice(OTHERS))(rng)
        for st in h:
            if st['op'] == 'check':
                # C04 speaks about the layout only: the value-level clauses of the other properties (and
                # their known findings) are judged by their own checks
                st['what'] = [w for w in st.get('what', gens2.CHK_ALL) if w in ('raw', 'layout', 'cov')] or ['layout']
                st['l1only'] = True
        return [st for st in h if st['op'] not in ('sameas', 'unchanged', 'chkbits', 'sameas_if')]
    h = gens.gen_c01_history(rng, max_steps=8)
    if rng.random() < 0.25:
        # the map read back from a file (its arrays do not own their memory), then grown twice
        mk = h[0]
        h.append(dict(op='wr', h=0, out=1, compress=rng.random() < 0.5, pixels=None))
        h.append(dict(op='ifexists', h=1))
        for _ in range(2):
            h.append(dict(op='grow', h=1, which=rng.randrange(5), off=rng.randrange(16), alt=rng.randrange(40)))
            h.append(dict(op='check', h=1))
    for st in h:
        if st['op'] == 'check':
            st['what'] = ['raw', 'layout', 'cov']
    return h


def run(tier, seed, boost=False, facts=None):
    n = 400 if tier == 'quick' else 6000
    if boost:
        n *= 3
    return histprop.run_property('C04', gen, n, seed + 4, RULE)


def replay(payload):
    return histprop.replay_history(payload)
