"""C09 — operations that return new maps never disturb, or stay tied to, their inputs."""
from harness import histprop, gens2

RULE = ("two-phase histories (harness/gens2.gen_c09) for every producer (copy, scalar operator, astype, "
        "as_bit_packed_map, degrade incl. same-nside and weighted, upgrade, apply_mask copy, get_single copy, "
        "get_single_covpix_map covered/uncovered, union/intersection operations, boolean operators with maps and "
        "constants, ~, write+read): arguments observed right after the call; then the result is modified and grown "
        "(update into an uncovered coverage pixel, metadata dict mutated) and every argument re-read against a "
        "snapshot; then every argument is modified and grown and the result re-read; all states also compared with "
        "the L1/L0 models; non-trivial = a producer followed by a mutation and a re-observation, distinct by SHA-256")


def run(tier, seed, boost=False, facts=None):
    n = 300 if tier == 'quick' else 5000
    if boost:
        n *= 3
    return histprop.run_property('C09', gens2.gen_c09, n, seed + 9, RULE)


def replay(payload):
    return histprop.replay_history(payload)
