"""C17 — a MOC written from a map covers exactly the map's valid pixels."""
from harness import histprop, gens2, ops2

RULE = ("seeded valid sets (scatter, full cells and full-minus-k cells at every hierarchy level, any map type) on "
        "small grids, plus cells nine or ten levels deep with one or two missing children; the UNIQ column is read raw "
        "with astropy: cells expanded independently must cover exactly the valid pixels, be pairwise disjoint and no "
        "coarser than the coverage resolution; the map read back, expressed at the original resolution, must cover the "
        "same pixels; for sets of up to 400 pixels the written cells are also compared with the Coq writer model "
        "(Moc.moc_cells) and expanded by the Coq reader model; distinct by SHA-256 of the history")


def gen(rng):
    r = rng.random()
    if r < 0.04:
        return gens2.gen_c17_deep(rng)
    if r < 0.14:
        return gens2.gen_c17_big(rng)      # orders 15 and 16
    return gens2.gen_c17(rng)


def run(tier, seed, boost=False, facts=None):
    n = 150 if tier == 'quick' else 2500
    if boost:
        n *= 3
    try:
        return histprop.run_property('C17', gen, n, seed + 17, RULE)
    finally:
        ops2.cleanup()


def replay(payload):
    try:
        return histprop.replay_history(payload)
    finally:
        ops2.cleanup()
