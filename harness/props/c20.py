"""C20 — random points fall inside the map's valid footprint, in the requested number."""
from harness import histprop, gens2, ops2

RULE = ("seeded footprints (single pixel, scatter, polar caps, footprints straddling lon 0, multi-patch, small) x "
        "generator (fast / rejection) x n in {0, 1, 17, 1000, occupancy runs} x seeds: number of points, containment "
        "via get_values_pos(valid_mask=True), determinism per seed, occupancy of every (sub-)pixel of small "
        "footprints with a fixed expectation of >= 40 points per cell; for the fast generator the generator's draws "
        "are replayed and the fine pixels computed by the Coq model (coarse << shift) + sub are compared with the "
        "pixels of the returned positions; every run under a wall-clock limit; distinct by SHA-256")


def run(tier, seed, boost=False, facts=None):
    n = 120 if tier == 'quick' else 2000
    if boost:
        n *= 3
    return histprop.run_property('C20', gens2.gen_c20, n, seed + 20, RULE)


def replay(payload):
    return histprop.replay_history(payload)
