"""C01 — a sparse map reads and writes exactly like a dense HEALPix array."""
from harness import histprop, gens

RULE = ("seeded random update histories (make_empty of every kind/dtype/sentinel/configuration, 1-10 "
        "updates in every call form: update_values_pix, nest=False, __setitem__ int/slice/array/list, "
        "update_values_pos; replace/add/or/and/None; clustered, block-edge and uniform pixel sets, shuffled "
        "coverage growth, pre-allocated coverage pixels); after every step all pixels are read through every "
        "read path and compared with the L1 model state and the L0 dense array; a history counts as "
        "non-trivial when an update is followed by a check, distinct by the SHA-256 of its JSON form")


def run(tier, seed, boost=False, facts=None):
    n = 400 if tier == 'quick' else 6000
    if boost:
        n *= 3
    return histprop.run_property('C01', lambda rng: gens.gen_c01_history(rng), n, seed, RULE)


def replay(payload):
    return histprop.replay_history(payload)
