"""C01 — a sparse map reads and writes exactly like a dense HEALPix array."""
from harness import histprop, gens

RULE = ("seeded random update histories (make_empty of every kind/dtype/sentinel/configuration, 1-10 "
        "updates in every call form: update_values_pix, nest=False, __setitem__ int/slice/array/list, "
        "update_values_pos, half-open pixel ranges on both sides of the size threshold; replace/add/or/and/None; clustered, block-edge and uniform pixel sets, shuffled "
        "coverage growth, pre-allocated coverage pixels); after every step all pixels are read through every "
        "read path and compared with the L1 model state and the L0 dense array; a history counts as "
        "non-trivial when an update is followed by a check, distinct by the SHA-256 of its JSON form")


def gen(rng):
    """gens.gen_c01_history plus, in some histories, updates addressed by half-open pixel ranges (both the
    expanded path and, with the threshold set to 0, the slice path; None-clears included)"""
    from harness import gens2
    hist = gens.gen_c01_history(rng)
    mk = hist[0]
    cfg = (mk['nc'], mk['ns'])
    for _ in range(rng.choice([0, 0, 1, 2])):
        ops = gens.legal_ops(mk)
        op = rng.choice(ops) if rng.random() < 0.5 else 'replace'
        st = dict(op='rng', h=0, operation=op, thr=rng.choice([0, 0, None]))
        # ('add' over overlapping ranges with a custom non-zero sentinel is finding F36 of C08)
        st['ranges'] = gens2.rand_ranges(rng, cfg, overlapping=not (op == 'add' and mk.get('sentinel') not in (None, 0, 0.0)))
        if mk['kind'] == 'rec' or (op == 'replace' and rng.random() < 0.4):
            st['value'] = None
            st['operation'] = 'replace'
        else:
            v = gens.rand_value(rng, mk)
            if mk['kind'] == 'plain' and mk['dtype'] in gens.INT_DT and op == 'add':
                v = max(0 if gens.INT_RANGE[mk['dtype']][0] == 0 else -3, min(3, v))
            st['value'] = v
        pos = rng.randrange(1, len(hist) + 1)
        hist[pos:pos] = [st, dict(op='check', h=0)]
    if rng.random() < 0.15:
        # a map handed out by the API (astype, scalar operator, bit-packing, field copy) reads and grows like any
        # other, whatever happens to the map it came from afterwards
        hist += gens2.cross_check_derived(rng, mk, 0, 7)
    return hist


def run(tier, seed, boost=False, facts=None):
    n = 400 if tier == 'quick' else 6000
    if boost:
        n *= 3
    return histprop.run_property('C01', gen, n, seed, RULE)


def replay(payload):
    return histprop.replay_history(payload)
