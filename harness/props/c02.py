"""C02 — all validity accounting interfaces agree, at every point in a map's history."""
from harness import histprop, gens

RULE = ("seeded random histories mixing mutators with queries; after EVERY step: valid_pixels, n_valid (cache "
        "populated before the next mutation), get_valid_area, __str__, valid_mask over all pixels, coverage_map, "
        "coverage_mask, fracdet_map at every permitted nside, valid_pixels_single_covpix / "
        "iter_valid_pixels_by_covpix for every covered pixel, get_single_covpix_map / get_covpix_maps; each "
        "compared with the L1 model (storage order, block order, cache) and with the L0 dense count/set; "
        "non-trivial = a mutation followed by a check, distinct by SHA-256 of the JSON history")

WHAT = ['values', 'cov', 'valid', 'nvalid', 'covmap', 'fracdet', 'covpix', 'submaps']


def gen(rng):
    from harness import gens2
    if rng.random() < 0.5:
        return gens2.gen_c02(rng)
    h = gens.gen_c01_history(rng, max_steps=6)
    for st in h:
        if st['op'] == 'check':
            st['what'] = WHAT
    return h


def run(tier, seed, boost=False, facts=None):
    n = 250 if tier == 'quick' else 4000
    if boost:
        n *= 3
    return histprop.run_property('C02', gen, n, seed + 2, RULE)


def replay(payload):
    return histprop.replay_history(payload)
