"""C10 — see DESIGN.md section 7 (C10)."""
from harness import histprop, gens2, ops2

RULE = ("seeded random histories from harness/gens2.gen_c10; after every step the affected maps are observed over ALL "
        "pixels (values, coverage mask, valid set, count, raw arrays, extracted layout predicate) and compared with "
        "the L1 model and the L0 dense specification; result parameters (resolution, kind, dtype, sentinel) are "
        "checked against the documented rules; files are written to a temporary directory outside /repo and /verif "
        "and removed; non-trivial = an operation followed by a check, distinct by the SHA-256 of the JSON history")


def run(tier, seed, boost=False, facts=None):
    n = 250 if tier == 'quick' else 4000
    if boost:
        n *= 3
    try:
        return histprop.run_property('C10', gens2.gen_c10, n, seed + int('C10'[1:]), RULE)
    finally:
        ops2.cleanup()


def replay(payload):
    try:
        return histprop.replay_history(payload)
    finally:
        ops2.cleanup()
