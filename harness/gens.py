"""Seeded generators of DSL histories (all randomness from one random.Random)."""
import random

CFGS = [(1, 1), (1, 2), (1, 4), (2, 2), (2, 4), (2, 8), (1, 8), (4, 8)]
CFGS_PACKED = [(1, 4), (2, 8), (1, 8), (2, 16), (4, 16)]
INT_DT = ['i1', 'i2', 'i4', 'i8', 'u1', 'u2', 'u4', 'u8']
FLT_DT = ['f4', 'f8']
INT_RANGE = {'i1': (-128, 127), 'i2': (-2**15, 2**15 - 1), 'i4': (-2**31, 2**31 - 1), 'i8': (-2**63, 2**63 - 1),
             'u1': (0, 255), 'u2': (0, 2**16 - 1), 'u4': (0, 2**32 - 1), 'u8': (0, 2**64 - 1)}


def npix_of(cfg):
    return 12 * cfg[1] * cfg[1]


def nfine_of(cfg):
    return (cfg[1] // cfg[0]) ** 2


def ncov_of(cfg):
    return 12 * cfg[0] * cfg[0]


def pick_map(rng, kinds=('plain', 'wide', 'rec', 'packed'), h=0):
    """a random 'mk' step"""
    kind = rng.choice(kinds)
    st = dict(op='mk', h=h, kind=kind)
    if kind == 'packed':
        cfg = rng.choice(CFGS_PACKED)
    else:
        cfg = rng.choice(CFGS)
    st['nc'], st['ns'] = cfg
    if kind == 'plain':
        dt = rng.choice(INT_DT + FLT_DT + ['b', 'f8', 'i4', 'i8'])
        st['dtype'] = dt
        r = rng.random()
        if dt == 'b':
            st['sentinel'] = None
        elif dt in FLT_DT:
            st['sentinel'] = None if r < 0.5 else rng.choice([0.0, -1.0, -9999.0, 0.5])
            if dt == 'f4' and rng.random() < 0.25:
                # a sentinel that float32 cannot represent exactly, handed in as a NumPy double
                st['sentinel'] = -9999.9
                st['sentinel_np64'] = True
        else:
            lo, hi = INT_RANGE[dt]
            st['sentinel'] = None if r < 0.4 else rng.choice([0, 0, lo, hi, max(lo, -1), 5])
    elif kind == 'wide':
        st['maxbits'] = rng.choice([1, 2, 7, 8, 9, 15, 16, 17, 24, 33])
        st['sentinel'] = None
    elif kind == 'rec':
        nf = rng.choice([2, 3, 4, 2, 3, 4, 2, 3, 4, 1])       # (a record array with a single field is legal too)
        names = ['a', 'b', 'c', 'd'][:nf]
        st['fields'] = [(n, rng.choice(['f4', 'f8', 'i4', 'i8', 'i2', 'u2'])) for n in names]
        st['primary'] = rng.choice(names)
        pt = dict(st['fields'])[st['primary']]
        if rng.random() < 0.5:
            st['sentinel'] = None
        elif pt in FLT_DT:
            st['sentinel'] = rng.choice([0.0, -1.0, -9999.0])
        else:
            lo, hi = INT_RANGE[pt]
            st['sentinel'] = rng.choice([0, max(lo, -1), 7])
    else:
        st['sentinel'] = None
    if rng.random() < 0.25:
        ncov = ncov_of(cfg)
        k = rng.randint(1, min(4, ncov))
        st['cov_pixels'] = rng.sample(range(ncov), k)
    else:
        st['cov_pixels'] = None
    return st


def rand_value(rng, mk, allow_sentinel=True):
    kind = mk['kind']
    if kind == 'plain':
        dt = mk['dtype']
        if dt == 'b':
            return rng.random() < 0.7
        if dt in FLT_DT:
            if allow_sentinel and mk.get('sentinel') is not None and rng.random() < 0.05:
                return mk['sentinel']
            return rng.randint(-32, 32) / 4.0
        lo, hi = INT_RANGE[dt]
        if allow_sentinel and mk.get('sentinel') is not None and rng.random() < 0.05:
            return mk['sentinel']
        return rng.randint(max(lo, -20), min(hi, 20))
    if kind == 'wide':
        width = (mk['maxbits'] - 1) // 8 + 1
        if rng.random() < 0.1:
            return 0
        v = 0
        for _ in range(rng.randint(1, 4)):
            v |= 1 << rng.randrange(8 * width)
        return v
    if kind == 'rec':
        out = []
        for n, t in mk['fields']:
            if t in FLT_DT:
                out.append(rng.randint(-32, 32) / 4.0)
            else:
                lo, hi = INT_RANGE[t]
                out.append(rng.randint(max(lo, -20), min(hi, 20)))
        if allow_sentinel and rng.random() < 0.05 and mk.get('sentinel') is not None:
            names = [n for n, _ in mk['fields']]
            out[names.index(mk['primary'])] = mk['sentinel']
        return out
    return rng.random() < 0.7


def legal_ops(mk):
    kind = mk['kind']
    if kind == 'rec':
        return ['replace']
    if kind == 'wide':
        return ['replace', 'or', 'and']
    if kind == 'packed':
        return ['replace', 'or', 'and']
    dt = mk['dtype']
    if dt == 'b':
        return ['replace', 'or', 'and']
    if dt in FLT_DT:
        return ['replace', 'add']
    ops = ['replace', 'add']
    sent = mk.get('sentinel')
    if sent is None and dt.startswith('u'):
        sent = 0    # default sentinel of unsigned types is iinfo.min == 0
    if sent == 0:
        ops += ['or', 'and']
    return ops


def rand_pixels(rng, mk, unique, nmax=12):
    cfg = (mk['nc'], mk['ns'])
    npix = npix_of(cfg)
    nfine = nfine_of(cfg)
    mode = rng.random()
    n = rng.randint(1, nmax)
    if mode < 0.4:
        # clustered in a few coverage pixels, any order
        ncov = ncov_of(cfg)
        covs = [rng.randrange(ncov) for _ in range(rng.randint(1, 3))]
        pix = [rng.choice(covs) * nfine + rng.randrange(nfine) for _ in range(n)]
    elif mode < 0.6:
        # block edges and the last pixel
        cand = [0, npix - 1]
        for c in range(ncov_of(cfg)):
            cand += [c * nfine, c * nfine + nfine - 1]
        pix = [rng.choice(cand) for _ in range(n)]
    else:
        pix = [rng.randrange(npix) for _ in range(n)]
    if unique:
        seen = []
        for p in pix:
            if p not in seen:
                seen.append(p)
        pix = seen
    return pix


def rand_update(rng, mk, h=0, forms=('pix', 'pix', 'ring', 'setitem_arr', 'setitem_list', 'setitem_int',
                                      'setitem_slice', 'pos')):
    """a random, valid update step"""
    ops = legal_ops(mk)
    op = rng.choice(ops) if rng.random() < 0.6 else 'replace'
    form = rng.choice(forms)
    if form.startswith('setitem'):
        op = 'replace'
    st = dict(op='upd', h=h, form=form, operation=op, expect='ok')
    npix = npix_of((mk['nc'], mk['ns']))
    if form == 'setitem_int':
        st['pixels'] = [rng.randrange(npix)]
    elif form == 'setitem_slice':
        a = rng.randrange(npix)
        s = rng.choice([1, 1, 2, 3, 7])
        b = min(npix, a + s * rng.randint(1, 10))
        r0 = rng.random()
        if r0 < 0.12:
            # empty slices with an explicit stop (0 included) must write nothing
            a = rng.choice([0, a])
            b = rng.choice([0, 0, a])
            s = 1
        elif r0 < 0.2:
            a, s = 0, 1        # explicit start 0
        st['slice'] = [a, b, s]
        st['pixels'] = list(range(a, b, s))
    else:
        st['pixels'] = rand_pixels(rng, mk, unique=(op == 'replace'))
    r = rng.random()
    if op == 'replace' and r < 0.15:
        st['values'] = None
    elif r < 0.5 or form == 'setitem_int':
        st['values'] = rand_value(rng, mk)
        st['single'] = True
        st['pyscalar'] = rng.random() < 0.5
        if mk['kind'] == 'rec':
            # a record single value is passed as a length-1 array
            st['values'] = [st['values']]
            st['single'] = False
            if len(st['pixels']) > 1:
                st['pixels'] = st['pixels'][:1]
                if form == 'setitem_slice':
                    st['slice'] = [st['pixels'][0], st['pixels'][0] + 1, 1]
    else:
        st['values'] = [rand_value(rng, mk) for _ in st['pixels']]
        st['single'] = False
    if mk['kind'] == 'plain' and mk['dtype'] in INT_DT and op == 'add':
        # keep accumulations far from the dtype limits
        lo, hi = INT_RANGE[mk['dtype']]
        def clampv(v):
            return max(0 if lo == 0 else -3, min(3, v))
        if st['values'] is not None:
            st['values'] = clampv(st['values']) if st.get('single') else [clampv(v) for v in st['values']]
    return st


def rand_bad_update(rng, mk, h=0):
    """a malformed update that must be rejected and leave every pixel unchanged"""
    kind = mk['kind']
    pixels = rand_pixels(rng, mk, unique=True, nmax=6)
    if len(pixels) < 2:
        pixels = [0, 1]
    vals = [rand_value(rng, mk) for _ in pixels]
    legal = legal_ops(mk)
    illegal = [o for o in ['add', 'or', 'and', 'xor'] if o not in legal and not (kind == 'wide' and o == 'add')]
    choices = ['dup_replace', 'bad_len', 'bad_dtype', 'none_op']
    if illegal:
        choices.append('bad_op')
    if kind in ('plain', 'wide'):
        choices.append('not_array')
    bad = rng.choice(choices)
    st = dict(op='badupd', h=h, bad=bad, pixels=pixels, values=vals)
    if bad == 'bad_op':
        st['operation'] = rng.choice(illegal)
    if bad == 'none_op':
        st['operation'] = rng.choice(['add', 'or', 'and'])
    return st


def gen_c01_history(rng, max_steps=10, kinds=('plain', 'wide', 'rec', 'packed')):
    mk = pick_map(rng, kinds)
    hist = [mk, dict(op='check', h=0)]
    for _ in range(rng.randint(1, max_steps)):
        if rng.random() < 0.15:
            hist.append(rand_bad_update(rng, mk))
        else:
            hist.append(rand_update(rng, mk))
        hist.append(dict(op='check', h=0))
    return hist
