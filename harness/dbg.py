"""debug driver: python -m harness.dbg C12 100 [seed]  -> runs the generator, prints failure classes"""
import sys, json, importlib
from collections import Counter
from harness import core, histprop

pid = sys.argv[1]
n = int(sys.argv[2])
seed = int(sys.argv[3]) if len(sys.argv) > 3 else 1
mod = importlib.import_module('harness.props.' + pid.lower())
import harness.gens2 as g2
import random
gen = getattr(mod, 'gen', None) or getattr(g2, 'gen_' + pid.lower())
rng = random.Random(seed)
hs = [gen(rng) for _ in range(n)]
res = histprop.run_batch(hs)
cnt = Counter()
ex = {}
for h, mm in zip(hs, res):
    if mm:
        key = (mm[0]['layer'], mm[0]['what'][:90])
        cnt[key] += 1
        ex.setdefault(key, (h, mm))
print('histories', n, 'failing', sum(1 for mm in res if mm))
for k, v in cnt.most_common():
    print(v, k)
if len(sys.argv) > 4:
    k = list(cnt)[int(sys.argv[4])]
    h, mm = ex[k]
    small = histprop.shrink(h, histprop.layer_class(mm))
    print(json.dumps(small))
    print(json.dumps(histprop.run_batch([small])[0][:3], default=str)[:3000])
