"""Generic engine for properties checked on DSL histories: corpus + known-finding witnesses +
generated histories; shrinking; classification of failures."""
import os
import json
import glob
import random
import hashlib
from collections import Counter

from harness import core, hsops, findings


def run_batch(histories):
    return hsops.run_histories(histories, core.run_model)


def layer_class(mm):
    """'property' if any mismatch is impl-vs-spec or implementation-internal, else 'correspondence'"""
    for m in mm:
        if m['layer'] in ('L0', 'impl'):
            return 'property'
    return 'correspondence'


def _fails_same(hist, want_class, want_what=None):
    try:
        mm = run_batch([hist])[0]
    except Exception:
        return False
    if not mm or layer_class(mm) != want_class:
        return False
    if want_what is not None and not any(m['what'][:32] == want_what for m in mm):
        return False
    return True


def shrink(hist, want_class, budget=120, want_what=None, seconds=90.0):
    """greedy delta-debugging: drop steps, then shrink pixel lists of update steps; the shrunk
    history must still show a mismatch of the same class and the same kind (first 32 characters).
    Bounded both by a number of re-runs and by wall-clock time (a failing history on a deep map can
    take seconds per re-run); an unshrunk history is still a valid replay."""
    import time as _time
    cur = list(hist)
    tests = 0
    t_end = _time.time() + seconds

    def _left():
        return _time.time() < t_end
    if want_what is None:
        try:
            mm0 = run_batch([hist])[0]
            want_what = mm0[0]['what'][:32] if mm0 else None
        except Exception:
            want_what = None
    # 1. cut after the first failing check
    changed = True
    while changed and tests < budget and _left():
        changed = False
        for i in range(len(cur) - 1, 0, -1):
            if cur[i]['op'] == 'mk':
                continue
            cand = cur[:i] + cur[i + 1:]
            tests += 1
            if _fails_same(cand, want_class, want_what):
                cur = cand
                changed = True
                break
            if tests >= budget or not _left():
                break
    # 2. shrink pixel/value lists
    for i, st in enumerate(cur):
        if st['op'] != 'upd' or st.get('form') in ('setitem_slice', 'setitem_int', 'range'):
            continue
        j = 0
        while j < len(cur[i]['pixels']) and len(cur[i]['pixels']) > 1 and tests < budget and _left():
            st2 = dict(cur[i])
            st2['pixels'] = cur[i]['pixels'][:j] + cur[i]['pixels'][j + 1:]
            if isinstance(st2.get('values'), list) and not st2.get('single'):
                st2['values'] = cur[i]['values'][:j] + cur[i]['values'][j + 1:]
            cand = cur[:i] + [st2] + cur[i + 1:]
            tests += 1
            if _fails_same(cand, want_class, want_what):
                cur = cand
            else:
                j += 1
    return cur


def canonical_key(hist):
    return hashlib.sha256(json.dumps(hist, sort_keys=True, default=str).encode()).hexdigest()


def nontrivial(hist):
    """a history is non-trivial when at least one update changes state and is observed afterwards"""
    seen_upd = False
    for st in hist:
        if st['op'] not in ('mk', 'check'):
            seen_upd = True
        if st['op'] == 'check' and seen_upd:
            return True
    return False


def run_property(pid, gen, n, seed, rule, extra_histories=(), max_report=5, describe=None):
    """gen(rng) -> history.  Returns the dict check.py expects."""
    rng = random.Random(seed)
    histories = []
    origin = []
    # corpus first
    for path in sorted(glob.glob(os.path.join(core.VERIF, 'corpus', pid, '*.json'))):
        histories.append(json.load(open(path))['history'])
        origin.append('corpus:' + os.path.basename(path))
    for hst, tag in extra_histories:
        histories.append(hst)
        origin.append(tag)
    for _ in range(n):
        histories.append(gen(rng))
        origin.append('gen')
    results = run_batch(histories)
    dist = Counter()
    keys = set()
    for hst in histories:
        if nontrivial(hst):
            keys.add(canonical_key(hst))
        for st in hst:
            if st['op'] == 'mk':
                dist['kind:' + st.get('kind', 'plain')] += 1
                dist['cfg:%d/%d' % (st['nc'], st['ns'])] += 1
                if st.get('dtype'):
                    dist['dtype:' + st['dtype']] += 1
                if st.get('cov_pixels') is not None:
                    dist['preallocated_cov'] += 1
            elif st['op'] == 'upd':
                dist['form:' + st.get('form', 'pix')] += 1
                dist['operation:' + st.get('operation', 'replace')] += 1
                if st.get('values') is None:
                    dist['none_clear'] += 1
                if st.get('expect', 'ok') != 'ok':
                    dist['malformed'] += 1
            else:
                dist['op:' + st['op']] += 1
    failures = []
    known_seen = {}
    reported = 0
    seen_classes = Counter()
    for hst, mm, org in zip(histories, results, origin):
        if not mm:
            continue
        cls = layer_class(mm)
        key = (cls, hst[0].get('kind'), mm[0]['what'][:48])
        seen_classes[key] += 1
        if seen_classes[key] > 1 and findings.match(pid, hst, mm) is None:
            continue    # duplicate of a failure class already reported in this run
        # cheap pre-match on the unshrunk history to avoid shrinking hundreds of known cases
        kid = findings.match(pid, hst, mm)
        if kid is None and reported < max_report:
            small = shrink(hst, cls)
            mm2 = run_batch([small])[0] or mm
            kid = findings.match(pid, small, mm2)
            reported += 1
        else:
            small, mm2 = hst, mm
        payload = dict(property=pid, origin=org, history=small, mismatches=mm2[:6], layer_class=cls,
                       original_length=len(hst))
        if kid:
            known_seen.setdefault(kid, findings.describe(kid))
            failures.append(dict(kind=cls, known=kid, payload=payload))
        else:
            failures.append(dict(kind=cls, known=None, payload=payload,
                                 text='%s: %s' % (cls, mm2[0]['what'])))
    # replay witnesses of the known findings of this property
    for kf in core.load_known_findings():
        if pid not in kf.get('properties', []) or kf.get('status') != 'known':
            continue
        w = kf.get('witness')
        if w and w.get('history'):
            mm = run_batch([w['history']])[0]
            if mm:
                known_seen.setdefault(kf['id'], kf.get('title', ''))
    samples = [h for h in histories[-3:]]
    coverage = dict(evaluations=len(histories), distinct_nontrivial=len(keys), rule=rule,
                    samples=samples, input_distribution=dict(dist),
                    known_finding_hits=Counter(f['known'] for f in failures if f['known']),
                    failure_classes={str(k): v for k, v in seen_classes.items()})
    return dict(coverage=coverage, failures=failures, known_seen=sorted(known_seen.items()),
                assumptions=[])


def replay_history(payload):
    mm = run_batch([payload['history']])[0]
    return dict(fails=bool(mm), mismatches=mm[:10])
