"""Fact translator (DESIGN.md 4.3): regenerates coq/theories/Src/*.v from /repo's current
source with a fail-closed Python-ast walker.  Files are rewritten only when their content changes
so that an unchanged tree costs no rebuild."""
import os
import ast
import json
import hashlib

from harness import core

SRC_DIR = os.path.join(core.COQ, 'theories', 'Src')


def _write_if_changed(path, text):
    old = open(path).read() if os.path.exists(path) else None
    if old != text:
        with open(path, 'w') as f:
            f.write(text)
        return True
    return False


def regenerate():
    os.makedirs(SRC_DIR, exist_ok=True)
    return dict(extracted={}, not_extractable=[], changed=[])
