"""DSL steps beyond make/update/check: producers and in-place operations of the API
(scalar operators, apply_mask, astype, boolean operators, multi-map operations, degrade, upgrade,
range updates, copies, partial reads, record-field maps and views, wide-mask bits).
Each executor runs the real API, registers the produced map under its handle and returns
[(model_op, comparator)] exactly like hsops.exec_step."""
import os
import operator
import tempfile
import shutil
import warnings
from fractions import Fraction

import numpy as np
import hpgeom as hpg
import healsparse
from healsparse import HealSparseMap
import healsparse.healSparseMap as hsm_mod

from harness import hsops
from harness.core import frac
from harness.hsops import Meta, expect_ok, DT

STEPS = {}
UNSEEN = hpg.UNSEEN


def step(name):
    def deco(fn):
        STEPS[name] = fn
        return fn
    return deco


def fail(i, what, layer='L0', impl=None, model=None):
    return [(None, lambda res: [dict(step=i, what=what, layer=layer, impl=impl, model=model)])]


def ktoks(meta):
    return [meta.prim, meta.sent.numerator, meta.sent.denominator, meta.nfields]


def qtok(x):
    f = frac(x)
    return [f.numerator, f.denominator]


def run_api(i, name, fn):
    """returns (result, None) or (None, mismatch-pairs)"""
    try:
        with warnings.catch_warnings():
            warnings.simplefilter('ignore')
            return fn(), None
    except Exception as e:  # noqa
        return None, '%s raised %s: %s' % (name, type(e).__name__, str(e)[:200])


def meta_check(i, what, got, want):
    if got != want:
        return fail(i, '%s: result parameters %r, expected %r' % (what, got, want))
    return []


def describe(m):
    """(nside_coverage, nside_sparse, kind, dtype name, sentinel as Fraction)"""
    mt = Meta(m)
    kind = mt.kind
    if kind == 'plain' and m.dtype == np.bool_:
        kind = 'bool'
    return (m.nside_coverage, m.nside_sparse, kind, np.dtype(m.dtype).name if mt.kind != 'rec' else 'rec', mt.sent)


# ---------------------------------------------------------------- scalar operators (C12)
SOP_CODE = {'+': 0, '-': 1, '*': 2, '/': 3, '**': 4, '&': 5, '|': 6, '^': 7}
SOP_FN = {'+': operator.add, '-': operator.sub, '*': operator.mul, '/': operator.truediv, '**': operator.pow,
          '&': operator.and_, '|': operator.or_, '^': operator.xor}
SOP_IFN = {'+': operator.iadd, '-': operator.isub, '*': operator.imul, '/': operator.itruediv, '**': operator.ipow,
           '&': operator.iand, '|': operator.ior, '^': operator.ixor}


@step('sop')
def do_sop(env, st, i):
    h, out = st['h'], st['out']
    m = env.maps[h]
    meta = env.meta[h]
    before = describe(m)
    if meta.kind == 'wide':
        other = [int(b) for b in st['bits']]
        if st.get('as_tuple'):
            other = tuple(other)       # the operators accept a tuple or a list of bit positions
        val = 0
        for b in other:
            val |= 1 << b
        sc = [val, 1]
    else:
        other = st['scalar']
        sc = qtok(other)
    fn = (SOP_IFN if st.get('inplace') else SOP_FN)[st['fn']]
    res, err = run_api(i, 'map %s scalar' % st['fn'], lambda: fn(m, other))
    if err:
        if st.get('expect') == 'raise':
            return []
        return fail(i, err)
    if st.get('expect') == 'raise':
        return fail(i, 'scalar operator expected to be rejected was accepted')
    pairs = []
    if st.get('inplace'):
        if res is not m:
            pairs += fail(i, 'in-place operator returned a different object')
        out = h
    else:
        env.put(out, res)
    pairs += meta_check(i, 'scalar operator', describe(res), before)
    pairs.append(([[14], [h], [out], [SOP_CODE[st['fn']]], sc], expect_ok(i, 'sop')))
    return pairs


# ---------------------------------------------------------------- apply_mask (C12)
@step('amask')
def do_amask(env, st, i):
    h, out, hm = st['h'], st['out'], st['hm']
    m = env.maps[h]
    mask = env.maps[hm]
    mmeta = env.meta[hm]
    before = describe(m)
    mode = st.get('mode', 'none')
    kw = {}
    if mode == 'bits':
        kw['mask_bits'] = int(st['bits'])
        mcode, bits = 1, int(st['bits'])
    elif mode == 'arr':
        kw['mask_bit_arr'] = [int(b) for b in st['bits']]
        bits = 0
        for b in st['bits']:
            bits |= 1 << int(b)
        mcode = 1
    else:
        mcode, bits = (2 if mmeta.kind == 'wide' else 0), 0
    inplace = bool(st.get('inplace'))
    res, err = run_api(i, 'apply_mask', lambda: m.apply_mask(mask, in_place=inplace, **kw))
    if err:
        return fail(i, err)
    pairs = []
    if inplace:
        out = h
        if res is not m:
            pairs += fail(i, 'apply_mask(in_place=True) returned a different object')
    else:
        if res is m:
            pairs += fail(i, 'apply_mask(in_place=False) returned its own argument instead of a new map')
        env.put(out, res)
    pairs += meta_check(i, 'apply_mask', describe(res), before)
    pairs.append(([[15], [h], [out], [hm], [mcode], [bits]], expect_ok(i, 'apply_mask')))
    return pairs


# ---------------------------------------------------------------- astype / as_bit_packed_map (C12)
@step('astype')
def do_astype(env, st, i):
    h, out = st['h'], st['out']
    m = env.maps[h]
    meta = env.meta[h]
    dt = DT[st['dtype']]
    sent = st.get('sentinel')
    kw = {}
    if sent is not None:
        kw['sentinel'] = float(sent) if np.dtype(dt).kind == 'f' else (bool(sent) if np.dtype(dt).kind == 'b' else int(sent))
    res, err = run_api(i, 'astype', lambda: m.astype(dt, **kw))
    if err:
        return fail(i, err)
    env.put(out, res)
    nm = env.meta[out]
    want_sent = frac(healsparse.utils.check_sentinel(np.dtype(dt).type, kw.get('sentinel')))
    pairs = meta_check(i, 'astype', (res.nside_coverage, res.nside_sparse, np.dtype(res.dtype).name, nm.sent),
                       (m.nside_coverage, m.nside_sparse, np.dtype(dt).name, want_sent))
    src_kind = np.dtype(m.dtype).kind
    if np.dtype(dt).kind == 'b':
        conv = 2
    elif src_kind == 'f' and np.dtype(dt).kind in 'iu':
        conv = 1
    else:
        conv = 0
    pairs.append(([[16], [h], [out], ktoks(nm), [conv]], expect_ok(i, 'astype')))
    return pairs


@step('aspacked')
def do_aspacked(env, st, i):
    h, out = st['h'], st['out']
    m = env.maps[h]
    res, err = run_api(i, 'as_bit_packed_map', lambda: m.as_bit_packed_map())
    if err:
        return fail(i, err)
    env.put(out, res)
    nm = env.meta[out]
    pairs = meta_check(i, 'as_bit_packed_map', (res.nside_coverage, res.nside_sparse, nm.kind, nm.sent),
                       (m.nside_coverage, m.nside_sparse, 'packed', Fraction(0)))
    # the packed map holds the validity of the source: value = (cell valid), i.e. astype with
    # conversion "valid -> 1"; for a boolean source valid == the value itself
    pairs.append(([[16], [h], [out], ktoks(nm), [3]], expect_ok(i, 'aspacked')))
    return pairs


# ---------------------------------------------------------------- boolean operators (C11)
BOP = {'and': 1, 'or': 2, 'xor': 3}
BFN = {'and': operator.and_, 'or': operator.or_, 'xor': operator.xor}
BIFN = {'and': operator.iand, 'or': operator.ior, 'xor': operator.ixor}


@step('bconst')
def do_bconst(env, st, i):
    h, out = st['h'], st['out']
    m = env.maps[h]
    before = describe(m)
    inplace = bool(st.get('inplace'))
    if st['fn'] == 'invert':
        res, err = run_api(i, 'invert', (lambda: m.invert()) if inplace else (lambda: ~m))
        code, c = 0, 0
    else:
        c = bool(st['const'])
        fn = (BIFN if inplace else BFN)[st['fn']]
        res, err = run_api(i, 'map %s const' % st['fn'], lambda: fn(m, c))
        code = BOP[st['fn']]
    if err:
        return fail(i, err)
    pairs = []
    if inplace:
        out = h
        if res is not m:
            pairs += fail(i, 'in-place boolean operator returned a different object')
    else:
        env.put(out, res)
    pairs += meta_check(i, 'boolean operator', describe(res), before)
    pairs.append(([[17], [h], [out], [code], [int(c)]], expect_ok(i, 'bconst')))
    return pairs


@step('bmap')
def do_bmap(env, st, i):
    h, out, h2 = st['h'], st['out'], st['h2']
    m = env.maps[h]
    m2 = env.maps[h2]
    before = describe(m)
    inplace = bool(st.get('inplace'))
    fn = (BIFN if inplace else BFN)[st['fn']]
    res, err = run_api(i, 'map %s map' % st['fn'], lambda: fn(m, m2))
    if err:
        return fail(i, err)
    pairs = []
    if inplace:
        out = h
        if res is not m:
            pairs += fail(i, 'in-place boolean operator returned a different object')
    else:
        env.put(out, res)
    pairs += meta_check(i, 'boolean map operator', describe(res), before)
    pairs.append(([[18], [h], [out], [BOP[st['fn']]], [h2], [1 if inplace else 0]], expect_ok(i, 'bmap')))
    return pairs


# ---------------------------------------------------------------- multi-map operations (C06)
MOPS = {
    # name: (function, fcode, union, fill_first, filler kind)
    'sum_union': (healsparse.sum_union, 0, 1, 0, 'zero'),
    'sum_intersection': (healsparse.sum_intersection, 0, 0, 0, 'zero'),
    'product_union': (healsparse.product_union, 2, 1, 0, 'one'),
    'product_intersection': (healsparse.product_intersection, 2, 0, 0, 'one'),
    'or_union': (healsparse.or_union, 6, 1, 0, 'zero'),
    'or_intersection': (healsparse.or_intersection, 6, 0, 0, 'zero'),
    'and_union': (healsparse.and_union, 5, 1, 0, 'ones'),
    'and_intersection': (healsparse.and_intersection, 5, 0, 0, 'ones'),
    'xor_union': (healsparse.xor_union, 7, 1, 0, 'zero'),
    'xor_intersection': (healsparse.xor_intersection, 7, 0, 0, 'zero'),
    'max_union': (healsparse.max_union, 8, 1, 0, 'lowest'),
    'max_intersection': (healsparse.max_intersection, 8, 0, 0, 'lowest'),
    'min_union': (healsparse.min_union, 9, 1, 0, 'highest'),
    'min_intersection': (healsparse.min_intersection, 9, 0, 0, 'highest'),
    'divide_intersection': (healsparse.divide_intersection, 3, 0, 1, 'zero'),
    'floor_divide_intersection': (healsparse.floor_divide_intersection, 10, 0, 1, 'zero'),
}
UFUNCS = {'add': (np.add, 0), 'subtract': (np.subtract, 1), 'multiply': (np.multiply, 2),
          'maximum': (np.maximum, 8), 'minimum': (np.minimum, 9)}


def mop_filler(kind, meta0):
    """the identity of the operation for the first map's type, as an exact rational.  The model gets
    the identity, not whatever the implementation uses: a wrong seed shows as a value mismatch."""
    if kind == 'zero':
        return Fraction(0)
    if kind == 'one':
        return Fraction(1)
    if meta0.kind == 'wide':
        if kind == 'ones':
            return Fraction((1 << (8 * meta0.width)) - 1)
        return Fraction(0)
    dt = np.dtype(meta0.dtype)
    if kind == 'ones':
        return Fraction(-1) if dt.kind == 'i' else Fraction(int(np.iinfo(dt).max))
    if kind in ('lowest', 'highest'):
        if dt.kind in 'iu':
            ii = np.iinfo(dt)
            return Fraction(int(ii.min if kind == 'lowest' else ii.max))
        # +-infinity is not a rational: any bound beyond every generated value acts as the identity
        return Fraction(-10 ** 40 if kind == 'lowest' else 10 ** 40)
    raise RuntimeError(kind)


@step('mop')
def do_mop(env, st, i):
    out = st['out']
    hs = st['hs']
    maps = [env.maps[h] for h in hs]
    meta0 = env.meta[hs[0]]
    name = st['name']
    if name in ('ufunc_union', 'ufunc_intersection'):
        uf, fcode = UFUNCS[st['ufunc']]
        fillv = st.get('filler', 0)
        union = 1 if name == 'ufunc_union' else 0
        api = healsparse.ufunc_union if union else healsparse.ufunc_intersection
        res, err = run_api(i, name, lambda: api(maps, uf, filler_value=fillv))
        ff = 0
        filler = frac(fillv)
    else:
        api, fcode, union, ff, fkind = MOPS[name]
        passed = list(maps)
        kw_out = {}
        if st.get('dtype_out') and name == 'divide_intersection':
            kw_out['dtype_out'] = DT[st['dtype_out']]
        res, err = run_api(i, name, lambda: api(passed, **kw_out))
        if len(passed) != len(maps) or any(a is not b for a, b in zip(passed, maps)):
            return fail(i, '%s modified the list of maps passed by the caller' % name)
        filler = mop_filler(fkind, meta0)
    if err:
        if st.get('expect') == 'raise':
            return []
        return fail(i, err)
    if st.get('expect') == 'raise':
        return fail(i, '%s expected to be rejected was accepted' % name)
    env.put(out, res)
    nm = env.meta[out]
    m0 = maps[0]
    if name == 'divide_intersection':
        odt = DT[st['dtype_out']] if st.get('dtype_out') else np.float64
        want_dt = np.dtype(odt).name
        # the first map's sentinel expressed in the requested output type
        want_sent = frac(odt(m0._sentinel)) if st.get('dtype_out') else frac(float(meta0.sent))
    else:
        want_dt = np.dtype(m0.dtype).name
        want_sent = meta0.sent
    pairs = meta_check(i, name, (res.nside_coverage, res.nside_sparse, nm.kind, np.dtype(res.dtype).name, nm.sent),
                       (m0.nside_coverage, m0.nside_sparse, meta0.kind, want_dt, want_sent))
    pairs.append(([[19], [out], [fcode, union, ff], list(hs), [filler.numerator, filler.denominator], ktoks(nm), [0]],
                  expect_ok(i, 'mop')))
    return pairs


# ---------------------------------------------------------------- degrade / upgrade (C07, C15)
RED = {'mean': 0, 'median': 1, 'std': 2, 'max': 3, 'min': 4, 'sum': 5, 'prod': 6, 'wmean': 7, 'and': 8, 'or': 9}
UNSEEN_F = frac(UNSEEN)


def expected_degrade_meta(m, meta, nside_out, red):
    """(kind, dtype name or per-field names, sentinel) of the degraded map by the documented rules"""
    if meta.kind == 'wide':
        return ('wide', 'uint8', Fraction(0))
    if meta.kind == 'rec':
        pt = np.dtype(m.dtype[m.primary])
        pt_out = np.float64 if pt.kind in 'iu' else pt.type
        return ('rec', 'rec', frac(pt_out(UNSEEN)))
    dt = np.dtype(m.dtype)
    if dt.kind in 'iu' and red in ('and', 'or'):
        return ('plain', dt.name, meta.sent)
    if dt.kind in 'iub':
        return ('plain', 'float64', UNSEEN_F)
    return ('plain', dt.name, frac(dt.type(UNSEEN)))


def set_tolerance(meta, m_src, red):
    exact = red in ('max', 'min', 'and', 'or', 'sum')
    if not exact:
        f32 = False
        if m_src.dtype.fields is None:
            f32 = np.dtype(m_src.dtype) == np.float32
        else:
            f32 = any(m_src.dtype[n] == np.float32 for n in m_src.dtype.names)
        meta.tol = Fraction(1, 10 ** 5) if f32 else Fraction(1, 10 ** 11)
    if red == 'std':
        def tr(arr, meta=meta):
            if meta.kind == 'rec':
                a = arr.copy()
                for f in meta.fields:
                    col = a[f].astype(np.float64)
                    ok = (col != UNSEEN) & (col != np.float64(np.float32(UNSEEN)))
                    col[ok] = col[ok] ** 2
                    a[f] = col
                return a
            a = np.asarray(arr).astype(np.float64)
            ok = (a != UNSEEN) & (a != np.float64(np.float32(UNSEEN)))
            a[ok] = a[ok] ** 2
            return a
        meta.transform = tr


@step('degrade')
def do_degrade(env, st, i):
    h, out = st['h'], st['out']
    m = env.maps[h]
    meta = env.meta[h]
    red = st['reduction']
    nside_out = st['nside_out']
    hw = st.get('hw')
    w = env.maps[hw] if hw is not None else None
    res, err = run_api(i, 'degrade', lambda: m.degrade(nside_out, reduction=red, weights=w))
    if err:
        if st.get('expect') == 'raise':
            return []
        return fail(i, err)
    if st.get('expect') == 'raise':
        return fail(i, 'degrade expected to be rejected was accepted')
    pairs = []
    if res is m:
        pairs += fail(i, 'degrade returned its own argument')
    env.put(out, res)
    nm = env.meta[out]
    if nside_out == m.nside_sparse:
        # a copy at the same resolution
        pairs += meta_check(i, 'degrade (same nside)', describe(res), describe(m))
        pairs.append(([[24], [h], [out]], expect_ok(i, 'degrade-copy')))
        return pairs
    kind, dtn, sent = expected_degrade_meta(m, meta, nside_out, red)
    if red == 'wmean' and w is not None and kind == 'plain':
        # x * weights: NumPy type promotion of the (float) working type with the weights' type
        rdt = np.result_type(np.dtype(dtn), np.dtype(w.dtype))
        dtn, sent = rdt.name, frac(rdt.type(UNSEEN))
    nc_out = min(m.nside_coverage, nside_out)
    got = (res.nside_coverage, res.nside_sparse, nm.kind, 'rec' if nm.kind == 'rec' else np.dtype(res.dtype).name, nm.sent)
    pairs += meta_check(i, 'degrade', got, (nc_out, nside_out, kind, dtn, sent))
    if kind == 'rec':
        # integer fields become float64, others keep their type; same primary
        want_fields = [(n, 'float64' if np.dtype(m.dtype[n]).kind in 'iu' else np.dtype(m.dtype[n]).name)
                       for n in m.dtype.names]
        got_fields = [(n, np.dtype(res.dtype[n]).name) for n in res.dtype.names]
        pairs += meta_check(i, 'degrade record fields', (got_fields, res.primary), (want_fields, m.primary))
    set_tolerance(nm, m, red)
    src_h = h
    w_h = hw
    if nside_out < m.nside_coverage:
        # below the coverage resolution: map (and weights) are re-housed first
        ncov2 = 12 * nside_out * nside_out
        nfine2 = (m.nside_sparse // nside_out) ** 2
        pairs.append(([[22], [h], [9100], [ncov2, nfine2], [0], []], expect_ok(i, 'rehouse')))
        src_h = 9100
        if hw is not None and red == 'wmean':
            pairs.append(([[22], [hw], [9101], [ncov2, nfine2], [0], []], expect_ok(i, 'rehouse-w')))
            w_h = 9101
        r = nfine2
    else:
        r = (m.nside_sparse // nside_out) ** 2
        if hw is not None and red == 'wmean':
            # weights are re-housed in the block order of the map when their index differs (fix F17)
            b2c = [int(c) for c in m._cov_map._block_to_cov_index]
            if not np.array_equal(w._cov_map[:], m._cov_map[:]):
                pairs.append(([[22], [hw], [9101], [meta.ncov, meta.nfine], [1], b2c], expect_ok(i, 'rehouse-w')))
                w_h = 9101
    use_w = w_h if (hw is not None and red == 'wmean') else -1
    # the blank of the result by the documented rule: the output sentinel in every field's output type
    if kind == 'rec':
        btoks = []
        for n in m.dtype.names:
            ft = np.float64 if np.dtype(m.dtype[n]).kind in 'iu' else np.dtype(m.dtype[n]).type
            btoks += qtok(ft(UNSEEN))
    else:
        btoks = [sent.numerator, sent.denominator]
    pairs.append(([[20], [src_h], [out], [r, RED[red]], ktoks(nm), [use_w], btoks], expect_ok(i, 'degrade')))
    return pairs


@step('upgrade')
def do_upgrade(env, st, i):
    h, out = st['h'], st['out']
    m = env.maps[h]
    nside_out = st['nside_out']
    res, err = run_api(i, 'upgrade', lambda: m.upgrade(nside_out))
    if err:
        return fail(i, err)
    env.put(out, res)
    d0 = describe(m)
    pairs = meta_check(i, 'upgrade', describe(res), (d0[0], nside_out) + d0[2:])
    r = (nside_out // m.nside_sparse) ** 2
    pairs.append(([[21], [h], [out], [r]], expect_ok(i, 'upgrade')))
    return pairs


# ---------------------------------------------------------------- range updates (C08)
@step('rng')
def do_rng(env, st, i):
    h = st['h']
    m = env.maps[h]
    meta = env.meta[h]
    op = st.get('operation', 'replace')
    rows = [(int(a), int(b)) for a, b in st['ranges']]
    arr = np.array(rows, dtype=np.int64).reshape((-1, 2))
    vals = st['value']
    if vals is None:
        value = None
    else:
        value = hsops._np_value(meta, m.dtype, vals)
        if meta.kind == 'plain' and np.dtype(m.dtype).kind in 'iu':
            value = int(vals)
        elif meta.kind == 'plain' and np.dtype(m.dtype).kind == 'f':
            value = float(value)
    old_thr = hsm_mod.PIXEL_RANGE_THRESHOLD
    thr = st.get('thr')
    if thr is not None:
        hsm_mod.PIXEL_RANGE_THRESHOLD = thr
    try:
        res, err = run_api(i, 'update_values_pix(ranges)', lambda: m.update_values_pix(arr, value, operation=op))
    finally:
        hsm_mod.PIXEL_RANGE_THRESHOLD = old_thr
    if err:
        if st.get('expect') == 'raise':
            return []
        return fail(i, err)
    if st.get('nomodel'):
        env.nomodel = True
        return []
    # model: the slice path when above the threshold, otherwise the explicit-pixel path
    npx = sum(b - a for a, b in rows)
    use_thr = old_thr if thr is None else thr
    na = 1 if vals is None else 0
    if vals is None:
        toks = hsops.upd_model_op(h, meta, dict(pixels=[0], values=None), m)[4]
    else:
        toks = hsops._tok_value(meta, vals)
    if npx > use_thr:
        flat = []
        for a, b in rows:
            flat += [a, b]
        cm = [int(b) for b in m.coverage_mask]

        def cmp(res, cm=cm):
            if res[0][0] != 1:
                return [dict(step=i, what='rng: model rejected', layer='L1', impl='ok', model=res[0])]
            need = res[1]
            if any(n and not c for n, c in zip(need, cm)):
                return [dict(step=i, what='coverage mask after a range update does not contain the needed coverage',
                             layer='L0', impl=cm, model=need)]
            return []
        return [([[23], [h], [h], [hsops.OPCODE[op], na], flat, toks], cmp)]
    pixels = []
    for a, b in rows:
        pixels += list(range(a, b))
    return [([[2], [h], [hsops.OPCODE[op], na], pixels, toks * len(pixels)], expect_ok(i, 'rng-expanded'))]


# ---------------------------------------------------------------- copies (C09/C10)
@step('copy')
def do_copy(env, st, i):
    h, out = st['h'], st['out']
    m = env.maps[h]
    res, err = run_api(i, 'copy', lambda: m.copy())
    if err:
        return fail(i, err)
    env.put(out, res)
    pairs = meta_check(i, 'copy', describe(res), describe(m))
    pairs.append(([[24], [h], [out]], expect_ok(i, 'copy')))
    return pairs


@step('rewrap')
def do_rewrap(env, st, i):
    """the same content through the public constructor, over storage that is a VIEW of a larger buffer
    (as the arrays of get_single(copy=False) and of maps built from slices are): a content-equal map
    whose storage array cannot be resized in place.  Bit-packed maps are copied instead."""
    h, out = st['h'], st['out']
    m = env.maps[h]
    meta = env.meta[h]
    if meta.kind == 'packed':
        res, err = run_api(i, 'copy', lambda: m.copy())
    else:
        def build():
            sm = m._sparse_map
            pad = int(st.get('pad', 3))
            buf = np.zeros((sm.shape[0] + pad,) + tuple(sm.shape[1:]), dtype=sm.dtype)
            buf[:sm.shape[0]] = sm
            kw = dict(cov_map=m._cov_map.copy(), sparse_map=buf[:sm.shape[0]], nside_sparse=m.nside_sparse,
                      sentinel=m._sentinel)
            if meta.kind == 'rec':
                kw['primary'] = m.primary
            return HealSparseMap(**kw)
        res, err = run_api(i, 'HealSparseMap(cov_map=, sparse_map=view)', build)
    if err:
        return fail(i, err)
    env.put(out, res)
    env.meta[out].tol = meta.tol
    env.meta[out].transform = meta.transform
    pairs = meta_check(i, 'rewrap', describe(res), describe(m))
    pairs.append(([[24], [h], [out]], expect_ok(i, 'rewrap')))
    return pairs


# ---------------------------------------------------------------- sharing of mutable state (C09)
PROD_CODE = {'copy': 0, 'sop': 1, 'astype': 2, 'aspacked': 3, 'degrade': 4, 'degrade_same': 4, 'degrade_w': 4, 'upgrade': 5,
             'amask': 6, 'single': 7, 'single_view': 8, 'covpixmap': 9, 'covpixmap_unc': 9, 'mop': 10, 'bmap': 11,
             'invert': 12, 'fracdet': 13, 'wr': 14, 'mklike': 15, 'bconst': 16}


def _storage_array(m):
    sm = m._sparse_map
    return sm._data if hasattr(sm, '_data') else sm


def actual_sharing(res, arg):
    """what the result of a producer shares with one of its arguments:
    (the coverage object, memory of the storage array, the metadata object)"""
    cov = (res._cov_map is arg._cov_map) or bool(np.shares_memory(res._cov_map._cov_index_map, arg._cov_map._cov_index_map))
    sp = bool(np.shares_memory(_storage_array(res), _storage_array(arg)))
    md = (res._metadata is arg._metadata) and res._metadata is not None
    return [int(cov), int(sp), int(md)]


@step('sharing')
def do_sharing(env, st, i):
    """the references the result of a producer shares with its arguments, compared with the model's sharing
    table (Sharing.prod_shares) for the first argument; nothing may be shared with any other argument.
    From here on every mutating step of the history is also watched for in-place writes of a coverage
    object (coverage objects may be shared because they are immutable)."""
    res = env.maps[st['out']]
    srcs = st['srcs']
    env.watch_cov = True
    pairs = []
    first = actual_sharing(res, env.maps[srcs[0]])

    def cmp(r, first=first):
        if r[0][0] != 1 or list(r[1]) != first:
            return [dict(step=i, what='the result of %s shares other state with its argument than the model says '
                         '(coverage object, storage, metadata)' % st['prod'], layer='L1', impl=first, model=r[1] if len(r) > 1 else r)]
        return []
    pairs.append(([[45], [PROD_CODE[st['prod']]]], cmp))
    if first[1] or first[2]:
        if st['prod'] != 'single_view':
            pairs += fail(i, 'the result of %s shares mutable state (storage / metadata) with its argument' % st['prod'])
    for s in srcs[1:]:
        got = actual_sharing(res, env.maps[s])
        if any(got):
            pairs += fail(i, 'the result of %s shares state with its operand / weights / mask argument: %s' % (st['prod'], got))
    return pairs


MUTATING = {'upd', 'grow', 'rng', 'bits', 'vwrite', 'vwrite_valid', 'metamut', 'geom'}


def cov_watch_before(env, st):
    if not getattr(env, 'watch_cov', False) or st.get('op') not in MUTATING:
        return None
    snap = []
    for h, m in list(env.maps.items()):
        try:
            snap.append((h, m._cov_map, m._cov_map._cov_index_map.copy()))
        except Exception:  # noqa
            pass
    return snap


def cov_watch_after(env, st, i, snap):
    if not snap:
        return []
    for h, obj, before in snap:
        if not np.array_equal(obj._cov_index_map, before):
            return fail(i, 'a coverage object was written in place by %s (coverage objects are shared between '
                        'maps and must be immutable): the one map %d referenced before the call' % (st.get('op'), h))
    return []


# ---------------------------------------------------------------- write / read (C03)
TMPROOT = None


def tmpdir():
    global TMPROOT
    if TMPROOT is None or not os.path.isdir(TMPROOT):
        TMPROOT = tempfile.mkdtemp(prefix='hsverif_')
        import atexit
        atexit.register(cleanup)
    return TMPROOT


def cleanup():
    global TMPROOT
    if TMPROOT and os.path.isdir(TMPROOT):
        shutil.rmtree(TMPROOT, ignore_errors=True)
    TMPROOT = None


def same_kind(i, what, a, b):
    """kind / dtype / sentinel / widths of two maps"""
    da = (describe(a), a.wide_mask_maxbits, a.primary, a.is_bit_packed_map,
          np.dtype(a.dtype) if a.dtype.fields is None else [(n, np.dtype(a.dtype[n])) for n in a.dtype.names],
          type(a._sentinel).__name__ if a.dtype.fields is None else None)
    db = (describe(b), b.wide_mask_maxbits, b.primary, b.is_bit_packed_map,
          np.dtype(b.dtype) if b.dtype.fields is None else [(n, np.dtype(b.dtype[n])) for n in b.dtype.names],
          type(b._sentinel).__name__ if b.dtype.fields is None else None)
    return meta_check(i, what, da, db)


def file_layout(i, fname, m, meta):
    """the COV and SPARSE extensions of a written file, read with astropy independently of healsparse's
    reader, must satisfy the published layout predicate (the extracted layoutb_with)"""
    import astropy.io.fits as afits
    try:
        with afits.open(fname, memmap=False) as hl:
            cov = np.asarray(hl[0].data).astype(np.int64)
            hdr = hl[1].header
            if meta.kind == 'rec':
                flags = (np.asarray(hl[1].data[m.primary]) != m._sentinel)     # (column access applies TZERO)
                sp = None
            else:
                sp = np.asarray(hl[1].data)
            if meta.kind == 'rec':
                pass
            elif meta.kind == 'wide':
                w = hdr['WWIDTH']
                flags = np.any(sp.reshape((sp.size // w, w)) != 0, axis=1)
            elif meta.kind == 'packed':
                flags = np.unpackbits(sp.astype(np.uint8).ravel(), bitorder='little').astype(bool)
            elif m.dtype == np.bool_:
                flags = (sp.ravel() != 0)
            else:
                flags = (sp.ravel() != m._sentinel)
    except Exception as e:  # noqa
        return fail(i, 'written file could not be inspected with astropy: %s: %s' % (type(e).__name__, e))
    idx = [int(x) for x in cov]
    offs = np.asarray(idx) + np.arange(len(idx)) * meta.nfine
    covered = np.where(offs >= meta.nfine)[0]
    b2c = [int(c) for c in covered[np.argsort(offs[covered])]]
    op = [[9], [meta.nfine], idx, [int(b) for b in flags], b2c]
    extra = []
    # the raw rows of every block, at [off*wmult//wdiv, (off+nfine)*wmult//wdiv) of the flattened storage, are
    # the cells of that coverage pixel and nothing else (FileRows.rows_of_a_block: wide wmult = width, packed wdiv = 8)
    try:
        if sp is not None and (meta.kind in ('wide', 'packed') or (meta.kind == 'plain' and m.dtype != np.bool_)):
            raw = sp.ravel()
            wmult = int(hdr['WWIDTH']) if meta.kind == 'wide' else 1
            wdiv = 8 if meta.kind == 'packed' else 1
            for c in covered:
                off = int(offs[c])
                rows = raw[off * wmult // wdiv: (off + meta.nfine) * wmult // wdiv]
                vals = m.get_values_pix(np.arange(c * meta.nfine, (c + 1) * meta.nfine, dtype=np.int64))
                if meta.kind == 'wide':
                    same = np.array_equal(rows.astype(np.uint8), np.asarray(vals, dtype=np.uint8).ravel())
                elif meta.kind == 'packed':
                    same = np.array_equal(np.unpackbits(rows.astype(np.uint8), bitorder='little').astype(bool),
                                          np.asarray(vals, dtype=bool))
                else:
                    same = np.array_equal(rows, np.asarray(vals), equal_nan=(np.dtype(m.dtype).kind == 'f'))
                if not same:
                    extra += fail(i, 'the rows of a block in the written file are not the cells of its coverage pixel')
                    break
    except Exception as e:  # noqa
        extra += fail(i, 'block rows of the written file could not be compared: %s: %s' % (type(e).__name__, e))

    def cmp(res):
        if res[1] != [1]:
            return [dict(step=i, what='the COV/SPARSE extensions of a written file violate the published layout',
                         layer='L0', impl=dict(idx=idx), model=res[1])]
        return []
    return [(op, cmp)] + extra


@step('wr')
def do_wr(env, st, i):
    """write h to a file and read it back as out (full read, or pixels=...)"""
    h, out = st['h'], st['out']
    m = env.maps[h]
    fname = os.path.join(tmpdir(), 'map_%d_%d.hsp' % (i, os.getpid()))
    md = st.get('metadata')
    if md is not None:
        m.metadata = md
    elif st.get('expect_metadata') is not None:
        md = st['expect_metadata']      # assigned by earlier steps: the file must carry exactly these values
    _, err = run_api(i, 'write', lambda: m.write(fname, clobber=True, nocompress=not st.get('compress', True)))
    if err:
        return fail(i, err)
    env.files = getattr(env, 'files', {})
    env.files[h] = fname
    file_pairs = file_layout(i, fname, m, env.meta[h])
    pixels = st.get('pixels')
    if pixels is None:
        res, err = run_api(i, 'read', lambda: HealSparseMap.read(fname))
    else:
        res, err = run_api(i, 'read(pixels)', lambda: HealSparseMap.read(fname, pixels=[int(c) for c in pixels]))
    pairs = list(file_pairs)
    # coverage-only read
    cov, err2 = run_api(i, 'HealSparseCoverage.read', lambda: healsparse.HealSparseCoverage.read(fname))
    if err2:
        pairs += fail(i, err2)
    elif not np.array_equal(cov.coverage_mask, m.coverage_mask):
        pairs += fail(i, 'coverage read from the file differs from the coverage mask of the map written')
    if err:
        if pixels is not None and not any(m.coverage_mask[int(c)] for c in pixels):
            return pairs    # documented: an error when none of the pixels is covered
        return pairs + fail(i, err)
    if pixels is not None and not any(m.coverage_mask[int(c)] for c in pixels):
        return pairs + fail(i, 'partial read with no covered pixel was accepted')
    env.put(out, res)
    pairs += same_kind(i, 'map read back', res, m)
    if md is not None:
        got = res.metadata
        bad = [k for k in md if k not in got or got[k] != md[k]]
        if bad:
            pairs += fail(i, 'metadata keys not preserved by write/read: %r' % bad)
    if pixels is None:
        pairs.append(([[24], [h], [out]], expect_ok(i, 'read')))
    else:
        pairs.append(([[25], [h], [out], [int(c) for c in pixels]], expect_ok(i, 'read-partial')))
    return pairs


# ---------------------------------------------------------------- record fields (C14)
@step('single')
def do_single(env, st, i):
    h, out = st['h'], st['out']
    m = env.maps[h]
    meta = env.meta[h]
    field = st['field']
    copy = bool(st.get('copy', True))
    res, err = run_api(i, 'get_single', lambda: m.get_single(field, copy=copy))
    if err:
        return fail(i, err)
    j = meta.fields.index(field)
    want_sent = meta.sent if j == meta.prim else frac(healsparse.utils.check_sentinel(m.dtype[field].type, None))
    nm = Meta(res)
    pairs = meta_check(i, 'get_single', (res.nside_coverage, res.nside_sparse, np.dtype(res.dtype).name, nm.sent),
                       (m.nside_coverage, m.nside_sparse, np.dtype(m.dtype[field]).name, want_sent))
    if copy:
        env.put(out, res)
        pairs.append(([[26], [h], [out], [j], ktoks(nm)], expect_ok(i, 'single-copy')))
    else:
        # a view: observed through the parent; every observation re-derives it from the parent state
        env.put(out, res)
        env.views = getattr(env, 'views', {})
        env.views[out] = (h, j)
        pairs.append(([[29], [h], [out], [j], ktoks(nm)], expect_ok(i, 'single-view')))
    return pairs


@step('vwrite')
def do_vwrite(env, st, i):
    """write through a freshly taken field view of h"""
    h = st['h']
    m = env.maps[h]
    meta = env.meta[h]
    field = st['field']
    j = meta.fields.index(field)
    pixels = [int(p) for p in st['pixels']]
    ft = m.dtype[field].type
    vals = np.array(st['values'], dtype=ft)
    view = m.get_single(field, copy=False)
    fs = frac(view._sentinel)
    try:
        if st.get('ring'):
            view.update_values_pix(hpg.nest_to_ring(m.nside_sparse, np.array(pixels, dtype=np.int64)), vals, nest=False)
        else:
            view.update_values_pix(np.array(pixels, dtype=np.int64), vals)
        raised = None
    except Exception as e:  # noqa
        raised = '%s: %s' % (type(e).__name__, e)
    toks = []
    for v in vals:
        toks += qtok(v)
    mop = [[27], [h], [h], [j, fs.numerator, fs.denominator], pixels, toks]

    def cmp(res, raised=raised):
        l1_raises, l0_raises = bool(res[1][0]), bool(res[1][1])
        mm = []
        if l1_raises != (raised is not None):
            mm.append(dict(step=i, what='write through a field view: implementation %s, L1 model %s'
                           % ('raised' if raised else 'accepted', 'raises' if l1_raises else 'accepts'),
                           layer='L1', impl=raised, model=l1_raises))
        if l0_raises and raised is None:
            mm.append(dict(step=i, what='write through a field view to a pixel that is invalid in the parent was accepted',
                           layer='L0', impl='ok', model='RAISED'))
        if (not l0_raises) and raised is not None:
            mm.append(dict(step=i, what='write through a field view to valid pixels raised: ' + raised, layer='L0',
                           impl='RAISED', model='ok'))
        return mm
    return [(mop, cmp)]


@step('mkdup')
def do_mkdup(env, st, i):
    """make_empty with a pre-allocation list that names a coverage pixel twice: either rejected, or the map it
    returns obeys the layout (one block per covered coverage pixel plus the overflow block)"""
    cp = [int(c) for c in st['cov_pixels']]
    try:
        m = HealSparseMap.make_empty(st['nc'], st['ns'], DT[st['dtype']], cov_pixels=np.array(cp))
    except ValueError:
        return []
    except Exception as e:  # noqa
        return fail(i, 'make_empty with repeated coverage pixels raised %s: %s' % (type(e).__name__, e))
    nfine = (st['ns'] // st['nc']) ** 2
    ncovd = int(np.sum(m.coverage_mask))
    if len(m._sparse_map) != (ncovd + 1) * nfine:
        return fail(i, 'make_empty accepted repeated coverage pixels: %d storage blocks for %d covered coverage pixels'
                    % (len(m._sparse_map) // nfine, ncovd))
    return []


@step('vrange')
def do_vrange(env, st, i):
    """a write through a fresh single-field view addressed by half-open pixel RANGES that contain at least one pixel
    invalid in the parent: must be rejected, on either side of the size threshold, leaving the parent unchanged
    (the checks that follow compare the whole parent with the model, which this step does not touch)"""
    h = st['h']
    m = env.maps[h]
    rows = np.array([(int(a), int(b)) for a, b in st['ranges']], dtype=np.int64).reshape((-1, 2))
    pix = hpg.pixel_ranges_to_pixels(rows)
    if pix.size == 0 or bool(np.all(m.get_values_pix(pix, valid_mask=True))):
        return []          # nothing invalid inside: not the case this step is about
    f = st['field']
    if bool(np.all(m[f].get_values_pix(pix, valid_mask=True))):
        # every pixel of the range holds a value in this field although the parent is invalid there (a record
        # written with the primary at the sentinel): the per-field validity of views, known finding F32
        return []
    ft = np.dtype(m.dtype[f])
    value = ft.type(st['value'])
    old_thr = hsm_mod.PIXEL_RANGE_THRESHOLD
    if st.get('thr') is not None:
        hsm_mod.PIXEL_RANGE_THRESHOLD = st['thr']
    try:
        v = m[f]
        try:
            v.update_values_pix(rows, value)
            raised = False
        except Exception:  # noqa
            raised = True
    finally:
        hsm_mod.PIXEL_RANGE_THRESHOLD = old_thr
    if not raised:
        return fail(i, 'a write through a field view given as pixel ranges that contain invalid pixels was accepted')
    return []


# ---------------------------------------------------------------- wide-mask bits (C13)
@step('bits')
def do_bits(env, st, i):
    h = st['h']
    m = env.maps[h]
    meta = env.meta[h]
    pixels = [int(p) for p in st['pixels']]
    bits = [int(b) for b in st['bits']]
    which = st['which']
    fn = m.set_bits_pix if which == 'set' else m.clear_bits_pix
    try:
        with warnings.catch_warnings():
            warnings.simplefilter('ignore')
            fn(np.array(pixels, dtype=np.int64), tuple(bits) if st.get('as_tuple') else bits)
        raised = None
    except ValueError as e:
        raised = 'ValueError'
    except Exception as e:  # noqa
        raised = '%s: %s' % (type(e).__name__, e)
    too_big = any(b >= meta.width * 8 for b in bits)
    if too_big:
        if raised != 'ValueError':
            return fail(i, 'bit position >= width: expected ValueError, got %r' % (raised,))
        return []      # map must be unchanged: the following check compares everything
    if raised is not None:
        return fail(i, '%s_bits_pix raised %s' % (which, raised))
    val = 0
    for b in bits:
        val |= 1 << b
    full = (1 << (8 * meta.width)) - 1
    # the byte row the implementation builds from the bit list, against WideRow.bitvals_to_packed and the
    # little-endian integer (the transform every wide-mask comparison of this harness goes through)
    from healsparse.utils import _bitvals_to_packed_array
    row = [int(x) for x in _bitvals_to_packed_array(bits, 8 * meta.width)]

    def cmp_row(res, row=row, val=val):
        mm = []
        if res[0][0] != 1 or list(res[1]) != row:
            mm.append(dict(step=i, what='byte row of the bit list %r vs the row model' % bits, layer='L1', impl=row,
                           model=res[1] if len(res) > 1 else res))
        elif res[2][0] != int.from_bytes(bytes(row), 'little') or res[2][0] != val:
            mm.append(dict(step=i, what='little-endian integer of the row of %r is not the set of listed bits' % bits,
                           layer='L0', impl=val, model=res[2]))
        return mm
    pairs = [([[49], [meta.width], bits], cmp_row)]
    if which == 'set':
        return pairs + [([[2], [h], [hsops.OPCODE['or'], 0], pixels, [val, 1] * len(pixels)], expect_ok(i, 'set_bits'))]
    return pairs + [([[2], [h], [hsops.OPCODE['and'], 0], pixels, [full & ~val, 1] * len(pixels)], expect_ok(i, 'clear_bits'))]


@step('chkbits')
def do_chkbits(env, st, i):
    """check_bits_pix over all pixels for each of the given bit lists, against L1 and L0"""
    h = st['h']
    m = env.maps[h]
    meta = env.meta[h]
    allpix = np.arange(meta.npix, dtype=np.int64)
    pairs = []
    for bits in st['bitlists']:
        bits = [int(b) for b in bits]
        arg = tuple(bits) if st.get('as_tuple') else bits
        got, err = run_api(i, 'check_bits_pix', lambda: [int(x) for x in m.check_bits_pix(allpix, arg)])
        if err:
            pairs += fail(i, err)
            continue
        val = 0
        for b in bits:
            val |= 1 << b

        def cmp(res, got=got, bits=bits):
            mm = []
            if res[1] != got:
                mm.append(dict(step=i, what='check_bits_pix(%r) vs L1' % bits, layer='L1', impl=None, model=None))
            if res[2] != got:
                mm.append(dict(step=i, what='check_bits_pix(%r) vs L0 bit sets' % bits, layer='L0', impl=None, model=None))
            return mm
        pairs.append(([[28], [h], [0], [val]], cmp))
    if m.wide_mask_maxbits != 8 * meta.width:
        pairs += fail(i, 'wide_mask_maxbits is not 8 * width')
    return pairs


# ---------------------------------------------------------------- implementation-internal comparisons
@step('sameas')
def do_sameas(env, st, i):
    """the map under handle h must be content-equal to the map under handle ref"""
    a = env.maps[st['h']]
    b = env.maps[st['ref']]
    ma, mb = env.meta[st['h']], env.meta[st['ref']]
    allpix = np.arange(ma.npix, dtype=np.int64)
    try:
        va = ma.cells(a.get_values_pix(allpix))
        vb = mb.cells(b.get_values_pix(allpix))
        pa = sorted(int(p) for p in a.valid_pixels)
        pb = sorted(int(p) for p in b.valid_pixels)
    except Exception as e:  # noqa
        return fail(i, 'sameas raised %s: %s' % (type(e).__name__, e))
    out = []
    if st.get('values', True):
        # integer/bool sources come back as float64 after degrade: compare as rationals
        class T:
            tol = Fraction(1, 10 ** 11)
        bad = False
        if len(va) != len(vb):
            bad = True
        else:
            # invalid pixels: sentinel of each map; compare only valid pixels and the valid sets
            w = 2 * ma.nfields
            for p in pa:
                if not hsops.tokens_equal(va[w * p: w * (p + 1)], vb[w * p: w * (p + 1)], T):
                    bad = True
                    break
        if bad:
            out += fail(i, st.get('what', 'maps expected to be content-equal differ in a value'))
    if pa != pb:
        out += fail(i, st.get('what', 'maps expected to be content-equal differ') + ' (valid sets differ)')
    return out


@step('vwrite_valid')
def do_vwrite_valid(env, st, i):
    import random
    h = st['h']
    m = env.maps[h]
    meta = env.meta[h]
    rr = random.Random(st['seed'])
    vp = [int(p) for p in m.valid_pixels]
    if not vp:
        return []
    pix = rr.sample(vp, min(len(vp), st['n']))
    ft = np.dtype(m.dtype[st['field']])
    if ft.kind == 'f':
        vals = [rr.randint(-32, 32) / 4.0 for _ in pix]
    else:
        vals = [rr.randint(1, 20) for _ in pix]
    return do_vwrite(env, dict(op='vwrite', h=h, field=st['field'], pixels=pix, values=vals), i)


# ---------------------------------------------------------------- generic growth (two-phase histories)
def _unit_value(m, meta):
    """a valid value for the map's type"""
    if meta.kind == 'wide':
        v = np.zeros((1, meta.width), dtype=np.uint8)
        v[0, 0] = 1
        return v, [1, 1]
    if meta.kind == 'rec':
        r = np.zeros(1, dtype=m.dtype)
        toks = []
        for j, f in enumerate(meta.fields):
            x = 3 if j != meta.prim else (3 if frac(m._sentinel) != 3 else 4)
            r[f] = x
            toks += qtok(r[f][0])
        return r, toks
    if meta.kind == 'packed' or m.dtype == np.bool_:
        return np.array([True]), [1, 1]
    x = 3 if meta.sent != 3 else 4
    v = np.array([x], dtype=m.dtype)
    return v, qtok(v[0])


@step('grow')
def do_grow(env, st, i):
    """write one valid value into a pixel of an uncovered coverage pixel (coverage growth) or, if
    everything is covered, into pixel st['alt']"""
    h = st['h']
    m = env.maps[h]
    meta = env.meta[h]
    cm = m.coverage_mask
    unc = np.where(~cm)[0]
    if unc.size > 0:
        c = int(unc[st.get('which', 0) % unc.size])
        p = c * meta.nfine + (st.get('off', 0) % meta.nfine)
    else:
        p = st.get('alt', 0) % meta.npix
    v, toks = _unit_value(m, meta)
    _, err = run_api(i, 'update (growth)', lambda: m.update_values_pix(np.array([p], dtype=np.int64), v))
    if err:
        return fail(i, 'growth of a map handed out by the API failed: ' + err)
    return [([[2], [h], [0, 0], [p], toks], expect_ok(i, 'grow'))]


@step('covpixmap')
def do_covpixmap(env, st, i):
    h, out = st['h'], st['out']
    m = env.maps[h]
    cm = m.coverage_mask
    cov = np.where(cm)[0]
    c = int(cov[st.get('which', 0) % cov.size]) if cov.size and not st.get('uncovered') else int(np.where(~cm)[0][0]) if (~cm).any() else 0
    res, err = run_api(i, 'get_single_covpix_map', lambda: m.get_single_covpix_map(c))
    if err:
        return fail(i, err)
    env.put(out, res)
    # (a bit-packed source gives an ordinary boolean sub-map: the storage kind of sub-maps is not part
    # of any property; resolution, dtype and sentinel are)
    pairs = meta_check(i, 'get_single_covpix_map',
                       (res.nside_coverage, res.nside_sparse, np.dtype(res.dtype).name if res.dtype.fields is None else 'rec',
                        Meta(res).sent, res.primary, res.wide_mask_maxbits),
                       (m.nside_coverage, m.nside_sparse, np.dtype(m.dtype).name if m.dtype.fields is None else 'rec',
                        Meta(m).sent, m.primary, m.wide_mask_maxbits))
    pairs.append(([[13], [h], [out], [c]], expect_ok(i, 'covpixmap')))
    return pairs


@step('fracdet')
def do_fracdet(env, st, i):
    """fracdet_map as a produced map: values checked by the 'fracdet' observer; here it only becomes a
    live handle for non-interference tests (no model state: observed with implementation-internal checks)"""
    h, out = st['h'], st['out']
    m = env.maps[h]
    res, err = run_api(i, 'fracdet_map', lambda: m.fracdet_map(st['nside']))
    if err:
        return fail(i, err)
    env.side = getattr(env, 'side', {})
    env.side[out] = res
    return []


@step('setmeta')
def do_setmeta(env, st, i):
    m = env.maps[st['h']]
    if st.get('bad'):
        # an assignment that must be rejected (a key that is not upper case) leaves the metadata as it was
        before = None if m.metadata is None else dict(m.metadata)
        try:
            m.metadata = dict(st['metadata'])
        except ValueError:
            after = None if m.metadata is None else dict(m.metadata)
            if after != before:
                return fail(i, 'a rejected metadata assignment changed the metadata of the map')
            return []
        return fail(i, 'a metadata dictionary with a key that is not upper case was accepted')
    m.metadata = dict(st['metadata'])
    return []


@step('metamut')
def do_metamut(env, st, i):
    """mutate the metadata dict of map h in place; the metadata of the maps in 'others' must not change"""
    m = env.maps[st['h']]
    others = [env.maps[o] for o in st['others']]
    before = [None if o.metadata is None else dict(o.metadata) for o in others]
    if m.metadata is None:
        return []
    m.metadata['ZZMUT'] = 1
    after = [None if o.metadata is None else dict(o.metadata) for o in others]
    if before != after:
        return fail(i, 'changing the metadata of a derived map changed the metadata of its source')
    del m.metadata['ZZMUT']
    return []


@step('snapshot')
def do_snapshot(env, st, i):
    """remember the full observable content of map h (values, valid set, coverage, sentinel, dtype)"""
    h = st['h']
    m = env.maps[h]
    meta = env.meta[h]
    allpix = np.arange(meta.npix, dtype=np.int64)
    env.snaps = getattr(env, 'snaps', {})
    env.snaps[st['name']] = (meta.cells(m.get_values_pix(allpix)), sorted(int(p) for p in m.valid_pixels),
                             [int(b) for b in m.coverage_mask], describe(m), int(m.n_valid))
    return []


@step('unchanged')
def do_unchanged(env, st, i):
    h = st['h']
    m = env.maps[h]
    meta = env.meta[h]
    allpix = np.arange(meta.npix, dtype=np.int64)
    try:
        now = (meta.cells(m.get_values_pix(allpix)), sorted(int(p) for p in m.valid_pixels),
               [int(b) for b in m.coverage_mask], describe(m), int(m.n_valid))
    except Exception as e:  # noqa
        return fail(i, '%s: re-reading a map raised %s: %s' % (st.get('what', 'unchanged'), type(e).__name__, e))
    was = env.snaps[st['name']]
    names = ['values', 'valid pixels', 'coverage mask', 'parameters', 'n_valid']
    bad = [n for n, a, b in zip(names, was, now) if a != b]
    if bad:
        return fail(i, '%s: %s changed' % (st.get('what', 'a map that must be unchanged was disturbed'), ', '.join(bad)))
    return []


# ---------------------------------------------------------------- helpers for the C05 twins
@step('ifexists')
def do_ifexists(env, st, i):
    env.maps[st['h']]     # raises MissingHandle (step skipped) when the handle was never produced
    return []


@step('sameas_if')
def do_sameas_if(env, st, i):
    if st['h'] not in env.maps or st['ref'] not in env.maps:
        if (st['h'] in env.maps) != (st['ref'] in env.maps):
            return fail(i, 'an operation was accepted on one of the twins and rejected on the other')
        return []
    return do_sameas(env, dict(st, what='bit-packed map and its ordinary boolean twin differ after write/read'), i)


@step('mklike')
def do_mklike(env, st, i):
    h, out = st['h'], st['out']
    m = env.maps[h]
    kw = {}
    if st.get('bit_packed') is not None:
        kw['bit_packed'] = bool(st['bit_packed'])      # the other storage kind of a boolean map
    res, err = run_api(i, 'make_empty_like', lambda: HealSparseMap.make_empty_like(m, **kw))
    if err:
        return fail(i, err)
    if 'bit_packed' in kw and bool(res.is_bit_packed_map) != kw['bit_packed']:
        return fail(i, 'make_empty_like(bit_packed=%s) returned a map of the other storage kind' % kw['bit_packed'])
    env.put(out, res)
    meta = env.meta[h]
    return [(hsops.mk_model_op(out, env.meta[out], res, None), expect_ok(i, 'mklike'))]


@step('kindsame')
def do_kindsame(env, st, i):
    a, b = env.maps[st['h']], env.maps[st['ref']]
    return same_kind(i, 'make_empty_like: kind of the new map', a, b)


# ---------------------------------------------------------------- MOC (C17)
def _expand_uniq(uniq, mx):
    out = []
    for u in uniq:
        o = (int(u) // 4).bit_length() - 1
        o //= 2
        i = int(u) - 4 * 4 ** o
        d = mx - o
        out.append((o, i << (2 * d), (i + 1) << (2 * d)))
    return out


@step('moc')
def do_moc(env, st, i):
    import astropy.io.fits as afits
    h = st['h']
    m = env.maps[h]
    meta = env.meta[h]
    fname = os.path.join(tmpdir(), 'moc_%d_%d.fits' % (i, os.getpid()))
    vp = sorted(int(p) for p in m.valid_pixels)
    if not vp:
        return []
    snap_before = (meta.cells(m.get_values_pix(np.arange(meta.npix))), vp)
    _, err = run_api(i, 'write_moc', lambda: m.write_moc(fname, clobber=True))
    if err:
        return fail(i, err)
    pairs = []
    if (meta.cells(m.get_values_pix(np.arange(meta.npix))), sorted(int(p) for p in m.valid_pixels)) != snap_before:
        pairs += fail(i, 'write_moc changed the map')
    with afits.open(fname) as hl:
        uniq = sorted(int(u) for u in hl[1].data['UNIQ'])
    mx = int(round(np.log2(m.nside_sparse)))
    mn = int(round(np.log2(m.nside_coverage)))
    cells = _expand_uniq(uniq, mx)
    # property, evaluated on the cells the implementation wrote (independent expansion)
    covered = np.zeros(meta.npix, dtype=np.int32)
    for o, lo, hi in cells:
        covered[lo:hi] += 1
    if covered.max() > 1:
        pairs += fail(i, 'MOC cells overlap')
    if sorted(np.where(covered > 0)[0].tolist()) != vp:
        vpset = set(vp)
        extra = []
        for p in np.where(covered > 0)[0]:
            if int(p) not in vpset:
                extra.append(int(p))
                if len(extra) >= 10:
                    break
        pairs += fail(i, 'the cells of the MOC file do not cover exactly the valid pixels',
                      impl=dict(extra=extra, missing=[p for p in vp if covered[p] == 0][:10]))
    if any(o < mn for o, _, _ in cells):
        pairs += fail(i, 'a MOC cell is coarser than the coverage resolution')
    # read back
    res, err = run_api(i, 'read(moc)', lambda: HealSparseMap.read(fname, nside_coverage=m.nside_coverage))
    if err:
        pairs += fail(i, err)
    else:
        o2 = int(round(np.log2(res.nside_sparse)))
        back = np.zeros(meta.npix, dtype=bool)
        for p in res.valid_pixels:
            back[int(p) << (2 * (mx - o2)): (int(p) + 1) << (2 * (mx - o2))] = True
        if sorted(np.where(back)[0].tolist()) != vp:
            pairs += fail(i, 'the map read back from the MOC file covers a different part of the sky')
        if res.dtype != np.bool_:
            pairs += fail(i, 'the map read back from a MOC file is not boolean')
    # correspondence with the writer model (small sets only: the model is quadratic)
    if len(vp) <= 400:
        def cmp(r, uniq=uniq):
            if r[1] != uniq:
                return [dict(step=i, what='UNIQ cells written differ from the writer model', layer='L1', impl=uniq[:40], model=r[1][:40])]
            return []
        pairs.append(([[30], [mx, mn], vp], cmp))

        def cmp2(r, vp=vp, uniq=uniq):
            if r[1] != vp:
                return [dict(step=i, what='expansion (reader model) of the written cells is not the valid set', layer='L0',
                             impl=vp[:40], model=r[1][:40])]
            return []
        pairs.append(([[31], [mx], uniq], cmp2))
    return pairs


@step('mocbig')
def do_mocbig(env, st, i):
    """write_moc / read of a map whose order is 15 or more (nside_sparse >= 32768: UNIQ numbers beyond 32 bits):
    the map is built here directly from a short pixel list and everything is compared through pixel lists and
    cell ranges — no array of the size of the sphere"""
    import astropy.io.fits as afits
    nc, ns = st['nc'], st['ns']
    mx = int(round(np.log2(ns)))
    mn = int(round(np.log2(nc)))
    vp = sorted(set(int(p) for p in st['pixels']))
    dt = DT[st.get('dtype', 'b')]

    def build():
        m = HealSparseMap.make_empty(nc, ns, dt)
        m.update_values_pix(np.array(vp, dtype=np.int64), (True if np.dtype(dt).kind == 'b' else np.dtype(dt).type(1)))
        return m
    m, err = run_api(i, 'make_empty+update (order >= 15)', build)
    if err:
        return fail(i, err)
    pairs = []
    if sorted(int(p) for p in m.valid_pixels) != vp:
        return fail(i, 'valid_pixels of a map at order >= 15 differ from the pixels written')
    fname = os.path.join(tmpdir(), 'mocbig_%d_%d.fits' % (i, os.getpid()))
    _, err = run_api(i, 'write_moc', lambda: m.write_moc(fname, clobber=True))
    if err:
        return fail(i, err)
    with afits.open(fname) as hl:
        uniq = sorted(int(u) for u in hl[1].data['UNIQ'])
    cells = sorted(_expand_uniq(uniq, mx), key=lambda c: c[1])
    for a, b in zip(cells, cells[1:]):
        if b[1] < a[2]:
            pairs += fail(i, 'MOC cells overlap')
            break
    ncov = sum(hi - lo for _, lo, hi in cells)
    inside = all(any(lo <= p < hi for _, lo, hi in cells) for p in vp)
    if ncov != len(vp) or not inside:
        pairs += fail(i, 'the cells of the MOC file do not cover exactly the valid pixels',
                      impl=dict(cells=[list(c) for c in cells[:10]], valid=vp[:10]))
    if any(o < mn for o, _, _ in cells):
        pairs += fail(i, 'a MOC cell is coarser than the coverage resolution')
    res, err = run_api(i, 'read(moc)', lambda: HealSparseMap.read(fname, nside_coverage=nc))
    if err:
        pairs += fail(i, err)
    else:
        o2 = int(round(np.log2(res.nside_sparse)))
        want = sorted(set(q for _, lo, hi in cells for q in range(lo >> (2 * (mx - o2)), ((hi - 1) >> (2 * (mx - o2))) + 1)))
        got = sorted(int(p) for p in res.valid_pixels)
        if got != want:
            pairs += fail(i, 'the map read back from the MOC file covers a different part of the sky',
                          impl=dict(got=got[:10], want=want[:10], order=o2))

    def cmp(r, uniq=uniq):
        if r[1] != uniq:
            return [dict(step=i, what='UNIQ cells written differ from the writer model', layer='L1', impl=uniq[:40], model=r[1][:40])]
        return []
    pairs.append(([[30], [mx, mn], vp], cmp))
    return pairs


# ---------------------------------------------------------------- concatenation (C18)
@step('cat')
def do_cat(env, st, i):
    from healsparse import cat_healsparse_files
    hs = st['hs']
    out = st['out']
    maps = [env.maps[h] for h in hs]
    files = []
    for k, m in enumerate(maps):
        fn = os.path.join(tmpdir(), 'cat_%d_%d_%d.hsp' % (i, k, os.getpid()))
        _, err = run_api(i, 'write', lambda: m.write(fn, clobber=True))
        if err:
            return fail(i, err)
        files.append(fn)
    outfile = os.path.join(tmpdir(), 'cat_%d_out_%d.hsp' % (i, os.getpid()))
    nco = st.get('nside_coverage_out')
    kw = dict(in_memory=True, clobber=True)
    if nco is not None:
        kw['nside_coverage_out'] = nco
    if st.get('check_overlap'):
        kw['check_overlap'] = True
    if st.get('or_overlap'):
        kw['check_overlap'] = True
        kw['or_overlap'] = True
    # overlap of the valid sets (ground truth from the inputs themselves)
    seen = set()
    overlap = False
    for m in maps:
        vp = set(int(p) for p in m.valid_pixels)
        if seen & vp:
            overlap = True
        seen |= vp
    _, err = run_api(i, 'cat_healsparse_files', lambda: cat_healsparse_files(files, outfile, **kw))
    checked = bool(st.get('check_overlap') or st.get('or_overlap'))
    # or-ing applies to integer maps only (wide masks included); any other kind raises on overlap
    ormode = bool(st.get('or_overlap')) and bool(maps[0].is_integer_map)
    must_raise = overlap and checked and not ormode
    if checked and not st.get('nomodel36'):
        # the routine with the check (model op 36: L1 = CatChk.cat_chk, L0 = per-pixel fold + raise condition)
        m0 = maps[0]
        ncov2 = 12 * (nco if nco is not None else m0.nside_coverage) ** 2
        nfine2 = (m0.nside_sparse // (nco if nco is not None else m0.nside_coverage)) ** 2
        meta0 = env.meta[hs[0]]
        if err:
            if not must_raise:
                return fail(i, err)

            def cmp_raise(res):
                out = []
                if res[0][0] != 2:
                    out.append(dict(step=i, what='cat: the implementation raised, the routine model (L1) did not', layer='L1',
                                    impl='raised', model=res[0]))
                if len(res) > 1 and res[1][0] != 1:
                    out.append(dict(step=i, what='cat: the implementation raised although no two inputs share a valid pixel',
                                    layer='L0', impl='raised', model=res[1]))
                return out
            return [([[36], [out], list(hs), ktoks(meta0), [ncov2, nfine2], [1, 1 if ormode else 0]], cmp_raise)]
        if must_raise:
            return fail(i, 'overlapping inputs were concatenated although check_overlap was requested')
        res, err = run_api(i, 'read(cat output)', lambda: HealSparseMap.read(outfile))
        if err:
            return fail(i, err)
        env.put(out, res)
        nm = env.meta[out]
        pairs = meta_check(i, 'concatenation', describe(res)[1:], describe(m0)[1:])
        if nco is not None and res.nside_coverage != nco:
            pairs += fail(i, 'concatenation output has nside_coverage %d, requested %d' % (res.nside_coverage, nco))

        def cmp_ok(r):
            o = []
            if r[0][0] != 1:
                o.append(dict(step=i, what='cat: the routine model (L1) raised, the implementation did not', layer='L1',
                              impl='ok', model=r[0]))
            if len(r) > 1 and r[1][0] != 0:
                o.append(dict(step=i, what='cat: two inputs share a valid pixel and check_overlap did not raise',
                              layer='L0', impl='ok', model=r[1]))
            return o
        pairs.append(([[36], [out], list(hs), ktoks(nm), [ncov2, nfine2], [1, 1 if ormode else 0]], cmp_ok))
        return pairs
    if err:
        if must_raise:
            return []          # an error is required
        return fail(i, err)
    if must_raise:
        return fail(i, 'overlapping inputs were concatenated although check_overlap was requested')
    if overlap:
        return []              # without overlap checking the result on shared pixels is unspecified
    res, err = run_api(i, 'read(cat output)', lambda: HealSparseMap.read(outfile))
    if err:
        return fail(i, err)
    env.put(out, res)
    nm = env.meta[out]
    m0 = maps[0]
    pairs = meta_check(i, 'concatenation', describe(res)[1:], describe(m0)[1:])
    if nco is not None and res.nside_coverage != nco:
        pairs += fail(i, 'concatenation output has nside_coverage %d, requested %d' % (res.nside_coverage, nco))
    ncov2 = 12 * res.nside_coverage ** 2
    nfine2 = (res.nside_sparse // res.nside_coverage) ** 2
    pairs.append(([[32], [out], list(hs), ktoks(nm), [ncov2, nfine2]], expect_ok(i, 'cat')))
    return pairs


# ---------------------------------------------------------------- degrade on read (C19)
@step('rdeg')
def do_rdeg(env, st, i):
    """read(file, degrade_nside, reduction, pixels, weightfile) [-> out] must equal
    read(file, pixels).degrade(...) [-> out2]"""
    h, out, out2 = st['h'], st['out'], st['out2']
    m = env.maps[h]
    meta = env.meta[h]
    fn = os.path.join(tmpdir(), 'rdeg_%d_%d.hsp' % (i, os.getpid()))
    _, err = run_api(i, 'write', lambda: m.write(fn, clobber=True, nocompress=not st.get('compress', True)))
    if err:
        return fail(i, err)
    hw = st.get('hw')
    wfn = None
    if hw is not None:
        wfn = os.path.join(tmpdir(), 'rdegw_%d_%d.hsp' % (i, os.getpid()))
        _, err = run_api(i, 'write weights', lambda: env.maps[hw].write(wfn, clobber=True))
        if err:
            return fail(i, err)
    pixels = st.get('pixels')
    red = st['reduction']
    n = st['nside_out']
    kw = dict(degrade_nside=n, reduction=red)
    if pixels is not None:
        kw['pixels'] = [int(c) for c in pixels]
    if wfn is not None:
        kw['weightfile'] = wfn
    any_cov = pixels is None or any(m.coverage_mask[int(c)] for c in pixels)
    r1, e1 = run_api(i, 'read(degrade_nside=)', lambda: HealSparseMap.read(fn, **kw))

    def ref():
        kw2 = {} if pixels is None else dict(pixels=[int(c) for c in pixels])
        a = HealSparseMap.read(fn, **kw2)
        w = None if wfn is None else HealSparseMap.read(wfn, **kw2)
        return a.degrade(n, reduction=red, weights=w)
    r2, e2 = run_api(i, 'read().degrade()', ref)
    if e1 or e2:
        if e1 and e2:
            return [] if (not any_cov or st.get('expect') == 'raise') else fail(i, 'both degrade-on-read and read-then-degrade raised: ' + e1)
        return fail(i, 'degrade-on-read and read-then-degrade disagree: %s / %s' % (e1 or 'ok', e2 or 'ok'))
    env.put(out, r1)
    env.put(out2, r2)
    nm = env.meta[out]
    pairs = same_kind(i, 'degrade-on-read vs read-then-degrade', r1, r2)
    set_tolerance(nm, m, red)
    set_tolerance(env.meta[out2], m, red)
    # model: partial read of the covered requested pixels in ascending order, then degrade
    req = [int(c) for c in (pixels if pixels is not None else np.where(m.coverage_mask)[0])]
    pairs.append(([[25], [h], [9200], req], expect_ok(i, 'rdeg-read')))
    use_w = -1
    if hw is not None and red == 'wmean':
        pairs.append(([[25], [hw], [9201], req], expect_ok(i, 'rdeg-read-w')))
        use_w = 9201
        # the weights are paired with the map block by block: when the weight file covers fewer of the
        # requested coverage pixels (the map has an allocated-but-empty one) they are laid out in the order
        # of the map's blocks first (what degrade's re-housing / the per-pixel lookup on read achieve)
        wm = env.maps[hw]
        lay_m = sorted(c for c in set(req) if m.coverage_mask[c])
        lay_w = sorted(c for c in set(req) if wm.coverage_mask[c])
        if lay_w != lay_m:
            pairs.append(([[22], [9201], [9202], [meta.ncov, meta.nfine], [1], lay_m], expect_ok(i, 'rdeg-rehouse-w')))
            use_w = 9202
    kind, dtn, sent = expected_degrade_meta(m, meta, n, red)
    if kind == 'rec':
        btoks = []
        for nme in m.dtype.names:
            ft = np.float64 if np.dtype(m.dtype[nme]).kind in 'iu' else np.dtype(m.dtype[nme]).type
            btoks += qtok(ft(UNSEEN))
    else:
        btoks = qtok(r1._sentinel)
    r = (m.nside_sparse // n) ** 2
    pairs.append(([[20], [9200], [out], [r, RED[red]], ktoks(nm), [use_w], btoks], expect_ok(i, 'rdeg-degrade')))
    return pairs


# ---------------------------------------------------------------- HEALPix-format inputs (C16, C19)
def _write_implicit(fn, dense_nest, nside, ring, rows2d):
    """a standard IMPLICIT HEALPix file (binary table, column T) written with astropy, independently of healsparse"""
    import astropy.io.fits as afits
    data = hpg.reorder(dense_nest, ring_to_nest=False) if ring else dense_nest
    fmt = {'float64': 'D', 'float32': 'E'}[np.dtype(data.dtype).name]
    if rows2d:
        col = afits.Column(name='T', format='4' + fmt, array=data.reshape((-1, 4)))
    else:
        col = afits.Column(name='T', format=fmt, array=data)
    hdu = afits.BinTableHDU.from_columns([col])
    hdu.header['PIXTYPE'] = 'HEALPIX'
    hdu.header['ORDERING'] = 'RING' if ring else 'NESTED'
    hdu.header['INDXSCHM'] = 'IMPLICIT'
    hdu.header['NSIDE'] = int(nside)
    hdu.header['FIRSTPIX'] = 0
    hdu.header['LASTPIX'] = int(12 * nside * nside - 1)
    hdu.writeto(fn, overwrite=True)


@step('rdeghp')
def do_rdeghp(env, st, i):
    """a HEALPix-format file of map h (explicit partial written by healsparse, or implicit written with astropy):
    read back [-> outp] it must equal h re-housed; read with degrade_nside/reduction [-> out] it must equal the
    plain read degraded in memory [-> out2]"""
    h = st['h']
    m = env.maps[h]
    meta = env.meta[h]
    fmt = st['fmt']
    fn = os.path.join(tmpdir(), 'hpin_%d_%d.fits' % (i, os.getpid()))
    if meta.kind != 'plain' or m.dtype == np.bool_:
        return []
    if fmt == 'explicit':
        _, err = run_api(i, "write(format='healpix')", lambda: m.write(fn, clobber=True, format='healpix'))
        if err:
            return fail(i, err)
    else:
        if np.dtype(m.dtype).kind != 'f' or m._sentinel != UNSEEN:
            return []
        dense = m.generate_healpix_map(nest=True)
        _write_implicit(fn, dense, m.nside_sparse, fmt == 'implicit_ring', bool(st.get('rows2d')))
    a, err = run_api(i, 'read(healpix file)', lambda: HealSparseMap.read(fn, nside_coverage=m.nside_coverage))
    if err:
        return fail(i, err)
    env.put(st['outp'], a)
    pairs = meta_check(i, 'healpix %s file' % fmt, describe(a), describe(m))
    pairs.append(([[22], [h], [st['outp']], [meta.ncov, meta.nfine], [0], []], expect_ok(i, 'rdeghp-read')))
    n = st.get('nside_out')
    if n is None:
        return pairs
    red = st['reduction']
    r1, e1 = run_api(i, 'read(healpix file, degrade_nside=)',
                     lambda: HealSparseMap.read(fn, nside_coverage=m.nside_coverage, degrade_nside=n, reduction=red))
    r2, e2 = run_api(i, 'read(healpix file).degrade()', lambda: a.degrade(n, reduction=red))
    if e1 or e2:
        if e1 and e2:
            return pairs
        return pairs + fail(i, 'HEALPix input: degrade-on-read and read-then-degrade disagree: %s / %s' % (e1 or 'ok', e2 or 'ok'))
    pairs += same_kind(i, 'HEALPix input: degrade-on-read vs read-then-degrade', r1, r2)
    v1, v2 = r1.valid_pixels, r2.valid_pixels
    if sorted(int(p) for p in v1) != sorted(int(p) for p in v2):
        pairs += fail(i, 'HEALPix input: degrade-on-read and read-then-degrade have different valid pixels')
    elif v1.size and not np.array_equal(r1.get_values_pix(np.sort(v1)), r2.get_values_pix(np.sort(v1)), equal_nan=True):
        pairs += fail(i, 'HEALPix input: degrade-on-read and read-then-degrade have different values')
    if not np.array_equal(r1.coverage_mask, r2.coverage_mask):
        pairs += fail(i, 'HEALPix input: degrade-on-read and read-then-degrade have different coverage masks')
    return pairs


# ---------------------------------------------------------------- HEALPix interchange (C16)
def _dense_expected(meta, vals_tokens, valid_set, dtype_out, fill):
    a = np.full(meta.npix, fill, dtype=dtype_out)
    for p in valid_set:
        a[p] = Fraction(vals_tokens[2 * p], vals_tokens[2 * p + 1])
    return a


@step('fromhp')
def do_fromhp(env, st, i):
    """HealSparseMap(healpix_map=A, nside_coverage=, nest=, sentinel=)"""
    out = st['out']
    dt = DT[st['dtype']]
    ns = st['ns']
    npix = 12 * ns * ns
    nest = bool(st.get('nest', True))
    sent = st.get('sentinel')
    A = np.full(npix, UNSEEN if sent is None else sent, dtype=dt)
    pix = [int(p) for p in st['pixels']]
    for p, v in zip(pix, st['values']):
        A[p] = v
    kw = dict(nest=nest)
    if sent is not None:
        kw['sentinel'] = int(sent) if np.dtype(dt).kind in 'iu' else float(sent)
    if np.dtype(dt).kind in 'iu' and sent is None:
        return []      # an integer array needs an integer sentinel (documented)
    Ain = A if nest else hpg.reorder(A, ring_to_nest=False)
    res, err = run_api(i, 'HealSparseMap(healpix_map=)', lambda: HealSparseMap(healpix_map=Ain.copy(), nside_coverage=st['nc'], **kw))
    if err:
        return fail(i, err)
    env.put(out, res)
    nm = env.meta[out]
    pairs = meta_check(i, 'from healpix', (res.nside_coverage, res.nside_sparse, np.dtype(res.dtype).name),
                       (st['nc'], ns, np.dtype(dt).name))
    # the model: pre-allocated coverage pixels in ascending order, values written (UNSEEN entries stay blank)
    validpix = [p for p in range(npix) if A[p] > UNSEEN]
    nfine = (ns // st['nc']) ** 2
    covs = sorted(set(p // nfine for p in validpix))
    mk = [[1], [out], [nm.ncov, nm.nfine], ktoks(nm), [nm.sent.numerator, nm.sent.denominator], [1], covs]
    pairs.append((mk, expect_ok(i, 'fromhp-mk')))
    toks = []
    for p in validpix:
        toks += qtok(A[p])
    if validpix:
        pairs.append(([[2], [out], [0, 0], validpix, toks], expect_ok(i, 'fromhp-fill')))
    env.dense = getattr(env, 'dense', {})
    env.dense[out] = A
    return pairs


@step('tohp')
def do_tohp(env, st, i):
    """generate_healpix_map (NEST and RING) against the values of the map"""
    h = st['h']
    m = env.maps[h]
    meta = env.meta[h]
    if meta.kind in ('wide',):
        return []
    allpix = np.arange(meta.npix, dtype=np.int64)
    kw = {}
    if meta.kind == 'rec':
        kw['key'] = st.get('key', meta.fields[0])
    pairs = []
    for nest in (True, False):
        got, err = run_api(i, 'generate_healpix_map', lambda: m.generate_healpix_map(nest=nest, **kw))
        if err:
            pairs += fail(i, err)
            continue
        src = m if meta.kind != 'rec' else m.get_single(kw['key'], copy=True)
        vals = src.get_values_pix(allpix)
        vm = src.get_values_pix(allpix, valid_mask=True)
        if np.dtype(src.dtype) == np.bool_:
            want = np.where(vm, vals, False)
            wdt = np.bool_
        else:
            wdt = np.float64 if np.dtype(src.dtype).kind in 'iu' else src.dtype
            want = np.where(vm, vals.astype(wdt), np.dtype(wdt).type(UNSEEN))
        if not nest:
            want = hpg.reorder(want, ring_to_nest=False)
        if got.dtype != np.dtype(wdt) or not np.array_equal(got, want):
            pairs += fail(i, 'generate_healpix_map(nest=%s) differs from the map (UNSEEN where invalid, integers as float64)' % nest)
    if st.get('nside') and meta.kind == 'rec':
        n2 = st['nside']
        key = kw['key']
        red = st.get('reduction', 'mean')
        got, err = run_api(i, 'generate_healpix_map(nside=, key=)', lambda: m.generate_healpix_map(nside=n2, reduction=red, key=key))
        ref, err2 = run_api(i, 'degrade+generate(key=)', lambda: m.degrade(n2, reduction=red).generate_healpix_map(key=key))
        same_valid = sorted(int(p) for p in m.get_single(key, copy=True).valid_pixels) == sorted(int(p) for p in m.valid_pixels)
        if not same_valid:
            # a valid record whose stored field value equals that field's own sentinel is invalid in the field map
            # (the exception clause of C14): the two routes legitimately differ there
            pass
        elif err or err2:
            pairs += fail(i, 'generate_healpix_map(nside=%d, key=%s): %s' % (n2, key, err or err2))
        elif not (np.array_equal(got, ref) or (red in ('mean', 'std', 'sum', 'wmean') and np.array_equal(got == hpg.UNSEEN, ref == hpg.UNSEEN)
                                               and np.allclose(got, ref, rtol=1e-5, atol=1e-6))):
            # mean/std/sum of a float32 field round differently in the two routes (the record route reduces in
            # float64 and stores float32): a tolerance there, exact equality for every other reduction
            pairs += fail(i, 'generate_healpix_map(nside=, key=) of a record map differs from degrade followed by export')
    # degraded export equals degrade then export
    if st.get('nside') and meta.kind == 'plain' and np.dtype(m.dtype) != np.bool_:
        n2 = st['nside']
        for nest in (True, False):
            got, err = run_api(i, 'generate_healpix_map(nside=)', lambda: m.generate_healpix_map(nside=n2, reduction=st.get('reduction', 'mean'), nest=nest))
            ref, err2 = run_api(i, 'degrade+generate', lambda: m.degrade(n2, reduction=st.get('reduction', 'mean')).generate_healpix_map(nest=nest))
            if err or err2:
                pairs += fail(i, 'generate_healpix_map(nside=%d, nest=%s): %s' % (n2, nest, err or err2))
            elif not np.array_equal(got, ref):
                pairs += fail(i, 'generate_healpix_map(nside=, nest=%s) differs from degrade followed by export' % nest)
    return pairs


@step('hpround')
def do_hpround(env, st, i):
    """to_dense(from_healpix(A)) == A for the array recorded by 'fromhp'"""
    h = st['h']
    m = env.maps[h]
    A = getattr(env, 'dense', {}).get(h)
    if A is None:
        return []
    got, err = run_api(i, 'generate_healpix_map', lambda: m.generate_healpix_map(nest=True))
    if err:
        return fail(i, err)
    wdt = np.float64 if np.dtype(A.dtype).kind in 'iu' else A.dtype
    # the property: every entry that is not UNSEEN (not the sentinel, for integers) is reproduced
    valid = A != np.dtype(A.dtype).type(UNSEEN) if np.dtype(A.dtype).kind == 'f' else (A != m._sentinel)
    want = np.where(valid, A.astype(wdt), np.dtype(wdt).type(UNSEEN))
    if not np.array_equal(got, want):
        return fail(i, 'dense -> sparse -> dense does not reproduce the HEALPix array')
    return []


@step('hpfile')
def do_hpfile(env, st, i):
    """write(format='healpix') and read back with nside_coverage"""
    h, out = st['h'], st['out']
    m = env.maps[h]
    fn = os.path.join(tmpdir(), 'hp_%d_%d.fits' % (i, os.getpid()))
    _, err = run_api(i, "write(format='healpix')", lambda: m.write(fn, clobber=True, format='healpix'))
    if err:
        return fail(i, err)
    res, err = run_api(i, 'read(healpix file)', lambda: HealSparseMap.read(fn, nside_coverage=m.nside_coverage))
    if err:
        return fail(i, err)
    env.put(out, res)
    pairs = meta_check(i, 'healpix explicit file', describe(res), describe(m))
    # model: same content, coverage rebuilt from the valid pixels (ascending update into an empty map)
    meta = env.meta[h]
    pairs.append(([[22], [h], [out], [meta.ncov, meta.nfine], [0], []], expect_ok(i, 'hpfile')))
    return pairs


@step('interp')
def do_interp(env, st, i):
    h = st['h']
    m = env.maps[h]
    meta = env.meta[h]
    lon = np.array(st['lon'], dtype=np.float64)
    lat = np.array(st['lat'], dtype=np.float64)
    pairs = []
    ipix, iw = hpg.get_interpolation_weights(meta.ns, lon, lat, lonlat=True)
    wt = []
    for row in iw:
        for w in row:
            wt += qtok(float(w))
    for ap in (False, True):
        got, err = run_api(i, 'interpolate_pos', lambda: m.interpolate_pos(lon, lat, lonlat=True, allow_partial=ap))
        if err:
            pairs += fail(i, err)
            continue

        def cmp(res, got=got, ap=ap):
            mm = []
            for layer, grp in (('L1', res[1]), ('L0', res[2])):
                for k in range(len(got)):
                    flag, nu, de = grp[3 * k: 3 * k + 3]
                    g = float(got[k])
                    if flag == 0:
                        okk = (g == UNSEEN)
                    else:
                        x = Fraction(nu, de)
                        okk = g != UNSEEN and abs(Fraction(g) - x) <= Fraction(1, 10 ** 9) * max(1, abs(x))
                    if not okk:
                        mm.append(dict(step=i, what='interpolate_pos(allow_partial=%s) differs from the weighted mean of the neighbours' % ap,
                                       layer=layer, impl=g, model=[flag, nu, de]))
                        break
            return mm
        pairs.append(([[33], [h], [1 if ap else 0], [int(p) for p in ipix.ravel()], wt], cmp))
    return pairs


# ---------------------------------------------------------------- random points (C20)
@step('rand')
def do_rand(env, st, i):
    import signal
    h = st['h']
    m = env.maps[h]
    meta = env.meta[h]
    n = st['n']
    seed = st['seed']
    kind = st['kind']
    pairs = []
    vp = np.array(sorted(int(p) for p in m.valid_pixels), dtype=np.int64)
    if vp.size == 0:
        return []

    class TO(Exception):
        pass

    def handler(sig, frm):
        raise TO()

    def call(rs):
        if kind == 'fast':
            return healsparse.make_uniform_randoms_fast(m, n, nside_randoms=st['nside_randoms'], rng=rs)
        return healsparse.make_uniform_randoms(m, n, rng=rs)
    old = signal.signal(signal.SIGALRM, handler)
    signal.alarm(st.get('timeout', 20))
    try:
        ra, dec = call(np.random.RandomState(seed))
        ra2, dec2 = call(np.random.RandomState(seed))
    except TO:
        signal.alarm(0)
        signal.signal(signal.SIGALRM, old)
        return fail(i, 'random point generation did not terminate (footprint starved of candidates)')
    except Exception as e:  # noqa
        signal.alarm(0)
        signal.signal(signal.SIGALRM, old)
        return fail(i, 'random point generation raised %s: %s' % (type(e).__name__, e))
    signal.alarm(0)
    signal.signal(signal.SIGALRM, old)
    if len(ra) != n or len(dec) != n:
        pairs += fail(i, 'random generator returned %d points, %d requested' % (len(ra), n))
    if not (np.array_equal(ra, ra2) and np.array_equal(dec, dec2)):
        pairs += fail(i, 'the same seeded generator state gave different points')
    if n > 0 and not np.all(m.get_values_pos(ra, dec, lonlat=True, valid_mask=True)):
        pairs += fail(i, 'a random point lies outside the valid footprint')
    if kind == 'fast' and n > 0:
        # replay the generator's draws and let the model compute the fine pixels
        rs = np.random.RandomState(seed)
        coarse = rs.choice(vp_storage_order(m), size=n, replace=True)
        shift = 2 * int(round(np.log2(st['nside_randoms'] / meta.ns)))
        sub = rs.randint(0, high=2 ** shift, size=n)
        fine = hpg.angle_to_pixel(st['nside_randoms'], ra, dec, lonlat=True)

        def cmp(res, fine=[int(x) for x in fine], coarse=[int(c) for c in coarse]):
            mm = []
            if res[1] != fine:
                mm.append(dict(step=i, what='fast random points differ from (coarse << shift) + sub of the replayed draws', layer='L1',
                               impl=fine[:10], model=res[1][:10]))
            if res[2] != coarse:
                mm.append(dict(step=i, what='a drawn fine pixel is not a child of the chosen valid pixel', layer='L0', impl=None, model=None))
            return mm
        pairs.append(([[34], [shift], [int(c) for c in coarse], [int(s) for s in sub]], cmp))
    # no valid part of a small footprint is starved (fixed tolerance: expected >= 40 points per cell)
    if st.get('occupancy'):
        if kind == 'fast':
            fine = hpg.angle_to_pixel(st['nside_randoms'], ra, dec, lonlat=True)
            nsub = (st['nside_randoms'] // meta.ns) ** 2
            cells = len(vp) * nsub
            if n >= 40 * cells:
                hit = np.unique(fine)
                if len(hit) < cells:
                    pairs += fail(i, 'fast random points never fall in %d of the %d sub-pixels of the footprint' % (cells - len(hit), cells))
        else:
            pix = hpg.angle_to_pixel(meta.ns, ra, dec, lonlat=True)
            if n >= 40 * len(vp):
                hit = np.unique(pix)
                if len(hit) < len(vp):
                    pairs += fail(i, 'random points never fall in %d of the %d valid pixels' % (len(vp) - len(hit), len(vp)))
    return pairs


def vp_storage_order(m):
    return m.valid_pixels


# ---------------------------------------------------------------- canonical rebuild (C10)
@step('canon')
def do_canon(env, st, i):
    """a freshly built map with the same content: make_empty with the same parameters and the covered
    coverage pixels pre-allocated in ascending order, valid pixels written in ascending order"""
    h, out = st['h'], st['out']
    m = env.maps[h]
    meta = env.meta[h]
    cov = np.where(m.coverage_mask)[0]
    kw = {}
    if cov.size:
        kw['cov_pixels'] = cov
    if meta.kind == 'wide':
        m2 = HealSparseMap.make_empty(m.nside_coverage, m.nside_sparse, healsparse.WIDE_MASK,
                                      wide_mask_maxbits=m.wide_mask_maxbits, **kw)
    elif meta.kind == 'rec':
        m2 = HealSparseMap.make_empty(m.nside_coverage, m.nside_sparse, m.dtype, primary=m.primary, sentinel=m._sentinel, **kw)
    elif meta.kind == 'packed':
        m2 = HealSparseMap.make_empty(m.nside_coverage, m.nside_sparse, np.bool_, bit_packed=True, **kw)
    else:
        m2 = HealSparseMap.make_empty(m.nside_coverage, m.nside_sparse, np.dtype(m.dtype).type, sentinel=m._sentinel, **kw)
    vp = np.sort(m.valid_pixels)
    if vp.size:
        vals = m.get_values_pix(vp)
        if not vals.flags.owndata or not vals.dtype.isnative:
            vals = np.array(vals, dtype=vals.dtype.newbyteorder('='))
        m2.update_values_pix(vp, vals)
    env.put(out, m2)
    env.meta[out].tol = meta.tol
    env.meta[out].transform = meta.transform
    covs = [int(c) for c in cov]
    return [([[22], [h], [out], [meta.ncov, meta.nfine], [1 if covs else 0], covs], expect_ok(i, 'canon'))]


@step('covsame')
def do_covsame(env, st, i):
    a, b = env.maps[st['h']], env.maps[st['ref']]
    if not np.array_equal(a.coverage_mask, b.coverage_mask):
        return fail(i, 'coverage masks of two maps that must be equal differ')
    return []


@step('queries')
def do_queries(env, st, i):
    """every query gives equal answers on two content-equal maps (listing order aside)"""
    a, b = env.maps[st['h']], env.maps[st['ref']]
    bad = []
    try:
        if int(a.n_valid) != int(b.n_valid):
            bad.append('n_valid')
        if sorted(a.valid_pixels.tolist()) != sorted(b.valid_pixels.tolist()):
            bad.append('valid_pixels')
        if not np.array_equal(a.coverage_map, b.coverage_map):
            bad.append('coverage_map')
        if a.get_valid_area() != b.get_valid_area():
            bad.append('get_valid_area')
        fa = a.fracdet_map(a.nside_coverage)
        fb = b.fracdet_map(b.nside_coverage)
        if sorted(fa.valid_pixels.tolist()) != sorted(fb.valid_pixels.tolist()):
            bad.append('fracdet_map')
        if str(a) != str(b):
            bad.append('__str__')
    except Exception as e:  # noqa
        bad.append('query raised %s: %s' % (type(e).__name__, e))
    if bad:
        return fail(i, 'queries on content-equal maps differ: ' + ', '.join(bad))
    return []


# ---------------------------------------------------------------- geometry (C08, C13)
def make_shape(spec, value):
    from healsparse import geom as G
    kw = {}
    if spec.get('nside_render'):
        kw['nside_render'] = spec['nside_render']
    t = spec['type']
    if t == 'circle':
        return G.Circle(ra=spec['ra'], dec=spec['dec'], radius=spec['radius'], value=value, **kw)
    if t == 'ellipse':
        return G.Ellipse(ra=spec['ra'], dec=spec['dec'], semi_major=spec['a'], semi_minor=spec['b'], alpha=spec['alpha'],
                         value=value, **kw)
    if t == 'polygon':
        return G.Polygon(ra=spec['ras'], dec=spec['decs'], value=value, **kw)
    if t == 'box':
        return G.Box(ra1=spec['ra1'], ra2=spec['ra2'], dec1=spec['dec1'], dec2=spec['dec2'], value=value, **kw)
    raise RuntimeError(t)


def _geom_value(meta, m, value):
    """(python value for the shape, model tokens of one cell, update operation value)"""
    if meta.kind == 'wide':
        bits = [int(b) for b in value]
        v = 0
        for b in bits:
            v |= 1 << b
        return bits, [v, 1]
    if meta.kind == 'packed' or m.dtype == np.bool_:
        return bool(value), [int(bool(value)), 1]
    return int(value), [int(value), 1]


@step('geom')
def do_geom(env, st, i):
    """st['thr'] (optional): PIXEL_RANGE_THRESHOLD during the call, so that operators and realize_geom go through
    the pixel-range slice path also on small maps"""
    old_thr = hsm_mod.PIXEL_RANGE_THRESHOLD
    if st.get('thr') is not None:
        hsm_mod.PIXEL_RANGE_THRESHOLD = st['thr']
    try:
        return _do_geom(env, st, i)
    finally:
        hsm_mod.PIXEL_RANGE_THRESHOLD = old_thr


def _do_geom(env, st, i):
    from healsparse import geom as G
    mode = st['mode']
    pairs = []
    # shapes that render no pixel at all are skipped (hpgeom's helpers reject empty pixel arrays)
    for s in (st['shapes'] if mode == 'realize' else [st['shape']]):
        nsr = s.get('nside_render') or (st.get('ns') or env.maps[st.get('h', st.get('like'))].nside_sparse)
        probe = make_shape(dict(s, nside_render=None), 1)
        try:
            ppix = probe.get_pixels(nside=nsr)
            if len(ppix) == 0:
                return []
            if s.get('nside_render') and int(np.max(ppix)) == 12 * nsr * nsr - 1:
                # hpgeom.upgrade_pixel_ranges rejects a range that ends at the last pixel of the sphere
                # (it tests the exclusive end against npix with >=): a shape with nside_render that renders
                # pixel 12*nside^2 - 1 raises in hpgeom whatever healsparse does (third-party; skipped)
                return []
        except Exception:  # noqa
            return []
    if mode in ('get_map', 'get_map_like'):
        out = st['out']
        value = st['value']
        wide = isinstance(value, list)
        g = make_shape(st['shape'], value)
        if mode == 'get_map':
            kw = dict(nside_coverage=st['nc'], nside_sparse=st['ns'], dtype=(healsparse.WIDE_MASK if wide else DT[st['dtype']]))
            if wide and st.get('maxbits') is not None:
                kw['wide_mask_maxbits'] = st['maxbits']
            res, err = run_api(i, 'get_map', lambda: g.get_map(**kw))
        else:
            res, err = run_api(i, 'get_map_like', lambda: g.get_map_like(env.maps[st['like']]))
        if err:
            return fail(i, err)
        env.put(out, res)
        nm = env.meta[out]
        pix = sorted(set(int(p) for p in g.get_pixels(nside=res.nside_sparse)))
        if wide:
            need = max(value) + 1
            if res.wide_mask_maxbits < need:
                pairs += fail(i, 'the map of a shape is %d bits wide but its value has bit %d' % (res.wide_mask_maxbits, max(value)))
        pyv, toks = _geom_value(nm, res, value)
        mk = [[1], [out], [nm.ncov, nm.nfine], ktoks(nm), [nm.sent.numerator, nm.sent.denominator], [0], []]
        pairs.append((mk, expect_ok(i, 'geom-mk')))
        if pix:
            pairs.append(([[2], [out], [hsops.OPCODE['or'] if wide else 0, 0], pix, toks * len(pix)], expect_ok(i, 'geom-fill')))
        return pairs
    h = st['h']
    m = env.maps[h]
    meta = env.meta[h]
    pyv, toks = _geom_value(meta, m, st['value'])
    shapes = st['shapes'] if mode == 'realize' else [st['shape']]
    gs = [make_shape(s, pyv) for s in shapes]
    ns = m.nside_sparse
    # oracle contract: the ranges a shape renders contain exactly the pixels it renders
    allpix = []
    allrng = []
    for g, s in zip(gs, shapes):
        px = sorted(set(int(p) for p in g.get_pixels(nside=ns)))
        rr = g.get_pixel_ranges(nside=ns)
        ex = sorted(set(int(p) for p in hpg.pixel_ranges_to_pixels(rr))) if len(rr) else []
        if px != ex:
            pairs += fail(i, 'a shape renders different pixels through get_pixels and get_pixel_ranges')
        if s.get('nside_render'):
            base = sorted(set(int(p) for p in make_shape(dict(s, nside_render=None), pyv).get_pixels(nside=s['nside_render'])))
            r = (ns // s['nside_render']) ** 2
            kids = sorted(c for b in base for c in range(b * r, (b + 1) * r))
            if kids != px:
                pairs += fail(i, 'a shape with a render resolution does not cover exactly the children of its rendered pixels')
        allpix.append([int(p) for p in hpg.pixel_ranges_to_pixels(rr)] if len(rr) else [])
        allrng.append([(int(a), int(b)) for a, b in np.asarray(rr).reshape((-1, 2))])
    opn = {'or': 'or', 'ior': 'or', 'and': 'and', 'iand': 'and', 'add': 'add', 'iadd': 'add', 'realize': 'or'}[mode]
    inplace = mode in ('ior', 'iand', 'iadd', 'realize')
    if mode == 'realize':
        res, err = run_api(i, 'realize_geom', lambda: G.realize_geom(gs, m))
        res = m
    else:
        fn = {'or': operator.or_, 'ior': operator.ior, 'and': operator.and_, 'iand': operator.iand,
              'add': operator.add, 'iadd': operator.iadd}[mode]
        res, err = run_api(i, 'map %s shape' % mode, lambda: fn(m, gs[0]))
    if err:
        return pairs + fail(i, err)
    tgt = h
    if not inplace:
        tgt = st['out']
        env.put(tgt, res)
        pairs.append(([[24], [h], [tgt]], expect_ok(i, 'geom-copy')))
    use_thr = hsm_mod.PIXEL_RANGE_THRESHOLD
    for k, (px, rows) in enumerate(zip(allpix, allrng)):
        if not px:
            continue
        if len(px) > use_thr:
            # the slice path of update_values_pix: the model's range update (op 23); the coverage the code
            # reserves may be a superset of what the model needs, exactly as for explicit ranges (step 'rng')
            flat = []
            for a, b in rows:
                flat += [a, b]
            last = (k == len(allpix) - 1)
            cm = [int(b) for b in res.coverage_mask] if last else None

            def cmp(r, cm=cm):
                if r[0][0] != 1:
                    return [dict(step=i, what='geom: model rejected the range update', layer='L1', impl='ok', model=r[0])]
                if cm is not None and any(n and not c for n, c in zip(r[1], cm)):
                    return [dict(step=i, what='coverage mask after a shape update does not contain the needed coverage',
                                 layer='L0', impl=cm, model=r[1])]
                return []
            pairs.append(([[23], [tgt], [tgt], [hsops.OPCODE[opn], 0], flat, toks], cmp))
        else:
            pairs.append(([[2], [tgt], [hsops.OPCODE[opn], 0], px, toks * len(px)], expect_ok(i, 'geom-upd')))
    return pairs
