"""Signatures of the known findings.  known_findings.json decides WHICH findings are listed
(status known / fixed); this module only says how a (shrunk) failing case is recognised as one of
them.  A failure that matches no listed signature is reported as a VIOLATION."""
from harness import core

SIGNATURES = {}


def signature(fid):
    def deco(fn):
        SIGNATURES[fid] = fn
        return fn
    return deco


def match(pid, hist, mismatches):
    for kf in core.load_known_findings():
        if kf.get('status') != 'known' or pid not in kf.get('properties', []):
            continue
        fn = SIGNATURES.get(kf['id'])
        if fn is None:
            continue
        try:
            if fn(hist, mismatches):
                return kf['id']
        except Exception:
            pass
    return None


def describe(fid):
    for kf in core.load_known_findings():
        if kf['id'] == fid:
            return kf.get('title', '')
    return ''


def _steps(hist, op):
    return [st for st in hist if st.get('op') == op]


@signature('F20')
def _f20(hist, mm):
    """apply_mask without mask_bits on a signed integer mask holding a negative value"""
    ams = [st for st in _steps(hist, 'amask') if st.get('mode', 'none') == 'none']
    if not ams:
        return False
    if not all(m['layer'] == 'L0' for m in mm):
        return False
    for st in ams:
        hm = st['hm']
        for u in hist:
            if u.get('op') == 'upd' and u.get('h') == hm and u.get('values') is not None:
                vals = u['values'] if isinstance(u['values'], list) else [u['values']]
                if any(isinstance(v, (int, float)) and v < 0 for v in vals):
                    return True
    return False


def _rec_mk(hist):
    for st in hist:
        if st.get('op') == 'mk' and st.get('kind') == 'rec':
            return st
    return None


def _primary_sentinel_value(mk):
    """the sentinel of the primary field as a Python number (None = default of the type)"""
    return mk.get('sentinel')


def _is_sent(mk, v):
    import numpy as np
    from harness.hsops import DT
    import healsparse
    pt = dict(mk['fields'])[mk['primary']]
    s = healsparse.utils.check_sentinel(DT[pt], mk.get('sentinel') if mk.get('sentinel') is None or pt[0] != 'f'
                                        else float(mk['sentinel']))
    return DT[pt](v) == s


@signature('F32')
def _f32(hist, mm):
    """a whole-record write whose primary is the sentinel while other fields carry data: the pixel is
    invalid in the parent but field views show (and accept writes to) its other fields"""
    mk = _rec_mk(hist)
    if mk is None or not all(m['layer'] == 'L0' for m in mm):
        return False
    names = [n for n, _ in mk['fields']]
    pi = names.index(mk['primary'])
    hit = False
    for st in hist:
        if st.get('op') == 'upd' and st.get('values') is not None:
            vals = st['values'] if isinstance(st['values'][0], list) else [st['values']]
            for v in vals:
                if _is_sent(mk, v[pi]):
                    hit = True
    views = [st for st in hist if (st.get('op') == 'single' and not st.get('copy', True)) or st.get('op') in ('vwrite', 'vwrite_valid')]
    return hit and bool(views)


@signature('F22')
def _f22(hist, mm):
    """the sentinel written through a view of the primary field: the parent's cached count goes stale"""
    mk = _rec_mk(hist)
    if mk is None or not all(m['layer'] == 'L0' for m in mm):
        return False
    if not any('n_valid' in m['what'] or 'stale' in m['what'] or 'get_valid_area' in m['what'] for m in mm):
        return False
    for st in hist:
        if st.get('op') == 'vwrite' and st.get('field') == mk['primary']:
            if any(_is_sent(mk, v) for v in st['values']):
                return True
        if st.get('op') == 'vwrite_valid' and st.get('field') == mk['primary']:
            return True      # values are drawn at run time; the stale-count symptom above identifies the case
    return False


@signature('F36')
def _f36(hist, mm):
    """'add' over overlapping pixel ranges on a map with a non-zero sentinel (slice path)"""
    if not all(m['layer'] == 'L0' for m in mm):
        return False
    mk = None
    for st in hist:
        if st.get('op') == 'mk':
            mk = st
    for st in hist:
        if st.get('op') == 'rng' and st.get('operation') == 'add':
            rows = [r for r in st['ranges'] if r[0] < r[1]]
            overlap = any(not (a[1] <= b[0] or b[1] <= a[0]) for i, a in enumerate(rows) for b in rows[i + 1:])
            if overlap and mk is not None and mk.get('sentinel') not in (0, 0.0):
                return True
    return False


@signature('F21')
def _f21(hist, mm):
    """degrade with the bitwise 'and' reduction over a coarse pixel with valid and invalid children"""
    if not all(m['layer'] == 'L0' for m in mm):
        return False
    return any(st.get('op') == 'degrade' and st.get('reduction') == 'and' for st in hist)


@signature('F25')
def _f25(hist, mm):
    """make_uniform_randoms on a footprint touching lon 0 whose UNROTATED longitude range is the one used
    and is clipped at 0 or 2*pi: starvation beyond the clip, or non-termination.  (A footprint for which
    the routine switches to the rotated frame is not this finding.)"""
    if not any(('did not terminate' in m['what']) or ('never fall' in m['what']) for m in mm):
        return False
    if not any(st.get('op') == 'rand' and st.get('kind') == 'slow' for st in hist):
        return False
    try:
        import numpy as np
        import hpgeom as hpg
        mk = [st for st in hist if st.get('op') == 'mk'][0]
        pix = []
        for st in hist:
            if st.get('op') == 'upd' and st.get('h') == mk['h']:
                pix += list(st.get('pixels') or [])
        if not pix:
            return False
        nc, ns = mk['nc'], mk['ns']
        cov = np.unique(np.array(pix, dtype=np.int64) // ((ns // nc) ** 2))
        th, ph = hpg.pixel_to_angle(nc, cov, nest=True, lonlat=False)
        eb = 2.0 * hpg.nside_to_resolution(nc, units='radians')
        st_ = np.sin(th)
        lo, hi = np.min(ph - eb / st_), np.max(ph + eb / st_)
        r0 = np.clip([lo, hi], 0.0, 2.0 * np.pi)
        pr = ph + np.pi
        pr[pr > 2.0 * np.pi] -= 2.0 * np.pi
        r1 = np.clip([np.min(pr - eb / st_), np.max(pr + eb / st_)], 0.0, 2.0 * np.pi)
        rotated = (r1[1] - r1[0]) < ((r0[1] - r0[0]) - 0.1)
        return (not rotated) and (lo < 0.0 or hi > 2.0 * np.pi)
    except Exception:  # noqa
        return False


def _cat_inputs(hist):
    cat = [st for st in hist if st.get('op') == 'cat']
    if not cat:
        return []
    hs = set(cat[0]['hs'])
    return [st for st in hist if st.get('op') == 'mk' and st.get('h') in hs]


@signature('F40')
def _f40(hist, mm):
    ins = _cat_inputs(hist)
    return bool(ins) and all(st.get('kind') == 'plain' and st.get('dtype') == 'b' for st in ins) and \
        any('result parameters' in m['what'] or 'values' in m['what'] for m in mm)


@signature('F41')
def _f41(hist, mm):
    ins = _cat_inputs(hist)
    return bool(ins) and all(st.get('kind') == 'wide' for st in ins) and any('cannot reshape' in m['what'] for m in mm)


@signature('F24')
def _f24(hist, mm):
    """a dense input array holding a value below UNSEEN (or NaN): outside the HEALPix convention"""
    if not any('does not reproduce' in m['what'] for m in mm):
        return False
    for st in hist:
        if st.get('op') == 'fromhp' and any(isinstance(v, float) and v < -1.6e30 for v in st['values']):
            return True
    return False


@signature('F53')
def _f53(hist, mm):
    """a record-array map with a signed 8-bit field written through astropy: the column is stored as a FITS
    logical and comes back boolean"""
    has_i1 = any(st.get('op') == 'mk' and st.get('kind') == 'rec' and any(t == 'i1' for _, t in st.get('fields', []))
                 for st in hist)
    wrote = any(st.get('op') in ('wr', 'rdeg', 'cat') for st in hist)
    return has_i1 and wrote and any(("dtype('bool')" in m['what'] and "dtype('int8')" in m['what']) or 'values' in m['what']
                                    for m in mm)
