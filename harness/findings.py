"""Signatures of the known findings.  known_findings.json decides WHICH findings are listed
(status known / fixed); this module only says how a (shrunk) failing case is recognised as one of
them.  A failure that matches no listed signature is reported as a VIOLATION."""
from harness import core

SIGNATURES = {}


def signature(fid):
    def deco(fn):
        SIGNATURES[fid] = fn
        return fn
    return deco


def match(pid, hist, mismatches):
    for kf in core.load_known_findings():
        if kf.get('status') != 'known' or pid not in kf.get('properties', []):
            continue
        fn = SIGNATURES.get(kf['id'])
        if fn is None:
            continue
        try:
            if fn(hist, mismatches):
                return kf['id']
        except Exception:
            pass
    return None


def describe(fid):
    for kf in core.load_known_findings():
        if kf['id'] == fid:
            return kf.get('title', '')
    return ''


def _steps(hist, op):
    return [st for st in hist if st.get('op') == op]


@signature('F20')
def _f20(hist, mm):
    """apply_mask without mask_bits on a signed integer mask holding a negative value"""
    ams = [st for st in _steps(hist, 'amask') if st.get('mode', 'none') == 'none']
    if not ams:
        return False
    if not all(m['layer'] == 'L0' for m in mm):
        return False
    for st in ams:
        hm = st['hm']
        for u in hist:
            if u.get('op') == 'upd' and u.get('h') == hm and u.get('values') is not None:
                vals = u['values'] if isinstance(u['values'], list) else [u['values']]
                if any(isinstance(v, (int, float)) and v < 0 for v in vals):
                    return True
    return False
