"""Signatures of the known findings.  known_findings.json decides WHICH findings are listed
(status known / fixed); this module only says how a (shrunk) failing case is recognised as one of
them.  A failure that matches no listed signature is reported as a VIOLATION."""
from harness import core

SIGNATURES = {}


def signature(fid):
    def deco(fn):
        SIGNATURES[fid] = fn
        return fn
    return deco


def match(pid, hist, mismatches):
    for kf in core.load_known_findings():
        if kf.get('status') != 'known' or pid not in kf.get('properties', []):
            continue
        fn = SIGNATURES.get(kf['id'])
        if fn is None:
            continue
        try:
            if fn(hist, mismatches):
                return kf['id']
        except Exception:
            pass
    return None


def describe(fid):
    for kf in core.load_known_findings():
        if kf['id'] == fid:
            return kf.get('title', '')
    return ''
