"""Apply a seeded defect to /repo, run the given checks, restore /repo.
   python -m harness.seedtest <patch.diff> C01 C04 ...      (prints one line per check)"""
import sys, subprocess, os, re

def main():
    patch = sys.argv[1]
    pids = sys.argv[2:]
    st = subprocess.run(['git', '-C', '/repo', 'status', '--porcelain', '--untracked-files=no'], capture_output=True, text=True).stdout.strip()
    if st:
        print('REPO NOT CLEAN, refusing:', st); sys.exit(2)
    r = subprocess.run(['git', '-C', '/repo', 'apply', patch], capture_output=True, text=True)
    if r.returncode != 0:
        print('APPLY-FAIL', r.stderr[:300]); sys.exit(3)
    try:
        for pid in pids:
            p = subprocess.run(['./check', pid, '--no-build'], cwd='/verif', capture_output=True, text=True, timeout=3600)
            viol = [l for l in p.stdout.splitlines() if l.startswith('VIOLATION')]
            last = [l for l in p.stderr.splitlines() if l.strip()][-1:] if p.stderr else []
            print('%s exit=%d %s | %s' % (pid, p.returncode, '; '.join(v[:160] for v in viol[:2]), last[0][:100] if last else ''))
            sys.stdout.flush()
    finally:
        subprocess.run(['git', '-C', '/repo', 'checkout', '--', '.'])

if __name__ == '__main__':
    main()
