#!/bin/bash
# run the thorough tier of all 20 checks, 4 at a time; one summary line per check
cd /verif
ls coq/theories/Properties/ | sed -n 's/^\(C[0-9][0-9]\)\.v$/\1/p' | xargs -P 4 -I{} sh -c "/usr/bin/time -f '{} wall=%es' ./check {} --no-build --tier thorough 2>&1 | grep -v 'WARNING conda' | grep -v '^KNOWN-FINDING' | tail -4 | sed 's/^/{}: /'"
echo THOROUGH-DONE
