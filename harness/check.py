"""Entry point:  ./check Cnn [--tier quick|thorough] [--replay file]

Decision procedure (DESIGN.md section 5):
  1. regenerate Src facts from /repo, build the Coq development and the extracted runner;
  2. compile Properties/Cnn.v, parse Print Assumptions (proof obligations);
  3. run the corpus, the known-finding witnesses and the generated cases on the implementation
     and on the model (L1 and L0), compare;
  4. classify: property-predicate failure (impl vs L0 / implementation-internal) -> shrink ->
     known finding or VIOLATION with replay; only-correspondence failure (impl vs L1) or broken
     proof with no failing input -> VIOLATION ... no-failing-input-found.
"""
import os
import sys
import json
import time
import argparse
import importlib
import traceback

from harness import core


def main():
    ap = argparse.ArgumentParser()
    ap.add_argument('pid')
    ap.add_argument('--tier', default=os.environ.get('VERIF_TIER', 'quick'))
    ap.add_argument('--replay', default=None)
    ap.add_argument('--seed', type=int, default=int(os.environ.get('VERIF_SEED', '20260926')))
    ap.add_argument('--no-build', action='store_true')
    a = ap.parse_args()
    pid = a.pid
    tier = a.tier if a.tier in ('quick', 'thorough') else 'quick'
    t0 = time.time()
    mod = importlib.import_module('harness.props.' + pid.lower())

    if a.replay:
        b = core.build() if not a.no_build else None
        payload = json.load(open(a.replay))
        res = mod.replay(payload)
        print(json.dumps(res, indent=1, default=str))
        sys.exit(1 if res.get('fails') else 0)

    violations = []      # (replay_path, text, no_input_found)
    known_lines = []
    notes = []
    try:
        b = core.build() if not a.no_build else dict(ok=True, failed_files=[], facts={}, log='')
    except core.BuildError as e:
        path = core.write_replay(pid, dict(property=pid, kind='build-failure', detail=str(e)[-4000:]))
        print('VIOLATION property=%s replay=%s no-failing-input-found' % (pid, path))
        core.write_evidence(pid, tier, a.seed, dict(obligations=1, discharged=0, checker_cmd='make (failed)',
                                                   trusted_base=core.TRUSTED_BASE, explanation='build failed'),
                            ['build failed'], time.time() - t0, 1)
        sys.exit(1)
    proof = core.check_property_file(pid)
    if not proof['ok']:
        notes.append('proof obligations not all discharged: ' + json.dumps(proof['theorems']))
    scan = core.scan_sources()
    if scan:
        proof['ok'] = False
        notes.append('forbidden declarations found in the development: ' + '; '.join(scan[:5]))
    chk = None
    if tier == 'thorough':
        chk = core.coqchk(pid)
        if not chk['ok']:
            proof['ok'] = False
            notes.append('coqchk did not confirm an axiom-free, fully checked development: ' + json.dumps(chk))

    boost = (not proof['ok']) or bool(b.get('failed_files')) or bool(b.get('facts', {}).get('changed'))
    try:
        res = mod.run(tier, a.seed, boost=boost, facts=b.get('facts', {}))
    except Exception:  # harness failure is reported, never swallowed
        tb = traceback.format_exc()
        path = core.write_replay(pid, dict(property=pid, kind='harness-crash', detail=tb[-4000:]))
        print(tb, file=sys.stderr)
        print('VIOLATION property=%s replay=%s no-failing-input-found' % (pid, path))
        sys.exit(1)

    # res: dict(coverage=..., failures=[dict(kind='property'|'correspondence', known=id|None, payload=...)],
    #           known_seen=[(id, text)], assumptions=[...])
    found_property_failure = False
    for f in res['failures']:
        if f.get('known'):
            continue
        if f['kind'] == 'property':
            found_property_failure = True
            path = core.write_replay(pid, f['payload'])
            violations.append((path, f.get('text', ''), False))
    corr = [f for f in res['failures'] if f['kind'] == 'correspondence' and not f.get('known')]
    if corr and not found_property_failure:
        payload = dict(property=pid, kind='correspondence-broken',
                       detail='implementation and L1 model disagree but no input violating the property '
                              'predicate (implementation vs L0 specification) was found',
                       correspondence=[f['payload'] for f in corr[:3]])
        path = core.write_replay(pid, payload)
        violations.append((path, 'correspondence impl/L1 broken', True))
    if not proof['ok'] and not found_property_failure:
        bad = [t['name'] for t in proof['theorems'] if not t['ok']]
        payload = dict(property=pid, kind='proof-obligation-broken', theorems=bad, log=proof['log'][-3000:],
                       build_failed_files=b.get('failed_files'), build_log=b.get('log', '')[-3000:],
                       facts=b.get('facts'))
        path = core.write_replay(pid, payload)
        violations.append((path, 'theorem(s) no longer check: ' + ','.join(bad), True))

    for kid, text in res.get('known_seen', []):
        print('KNOWN-FINDING: property=%s %s %s' % (pid, kid, text))
    for path, text, noinput in violations:
        print('VIOLATION property=%s replay=%s%s' % (pid, path, ' no-failing-input-found' if noinput else ''))
        if text:
            core.log('  ' + text)

    cov = dict(res['coverage'])
    cov.update(obligations=proof['obligations'], discharged=proof['discharged'],
               checker_cmd='coqc -Q theories HS theories/Properties/%s.v (after make -k in /verif/coq); '
                           'Print Assumptions parsed per theorem' % pid,
               trusted_base=core.TRUSTED_BASE,
               theorems=proof['theorems'], forbidden_declarations=scan, coqchk=chk,
               build_failed_files=b.get('failed_files'),
               facts=b.get('facts'), notes=notes)
    core.write_evidence(pid, tier, a.seed, cov, res.get('assumptions', []), time.time() - t0, len(violations))
    core.log('%s %s: %d evaluations, %d failures, proof %d/%d, %.1fs' % (
        pid, tier, cov.get('evaluations', 0), len(violations), proof['discharged'], proof['obligations'],
        time.time() - t0))
    sys.exit(1 if violations else 0)


if __name__ == '__main__':
    main()
