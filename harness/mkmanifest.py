"""Regenerates /verif/MANIFEST.json from the table below (run by hand when a check is added)."""
import json
import os

NOTE = ("Trusted: Coq 8.16.1 kernel (vm_compute used; native_compute not used); no axioms (Print Assumptions is parsed "
        "per theorem on every run and must say 'Closed under the global context'); extraction via ExtrOcamlBasic only + "
        "a 90-line OCaml driver; the Python correspondence harness (harness/*.py) and its generators; NumPy element "
        "arithmetic, hpgeom and astropy FITS are modelled / oracle, not verified. The theorems are about the hand-written "
        "model; the model is tied to /repo on every run by executing the extracted model (layout level L1 and dense "
        "specification L0) and the implementation on the same generated histories and comparing every observation.")
TECH = "Coq theorems over an executable model (L1 layout model, L0 dense specification) + per-run differential correspondence between the implementation and the extracted model"

CLAIMS = {
 'C01': "Proof (Coq, axiom-free): update_values_pix on any well-formed sparse layout refines the dense-array update for every operation, pixel list (duplicates, any growth order) and None-clear; lifted by induction to every history from make_empty (with or without pre-allocated coverage pixels); never-written pixels read blank. Correspondence: seeded random histories over all map kinds/dtypes/sentinels/call forms incl. malformed calls; all pixels read through every read path after every step and compared with L1 and L0.",
 'C02': "Proof (Coq, axiom-free): on every well-formed map valid_pixels (through the block table) lists without repetition exactly the pixels with a valid value, the memoised count equals the dense count, valid pixels lie in covered coverage pixels, and after ANY interleaving of updates and count queries the memo is sound (cache_history). Correspondence: every accounting interface (valid_pixels, n_valid, area, __str__, valid_mask, coverage_map, fracdet_map at every resolution, per-coverage-pixel listings and sub-maps) compared with L1 and L0 after every step of random histories.",
 'C04': "Proof (Coq, axiom-free): the layout invariant holds for make_empty, is preserved by growth, update_values_pix, scalar operators, astype, invert, apply_mask, degrade and upgrade, and implies the published layout predicate; distinct pixels never share a cell; the block table inverts the index. The same extracted boolean predicate is evaluated on the implementation's raw arrays after every API call (monitor) and raw arrays are compared with the L1 state.",
 'C05': "Proof (Coq, axiom-free): a slice [a,b) of a well-formed bit-packed view is a well-formed view of b-a bits whose bit 0 is the parent's bit a of the same buffer, for every alignment; legal slices never raise; slices of slices compose; the first/middle/last decomposition used by every bulk operation covers exactly the view's bits in three disjoint byte groups; the population-count table is right for all 256 bytes (complete computation). The map-level theorems (C01, C02, C04, C11) are generic in the cell type and hold at V = bool. Correspondence: (A) every slice and random nested slices of arrays of every length up to a bound: view descriptors and decompositions vs the extracted model, values and every operation vs NumPy boolean arrays; (B) packed/unpacked twin maps driven by the same histories compared with each other and with L1/L0.",
 'C06': "Proof (Coq, axiom-free) about the dense specification d_apply_operation: union/intersection validity rule, value = fold in list order over exactly the valid inputs (a left-identity seed drops out), identities of the seeds of every named operation on the executable element functions, refutation of the seed 0 for max. The layout-level model of operations._apply_operation is executable and compared, with the specification, against the implementation on every run (2-4 maps, every numeric dtype, differing sentinels, wide masks, all coverage geometries, all 18 public functions); its L1->L0 refinement proof is open (partial).",
 'C07': "Proof (Coq, axiom-free): for every well-formed source (any block order), every r dividing nfine and every reduction function, coarse pixel q of degrade holds the reduction of exactly the children [q*r,(q+1)*r) (values and aligned weights) when covered and the output sentinel otherwise; layout and coverage mask preserved; a group with no valid child reduces to the sentinel for the NaN-masked reductions. Correspondence: every kind x reduction x resolution on both sides of the coverage resolution, weights with other block orders, source and weights re-observed after the call.",
 'C08': "Proof (Coq, axiom-free): what a range array contains; the coverage pixels reserved by the slice path are a superset of the needed ones; one slice-wise operation changes exactly the cells of its slice; every alignment of a single range on a 48-pixel map for replace/add decided completely by computation. The full slice path (Ops.update_ranges) is executable and compared with the explicit-pixel dense update on every run for all kinds, operations, None, thresholds and edge alignments; the general composition proof is open (partial).",
 'C09': "Proof (Coq, axiom-free): in the model every operation is a function from the states of its arguments to the state of its result, and binding a result to a handle leaves the state of every other handle untouched (frame theorems for the interpreter's world and for the single-argument producers); non-interference of the IMPLEMENTATION is therefore exactly its agreement with that functional model along two-phase histories, which is checked on every run: for every producer (copy, scalar/boolean operators, astype, as_bit_packed_map, degrade incl. same-nside and weighted, upgrade, apply_mask copy, get_single copy, get_single_covpix_map, union/intersection operations, write+read) the arguments are re-observed after the call, after the result was modified and grown (incl. its metadata dict), and the result after the arguments were modified and grown. Partial: sharing is not modelled by a store-passing heap; aliasing defects are detected by the correspondence, not excluded by a theorem about the code.",
 'C11': "Proof (Coq, axiom-free): invert and the operators with a boolean constant refine the dense coverage-scoped map (L1->L0), keep the layout, double inversion is the identity; the dense specification of a op b has the documented outside/inside/coverage-union semantics, commutativity, De Morgan and absorption where both coverages apply; the executable cell functions satisfy the hypotheses. The block-copy model of the map-with-map operators (in place and copying) is compared with the specification on every run (packed/unpacked mixes, all coverage relations, chains); its refinement proof is open (partial).",
 'C12': "Proof (Coq, axiom-free): scalar operators change exactly the valid pixels (pointwise and as refinement of the dense map) and keep the layout; apply_mask never fails on a well-formed map and invalidates exactly the valid pixels the mask selects; astype / single-field copy / as_bit_packed_map refine the dense conversion and keep the layout. Correspondence: every numeric dtype/sentinel, operators in place and copying, masks (integer and wide) with bit selections, cached count queried around apply_mask.",
 'C13': "Proof (Coq, axiom-free): the packed value of a bit list has exactly the listed bits; set_bits is union, clear_bits is difference below the width, check_bits is the intersection test, valid iff non-empty; the reported width holds every requested bit and a geometry's width holds its largest bit. Lifted to maps by C01 (or/and updates are pointwise folds). Correspondence: widths 1..65 bits, bits around every byte boundary, oversize bits rejected with ValueError leaving the map unchanged, every interesting bit of every pixel checked after every step.",
 'C14': "Proof (Coq, axiom-free): validity is the primary field's; whole-record reads return the last written record (C01 at V=record); a single-field copy refines 'field at the parent's valid pixels, field sentinel elsewhere'; a view write changes one field of the addressed records; a rejected view write leaves the parent unchanged. Correspondence: 2-4 mixed fields, each as primary, whole-record updates, clears, growth, writes through fresh views; parent, copies and views observed after every step.",
 'C15': "Proof (Coq, axiom-free): upgrade replicates every pixel to its children and keeps the layout (any block order); degrade(upgrade(m)) with any reduction returning v on copies of v restores m pixel for pixel. Correspondence: upgrade, degrade back, get_values_pix(nside=finer), fracdet_map at every resolution and coverage_map compared with L1/L0.",
}

DESIGN_REF = {k: '7 (%s)' % k for k in CLAIMS}

ALL = ['C%02d' % i for i in range(1, 21)]


def main():
    checks = []
    for pid in sorted(CLAIMS):
        checks.append(dict(
            property_id=pid,
            quick_cmd='./check %s --tier quick' % pid,
            thorough_cmd='./check %s --tier thorough' % pid,
            evidence_file='/verif/evidence/%s.json' % pid,
            replay_cmd_template='./check %s --replay {path}' % pid,
            engine='coq+correspondence',
            level_claimed=dict(category='proof', text=CLAIMS[pid], design_ref=DESIGN_REF[pid]),
            level_note=NOTE,
            technique=TECH))
    na = [dict(property_id=p, reason='check not yet built (work in progress; see DESIGN.md section 9 build order)')
          for p in ALL if p not in CLAIMS]
    man = dict(
        version=1,
        setup_cmd='cd /verif && ./setup.sh',
        hooks=dict(guard='HEALSPARSE_VERIF', enable='no source hooks: all introspection is external',
                   baseline_off_cmd='cd /repo && /venv/bin/python -m pytest -q -p no:cacheprovider --timeout=900',
                   source_commits=[], add_only=True),
        checks=checks,
        not_applicable=na,
        engines=[dict(name='coq+correspondence', path='/verif/coq + /verif/harness', serves_properties=sorted(CLAIMS),
                      kind_free_text='Coq 8.16 development (model, theorems), extracted OCaml runner, Python differential harness')])
    json.dump(man, open(os.path.join(os.path.dirname(os.path.dirname(os.path.abspath(__file__))), 'MANIFEST.json'), 'w'), indent=1)
    print('checks', len(checks), 'not_applicable', len(na))


if __name__ == '__main__':
    main()
