"""Execution of DSL histories on the real healsparse implementation, encoding of the same
steps for the Coq model runner, and comparison of the observations.

A history is a list of JSON-able step dicts.  For every step `exec_step` runs the real API and
returns a list of (model_op, comparator) pairs; after the model has been run in batch each
comparator receives the model's result and returns a list of mismatch dicts
  {step, what, layer: 'L1'|'L0'|'impl', impl, model}
layer says which comparison failed: impl vs L1 (correspondence) or impl vs L0 (property
predicate), 'impl' = implementation-internal inconsistency or unexpected exception."""
import warnings
import traceback
from fractions import Fraction

import numpy as np
import hpgeom as hpg
import healsparse
from healsparse import HealSparseMap
import healsparse.healSparseMap as hsm_mod

from harness.core import frac

warnings.simplefilter('ignore')

DT = {
    'f4': np.float32, 'f8': np.float64,
    'i1': np.int8, 'i2': np.int16, 'i4': np.int32, 'i8': np.int64,
    'u1': np.uint8, 'u2': np.uint16, 'u4': np.uint32, 'u8': np.uint64,
    'b': np.bool_,
}
OPCODE = {'replace': 0, 'add': 1, 'or': 2, 'and': 3}


class Meta:
    """constants of one map, derived from the real object"""

    def __init__(self, m):
        self.nc = m.nside_coverage
        self.ns = m.nside_sparse
        self.ncov = 12 * self.nc * self.nc
        self.nfine = (self.ns // self.nc) ** 2
        self.npix = 12 * self.ns * self.ns
        if m.is_rec_array:
            self.kind = 'rec'
            self.fields = list(m.dtype.names)
            self.prim = self.fields.index(m.primary)
        elif m.is_wide_mask_map:
            self.kind = 'wide'
            self.fields = None
            self.prim = 0
            self.width = m.wide_mask_width
        elif m.is_bit_packed_map:
            self.kind = 'packed'
            self.fields = None
            self.prim = 0
        else:
            self.kind = 'plain'
            self.fields = None
            self.prim = 0
        self.nfields = len(self.fields) if self.fields else 1
        self.sent = frac(m._sentinel)
        self.dtype = m.dtype
        self.tol = None
        self.transform = None

    def cell(self, v):
        """exact token list of one cell value as read from the implementation"""
        if self.kind == 'rec':
            out = []
            for f in self.fields:
                fr = frac(v[f])
                out += [fr.numerator, fr.denominator]
            return out
        if self.kind == 'wide':
            return [int.from_bytes(bytes(np.asarray(v, dtype=np.uint8)), 'little'), 1]
        fr = frac(v)
        return [fr.numerator, fr.denominator]

    @staticmethod
    def _col_tokens(a):
        """list of (num, den) for a 1-d numeric array"""
        a = np.asarray(a)
        if a.dtype.kind in 'iub':
            return [(int(x), 1) for x in a.tolist()]
        return [float(x).as_integer_ratio() for x in a.astype(np.float64).tolist()]

    def cells(self, arr):
        out = []
        tr = getattr(self, 'transform', None)
        if tr is not None:
            arr = tr(arr)
        if self.kind in ('plain', 'packed'):
            for n, d in self._col_tokens(arr):
                out.append(n)
                out.append(d)
            return out
        if self.kind == 'rec':
            cols = [self._col_tokens(arr[f]) for f in self.fields]
            for row in zip(*cols):
                for n, d in row:
                    out.append(n)
                    out.append(d)
            return out
        a = np.ascontiguousarray(np.asarray(arr, dtype=np.uint8))
        w = self.width
        b = a.tobytes()
        for i in range(a.shape[0]):
            out.append(int.from_bytes(b[i * w:(i + 1) * w], 'little'))
            out.append(1)
        return out


class MissingHandle(Exception):
    pass


class HandleDict(dict):
    def __missing__(self, key):
        raise MissingHandle(key)


class Env:
    def __init__(self):
        self.maps = HandleDict()
        self.meta = HandleDict()

    def put(self, h, m):
        self.maps[h] = m
        self.meta[h] = Meta(m)


def _np_value(meta, dtype, v):
    """build the NumPy value for one cell from its JSON form"""
    if meta.kind == 'wide':
        return np.frombuffer(int(v).to_bytes(meta.width, 'little'), dtype=np.uint8).copy()
    if meta.kind == 'rec':
        r = np.zeros(1, dtype=dtype)
        for f, x in zip(meta.fields, v):
            r[f] = x
        return r[0]
    if meta.kind in ('packed',) or dtype == np.bool_:
        return bool(v)
    return np.dtype(dtype).type(v)


def _np_values(meta, dtype, vals):
    if meta.kind == 'wide':
        return np.array([_np_value(meta, dtype, v) for v in vals], dtype=np.uint8).reshape((len(vals), meta.width))
    if meta.kind == 'rec':
        r = np.zeros(len(vals), dtype=dtype)
        for i, v in enumerate(vals):
            for f, x in zip(meta.fields, v):
                r[f][i] = x
        return r
    if meta.kind == 'packed' or np.dtype(dtype) == np.bool_:
        return np.array([bool(v) for v in vals], dtype=np.bool_)
    return np.array(vals, dtype=dtype)


def _tok_value(meta, v):
    """exact tokens of a JSON cell value as the implementation will store it"""
    if meta.kind == 'wide':
        return [int(v), 1]
    if meta.kind == 'rec':
        out = []
        for f, x in zip(meta.fields, v):
            fr = frac(np.dtype(meta.dtype[f]).type(x))
            out += [fr.numerator, fr.denominator]
        return out
    if meta.kind == 'packed' or meta.dtype == np.bool_:
        return [int(bool(v)), 1]
    fr = frac(np.dtype(meta.dtype).type(v))
    return [fr.numerator, fr.denominator]


def blank_tokens(meta, m):
    """what make_empty fills the storage with"""
    if meta.kind == 'rec':
        out = []
        for i, f in enumerate(meta.fields):
            if i == meta.prim:
                fr = meta.sent
            else:
                fr = frac(healsparse.utils.check_sentinel(m.dtype[f].type, None))
            out += [fr.numerator, fr.denominator]
        return out
    if meta.kind == 'wide':
        return [0, 1]
    return [meta.sent.numerator, meta.sent.denominator]


def mk_model_op(h, meta, m, cov_pixels):
    return [[1], [h], [meta.ncov, meta.nfine],
            [meta.prim, meta.sent.numerator, meta.sent.denominator, meta.nfields],
            blank_tokens(meta, m),
            [0 if cov_pixels is None else 1],
            [] if cov_pixels is None else [int(c) for c in cov_pixels]]


def expect_ok(step_i, what):
    def cmp(res):
        if res[0][0] != 1:
            return [dict(step=step_i, what=what + ': model rejected', layer='L1', impl='ok', model=res[0])]
        return []
    return cmp


def make_map(st):
    kind = st.get('kind', 'plain')
    kw = {}
    if st.get('sentinel') is not None:
        kw['sentinel'] = st['sentinel']
    if st.get('cov_pixels') is not None:
        kw['cov_pixels'] = np.array(st['cov_pixels'], dtype=np.int64)
    if kind == 'wide':
        return HealSparseMap.make_empty(st['nc'], st['ns'], healsparse.WIDE_MASK,
                                        wide_mask_maxbits=st['maxbits'], **kw)
    if kind == 'rec':
        dt = [(n, DT[t]) for n, t in st['fields']]
        return HealSparseMap.make_empty(st['nc'], st['ns'], dt, primary=st['primary'], **kw)
    if kind == 'packed':
        return HealSparseMap.make_empty(st['nc'], st['ns'], np.bool_, bit_packed=True, **kw)
    dtype = DT[st['dtype']]
    if 'sentinel' in kw:
        if np.dtype(dtype).kind == 'f':
            kw['sentinel'] = float(kw['sentinel'])
            if st.get('sentinel_np64'):
                # a NumPy double scalar (e.g. a value read from a header): it must be expressed in the map's type
                kw['sentinel'] = np.float64(kw['sentinel'])
        elif np.dtype(dtype).kind == 'b':
            kw['sentinel'] = bool(kw['sentinel'])
        else:
            kw['sentinel'] = int(kw['sentinel'])
    return HealSparseMap.make_empty(st['nc'], st['ns'], dtype, **kw)


def do_update_impl(m, meta, st):
    """perform the update on the real map in the requested call form"""
    form = st.get('form', 'pix')
    op = st.get('operation', 'replace')
    pixels = st['pixels']
    vals = st['values']
    if vals is None:
        value = None
    elif st.get('single', False):
        value = _np_value(meta, m.dtype, vals)
        if meta.kind == 'plain' and np.dtype(m.dtype).kind in 'iu' and st.get('pyscalar', True):
            value = int(vals)
        elif meta.kind == 'plain' and np.dtype(m.dtype).kind == 'f' and st.get('pyscalar', True):
            value = float(value)
    else:
        value = _np_values(meta, m.dtype, vals)
    if form == 'pix':
        m.update_values_pix(np.array(pixels, dtype=np.int64), value, operation=op)
    elif form == 'ring':
        ring = hpg.nest_to_ring(meta.ns, np.array(pixels, dtype=np.int64))
        m.update_values_pix(ring, value, operation=op, nest=False)
    elif form == 'setitem_arr':
        m[np.array(pixels, dtype=np.int64)] = value
    elif form == 'setitem_list':
        m[[int(p) for p in pixels]] = value
    elif form == 'setitem_int':
        m[int(pixels[0])] = value
    elif form == 'setitem_slice':
        a, b, s = st['slice']
        m[a:b:s] = value
    elif form == 'pos':
        lon, lat = hpg.pixel_to_angle(meta.ns, np.array(pixels, dtype=np.int64))
        m.update_values_pos(lon, lat, value, operation=op)
    elif form == 'range':
        m.update_values_pix(np.array(st['ranges'], dtype=np.int64).reshape((-1, 2)), value, operation=op)
    else:
        raise RuntimeError('unknown form ' + form)



def do_bad_update_impl(m, meta, st):
    """malformed calls: each must be rejected before anything is written"""
    bad = st['bad']
    pixels = np.array(st['pixels'], dtype=np.int64)
    good_vals = _np_values(meta, m.dtype, st['values'])
    if bad == 'dup_replace':
        pix2 = np.concatenate([pixels, pixels[:1]])
        if meta.kind == 'wide':
            v2 = np.concatenate([good_vals, good_vals[:1]], axis=0)
        else:
            v2 = np.concatenate([good_vals, good_vals[:1]])
        m.update_values_pix(pix2, v2)
    elif bad == 'bad_len':
        m.update_values_pix(pixels, np.concatenate([good_vals, good_vals], axis=0)[:len(pixels) + 1 + (len(pixels) == 0)])
    elif bad == 'bad_dtype':
        if meta.kind == 'rec':
            m.update_values_pix(pixels, np.zeros(len(pixels), dtype=[('zz', 'f8')]))
        elif meta.kind == 'wide':
            m.update_values_pix(pixels, np.zeros((len(pixels), meta.width), dtype=np.int32))
        elif meta.kind == 'packed' or m.dtype == np.bool_:
            m.update_values_pix(pixels, np.zeros(len(pixels), dtype=np.int32))
        elif np.dtype(m.dtype).kind == 'f':
            m.update_values_pix(pixels, np.zeros(len(pixels), dtype=np.int64))
        else:
            m.update_values_pix(pixels, np.zeros(len(pixels), dtype=np.float64) + 0.5)
    elif bad == 'bad_op':
        m.update_values_pix(pixels, good_vals, operation=st['operation'])
    elif bad == 'none_op':
        m.update_values_pix(pixels, None, operation=st['operation'])
    elif bad == 'not_array':
        m.update_values_pix(pixels, [1, 2, 3][:len(pixels)])
    else:
        raise RuntimeError('unknown bad form')


def upd_model_op(h, meta, st, m=None):
    """explicit per-pixel form of the same update for the model"""
    pixels = [int(p) for p in st['pixels']]
    vals = st['values']
    na = 0
    if vals is None:
        na = 1
        if meta.kind == 'rec':
            # healSparseMap.py (after fix F14): the blank record of make_empty (every field at its own
            # default sentinel) with the primary set to the map's sentinel
            cellt = blank_tokens(meta, m)
        elif meta.kind == 'wide':
            cellt = [0, 1]
        else:
            cellt = [meta.sent.numerator, meta.sent.denominator]
        toks = cellt * len(pixels)
    elif st.get('single', False):
        toks = _tok_value(meta, vals) * len(pixels)
    else:
        toks = []
        for v in vals:
            toks += _tok_value(meta, v)
    return [[2], [h], [OPCODE[st.get('operation', 'replace')], na], pixels, toks]


def observe(env, h, step_i, what=('values', 'cov', 'valid', 'nvalid', 'raw', 'layout', 'paths')):
    """all observers of C01/C02/C04 on handle h: returns [(model_op, comparator)]"""
    return observe_map(env.maps[h], env.meta[h], h, step_i, what)


def observe_map(m, meta, h, step_i, what):
    out = []
    allpix = np.arange(meta.npix, dtype=np.int64)

    def guard(fn, name):
        try:
            return fn(), None
        except Exception as e:  # noqa
            return None, '%s raised %s: %s' % (name, type(e).__name__, e)

    if 'values' in what:
        vals, err = guard(lambda: meta.cells(m.get_values_pix(allpix)), 'get_values_pix')

        def cmp_values(res, vals=vals, err=err):
            mm = []
            if err:
                return [dict(step=step_i, what=err, layer='impl', impl='RAISED', model=None)]
            if not tokens_equal(vals, res[1], meta):
                mm.append(dict(step=step_i, what='values(all pixels) vs L1', layer='L1',
                               impl=_first_diff(vals, res[1], meta), model=None))
            if not tokens_equal(vals, res[2], meta):
                mm.append(dict(step=step_i, what='values(all pixels) vs L0 dense spec', layer='L0',
                               impl=_first_diff(vals, res[2], meta), model=None))
            return mm
        out.append(([[3], [h]], cmp_values))

    if 'paths' in what and 'values' in what and vals is not None:
        # other read paths must agree with get_values_pix (implementation-internal)
        errs = []
        try:
            v2 = meta.cells(m[allpix])
            if v2 != vals:
                errs.append('__getitem__(array) differs from get_values_pix')
            v3 = meta.cells(m[0:meta.npix])
            if v3 != vals:
                errs.append('__getitem__(slice) differs from get_values_pix')
            lon, lat = hpg.pixel_to_angle(meta.ns, allpix)
            v4 = meta.cells(m.get_values_pos(lon, lat))
            if v4 != vals:
                errs.append('get_values_pos differs from get_values_pix')
            ring = hpg.nest_to_ring(meta.ns, allpix)
            v5 = meta.cells(m.get_values_pix(ring, nest=False))
            if v5 != vals:
                errs.append('get_values_pix(nest=False) differs from get_values_pix')
            k = int(allpix[len(allpix) // 3])
            if meta.cell(m[k]) != vals[2 * meta.nfields * k: 2 * meta.nfields * (k + 1)]:
                errs.append('__getitem__(int) differs')
            v6 = meta.cells(m[[int(p) for p in allpix[:7]]])
            if v6 != vals[:2 * meta.nfields * 7]:
                errs.append('__getitem__(list) differs')
            # positions of the valid pixels: must be the centres of exactly the valid pixels, in listing order
            vlon, vlat = m.valid_pixels_pos(lonlat=True)
            if [int(p) for p in hpg.angle_to_pixel(meta.ns, vlon, vlat)] != [int(p) for p in m.valid_pixels]:
                errs.append('valid_pixels_pos does not give the centres of valid_pixels')
            # every combination of the options: co-latitude/longitude in radians, with the pixel numbers
            vpl = [int(p) for p in m.valid_pixels]
            for ll in (True, False):
                for rp in (False, True):
                    r_ = m.valid_pixels_pos(lonlat=ll, return_pixels=rp)
                    if rp:
                        if [int(p) for p in r_[0]] != vpl:
                            errs.append('valid_pixels_pos(return_pixels=True) lists other pixels than valid_pixels')
                        r_ = r_[1:]
                    if len(vpl) and [int(p) for p in hpg.angle_to_pixel(meta.ns, r_[0], r_[1], lonlat=ll)] != vpl:
                        errs.append('valid_pixels_pos(lonlat=%s, return_pixels=%s) does not give the centres of valid_pixels' % (ll, rp))
                    elif len(vpl):
                        back = m.get_values_pos(r_[0], r_[1], lonlat=ll, valid_mask=True)
                        if not bool(np.all(back)):
                            errs.append('positions from valid_pixels_pos(lonlat=%s, return_pixels=%s) do not read back as valid' % (ll, rp))
            if meta.kind == 'wide' and meta.npix <= 4096:
                for bits in ([0], [meta.width * 8 - 1], [1, 8] if meta.width > 1 else [1]):
                    a = np.asarray(m.check_bits_pix(allpix, bits))
                    b = np.asarray(m.check_bits_pos(lon, lat, bits, lonlat=True))
                    if not np.array_equal(a, b):
                        errs.append('check_bits_pos differs from check_bits_pix')
        except Exception as e:  # noqa
            errs.append('read path raised %s: %s' % (type(e).__name__, e))
        if errs:
            out.append((None, lambda res, errs=errs: [dict(step=step_i, what=e, layer='L0', impl=e, model=None)
                                                      for e in errs]))

    if 'cov' in what:
        cm = [int(b) for b in m.coverage_mask]

        def cmp_cov(res, cm=cm):
            mm = []
            if res[1] != cm:
                mm.append(dict(step=step_i, what='coverage_mask vs L1', layer='L1', impl=cm, model=res[1]))
            if res[2] != cm:
                mm.append(dict(step=step_i, what='coverage_mask vs L0', layer='L0', impl=cm, model=res[2]))
            return mm
        out.append(([[4], [h]], cmp_cov))

    if 'valid' in what:
        vp, err = guard(lambda: [int(p) for p in m.valid_pixels], 'valid_pixels')
        vm, err2 = guard(lambda: [int(p) for p in np.where(m.get_values_pix(allpix, valid_mask=True))[0]],
                         'valid_mask')

        def cmp_valid(res, vp=vp, err=err, vm=vm, err2=err2):
            mm = []
            if err or err2:
                if res[0][0] == 1 or err2:
                    mm.append(dict(step=step_i, what=err or err2, layer='L0', impl='RAISED', model=res[1][:20]))
                return mm
            if res[0][0] != 1:
                mm.append(dict(step=step_i, what='valid_pixels: model raises, impl returns', layer='L1',
                               impl=vp[:20], model='RAISED'))
            elif res[1] != vp:
                mm.append(dict(step=step_i, what='valid_pixels (storage order) vs L1', layer='L1',
                               impl=vp[:40], model=res[1][:40]))
            if sorted(vp) != res[2] or len(set(vp)) != len(vp):
                mm.append(dict(step=step_i, what='valid_pixels (as a set) vs L0', layer='L0',
                               impl=sorted(vp)[:40], model=res[2][:40]))
            if vm != res[2]:
                mm.append(dict(step=step_i, what='valid_mask vs L0', layer='L0', impl=vm[:40], model=res[2][:40]))
            return mm
        out.append(([[5], [h]], cmp_valid))

    if 'nvalid' in what:
        nv, err = guard(lambda: int(m.n_valid), 'n_valid')

        def cmp_nv(res, nv=nv, err=err):
            mm = []
            if err:
                return [dict(step=step_i, what=err, layer='L0', impl='RAISED', model=res[1])]
            if res[1][0] != nv:
                mm.append(dict(step=step_i, what='n_valid vs L1 (cache model)', layer='L1', impl=nv, model=res[1][0]))
            if res[1][1] != nv:
                mm.append(dict(step=step_i, what='n_valid vs L0 count', layer='L0', impl=nv, model=res[1][1]))
            return mm
        out.append(([[6], [h]], cmp_nv))

    if 'raw' in what or 'layout' in what:
        idx = [int(x) for x in m._cov_map._cov_index_map]
        sp = m._sparse_map
        if meta.kind == 'packed':
            sparr = np.asarray(sp)
        else:
            sparr = sp
        if 'raw' in what:
            raw = meta.cells(sparr)

            def cmp_raw(res, idx=idx, raw=raw):
                mm = []
                if res[1] != idx:
                    mm.append(dict(step=step_i, what='raw cov_index_map vs L1', layer='L1', impl=idx, model=res[1]))
                if not tokens_equal(raw, res[2], meta):
                    mm.append(dict(step=step_i, what='raw sparse_map vs L1', layer='L1',
                                   impl=_first_diff(raw, res[2], meta), model=None))
                return mm
            out.append(([[7], [h]], cmp_raw))

            def cmp_wf(res):
                if res[1] != [1]:
                    return [dict(step=step_i, what='model state violates wf (model invariant broken)',
                                 layer='L1', impl=None, model=res[1])]
                return []
            out.append(([[8], [h]], cmp_wf))
        if 'layout' in what:
            if meta.kind == 'rec':
                vflags = (sparr[m.primary] != m._sentinel)
            elif meta.kind == 'wide':
                vflags = np.any(sparr != 0, axis=1)
            else:
                vflags = (sparr != m._sentinel)
            b2c = [int(x) for x in m._cov_map._block_to_cov_index]
            op = [[9], [meta.nfine], idx, [int(b) for b in vflags], b2c]

            def cmp_layout(res):
                if res[1] != [1]:
                    return [dict(step=step_i, what='published layout violated by the implementation state '
                                 '(extracted layoutb_with = false)', layer='L0', impl=dict(idx=idx), model=res[1])]
                return []
            out.append((op, cmp_layout))
    if 'finer' in what:
        # get_values_pix(nside=finer): the value of the containing pixel (implementation-internal, C15), for NEST
        # and for RING-ordered pixel numbers of the finer resolution, values and validity
        errs = []
        try:
            base = m.get_values_pix(allpix)
            basev = np.asarray(m.get_values_pix(allpix, valid_mask=True))
            for up in (2, 4):
                nfine_up = up * up
                sel = np.arange(0, meta.npix * nfine_up, max(1, (meta.npix * nfine_up) // 97), dtype=np.int64)
                sel0 = sel.copy()
                got = m.get_values_pix(sel, nside=meta.ns * up)
                want = base[sel // nfine_up]
                if meta.cells(got) != meta.cells(want):
                    errs.append('get_values_pix(nside=%d) differs from the value of the containing pixel' % (meta.ns * up))
                # the same lookup in the model: L1 read (p / r), L0 the dense upgrade at p (C15 theorem
                # finer_lookup_is_the_lookup_on_the_upgraded_map)
                gcells = meta.cells(got)

                def cmp_finer(res, gcells=gcells, up=up):
                    mm = []
                    if not tokens_equal(gcells, res[1], meta):
                        mm.append(dict(step=step_i, what='get_values_pix(nside=%d) vs L1 read of the containing pixel' % (meta.ns * up),
                                       layer='L1', impl=_first_diff(gcells, res[1], meta), model=None))
                    if not tokens_equal(gcells, res[2], meta):
                        mm.append(dict(step=step_i, what='get_values_pix(nside=%d) vs L0 upgraded dense map' % (meta.ns * up),
                                       layer='L0', impl=_first_diff(gcells, res[2], meta), model=None))
                    return mm
                out.append(([[37], [h], [0], [nfine_up], [int(p) for p in sel0]], cmp_finer))
                gv = np.asarray(m.get_values_pix(sel, nside=meta.ns * up, valid_mask=True))
                if not np.array_equal(gv, basev[sel // nfine_up]):
                    errs.append('get_values_pix(nside=%d, valid_mask=True) differs from the validity of the containing pixel' % (meta.ns * up))
                ring = hpg.nest_to_ring(meta.ns * up, sel)
                gr = m.get_values_pix(ring, nside=meta.ns * up, nest=False)
                if meta.cells(gr) != meta.cells(want):
                    errs.append('get_values_pix(nside=%d, nest=False) differs from the NEST lookup of the converted pixel numbers' % (meta.ns * up))
                if not np.array_equal(sel, sel0):
                    errs.append('get_values_pix(nside=) changed the caller\'s pixel array')
        except Exception as e:  # noqa
            errs.append('get_values_pix(nside=) raised %s: %s' % (type(e).__name__, e))
        if errs:
            out.append((None, lambda res, errs=errs: [dict(step=step_i, what=e, layer='L0', impl=e, model=None) for e in errs]))

    if 'covmap' in what:
        cm, err = guard(lambda: [float(x) * meta.nfine for x in m.coverage_map], 'coverage_map')

        def cmp_cm(res, cm=cm, err=err):
            if err:
                return [dict(step=step_i, what=err, layer='L0', impl='RAISED', model=None)]
            mm = []
            if [float(x) for x in res[1]] != cm:
                mm.append(dict(step=step_i, what='coverage_map*nfine vs L1 block counts', layer='L1', impl=cm, model=res[1]))
            if [float(x) for x in res[2]] != cm:
                mm.append(dict(step=step_i, what='coverage_map*nfine vs L0 valid count per coverage pixel', layer='L0',
                               impl=cm, model=res[2]))
            return mm
        out.append(([[10], [h]], cmp_cm))

    if 'fracdet' in what:
        ns = meta.nc
        while ns <= meta.ns:
            r = (meta.ns // ns) ** 2
            def get_fd(ns=ns, r=r):
                fm = m.fracdet_map(ns)
                npx = 12 * ns * ns
                vals = [float(x) * r for x in fm.get_values_pix(np.arange(npx))]
                rawidx = [int(x) for x in fm._cov_map._cov_index_map]
                rawsp = [float(x) * r for x in fm._sparse_map]
                vp = sorted(int(p) for p in fm.valid_pixels)
                return vals, rawidx, rawsp, vp, (fm.nside_coverage, fm.nside_sparse, str(fm.dtype), float(fm._sentinel))
            fd, err = guard(get_fd, 'fracdet_map(%d)' % ns)

            def cmp_fd(res, fd=fd, err=err, ns=ns, r=r):
                if err:
                    # (bit-packed maps with fewer than 8 fine pixels per fracdet pixel used to raise: F50, fixed)
                    return [dict(step=step_i, what=err, layer='L0', impl='RAISED', model=None)]
                vals, rawidx, rawsp, vp, info = fd
                mm = []
                if info != (meta.nc, ns, 'float64', 0.0):
                    mm.append(dict(step=step_i, what='fracdet_map(%d) parameters' % ns, layer='L0', impl=info, model=None))
                if [float(x) for x in res[3]] != vals:
                    mm.append(dict(step=step_i, what='fracdet_map(%d)*r vs L0 valid children count' % ns, layer='L0',
                                   impl=vals[:48], model=res[3][:48]))
                if vp != [q for q, c in enumerate(res[3]) if c > 0]:
                    mm.append(dict(step=step_i, what='fracdet_map(%d) valid pixels vs L0' % ns, layer='L0',
                                   impl=vp[:40], model=[q for q, c in enumerate(res[3]) if c > 0][:40]))
                if res[1] != rawidx:
                    mm.append(dict(step=step_i, what='fracdet_map(%d) raw index vs L1' % ns, layer='L1', impl=rawidx, model=res[1]))
                if [float(x) for x in res[2]] != rawsp:
                    mm.append(dict(step=step_i, what='fracdet_map(%d) raw storage vs L1 group counts' % ns, layer='L1',
                                   impl=rawsp[:48], model=res[2][:48]))
                return mm
            out.append(([[11], [h], [r]], cmp_fd))
            ns *= 2

    if 'covpix' in what:
        cmask = m.coverage_mask
        cands = [int(c) for c in np.where(cmask)[0]]
        unc = [int(c) for c in np.where(~cmask)[0]][:2]
        allv = []
        for c in cands + unc:
            vp, err = guard(lambda c=c: [int(p) for p in m.valid_pixels_single_covpix(c)], 'valid_pixels_single_covpix')
            if vp is not None:
                allv += vp

            def cmp_cp(res, vp=vp, err=err, c=c):
                if err:
                    return [dict(step=step_i, what=err, layer='L0', impl='RAISED', model=None)]
                mm = []
                if res[0][0] != 1 or res[1] != vp:
                    mm.append(dict(step=step_i, what='valid_pixels_single_covpix(%d) vs L1' % c, layer='L1', impl=vp[:30],
                                   model=res[1][:30]))
                if sorted(vp) != res[2]:
                    mm.append(dict(step=step_i, what='valid_pixels_single_covpix(%d) vs L0' % c, layer='L0', impl=sorted(vp)[:30],
                                   model=res[2][:30]))
                return mm
            out.append(([[12], [h], [c]], cmp_cp))
        # the generator form and the union of the listings (implementation-internal agreement)
        try:
            it = []
            for arr in m.iter_valid_pixels_by_covpix():
                it += [int(p) for p in arr]
            whole = sorted(int(p) for p in m.valid_pixels)
            errs = []
            if sorted(it) != whole:
                errs.append('union of iter_valid_pixels_by_covpix differs from valid_pixels')
            if sorted(allv) != whole:
                errs.append('union of valid_pixels_single_covpix differs from valid_pixels')
        except Exception as e:  # noqa
            errs = ['iter_valid_pixels_by_covpix raised %s: %s' % (type(e).__name__, e)]
        if errs:
            out.append((None, lambda res, errs=errs: [dict(step=step_i, what=e, layer='L0', impl=e, model=None) for e in errs]))

    if 'submaps' in what:
        cmask = m.coverage_mask
        cands = [int(c) for c in np.where(cmask)[0]][:3] + [int(c) for c in np.where(~cmask)[0]][:1]
        for j, c in enumerate(cands):
            sub, err = guard(lambda c=c: m.get_single_covpix_map(c), 'get_single_covpix_map')
            if err:
                out.append((None, lambda res, err=err: [dict(step=step_i, what=err, layer='L0', impl='RAISED', model=None)]))
                continue
            hh = 9000 + j
            out.append(([[13], [h], [hh], [c]], expect_ok(step_i, 'single_covpix')))
            out += observe_map(sub, Meta(sub), hh, step_i, ('values', 'cov', 'valid', 'raw', 'layout'))
        try:
            subs = list(m.get_covpix_maps())
            tot = sorted(int(p) for sm in subs for p in sm.valid_pixels)
            if tot != sorted(int(p) for p in m.valid_pixels):
                out.append((None, lambda res: [dict(step=step_i, what='valid pixels of get_covpix_maps differ from valid_pixels',
                                                    layer='L0', impl=None, model=None)]))
        except Exception as e:  # noqa
            msg = 'get_covpix_maps raised %s: %s' % (type(e).__name__, e)
            out.append((None, lambda res, msg=msg: [dict(step=step_i, what=msg, layer='L0', impl='RAISED', model=None)]))
        try:
            area = m.get_valid_area(degrees=False)
            exp = int(m.n_valid) * hpg.nside_to_pixel_area(meta.ns, degrees=False)
            s = str(m)
            bad = []
            if area != exp:
                bad.append('get_valid_area != n_valid * pixel area')
            if 'valid pixels' in s and (', %d valid pixels' % len(m.valid_pixels)) not in s:
                bad.append('__str__ reports a stale valid count: ' + s[-40:])
            if bad:
                out.append((None, lambda res, bad=bad: [dict(step=step_i, what=b, layer='L0', impl=b, model=None) for b in bad]))
        except Exception as e:  # noqa
            pass
    return out


def tokens_equal(a, b, meta):
    """exact equality, or - when meta.tol is set - rational closeness cell by cell"""
    if a == b:
        return True
    tol = getattr(meta, 'tol', None)
    if tol is None or len(a) != len(b):
        return False
    for i in range(0, len(a), 2):
        if a[i] == b[i] and a[i + 1] == b[i + 1]:
            continue
        x = Fraction(a[i], a[i + 1])
        y = Fraction(b[i], b[i + 1])
        if abs(x - y) > tol * max(1, abs(x), abs(y)):
            return False
    return True


def _first_diff(a, b, meta):
    w = 2 * meta.nfields
    n = max(len(a), len(b)) // w
    for i in range(n):
        if a[i * w:(i + 1) * w] != b[i * w:(i + 1) * w]:
            return dict(index=i, impl=a[i * w:(i + 1) * w], model=b[i * w:(i + 1) * w],
                        lens=(len(a) // w, len(b) // w))
    return dict(lens=(len(a) // w, len(b) // w))


def exec_step(env, st, i):
    """run one step on the implementation; returns list of (model_op | None, comparator)"""
    op = st['op']
    if op == 'mk':
        m = make_map(st)
        env.put(st['h'], m)
        if st.get('nomodel'):
            return []          # very large maps are checked with implementation-level predicates only
        return [(mk_model_op(st['h'], env.meta[st['h']], m, st.get('cov_pixels')), expect_ok(i, 'mk'))]
    if op == 'upd':
        h = st['h']
        m = env.maps[h]
        meta = env.meta[h]
        expect = st.get('expect', 'ok')
        try:
            do_update_impl(m, meta, st)
            raised = None
        except Exception as e:  # noqa
            raised = '%s: %s' % (type(e).__name__, e)
        if raised is not None:
            if expect == 'ok':
                return [(None, lambda res: [dict(step=i, what='update raised on a valid call: ' + raised,
                                                 layer='L0', impl='RAISED', model='ok')])]
            return []   # model state unchanged; the following check compares all values
        if expect == 'raise':
            return [(None, lambda res: [dict(step=i, what='update expected to be rejected was accepted',
                                             layer='L0', impl='ok', model='RAISED')])]
        return [(upd_model_op(h, meta, st, m), expect_ok(i, 'upd'))]
    if op == 'badupd':
        h = st['h']
        try:
            do_bad_update_impl(env.maps[h], env.meta[h], st)
        except Exception:  # noqa
            return []
        return [(None, lambda res: [dict(step=i, what='malformed update (%s) was accepted' % st['bad'],
                                         layer='L0', impl='ok', model='RAISED')])]
    if op == 'check':
        pairs = observe(env, st['h'], i, tuple(st.get('what', ('values', 'cov', 'valid', 'nvalid', 'raw', 'layout', 'paths'))))
        if st.get('l1only'):
            # the property under test does not speak about this map's dense specification (e.g. C19 only
            # relates two implementation paths): keep the correspondence (L1) comparisons only
            def wrap(cmp):
                return lambda res: [m for m in cmp(res) if m['layer'] != 'L0' or 'layout' in m['what']]
            pairs = [(mop, wrap(cmp)) for mop, cmp in pairs]
        return pairs
    from harness import ops2
    if op in ops2.STEPS:
        snap = ops2.cov_watch_before(env, st)
        pairs = ops2.STEPS[op](env, st, i)
        if snap:
            pairs = list(pairs) + ops2.cov_watch_after(env, st, i, snap)
        return pairs
    raise RuntimeError('unknown step op %r' % op)


def run_histories(histories, run_model):
    """Run every history on the implementation and the model.
    Returns list (per history) of mismatch lists."""
    all_ops = []
    all_cmps = []
    crashed = []
    for hist in histories:
        env = Env()
        ops = []
        cmps = []
        crash = None
        for i, st in enumerate(hist):
            try:
                pairs = exec_step(env, st, i)
            except MissingHandle:
                continue     # a step on a handle that was never produced (shrunk history): skipped
            except Exception as e:  # harness or unexpected implementation failure
                crash = dict(step=i, what='step crashed: %s: %s' % (type(e).__name__, e), layer='impl',
                             impl=traceback.format_exc()[-1500:], model=None)
                break
            for mop, cmp in pairs:
                if mop is None:
                    cmps.append((None, cmp))
                else:
                    cmps.append((len(ops), cmp))
                    ops.append(mop)
        all_ops.append(ops)
        all_cmps.append(cmps)
        crashed.append(crash)
    results = run_model(all_ops)
    out = []
    for cmps, res, crash in zip(all_cmps, results, crashed):
        mm = []
        for k, cmp in cmps:
            mm += cmp(None if k is None else res[k])
        if crash:
            mm.append(crash)
        out.append(mm)
    return out
