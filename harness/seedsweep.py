"""Run every kept seeded change (seeded/<id>/patch.diff) against its property's quick check, in parallel.

Each change is applied in its own scratch git worktree of /repo (outside /repo and /verif); the check runs with
VERIF_REPO pointing at that worktree, so /repo itself is never touched and several changes can be tried at once.
Two changes of the same property are never run concurrently (they would share evidence and replay files).
The worktrees are removed afterwards.  A change counts as caught when the check exits 1 with a VIOLATION line.

    python -m harness.seedsweep [-j N] [ids...]          (default: all of seeded/, N = 4)
After a sweep the evidence files describe failing runs: re-run the checks on the clean tree before committing."""
import os, sys, subprocess, tempfile, shutil, json, time
from concurrent.futures import ThreadPoolExecutor

VERIF = '/verif'


def run_one(sid, root):
    pid = sid.split('-')[0]
    wt = os.path.join(root, sid)
    r = subprocess.run(['git', '-C', '/repo', 'worktree', 'add', '--detach', wt, 'HEAD'], capture_output=True, text=True)
    if r.returncode != 0:
        return sid, 'WORKTREE-FAIL ' + r.stderr[:200]
    try:
        r = subprocess.run(['git', '-C', wt, 'apply', os.path.join(VERIF, 'seeded', sid, 'patch.diff')],
                           capture_output=True, text=True)
        if r.returncode != 0:
            return sid, 'APPLY-FAIL ' + r.stderr[:200]
        env = dict(os.environ, VERIF_REPO=wt)
        t0 = time.time()
        p = subprocess.run(['./check', pid, '--no-build'], cwd=VERIF, capture_output=True, text=True, env=env,
                           timeout=7200)
        viol = [l for l in p.stdout.splitlines() if l.startswith('VIOLATION')]
        last = [l for l in p.stderr.splitlines() if l.strip()][-1:]
        caught = (p.returncode == 1 and bool(viol))
        return sid, '%s exit=%d violations=%d %.0fs | %s' % ('CAUGHT' if caught else 'MISSED', p.returncode, len(viol),
                                                          time.time() - t0, last[0][:90] if last else '')
    finally:
        subprocess.run(['git', '-C', '/repo', 'worktree', 'remove', '--force', wt], capture_output=True)


def main():
    args = sys.argv[1:]
    j = 4
    if args[:1] == ['-j']:
        j = int(args[1]); args = args[2:]
    ids = args or sorted(d for d in os.listdir(os.path.join(VERIF, 'seeded')) if os.path.isdir(os.path.join(VERIF, 'seeded', d)))
    root = tempfile.mkdtemp(prefix='hs_seedsweep_')
    # one lane per property so that two changes of one property never run at the same time
    lanes = {}
    for sid in ids:
        lanes.setdefault(sid.split('-')[0], []).append(sid)

    def lane(sids):
        out = []
        for sid in sids:
            res = run_one(sid, root)
            print('%s %s' % res, flush=True)
            out.append(res)
        return out
    results = []
    with ThreadPoolExecutor(max_workers=j) as ex:
        for part in ex.map(lane, lanes.values()):
            results += part
    subprocess.run(['git', '-C', '/repo', 'worktree', 'prune'])
    shutil.rmtree(root, ignore_errors=True)
    missed = [s for s, r in results if not r.startswith('CAUGHT')]
    print('SWEEP-DONE %d changes, %d caught, missed: %s' % (len(results), len(results) - len(missed), ' '.join(missed) or 'none'))
    return 1 if missed else 0


if __name__ == '__main__':
    sys.exit(main())
