#!/bin/bash
# Build the framework from files on disk only (offline): regenerate Src facts from /repo,
# compile the Coq development, extract and compile the OCaml runner.
cd /verif
export PYTHONPATH=/repo:/verif PYTHONHASHSEED=0 PYTHONDONTWRITEBYTECODE=1
/venv/bin/python - <<'PY' 2> >(grep -v "WARNING conda" >&2)
from harness import core
r = core.build()
print('build ok=%s failed=%s wall=%.1fs' % (r['ok'], r['failed_files'], r['wall_s']))
import sys
sys.exit(0 if r['ok'] else 1)
PY
