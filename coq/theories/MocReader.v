(* MocReader.v — the MOC reader builds its map at the FINEST order present in the file, which can be
   coarser than the order of the map that was written (when every pixel was merged into larger cells).
   Theorem: that makes no difference on the sky — a pixel of the original order is valid in the written map
   iff its ancestor at the reader's order is set in the map read back (C17: "expressed at the original
   resolution, the set of valid pixels is identical"). *)
From HS Require Import Prelude Moc MocProofs MocRefine.

Lemma fold_max_ge (l : list Z) : forall a x, In x l -> x <= fold_left Z.max l a.
Proof.
  induction l as [|y r IH]; intros a x Hin; [destruct Hin|]. cbn [fold_left].
  destruct Hin as [->|Hin].
  - assert (G : forall l b, b <= fold_left Z.max l b).
    { clear. induction l as [|z t IH]; intros b; cbn [fold_left]; [lia|]. pose proof (IH (Z.max b z)). lia. }
    pose proof (G r (Z.max a x)). lia.
  - apply IH. exact Hin.
Qed.

Lemma fold_max_le (l : list Z) : forall a b, a <= b -> (forall x, In x l -> x <= b) -> fold_left Z.max l a <= b.
Proof.
  induction l as [|y r IH]; intros a b Ha Hl; cbn [fold_left]; [exact Ha|].
  apply IH; [pose proof (Hl y (or_introl eq_refl)); lia|]. intros x Hx. apply Hl. right; exact Hx.
Qed.

(* the order the reader works at: every cell's order is at most it, and it is at most the writer's *)
Lemma moc_max_order_bounds (us : list Z) (mx : Z) :
  0 <= mx -> (forall u, In u us -> uniq_order u <= mx) ->
  (forall u, In u us -> uniq_order u <= moc_max_order us) /\ 0 <= moc_max_order us <= mx.
Proof.
  intros Hmx Hle. unfold moc_max_order. split.
  - intros u Hu. apply fold_max_ge. apply in_map. exact Hu.
  - split.
    + assert (G : forall l b, b <= fold_left Z.max l b).
      { clear. induction l as [|z t IH]; intros b; cbn [fold_left]; [lia|]. pose proof (IH (Z.max b z)). lia. }
      apply G.
    + apply fold_max_le; [exact Hmx|]. intros x Hx. apply in_map_iff in Hx. destruct Hx as [u [<- Hu]].
      apply Hle. exact Hu.
Qed.

(* a cell (k, a) contains pixel x of order mx iff it contains x's ancestor of order mx' (k <= mx' <= mx) *)
Lemma cell_membership_at_coarser_order k a mx' mx x :
  0 <= k <= mx' -> mx' <= mx -> 0 <= x ->
  (a * 4 ^ (mx - k) <= x < (a + 1) * 4 ^ (mx - k)) <->
  (a * 4 ^ (mx' - k) <= ancestor mx mx' x < (a + 1) * 4 ^ (mx' - k)).
Proof.
  intros Hk Hm Hx.
  rewrite (expansion_is_the_descendants mx k a x) by lia.
  assert (Hax : 0 <= ancestor mx mx' x).
  { unfold ancestor. apply Z.div_pos; [exact Hx|apply pow4_pos; lia]. }
  rewrite (expansion_is_the_descendants mx' k a (ancestor mx mx' x)) by lia.
  rewrite (ancestor_compose mx k mx' x) by lia. reflexivity.
Qed.

Section Reader.
Variables mx mn : Z.
Variable vs : list Z.
Hypothesis Hord : 0 <= mn <= mx.
Hypothesis ND : NoDup vs.
Hypothesis Hrange : forall x, In x vs -> 0 <= x < 12 * 4 ^ mx.

Notation cells := (moc_cells mx mn vs).
Notation mr := (moc_max_order cells).       (* the reader's order *)

Lemma reader_order_bounds :
  (forall u, In u cells -> mn <= uniq_order u <= mr) /\ 0 <= mr <= mx.
Proof.
  assert (Hle : forall u, In u cells -> uniq_order u <= mx)
    by (intros u Hu; apply (moc_cells_order mx mn vs Hord ND Hrange u Hu)).
  destruct (moc_max_order_bounds cells mx ltac:(lia) Hle) as [A B].
  split; [|exact B]. intros u Hu. split; [apply (moc_cells_order mx mn vs Hord ND Hrange u Hu)|apply A; exact Hu].
Qed.

(* pixel x (original order) is valid iff its ancestor at the reader's order is set by the reader *)
Theorem reader_at_its_own_order_covers_the_same_sky x :
  0 <= x -> (In x vs <-> In (ancestor mx mr x) (moc_expand mr cells)).
Proof.
  intros Hx. destruct reader_order_bounds as [Hcell Hmr].
  rewrite <- (moc_covers_exactly mx mn vs Hord ND Hrange x).
  unfold moc_expand. rewrite !In_zsort_uniq, !in_flat_map.
  assert (Hax : 0 <= ancestor mx mr x).
  { unfold ancestor. apply Z.div_pos; [exact Hx|apply pow4_pos; lia]. }
  split; intros [u [Hu Hin]]; exists u; (split; [exact Hu|]).
  - (* from the original order down to the reader's *)
    pose proof (Hcell u Hu) as Ho.
    rewrite moc_cells_eq, In_zsort_uniq in Hu. apply in_map_iff in Hu.
    destruct Hu as [p [Eu Hp]].
    destruct (final_inv mx mn vs Hord ND Hrange p Hp) as [k [Hk [Ek _]]].
    rewrite <- Eu, Ek in *.
    assert (Hb : 0 <= ancestor mx k p < 12 * 4 ^ k) by (apply (anc_bound mx vs Hrange); [lia|apply Hrange; exact Hp]).
    destruct (uniq_decode_encode k (ancestor mx k p) ltac:(lia) Hb) as [Eo _]. rewrite Eo in Ho.
    apply (In_expand mx vs Hrange k (ancestor mx k p) x ltac:(lia) Hb) in Hin.
    apply (In_expand mr [] (fun y (H : In y []) => match H with end) k (ancestor mx k p) (ancestor mx mr x) ltac:(lia) Hb).
    apply (proj1 (cell_membership_at_coarser_order k (ancestor mx k p) mr mx x ltac:(lia) ltac:(lia) Hx)). exact Hin.
  - pose proof (Hcell u Hu) as Ho.
    rewrite moc_cells_eq, In_zsort_uniq in Hu. apply in_map_iff in Hu.
    destruct Hu as [p [Eu Hp]].
    destruct (final_inv mx mn vs Hord ND Hrange p Hp) as [k [Hk [Ek _]]].
    rewrite <- Eu, Ek in *.
    assert (Hb : 0 <= ancestor mx k p < 12 * 4 ^ k) by (apply (anc_bound mx vs Hrange); [lia|apply Hrange; exact Hp]).
    destruct (uniq_decode_encode k (ancestor mx k p) ltac:(lia) Hb) as [Eo _]. rewrite Eo in Ho.
    apply (In_expand mr [] (fun y (H : In y []) => match H with end) k (ancestor mx k p) (ancestor mx mr x) ltac:(lia) Hb) in Hin.
    apply (In_expand mx vs Hrange k (ancestor mx k p) x ltac:(lia) Hb).
    apply (proj2 (cell_membership_at_coarser_order k (ancestor mx k p) mr mx x ltac:(lia) ltac:(lia) Hx)). exact Hin.
Qed.

End Reader.
