(* CacheProofs.v — the memoised count is never stale after any mutating or map-producing operation of
   the model (C02, last sentence): every one of them leaves the memo empty, so the next query recounts.
   (The one exception in the implementation — a write of the sentinel through a primary-field view — is
   known finding F22 and is modelled as such in the interpreter's op 27.) *)
From HS Require Import Prelude Cov Map Spec Ops Spec2 Params AtFold MapProofs UpdateProofs HistoryProofs
     LayoutProofs AccountProofs.

Section Cache.
Variable P : params.
Notation V := (p_V P).
Notation valid := (p_valid P).
Notation dv := (p_dv P).
Notation cache_ok := (cache_ok P).

Lemma none_ok (m : smap V) : cache m = None -> cache_ok m.
Proof. intros H. left. exact H. Qed.

Theorem scalar_operator_cache_ok g (m : smap V) : cache_ok (map_valid V valid g m).
Proof. apply none_ok. reflexivity. Qed.

Theorem invert_cache_ok g (m : smap V) : cache_ok (tail_map V g m).
Proof. apply none_ok. reflexivity. Qed.

Theorem apply_mask_cache_ok bad (m m' : smap V) :
  apply_mask V valid dv bad m = Some m' -> cache_ok m'.
Proof.
  unfold apply_mask. destruct (valid_pixels V valid dv m); [|discriminate].
  intros E. injection E as <-. apply none_ok. reflexivity.
Qed.

Theorem range_update_cache_ok (m : smap V) o rows value na :
  cache_ok (update_ranges V dv (p_vadd P) (p_vor P) (p_vand P) (p_vzero P) (p_is_sent P) (p_sent_nonzero P)
                          m o rows value na).
Proof. apply none_ok. reflexivity. Qed.

Theorem boolean_in_place_cache_ok f (a b : smap V) : cache_ok (bool_map_op_inplace V dv f a b).
Proof. apply none_ok. reflexivity. Qed.

Theorem boolean_copy_cache_ok vfalse f (a b : smap V) : cache_ok (bool_map_op_copy V vfalse f a b).
Proof. apply none_ok. reflexivity. Qed.

Theorem upgrade_cache_ok r (m : smap V) : cache_ok (upgrade V r m).
Proof. apply none_ok. reflexivity. Qed.

Theorem copy_cache_ok (m : smap V) : cache_ok (copy_map V m).
Proof. apply none_ok. reflexivity. Qed.

(* hence: after any of them the count query returns the true count of the new state *)
Theorem query_after_any_operation (m' : smap V) :
  cache_ok m' -> snd (n_valid V valid m') = count_valid V valid m'.
Proof. intros H. exact (proj1 (n_valid_sound P m' H)). Qed.

End Cache.
