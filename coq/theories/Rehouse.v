(* Rehouse.v — degrading below the coverage resolution (C07).
   HealSparseMap.degrade(nside_out) with nside_out < nside_coverage first re-houses the map: it builds an
   empty map with coverage resolution nside_out (same sparse resolution, same sentinel) and assigns the valid
   pixels' values, then runs the ordinary degrade on that map.  Theorem: the re-housed map is well formed, has
   the same number of pixels and the same sentinel, and at every pixel holds the original value where that is
   valid and the sentinel elsewhere — it IS "an equal map built with the coarser coverage resolution" — for any
   new coverage resolution dividing the sky the same way, any block order of the source.  The ordinary
   degrade theorems (RebuildProofs / CongRefine) then apply to it unchanged. *)
From HS Require Import Prelude Cov Map Spec Ops Spec2 Params AtFold MapProofs UpdateProofs HistoryProofs
     LayoutProofs AccountProofs MultiRefine.

Section Rehouse.
Variable P : params.
Notation V := (p_V P).
Notation valid := (p_valid P).
Notation dv := (p_dv P).
Notation wf := (wf P).
Notation read := (read V dv).
Notation upd := (update V dv (p_vadd P) (p_vor P) (p_vand P) (p_vzero P) (p_is_sent P) (p_sent_nonzero P)).

Definition valid_pvs (m : smap V) : list (Z * V) :=
  match valid_pixels V valid dv m with
  | Some vp => map (fun p => (p, read m p)) vp
  | None => []
  end.

Definition rehouse (n' nf' : Z) (m : smap V) : smap V :=
  upd (make_empty V n' nf' (blank m) None) URepl (valid_pvs m) false.

Theorem rehouse_spec (n' nf' : Z) (m : smap V) :
  wf m -> 0 <= n' -> 0 < nf' -> n' * nf' = npix V m ->
  let m' := rehouse n' nf' m in
  wf m' /\ npix V m' = npix V m /\ nfine m' = nf' /\ blank m' = blank m /\
  (forall q, 0 <= q < npix V m ->
     read m' q = if valid (read m q) then read m q else blank m) /\
  (forall q, 0 <= q < npix V m -> valid (read m' q) = valid (read m q)).
Proof.
  intros W Hn Hnf EN. cbv zeta. unfold rehouse.
  pose proof (wf_blank P m W) as Hbl.
  set (e := make_empty V n' nf' (blank m) None).
  assert (We : wf e) by (apply (make_empty_wf P); try assumption; exact I).
  assert (Ne : npix V e = npix V m) by (unfold e; rewrite (npix_make_empty P) by exact Hn; exact EN).
  assert (Re : forall q, 0 <= q < npix V m -> read e q = blank m).
  { intros q Hq. apply (make_empty_read P); try assumption; try exact I. lia. }
  destruct (valid_pixels_spec P m W) as [Evp [ND Hin]].
  match type of Evp with _ = Some ?l => set (vp := l) in * end.
  assert (Epvs : valid_pvs m = map (fun p => (p, read m p)) vp) by (unfold valid_pvs; rewrite Evp; reflexivity).
  assert (Hok : pvs_ok P e (valid_pvs m)).
  { rewrite Epvs. intros pv Hpv. apply in_map_iff in Hpv. destruct Hpv as [p [<- Hp]]. cbn [fst].
    rewrite Ne. apply Hin. exact Hp. }
  assert (Hread : forall q, 0 <= q < npix V m ->
            read (upd e URepl (valid_pvs m) false) q = if valid (read m q) then read m q else blank m).
  { intros q Hq. rewrite (update_read P e URepl _ false q We Hok) by (rewrite Ne; exact Hq).
    rewrite Epvs.
    destruct (vals_at_inj (fun p => p) (fun p => read m p) vp q ND (fun p _ E => E)) as [V1 V2].
    destruct (valid (read m q)) eqn:Ev.
    - assert (Hs : In q vp) by (apply Hin; split; assumption).
      rewrite (V1 Hs). reflexivity.
    - assert (Hs : ~ In q vp) by (intros Hs; apply Hin in Hs; destruct Hs as [_ Hs]; congruence).
      rewrite (V2 Hs). rewrite (pt_nil P). apply Re. exact Hq. }
  split; [apply (update_wf P); assumption|].
  split; [rewrite (npix_update P); exact Ne|].
  split; [rewrite (nfine_update P); reflexivity|].
  split; [rewrite (blank_update P); reflexivity|].
  split; [exact Hread|].
  intros q Hq. rewrite (Hread q Hq). destruct (valid (read m q)) eqn:Ev; [exact Ev|exact Hbl].
Qed.

(* two equal maps (same dense abstraction) re-house to equal maps *)
Corollary rehouse_congruence (n' nf' : Z) (m1 m2 : smap V) :
  wf m1 -> wf m2 -> 0 <= n' -> 0 < nf' -> n' * nf' = npix V m1 ->
  abs V dv m1 = abs V dv m2 ->
  forall q, 0 <= q < npix V m1 -> read (rehouse n' nf' m1) q = read (rehouse n' nf' m2) q.
Proof.
  intros W1 W2 Hn Hnf EN E q Hq.
  assert (Enp : npix V m1 = npix V m2).
  { apply (f_equal (@dense V)) in E. apply (f_equal zlen) in E. unfold Spec.abs in E. cbn [dense] in E.
    rewrite !zlen_map, !zlen_zrange in E. pose proof (npix_nonneg P m1 W1). pose proof (npix_nonneg P m2 W2). lia. }
  assert (Er : read m1 q = read m2 q).
  { apply (f_equal (@dense V)) in E. apply (f_equal (fun l => znth dv l q)) in E. unfold Spec.abs in E. cbn [dense] in E.
    rewrite !(znth_map _ 0) in E by (rewrite zlen_zrange; lia). rewrite !znth_zrange in E by lia.
    rewrite !Z.add_0_l in E. exact E. }
  assert (Eb : blank m1 = blank m2) by (apply (f_equal (@d_blank V)) in E; exact E).
  destruct (rehouse_spec n' nf' m1 W1 Hn Hnf EN) as [_ [_ [_ [_ [R1 _]]]]].
  destruct (rehouse_spec n' nf' m2 W2 Hn Hnf ltac:(lia)) as [_ [_ [_ [_ [R2 _]]]]].
  rewrite (R1 q Hq), (R2 q ltac:(lia)), Er, Eb. reflexivity.
Qed.

End Rehouse.
