(* WideRow.v — the byte row of a wide-mask cell (model only; proofs in WideBytes.v):
   the little-endian integer of a row, the row utils._bitvals_to_packed_array builds from a bit list
   (np.packbits, bitorder little, of the boolean array with exactly the listed positions True), and NumPy's
   bytewise combination of two rows. *)
From HS Require Import Prelude Packed.

Definition le_int (l : list Z) : Z := fold_right (fun b acc => b + 256 * acc) 0 l.

(* np.packbits(arr, bitorder="little") with arr[k] = (k in bits), arr of 8*width entries *)
Definition bitvals_to_packed (bits : list Z) (width : Z) : list Z :=
  map (fun j => pack8 (map (fun i => existsb (Z.eqb (8 * j + i)) bits) bits8)) (zrange 0 width).

Fixpoint zip_with (f : Z -> Z -> Z) (a b : list Z) : list Z :=
  match a, b with
  | x :: s, y :: t => f x y :: zip_with f s t
  | _, _ => []
  end.

