(* AtFold.v — pointwise characterisation of the sequential update folds of Map.v.
   For every index j in range, the cell after [do_op o l ivs] depends only on the cell before
   and on the subsequence of values addressed to j:  pt o (l[j]) (vals_at j ivs). *)
From HS Require Import Prelude Cov Map Params.

Section ValsAt.
Variable V : Type.

(* the values addressed to index j, in order *)
Fixpoint vals_at (j : Z) (ivs : list (Z * V)) : list V :=
  match ivs with
  | [] => []
  | (i, v) :: r => if i =? j then v :: vals_at j r else vals_at j r
  end.

(* re-indexing through a map g that is injective towards j *)
Lemma vals_at_map (g : Z -> Z) (pvs : list (Z * V)) q :
  (forall pv, In pv pvs -> g (fst pv) = g q -> fst pv = q) ->
  vals_at (g q) (map (fun pv => (g (fst pv), snd pv)) pvs) = vals_at q pvs.
Proof.
  induction pvs as [|[p v] r IH]; intros H; cbn [map vals_at fst snd]; [reflexivity|].
  destruct (p =? q) eqn:E.
  - assert (p = q) by lia; subst p. rewrite Z.eqb_refl. f_equal. apply IH.
    intros pv Hin. apply H. right; exact Hin.
  - destruct (g p =? g q) eqn:E2.
    + exfalso. assert (p = q); [|lia]. apply (H (p, v)); [left; reflexivity|cbn; lia].
    + apply IH. intros pv Hin. apply H. right; exact Hin.
Qed.

Lemma vals_at_none j (ivs : list (Z * V)) :
  (forall iv, In iv ivs -> fst iv <> j) -> vals_at j ivs = [].
Proof.
  induction ivs as [|[i v] r IH]; intros H; cbn [vals_at]; [reflexivity|].
  destruct (i =? j) eqn:E.
  - exfalso. apply (H (i, v)); [left; reflexivity|cbn; lia].
  - apply IH. intros iv Hin. apply H. right; exact Hin.
Qed.

Lemma vals_at_filter (f : Z * V -> bool) q (pvs : list (Z * V)) :
  (forall pv, In pv pvs -> fst pv = q -> f pv = true) ->
  vals_at q (filter f pvs) = vals_at q pvs.
Proof.
  induction pvs as [|[p v] r IH]; intros H; cbn [filter vals_at]; [reflexivity|].
  destruct (f (p, v)) eqn:Ef; cbn [vals_at].
  - destruct (p =? q); [f_equal|]; apply IH; intros pv Hin; apply H; right; exact Hin.
  - destruct (p =? q) eqn:E.
    + exfalso. rewrite (H (p, v)) in Ef; [discriminate|left; reflexivity|cbn; lia].
    + apply IH; intros pv Hin; apply H; right; exact Hin.
Qed.

Lemma vals_at_filter_none (f : Z * V -> bool) q (pvs : list (Z * V)) :
  (forall pv, In pv pvs -> fst pv = q -> f pv = false) ->
  vals_at q (filter f pvs) = [].
Proof.
  intros H. apply vals_at_none. intros iv Hin Heq.
  apply filter_In in Hin. destruct Hin as [Hin Hf].
  rewrite (H iv Hin Heq) in Hf. discriminate.
Qed.

End ValsAt.

Section AtFold.
Variable P : params.
Notation V := (p_V P).
Notation valid := (p_valid P).
Notation dv := (p_dv P).
Notation vadd := (p_vadd P).
Notation vor := (p_vor P).
Notation vand := (p_vand P).
Notation vzero := (p_vzero P).
Notation is_sent := (p_is_sent P).
Notation sent_nonzero := (p_sent_nonzero P).
Notation zero_not_sent := (p_zns P).

Notation at_fold := (at_fold V dv).
Notation zero_sent := (zero_sent V dv vzero is_sent).
Notation do_op := (do_op V dv vadd vor vand vzero is_sent sent_nonzero).
Notation opfun := (opfun V vadd vor vand).
Notation vals_at := (vals_at V).

Lemma zlen_at_fold f l ivs : zlen (at_fold f l ivs) = zlen l.
Proof.
  revert l; induction ivs as [|[i v] r IH]; intros l; cbn [Map.at_fold]; [reflexivity|].
  rewrite IH, zlen_zupd; reflexivity.
Qed.

Lemma at_fold_pointwise f l ivs j :
  0 <= j < zlen l ->
  znth dv (at_fold f l ivs) j = fold_left f (vals_at j ivs) (znth dv l j).
Proof.
  revert l; induction ivs as [|[i v] r IH]; intros l Hj; cbn [Map.at_fold vals_at]; [reflexivity|].
  rewrite IH by (rewrite zlen_zupd; exact Hj).
  destruct (i =? j) eqn:E.
  - assert (i = j) by lia; subst i.
    rewrite znth_zupd_same by exact Hj. cbn [fold_left]. reflexivity.
  - rewrite znth_zupd_other by lia. reflexivity.
Qed.

Lemma zlen_zero_sent l is : zlen (zero_sent l is) = zlen l.
Proof.
  revert l; induction is as [|i r IH]; intros l; cbn [Map.zero_sent]; [reflexivity|].
  rewrite IH. destruct (is_sent (znth dv l i)); [apply zlen_zupd|reflexivity].
Qed.

Lemma zlen_do_op o l ivs : zlen (do_op o l ivs) = zlen l.
Proof.
  unfold Map.do_op. rewrite zlen_at_fold.
  destruct o; try reflexivity. destruct sent_nonzero; [apply zlen_zero_sent|reflexivity].
Qed.


Lemma zero_sent_pointwise l is j :
  sent_nonzero = true ->
  0 <= j < zlen l ->
  znth dv (zero_sent l is) j =
  if existsb (Z.eqb j) is && is_sent (znth dv l j) then vzero else znth dv l j.
Proof.
  intros Hnz. revert l; induction is as [|i r IH]; intros l Hj; cbn [Map.zero_sent existsb].
  - reflexivity.
  - destruct (is_sent (znth dv l i)) eqn:Es.
    + rewrite IH by (rewrite zlen_zupd; exact Hj).
      destruct (j =? i) eqn:E.
      * assert (j = i) by lia; subst i.
        rewrite znth_zupd_same by exact Hj.
        rewrite (zero_not_sent Hnz), Es. rewrite andb_false_r. cbn [orb andb]. reflexivity.
      * rewrite znth_zupd_other by lia. cbn [orb]. reflexivity.
    + rewrite IH by exact Hj.
      destruct (j =? i) eqn:E; [|reflexivity].
      assert (j = i) by lia; subst i. rewrite Es. rewrite !andb_false_r. reflexivity.
Qed.

(* the pointwise semantics of one update call on one cell *)
Definition pt (o : uop) (v0 : V) (vs : list V) : V :=
  let v1 := match o with
            | UAdd => if sent_nonzero && negb (match vs with [] => true | _ => false end) && is_sent v0
                      then vzero else v0
            | _ => v0
            end in
  fold_left (opfun o) vs v1.

Lemma pt_nil o v0 : pt o v0 [] = v0.
Proof. unfold pt; destruct o; cbn; try reflexivity. rewrite andb_false_r. reflexivity. Qed.

Lemma existsb_vals_at j ivs :
  existsb (Z.eqb j) (map fst ivs) = negb (match vals_at j ivs with [] => true | _ => false end).
Proof.
  induction ivs as [|[i v] r IH]; cbn [map fst existsb vals_at]; [reflexivity|].
  rewrite (Z.eqb_sym j i). destruct (i =? j); [reflexivity|]. cbn [orb]. exact IH.
Qed.

Lemma do_op_pointwise o l ivs j :
  0 <= j < zlen l ->
  znth dv (do_op o l ivs) j = pt o (znth dv l j) (vals_at j ivs).
Proof.
  intros Hj. unfold Map.do_op, pt.
  destruct o; try (rewrite at_fold_pointwise by exact Hj; reflexivity).
  destruct (Bool.bool_dec sent_nonzero true) as [Hnz|Hnz].
  - rewrite Hnz.
    rewrite at_fold_pointwise by (rewrite zlen_zero_sent; exact Hj).
    rewrite zero_sent_pointwise by (try exact Hj; exact Hnz).
    rewrite existsb_vals_at. cbn [andb]. reflexivity.
  - apply Bool.not_true_is_false in Hnz. rewrite Hnz.
    rewrite at_fold_pointwise by exact Hj. cbn [andb]. reflexivity.
Qed.

End AtFold.
