(* ExecProofs.v — the executable instance (cells = list Q) is an instance of the generic
   parameters, so every generic theorem applies to the functions the runner executes. *)
From Coq Require Import QArith.
From HS Require Import Prelude Cov Map Spec Params AtFold MapProofs UpdateProofs HistoryProofs Exec.
Open Scope Z_scope.

Lemma qeqb_sym a b : qeqb a b = qeqb b a.
Proof. unfold qeqb. rewrite Z.eqb_sym, Pos.eqb_sym. reflexivity. Qed.

Lemma x_zns k : k_sent_nonzero k = true -> k_is_sent k (k_zero k) = false.
Proof.
  unfold k_sent_nonzero, k_is_sent, k_zero. intros H. apply negb_true_iff in H.
  destruct (Z.to_nat (k_nf k)) as [|[|n]]; cbn [repeat veqb]; [reflexivity| |].
  - rewrite qeqb_sym, H. reflexivity.
  - rewrite andb_false_r. reflexivity.
Qed.

Definition xparams (k : kinfo) : params :=
  mkparams cellv (k_valid k) dcell v_add v_or v_and (k_zero k) (k_is_sent k) (k_sent_nonzero k) (x_zns k).

(* the functions the runner calls are the generic ones at [xparams k] (definitional) *)
Lemma x_update_is k m o pvs na :
  x_update k m o pvs na =
  update (p_V (xparams k)) (p_dv (xparams k)) (p_vadd (xparams k)) (p_vor (xparams k)) (p_vand (xparams k))
         (p_vzero (xparams k)) (p_is_sent (xparams k)) (p_sent_nonzero (xparams k)) m o pvs na.
Proof. reflexivity. Qed.

Lemma x_dupdate_is k d o pvs na :
  x_dupdate k d o pvs na =
  d_update (p_V (xparams k)) (p_dv (xparams k)) (p_vadd (xparams k)) (p_vor (xparams k)) (p_vand (xparams k))
           (p_vzero (xparams k)) (p_is_sent (xparams k)) (p_sent_nonzero (xparams k)) d o pvs na.
Proof. reflexivity. Qed.

(* executable instance of the refinement: what the runner prints as "L1 values" equals what it
   prints as "L0 dense" after any update of a well-formed state *)
Theorem x_update_refines k m o pvs na :
  wf (xparams k) m -> pvs_ok (xparams k) m pvs ->
  Spec.abs cellv dcell (x_update k m o pvs na) = x_dupdate k (Spec.abs cellv dcell m) o pvs na.
Proof. intros W H. rewrite x_update_is, x_dupdate_is. apply (update_refines (xparams k)); assumption. Qed.

Theorem x_update_wf k m o pvs na :
  wf (xparams k) m -> pvs_ok (xparams k) m pvs -> wf (xparams k) (x_update k m o pvs na).
Proof. intros W H. rewrite x_update_is. apply (update_wf (xparams k)); assumption. Qed.
