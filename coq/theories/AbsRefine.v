(* AbsRefine.v — abstraction-level forms of the pointwise refinement theorems: the dense
   abstraction of the result of the boolean map-with-map operators (in place and copying) IS the
   dense specification d_bool_op of the abstractions of the operands (C11). *)
From HS Require Import Prelude Cov Map Spec Ops Spec2 Params AtFold MapProofs UpdateProofs HistoryProofs
     LayoutProofs AccountProofs OpsProofs BoolRefine MultiRefine.

Section AbsRefine.
Variable P : params.
Notation V := (p_V P).
Notation dv := (p_dv P).
Notation wf := (wf P).
Notation read := (read V dv).
Notation abs := (abs V dv).

Lemma d_read_abs' (m : smap V) p : 0 <= p < npix V m -> d_read V dv (abs m) p = read m p.
Proof.
  intros Hp. unfold Spec.d_read, Spec.abs. cbn [dense].
  rewrite (znth_map _ 0) by (rewrite zlen_zrange; lia). rewrite znth_zrange by lia. f_equal; lia.
Qed.

Lemma d_npix_abs (m : smap V) : wf m -> d_npix V (abs m) = npix V m.
Proof.
  intros W. pose proof (npix_nonneg P m W). unfold Spec.d_npix, Spec.abs. cbn [dense].
  rewrite zlen_map, zlen_zrange. lia.
Qed.

Lemma d_ncov_abs (m : smap V) : d_ncov V (abs m) = ncov V m.
Proof. unfold Spec.d_ncov, Spec.abs. cbn [dcov]. apply (zlen_coverage_mask P). Qed.

(* a map whose resolution, blank value, coverage and pixel values agree with the specification's
   formulas has that specification as its abstraction *)
Lemma abs_bool_intro (f : V -> V -> V) (a b m' : smap V) :
  wf a -> wf b -> nfine b = nfine a -> ncov V b = ncov V a ->
  nfine m' = nfine a -> ncov V m' = ncov V a -> blank m' = blank a ->
  (forall p, 0 <= p < npix V a ->
     read m' p = if covered V b (p / nfine a) then f (read a p) (read b p) else read a p) ->
  (forall c, 0 <= c < ncov V a -> covered V m' c = covered V a c || covered V b c) ->
  abs m' = d_bool_op V dv f (abs a) (abs b).
Proof.
  intros Wa Wb Enf Enc En' Ec' Eb' Hread Hcov.
  pose proof (wf_nf P a Wa) as Hnf. pose proof (npix_nonneg P a Wa) as Hnp.
  unfold d_bool_op.
  change (abs m') with (mkd (nfine m') (map (read m') (zrange 0 (npix V m')))
                            (coverage_mask (nfine m') (idx m')) (blank m')).
  f_equal.
  - exact En'.
  - rewrite d_npix_abs by exact Wa.
    unfold Map.npix at 1. rewrite En', Ec'. fold (npix V a).
    apply map_ext_in. intros p Hp. apply In_zrange in Hp.
    rewrite Hread by exact Hp.
    assert (Hpb : 0 <= p < npix V b) by (unfold Map.npix in *; rewrite Enf, Enc; exact Hp).
    rewrite (d_read_abs' a p Hp), (d_read_abs' b p Hpb).
    assert (Ecv : d_cov V (abs b) p = covered V b (p / nfine a)).
    { unfold d_cov, Spec.abs. cbn [dcov d_nfine]. rewrite <- Enf.
      apply (znth_coverage_mask P). rewrite Enc, Enf. unfold Map.npix in Hp.
      split; [apply Z.div_pos; lia|apply Z.div_lt_upper_bound; lia]. }
    rewrite Ecv. reflexivity.
  - rewrite d_ncov_abs.
    unfold coverage_mask. change (zlen (idx m')) with (ncov V m'). rewrite Ec'.
    apply map_ext_in. intros c Hc. apply In_zrange in Hc.
    change (cov_covered (nfine m') (idx m') c) with (covered V m' c).
    rewrite Hcov by exact Hc. unfold Spec.abs. cbn [dcov].
    rewrite !(znth_coverage_mask P) by (rewrite ?Enc; exact Hc). reflexivity.
  - exact Eb'.
Qed.

Theorem bool_inplace_refines (f : V -> V -> V) (a b : smap V) :
  wf a -> wf b -> nfine b = nfine a -> ncov V b = ncov V a ->
  wf (bool_map_op_inplace V dv f a b) /\
  abs (bool_map_op_inplace V dv f a b) = d_bool_op V dv f (abs a) (abs b).
Proof.
  intros Wa Wb Enf Enc. split; [apply inplace_wf; assumption|].
  apply abs_bool_intro; try assumption; try reflexivity.
  - unfold bool_map_op_inplace, Map.ncov. cbn [idx]. apply (a1_ncov P a b).
  - intros p Hp. apply inplace_read; assumption.
  - intros c Hc. apply inplace_covered; assumption.
Qed.

Theorem bool_copy_refines (f : V -> V -> V) (a b : smap V) (vfalse : V) :
  wf a -> wf b -> nfine b = nfine a -> ncov V b = ncov V a -> vfalse = blank a ->
  wf (bool_map_op_copy V vfalse f a b) /\
  abs (bool_map_op_copy V vfalse f a b) = d_bool_op V dv f (abs a) (abs b).
Proof.
  intros Wa Wb Enf Enc Hvf. split; [apply copy_wf; assumption|].
  apply abs_bool_intro; try assumption; try reflexivity.
  - unfold bool_map_op_copy, Map.ncov. cbn [idx]. unfold append_pixels. rewrite zlen_append_from. reflexivity.
  - intros p Hp. apply copy_read; assumption.
  - intros c Hc. apply copy_covered; assumption.
Qed.

(* so the in-place and the copying form have the same abstraction *)
Corollary bool_inplace_abs_eq_copy (f : V -> V -> V) (a b : smap V) (vfalse : V) :
  wf a -> wf b -> nfine b = nfine a -> ncov V b = ncov V a -> vfalse = blank a ->
  abs (bool_map_op_inplace V dv f a b) = abs (bool_map_op_copy V vfalse f a b).
Proof.
  intros Wa Wb Enf Enc Hvf.
  rewrite (proj2 (bool_inplace_refines f a b Wa Wb Enf Enc)).
  rewrite (proj2 (bool_copy_refines f a b vfalse Wa Wb Enf Enc Hvf)). reflexivity.
Qed.

End AbsRefine.
