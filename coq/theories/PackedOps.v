(* PackedOps.v — byte-level model of the bulk operations of healsparse/packedBoolArray.py
   (__setitem__ with a slice, &= |= ^= with a boolean or an aligned packed operand, invert): the view
   is split into first byte / middle bytes / last byte (Packed.extract_fml); the edge bytes are
   unpacked, modified on their bit range and packed again, the middle bytes are operated on whole.
   Theorem: for every well-formed view (every alignment) the operation changes exactly the bits of
   the view, each to the boolean operation of its old value and the operand's bit, and leaves every
   other bit of the buffer — the padding and the neighbours' bits in shared bytes — unchanged (C05). *)
From HS Require Import Prelude Packed PackedProofs.

(* ---- bytes ---- *)
Lemma testbit_pack8 (l : list bool) : forall k, 0 <= k -> Z.testbit (pack8 l) k = znth false l k.
Proof.
  induction l as [|x t IH]; intros k Hk; cbn [pack8 fold_right znth].
  - apply Z.testbit_0_l.
  - fold (pack8 t). destruct (k =? 0) eqn:E.
    + assert (k = 0) by lia. subst k. rewrite Z.add_comm. apply Z.testbit_0_r.
    + replace k with (Z.succ (k - 1)) at 1 by lia. rewrite Z.add_comm.
      rewrite Z.testbit_succ_r by lia. apply IH. lia.
Qed.

Lemma pack8_bound (l : list bool) : 0 <= pack8 l < 2 ^ zlen l.
Proof.
  induction l as [|x t IH]; cbn [pack8 fold_right]; [rewrite zlen_nil; cbn; lia|].
  fold (pack8 t). rewrite zlen_cons. rewrite Z.pow_add_r by (try lia; apply zlen_nonneg).
  change (2 ^ 1) with 2. destruct x; cbn [Z.b2z]; lia.
Qed.

Lemma in_bits8 k : 0 <= k < 8 -> k = 0 \/ k = 1 \/ k = 2 \/ k = 3 \/ k = 4 \/ k = 5 \/ k = 6 \/ k = 7.
Proof. lia. Qed.

Lemma edge_byte_spec o lo hi b ob k :
  0 <= k < 8 ->
  Z.testbit (edge_byte o lo hi b ob) k =
  if (lo <=? k) && (k <? hi) then bfun o (Z.testbit b k) (Z.testbit ob k) else Z.testbit b k.
Proof.
  intros Hk. unfold edge_byte. rewrite testbit_pack8 by lia.
  destruct (in_bits8 k Hk) as [->|[->|[->|[->|[->|[->|[->| ->]]]]]]]; reflexivity.
Qed.

Lemma edge_byte_range o lo hi b ob : 0 <= edge_byte o lo hi b ob < 256.
Proof. unfold edge_byte. apply (pack8_bound (map _ bits8)). Qed.

Definition byte_closed : bool :=
  forallb (fun b => forallb (fun ob =>
    let inr x := (0 <=? x) && (x <? 256) in
    inr (Z.land b ob) && inr (Z.lor b ob) && inr (Z.lxor b ob) && inr (255 - b)) (zrange 0 256)) (zrange 0 256).

Lemma byte_closed_true : byte_closed = true.
Proof. vm_compute. reflexivity. Qed.

Lemma mid_byte_range o b ob : 0 <= b < 256 -> 0 <= ob < 256 -> 0 <= mid_byte o b ob < 256.
Proof.
  intros Hb Ho. pose proof byte_closed_true as H. unfold byte_closed in H.
  rewrite forallb_forall in H. specialize (H b (proj2 (In_zrange 0 256 b) Hb)).
  rewrite forallb_forall in H. specialize (H ob (proj2 (In_zrange 0 256 ob) Ho)).
  cbv zeta in H. destruct o; cbn [mid_byte]; lia.
Qed.

Definition inv_bits : bool :=
  forallb (fun b => forallb (fun k => Bool.eqb (Z.testbit (255 - b) k) (negb (Z.testbit b k))) bits8) (zrange 0 256).

Lemma inv_bits_true : inv_bits = true.
Proof. vm_compute. reflexivity. Qed.

Lemma mid_byte_spec o b ob k :
  0 <= b < 256 -> 0 <= k < 8 ->
  Z.testbit (mid_byte o b ob) k = bfun o (Z.testbit b k) (Z.testbit ob k).
Proof.
  intros Hb Hk. destruct o; cbn [mid_byte bfun].
  - reflexivity.
  - apply Z.land_spec.
  - apply Z.lor_spec.
  - apply Z.lxor_spec.
  - pose proof inv_bits_true as H. unfold inv_bits in H.
    rewrite forallb_forall in H. specialize (H b (proj2 (In_zrange 0 256 b) Hb)).
    rewrite forallb_forall in H.
    assert (Hin : In k bits8).
    { destruct (in_bits8 k Hk) as [->|[->|[->|[->|[->|[->|[->| ->]]]]]]]; cbn; tauto. }
    specialize (H k Hin). apply Bool.eqb_prop in H. exact H.
Qed.

(* ---- the fold over the middle bytes ---- *)
Lemma fold_mid (F : Z -> Z -> Z) (n : nat) : forall lo (t : list Z) j,
  0 <= lo -> lo + Z.of_nat n <= zlen t -> 0 <= j < zlen t ->
  zlen (fold_left (fun t j => zupd t j (F j (znth 0 t j))) (zrange_nat lo n) t) = zlen t /\
  znth 0 (fold_left (fun t j => zupd t j (F j (znth 0 t j))) (zrange_nat lo n) t) j =
  if (lo <=? j) && (j <? lo + Z.of_nat n) then F j (znth 0 t j) else znth 0 t j.
Proof.
  induction n as [|n IH]; intros lo t j Hlo Hhi Hj; cbn [zrange_nat fold_left].
  - split; [reflexivity|]. destruct ((lo <=? j) && (j <? lo + Z.of_nat 0)) eqn:E; [lia|reflexivity].
  - destruct (IH (lo + 1) (zupd t lo (F lo (znth 0 t lo))) j) as [L R];
      rewrite ?zlen_zupd; try lia.
    split; [rewrite L, zlen_zupd; reflexivity|].
    rewrite R. destruct (j =? lo) eqn:E.
    + assert (j = lo) by lia. subst j. rewrite znth_zupd_same by lia.
      destruct ((lo + 1 <=? lo) && (lo <? lo + 1 + Z.of_nat n)) eqn:E1; [lia|].
      destruct ((lo <=? lo) && (lo <? lo + Z.of_nat (S n))) eqn:E2; [reflexivity|lia].
    + rewrite znth_zupd_other by lia.
      destruct ((lo + 1 <=? j) && (j <? lo + 1 + Z.of_nat n)) eqn:E1;
        destruct ((lo <=? j) && (j <? lo + Z.of_nat (S n))) eqn:E2; try lia; reflexivity.
Qed.

Lemma extract_fml_mlo v : 0 <= m_lo (extract_fml v) <= 1.
Proof.
  unfold extract_fml.
  destruct ((vsi v =? 0) && (vst v =? vndata v * 8)); [cbn; lia|].
  destruct (vsi v =? 0).
  - destruct (vst v <? 8); cbn; lia.
  - destruct (vst v =? vndata v * 8); destruct (vndata v =? 1); cbn; lia.
Qed.

Definition bytes_ok (l : list Z) : Prop := forall j, 0 <= j < zlen l -> 0 <= znth 0 l j < 256.

(* ---- the theorem ---- *)
Theorem bulk_op_spec (o : bop) (v : pview) (data : list Z) (ob : Z -> Z) :
  view_ok v -> vds v = 0 -> vde v = zlen data -> 0 < vsize v -> bytes_ok data ->
  (forall j, 0 <= ob j < 256) ->
  let data' := bulk_op o v data ob in
  zlen data' = zlen data /\ bytes_ok data' /\
  forall k, 0 <= k < 8 * zlen data ->
    Z.testbit (znth 0 data' (k / 8)) (k mod 8) =
    if (vsi v <=? k) && (k <? vst v)
    then bfun o (Z.testbit (znth 0 data (k / 8)) (k mod 8)) (Z.testbit (ob (k / 8)) (k mod 8))
    else Z.testbit (znth 0 data (k / 8)) (k mod 8).
Proof.
  intros Hv Hds Hde Hsz Hb Hob.
  pose proof (extract_fml_disjoint v Hv Hsz) as D. cbv zeta in D.
  destruct D as [D1 [D2 [D3 [F0 [F8 [L0 [L8 [M0 M1]]]]]]]].
  assert (End : vndata v = zlen data) by (unfold vndata; lia).
  rewrite End in *.
  set (d := extract_fml v) in *. set (n := zlen data) in *.
  assert (Hn : 1 <= n).
  { destruct Hv as [A [B [C [Z0|E]]]]; unfold vsize, vndata in *; lia. }
  (* stage 1: first byte *)
  set (d1 := if f_lo d <? f_hi d
             then zupd data 0 (edge_byte o (f_lo d) (f_hi d) (znth 0 data 0) (ob 0)) else data).
  assert (L1 : zlen d1 = n) by (unfold d1; destruct (f_lo d <? f_hi d); rewrite ?zlen_zupd; reflexivity).
  assert (R1 : forall j, 0 <= j < n ->
            znth 0 d1 j = if (j =? 0) && (f_lo d <? f_hi d)
                          then edge_byte o (f_lo d) (f_hi d) (znth 0 data 0) (ob 0) else znth 0 data j).
  { intros j Hj. unfold d1. destruct (f_lo d <? f_hi d); [|rewrite andb_false_r; reflexivity].
    rewrite andb_true_r. destruct (j =? 0) eqn:E.
    - assert (j = 0) by lia. subst j. apply znth_zupd_same. fold n. lia.
    - apply znth_zupd_other. lia. }
  (* stage 2: last byte *)
  set (d2 := if l_lo d <? l_hi d
             then zupd d1 (n - 1) (edge_byte o (l_lo d) (l_hi d) (znth 0 data (n - 1)) (ob (n - 1))) else d1).
  assert (L2 : zlen d2 = n) by (unfold d2; destruct (l_lo d <? l_hi d); rewrite ?zlen_zupd; exact L1).
  assert (R2 : forall j, 0 <= j < n ->
            znth 0 d2 j = if (j =? n - 1) && (l_lo d <? l_hi d)
                          then edge_byte o (l_lo d) (l_hi d) (znth 0 data (n - 1)) (ob (n - 1)) else znth 0 d1 j).
  { intros j Hj. unfold d2. destruct (l_lo d <? l_hi d); [|rewrite andb_false_r; reflexivity].
    rewrite andb_true_r. destruct (j =? n - 1) eqn:E.
    - assert (j = n - 1) by lia. subst j. apply znth_zupd_same. lia.
    - apply znth_zupd_other. lia. }
  (* stage 3: middle bytes *)
  assert (Hfold : forall j, 0 <= j < n ->
            zlen (bulk_op o v data ob) = n /\
            znth 0 (bulk_op o v data ob) j =
            if (m_lo d <=? j) && (j <? m_hi d) then mid_byte o (znth 0 d2 j) (ob j) else znth 0 d2 j).
  { intros j Hj. unfold bulk_op. cbv zeta. rewrite End. fold d. fold n. fold d1. fold d2.
    unfold zrange.
    pose proof (extract_fml_mlo v) as Mlo. fold d in Mlo.
    assert (C1 : 0 <= m_lo d) by lia.
    assert (C2 : m_lo d + Z.of_nat (Z.to_nat (m_hi d - m_lo d)) <= zlen d2) by (rewrite L2; lia).
    assert (C3 : 0 <= j < zlen d2) by (rewrite L2; lia).
    destruct (fold_mid (fun j b => mid_byte o b (ob j)) (Z.to_nat (m_hi d - m_lo d)) (m_lo d) d2 j C1 C2 C3) as [A B].
    split; [rewrite A; exact L2|]. rewrite B.
    destruct ((m_lo d <=? j) && (j <? m_lo d + Z.of_nat (Z.to_nat (m_hi d - m_lo d)))) eqn:E1;
      destruct ((m_lo d <=? j) && (j <? m_hi d)) eqn:E2; try lia; reflexivity. }
  assert (Hlen : zlen (bulk_op o v data ob) = n) by (apply (Hfold 0); lia).
  cbv zeta. split; [exact Hlen|].
  (* value of every byte of the result *)
  assert (Hbyte : forall j, 0 <= j < n ->
            znth 0 (bulk_op o v data ob) j =
            if (m_lo d <=? j) && (j <? m_hi d) then mid_byte o (znth 0 data j) (ob j)
            else if (j =? n - 1) && (l_lo d <? l_hi d)
                 then edge_byte o (l_lo d) (l_hi d) (znth 0 data (n - 1)) (ob (n - 1))
                 else if (j =? 0) && (f_lo d <? f_hi d)
                      then edge_byte o (f_lo d) (f_hi d) (znth 0 data 0) (ob 0) else znth 0 data j).
  { intros j Hj. rewrite (proj2 (Hfold j Hj)), (R2 j Hj), (R1 j Hj).
    destruct ((m_lo d <=? j) && (j <? m_hi d)) eqn:Em; [|reflexivity].
    destruct ((j =? n - 1) && (l_lo d <? l_hi d)) eqn:El; [lia|].
    destruct ((j =? 0) && (f_lo d <? f_hi d)) eqn:Ef; [lia|reflexivity]. }
  split.
  - intros j Hj. rewrite Hlen in Hj. rewrite (Hbyte j Hj).
    destruct ((m_lo d <=? j) && (j <? m_hi d)); [apply mid_byte_range; [apply Hb; exact Hj|apply Hob]|].
    destruct ((j =? n - 1) && (l_lo d <? l_hi d)); [apply edge_byte_range|].
    destruct ((j =? 0) && (f_lo d <? f_hi d)); [apply edge_byte_range|apply Hb; exact Hj].
  - intros k Hk.
    assert (Hj : 0 <= k / 8 < n) by lia.
    assert (Hi : 0 <= k mod 8 < 8) by lia.
    pose proof (extract_fml_covers v k Hv Hsz ltac:(rewrite End; exact Hk)) as C.
    rewrite End in C. fold d in C. unfold fml_covers in C. rewrite <- C. clear C.
    rewrite (Hbyte (k / 8) Hj).
    destruct ((m_lo d <=? k / 8) && (k / 8 <? m_hi d)) eqn:Em.
    + rewrite mid_byte_spec by (try exact Hi; apply Hb; exact Hj).
      destruct (((f_lo d <=? k) && (k <? f_hi d)
                 || (8 * m_lo d <=? k) && (k <? 8 * m_hi d)
                 || (8 * (n - 1) + l_lo d <=? k) && (k <? 8 * (n - 1) + l_hi d))) eqn:E; [reflexivity|lia].
    + destruct ((k / 8 =? n - 1) && (l_lo d <? l_hi d)) eqn:El.
      * assert (Ek : k / 8 = n - 1) by lia. rewrite Ek. rewrite edge_byte_spec by exact Hi.
        destruct ((l_lo d <=? k mod 8) && (k mod 8 <? l_hi d)) eqn:E1;
          destruct (((f_lo d <=? k) && (k <? f_hi d)
                     || (8 * m_lo d <=? k) && (k <? 8 * m_hi d)
                     || (8 * (n - 1) + l_lo d <=? k) && (k <? 8 * (n - 1) + l_hi d))) eqn:E2;
          try reflexivity; lia.
      * destruct ((k / 8 =? 0) && (f_lo d <? f_hi d)) eqn:Ef.
        -- assert (Ek : k / 8 = 0) by lia. rewrite Ek. rewrite edge_byte_spec by exact Hi.
           destruct ((f_lo d <=? k mod 8) && (k mod 8 <? f_hi d)) eqn:E1;
             destruct (((f_lo d <=? k) && (k <? f_hi d)
                        || (8 * m_lo d <=? k) && (k <? 8 * m_hi d)
                        || (8 * (n - 1) + l_lo d <=? k) && (k <? 8 * (n - 1) + l_hi d))) eqn:E2;
             try reflexivity; lia.
        -- destruct (((f_lo d <=? k) && (k <? f_hi d)
                      || (8 * m_lo d <=? k) && (k <? 8 * m_hi d)
                      || (8 * (n - 1) + l_lo d <=? k) && (k <? 8 * (n - 1) + l_hi d))) eqn:E2;
             [lia|reflexivity].
Qed.

(* ---- index-array operations: _set_bits_at_locs / _clear_bits_at_locs / _test_bits_at_locs ----
   np.bitwise_or.at(data, locs // 8, 1 << locs % 8) and np.bitwise_and.at(data, locs // 8, ~(1 << locs % 8)),
   sequential over (possibly repeated) locations; locs are already shifted by the start index *)
Definition mask_bits : bool :=
  forallb (fun i => forallb (fun j =>
     Bool.eqb (Z.testbit (255 - 2 ^ i) j) (negb (i =? j)) && Bool.eqb (Z.testbit (2 ^ i) j) (i =? j)) bits8) bits8.
Lemma mask_bits_true : mask_bits = true.
Proof. vm_compute. reflexivity. Qed.

Lemma In_bits8 k : 0 <= k < 8 -> In k bits8.
Proof. intros Hk. destruct (in_bits8 k Hk) as [->|[->|[->|[->|[->|[->|[->| ->]]]]]]]; cbn; tauto. Qed.

Lemma mask_bit i j : 0 <= i < 8 -> 0 <= j < 8 ->
  Z.testbit (255 - 2 ^ i) j = negb (i =? j) /\ Z.testbit (2 ^ i) j = (i =? j).
Proof.
  intros Hi Hj. pose proof mask_bits_true as H. unfold mask_bits in H.
  rewrite forallb_forall in H. specialize (H i (In_bits8 i Hi)).
  rewrite forallb_forall in H. specialize (H j (In_bits8 j Hj)).
  apply andb_prop in H. destruct H as [H1 H2].
  apply Bool.eqb_prop in H1. apply Bool.eqb_prop in H2. split; assumption.
Qed.

Lemma zlen_set_bit_at t p : zlen (set_bit_at t p) = zlen t.
Proof. apply zlen_zupd. Qed.
Lemma zlen_clear_bit_at t p : zlen (clear_bit_at t p) = zlen t.
Proof. apply zlen_zupd. Qed.

Lemma set_bit_at_spec t p k :
  0 <= p < 8 * zlen t -> 0 <= k < 8 * zlen t ->
  bit (set_bit_at t p) k = (k =? p) || bit t k.
Proof.
  intros Hp Hk. unfold bit, set_bit_at.
  destruct (k / 8 =? p / 8) eqn:E.
  - assert (Eq : k / 8 = p / 8) by lia. rewrite Eq. rewrite znth_zupd_same by lia.
    rewrite Z.lor_spec. destruct (mask_bit (p mod 8) (k mod 8) ltac:(lia) ltac:(lia)) as [_ M]. rewrite M.
    rewrite orb_comm. f_equal. destruct (p mod 8 =? k mod 8) eqn:E1; destruct (k =? p) eqn:E2; try reflexivity; lia.
  - rewrite znth_zupd_other by lia. destruct (k =? p) eqn:E2; [lia|reflexivity].
Qed.

Lemma clear_bit_at_spec t p k :
  0 <= p < 8 * zlen t -> 0 <= k < 8 * zlen t ->
  bit (clear_bit_at t p) k = negb (k =? p) && bit t k.
Proof.
  intros Hp Hk. unfold bit, clear_bit_at.
  destruct (k / 8 =? p / 8) eqn:E.
  - assert (Eq : k / 8 = p / 8) by lia. rewrite Eq. rewrite znth_zupd_same by lia.
    rewrite Z.land_spec. destruct (mask_bit (p mod 8) (k mod 8) ltac:(lia) ltac:(lia)) as [M _]. rewrite M.
    rewrite andb_comm. f_equal. destruct (p mod 8 =? k mod 8) eqn:E1; destruct (k =? p) eqn:E2; try reflexivity; lia.
  - rewrite znth_zupd_other by lia. destruct (k =? p) eqn:E2; [lia|reflexivity].
Qed.

Lemma test_bit_at_spec t p : 0 <= p -> test_bit_at t p = bit t p.
Proof.
  intros Hp. unfold test_bit_at, bit.
  set (b := znth 0 t (p / 8)). set (i := p mod 8).
  assert (Hi : 0 <= i < 8) by (unfold i; lia).
  destruct (Z.testbit b i) eqn:Eb.
  - destruct (Z.land b (2 ^ i) =? 0) eqn:E; [|reflexivity].
    exfalso. assert (H : Z.testbit (Z.land b (2 ^ i)) i = false) by (replace (Z.land b (2 ^ i)) with 0 by lia; apply Z.testbit_0_l).
    rewrite Z.land_spec, Eb, Z.pow2_bits_true in H by lia. discriminate.
  - destruct (Z.land b (2 ^ i) =? 0) eqn:E; [reflexivity|].
    exfalso. assert (Hz : Z.land b (2 ^ i) = 0); [|lia].
    apply Z.bits_inj'. intros m Hm. rewrite Z.land_spec, Z.testbit_0_l.
    destruct (Z.eq_dec i m) as [<-|Hne]; [rewrite Eb; reflexivity|].
    rewrite Z.pow2_bits_false by lia. apply andb_false_r.
Qed.

(* every listed location ends set (cleared); every other bit of the buffer keeps its value — for
   any list of locations, repeated ones included *)
Theorem set_bits_spec (locs : list Z) : forall data k,
  (forall p, In p locs -> 0 <= p < 8 * zlen data) -> 0 <= k < 8 * zlen data ->
  zlen (set_bits locs data) = zlen data /\
  bit (set_bits locs data) k = existsb (Z.eqb k) locs || bit data k.
Proof.
  unfold set_bits. induction locs as [|p r IH]; intros data k Hl Hk; cbn [fold_left existsb]; [split; reflexivity|].
  assert (Hp : 0 <= p < 8 * zlen data) by (apply Hl; left; reflexivity).
  destruct (IH (set_bit_at data p) k) as [L R].
  - intros q Hq. rewrite zlen_set_bit_at. apply Hl. right; exact Hq.
  - rewrite zlen_set_bit_at. exact Hk.
  - split; [rewrite L; apply zlen_set_bit_at|].
    rewrite R, set_bit_at_spec by assumption.
    destruct (k =? p); destruct (existsb (Z.eqb k) r); destruct (bit data k); reflexivity.
Qed.

Theorem clear_bits_spec (locs : list Z) : forall data k,
  (forall p, In p locs -> 0 <= p < 8 * zlen data) -> 0 <= k < 8 * zlen data ->
  zlen (clear_bits locs data) = zlen data /\
  bit (clear_bits locs data) k = negb (existsb (Z.eqb k) locs) && bit data k.
Proof.
  unfold clear_bits. induction locs as [|p r IH]; intros data k Hl Hk; cbn [fold_left existsb]; [split; reflexivity|].
  assert (Hp : 0 <= p < 8 * zlen data) by (apply Hl; left; reflexivity).
  destruct (IH (clear_bit_at data p) k) as [L R].
  - intros q Hq. rewrite zlen_clear_bit_at. apply Hl. right; exact Hq.
  - rewrite zlen_clear_bit_at. exact Hk.
  - split; [rewrite L; apply zlen_clear_bit_at|].
    rewrite R, clear_bit_at_spec by assumption.
    destruct (k =? p); destruct (existsb (Z.eqb k) r); destruct (bit data k); reflexivity.
Qed.
