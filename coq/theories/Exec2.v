(* Exec2.v — executable instances of Ops.v / Spec2.v on cells = list Q and the second half of
   the operation interpreter run by the correspondence check. *)
From Coq Require Import QArith Qround.
From HS Require Import Prelude Cov Map Spec Ops Spec2 Exec Packed Moc Sharing CatChk PackedCopy WideRow.
Open Scope Z_scope.

(* ---------- element arithmetic on Q ---------- *)
Definition qsub (a b : Q) : Q := Qred (Qminus a b).
Definition qmul (a b : Q) : Q := Qred (Qmult a b).
Definition qdiv (a b : Q) : Q := Qred (Qdiv a b).
Definition qle (a b : Q) : bool := Qle_bool a b.
Definition qmax (a b : Q) : Q := if qle a b then b else a.
Definition qmin (a b : Q) : Q := if qle a b then a else b.
Definition qfloor (a : Q) : Z := Qfloor a.
Definition qfloordiv (a b : Q) : Q := Qmake (qfloor (Qdiv a b)) 1.
Definition qtrunc (a : Q) : Q := Qmake (Z.quot (Qnum a) (Zpos (Qden a))) 1.
Fixpoint qpow_nat (a : Q) (n : nat) : Q := match n with O => 1%Q | S k => qmul a (qpow_nat a k) end.
Definition qpow (a b : Q) : Q := qpow_nat a (Z.to_nat (Qnum b)).
Definition qpos (a : Q) : bool := 0 <? Qnum a.
Definition qnz (a : Q) : bool := negb (Qnum a =? 0).
Definition qz (z : Z) : Q := Qmake z 1.

(* binary element functions by code *)
Definition qfun (code : Z) : Q -> Q -> Q :=
  if code =? 0 then qadd else if code =? 1 then qsub else if code =? 2 then qmul
  else if code =? 3 then qdiv else if code =? 4 then qpow
  else if code =? 5 then qbit Z.land else if code =? 6 then qbit Z.lor else if code =? 7 then qbit Z.lxor
  else if code =? 8 then qmax else if code =? 9 then qmin else if code =? 10 then qfloordiv
  else if code =? 11 then (fun _ b => b)
  else fun a _ => a.

Definition hd1 (v : cellv) : Q := znth q0 v 0.
Definition lift1 (g : Q -> Q) (v : cellv) : cellv := match v with [x] => [g x] | _ => v end.
Definition lift2 (f : Q -> Q -> Q) (a b : cellv) : cellv := [f (hd1 a) (hd1 b)].

(* astype conversions: 0 exact, 1 truncate toward zero (float -> int), 2 (v != 0) -> bool,
   3 constant True (as_bit_packed_map: the validity of the cell) *)
Definition qconv (mode : Z) (a : Q) : Q :=
  if mode =? 1 then qtrunc a else if mode =? 2 then (if qnz a then 1%Q else 0%Q)
  else if mode =? 3 then 1%Q else a.

Definition kinfo_of (g : list Z) : kinfo := mkk (znth 0 g 0) (mkq (znth 0 g 1) (znth 1 g 2)) (znth 1 g 3).
Definition blank_of (k : kinfo) : cellv := repeat (k_sent k) (Z.to_nat (k_nf k)).

(* ---------- reductions (utils.reduce_array on NaN-masked float arrays) ---------- *)
Fixpoint qinsert (x : Q) (l : list Q) : list Q :=
  match l with [] => [x] | y :: t => if qle x y then x :: l else y :: qinsert x t end.
Definition qsort (l : list Q) : list Q := fold_right qinsert [] l.
Definition qsum (l : list Q) : Q := fold_left qadd l q0.
Definition qprod (l : list Q) : Q := fold_left qmul l 1%Q.
Definition qlen (l : list Q) : Q := qz (zlen l).

(* None = NaN (all children invalid) *)
Definition reduce_q (code : Z) (vs : list Q) (ws : list Q) : option Q :=
  match vs with
  | [] => if code =? 5 then Some q0 else if code =? 6 then Some 1%Q else None
  | v0 :: r =>
    if code =? 0 then Some (qdiv (qsum vs) (qlen vs))
    else if code =? 1 then
      let s := qsort vs in let n := zlen vs in
      if Z.even n then Some (qdiv (qadd (znth q0 s (n / 2 - 1)) (znth q0 s (n / 2))) (qz 2))
      else Some (znth q0 s (n / 2))
    else if code =? 2 then   (* variance; the harness squares the implementation's std *)
      let mu := qdiv (qsum vs) (qlen vs) in
      Some (qdiv (qsum (map (fun v => qmul (qsub v mu) (qsub v mu)) vs)) (qlen vs))
    else if code =? 3 then Some (fold_left qmax r v0)
    else if code =? 4 then Some (fold_left qmin r v0)
    else if code =? 5 then Some (qsum vs)
    else if code =? 6 then Some (qprod vs)
    else if code =? 7 then
      let sw := qsum ws in
      if qnz sw then Some (qdiv (qsum (map2 qmul vs ws)) sw) else None
    else None
  end.

(* one group of cells -> one output cell.  codes 8 (and) and 9 (or) fold ALL children (integer
   maps with sentinel 0 and wide masks); the others reduce, field by field, the cells whose
   primary is valid.  [wts] are the weights aligned with [cells] (sentinel already -> 0). *)
Definition red_cells (k : kinfo) (code : Z) (kout : kinfo) (nb : cellv) (cw : list (cellv * cellv)) : cellv :=
  let cells := map fst cw in
  if (code =? 8) || (code =? 9) then
    match cells with
    | [] => nb
    | c0 :: r => [fold_left (qbit (if code =? 8 then Z.land else Z.lor)) (map hd1 r) (hd1 c0)]
    end
  else
    let vw := filter (fun c => k_valid k (fst c)) cw in
    let ws := map (fun c => hd1 (snd c)) vw in
    map (fun j => match reduce_q code (map (fun c => znth q0 (fst c) j) vw) ws with
                  | Some q => q | None => znth q0 nb j end)
        (zrange 0 (k_nf kout)).

(* the property's reading of the bitwise reductions: over the VALID children only (an invalid
   child holds 0, which is absorbing for 'and': known finding F21 where the code differs) *)
Definition red_cells_spec (k : kinfo) (code : Z) (kout : kinfo) (nb : cellv) (cw : list (cellv * cellv)) : cellv :=
  if code =? 8 then
    match filter (k_valid k) (map fst cw) with
    | [] => nb
    | c0 :: r => [fold_left (qbit Z.land) (map hd1 r) (hd1 c0)]
    end
  else red_cells k code kout nb cw.

(* ---------- instantiated operations ---------- *)
Definition x_read (m : smap cellv) (p : Z) : cellv := read cellv dcell m p.

Definition mask_bad (mode : Z) (bits : Z) (v : cellv) : bool :=
  let q := hd1 v in
  if mode =? 0 then qpos q
  else if mode =? 1 then 0 <? Z.land (Qnum q) bits
  else qnz q.

(* world access *)
Definition wget_all (w : world) (hs : list Z) : option (list hstate) :=
  opt_map (wget w) hs.

Definition ok_res : result := [ok1].
Definition raised : result := [[0; 5]].

Definition x_weights (k : kinfo) (s : list cellv) : list cellv :=
  map (fun v => if k_valid k v then v else [q0]) s.

(* values of a map's valid pixels, in storage order, as an update list *)
Definition valid_pvs (k : kinfo) (m : smap cellv) : list (Z * cellv) :=
  match valid_pixels cellv (k_valid k) dcell m with
  | Some vp => map (fun p => (p, x_read m p)) vp
  | None => []
  end.

Definition d_valid_pvs (k : kinfo) (d : dmap cellv) : list (Z * cellv) :=
  map (fun p => (p, d_read cellv dcell d p)) (d_valid_pixels cellv (k_valid k) dcell d).

Definition rows_of (l : list Z) : list (Z * Z) :=
  map (fun c => (znth 0 c 0, znth 0 c 1)) (chunks 2 l).

Definition step2 (w : world) (op : list (list Z)) : world * result :=
  let code := gz op 0 0 in
  let h := gz op 1 0 in
  if code <? 14 then step w op else
  if code =? 32 then
    (* concatenation: [32];[hout];hs;kout;[ncov_out nfine_out] — at every pixel the value of the one
       input valid there (union with "take the new value"); the L1 state is the dense union re-housed
       on the output coverage resolution *)
    let hout := gz op 1 0 in
    match wget_all w (grp op 2) with
    | None => (w, err 1)
    | Some ss =>
      let kout := kinfo_of (grp op 3) in
      let sent := blank_of kout in
      match ss with
      | [] => (w, err 4)
      | s0 :: _ =>
        let bl := blank (h_m s0) in
        match d_apply_operation cellv dcell (fun _ b => b) (fun v => v) bl bl true false
                                (map (fun s => (k_valid (h_k s), h_d s)) ss) with
        | None => (w, err 4)
        | Some du =>
          let n' := gz op 4 0 in let nf' := gz op 4 1 in
          let m0 := make_empty cellv n' nf' bl None in
          let d0 := d_make_empty cellv n' nf' bl None in
          let overlap := existsb (fun p => 1 <? zlen (d_vals_at cellv dcell (map (fun s => (k_valid (h_k s), h_d s)) ss) p))
                                 (zrange 0 (d_npix cellv du)) in
          (* L1: the routine's own data flow (Ops.cat_mem, proved in CatRefine.v to give the value of the
             last valid input at every pixel); L0: the dense union *)
          let ins := map h_m ss in
          let vk := k_valid kout in
          let cp := cat_cov_pix cellv vk dcell n' nf' ins in
          (wset w hout (mkh kout (cat_mem cellv vk dcell v_add v_or v_and (k_zero kout) (k_is_sent kout)
                                          (k_sent_nonzero kout) n' nf' bl ins cp)
                                 (x_dupdate kout d0 URepl (d_valid_pvs kout du) false)),
           [ok1; [if overlap then 1 else 0]])
        end
      end
    end
  else
  if code =? 36 then
    (* concatenation with overlap checking: [36];[hout];hs;kout;[ncov_out nfine_out];[chk ormode]
       L1: the routine's data flow with the check (CatChk.cat_chk; None = it raises); L0: at every pixel the
       inputs valid there folded in list order — or-ed onto a valid value when checking, taken otherwise — and
       "must raise" iff checking without or and two inputs share a valid pixel.
       result: [1] or [2] (L1 raised); [L0 must raise] *)
    let hout := gz op 1 0 in
    match wget_all w (grp op 2) with
    | None => (w, err 1)
    | Some ss =>
      let kout := kinfo_of (grp op 3) in
      match ss with
      | [] => (w, err 4)
      | s0 :: _ =>
        let bl := blank (h_m s0) in
        let n' := gz op 4 0 in let nf' := gz op 4 1 in
        let chk := gz op 5 0 =? 1 in let orm := gz op 5 1 =? 1 in
        let vk := k_valid kout in
        let ds := map (fun s => (k_valid (h_k s), h_d s)) ss in
        let d0 := d_make_empty cellv n' nf' bl None in
        let vals := d_vals_at cellv dcell ds in
        let pix := filter (fun p => match vals p with [] => false | _ => true end) (zrange 0 (n' * nf')) in
        let must := chk && negb orm && existsb (fun p => 1 <? zlen (vals p)) pix in
        let ostep (acc v : cellv) := if chk && vk acc then v_or v acc else v in
        let dres := x_dupdate kout d0 URepl (map (fun p => (p, fold_left ostep (vals p) bl)) pix) false in
        let ins := map h_m ss in
        let cp := cat_cov_pix cellv vk dcell n' nf' ins in
        match cat_chk cellv vk dcell v_add v_or v_and (k_zero kout) (k_is_sent kout) (k_sent_nonzero kout)
                      chk orm n' nf' bl ins cp with
        | None => (w, [[2]; [Z.b2z must]])
        | Some m' => (wset w hout (mkh kout m' dres), [ok1; [Z.b2z must]])
        end
      end
    end
  else
  if code =? 19 then
    (* multi-map operation: [19];[hout];[fcode union fill_first];hs;[filler n d];kout;[convmode] *)
    let hout := gz op 1 0 in
    let fcode := gz op 2 0 in let union := gz op 2 1 =? 1 in let ff := gz op 2 2 =? 1 in
    match wget_all w (grp op 3) with
    | None => (w, err 1)
    | Some ss =>
      let filler := [mkq (gz op 4 0) (gz op 4 1)] in
      let kout := kinfo_of (grp op 5) in
      let sent := [k_sent kout] in
      let conv := lift1 (qconv (gz op 6 0)) in
      let f := lift2 (qfun fcode) in
      let fis := veqb filler sent in
      match apply_operation cellv dcell f conv filler sent fis union ff
                            (map (fun s => (k_valid (h_k s), h_m s)) ss),
            d_apply_operation cellv dcell f conv filler sent union ff
                              (map (fun s => (k_valid (h_k s), h_d s)) ss) with
      | Some m', Some d' => (wset w hout (mkh kout m' d'), ok_res)
      | _, _ => (w, err 4)
      end
    end
  else
  match wget w h with
  | None => (w, err 1)
  | Some s =>
    let k := h_k s in let m := h_m s in let d := h_d s in
    let hout := gz op 2 0 in
    if code =? 14 then
      let g := lift1 (fun x => qfun (gz op 3 0) x (mkq (gz op 4 0) (gz op 4 1))) in
      (wset w hout (mkh k (map_valid cellv (k_valid k) g m) (d_map_valid cellv (k_valid k) g d)), ok_res)
    else if code =? 15 then
      match wget w (gz op 3 0) with
      | None => (w, err 1)
      | Some sm =>
        let mode := gz op 4 0 in let bits := gz op 5 0 in
        let bad1 p := mask_bad mode bits (x_read (h_m sm) p) in
        (* the property: without mask_bits ANY non-zero mask value selects the pixel; the code tests
           "> 0" (known finding F20 for negative mask values) *)
        let bad0 p := mask_bad (if mode =? 0 then 2 else mode) bits (d_read cellv dcell (h_d sm) p) in
        match apply_mask cellv (k_valid k) dcell bad1 m with
        | Some m' => (wset w hout (mkh k m' (d_apply_mask cellv (k_valid k) dcell bad0 d)), ok_res)
        | None => (w, err 2)
        end
      end
    else if code =? 16 then
      let kn := kinfo_of (grp op 3) in
      let conv := lift1 (qconv (gz op 4 0)) in
      (wset w hout (mkh kn (astype cellv cellv (k_valid k) conv [k_sent kn] m)
                           (d_astype cellv cellv (k_valid k) conv [k_sent kn] d)), ok_res)
    else if code =? 17 then
      let opc := gz op 3 0 in let c := qz (gz op 4 0) in
      let g := lift1 (fun x => if opc =? 0 then (if qnz x then q0 else 1%Q)
                               else qfun (if opc =? 1 then 5 else if opc =? 2 then 6 else 7) x c) in
      (wset w hout (mkh k (tail_map cellv g m) (d_cov_map cellv dcell g d)), ok_res)
    else if code =? 18 then
      match wget w (gz op 4 0) with
      | None => (w, err 1)
      | Some s2 =>
        let opc := gz op 3 0 in
        let f := lift2 (qfun (if opc =? 1 then 5 else if opc =? 2 then 6 else 7)) in
        let m' := if gz op 5 0 =? 1 then bool_map_op_inplace cellv dcell f m (h_m s2)
                  else bool_map_op_copy cellv [q0] f m (h_m s2) in
        (wset w hout (mkh k m' (d_bool_op cellv dcell f d (h_d s2))), ok_res)
      end
    else if code =? 20 then
      (* degrade: [20];[h];[hout];[r code];kout;[hw];blank *)
      let r := gz op 3 0 in let rc := gz op 3 1 in
      let kout := kinfo_of (grp op 4) in
      let nb := qs_of (grp op 6) in      (* the output blank: UNSEEN in every output field's type *)
      let hw := gz op 5 0 in
      match (if hw <? 0 then Some (mkh k m d) else wget w hw) with
      | None => (w, err 1)
      | Some sw =>
        let wsp := if hw <? 0 then map (fun _ => [q0]) (sp m) else x_weights (h_k sw) (sp (h_m sw)) in
        let wd := if hw <? 0 then map (fun _ => [q0]) (dense d) else x_weights (h_k sw) (dense (h_d sw)) in
        let m' := degrade2 cellv cellv (red_cells k rc kout nb) r nb m wsp in
        let d' := d_degrade2 cellv cellv (red_cells_spec k rc kout nb) r nb d wd in
        (wset w hout (mkh kout m' d'), ok_res)
      end
    else if code =? 21 then
      let r := gz op 3 0 in
      (wset w hout (mkh k (upgrade cellv r m) (d_upgrade cellv dcell r d)), ok_res)
    else if code =? 22 then
      (* re-house: [22];[h];[hout];[ncov' nfine'];[has_cp];cp *)
      let n' := gz op 3 0 in let nf' := gz op 3 1 in
      let cp := if gz op 4 0 =? 1 then Some (grp op 5) else None in
      let m0 := make_empty cellv n' nf' (blank m) cp in
      let d0 := d_make_empty cellv n' nf' (blank m) cp in
      (wset w hout (mkh k (x_update k m0 URepl (valid_pvs k m) false)
                          (x_dupdate k d0 URepl (d_valid_pvs k d) false)), ok_res)
    else if code =? 23 then
      (* range update: [23];[h];[hout(=h)];[op na];rows;value *)
      let o := uop_of (gz op 3 0) in let na := gz op 3 1 =? 1 in
      let rows := rows_of (grp op 4) in
      let value := qs_of (grp op 5) in
      let m' := update_ranges cellv dcell v_add v_or v_and (k_zero k) (k_is_sent k) (k_sent_nonzero k)
                              m o rows value na in
      let pvs := map (fun p => (p, value)) (expand_ranges rows) in
      let d1 := x_dupdate k d o pvs na in
      (* C08 allows the coverage mask to be a superset of the needed one (a range end on a block
         edge names the next coverage pixel): the needed mask is returned for the superset test and
         the L0 state carries on with the mask the layout model predicts *)
      (wset w hout (mkh k m' (mkd (d_nfine d1) (dense d1) (coverage_mask (nfine m') (idx m')) (d_blank d1))),
       [ok1; zs_of_bools (dcov d1)])
    else if code =? 24 then
      (wset w hout (mkh k (copy_map cellv m) d), ok_res)
    else if code =? 25 then
      match read_partial cellv m (grp op 3) with
      | Some m' => (wset w hout (mkh k m' (d_restrict cellv dcell (grp op 3) d)), ok_res)
      | None => (w, raised)
      end
    else if code =? 26 then
      (* get_single(copy=True): [26];[h];[hout];[field];knew *)
      let j := gz op 3 0 in let kn := kinfo_of (grp op 4) in
      let conv (v : cellv) : cellv := [znth q0 v j] in
      (wset w hout (mkh kn (astype cellv cellv (k_valid k) conv [k_sent kn] m)
                           (d_astype cellv cellv (k_valid k) conv [k_sent kn] d)), ok_res)
    else if code =? 29 then
      (* get_single(copy=False): the view shows the raw field of every cell (L1); the property
         (L0) says: the field at the parent's valid pixels, that field's sentinel elsewhere *)
      let j := gz op 3 0 in let kn := kinfo_of (grp op 4) in
      let conv (v : cellv) : cellv := [znth q0 v j] in
      (wset w hout (mkh kn (astype cellv cellv (fun _ => true) conv [k_sent kn] m)
                           (d_astype cellv cellv (k_valid k) conv [k_sent kn] d)), ok_res)
    else if code =? 27 then
      (* write through a field view: [27];[h];[hout(=h)];[field fs_n fs_d];pixels;values *)
      let j := gz op 3 0 in let fs := mkq (gz op 3 1) (gz op 3 2) in
      let pix := grp op 4 in
      let vals := qs_of (grp op 5) in
      (* the code's guard looks at the view's own value; the property speaks of the parent's
         valid pixels (a stored field value equal to that field's sentinel also counts as invalid in
         the field map, as the property's exception clause says): both verdicts are returned *)
      let guard_l1 := existsb (fun p => qeqb (znth q0 (x_read m p) j) fs) pix in
      let guard_l0 := existsb (fun p => negb (k_valid k (d_read cellv dcell d p)) ||
                                        qeqb (znth q0 (d_read cellv dcell d p) j) fs) pix in
      let pvs1 := map (fun pv => (fst pv, zupd (x_read m (fst pv)) j (snd pv))) (combine pix vals) in
      let pvs0 := map (fun pv => (fst pv, zupd (d_read cellv dcell d (fst pv)) j (snd pv))) (combine pix vals) in
      (* the view is another object: the parent's memoised count is NOT dropped (finding F22) *)
      let mu := x_update k m URepl pvs1 false in
      let m' := if guard_l1 then m else mkmap (nfine mu) (idx mu) (sp mu) (blank mu) (cache m) in
      let d' := if guard_l0 then d else x_dupdate k d URepl pvs0 false in
      (wset w hout (mkh k m' d'), [ok1; [if guard_l1 then 1 else 0; if guard_l0 then 1 else 0]])
    else if code =? 33 then
      (* interpolate_pos: [33];[h];[allow_partial];pixels (4 per position);weights (4 rationals per position)
         -> per position [flag; num; den] (flag 0 = UNSEEN) from L1 reads, then the same from L0 *)
      let ap := gz op 2 0 =? 1 in
      let pixs := chunks 4 (grp op 3) in
      let wts := chunks 4 (qs_of (grp op 4)) in
      let one (rd : Z -> cellv) (pw : list Z * list Q) : list Z :=
        let vs := map (fun p => rd p) (fst pw) in
        let ok := map (k_valid k) vs in
        let trip := combine (combine (map hd1 vs) (snd pw)) ok in
        let good := filter (fun t => snd t) trip in
        let num := qsum (map (fun t => qmul (fst (fst t)) (snd (fst t))) good) in
        if ap then
          let den := qsum (map (fun t => snd (fst t)) good) in
          match good with [] => [0; 0; 1] | _ => if qnz den then 1 :: zs_of_q (qdiv num den) else [0; 0; 1] end
        else
          if forallb (fun b => b) ok then 1 :: zs_of_q (qdiv num (qsum (snd pw))) else [0; 0; 1] in
      (w, [ok1; flat_map (one (x_read m)) (combine pixs wts);
           flat_map (one (d_read cellv dcell d)) (combine pixs wts)])
    else if code =? 37 then
      (* lookup with pixel numbers of a finer resolution: [37];[h];[-];[r];pixels
         L1: the value of the containing pixel, read (p / r); L0: the value at p of the dense upgrade *)
      let r := gz op 3 0 in
      let du := d_upgrade cellv dcell r d in
      (w, [ok1; zs_of_cells (map (fun p => read cellv dcell m (p / r)) (grp op 4));
           zs_of_cells (map (d_read cellv dcell du) (grp op 4))])
    else if code =? 28 then
      (* check_bits over all pixels: [28];[h];[-];[bits integer] *)
      let bits := gz op 3 0 in
      let t (v : cellv) : Z := if 0 <? Z.land (Qnum (hd1 v)) bits then 1 else 0 in
      (w, [ok1; map t (x_values m); map t (dense d)])
    else step w op
  end.

(* stateless evaluation of the bit-packed array model (Packed.v):
   [40];[ds de si st];[has_a a];[has_b b]  -> slice view or raised
   [41];[ds de si st]                       -> first/middle/last descriptor
   [42];[x]                                 -> population-count table entry
   [43];[0 nd si st];[opcode];data;other    -> bytes after the bulk operation (opcode 0 set, 1 and, 2 or,
                                               3 xor, 4 invert; other = one byte (boolean operand: 255 / 0)
                                               or the aligned operand's bytes)
   [46];[0 nd si st];data                   -> population count of the view (sum())
   [47];[0 nd si st];data                   -> bytes of copy() (padding of the edge bytes cleared)
   [48];[0 nd si st];data;[newsize]         -> view and bytes after resize(newsize), or raised
   [49];[width];bits                        -> the byte row of a bit list (wide masks) and its integer
   [44];[kind];locs;data                    -> bytes after set (0) / clear (1) of the bits at locs, or the
                                               tested bits (2), or set locs then clear the locs of group 4 (3);
                                               locs already shifted by the start index *)
Definition view_of (g : list Z) : pview := mkview (znth 0 g 0) (znth 0 g 1) (znth 0 g 2) (znth 0 g 3).
Definition packed_monitor (op : list (list Z)) : result :=
  let code := gz op 0 0 in
  if code =? 40 then
    let a := if gz op 2 0 =? 1 then Some (gz op 2 1) else None in
    let b := if gz op 3 0 =? 1 then Some (gz op 3 1) else None in
    match slice_view (view_of (grp op 1)) a b with
    | Some v => [ok1; [vds v; vde v; vsi v; vst v]]
    | None => raised
    end
  else if code =? 41 then
    let d := extract_fml (view_of (grp op 1)) in
    [ok1; [f_lo d; f_hi d; m_lo d; m_hi d; l_lo d; l_hi d]]
  else if code =? 42 then [ok1; [lut_entry (gz op 1 0)]]
  else if code =? 46 then
    (* [46];[0 nd si st];data -> sum() of the view *)
    [ok1; [sum_view (view_of (grp op 1)) (grp op 2)]]
  else if code =? 45 then
    (* [45];[producer code] -> what the producer's result shares with its first argument *)
    let s := prod_shares (gz op 1 0) in
    [ok1; [Z.b2z (s_cov s); Z.b2z (s_sp s); Z.b2z (s_meta s)]]
  else if code =? 49 then
    (* [49];[width];bits -> the row _bitvals_to_packed_array builds, and its little-endian integer *)
    let row := bitvals_to_packed (grp op 2) (gz op 1 0) in
    [ok1; row; [le_int row]]
  else if code =? 47 then
    (* [47];[0 nd si st];data -> bytes of copy() *)
    [ok1; copy_view (view_of (grp op 1)) (grp op 2)]
  else if code =? 48 then
    (* [48];[0 nd si st];data;[newsize] -> view and bytes after resize(newsize), or raised *)
    match resize_view (view_of (grp op 1)) (grp op 2) (gz op 3 0) with
    | Some (v, d) => [ok1; [vds v; vde v; vsi v; vst v]; d]
    | None => raised
    end
  else if code =? 43 then
    let o := match gz op 2 0 with 0 => BSet | 1 => BAnd | 2 => BOr | 3 => BXor | _ => BInv end in
    let other := grp op 4 in
    let ob := if zlen other =? 1 then (fun _ : Z => znth 0 other 0) else (fun j => znth 0 other j) in
    [ok1; bulk_op o (view_of (grp op 1)) (grp op 3) ob]
  else
    let k := gz op 1 0 in
    if k =? 0 then [ok1; set_bits (grp op 2) (grp op 3)]
    else if k =? 1 then [ok1; clear_bits (grp op 2) (grp op 3)]
    else if k =? 3 then [ok1; clear_bits (grp op 4) (set_bits (grp op 2) (grp op 3))]
    else [ok1; map (fun p => if test_bit_at (grp op 3) p then 1 else 0) (grp op 2)].

(* random points (healSparseRandoms.py) as functions of the generator's draws *)
Definition fast_pixels (shift : Z) (coarse sub : list Z) : list Z :=
  map2 (fun c s => Z.shiftl c shift + s) coarse sub.
(* the rejection loop: indices of the first n candidates that fall on a valid pixel *)
Fixpoint accept (n : nat) (i : Z) (flags : list Z) : list Z :=
  match n, flags with
  | O, _ => []
  | _, [] => []
  | S k, f :: r => if f =? 1 then i :: accept k (i + 1) r else accept n (i + 1) r
  end.

Definition stateless_monitor (op : list (list Z)) : result :=
  let code := gz op 0 0 in
  if code =? 30 then [ok1; moc_cells (gz op 1 0) (gz op 1 1) (grp op 2)]
  else if code =? 31 then [ok1; moc_expand (gz op 1 0) (grp op 2); [moc_max_order (grp op 2)];
                           map uniq_order (grp op 2)]
  else if code =? 34 then
    let px := fast_pixels (gz op 1 0) (grp op 2) (grp op 3) in
    [ok1; px; map (fun p => Z.shiftr p (gz op 1 0)) px]
  else [ok1; accept (Z.to_nat (gz op 1 0)) 0 (grp op 2)].

Definition step_top2 (w : world) (op : list (list Z)) : world * result :=
  let code := gz op 0 0 in
  if code =? 9 then (w, layout_monitor op)
  else if 40 <=? code then (w, packed_monitor op)
  else if (code =? 30) || (code =? 31) || (code =? 34) || (code =? 35) then (w, stateless_monitor op)
  else step2 w op.
