(* WideBytes.v — the byte-row representation of wide-mask cells (C13).
   A wide-mask map stores, per pixel, a row of uint8; the model's cell is the little-endian integer of that
   row.  Here: (1) bit k of the integer is bit (k mod 8) of byte (k / 8) of the row; (2) the row that
   utils._bitvals_to_packed_array builds from a bit list (np.packbits of the boolean array with exactly the
   listed positions True) is the row of the integer with exactly those bits; (3) the bytewise | and & that
   NumPy applies to rows are | and & of the integers; (4) a row is all-zero iff its integer is zero (validity).
   So the set semantics proved on integers in WideProofs / WideMaps are the semantics of the stored bytes. *)
From HS Require Import Prelude Packed PackedProofs PackedOps WideProofs WideRow.


Lemma le_int_nonneg (l : list Z) : bytes_ok l -> 0 <= le_int l.
Proof.
  induction l as [|b t IH]; intros Hb; cbn [le_int fold_right]; [lia|]. fold (le_int t).
  assert (H0 : 0 <= b < 256) by (apply (Hb 0); rewrite zlen_cons; pose proof (zlen_nonneg t); lia).
  assert (Ht : bytes_ok t).
  { intros j Hj. specialize (Hb (j + 1)). rewrite zlen_cons in Hb. rewrite znth_cons in Hb.
    destruct (j + 1 =? 0) eqn:E; [lia|]. replace (j + 1 - 1) with j in Hb by lia. apply Hb. lia. }
  specialize (IH Ht). lia.
Qed.

Lemma bytes_ok_tail b (t : list Z) : bytes_ok (b :: t) -> 0 <= b < 256 /\ bytes_ok t.
Proof.
  intros Hb. split.
  - apply (Hb 0). rewrite zlen_cons. pose proof (zlen_nonneg t). lia.
  - intros j Hj. specialize (Hb (j + 1)). rewrite zlen_cons in Hb. rewrite znth_cons in Hb.
    destruct (j + 1 =? 0) eqn:E; [lia|]. replace (j + 1 - 1) with j in Hb by lia. apply Hb. lia.
Qed.

(* (1) *)
Theorem testbit_le_int (l : list Z) : forall k,
  bytes_ok l -> 0 <= k -> Z.testbit (le_int l) k = bit l k.
Proof.
  induction l as [|b t IH]; intros k Hb Hk; unfold bit.
  - cbn [le_int fold_right znth]. rewrite !Z.testbit_0_l. reflexivity.
  - destruct (bytes_ok_tail b t Hb) as [H0 Ht].
    cbn [le_int fold_right]. fold (le_int t). rewrite znth_cons.
    pose proof (le_int_nonneg t Ht) as Hn.
    destruct (k / 8 =? 0) eqn:E.
    + assert (Hk8 : k < 8) by lia. assert (Ek : k mod 8 = k) by lia. rewrite Ek.
      rewrite <- (Z.mod_pow2_bits_low (b + 256 * le_int t) 8 k) by lia.
      change (2 ^ 8) with 256.
      replace ((b + 256 * le_int t) mod 256) with b by lia.
      reflexivity.
    + assert (Hk8 : 8 <= k) by lia.
      replace k with ((k - 8) + 8) at 1 by lia.
      rewrite <- (Z.div_pow2_bits (b + 256 * le_int t) 8 (k - 8)) by lia.
      change (2 ^ 8) with 256.
      replace ((b + 256 * le_int t) / 256) with (le_int t) by lia.
      rewrite (IH (k - 8) Ht ltac:(lia)). unfold bit.
      replace ((k - 8) / 8) with (k / 8 - 1) by lia. replace ((k - 8) mod 8) with (k mod 8) by lia. reflexivity.
Qed.

Lemma bit_out (l : list Z) k : 8 * zlen l <= k -> bit l k = false.
Proof.
  intros Hk. unfold bit. rewrite znth_out by (right; pose proof (zlen_nonneg l); lia). apply Z.testbit_0_l.
Qed.

(* (2) np.packbits(arr, bitorder="little") with arr[k] = (k in bits), arr of 8*width entries *)
Lemma zlen_bitvals_to_packed bits width : 0 <= width -> zlen (bitvals_to_packed bits width) = width.
Proof. intros H. unfold bitvals_to_packed. rewrite zlen_map, zlen_zrange. lia. Qed.

Lemma znth_map_bits8' (f : Z -> bool) k : 0 <= k < 8 -> znth false (map f bits8) k = f k.
Proof. intros Hk. destruct (in_bits8 k Hk) as [->|[->|[->|[->|[->|[->|[->| ->]]]]]]]; reflexivity. Qed.

Lemma bytes_ok_bitvals bits width : 0 <= width -> bytes_ok (bitvals_to_packed bits width).
Proof.
  intros Hw j Hj. rewrite zlen_bitvals_to_packed in Hj by exact Hw. unfold bitvals_to_packed.
  rewrite (znth_map _ 0) by (rewrite zlen_zrange; lia). apply (pack8_bound (map _ bits8)).
Qed.

Theorem bitvals_to_packed_bit bits width k :
  0 <= k < 8 * width -> bit (bitvals_to_packed bits width) k = existsb (Z.eqb k) bits.
Proof.
  intros Hk. unfold bit, bitvals_to_packed.
  rewrite (znth_map _ 0) by (rewrite zlen_zrange; lia). rewrite znth_zrange by lia. rewrite Z.add_0_l.
  rewrite testbit_pack8 by lia. rewrite znth_map_bits8' by lia.
  replace (8 * (k / 8) + k mod 8) with k by lia. reflexivity.
Qed.

(* the row of a bit list is the row of bits_val: the integer with exactly those bits *)
Theorem bitvals_row_is_bits_val bits width :
  0 <= width -> (forall b, In b bits -> 0 <= b < 8 * width) ->
  le_int (bitvals_to_packed bits width) = bits_val bits.
Proof.
  intros Hw Hb. apply Z.bits_inj'. intros k Hk.
  rewrite testbit_le_int by (try exact Hk; apply bytes_ok_bitvals; exact Hw).
  rewrite testbit_bits_val by (try exact Hk; intros x Hx; specialize (Hb x Hx); lia).
  destruct (k <? 8 * width) eqn:E.
  - apply bitvals_to_packed_bit. lia.
  - rewrite bit_out by (rewrite zlen_bitvals_to_packed by exact Hw; lia).
    symmetry. destruct (existsb (Z.eqb k) bits) eqn:Ex; [|reflexivity].
    apply existsb_exists in Ex. destruct Ex as [x [Hx Ex]]. assert (x = k) by lia. subst x.
    specialize (Hb k Hx). lia.
Qed.

(* (3) bytewise operations on rows of one length *)
Lemma le_int_zip (f : Z -> Z -> Z) (g : bool -> bool -> bool) :
  (forall x y k, Z.testbit (f x y) k = g (Z.testbit x k) (Z.testbit y k)) ->
  (forall x y, 0 <= x < 256 -> 0 <= y < 256 -> 0 <= f x y < 256) ->
  g false false = false ->
  forall a b, zlen a = zlen b -> bytes_ok a -> bytes_ok b ->
    bytes_ok (zip_with f a b) /\ le_int (zip_with f a b) = f (le_int a) (le_int b).
Proof.
  intros Hf Hr Hg0. induction a as [|x s IH]; intros [|y t] Hl Ha Hb; cbn [zip_with].
  - split; [intros j Hj; rewrite zlen_nil in Hj; lia|]. cbn [le_int fold_right].
    apply Z.bits_inj'. intros k _. rewrite Hf, !Z.testbit_0_l. symmetry. exact Hg0.
  - rewrite zlen_nil, zlen_cons in Hl. pose proof (zlen_nonneg t). lia.
  - rewrite zlen_nil, zlen_cons in Hl. pose proof (zlen_nonneg s). lia.
  - rewrite !zlen_cons in Hl.
    destruct (bytes_ok_tail x s Ha) as [Hx Hs]. destruct (bytes_ok_tail y t Hb) as [Hy Ht].
    destruct (IH t ltac:(lia) Hs Ht) as [Bz Ez].
    assert (Bok : bytes_ok (f x y :: zip_with f s t)).
    { intros j Hj. rewrite zlen_cons in Hj. rewrite znth_cons. destruct (j =? 0) eqn:E; [apply Hr; assumption|].
      apply Bz. lia. }
    split; [exact Bok|].
    apply Z.bits_inj'. intros k Hk.
    rewrite Hf. rewrite !testbit_le_int by assumption.
    unfold bit. rewrite !znth_cons.
    destruct (k / 8 =? 0) eqn:E; [apply Hf|].
    pose proof (testbit_le_int (zip_with f s t) (k - 8) Bz ltac:(lia)) as T. rewrite Ez, Hf in T.
    rewrite !testbit_le_int in T by (try assumption; lia). unfold bit in T.
    replace ((k - 8) / 8) with (k / 8 - 1) in T by lia. replace ((k - 8) mod 8) with (k mod 8) in T by lia.
    symmetry. exact T.
Qed.

Lemma lor_byte x y : 0 <= x < 256 -> 0 <= y < 256 -> 0 <= Z.lor x y < 256.
Proof. intros Hx Hy. exact (mid_byte_range BOr x y Hx Hy). Qed.
Lemma land_byte x y : 0 <= x < 256 -> 0 <= y < 256 -> 0 <= Z.land x y < 256.
Proof. intros Hx Hy. exact (mid_byte_range BAnd x y Hx Hy). Qed.

Theorem rows_or_is_integer_or (a b : list Z) :
  zlen a = zlen b -> bytes_ok a -> bytes_ok b ->
  bytes_ok (zip_with Z.lor a b) /\ le_int (zip_with Z.lor a b) = Z.lor (le_int a) (le_int b).
Proof. apply (le_int_zip Z.lor orb); [intros; apply Z.lor_spec|exact lor_byte|reflexivity]. Qed.

Theorem rows_and_is_integer_and (a b : list Z) :
  zlen a = zlen b -> bytes_ok a -> bytes_ok b ->
  bytes_ok (zip_with Z.land a b) /\ le_int (zip_with Z.land a b) = Z.land (le_int a) (le_int b).
Proof. apply (le_int_zip Z.land andb); [intros; apply Z.land_spec|exact land_byte|reflexivity]. Qed.

(* (4) validity: (row > 0).sum(axis=1) > 0  iff  the integer is non-zero *)
Theorem row_zero_iff_integer_zero (l : list Z) :
  bytes_ok l -> (le_int l = 0 <-> forall j, 0 <= j < zlen l -> znth 0 l j = 0).
Proof.
  induction l as [|b t IH]; intros Hb.
  - split; [intros _ j Hj; rewrite zlen_nil in Hj; lia|reflexivity].
  - destruct (bytes_ok_tail b t Hb) as [H0 Ht]. pose proof (le_int_nonneg t Ht) as Hn.
    cbn [le_int fold_right]. fold (le_int t). split.
    + intros E. assert (b = 0 /\ le_int t = 0) as [Eb Et] by lia.
      intros j Hj. rewrite zlen_cons in Hj. rewrite znth_cons. destruct (j =? 0) eqn:Ej; [exact Eb|].
      apply (proj1 (IH Ht) Et). lia.
    + intros H. assert (Eb : b = 0) by (specialize (H 0); rewrite zlen_cons, znth_cons in H; apply H; pose proof (zlen_nonneg t); lia).
      assert (Et : le_int t = 0).
      { apply (proj2 (IH Ht)). intros j Hj. specialize (H (j + 1)). rewrite zlen_cons, znth_cons in H.
        destruct (j + 1 =? 0) eqn:E; [lia|]. replace (j + 1 - 1) with j in H by lia. apply H. lia. }
      lia.
Qed.

Example wide_bytes_example :
  bitvals_to_packed [0; 9; 17] 3 = [1; 2; 2] /\ le_int [1; 2; 2] = bits_val [0; 9; 17].
Proof. vm_compute. split; reflexivity. Qed.
