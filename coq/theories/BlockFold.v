(* BlockFold.v — block-wise rewriting of the storage of a well-formed map: a fold that replaces, for
   each listed covered coverage pixel, its block by a function of that block changes exactly those
   blocks (blocks of distinct coverage pixels are disjoint) and nothing else.  Used for the boolean
   map-with-map operators (C11). *)
From HS Require Import Prelude Cov Map Spec Ops Spec2 Params AtFold MapProofs UpdateProofs HistoryProofs
     LayoutProofs AccountProofs OpsProofs RangeProofs.

Section BlockFold.
Variable P : params.
Notation V := (p_V P).
Notation dv := (p_dv P).
Notation wf := (wf P).

Variable m : smap V.
Hypothesis W : wf m.
Notation nf := (nfine m).

Definition blk (s : list V) (c : Z) : list V := zslice s (off V m c) (off V m c + nf).

Definition good (c : Z) : Prop := 0 <= c < ncov V m /\ covered V m c = true.


Lemma good_block c : good c -> nf <= off V m c /\ off V m c + nf <= zlen (sp m) /\ off V m c mod nf = 0.
Proof.
  intros [Hc Hcov]. apply covered_iff in Hcov.
  destruct (wf_off P m W c Hc) as [H0|H]; [pose proof (wf_nf P m W); lia|exact H].
Qed.

Lemma blocks_disjoint c1 c2 i :
  good c1 -> good c2 -> c1 <> c2 ->
  off V m c1 <= i < off V m c1 + nf -> ~ (off V m c2 <= i < off V m c2 + nf).
Proof.
  intros G1 G2 Hne H1 H2. pose proof (wf_nf P m W) as Hnf.
  destruct (good_block c1 G1) as [A1 [B1 M1]]. destruct (good_block c2 G2) as [A2 [B2 M2]].
  apply Z.mod_divide in M1; [|lia]. apply Z.mod_divide in M2; [|lia].
  destruct M1 as [k1 E1]. destruct M2 as [k2 E2].
  assert (k1 = k2) by nia.
  apply Hne. destruct G1 as [R1 C1]. destruct G2 as [R2 C2].
  apply (wf_inj P m W); try assumption. rewrite E1, E2. f_equal. assumption.
Qed.

Lemma zlen_blk s c : good c -> zlen s = zlen (sp m) -> zlen (blk s c) = nf.
Proof.
  intros G Hl. destruct (good_block c G) as [A [B _]]. pose proof (wf_nf P m W).
  unfold blk, zslice. rewrite zlen_zfirstn, zlen_zskipn. lia.
Qed.

Lemma znth_blk s c j : good c -> zlen s = zlen (sp m) -> 0 <= j < nf -> znth dv (blk s c) j = znth dv s (off V m c + j).
Proof.
  intros G Hl Hj. destruct (good_block c G) as [A [B _]]. pose proof (wf_nf P m W).
  unfold blk, zslice. rewrite znth_zfirstn. destruct (j <? off V m c + nf - off V m c) eqn:E; [|lia].
  rewrite znth_zskipn by lia. f_equal. lia.
Qed.

Lemma blk_ext s t c :
  good c -> zlen s = zlen (sp m) -> zlen t = zlen (sp m) ->
  (forall i, off V m c <= i < off V m c + nf -> znth dv s i = znth dv t i) -> blk s c = blk t c.
Proof.
  intros G Hs Ht H. apply (znth_ext dv).
  - rewrite !zlen_blk by assumption. reflexivity.
  - intros j Hj. rewrite zlen_blk in Hj by assumption. rewrite !znth_blk by assumption. apply H. lia.
Qed.

Variable g : Z -> list V -> list V.
Hypothesis g_len : forall c l, good c -> zlen l = nf -> zlen (g c l) = nf.

Definition step_block (t : list V) (c : Z) : list V := zsplice t (off V m c) (g c (blk t c)).

Lemma zlen_step_block t c : good c -> zlen t = zlen (sp m) -> zlen (step_block t c) = zlen (sp m).
Proof.
  intros G Hl. destruct (good_block c G) as [A [B _]]. pose proof (wf_nf P m W).
  unfold step_block. rewrite (zlen_zsplice P); rewrite ?g_len by (try assumption; apply zlen_blk; assumption); lia.
Qed.

Lemma znth_step_block t c i :
  good c -> zlen t = zlen (sp m) ->
  znth dv (step_block t c) i =
  if (off V m c <=? i) && (i <? off V m c + nf) then znth dv (g c (blk t c)) (i - off V m c) else znth dv t i.
Proof.
  intros G Hl. destruct (good_block c G) as [A [B _]]. pose proof (wf_nf P m W).
  unfold step_block. rewrite (znth_zsplice P) by (rewrite ?g_len by (try assumption; apply zlen_blk; assumption); lia).
  rewrite g_len by (try assumption; apply zlen_blk; assumption). reflexivity.
Qed.

(* the fold changes exactly the blocks of the listed pixels, each to g of its ORIGINAL block *)
Theorem fold_blocks_spec (cs : list Z) : forall t,
  NoDup cs -> (forall c, In c cs -> good c) -> zlen t = zlen (sp m) ->
  (forall c, In c cs -> forall i, off V m c <= i < off V m c + nf -> znth dv t i = znth dv (sp m) i) ->
  let r := fold_left step_block cs t in
  zlen r = zlen (sp m) /\
  forall i,
    (forall c, In c cs -> off V m c <= i < off V m c + nf ->
               znth dv r i = znth dv (g c (blk (sp m) c)) (i - off V m c)) /\
    ((forall c, In c cs -> ~ (off V m c <= i < off V m c + nf)) -> znth dv r i = znth dv t i).
Proof.
  induction cs as [|c r IH]; intros t ND Hg Hl Hpend; cbn [fold_left].
  - split; [exact Hl|]. intros i. split; [intros c []|reflexivity].
  - inversion ND as [|? ? Hnin ND']; subst.
    assert (Gc : good c) by (apply Hg; left; reflexivity).
    assert (Eblk : blk t c = blk (sp m) c).
    { apply blk_ext; try assumption; [reflexivity|]. intros i Hi. apply (Hpend c); [left; reflexivity|exact Hi]. }
    assert (Hl1 : zlen (step_block t c) = zlen (sp m)) by (apply zlen_step_block; assumption).
    destruct (IH (step_block t c) ND') as [L S].
    + intros c' Hc'. apply Hg. right; exact Hc'.
    + exact Hl1.
    + intros c' Hc' i Hi. rewrite znth_step_block by assumption.
      assert (Gc' : good c') by (apply Hg; right; exact Hc').
      assert (Hne : c' <> c) by (intro; subst; contradiction).
      pose proof (blocks_disjoint c' c i Gc' Gc Hne Hi) as Hd.
      destruct ((off V m c <=? i) && (i <? off V m c + nf)) eqn:E; [lia|].
      apply (Hpend c'); [right; exact Hc'|exact Hi].
    + split; [exact L|]. intros i. destruct (S i) as [S1 S2]. split.
      * intros c' [<-|Hc'] Hi.
        -- rewrite S2.
           ++ rewrite znth_step_block by assumption.
              destruct ((off V m c <=? i) && (i <? off V m c + nf)) eqn:E; [|lia]. rewrite Eblk. reflexivity.
           ++ intros c'' Hc''. assert (Gc'' : good c'') by (apply Hg; right; exact Hc'').
              assert (Hne : c <> c'') by (intro; subst; contradiction).
              apply (blocks_disjoint c c'' i Gc Gc'' Hne Hi).
        -- apply S1; assumption.
      * intros Hout. rewrite S2 by (intros c' Hc'; apply Hout; right; exact Hc').
        rewrite znth_step_block by assumption.
        destruct ((off V m c <=? i) && (i <? off V m c + nf)) eqn:E; [|reflexivity].
        exfalso. apply (Hout c (or_introl eq_refl)). lia.
Qed.

End BlockFold.
