(* RdegRefine.v — degrade-on-read (io_map_fits._read_healsparse_fits_file_and_degrade) at the layout level
   (C19): the routine reduces the file block by block — for every requested covered coverage pixel, in
   ascending order, the block of the map (and of the weight file) is reduced and stored as the next block
   of the output, whose index is make_from_pixels of that list.  Theorem: the map it returns IS (index and
   storage, not only abstraction) the in-memory degrade of the partial read of the same pixels with the
   weight blocks laid out in the same order. *)
From HS Require Import Prelude Cov Map Spec Ops Spec2 Params AtFold MapProofs UpdateProofs HistoryProofs
     LayoutProofs AccountProofs OpsProofs RebuildProofs FracdetProofs PartialProofs PackedSum.

(* ---- slices of concatenations ---- *)
Lemma zslice_app_l {A} (a b : list A) x y : 0 <= x -> x <= y -> y <= zlen a -> zslice (a ++ b) x y = zslice a x y.
Proof.
  intros Hx Hxy Hy. destruct a as [|a0 ar] eqn:Ea.
  - rewrite zlen_nil in Hy. assert (x = 0) by lia. assert (y = 0) by lia. subst.
    unfold zslice. cbn [app]. destruct b; reflexivity.
  - rewrite <- Ea in *. clear Ea a0 ar.
    pose proof (zlen_nonneg b) as Hb.
    assert (Hd : forall d : A, zslice (a ++ b) x y = zslice a x y).
    { intros d. apply (znth_ext d).
      - unfold zslice. rewrite !zlen_zfirstn, !zlen_zskipn, zlen_app. lia.
      - intros i Hi. unfold zslice in *. rewrite zlen_zfirstn, zlen_zskipn, zlen_app in Hi.
        rewrite !znth_zfirstn. destruct (i <? y - x) eqn:E; [|reflexivity].
        rewrite !znth_zskipn by lia. rewrite znth_app.
        destruct (i + Z.max 0 x <? zlen a) eqn:E2; [reflexivity|lia]. }
    destruct a as [|d r]; [rewrite zlen_nil in Hy; assert (x = 0) by lia; assert (y = 0) by lia; subst; unfold zslice; destruct b; reflexivity|].
    exact (Hd d).
Qed.

Lemma zslice_app_r {A} (a b : list A) x y :
  zlen a <= x -> x <= y -> zslice (a ++ b) x y = zslice b (x - zlen a) (y - zlen a).
Proof.
  intros Hx Hxy. pose proof (zlen_nonneg a) as Ha.
  destruct b as [|d r] eqn:Eb.
  - rewrite app_nil_r. unfold zslice.
    assert (E : zskipn x a = []).
    { assert (L : zlen (zskipn x a) = 0) by (rewrite zlen_zskipn; lia).
      destruct (zskipn x a); [reflexivity|rewrite zlen_cons in L; pose proof (zlen_nonneg l); lia]. }
    rewrite E. destruct (y - x <=? 0); reflexivity.
  - rewrite <- Eb. apply (znth_ext d).
    + unfold zslice. rewrite !zlen_zfirstn, !zlen_zskipn, zlen_app. lia.
    + intros i Hi. unfold zslice in *. rewrite zlen_zfirstn, zlen_zskipn, zlen_app in Hi.
      rewrite !znth_zfirstn. replace (y - zlen a - (x - zlen a)) with (y - x) by lia.
      destruct (i <? y - x) eqn:E; [|reflexivity].
      rewrite !znth_zskipn by lia. rewrite znth_app.
      destruct (i + Z.max 0 x <? zlen a) eqn:E2; [lia|]. f_equal. lia.
Qed.

Section Rdeg.
Variables P P' : params.
Notation V := (p_V P).
Notation W := (p_V P').
Notation wf := (wf P).
Variable red : list (V * W) -> W.
Variable r : Z.
Hypothesis Hr : 0 < r.

Notation gr := (group_reduce2 V W red r).

(* grouping distributes over the concatenation of storages whose first part is a whole number of groups *)
Lemma group_reduce2_app (a b : list V) (wa wb : list W) :
  zlen wa = zlen a -> zlen wb = zlen b -> zlen a mod r = 0 ->
  gr (a ++ b) (wa ++ wb) = gr a wa ++ gr b wb.
Proof.
  intros La Lb Hm. apply Z.mod_divide in Hm; [|lia]. destruct Hm as [ka Eka].
  pose proof (zlen_nonneg a) as Hna. pose proof (zlen_nonneg b) as Hnb.
  assert (Hka : 0 <= ka) by nia.
  assert (Ediv : zlen (a ++ b) / r = ka + zlen b / r).
  { rewrite zlen_app, Eka. rewrite Z.add_comm, Z.div_add by lia. lia. }
  assert (Eda : zlen a / r = ka) by (rewrite Eka; apply Z.div_mul; lia).
  unfold group_reduce2. rewrite Ediv, Eda.
  pose proof (Z.div_pos (zlen b) r Hnb Hr) as Hqb.
  rewrite (PackedSum.zrange_split 0 ka (ka + zlen b / r)) by lia.
  rewrite map_app. f_equal.
  - apply map_ext_in. intros g Hg. apply In_zrange in Hg. f_equal. f_equal.
    + apply zslice_app_l; nia.
    + apply zslice_app_l; [nia|nia|rewrite La; nia].
  - rewrite (FracdetProofs.zrange_shift ka (ka + zlen b / r)).
    replace (ka + zlen b / r - ka) with (zlen b / r) by lia.
    rewrite map_map. apply map_ext_in. intros g Hg. apply In_zrange in Hg. f_equal. f_equal.
    + rewrite zslice_app_r by nia. f_equal; nia.
    + rewrite zslice_app_r by (rewrite ?La; nia). rewrite La. f_equal; nia.
Qed.

Lemma group_reduce2_flat (f : Z -> list V) (g : Z -> list W) (n : Z) (ps : list Z) :
  0 <= n -> n mod r = 0 -> (forall c, In c ps -> zlen (f c) = n /\ zlen (g c) = n) ->
  gr (flat_map f ps) (flat_map g ps) = flat_map (fun c => gr (f c) (g c)) ps.
Proof.
  intros Hn Hm Hl. induction ps as [|c t IH]; cbn [flat_map].
  - unfold group_reduce2. rewrite zlen_nil, Z.div_0_l by lia. reflexivity.
  - destruct (Hl c (or_introl eq_refl)) as [Lf Lg].
    rewrite group_reduce2_app.
    + f_equal. apply IH. intros x Hx. apply Hl. right; exact Hx.
    + congruence.
    + assert (G : forall l, (forall x, In x l -> zlen (f x) = n /\ zlen (g x) = n) ->
                     zlen (flat_map g l) = zlen (flat_map f l)).
      { induction l as [|x l' IHl]; intros H; [reflexivity|]. cbn [flat_map]. rewrite !zlen_app.
        destruct (H x (or_introl eq_refl)) as [A B]. rewrite A, B. f_equal. apply IHl. intros y Hy. apply H. right; exact Hy. }
      apply G. intros x Hx. apply Hl. right; exact Hx.
    + rewrite Lf. exact Hm.
Qed.

(* ---- the block table of a map allocated from a pixel list is that list ---- *)
Lemma b2c_of_pixel_list (ncv nf : Z) (bl : V) (ps : list Z) (s : list V) :
  0 <= ncv -> 0 < nf -> NoDup ps -> (forall c, In c ps -> 0 <= c < ncv) ->
  p_valid P bl = false -> zlen s = (zlen ps + 1) * nf ->
  (forall i, 0 <= i < nf -> znth (p_dv P) s i = bl) ->
  block_to_cov nf (cov_make_from_pixels ncv nf ps) = ps.
Proof.
  intros Hn Hf ND Hrng Hb Hl Ho.
  set (M0 := make_empty V ncv nf bl (Some ps)).
  assert (W0 : wf M0) by (apply (make_empty_wf P); try assumption; split; assumption).
  change (block_to_cov nf (cov_make_from_pixels ncv nf ps)) with (b2c P M0).
  pose proof (zlen_nonneg ps) as Hps.
  assert (Hnc : ncovered V M0 = zlen ps).
  { pose proof (wf_len P M0 W0) as L. change (nfine M0) with nf in L.
    assert (Ls : zlen (sp M0) = (zlen ps + 1) * nf).
    { unfold M0, Map.make_empty. cbn [sp]. rewrite zlen_zrepeat. nia. }
    rewrite Ls in L. nia. }
  apply (znth_ext 0).
  - rewrite (zlen_b2c P). exact Hnc.
  - intros i Hi. rewrite (zlen_b2c P), Hnc in Hi.
    destruct (b2c_block P M0 (i + 1) W0 ltac:(lia)) as [Hc [Hcov Eoff]].
    replace (i + 1 - 1) with i in * by lia.
    set (c := znth 0 (b2c P M0) i) in *.
    assert (Hpi : In (znth 0 ps i) ps) by (apply znth_In; exact Hi).
    pose proof (make_empty_some_off P ncv nf bl ps i Hn Hf ND Hrng Hi) as Eoff2.
    change (off V (make_empty V ncv nf bl (Some ps)) (znth 0 ps i)) with (off V M0 (znth 0 ps i)) in Eoff2.
    change (nfine M0) with nf in Eoff.
    assert (Hnc0 : ncov V M0 = ncv).
    { pose proof (npix_make_empty P ncv nf bl (Some ps) Hn) as Np. unfold Map.npix in Np.
      change (nfine (make_empty V ncv nf bl (Some ps))) with nf in Np. change (make_empty V ncv nf bl (Some ps)) with M0 in Np. nia. }
    apply (wf_inj P M0 W0); try assumption.
    + rewrite Hnc0. apply Hrng. exact Hpi.
    + rewrite Eoff, Eoff2. reflexivity.
Qed.

(* ---- the on-read routine ---- *)
Definition blk (m : smap V) (c : Z) : list V := zslice (sp m) (off V m c) (off V m c + nfine m).

Definition rdeg (nb : W) (m : smap V) (wblk : Z -> list W) (req : list Z) : option (smap W) :=
  let nf' := nfine m / r in
  match selected P m req with
  | [] => None
  | ps => Some (mkmap nf' (cov_make_from_pixels (ncov V m) nf' ps)
                      (zrepeat nb nf' ++ flat_map (fun c => gr (blk m c) (wblk c)) ps) nb None)
  end.

Theorem rdeg_is_degrade_of_partial_read (nb : W) (m m' : smap V) (wblk : Z -> list W) (wovf : list W) (req : list Z) :
  wf m -> nfine m mod r = 0 -> read_partial V m req = Some m' ->
  zlen wovf = nfine m -> (forall c, In c (selected P m req) -> zlen (wblk c) = nfine m) ->
  rdeg nb m wblk req =
  Some (degrade2 V W red r nb m' (wovf ++ flat_map wblk (selected P m req))).
Proof.
  intros Wm Hdiv E Lo Lw. pose proof (wf_nf P m Wm) as Hnf.
  assert (Hdiv' := Hdiv). apply Z.mod_divide in Hdiv'; [|lia]. destruct Hdiv' as [nf' Enf].
  assert (Hn' : 0 < nf') by nia.
  assert (Ediv : nfine m / r = nf') by (rewrite Enf; apply Z.div_mul; lia).
  unfold rdeg. unfold read_partial in E. fold (selected P m req) in E.
  set (ps := selected P m req) in *.
  destruct ps as [|c0 pt] eqn:Eps; [discriminate|]. rewrite <- Eps in *. clear Eps c0 pt.
  injection E as <-.
  assert (NDp : NoDup ps) by apply (selected_NoDup P).
  assert (Hrng : forall c, In c ps -> 0 <= c < ncov V m) by (intros c Hc; apply (In_selected P) in Hc; tauto).
  assert (Hblk : forall c, In c ps -> zlen (blk m c) = nfine m).
  { intros c Hc. apply (In_selected P) in Hc. destruct Hc as [Hc [Hcov _]]. apply (block_len P); assumption. }
  f_equal. unfold degrade2. cbn [nfine sp]. rewrite Ediv.
  f_equal.
  - (* the index *)
    assert (Hlen : zlen (cov_make_from_pixels (ncov V m) (nfine m) ps) = ncov V m).
    { unfold cov_make_from_pixels, initialize_pixels.
      rewrite (init_is_append (nfine m) (ncov V m)) by (try apply zlen_cov_make_empty; unfold Map.ncov; apply zlen_nonneg).
      rewrite zlen_append_from, zlen_cov_make_empty by (unfold Map.ncov; apply zlen_nonneg). reflexivity. }
    change (cov_make_from_pixels (ncov V m) nf' ps =
            cov_make_from_pixels (zlen (cov_make_from_pixels (ncov V m) (nfine m) ps)) nf'
                                 (block_to_cov (nfine m) (cov_make_from_pixels (ncov V m) (nfine m) ps))).
    rewrite Hlen.
    rewrite (b2c_of_pixel_list (ncov V m) (nfine m) (blank m) ps
               (zslice (sp m) 0 (nfine m) ++ flat_map (fun c => zslice (sp m) (off V m c) (off V m c + nfine m)) ps)).
    + reflexivity.
    + unfold Map.ncov. apply zlen_nonneg.
    + exact Hnf.
    + exact NDp.
    + exact Hrng.
    + exact (wf_blank P m Wm).
    + rewrite zlen_app. rewrite (zlen_flat_map_blocks _ (nfine m)) by (try lia; intros c Hc; apply Hblk; exact Hc).
      assert (L0 : zlen (zslice (sp m) 0 (nfine m)) = nfine m).
      { unfold zslice. rewrite zlen_zfirstn, zlen_zskipn. pose proof (wf_len_ge P m Wm). lia. }
      rewrite L0. lia.
    + intros i Hi. rewrite znth_app.
      assert (L0 : zlen (zslice (sp m) 0 (nfine m)) = nfine m).
      { unfold zslice. rewrite zlen_zfirstn, zlen_zskipn. pose proof (wf_len_ge P m Wm). lia. }
      rewrite L0. destruct (i <? nfine m) eqn:Ei; [|lia].
      unfold zslice. rewrite znth_zfirstn. destruct (i <? nfine m - 0) eqn:E2; [|lia].
      rewrite znth_zskipn by lia. replace (i + Z.max 0 0) with i by lia. apply (wf_over P m Wm). exact Hi.
  - (* the storage *)
    f_equal.
    assert (L0 : zlen (zslice (sp m) 0 (nfine m)) = nfine m).
    { unfold zslice. rewrite zlen_zfirstn, zlen_zskipn. pose proof (wf_len_ge P m Wm). lia. }
    change (flat_map (fun c : Z => zslice (sp m) (off V m c) (off V m c + nfine m)) ps) with (flat_map (blk m) ps).
    rewrite group_reduce2_app.
    + assert (HL : forall c, In c ps -> zlen (blk m c) = nfine m /\ zlen (wblk c) = nfine m)
        by (intros c Hc; split; [apply Hblk|apply Lw]; exact Hc).
      rewrite (group_reduce2_flat (blk m) wblk (nfine m) ps ltac:(lia) Hdiv HL).
      assert (Lg : zlen (gr (zslice (sp m) 0 (nfine m)) wovf) = nf').
      { rewrite (zlen_group_reduce2 P P') by exact Hr. rewrite L0. exact Ediv. }
      rewrite <- Lg at 1.
      assert (Sk : forall (a b : list W), zskipn (zlen a) (a ++ b) = b).
      { intros a b. induction a as [|x t IH]; [destruct b; reflexivity|]. cbn [app zskipn]. rewrite zlen_cons.
        pose proof (zlen_nonneg t). destruct (zlen t + 1 <=? 0) eqn:E0; [lia|]. replace (zlen t + 1 - 1) with (zlen t) by lia. exact IH. }
      rewrite Sk. reflexivity.
    + rewrite L0. exact Lo.
    + assert (G : forall l, (forall x, In x l -> zlen (blk m x) = nfine m /\ zlen (wblk x) = nfine m) ->
                     zlen (flat_map wblk l) = zlen (flat_map (fun c => zslice (sp m) (off V m c) (off V m c + nfine m)) l)).
      { induction l as [|x l' IHl]; intros H; [reflexivity|]. cbn [flat_map]. rewrite !zlen_app.
        destruct (H x (or_introl eq_refl)) as [A B]. unfold blk in A. rewrite A, B. f_equal. apply IHl. intros y Hy. apply H. right; exact Hy. }
      apply G. intros x Hx. split; [apply Hblk|apply Lw]; exact Hx.
    + rewrite L0. exact Hdiv.
Qed.

End Rdeg.
