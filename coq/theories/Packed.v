(* Packed.v — model of healsparse/packedBoolArray.py: the arithmetic of slice views
   (__getitem__ with a slice), the first/middle/last decomposition of an unaligned view, and the
   SWAR population-count table (C05). *)
From HS Require Import Prelude.

(* a view of a byte buffer: bytes [vds, vde) of the ROOT buffer, bits [vsi, vst) of those bytes *)
Record pview := mkview { vds : Z; vde : Z; vsi : Z; vst : Z }.

Definition vsize (v : pview) : Z := vst v - vsi v.
Definition vndata (v : pview) : Z := vde v - vds v.

(* packedBoolArray.py:233-291 __getitem__(slice(a, b)) on the view v; None = ValueError.
   [a], [b] are the explicit slice bounds (a = None / b = None: omitted). *)
Definition slice_view (v : pview) (a b : option Z) : option pview :=
  let si0 := vsi v in
  let size := vsize v in
  let bad_start := match a with Some x => (x <? 0) || (size <? x) | None => false end in
  if bad_start then None else
  let key_start := match a with Some x => x | None => 0 end in
  let data_start := match a with Some x => (x + si0) / 8 | None => 0 end in
  let start_index := match a with Some x => (x + si0) mod 8 | None => si0 end in
  let stop_index0 := match a with Some x => vst v - data_start * 8 | None => vst v end in
  match b with
  | None => Some (mkview (vds v + data_start) (vde v) start_index stop_index0)
  | Some y =>
    let stop := if y <? 0 then y + size else y in
    if (size <? stop) || (stop <? key_start) then None else
    let sz := stop - key_start in
    let offset := if (sz + start_index) mod 8 =? 0 then 0 else 1 in
    let data_stop := (stop + si0) / 8 + offset in
    Some (mkview (vds v + data_start) (vds v + data_stop) start_index
                 ((data_stop - data_start - offset) * 8 + (stop + si0) mod 8))
  end.

(* the invariant of the constructor: 0 <= start < 8, stop within 8 of the intrinsic size *)
Definition view_ok (v : pview) : Prop :=
  0 <= vsi v <= 7 /\ vsi v <= vst v /\ 0 <= vndata v /\
  (vsize v = 0 \/ (8 * vndata v - 7 <= vst v <= 8 * vndata v)).

(* absolute position (in the root buffer) of bit k of the view *)
Definition abs_bit (v : pview) (k : Z) : Z := 8 * vds v + vsi v + k.

(* packedBoolArray.py:463-545 _extract_first_middle_last as a descriptor:
   (first byte bit range, middle byte range, last byte bit range), byte indices relative to the view;
   an absent part is an empty range *)
Record fml := mkfml { f_lo : Z; f_hi : Z;      (* bits [f_lo, f_hi) of byte 0 *)
                      m_lo : Z; m_hi : Z;      (* whole bytes [m_lo, m_hi) *)
                      l_lo : Z; l_hi : Z }.    (* bits [l_lo, l_hi) of the last byte *)

Definition extract_fml (v : pview) : fml :=
  let nd := vndata v in let si := vsi v in let st := vst v in
  if (si =? 0) && (st =? nd * 8) then mkfml 0 0 0 nd 0 0
  else if si =? 0 then
    if st <? 8 then mkfml 0 0 0 0 0 (st mod 8)
    else mkfml 0 0 0 (nd - 1) 0 (st mod 8)
  else
    if st =? nd * 8 then
      (if nd =? 1 then mkfml si 8 0 0 0 0 else mkfml si 8 1 nd 0 0)
    else
      if nd =? 1 then mkfml si st 0 0 0 0
      else mkfml si 8 1 (nd - 1) 0 (st mod 8).

(* the bit positions (relative to the view's first byte) the three parts cover *)
Definition fml_covers (nd : Z) (d : fml) (k : Z) : bool :=
  ((f_lo d <=? k) && (k <? f_hi d)) ||
  ((8 * m_lo d <=? k) && (k <? 8 * m_hi d)) ||
  ((8 * (nd - 1) + l_lo d <=? k) && (k <? 8 * (nd - 1) + l_hi d)).

(* packedBoolArray.py:679-691 the population-count table, uint8 arithmetic (mod 256) *)
Definition u8 (x : Z) : Z := x mod 256.
Definition lut_entry (x : Z) : Z :=
  let a := u8 (x - Z.land (Z.shiftr x 1) 85) in
  let b := u8 (Z.land a 51 + Z.land (Z.shiftr a 2) 51) in
  let c := Z.land (u8 (b + Z.shiftr b 4)) 15 in
  u8 (c * 1).

Fixpoint popcount_nat (n : nat) (x : Z) : Z :=
  match n with O => 0 | S k => (if Z.testbit x (Z.of_nat k) then 1 else 0) + popcount_nat k x end.
Definition popcount8 (x : Z) : Z := popcount_nat 8 x.

(* ---- byte-level model of the bulk operations (packedBoolArray.py __setitem__ with a slice,
   &= |= ^= with a boolean or an aligned packed operand, invert): the view is split with
   extract_fml; the edge bytes are unpacked, modified on their bit range and packed again, the middle
   bytes are operated on whole ---- *)
Inductive bop := BSet | BAnd | BOr | BXor | BInv.

Definition bfun (o : bop) (x y : bool) : bool :=
  match o with BSet => y | BAnd => x && y | BOr => x || y | BXor => xorb x y | BInv => negb x end.

Definition bits8 : list Z := [0; 1; 2; 3; 4; 5; 6; 7].

(* np.packbits(bits, bitorder="little")[0] *)
Definition pack8 (l : list bool) : Z := fold_right (fun (x : bool) acc => Z.b2z x + 2 * acc) 0 l.

(* unpack the byte, apply the operation on bits [lo, hi) with the operand byte's bits, pack *)
Definition edge_byte (o : bop) (lo hi : Z) (b ob : Z) : Z :=
  pack8 (map (fun k => let x := Z.testbit b k in
                       if (lo <=? k) && (k <? hi) then bfun o x (Z.testbit ob k) else x) bits8).

(* whole-byte operation (uint8): value, &, |, ^, ~ *)
Definition mid_byte (o : bop) (b ob : Z) : Z :=
  match o with
  | BSet => ob
  | BAnd => Z.land b ob
  | BOr => Z.lor b ob
  | BXor => Z.lxor b ob
  | BInv => 255 - b
  end.

(* [data] = the view's byte buffer (self._data), [v] the view with vds = 0, vde = len(data);
   [ob j] = the operand's byte j (255 / 0 everywhere for a boolean operand) *)
Definition bulk_op (o : bop) (v : pview) (data : list Z) (ob : Z -> Z) : list Z :=
  let d := extract_fml v in
  let nd := vndata v in
  let d1 := if f_lo d <? f_hi d
            then zupd data 0 (edge_byte o (f_lo d) (f_hi d) (znth 0 data 0) (ob 0)) else data in
  let d2 := if l_lo d <? l_hi d
            then zupd d1 (nd - 1) (edge_byte o (l_lo d) (l_hi d) (znth 0 data (nd - 1)) (ob (nd - 1))) else d1 in
  fold_left (fun t j => zupd t j (mid_byte o (znth 0 t j) (ob j))) (zrange (m_lo d) (m_hi d)) d2.


(* ---- index-array operations: _set_bits_at_locs / _clear_bits_at_locs / _test_bits_at_locs:
   np.bitwise_or.at(data, locs // 8, 1 << locs % 8), np.bitwise_and.at(data, locs // 8, ~(1 << locs % 8)),
   sequential over (possibly repeated) locations already shifted by the start index ---- *)
Definition bit (data : list Z) (k : Z) : bool := Z.testbit (znth 0 data (k / 8)) (k mod 8).

Definition set_bit_at (t : list Z) (p : Z) : list Z :=
  zupd t (p / 8) (Z.lor (znth 0 t (p / 8)) (2 ^ (p mod 8))).
Definition clear_bit_at (t : list Z) (p : Z) : list Z :=
  zupd t (p / 8) (Z.land (znth 0 t (p / 8)) (255 - 2 ^ (p mod 8))).
Definition test_bit_at (t : list Z) (p : Z) : bool :=
  negb (Z.land (znth 0 t (p / 8)) (2 ^ (p mod 8)) =? 0).

Definition set_bits (locs : list Z) (data : list Z) : list Z := fold_left set_bit_at locs data.
Definition clear_bits (locs : list Z) (data : list Z) : list Z := fold_left clear_bit_at locs data.


(* ---- sum() of a view (n_valid of a bit-packed map): edge bytes unpacked, masked outside the view and
   summed; middle bytes through the SWAR table ---- *)
(* np.sum of the unpacked byte after masking everything outside bits [lo, hi) *)
Definition masked_count (b lo hi : Z) : Z := zcount (Z.testbit b) (zrange lo hi).

Definition mid_sum (data : list Z) (lo hi : Z) : Z :=
  fold_left (fun acc j => acc + lut_entry (znth 0 data j)) (zrange lo hi) 0.

Definition sum_view (v : pview) (data : list Z) : Z :=
  let d := extract_fml v in
  let nd := vndata v in
  (if f_lo d <? f_hi d then masked_count (znth 0 data 0) (f_lo d) (f_hi d) else 0) +
  (if l_lo d <? l_hi d then masked_count (znth 0 data (nd - 1)) (l_lo d) (l_hi d) else 0) +
  mid_sum data (m_lo d) (m_hi d).

