(* Packed.v — model of healsparse/packedBoolArray.py: the arithmetic of slice views
   (__getitem__ with a slice), the first/middle/last decomposition of an unaligned view, and the
   SWAR population-count table (C05). *)
From HS Require Import Prelude.

(* a view of a byte buffer: bytes [vds, vde) of the ROOT buffer, bits [vsi, vst) of those bytes *)
Record pview := mkview { vds : Z; vde : Z; vsi : Z; vst : Z }.

Definition vsize (v : pview) : Z := vst v - vsi v.
Definition vndata (v : pview) : Z := vde v - vds v.

(* packedBoolArray.py:233-291 __getitem__(slice(a, b)) on the view v; None = ValueError.
   [a], [b] are the explicit slice bounds (a = None / b = None: omitted). *)
Definition slice_view (v : pview) (a b : option Z) : option pview :=
  let si0 := vsi v in
  let size := vsize v in
  let bad_start := match a with Some x => (x <? 0) || (size <? x) | None => false end in
  if bad_start then None else
  let key_start := match a with Some x => x | None => 0 end in
  let data_start := match a with Some x => (x + si0) / 8 | None => 0 end in
  let start_index := match a with Some x => (x + si0) mod 8 | None => si0 end in
  let stop_index0 := match a with Some x => vst v - data_start * 8 | None => vst v end in
  match b with
  | None => Some (mkview (vds v + data_start) (vde v) start_index stop_index0)
  | Some y =>
    let stop := if y <? 0 then y + size else y in
    if (size <? stop) || (stop <? key_start) then None else
    let sz := stop - key_start in
    let offset := if (sz + start_index) mod 8 =? 0 then 0 else 1 in
    let data_stop := (stop + si0) / 8 + offset in
    Some (mkview (vds v + data_start) (vds v + data_stop) start_index
                 ((data_stop - data_start - offset) * 8 + (stop + si0) mod 8))
  end.

(* the invariant of the constructor: 0 <= start < 8, stop within 8 of the intrinsic size *)
Definition view_ok (v : pview) : Prop :=
  0 <= vsi v <= 7 /\ vsi v <= vst v /\ 0 <= vndata v /\
  (vsize v = 0 \/ (8 * vndata v - 7 <= vst v <= 8 * vndata v)).

(* absolute position (in the root buffer) of bit k of the view *)
Definition abs_bit (v : pview) (k : Z) : Z := 8 * vds v + vsi v + k.

(* packedBoolArray.py:463-545 _extract_first_middle_last as a descriptor:
   (first byte bit range, middle byte range, last byte bit range), byte indices relative to the view;
   an absent part is an empty range *)
Record fml := mkfml { f_lo : Z; f_hi : Z;      (* bits [f_lo, f_hi) of byte 0 *)
                      m_lo : Z; m_hi : Z;      (* whole bytes [m_lo, m_hi) *)
                      l_lo : Z; l_hi : Z }.    (* bits [l_lo, l_hi) of the last byte *)

Definition extract_fml (v : pview) : fml :=
  let nd := vndata v in let si := vsi v in let st := vst v in
  if (si =? 0) && (st =? nd * 8) then mkfml 0 0 0 nd 0 0
  else if si =? 0 then
    if st <? 8 then mkfml 0 0 0 0 0 (st mod 8)
    else mkfml 0 0 0 (nd - 1) 0 (st mod 8)
  else
    if st =? nd * 8 then
      (if nd =? 1 then mkfml si 8 0 0 0 0 else mkfml si 8 1 nd 0 0)
    else
      if nd =? 1 then mkfml si st 0 0 0 0
      else mkfml si 8 1 (nd - 1) 0 (st mod 8).

(* the bit positions (relative to the view's first byte) the three parts cover *)
Definition fml_covers (nd : Z) (d : fml) (k : Z) : bool :=
  ((f_lo d <=? k) && (k <? f_hi d)) ||
  ((8 * m_lo d <=? k) && (k <? 8 * m_hi d)) ||
  ((8 * (nd - 1) + l_lo d <=? k) && (k <? 8 * (nd - 1) + l_hi d)).

(* packedBoolArray.py:679-691 the population-count table, uint8 arithmetic (mod 256) *)
Definition u8 (x : Z) : Z := x mod 256.
Definition lut_entry (x : Z) : Z :=
  let a := u8 (x - Z.land (Z.shiftr x 1) 85) in
  let b := u8 (Z.land a 51 + Z.land (Z.shiftr a 2) 51) in
  let c := Z.land (u8 (b + Z.shiftr b 4)) 15 in
  u8 (c * 1).

Fixpoint popcount_nat (n : nat) (x : Z) : Z :=
  match n with O => 0 | S k => (if Z.testbit x (Z.of_nat k) then 1 else 0) + popcount_nat k x end.
Definition popcount8 (x : Z) : Z := popcount_nat 8 x.
