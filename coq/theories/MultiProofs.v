(* MultiProofs.v — the dense specification of the union/intersection operations folds exactly the
   inputs valid at the pixel, and a filler that is a left identity of the operation drops out of
   the fold (C06). *)
From Coq Require Import QArith.
From HS Require Import Prelude Cov Map Spec Ops Spec2 Exec Exec2.
Open Scope Z_scope.

Section Fold.
Variable V : Type.
Variable f : V -> V -> V.

(* a left identity drops out: the fold is over exactly the (valid) inputs, first one as the seed *)
Theorem fold_identity_drops e v vs : f e v = v -> fold_left f (v :: vs) e = fold_left f vs v.
Proof. intros H. cbn [fold_left]. rewrite H. reflexivity. Qed.

End Fold.

Section Value.
Variable V : Type.
Variable dv : V.

Lemma d_apply_operation_read f conv filler sentinel union ff (ds : list (vdmap V)) d0 r d p :
  ds = d0 :: r ->
  d_apply_operation V dv f conv filler sentinel union ff ds = Some d ->
  0 <= p < d_npix V (snd d0) ->
  d_read V dv d p =
  let vs := d_vals_at V dv ds p in
  if union then match vs with [] => sentinel | _ => fold_left f vs filler end
  else if zlen vs =? zlen ds then
         (if ff then match vs with [] => sentinel | v0 :: t => fold_left f t (conv v0) end
          else fold_left f vs filler)
       else sentinel.
Proof.
  intros E H Hp. subst ds. unfold d_apply_operation in H. injection H as <-.
  unfold Spec.d_read. cbn [dense].
  rewrite (znth_map _ 0) by (rewrite zlen_zrange; lia). rewrite znth_zrange by lia.
  rewrite Z.add_0_l. reflexivity.
Qed.

(* union: a pixel valid in no input is invalid in the result *)
Theorem union_no_valid_input f conv filler sentinel (ds : list (vdmap V)) d0 r d p :
  ds = d0 :: r ->
  d_apply_operation V dv f conv filler sentinel true false ds = Some d ->
  0 <= p < d_npix V (snd d0) -> d_vals_at V dv ds p = [] -> d_read V dv d p = sentinel.
Proof.
  intros E H Hp Hv. rewrite (d_apply_operation_read f conv filler sentinel true false ds d0 r d p E H Hp).
  cbv zeta. rewrite Hv. reflexivity.
Qed.

(* union: the value is the operation folded, in list order, over the inputs valid at the pixel *)
Theorem union_folds_valid_inputs f conv filler sentinel (ds : list (vdmap V)) d0 r d p v vs :
  ds = d0 :: r ->
  d_apply_operation V dv f conv filler sentinel true false ds = Some d ->
  0 <= p < d_npix V (snd d0) -> d_vals_at V dv ds p = v :: vs -> f filler v = v ->
  d_read V dv d p = fold_left f vs v.
Proof.
  intros E H Hp Hv Hid. rewrite (d_apply_operation_read f conv filler sentinel true false ds d0 r d p E H Hp).
  cbv zeta. rewrite Hv. apply fold_identity_drops. exact Hid.
Qed.

(* intersection: valid iff valid in all inputs; the fold is over all of them *)
Theorem intersection_folds_all_inputs f conv filler sentinel (ds : list (vdmap V)) d0 r d p v vs :
  ds = d0 :: r ->
  d_apply_operation V dv f conv filler sentinel false false ds = Some d ->
  0 <= p < d_npix V (snd d0) -> d_vals_at V dv ds p = v :: vs -> zlen (v :: vs) = zlen ds -> f filler v = v ->
  d_read V dv d p = fold_left f vs v.
Proof.
  intros E H Hp Hv Hl Hid. rewrite (d_apply_operation_read f conv filler sentinel false false ds d0 r d p E H Hp).
  cbv zeta. rewrite Hv. rewrite Hl, Z.eqb_refl. apply fold_identity_drops. exact Hid.
Qed.

Theorem intersection_missing_input f conv filler sentinel ff (ds : list (vdmap V)) d0 r d p :
  ds = d0 :: r ->
  d_apply_operation V dv f conv filler sentinel false ff ds = Some d ->
  0 <= p < d_npix V (snd d0) -> zlen (d_vals_at V dv ds p) <> zlen ds -> d_read V dv d p = sentinel.
Proof.
  intros E H Hp Hl. rewrite (d_apply_operation_read f conv filler sentinel false ff ds d0 r d p E H Hp).
  cbv zeta. destruct (zlen (d_vals_at V dv ds p) =? zlen ds) eqn:E2; [lia|reflexivity].
Qed.

End Value.

(* the fillers used by the operations are left identities of the element functions of the
   executable model (on canonical = reduced rationals; integers are canonical) *)
Definition canonical (q : Q) : Prop := Qred q = q.

Lemma qfun_codes : qfun 0 = qadd /\ qfun 2 = qmul /\ qfun 5 = qbit Z.land /\ qfun 6 = qbit Z.lor /\
                   qfun 7 = qbit Z.lxor /\ qfun 8 = qmax /\ qfun 9 = qmin.
Proof. repeat split; reflexivity. Qed.

Theorem sum_identity v : canonical v -> qfun 0 q0 v = v.
Proof. intros H. change (qfun 0) with qadd. unfold qadd, q0, canonical in *. rewrite <- H at 2. apply Qred_complete. ring. Qed.

Theorem product_identity v : canonical v -> qfun 2 1%Q v = v.
Proof. intros H. change (qfun 2) with qmul. unfold qmul, canonical in *. rewrite <- H at 2. apply Qred_complete. ring. Qed.

Theorem or_identity z : qfun 6 (qz 0) (qz z) = qz z.
Proof. change (qfun 6) with (qbit Z.lor). reflexivity. Qed.

Theorem xor_identity z : qfun 7 (qz 0) (qz z) = qz z.
Proof. change (qfun 7) with (qbit Z.lxor). reflexivity. Qed.

Theorem and_identity_signed z : qfun 5 (qz (-1)) (qz z) = qz z.
Proof. change (qfun 5) with (qbit Z.land). unfold qbit, qz. cbn [Qnum]. f_equal. apply Z.land_m1_l. Qed.

Theorem and_identity_unsigned W z : 0 <= z < 2 ^ W -> 0 <= W -> qfun 5 (qz (Z.ones W)) (qz z) = qz z.
Proof.
  intros Hz HW. change (qfun 5) with (qbit Z.land). unfold qbit, qz. cbn [Qnum]. f_equal.
  rewrite Z.land_comm, Z.land_ones by exact HW. apply Z.mod_small. exact Hz.
Qed.

Theorem max_identity lo v : qle lo v = true -> qfun 8 lo v = v.
Proof. intros H. change (qfun 8) with qmax. unfold qmax. rewrite H. reflexivity. Qed.

Theorem min_identity hi v : qle hi v = false -> qfun 9 hi v = v.
Proof. intros H. change (qfun 9) with qmin. unfold qmin. rewrite H. reflexivity. Qed.

(* max with the old filler 0 is NOT an identity on negative values (the defect repaired by fix F03) *)
Theorem max_zero_filler_refuted : exists v, qfun 8 q0 v <> v.
Proof. exists (qz (-3)). vm_compute. discriminate. Qed.
