(* AccountProofs.v — C02: on every well-formed map the accounting interfaces of the L1 model
   (valid_pixels through the block table, the cached count) describe exactly the set
   { p | valid (read m p) } of the dense abstraction. *)
From Coq Require Import Sorting.Permutation.
From HS Require Import Prelude Cov Map Spec Params AtFold MapProofs UpdateProofs HistoryProofs LayoutProofs.

Lemma opt_map_map {A B} (f : A -> option B) (g : A -> B) l :
  (forall x, In x l -> f x = Some (g x)) -> opt_map f l = Some (map g l).
Proof.
  induction l as [|x t IH]; intros H; cbn [opt_map map]; [reflexivity|].
  rewrite (H x (or_introl eq_refl)), IH by (intros y Hy; apply H; right; exact Hy). reflexivity.
Qed.

Lemma NoDup_map_inj {A B} (f : A -> B) l :
  NoDup l -> (forall x y, In x l -> In y l -> f x = f y -> x = y) -> NoDup (map f l).
Proof.
  induction l as [|x t IH]; intros ND Inj; cbn [map]; [constructor|].
  inversion ND as [|? ? Hnin ND']; subst. constructor.
  - intro Hin. apply in_map_iff in Hin. destruct Hin as [y [E Hy]].
    apply Hnin. rewrite (Inj x y); [exact Hy|left; reflexivity|right; exact Hy|symmetry; exact E].
  - apply IH; [exact ND'|]. intros a b Ha Hb. apply Inj; right; assumption.
Qed.

Lemma zcount_index {A} (f : A -> bool) (d : A) (l : list A) :
  zcount f l = zlen (filter (fun i => f (znth d l i)) (zrange 0 (zlen l))).
Proof.
  unfold zrange. rewrite Z.sub_0_r. unfold zlen at 2. rewrite Nat2Z.id.
  assert (G : forall (lo : Z) (l : list A),
             zcount f l = zlen (filter (fun i => f (znth d l (i - lo))) (zrange_nat lo (length l)))).
  { clear l. intros lo l; revert lo; induction l as [|x t IH]; intros lo; [reflexivity|].
    cbn [length zrange_nat filter]. rewrite zcount_cons, Z.sub_diag. cbn [znth]. rewrite Z.eqb_refl.
    rewrite (IH (lo + 1)).
    assert (E : filter (fun i => f (znth d t (i - (lo + 1)))) (zrange_nat (lo + 1) (length t)) =
                filter (fun i => f (if i - lo =? 0 then x else znth d t (i - lo - 1))) (zrange_nat (lo + 1) (length t))).
    { apply filter_ext_in. intros i Hi. apply In_zrange_nat in Hi.
      destruct (i - lo =? 0) eqn:E0; [lia|]. replace (i - lo - 1) with (i - (lo + 1)) by lia. reflexivity. }
    rewrite E. destruct (f x); [rewrite zlen_cons; lia|lia]. }
  rewrite (G 0 l). f_equal. apply filter_ext. intros i. rewrite Z.sub_0_r. reflexivity.
Qed.

Section Account.
Variable P : params.
Notation V := (p_V P).
Notation valid := (p_valid P).
Notation dv := (p_dv P).
Notation smap := (smap V).
Notation ncov := (ncov V).
Notation npix := (npix V).
Notation covered := (covered V).
Notation off := (off V).
Notation ncovered := (ncovered V).
Notation cell := (cell V).
Notation read := (read V dv).
Notation wf := (wf P).
Notation b2c := (b2c P).
Notation valid_cells := (valid_cells V valid dv).
Notation valid_pixels := (valid_pixels V valid dv).
Notation count_valid := (count_valid V valid).
Notation abs := (abs V dv).

(* the pixel a storage cell belongs to, as the code computes it *)
Definition pix (m : smap) (i : Z) : Z :=
  i - znth 0 (idx m) (znth 0 (b2c m) (i / nfine m - 1)).

Lemma In_valid_cells m i :
  In i (valid_cells m) <-> 0 <= i < zlen (sp m) /\ valid (znth dv (sp m) i) = true.
Proof. unfold Map.valid_cells. rewrite filter_In, In_zrange. reflexivity. Qed.

Lemma valid_cell_block m i :
  wf m -> In i (valid_cells m) -> 1 <= i / nfine m <= ncovered m.
Proof.
  intros W Hi. apply In_valid_cells in Hi. destruct Hi as [Hr Hv].
  pose proof (wf_nf P m W) as Hnf. pose proof (wf_len P m W) as Hlen.
  assert (nfine m <= i).
  { destruct (Z_lt_dec i (nfine m)) as [Hlt|]; [|lia].
    rewrite (wf_over P m W) in Hv by lia. rewrite (wf_blank P m W) in Hv. discriminate. }
  split.
  - apply Z.div_le_lower_bound; lia.
  - assert (i / nfine m < ncovered m + 1); [|lia]. apply Z.div_lt_upper_bound; lia.
Qed.

Lemma pix_spec m i :
  wf m -> In i (valid_cells m) ->
  pixel_of_cell_with V (b2c m) m i = Some (pix m i) /\
  0 <= pix m i < npix m /\ covered m (pix m i / nfine m) = true /\ cell m (pix m i) = i.
Proof.
  intros W Hi. pose proof (valid_cell_block m i W Hi) as Hb.
  pose proof (wf_nf P m W) as Hnf.
  destruct (b2c_block P m (i / nfine m) W Hb) as [Hc [Hcov Hoff]].
  set (c := znth 0 (b2c m) (i / nfine m - 1)) in *.
  assert (Ep : pix m i = c * nfine m + i mod nfine m).
  { unfold pix. fold c. unfold Map.off, cov_off in Hoff. lia. }
  pose proof (Z.mod_pos_bound i (nfine m) Hnf) as Hm.
  assert (Ec : pix m i / nfine m = c).
  { rewrite Ep. rewrite Z.add_comm, Z.div_add by lia. rewrite Z.div_small by lia. lia. }
  split; [|split; [|split]].
  - unfold Map.pixel_of_cell_with, cov_pixels_from_index_with, py_get.
    rewrite (zlen_b2c P).
    destruct (i / nfine m - 1 <? 0) eqn:E1; [lia|].
    destruct ((0 <=? i / nfine m - 1) && (i / nfine m - 1 <? ncovered m)) eqn:E2; [|lia].
    reflexivity.
  - rewrite Ep. unfold Map.npix. nia.
  - rewrite Ec. exact Hcov.
  - unfold Map.cell. rewrite Ec. unfold pix. fold c. lia.
Qed.

(* valid_pixels never raises on a well-formed map and lists, without repetition, exactly the
   pixels whose value is valid *)
Theorem valid_pixels_spec m :
  wf m ->
  valid_pixels m = Some (map (pix m) (valid_cells m)) /\
  NoDup (map (pix m) (valid_cells m)) /\
  forall p, In p (map (pix m) (valid_cells m)) <-> (0 <= p < npix m /\ valid (read m p) = true).
Proof.
  intros W. split; [|split].
  - unfold Map.valid_pixels. fold (b2c m). apply opt_map_map.
    intros i Hi. apply (pix_spec m i W Hi).
  - apply NoDup_map_inj.
    + unfold Map.valid_cells. apply NoDup_filter. apply NoDup_zrange.
    + intros x y Hx Hy E.
      destruct (pix_spec m x W Hx) as [_ [_ [_ Cx]]]. destruct (pix_spec m y W Hy) as [_ [_ [_ Cy]]].
      rewrite <- Cx, <- Cy, E. reflexivity.
  - intros p. split.
    + intros Hin. apply in_map_iff in Hin. destruct Hin as [i [E Hi]]. subst p.
      destruct (pix_spec m i W Hi) as [_ [Hr [_ Hc]]]. split; [exact Hr|].
      unfold Map.read. rewrite Hc. apply In_valid_cells in Hi. apply Hi.
    + intros [Hr Hv]. apply in_map_iff. exists (cell m p).
      assert (Hi : In (cell m p) (valid_cells m)).
      { apply In_valid_cells. split; [apply (cell_range P); assumption|exact Hv]. }
      split; [|exact Hi].
      destruct (pix_spec m (cell m p) W Hi) as [_ [Hr' [Hcov' Hc']]].
      apply (cell_inj P m); assumption.
Qed.

(* the coverage mask contains every coverage pixel that holds a valid pixel *)
Theorem valid_implies_covered m p :
  wf m -> 0 <= p < npix m -> valid (read m p) = true -> covered m (p / nfine m) = true.
Proof.
  intros W Hp Hv. destruct (covered m (p / nfine m)) eqn:E; [reflexivity|].
  rewrite (read_uncovered P m p W Hp E) in Hv. rewrite (wf_blank P m W) in Hv. discriminate.
Qed.

(* the count (what n_valid computes and caches) is the number of valid pixels of the dense map *)
Theorem count_valid_spec m :
  wf m -> count_valid m = d_n_valid V valid (abs m).
Proof.
  intros W. destruct (valid_pixels_spec m W) as [_ [ND Hmem]].
  unfold Map.count_valid. rewrite (zcount_index valid dv). fold (valid_cells m).
  unfold Spec.d_n_valid, Spec.abs. cbn [dense]. rewrite zcount_map.
  transitivity (zlen (map (pix m) (valid_cells m))); [rewrite zlen_map; reflexivity|].
  unfold zcount, zlen. f_equal. apply Permutation_length. apply NoDup_Permutation.
  - exact ND.
  - apply NoDup_filter. apply NoDup_zrange.
  - intros p. rewrite Hmem, filter_In, In_zrange. reflexivity.
Qed.

(* ---- the cache ---- *)
Definition cache_ok (m : smap) : Prop := cache m = None \/ cache m = Some (count_valid m).

Lemma n_valid_sound m :
  cache_ok m -> snd (n_valid V valid m) = count_valid m /\ cache_ok (fst (n_valid V valid m)).
Proof.
  intros [H|H]; unfold Map.n_valid; rewrite H; cbn [fst snd].
  - split; [reflexivity|]. right. reflexivity.
  - split; [reflexivity|]. right. exact H.
Qed.

Lemma update_cache_ok m o pvs na :
  cache_ok (update V dv (p_vadd P) (p_vor P) (p_vand P) (p_vzero P) (p_is_sent P) (p_sent_nonzero P) m o pvs na).
Proof.
  left. rewrite (update_unfold P). cbv zeta.
  destruct (outcov P m pvs) as [|x r]; [reflexivity|]. destruct na; reflexivity.
Qed.

(* n_valid only touches the memo *)
Lemma n_valid_frame m :
  nfine (fst (n_valid V valid m)) = nfine m /\ idx (fst (n_valid V valid m)) = idx m /\
  sp (fst (n_valid V valid m)) = sp m /\ blank (fst (n_valid V valid m)) = blank m.
Proof. unfold Map.n_valid. destruct (cache m); cbn; repeat split; reflexivity. Qed.

Lemma n_valid_wf m : wf m -> wf (fst (n_valid V valid m)).
Proof.
  intros W. destruct (n_valid_frame m) as [E1 [E2 [E3 E4]]].
  destruct W as [W1 W2 W3 W4 W5 W6].
  constructor; unfold Map.ncovered, Map.covered, Map.off, Map.ncov in *; rewrite ?E1, ?E2, ?E3, ?E4; assumption.
Qed.

Lemma n_valid_abs m : abs (fst (n_valid V valid m)) = abs m.
Proof.
  destruct (n_valid_frame m) as [E1 [E2 [E3 E4]]].
  unfold Spec.abs, Map.npix, Map.ncov, Map.read, Map.cell. rewrite E1, E2, E3, E4. reflexivity.
Qed.

(* ---- histories interleaving updates and count queries ---- *)
Inductive aop := AUpd (h : hop P) | AQuery.

Definition astep (m : smap) (a : aop) : smap :=
  match a with
  | AUpd h => hstep P m h
  | AQuery => fst (n_valid V valid m)
  end.

Definition aop_ok (np : Z) (a : aop) : Prop :=
  match a with AUpd h => forall pv, In pv (h_pvs P h) -> 0 <= fst pv < np | AQuery => True end.

Definition dastep (d : dmap V) (a : aop) : dmap V :=
  match a with AUpd h => dstep P d h | AQuery => d end.

(* whatever was asked before, after any interleaving of updates and queries the memo is either
   empty or equal to the true count, the state is well formed and still denotes the dense array
   given the same updates: so the NEXT count query answers the dense array's count *)
Theorem cache_history ops : forall m,
  wf m -> cache_ok m -> (forall a, In a ops -> aop_ok (npix m) a) ->
  let m' := fold_left astep ops m in
  wf m' /\ cache_ok m' /\ npix m' = npix m /\
  abs m' = fold_left dastep ops (abs m) /\
  snd (n_valid V valid m') = d_n_valid V valid (abs m').
Proof.
  induction ops as [|a r IH]; intros m W C H; cbn [fold_left].
  - cbv zeta. split; [exact W|]. split; [exact C|]. split; [reflexivity|]. split; [reflexivity|].
    rewrite (proj1 (n_valid_sound m C)). apply count_valid_spec. exact W.
  - assert (Ha : aop_ok (npix m) a) by (apply H; left; reflexivity).
    destruct a as [h|]; cbn [astep dastep].
    + assert (Hok : pvs_ok P m (h_pvs P h)) by exact Ha.
      pose proof (update_wf P m (h_o P h) (h_pvs P h) (h_na P h) W Hok) as W1.
      pose proof (npix_update P m (h_o P h) (h_pvs P h) (h_na P h)) as N1.
      destruct (IH (hstep P m h)) as [W2 [C2 [N2 [A2 Q2]]]].
      * exact W1.
      * apply update_cache_ok.
      * unfold hstep. rewrite N1. intros a Hin. apply H. right; exact Hin.
      * cbv zeta. split; [exact W2|]. split; [exact C2|]. split; [rewrite N2; exact N1|]. split; [|exact Q2].
        rewrite A2. unfold hstep, dstep. rewrite (update_refines P) by assumption. reflexivity.
    + destruct (IH (fst (n_valid V valid m))) as [W2 [C2 [N2 [A2 Q2]]]].
      * apply n_valid_wf. exact W.
      * apply n_valid_sound. exact C.
      * assert (E : npix (fst (n_valid V valid m)) = npix m).
        { destruct (n_valid_frame m) as [E1 [E2 _]]. unfold Map.npix, Map.ncov. rewrite E1, E2. reflexivity. }
        rewrite E. intros a Hin. apply H. right; exact Hin.
      * cbv zeta. split; [exact W2|]. split; [exact C2|]. split; [|split; [|exact Q2]].
        -- rewrite N2. destruct (n_valid_frame m) as [E1 [E2 _]]. unfold Map.npix, Map.ncov. rewrite E1, E2. reflexivity.
        -- rewrite A2, n_valid_abs. reflexivity.
Qed.

End Account.
