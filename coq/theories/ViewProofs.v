(* ViewProofs.v — writes through a single-field view of a record-array map (C14), at the layout level:
   the write replaces, at each addressed pixel, the stored record by the same record with that one field
   changed.  For any well-formed parent (any block order), any duplicate-free pixel list: the result is
   well formed, addressed pixels read the old record with the field set, every other pixel is untouched;
   every other field of every pixel is unchanged; and when the field is not the primary one the valid
   set is unchanged. *)
From HS Require Import Prelude Cov Map Spec Params AtFold MapProofs UpdateProofs HistoryProofs MultiRefine.

Section View.
Variable P : params.
Notation V := (p_V P).
Notation valid := (p_valid P).
Notation dv := (p_dv P).
Notation wf := (wf P).
Notation read := (read V dv).
Notation upd := (update V dv (p_vadd P) (p_vor P) (p_vand P) (p_vzero P) (p_is_sent P) (p_sent_nonzero P)).

Variable F : Type.                 (* the field's value type *)
Variable setf : V -> F -> V.       (* the record with this field replaced *)

(* view[pixels] = x: the parent's records at those pixels with the field set to x(pixel) *)
Definition view_write (m : smap V) (ps : list Z) (x : Z -> F) : smap V :=
  upd m URepl (map (fun p => (p, setf (read m p) (x p))) ps) false.

Theorem view_write_spec (m : smap V) (ps : list Z) (x : Z -> F) :
  wf m -> NoDup ps -> (forall p, In p ps -> 0 <= p < npix V m) ->
  wf (view_write m ps x) /\ npix V (view_write m ps x) = npix V m /\
  forall q, 0 <= q < npix V m ->
    read (view_write m ps x) q = if existsb (Z.eqb q) ps then setf (read m q) (x q) else read m q.
Proof.
  intros W ND Hr. unfold view_write.
  assert (Hok : pvs_ok P m (map (fun p => (p, setf (read m p) (x p))) ps)).
  { intros pv Hpv. apply in_map_iff in Hpv. destruct Hpv as [p [<- Hp]]. cbn [fst]. apply Hr. exact Hp. }
  split; [apply (update_wf P); assumption|].
  split; [apply (npix_update P)|].
  intros q Hq. rewrite (update_read P m URepl _ false q W Hok Hq).
  destruct (vals_at_inj (fun p => p) (fun p => setf (read m p) (x p)) ps q ND (fun p _ E => E)) as [V1 V2].
  unfold pt.
  destruct (existsb (Z.eqb q) ps) eqn:E.
  - assert (Hin : In q ps).
    { apply existsb_exists in E. destruct E as [y [Hy Ey]]. assert (q = y) by lia. subst y. exact Hy. }
    rewrite (V1 Hin). reflexivity.
  - assert (Hnin : ~ In q ps).
    { intros Hin. assert (existsb (Z.eqb q) ps = true) by (apply existsb_exists; exists q; split; [exact Hin|apply Z.eqb_refl]).
      congruence. }
    rewrite (V2 Hnin). reflexivity.
Qed.

(* any observation of a record that the field setter does not change (another field, or validity when the
   field is not the primary one) is unchanged at EVERY pixel *)
Theorem view_write_preserves (A : Type) (obs : V -> A) (m : smap V) (ps : list Z) (x : Z -> F) q :
  wf m -> NoDup ps -> (forall p, In p ps -> 0 <= p < npix V m) -> 0 <= q < npix V m ->
  (forall v y, obs (setf v y) = obs v) ->
  obs (read (view_write m ps x) q) = obs (read m q).
Proof.
  intros W ND Hr Hq Hobs.
  destruct (view_write_spec m ps x W ND Hr) as [_ [_ R]]. rewrite (R q Hq).
  destruct (existsb (Z.eqb q) ps); [apply Hobs|reflexivity].
Qed.

(* in particular the valid set is unchanged by writes through a non-primary field view *)
Corollary view_write_keeps_valid_set (m : smap V) (ps : list Z) (x : Z -> F) q :
  wf m -> NoDup ps -> (forall p, In p ps -> 0 <= p < npix V m) -> 0 <= q < npix V m ->
  (forall v y, valid (setf v y) = valid v) ->
  valid (read (view_write m ps x) q) = valid (read m q).
Proof. intros W ND Hr Hq Hv. apply (view_write_preserves bool valid); assumption. Qed.

End View.
