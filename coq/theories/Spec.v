(* Spec.v — L0: the dense specification.  A map is a full-resolution array of cells plus a
   coverage mask; every API operation is a pointwise function on that.  "A full-resolution
   HEALPix array initialised to the sentinel and given the same updates" (C01) is [dense]. *)
From HS Require Import Prelude Cov Map.

Section Spec.
Variable V : Type.
Variable valid : V -> bool.
Variable dv : V.
Variables (vadd vor vand : V -> V -> V).
Variable vzero : V.
Variable is_sent : V -> bool.
Variable sent_nonzero : bool.

Record dmap := mkd {
  d_nfine : Z;
  dense : list V;          (* one cell per sky pixel, 12*nside_sparse^2 of them *)
  dcov : list bool;        (* coverage mask *)
  d_blank : V
}.

Definition d_npix (d : dmap) : Z := zlen (dense d).
Definition d_ncov (d : dmap) : Z := zlen (dcov d).

Definition d_make_empty (ncov0 nfine0 : Z) (bl : V) (cov_pixels : option (list Z)) : dmap :=
  mkd nfine0 (zrepeat bl (ncov0 * nfine0))
      (map (fun c => match cov_pixels with
                     | None => false
                     | Some ps => existsb (Z.eqb c) ps
                     end) (zrange 0 ncov0))
      bl.

Definition d_read (d : dmap) (p : Z) : V := znth dv (dense d) p.

(* the dense update: the same sequential ufunc.at semantics applied to the dense array.
   With no_append (clearing with None) pixels outside the coverage mask are left alone:
   they already hold the blank value. *)
Definition d_update (d : dmap) (o : uop) (pvs : list (Z * V)) (no_append : bool) : dmap :=
  let incov pv := znth false (dcov d) (fst pv / d_nfine d) in
  let pvs' := if no_append then filter incov pvs else pvs in
  mkd (d_nfine d)
      (do_op V dv vadd vor vand vzero is_sent sent_nonzero o (dense d) pvs')
      (if no_append then dcov d
       else map (fun c => znth false (dcov d) c || existsb (fun pv => fst pv / d_nfine d =? c) pvs)
                (zrange 0 (d_ncov d)))
      (d_blank d).

(* accounting on the dense array *)
Definition d_valid_pixels (d : dmap) : list Z :=
  filter (fun p => valid (d_read d p)) (zrange 0 (d_npix d)).
Definition d_n_valid (d : dmap) : Z := zcount valid (dense d).
Definition d_cov_count (d : dmap) (c : Z) : Z :=
  zcount (fun p => valid (d_read d p)) (zrange (c * d_nfine d) ((c + 1) * d_nfine d)).

(* fraction numerators: #valid children of coarse pixel q when r fine pixels make one coarse *)
Definition d_group_count (d : dmap) (r q : Z) : Z :=
  zcount (fun p => valid (d_read d p)) (zrange (q * r) ((q + 1) * r)).
Definition d_group_counts (d : dmap) (r : Z) : list Z :=
  map (d_group_count d r) (zrange 0 (d_npix d / r)).
Definition d_cov_counts (d : dmap) : list Z := map (d_cov_count d) (zrange 0 (d_ncov d)).
Definition d_valid_pixels_covpix (d : dmap) (c : Z) : list Z :=
  filter (fun p => valid (d_read d p)) (zrange (c * d_nfine d) ((c + 1) * d_nfine d)).
(* restriction to one coverage pixel *)
Definition d_single_covpix (d : dmap) (c : Z) : dmap :=
  let inside p := (c * d_nfine d <=? p) && (p <? (c + 1) * d_nfine d) in
  let cov := znth false (dcov d) c in
  mkd (d_nfine d)
      (map (fun p => if inside p && cov then d_read d p else d_blank d) (zrange 0 (d_npix d)))
      (map (fun c' => (c' =? c) && cov) (zrange 0 (d_ncov d)))
      (d_blank d).

(* abstraction L1 -> L0 *)
Definition abs (m : smap V) : dmap :=
  mkd (nfine m)
      (map (read V dv m) (zrange 0 (npix V m)))
      (coverage_mask (nfine m) (idx m))
      (blank m).

End Spec.

Arguments mkd {V}.
Arguments d_nfine {V}.
Arguments dense {V}.
Arguments dcov {V}.
Arguments d_blank {V}.
