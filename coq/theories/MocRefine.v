(* MocRefine.v — the MOC writer loop (io_map_fits._write_moc_fits) analysed for every valid set:
   each valid pixel ends with the UNIQ number of its coarsest full ancestor (not coarser than the
   coverage order), the written cells expand to exactly the valid set, two different written cells
   never share a pixel, and no cell is coarser than the coverage order (C17). *)
From HS Require Import Prelude Moc MocProofs.

Lemma combine3_map {A} (vs : list A) (fl : A -> bool) (u : A -> Z) (k : A -> bool -> Z -> Z) :
  map (fun pfu : A * bool * Z => let '(p, f, x) := pfu in k p f x)
      (combine (combine vs (map fl vs)) (map u vs)) = map (fun p => k p (fl p) (u p)) vs.
Proof. induction vs as [|p r IH]; cbn [map combine]; [reflexivity|]. rewrite IH. reflexivity. Qed.

Lemma existsb_id_map {A} (fl : A -> bool) (vs : list A) : existsb (fun b => b) (map fl vs) = existsb fl vs.
Proof. induction vs as [|p r IH]; cbn [map existsb]; [reflexivity|]. rewrite IH. reflexivity. Qed.

Lemma In_zinsert x y l : In y (zinsert x l) <-> y = x \/ In y l.
Proof.
  induction l as [|z t IH]; cbn [zinsert].
  - cbn [In]. intuition congruence.
  - destruct (x <? z) eqn:E1; [cbn [In]; intuition congruence|].
    destruct (x =? z) eqn:E2.
    + assert (x = z) by lia. subst z. cbn [In]. intuition congruence.
    + cbn [In]. rewrite IH. intuition congruence.
Qed.

Lemma In_zsort_uniq y l : In y (zsort_uniq l) <-> In y l.
Proof.
  unfold zsort_uniq. induction l as [|x t IH]; cbn [fold_right]; [reflexivity|].
  rewrite In_zinsert, IH. cbn [In]. intuition congruence.
Qed.

Lemma levels_down_S n hi : levels_down (S n) hi = hi :: levels_down n (hi - 1).
Proof. reflexivity. Qed.

Section Writer.
Variables mx mn : Z.
Variable vs : list Z.
Hypothesis Hord : 0 <= mn <= mx.
Hypothesis ND : NoDup vs.
Hypothesis Hrange : forall x, In x vs -> 0 <= x < 12 * 4 ^ mx.

Notation anc := (ancestor mx).
Definition full (l p : Z) : bool := cell_full mx l vs (anc l p).
Definition fullx (k p : Z) : Prop := k = mx \/ full k p = true.

Lemma vs_nonneg x : In x vs -> 0 <= x.
Proof. intros H. apply Hrange in H. lia. Qed.

Lemma anc_nonneg l p : 0 <= l <= mx -> 0 <= p -> 0 <= anc l p.
Proof. intros Hl Hp. unfold ancestor. apply Z.div_pos; [exact Hp|apply pow4_pos; lia]. Qed.

Lemma anc_self p : anc mx p = p.
Proof. unfold ancestor. rewrite Z.sub_diag. change (4 ^ 0) with 1. apply Z.div_1_r. Qed.

Lemma anc_bound l p : 0 <= l <= mx -> 0 <= p < 12 * 4 ^ mx -> 0 <= anc l p < 12 * 4 ^ l.
Proof.
  intros Hl Hp. split; [apply anc_nonneg; lia|].
  unfold ancestor. pose proof (pow4_pos (mx - l) ltac:(lia)) as P1.
  apply Z.div_lt_upper_bound; [exact P1|].
  replace (4 ^ (mx - l) * (12 * 4 ^ l)) with (12 * (4 ^ (mx - l) * 4 ^ l)) by ring.
  rewrite <- Z.pow_add_r by lia. replace (mx - l + l) with mx by lia. lia.
Qed.

(* ---- the loop, pointwise ---- *)
Fixpoint loopf (levels : list Z) (u : Z -> Z) : Z -> Z :=
  match levels with
  | [] => u
  | l :: r => if existsb (full l) vs
              then loopf r (fun p => if full l p then uniq_of l (anc l p) else u p)
              else u
  end.

Lemma moc_loop_pointwise levels : forall u,
  moc_loop mx vs levels (map u vs) = map (loopf levels u) vs.
Proof.
  induction levels as [|l r IH]; intros u; cbn [moc_loop loopf]; [reflexivity|].
  change (map (fun p : Z => cell_full mx l vs (anc l p)) vs) with (map (full l) vs).
  rewrite existsb_id_map.
  destruct (existsb (full l) vs); [|reflexivity].
  rewrite (combine3_map vs (full l) u (fun p (f : bool) x => if f then uniq_of l (anc l p) else x)).
  apply IH.
Qed.

(* ---- fullness is inherited by descendants ---- *)
Lemma full_mono k' k q :
  0 <= k' <= k -> k <= mx -> 0 <= q ->
  cell_full mx k' vs (ancestor k k' q) = true -> cell_full mx k vs q = true.
Proof.
  intros Hk' Hk Hq Hfull.
  pose proof (pow4_pos (mx - k) ltac:(lia)) as Hpow.
  unfold cell_full, cell_count. apply Z.eqb_eq.
  set (below := filter (fun x => anc k x =? q) vs).
  set (rng := zrange (q * 4 ^ (mx - k)) ((q + 1) * 4 ^ (mx - k))).
  assert (NDb : NoDup below) by (apply NoDup_filter; exact ND).
  assert (NDr : NoDup rng) by apply NoDup_zrange.
  assert (I1 : incl below rng).
  { intros x Hx. apply filter_In in Hx. destruct Hx as [Hx Ea]. apply Z.eqb_eq in Ea.
    apply In_zrange. apply (expansion_is_the_descendants mx k q x ltac:(lia) (vs_nonneg x Hx)). exact Ea. }
  assert (I2 : incl rng below).
  { intros x Hx. apply In_zrange in Hx.
    assert (Hx0 : 0 <= x) by nia.
    assert (Ea : anc k x = q) by (apply (expansion_is_the_descendants mx k q x ltac:(lia) Hx0); exact Hx).
    apply filter_In. split; [|apply Z.eqb_eq; exact Ea].
    apply (full_cell_all_valid mx k' vs (ancestor k k' q) x ltac:(lia) ND vs_nonneg Hfull).
    - unfold ancestor. apply Z.div_pos; [exact Hq|apply pow4_pos; lia].
    - apply (expansion_is_the_descendants mx k' (ancestor k k' q) x ltac:(lia) Hx0).
      rewrite <- Ea. symmetry. apply ancestor_compose; lia. }
  pose proof (NoDup_incl_length NDb I1) as L1. pose proof (NoDup_incl_length NDr I2) as L2.
  unfold zcount. fold below.
  pose proof (zlen_zrange (q * 4 ^ (mx - k)) ((q + 1) * 4 ^ (mx - k))) as L. fold rng in L.
  unfold zlen in *. lia.
Qed.

Lemma full_inherit k' k p :
  0 <= k' <= k -> k <= mx -> 0 <= p -> full k' p = true -> fullx k p.
Proof.
  intros Hk' Hk Hp Hf. destruct (Z.eq_dec k mx) as [->|Hne]; [left; reflexivity|right].
  unfold full in *. apply (full_mono k' k); try lia.
  - apply anc_nonneg; lia.
  - rewrite ancestor_compose by lia. exact Hf.
Qed.

(* ---- the invariant: every pixel holds the cell of its lowest full level not below [l] ---- *)
Definition cellinv (l : Z) (u : Z -> Z) : Prop :=
  forall p, In p vs ->
    exists k, l <= k <= mx /\ u p = uniq_of k (anc k p) /\ fullx k p /\
              forall k', l <= k' < k -> full k' p = false.

Lemma cellinv_init : cellinv mx (uniq_of mx).
Proof.
  intros p Hp. exists mx. split; [lia|]. split; [rewrite anc_self; reflexivity|].
  split; [left; reflexivity|]. intros k' Hk'. lia.
Qed.

Lemma cellinv_step l u :
  cellinv (l + 1) u -> cellinv l (fun p => if full l p then uniq_of l (anc l p) else u p).
Proof.
  intros H p Hp. destruct (H p Hp) as [k [Hk [Eu [Hf Hmin]]]].
  destruct (full l p) eqn:E.
  - exists l. split; [lia|]. split; [reflexivity|]. split; [right; exact E|]. intros k' Hk'. lia.
  - exists k. split; [lia|]. split; [exact Eu|]. split; [exact Hf|].
    intros k' Hk'. destruct (Z.eq_dec k' l) as [->|Hne]; [exact E|]. apply Hmin. lia.
Qed.

Lemma existsb_false_forall (h : Z -> bool) l : existsb h l = false -> forall x, In x l -> h x = false.
Proof.
  intros E x Hin. destruct (h x) eqn:Ex; [|reflexivity].
  assert (existsb h l = true) by (apply existsb_exists; exists x; split; assumption). congruence.
Qed.

(* after the loop (run over the orders hi, hi-1, ..., hi-n+1, all >= mn) every pixel holds the
   cell of its lowest full level >= mn; an early exit changes nothing because no lower level can
   have a full cell *)
Lemma loop_inv n : forall hi u,
  mn <= hi + 1 - Z.of_nat n -> hi + 1 <= mx -> cellinv (hi + 1) u ->
  cellinv (hi + 1 - Z.of_nat n) (loopf (levels_down n hi) u).
Proof.
  induction n as [|n IH]; intros hi u Hlo Hhi Hinv.
  - cbn [levels_down loopf]. replace (hi + 1 - Z.of_nat 0) with (hi + 1) by lia. exact Hinv.
  - rewrite levels_down_S. cbn [loopf].
    destruct (existsb (full hi) vs) eqn:Eex.
    + replace (hi + 1 - Z.of_nat (S n)) with (hi - 1 + 1 - Z.of_nat n) by lia.
      apply IH; [lia|lia|]. replace (hi - 1 + 1) with hi by lia.
      apply cellinv_step. exact Hinv.
    + intros p Hp. destruct (Hinv p Hp) as [k [Hk [Eu [Hf Hmin]]]].
      exists k. split; [lia|]. split; [exact Eu|]. split; [exact Hf|].
      intros k' Hk'. destruct (Z_lt_le_dec k' (hi + 1)) as [Hlt|Hge]; [|apply Hmin; lia].
      destruct (full k' p) eqn:Efk; [|reflexivity]. exfalso.
      assert (Hfx : fullx hi p) by (apply (full_inherit k' hi p); try lia; [apply vs_nonneg; exact Hp|exact Efk]).
      destruct Hfx as [Hm|Hfh]; [lia|].
      rewrite (existsb_false_forall _ _ Eex p Hp) in Hfh. discriminate.
Qed.

Definition final_u : Z -> Z := loopf (levels_down (Z.to_nat (mx - mn)) (mx - 1)) (uniq_of mx).

Lemma final_inv : cellinv mn final_u.
Proof.
  unfold final_u.
  pose proof (loop_inv (Z.to_nat (mx - mn)) (mx - 1) (uniq_of mx)) as H.
  replace (mx - 1 + 1 - Z.of_nat (Z.to_nat (mx - mn))) with mn in H by lia.
  replace (mx - 1 + 1) with mx in H by lia.
  apply H; [lia|lia|exact cellinv_init].
Qed.

Lemma moc_cells_eq : moc_cells mx mn vs = zsort_uniq (map final_u vs).
Proof. unfold moc_cells. rewrite moc_loop_pointwise. reflexivity. Qed.

(* ---- expansion of a written cell ---- *)
Lemma In_expand k a x :
  0 <= k <= mx -> 0 <= a < 12 * 4 ^ k ->
  (In x (expand_cell mx (uniq_of k a)) <-> a * 4 ^ (mx - k) <= x < (a + 1) * 4 ^ (mx - k)).
Proof.
  intros Hk Ha. unfold expand_cell. cbv zeta.
  destruct (uniq_decode_encode k a ltac:(lia) Ha) as [Eo Ei]. rewrite Eo, Ei. apply In_zrange.
Qed.

Lemma In_expand_anc k p x :
  0 <= k <= mx -> In p vs -> 0 <= x ->
  (In x (expand_cell mx (uniq_of k (anc k p))) <-> anc k x = anc k p).
Proof.
  intros Hk Hp Hx. rewrite In_expand; [|exact Hk|apply anc_bound; [exact Hk|apply Hrange; exact Hp]].
  apply expansion_is_the_descendants; assumption.
Qed.

Lemma expand_nonneg k p x : 0 <= k <= mx -> In p vs -> In x (expand_cell mx (uniq_of k (anc k p))) -> 0 <= x.
Proof.
  intros Hk Hp Hx.
  apply In_expand in Hx; [|exact Hk|apply anc_bound; [exact Hk|apply Hrange; exact Hp]].
  pose proof (anc_nonneg k p Hk (vs_nonneg p Hp)). pose proof (pow4_pos (mx - k) ltac:(lia)). nia.
Qed.

(* ---- the three clauses of C17 ---- *)
Theorem moc_covers_exactly x :
  In x (moc_expand mx (moc_cells mx mn vs)) <-> In x vs.
Proof.
  unfold moc_expand. rewrite In_zsort_uniq, in_flat_map. split.
  - intros [u [Hu Hx]]. rewrite moc_cells_eq, In_zsort_uniq in Hu. apply in_map_iff in Hu.
    destruct Hu as [p [Eu Hp]]. destruct (final_inv p Hp) as [k [Hk [Ek [Hf _]]]].
    rewrite <- Eu, Ek in Hx.
    assert (Hx0 : 0 <= x) by (apply (expand_nonneg k p x); try assumption; lia).
    apply In_expand_anc in Hx; try assumption; try lia.
    destruct Hf as [->|Hf].
    + rewrite !anc_self in Hx. subst x. exact Hp.
    + apply (full_cell_all_valid mx k vs (anc k p) x ltac:(lia) ND vs_nonneg Hf).
      * apply anc_nonneg; [lia|apply vs_nonneg; exact Hp].
      * apply (expansion_is_the_descendants mx k (anc k p) x ltac:(lia) Hx0). exact Hx.
  - intros Hx. destruct (final_inv x Hx) as [k [Hk [Ek _]]].
    exists (final_u x). split.
    + rewrite moc_cells_eq, In_zsort_uniq. apply in_map. exact Hx.
    + rewrite Ek. apply (proj2 (In_expand_anc k x x ltac:(lia) Hx (vs_nonneg x Hx))). reflexivity.
Qed.

Lemma cells_nested k1 k2 p1 p2 x :
  In p1 vs -> In p2 vs -> mn <= k1 <= k2 -> k2 <= mx -> 0 <= x ->
  anc k1 x = anc k1 p1 -> anc k2 x = anc k2 p2 ->
  fullx k1 p1 -> (forall k', mn <= k' < k2 -> full k' p2 = false) ->
  k1 = k2 /\ anc k1 p1 = anc k2 p2.
Proof.
  intros Hp1 Hp2 Hk1 Hk2 Hx E1 E2 Hf Hmin.
  assert (E12 : anc k1 p2 = anc k1 p1).
  { rewrite <- (ancestor_compose mx k1 k2 p2) by (try lia; apply vs_nonneg; exact Hp2).
    rewrite <- E2. rewrite ancestor_compose by lia. exact E1. }
  destruct (Z.eq_dec k1 k2) as [->|Hne]; [split; [reflexivity|congruence]|].
  exfalso. destruct Hf as [->|Hf]; [lia|].
  assert (Hf2 : full k1 p2 = true) by (unfold full in *; rewrite E12; exact Hf).
  rewrite Hmin in Hf2 by lia. discriminate.
Qed.

Theorem moc_cells_disjoint u1 u2 x :
  In u1 (moc_cells mx mn vs) -> In u2 (moc_cells mx mn vs) ->
  In x (expand_cell mx u1) -> In x (expand_cell mx u2) -> u1 = u2.
Proof.
  rewrite moc_cells_eq, !In_zsort_uniq. intros H1 H2 X1 X2.
  apply in_map_iff in H1. destruct H1 as [p1 [E1 Hp1]].
  apply in_map_iff in H2. destruct H2 as [p2 [E2 Hp2]].
  destruct (final_inv p1 Hp1) as [k1 [Hk1 [Ek1 [Hf1 Hm1]]]].
  destruct (final_inv p2 Hp2) as [k2 [Hk2 [Ek2 [Hf2 Hm2]]]].
  subst u1 u2. rewrite Ek1 in *. rewrite Ek2 in *.
  assert (Hx0 : 0 <= x) by (apply (expand_nonneg k1 p1 x); try assumption; lia).
  apply In_expand_anc in X1; try assumption; try lia.
  apply In_expand_anc in X2; try assumption; try lia.
  destruct (Z_le_gt_dec k1 k2) as [Hle|Hgt].
  - assert (H : k1 = k2 /\ anc k1 p1 = anc k2 p2) by (apply (cells_nested k1 k2 p1 p2 x); try assumption; lia).
    destruct H as [-> ->]. reflexivity.
  - assert (H : k2 = k1 /\ anc k2 p2 = anc k1 p1) by (apply (cells_nested k2 k1 p2 p1 x); try assumption; lia).
    destruct H as [-> ->]. reflexivity.
Qed.

Theorem moc_cells_order u :
  In u (moc_cells mx mn vs) -> mn <= uniq_order u <= mx.
Proof.
  rewrite moc_cells_eq, In_zsort_uniq. intros H. apply in_map_iff in H. destruct H as [p [E Hp]].
  destruct (final_inv p Hp) as [k [Hk [Ek _]]]. subst u. rewrite Ek.
  destruct (uniq_decode_encode k (anc k p) ltac:(lia)) as [Eo _].
  - apply anc_bound; [lia|apply Hrange; exact Hp].
  - rewrite Eo. exact Hk.
Qed.

(* every written cell is the coarsest full ancestor (not coarser than the coverage order) of the
   pixels it replaces *)
Theorem moc_cell_is_coarsest_full_ancestor p :
  In p vs ->
  exists k, mn <= k <= mx /\ final_u p = uniq_of k (anc k p) /\ fullx k p /\
            forall k', mn <= k' < k -> full k' p = false.
Proof. exact (final_inv p). Qed.

End Writer.
