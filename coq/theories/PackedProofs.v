(* PackedProofs.v — slice views of bit-packed arrays address exactly the requested bits, for every
   alignment and every nesting depth; the first/middle/last decomposition covers exactly the bits
   of the view; the population-count table is correct (C05). *)
From HS Require Import Prelude Packed.

(* a slice [a, b) of a well-formed view is a well-formed view of b - a bits whose bit 0 is the
   parent's bit a (same root buffer), and it never reaches beyond the parent's bytes *)
Theorem slice_view_spec (v w : pview) (a b : Z) :
  view_ok v -> 0 <= a -> a <= b -> b <= vsize v ->
  slice_view v (Some a) (Some b) = Some w ->
  view_ok w /\ vsize w = b - a /\ abs_bit w 0 = abs_bit v a /\
  vds v <= vds w /\ (a < b -> vde w <= vde v).
Proof.
  intros [Hsi [Hst [Hnd Hinv]]] Ha Hab Hb. unfold slice_view, vsize, vndata, abs_bit, view_ok in *.
  destruct ((a <? 0) || (vst v - vsi v <? a)) eqn:E0; [lia|].
  destruct (b <? 0) eqn:Eb; [lia|].
  destruct ((vst v - vsi v <? b) || (b <? a)) eqn:E1; [lia|].
  intros H. injection H as <-. unfold vsize, vndata. cbn [vds vde vsi vst].
  destruct ((b - a + (a + vsi v) mod 8) mod 8 =? 0) eqn:Eo; repeat split; lia.
Qed.

(* it never raises inside the legal domain *)
Theorem slice_view_total (v : pview) (a b : Z) :
  0 <= a -> a <= b -> b <= vsize v -> exists w, slice_view v (Some a) (Some b) = Some w.
Proof.
  intros Ha Hab Hb. unfold slice_view, vsize in *.
  destruct ((a <? 0) || (vst v - vsi v <? a)) eqn:E0; [lia|].
  destruct (b <? 0) eqn:Eb; [lia|].
  destruct ((vst v - vsi v <? b) || (b <? a)) eqn:E1; [lia|].
  eexists. reflexivity.
Qed.

(* nested slices compose: (v[a:b])[c:d] addresses the same bits as v[a+c : a+d] *)
Theorem slice_view_nested (v w u : pview) (a b c d : Z) :
  view_ok v -> 0 <= a -> a <= b -> b <= vsize v -> 0 <= c -> c <= d -> d <= b - a ->
  slice_view v (Some a) (Some b) = Some w -> slice_view w (Some c) (Some d) = Some u ->
  vsize u = d - c /\ abs_bit u 0 = abs_bit v (a + c).
Proof.
  intros Hv Ha Hab Hb Hc Hcd Hd H1 H2.
  destruct (slice_view_spec v w a b Hv Ha Hab Hb H1) as [Hw [Sw [Aw _]]].
  assert (Hd' : d <= vsize w) by lia.
  destruct (slice_view_spec w u c d Hw Hc Hcd Hd' H2) as [_ [Su [Au _]]].
  split; [exact Su|]. unfold abs_bit in *. lia.
Qed.

(* the three parts of the decomposition cover exactly the bits [start, stop) of the view *)
Theorem extract_fml_covers (v : pview) (k : Z) :
  view_ok v -> 0 < vsize v -> 0 <= k < 8 * vndata v ->
  fml_covers (vndata v) (extract_fml v) k = ((vsi v <=? k) && (k <? vst v)).
Proof.
  intros [Hsi [Hst [Hnd Hinv]]] Hsz Hk. unfold extract_fml, fml_covers in *. unfold vsize, vndata in *.
  destruct Hinv as [Hz|Hinv]; [lia|].
  destruct ((vsi v =? 0) && (vst v =? (vde v - vds v) * 8)) eqn:E1; cbv beta iota delta [f_lo f_hi m_lo m_hi l_lo l_hi]; [lia|].
  destruct (vsi v =? 0) eqn:E2.
  - destruct (vst v <? 8) eqn:E3; cbv beta iota delta [f_lo f_hi m_lo m_hi l_lo l_hi]; lia.
  - destruct (vst v =? (vde v - vds v) * 8) eqn:E3.
    + destruct (vde v - vds v =? 1) eqn:E4; cbv beta iota delta [f_lo f_hi m_lo m_hi l_lo l_hi]; lia.
    + destruct (vde v - vds v =? 1) eqn:E4; cbv beta iota delta [f_lo f_hi m_lo m_hi l_lo l_hi]; lia.
Qed.

(* the parts never overlap: first byte, middle bytes and last byte are distinct bytes *)
Theorem extract_fml_disjoint (v : pview) :
  view_ok v -> 0 < vsize v ->
  let d := extract_fml v in let nd := vndata v in
  (f_lo d < f_hi d -> m_lo d < m_hi d -> 1 <= m_lo d) /\
  (m_lo d < m_hi d -> l_lo d < l_hi d -> m_hi d <= nd - 1) /\
  (f_lo d < f_hi d -> l_lo d < l_hi d -> 1 <= nd - 1) /\
  0 <= f_lo d /\ f_hi d <= 8 /\ 0 <= l_lo d /\ l_hi d <= 8 /\ 0 <= m_lo d /\ m_hi d <= nd.
Proof.
  intros [Hsi [Hst [Hnd Hinv]]] Hsz. unfold extract_fml in *. unfold vsize, vndata in *. cbv zeta.
  destruct Hinv as [Hz|Hinv]; [lia|].
  destruct ((vsi v =? 0) && (vst v =? (vde v - vds v) * 8)) eqn:E1; cbv beta iota delta [f_lo f_hi m_lo m_hi l_lo l_hi]; [lia|].
  destruct (vsi v =? 0) eqn:E2.
  - destruct (vst v <? 8) eqn:E3; cbv beta iota delta [f_lo f_hi m_lo m_hi l_lo l_hi]; lia.
  - destruct (vst v =? (vde v - vds v) * 8) eqn:E3.
    + destruct (vde v - vds v =? 1) eqn:E4; cbv beta iota delta [f_lo f_hi m_lo m_hi l_lo l_hi]; lia.
    + destruct (vde v - vds v =? 1) eqn:E4; cbv beta iota delta [f_lo f_hi m_lo m_hi l_lo l_hi]; lia.
Qed.

(* the population-count table: every byte value (finite domain, decided completely) *)
Theorem lut_popcount : forallb (fun x => lut_entry x =? popcount8 x) (zrange 0 256) = true.
Proof. vm_compute. reflexivity. Qed.

Corollary lut_popcount_all x : 0 <= x < 256 -> lut_entry x = popcount8 x.
Proof.
  intros Hx. pose proof lut_popcount as H. rewrite forallb_forall in H.
  apply Z.eqb_eq. apply H. apply In_zrange. exact Hx.
Qed.
