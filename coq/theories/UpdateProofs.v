(* UpdateProofs.v — update_values_pix refines the dense update and preserves the layout
   invariant (C01, C04). *)
From HS Require Import Prelude Cov Map Spec Params AtFold MapProofs.

Section UpdateProofs.
Variable P : params.
Notation V := (p_V P).
Notation valid := (p_valid P).
Notation dv := (p_dv P).
Notation vadd := (p_vadd P).
Notation vor := (p_vor P).
Notation vand := (p_vand P).
Notation vzero := (p_vzero P).
Notation is_sent := (p_is_sent P).
Notation sent_nonzero := (p_sent_nonzero P).
Notation zero_not_sent := (p_zns P).

Notation smap := (smap V).
Notation ncov := (ncov V).
Notation npix := (npix V).
Notation covered := (covered V).
Notation off := (off V).
Notation ncovered := (ncovered V).
Notation cell := (cell V).
Notation read := (read V dv).
Notation do_op := (do_op V dv vadd vor vand vzero is_sent sent_nonzero).
Notation pt := (pt P).
Notation vals_at := (vals_at V).
Notation to_cells := (to_cells V).
Notation set_sp := (set_sp V).
Notation reserve := (reserve V dv).
Notation update := (update V dv vadd vor vand vzero is_sent sent_nonzero).
Notation pix_covered := (pix_covered V).
Notation new_cov_pixels := (new_cov_pixels V).
Notation wf := (wf P).
Notation incov_write := (incov_write P).
Notation all_covered := (all_covered P).
Notation new_ok := (new_ok P).
Notation abs := (abs V dv).
Notation d_update := (d_update V dv vadd vor vand vzero is_sent sent_nonzero).

Definition pvs_ok (m : smap) (pvs : list (Z * V)) : Prop :=
  forall pv, In pv pvs -> 0 <= fst pv < npix m.

Definition incov (m : smap) (pvs : list (Z * V)) := filter (pix_covered m) pvs.
Definition outcov (m : smap) (pvs : list (Z * V)) := filter (fun pv => negb (pix_covered m pv)) pvs.

Lemma incov_all_covered m pvs : pvs_ok m pvs -> all_covered m (incov m pvs).
Proof.
  intros H pv Hin. apply filter_In in Hin. destruct Hin as [Hin Hc]. split; [apply H; exact Hin|exact Hc].
Qed.

(* facts about the state after the in-coverage phase *)
Lemma incov_write_same m o pvs :
  nfine (incov_write m o pvs) = nfine m /\ idx (incov_write m o pvs) = idx m /\
  blank (incov_write m o pvs) = blank m.
Proof. repeat split. Qed.

Lemma new_cov_ok m o pvs :
  wf m -> pvs_ok m pvs ->
  new_ok (incov_write m o (incov m pvs)) (new_cov_pixels (incov_write m o (incov m pvs)) (outcov m pvs)).
Proof.
  intros W H. split.
  - unfold Map.new_cov_pixels. apply NoDup_filter. apply NoDup_zrange.
  - intros c Hc. unfold Map.new_cov_pixels in Hc. apply filter_In in Hc. destruct Hc as [Hr He].
    apply In_zrange in Hr. split; [exact Hr|].
    apply existsb_exists in He. destruct He as [pv [Hin E]].
    apply filter_In in Hin. destruct Hin as [Hin Hn].
    change (nfine (incov_write m o (incov m pvs))) with (nfine m) in E.
    assert (fst pv / nfine m = c) as <- by lia.
    unfold Map.pix_covered in Hn. apply negb_true_iff in Hn. exact Hn.
Qed.

Lemma in_new_cov m o pvs pv :
  wf m -> pvs_ok m pvs -> In pv (outcov m pvs) ->
  In (fst pv / nfine m) (new_cov_pixels (incov_write m o (incov m pvs)) (outcov m pvs)).
Proof.
  intros W H Hin. unfold Map.new_cov_pixels. apply filter_In. split.
  - apply In_zrange. change (Map.ncov V (incov_write m o (incov m pvs))) with (ncov m).
    apply covpix_range; [exact (wf_nf P m W)|]. apply H.
    apply filter_In in Hin. apply Hin.
  - apply existsb_exists. exists pv. split; [exact Hin|].
    change (nfine (incov_write m o (incov m pvs))) with (nfine m). lia.
Qed.

(* the three-phase structure of update, as an equation *)
Lemma update_unfold m o pvs na :
  update m o pvs na =
  let m1 := incov_write m o (incov m pvs) in
  match outcov m pvs with
  | [] => m1
  | _ :: _ => if na then m1
              else let m2 := reserve m1 (new_cov_pixels m1 (outcov m pvs)) in
                   incov_write m2 o (outcov m pvs)
  end.
Proof. reflexivity. Qed.

Lemma outcov_all_covered m o pvs :
  wf m -> pvs_ok m pvs ->
  let m1 := incov_write m o (incov m pvs) in
  let m2 := reserve m1 (new_cov_pixels m1 (outcov m pvs)) in
  all_covered m2 (outcov m pvs).
Proof.
  intros W H m1 m2 pv Hin.
  pose proof (incov_write_wf P
  m o (incov m pvs) W (incov_all_covered m pvs H)) as W1.
  pose proof (new_cov_ok m o pvs W H) as NO.
  split.
  - unfold m2. rewrite npix_reserve. change (npix m1) with (npix m). apply H.
    apply filter_In in Hin. apply Hin.
  - unfold m2. change (nfine (reserve m1 (new_cov_pixels m1 (outcov m pvs)))) with (nfine m).
    rewrite (reserve_covered P) by
      first [assumption |
             (change (Map.ncov V m1) with (ncov m);
              apply covpix_range; [exact (wf_nf P m W)|apply H; apply filter_In in Hin; apply Hin])].
    apply orb_true_iff. right. apply existsb_eqb_In. apply in_new_cov; assumption.
Qed.

Theorem update_wf m o pvs na : wf m -> pvs_ok m pvs -> wf (update m o pvs na).
Proof.
  intros W H. rewrite update_unfold. cbv zeta.
  pose proof (incov_write_wf P
  m o (incov m pvs) W (incov_all_covered m pvs H)) as W1.
  destruct (outcov m pvs) as [|x r] eqn:Eo; [exact W1|].
  destruct na; [exact W1|].
  rewrite <- Eo.
  apply (incov_write_wf P).
  - apply reserve_wf; [exact W1|apply new_cov_ok; assumption].
  - apply outcov_all_covered; assumption.
Qed.

Lemma npix_update m o pvs na : npix (update m o pvs na) = npix m.
Proof.
  rewrite update_unfold. cbv zeta.
  destruct (outcov m pvs) as [|x r]; [reflexivity|]. destruct na; [reflexivity|].
  unfold MapProofs.incov_write, Map.set_sp, Map.npix, Map.ncov. cbn [idx nfine].
  unfold Map.reserve. cbn [idx nfine]. unfold append_pixels. rewrite zlen_append_from. reflexivity.
Qed.

Lemma vals_at_incov_cov m pvs q :
  covered m (q / nfine m) = true -> vals_at q (incov m pvs) = vals_at q pvs.
Proof.
  intros Hc. apply vals_at_filter. intros pv Hin E. unfold Map.pix_covered. rewrite E. exact Hc.
Qed.

Lemma vals_at_incov_unc m pvs q :
  covered m (q / nfine m) = false -> vals_at q (incov m pvs) = [].
Proof.
  intros Hc. apply vals_at_filter_none. intros pv Hin E. unfold Map.pix_covered. rewrite E. exact Hc.
Qed.

Lemma vals_at_outcov_cov m pvs q :
  covered m (q / nfine m) = true -> vals_at q (outcov m pvs) = [].
Proof.
  intros Hc. apply vals_at_filter_none. intros pv Hin E. unfold Map.pix_covered. rewrite E, Hc. reflexivity.
Qed.

Lemma vals_at_outcov_unc m pvs q :
  covered m (q / nfine m) = false -> vals_at q (outcov m pvs) = vals_at q pvs.
Proof.
  intros Hc. apply vals_at_filter. intros pv Hin E. unfold Map.pix_covered. rewrite E, Hc. reflexivity.
Qed.

(* every pixel after the call holds the pointwise fold of exactly the values addressed to it *)
Theorem update_read m o pvs na q :
  wf m -> pvs_ok m pvs -> 0 <= q < npix m ->
  read (update m o pvs na) q =
  pt o (read m q) (vals_at q (if na then incov m pvs else pvs)).
Proof.
  intros W H Hq. rewrite update_unfold. cbv zeta.
  pose proof (incov_all_covered m pvs H) as AC.
  pose proof (incov_write_wf P
  m o (incov m pvs) W AC) as W1.
  pose proof (incov_write_read P
  m o (incov m pvs) q W AC Hq) as R1.
  destruct (outcov m pvs) as [|x r] eqn:Eo.
  - rewrite R1. destruct na; [reflexivity|]. f_equal.
    apply vals_at_filter. intros pv Hin E.
    destruct (pix_covered m pv) eqn:Ec; [reflexivity|].
    assert (In pv (outcov m pvs)) as Hin2 by (apply filter_In; split; [exact Hin|rewrite Ec; reflexivity]).
    rewrite Eo in Hin2. contradiction.
  - destruct na; [exact R1|]. rewrite <- Eo.
    set (m1 := incov_write m o (incov m pvs)) in *.
    set (m2 := reserve m1 (new_cov_pixels m1 (outcov m pvs))).
    pose proof (new_cov_ok m o pvs W H) as NO. fold m1 in NO.
    assert (wf m2) as W2 by (apply reserve_wf; assumption).
    pose proof (outcov_all_covered m o pvs W H) as AC2. cbv zeta in AC2. fold m1 m2 in AC2.
    rewrite (incov_write_read P
               m2 o (outcov m pvs) q W2 AC2)
      by (unfold m2; rewrite npix_reserve; exact Hq).
    unfold m2. rewrite (reserve_read P) by (try assumption; exact Hq).
    rewrite R1.
    destruct (covered m (q / nfine m)) eqn:Hc.
    + rewrite vals_at_outcov_cov by exact Hc. rewrite pt_nil. f_equal. apply vals_at_incov_cov; exact Hc.
    + rewrite vals_at_incov_unc by exact Hc. rewrite pt_nil. f_equal. apply vals_at_outcov_unc; exact Hc.
Qed.

(* coverage after the call *)
Theorem update_covered m o pvs na c :
  wf m -> pvs_ok m pvs -> 0 <= c < ncov m ->
  covered (update m o pvs na) c =
  if na then covered m c
  else covered m c || existsb (fun pv => fst pv / nfine m =? c) pvs.
Proof.
  intros W H Hc. rewrite update_unfold. cbv zeta.
  pose proof (incov_all_covered m pvs H) as AC.
  pose proof (incov_write_wf P
  m o (incov m pvs) W AC) as W1.
  assert (forall pv, In pv pvs -> fst pv / nfine m = c -> covered m c = false -> In pv (outcov m pvs)) as Hout.
  { intros pv Hin E Hf. apply filter_In. split; [exact Hin|]. unfold Map.pix_covered. rewrite E, Hf. reflexivity. }
  destruct (outcov m pvs) as [|x r] eqn:Eo.
  - change (covered (incov_write m o (incov m pvs)) c) with (covered m c).
    destruct na; [reflexivity|].
    destruct (covered m c) eqn:Ec; [reflexivity|]. cbn [orb]. symmetry.
    apply not_true_is_false. intro Hex. apply existsb_exists in Hex. destruct Hex as [pv [Hin E]].
    apply (Hout pv Hin); [lia|reflexivity].
  - destruct na; [reflexivity|]. rewrite <- Eo in *.
    set (m1 := incov_write m o (incov m pvs)) in *.
    pose proof (new_cov_ok m o pvs W H) as NO. fold m1 in NO.
    change (covered (incov_write (reserve m1 (new_cov_pixels m1 (outcov m pvs))) o (outcov m pvs)) c)
      with (covered (reserve m1 (new_cov_pixels m1 (outcov m pvs))) c).
    rewrite (reserve_covered P) by (try assumption; exact Hc).
    change (covered m1 c) with (covered m c).
    destruct (covered m c) eqn:Ec; [reflexivity|]. cbn [orb].
    destruct (existsb (fun pv => fst pv / nfine m =? c) pvs) eqn:Ex.
    + apply existsb_exists in Ex. destruct Ex as [pv [Hin E]].
      apply existsb_eqb_In. assert (fst pv / nfine m = c) as Ec2 by lia. rewrite <- Ec2.
      apply in_new_cov; try assumption. apply Hout; [exact Hin|exact Ec2|reflexivity].
    + apply not_true_is_false. intro Hex. apply existsb_eqb_In in Hex.
      unfold Map.new_cov_pixels in Hex. apply filter_In in Hex. destruct Hex as [_ Hex].
      apply existsb_exists in Hex. destruct Hex as [pv [Hin E]].
      apply filter_In in Hin. destruct Hin as [Hin _].
      assert (existsb (fun pv => fst pv / nfine m =? c) pvs = true); [|congruence].
      apply existsb_exists. exists pv. split; [exact Hin|exact E].
Qed.

Lemma nfine_update m o pvs na : nfine (update m o pvs na) = nfine m.
Proof.
  rewrite update_unfold. cbv zeta.
  destruct (outcov m pvs) as [|x r]; [reflexivity|]. destruct na; reflexivity.
Qed.

Lemma blank_update m o pvs na : blank (update m o pvs na) = blank m.
Proof.
  rewrite update_unfold. cbv zeta.
  destruct (outcov m pvs) as [|x r]; [reflexivity|]. destruct na; reflexivity.
Qed.

Lemma ncov_update m o pvs na : ncov (update m o pvs na) = ncov m.
Proof.
  rewrite update_unfold. cbv zeta.
  destruct (outcov m pvs) as [|x r]; [reflexivity|]. destruct na; [reflexivity|].
  unfold MapProofs.incov_write, Map.set_sp, Map.ncov. cbn [idx].
  unfold Map.reserve. cbn [idx]. unfold append_pixels. rewrite zlen_append_from. reflexivity.
Qed.

Lemma znth_coverage_mask m c :
  0 <= c < ncov m -> znth false (coverage_mask (nfine m) (idx m)) c = covered m c.
Proof.
  intros Hc. unfold coverage_mask.
  rewrite (znth_map _ 0) by (rewrite zlen_zrange; unfold Map.ncov in Hc; lia).
  rewrite znth_zrange by (unfold Map.ncov in Hc; lia). reflexivity.
Qed.

Lemma zlen_coverage_mask m : zlen (coverage_mask (nfine m) (idx m)) = ncov m.
Proof. unfold coverage_mask. rewrite zlen_map, zlen_zrange. unfold Map.ncov. pose proof (zlen_nonneg (idx m)). lia. Qed.

Lemma npix_nonneg m : wf m -> 0 <= npix m.
Proof. intros W. pose proof (wf_nf P m W). unfold Map.npix, Map.ncov. pose proof (zlen_nonneg (idx m)). nia. Qed.

Lemma covmask_update m o pvs na :
  wf m -> pvs_ok m pvs ->
  coverage_mask (nfine (update m o pvs na)) (idx (update m o pvs na)) =
  if na then coverage_mask (nfine m) (idx m)
  else map (fun c => znth false (coverage_mask (nfine m) (idx m)) c ||
                     existsb (fun pv => fst pv / nfine m =? c) pvs)
           (zrange 0 (ncov m)).
Proof.
  intros W H. destruct na.
  - apply (znth_ext false).
    + rewrite (zlen_coverage_mask (update m o pvs true)), ncov_update, zlen_coverage_mask. reflexivity.
    + intros c Hc. rewrite (zlen_coverage_mask (update m o pvs true)), ncov_update in Hc.
      rewrite (znth_coverage_mask (update m o pvs true)) by (rewrite ncov_update; exact Hc).
      rewrite update_covered by assumption. rewrite znth_coverage_mask by exact Hc. reflexivity.
  - apply (znth_ext false).
    + rewrite (zlen_coverage_mask (update m o pvs false)), ncov_update, zlen_map, zlen_zrange.
      pose proof (zlen_nonneg (idx m)). unfold Map.ncov. lia.
    + intros c Hc. rewrite (zlen_coverage_mask (update m o pvs false)), ncov_update in Hc.
      rewrite (znth_coverage_mask (update m o pvs false)) by (rewrite ncov_update; exact Hc).
      rewrite update_covered by assumption.
      rewrite (znth_map _ 0) by (rewrite zlen_zrange; lia).
      rewrite znth_zrange by lia. rewrite Z.add_0_l.
      rewrite znth_coverage_mask by exact Hc. reflexivity.
Qed.

(* THE refinement: the sparse update is the dense update (C01) *)
Theorem update_refines m o pvs na :
  wf m -> pvs_ok m pvs ->
  abs (update m o pvs na) = d_update (abs m) o pvs na.
Proof.
  intros W H. pose proof (npix_nonneg m W) as Hnp.
  unfold Spec.abs, Spec.d_update. cbn [d_nfine dense dcov d_blank].
  rewrite covmask_update by assumption.
  rewrite nfine_update, blank_update, npix_update.
  assert (Hfilt : filter (fun pv => znth false (coverage_mask (nfine m) (idx m)) (fst pv / nfine m)) pvs
                  = incov m pvs).
  { apply filter_ext_in. intros pv Hin. unfold Map.pix_covered. apply znth_coverage_mask.
    apply covpix_range; [exact (wf_nf P m W)|apply H; exact Hin]. }
  f_equal.
  - (* dense arrays agree at every pixel *)
    apply (znth_ext dv).
    + rewrite zlen_do_op, !zlen_map. reflexivity.
    + intros q Hq. rewrite zlen_map, zlen_zrange in Hq.
      rewrite (znth_map _ 0) by (rewrite zlen_zrange; lia).
      rewrite znth_zrange by lia. rewrite Z.add_0_l.
      rewrite update_read by (try assumption; lia).
      rewrite (do_op_pointwise P)
        by (rewrite zlen_map, zlen_zrange; lia).
      rewrite (znth_map _ 0) by (rewrite zlen_zrange; lia).
      rewrite znth_zrange by lia. rewrite Z.add_0_l.
      destruct na; [rewrite Hfilt|]; reflexivity.
  - (* coverage masks agree *)
    destruct na; [reflexivity|].
    unfold Spec.d_ncov. cbn [dcov]. rewrite zlen_coverage_mask. reflexivity.
Qed.

End UpdateProofs.
