(* WideProofs.v — a wide-mask cell (the little-endian integer of its bytes) is a set of bit
   positions: setting, clearing and testing bits are set operations, for every bit below the
   width including the byte boundaries (C13).  Pure integer bit reasoning. *)
From HS Require Import Prelude.

(* the packed value of a bit list (utils._bitvals_to_packed_array read as an integer) *)
Definition bits_val (l : list Z) : Z := fold_left (fun a b => Z.lor a (2 ^ b)) l 0.

Lemma testbit_fold_lor (l : list Z) : forall acc b,
  0 <= b -> (forall x, In x l -> 0 <= x) ->
  Z.testbit (fold_left (fun a b => Z.lor a (2 ^ b)) l acc) b = Z.testbit acc b || existsb (Z.eqb b) l.
Proof.
  induction l as [|x t IH]; intros acc b Hb Hl; cbn [fold_left existsb].
  - rewrite orb_false_r. reflexivity.
  - rewrite IH by (try exact Hb; intros y Hy; apply Hl; right; exact Hy).
    rewrite Z.lor_spec. rewrite Z.pow2_bits_eqb by (apply Hl; left; reflexivity).
    rewrite (Z.eqb_sym x b). rewrite orb_assoc. reflexivity.
Qed.

Theorem testbit_bits_val l b :
  0 <= b -> (forall x, In x l -> 0 <= x) -> Z.testbit (bits_val l) b = existsb (Z.eqb b) l.
Proof. intros Hb Hl. unfold bits_val. rewrite testbit_fold_lor by assumption. rewrite Z.bits_0. reflexivity. Qed.

Lemma bits_val_nonneg l : (forall x, In x l -> 0 <= x) -> 0 <= bits_val l.
Proof.
  intros Hl. unfold bits_val.
  assert (G : forall acc, 0 <= acc -> 0 <= fold_left (fun a b => Z.lor a (2 ^ b)) l acc).
  { induction l as [|x t IH]; intros acc Ha; cbn [fold_left]; [exact Ha|].
    apply IH; [intros y Hy; apply Hl; right; exact Hy|].
    apply Z.lor_nonneg. split; [exact Ha|]. apply Z.pow_nonneg. lia. }
  apply G. lia.
Qed.

(* set_bits: union *)
Theorem set_bits_spec v l b :
  0 <= b -> (forall x, In x l -> 0 <= x) ->
  Z.testbit (Z.lor v (bits_val l)) b = Z.testbit v b || existsb (Z.eqb b) l.
Proof. intros Hb Hl. rewrite Z.lor_spec, testbit_bits_val by assumption. reflexivity. Qed.

(* clear_bits: and with the complement inside the width W: difference *)
Theorem clear_bits_spec v l b W :
  0 <= b < W -> (forall x, In x l -> 0 <= x) ->
  Z.testbit (Z.land v (Z.land (Z.ones W) (Z.lnot (bits_val l)))) b =
  Z.testbit v b && negb (existsb (Z.eqb b) l).
Proof.
  intros Hb Hl. rewrite !Z.land_spec, Z.lnot_spec by lia. rewrite testbit_bits_val by (try lia; exact Hl).
  rewrite Z.ones_spec_low by lia. reflexivity.
Qed.

(* check_bits: non-empty intersection *)
Theorem check_bits_spec v l :
  0 <= v -> (forall x, In x l -> 0 <= x) ->
  (0 <? Z.land v (bits_val l)) = existsb (Z.testbit v) l.
Proof.
  intros Hv Hl.
  assert (Hn : 0 <= Z.land v (bits_val l)) by (apply Z.land_nonneg; left; exact Hv).
  destruct (existsb (Z.testbit v) l) eqn:E.
  - apply existsb_exists in E. destruct E as [b [Hb Tb]].
    assert (Hbit : Z.testbit (Z.land v (bits_val l)) b = true).
    { rewrite Z.land_spec, Tb, testbit_bits_val by (try exact Hl; apply Hl; exact Hb).
      apply existsb_exists. exists b. split; [exact Hb|apply Z.eqb_refl]. }
    destruct (Z.eq_dec (Z.land v (bits_val l)) 0) as [E0|E0].
    + rewrite E0, Z.bits_0 in Hbit. discriminate.
    + lia.
  - assert (E0 : Z.land v (bits_val l) = 0).
    { apply Z.bits_inj_0. intros n. destruct (Z_lt_dec n 0) as [Hneg|Hpos]; [apply Z.testbit_neg_r; exact Hneg|].
      rewrite Z.land_spec, testbit_bits_val by (try lia; exact Hl).
      destruct (existsb (Z.eqb n) l) eqn:En; [|apply andb_false_r].
      apply existsb_exists in En. destruct En as [x [Hx Ex]]. apply Z.eqb_eq in Ex. subst x.
      assert (Z.testbit v n = false); [|rewrite H; reflexivity].
      destruct (Z.testbit v n) eqn:T; [|reflexivity].
      assert (existsb (Z.testbit v) l = true); [|congruence].
      apply existsb_exists. exists n. split; assumption. }
    rewrite E0. reflexivity.
Qed.

(* a pixel is valid iff its set is non-empty *)
Theorem valid_iff_some_bit v : 0 <= v -> (v = 0 <-> forall b, 0 <= b -> Z.testbit v b = false).
Proof.
  intros Hv. split.
  - intros -> b _. apply Z.bits_0.
  - intros H. apply Z.bits_inj_0. intros n. destruct (Z_lt_dec n 0); [apply Z.testbit_neg_r; assumption|apply H; lia].
Qed.

(* the width reported for a requested number of bits holds every requested bit *)
Theorem width_holds_maxbits maxbits : 1 <= maxbits -> maxbits <= 8 * ((maxbits - 1) / 8 + 1) < maxbits + 8.
Proof. intros H. lia. Qed.

(* a geometry value (bit list) fits the width chosen for it: largest bit + 1 (fix F06) *)
Theorem geom_width_fits (l : list Z) (mx : Z) :
  (forall x, In x l -> 0 <= x <= mx) -> forall x, In x l -> x < 8 * ((mx + 1 - 1) / 8 + 1).
Proof. intros H x Hx. specialize (H x Hx). lia. Qed.
