(* Spec2.v — L0 (dense) specifications of the operations modelled in Ops.v: each is a pointwise
   function on the full-resolution array plus the coverage mask. *)
From HS Require Import Prelude Cov Map Spec Ops.

Section Spec2.
Variable V : Type.
Variable valid : V -> bool.
Variable dv : V.

Notation dmap := (dmap V).

Definition d_cov (d : dmap) (p : Z) : bool := znth false (dcov d) (p / d_nfine d).

(* scalar operators: exactly the valid pixels change *)
Definition d_map_valid (g : V -> V) (d : dmap) : dmap :=
  mkd (d_nfine d) (map (fun v => if valid v then g v else v) (dense d)) (dcov d) (d_blank d).

(* invert / boolean constant: every pixel inside the coverage mask *)
Definition d_cov_map (g : V -> V) (d : dmap) : dmap :=
  mkd (d_nfine d)
      (map (fun p => if d_cov d p then g (d_read V dv d p) else d_read V dv d p) (zrange 0 (d_npix V d)))
      (dcov d) (d_blank d).

(* apply_mask: valid pixels selected by the mask become blank *)
Definition d_apply_mask (bad : Z -> bool) (d : dmap) : dmap :=
  mkd (d_nfine d)
      (map (fun p => let v := d_read V dv d p in if valid v && bad p then d_blank d else v)
           (zrange 0 (d_npix V d)))
      (dcov d) (d_blank d).

(* boolean map operation: a outside cov(b), pixelwise inside; coverage union *)
Definition d_bool_op (f : V -> V -> V) (a b : dmap) : dmap :=
  mkd (d_nfine a)
      (map (fun p => if d_cov b p then f (d_read V dv a p) (d_read V dv b p) else d_read V dv a p)
           (zrange 0 (d_npix V a)))
      (map (fun c => znth false (dcov a) c || znth false (dcov b) c) (zrange 0 (d_ncov V a)))
      (d_blank a).

(* pixel-range update = the explicit-pixel update of the pixels the ranges contain; the
   coverage mask may additionally contain the coverage pixel named by an end that falls
   exactly on a block edge (superset clause of C08) *)

(* restriction to a set of coverage pixels (partial read) *)
Definition d_restrict (req : list Z) (d : dmap) : dmap :=
  let keep c := znth false (dcov d) c && existsb (Z.eqb c) req in
  mkd (d_nfine d)
      (map (fun p => if keep (p / d_nfine d) then d_read V dv d p else d_blank d) (zrange 0 (d_npix V d)))
      (map keep (zrange 0 (d_ncov V d)))
      (d_blank d).

(* multi-map operations: fold over the inputs valid at the pixel, in list order; each input
   carries its own validity test *)
Definition vdmap : Type := ((V -> bool) * dmap)%type.

Definition d_vals_at (ds : list vdmap) (p : Z) : list V :=
  flat_map (fun d : vdmap => let v := d_read V dv (snd d) p in if fst d v then [v] else []) ds.

Definition d_mm_cov (union : bool) (ds : list vdmap) (c : Z) : bool :=
  match ds with
  | [] => false
  | d0 :: r => fold_left (fun acc (d : vdmap) => if union then acc || znth false (dcov (snd d)) c
                                        else acc && znth false (dcov (snd d)) c) r (znth false (dcov (snd d0)) c)
  end.

Definition d_apply_operation (f : V -> V -> V) (conv : V -> V) (filler sentinel : V)
           (union fill_first : bool) (ds : list vdmap) : option dmap :=
  match ds with
  | [] => None
  | d0 :: _ =>
    let n := zlen ds in
    let value p :=
      let vs := d_vals_at ds p in
      if union then
        match vs with [] => sentinel | _ => fold_left f vs filler end
      else
        if zlen vs =? n then
          (if fill_first then match vs with [] => sentinel | v0 :: r => fold_left f r (conv v0) end
           else fold_left f vs filler)
        else sentinel in
    Some (mkd (d_nfine (snd d0)) (map value (zrange 0 (d_npix V (snd d0))))
              (map (d_mm_cov union ds) (zrange 0 (d_ncov V (snd d0)))) sentinel)
  end.

End Spec2.

Section Spec2b.
Variables V W : Type.
Variable valid : V -> bool.
Variable dv : V.

(* astype *)
Definition d_astype (conv : V -> W) (nb : W) (d : dmap V) : dmap W :=
  mkd (d_nfine d) (map (fun v => if valid v then conv v else nb) (dense d)) (dcov d) nb.

(* degrade: coarse pixel q reduces its r children; outside the coverage mask it is blank *)
Definition d_degrade (red : list V -> W) (r : Z) (nb : W) (d : dmap V) : dmap W :=
  let nf' := d_nfine d / r in
  mkd nf'
      (map (fun q => if znth false (dcov d) (q / nf')
                     then red (zslice (dense d) (q * r) ((q + 1) * r)) else nb)
           (zrange 0 (d_npix V d / r)))
      (dcov d) nb.

Definition d_degrade2 (red : list (V * W) -> W) (r : Z) (nb : W) (d : dmap V) (wd : list W) : dmap W :=
  let nf' := d_nfine d / r in
  mkd nf'
      (map (fun q => if znth false (dcov d) (q / nf')
                     then red (combine (zslice (dense d) (q * r) ((q + 1) * r))
                                       (zslice wd (q * r) ((q + 1) * r))) else nb)
           (zrange 0 (d_npix V d / r)))
      (dcov d) nb.

(* upgrade: every child takes the value of its parent *)
Definition d_upgrade (r : Z) (d : dmap V) : dmap V :=
  mkd (d_nfine d * r) (map (fun p => d_read V dv d (p / r)) (zrange 0 (d_npix V d * r)))
      (dcov d) (d_blank d).

End Spec2b.
