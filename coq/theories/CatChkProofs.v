(* CatChkProofs.v — concatenation with overlap checking (C18): the routine raises iff two inputs share a
   valid pixel; with or_overlap it never raises and every pixel holds the inputs valid there or-ed together
   in list order (an intermediate value that happens to equal the sentinel counts as invalid, as in the code);
   without checking the last valid input wins. *)
From HS Require Import Prelude Cov Map Spec Ops Spec2 Params AtFold MapProofs UpdateProofs HistoryProofs
     LayoutProofs AccountProofs MultiRefine CatRefine CatCov CatChk.

Section CatChkP.
Variable P : params.
Notation V := (p_V P).
Notation valid := (p_valid P).
Notation dv := (p_dv P).
Notation vor := (p_vor P).
Notation wf := (wf P).
Notation read := (read V dv).
Notation upd := (update V dv (p_vadd P) (p_vor P) (p_vand P) (p_vzero P) (p_is_sent P) (p_sent_nonzero P)).
Notation cat_sel := (cat_sel V valid dv).
Notation cat_in := (cat_in V valid dv (p_vadd P) (p_vor P) (p_vand P) (p_vzero P) (p_is_sent P) (p_sent_nonzero P)).
Notation cat_step_chk := (cat_step_chk V valid dv (p_vadd P) (p_vor P) (p_vand P) (p_vzero P) (p_is_sent P) (p_sent_nonzero P)).
Notation cat_chk := (cat_chk V valid dv (p_vadd P) (p_vor P) (p_vand P) (p_vzero P) (p_is_sent P) (p_sent_nonzero P)).

Variable N : Z.

(* what one arriving value does to the value already there *)
Definition ostep (chk : bool) (acc v : V) : V := if chk && valid acc then vor v acc else v.

Lemma existsb_eqb_filter (f : Z -> bool) (l : list Z) q :
  existsb (Z.eqb q) (filter f l) = existsb (Z.eqb q) l && f q.
Proof.
  induction l as [|x r IH]; [reflexivity|]. cbn [filter existsb].
  destruct (f x) eqn:Ef; cbn [existsb]; rewrite IH.
  - destruct (q =? x) eqn:E; cbn [orb]; [|reflexivity]. apply Z.eqb_eq in E. subst x. rewrite Ef. reflexivity.
  - destruct (q =? x) eqn:E; cbn [orb]; [|reflexivity]. apply Z.eqb_eq in E. subst x. rewrite Ef.
    rewrite andb_false_r. destruct (existsb (Z.eqb q) r); reflexivity.
Qed.

(* a replace-update with one value per listed pixel *)
Lemma upd_map_read (sm : smap V) (h : Z -> V) (l : list Z) :
  wf sm -> npix V sm = N -> NoDup l -> (forall p, In p l -> 0 <= p < N) ->
  let sm' := upd sm URepl (map (fun p => (p, h p)) l) false in
  wf sm' /\ npix V sm' = N /\ blank sm' = blank sm /\
  forall q, 0 <= q < N -> read sm' q = if existsb (Z.eqb q) l then h q else read sm q.
Proof.
  intros Ws Ns ND Hr. cbv zeta.
  assert (Hok : pvs_ok P sm (map (fun p => (p, h p)) l)).
  { intros pv Hpv. apply in_map_iff in Hpv. destruct Hpv as [p [<- Hp]]. cbn [fst]. rewrite Ns. apply Hr; exact Hp. }
  split; [apply (update_wf P); assumption|].
  split; [rewrite (npix_update P); exact Ns|].
  split; [apply (blank_update P)|].
  intros q Hq. rewrite (update_read P sm URepl _ false q Ws Hok) by (rewrite Ns; exact Hq).
  destruct (vals_at_inj (fun p => p) h l q ND (fun p _ E => E)) as [V1 V2].
  destruct (existsb (Z.eqb q) l) eqn:E.
  - apply existsb_eqb_In in E. rewrite (V1 E). reflexivity.
  - assert (Hn : ~ In q l) by (intros Hin; apply existsb_eqb_In in Hin; congruence).
    rewrite (V2 Hn). reflexivity.
Qed.

Lemma cat_in_spec (chk orm : bool) (sm m : smap V) (sel : list Z) :
  wf sm -> npix V sm = N -> NoDup sel -> (forall p, In p sel -> 0 <= p < N) ->
  match cat_in chk orm sm m sel with
  | Some sm' =>
      wf sm' /\ npix V sm' = N /\ blank sm' = blank sm /\
      (forall q, 0 <= q < N ->
         read sm' q = if existsb (Z.eqb q) sel then ostep chk (read sm q) (read m q) else read sm q) /\
      (chk = true -> orm = false -> forall p, In p sel -> valid (read sm p) = false)
  | None => chk = true /\ orm = false /\ exists p, In p sel /\ valid (read sm p) = true
  end.
Proof.
  intros Ws Ns ND Hr. unfold CatChk.cat_in.
  set (hit := fun p => valid (read sm p)).
  destruct (chk && existsb hit sel) eqn:Ehit.
  - apply andb_prop in Ehit. destruct Ehit as [Ec Eh]. subst chk.
    destruct orm.
    + (* or mode *)
      set (filled := filter hit sel). set (empty := filter (fun p => negb (valid (read sm p))) sel).
      assert (NDf : NoDup filled) by (apply NoDup_filter; exact ND).
      assert (NDe : NoDup empty) by (apply NoDup_filter; exact ND).
      assert (Hrf : forall p, In p filled -> 0 <= p < N) by (intros p Hp; apply filter_In in Hp; apply Hr; apply Hp).
      assert (Hre : forall p, In p empty -> 0 <= p < N) by (intros p Hp; apply filter_In in Hp; apply Hr; apply Hp).
      destruct (upd_map_read sm (fun p => vor (read m p) (read sm p)) filled Ws Ns NDf Hrf) as [W1 [N1 [B1 R1]]].
      set (sm1 := upd sm URepl (map (fun p => (p, vor (read m p) (read sm p))) filled) false) in *.
      destruct (upd_map_read sm1 (fun p => read m p) empty W1 N1 NDe Hre) as [W2 [N2 [B2 R2]]].
      assert (Hread : forall sm', (forall q, 0 <= q < N -> read sm' q = if existsb (Z.eqb q) empty then read m q else read sm1 q) ->
                forall q, 0 <= q < N ->
                read sm' q = if existsb (Z.eqb q) sel then ostep true (read sm q) (read m q) else read sm q).
      { intros sm' R q Hq. rewrite (R q Hq), (R1 q Hq). unfold empty, filled. rewrite !existsb_eqb_filter.
        unfold ostep, hit. cbn [andb].
        destruct (existsb (Z.eqb q) sel); cbn [andb]; [|reflexivity].
        destruct (valid (read sm q)); reflexivity. }
      destruct empty as [|e0 er] eqn:Ee.
      * split; [exact W1|]. split; [exact N1|]. split; [exact B1|]. split.
        -- apply Hread. intros q Hq. reflexivity.
        -- intros _ Hf. discriminate.
      * split; [exact W2|]. split; [exact N2|]. split; [rewrite B2; exact B1|]. split.
        -- apply Hread. exact R2.
        -- intros _ Hf. discriminate.
    + split; [reflexivity|]. split; [reflexivity|].
      apply existsb_exists in Eh. exact Eh.
  - destruct (upd_map_read sm (fun p => read m p) sel Ws Ns ND Hr) as [W1 [N1 [B1 R1]]].
    split; [exact W1|]. split; [exact N1|]. split; [exact B1|]. split.
    + intros q Hq. rewrite (R1 q Hq). destruct (existsb (Z.eqb q) sel) eqn:Es; [|reflexivity].
      unfold ostep. destruct chk; cbn [andb]; [|reflexivity].
      cbn [andb] in Ehit. apply existsb_eqb_In in Es.
      assert (Hv : valid (read sm q) = false).
      { destruct (valid (read sm q)) eqn:Ev; [|reflexivity].
        assert (existsb hit sel = true) by (apply existsb_exists; exists q; split; [exact Es|exact Ev]). congruence. }
      rewrite Hv. reflexivity.
    + intros -> _ p Hp. cbn [andb] in Ehit.
      destruct (valid (read sm p)) eqn:Ev; [|reflexivity].
      assert (existsb hit sel = true) by (apply existsb_exists; exists p; split; [exact Hp|exact Ev]). congruence.
Qed.

(* ---- one output coverage pixel, all inputs ---- *)

Lemma cat_sel_spec (nf : Z) (m : smap V) (pix : Z) :
  okin P N m ->
  NoDup (cat_sel nf m pix) /\
  (forall p, In p (cat_sel nf m pix) <-> 0 <= p < N /\ p / nf = pix /\ valid (read m p) = true).
Proof.
  intros [W Np]. destruct (valid_pixels_spec P m W) as [Evp [ND Hin]].
  unfold CatChk.cat_sel. rewrite Evp. split.
  - apply NoDup_filter. exact ND.
  - intros p. rewrite filter_In, Hin, Np. rewrite Z.eqb_eq. tauto.
Qed.

Lemma cat_sel_mem (nf : Z) (m : smap V) (pix q : Z) :
  okin P N m -> 0 <= q < N ->
  existsb (Z.eqb q) (cat_sel nf m pix) = (q / nf =? pix) && valid (read m q).
Proof.
  intros Hok Hq. destruct (cat_sel_spec nf m pix Hok) as [_ Hin].
  destruct (existsb (Z.eqb q) (cat_sel nf m pix)) eqn:E.
  - apply existsb_eqb_In in E. apply Hin in E. destruct E as [_ [E1 E2]]. rewrite E2.
    apply Z.eqb_eq in E1. rewrite E1. reflexivity.
  - destruct ((q / nf =? pix) && valid (read m q)) eqn:E2; [|reflexivity].
    apply andb_prop in E2. destruct E2 as [E1 E2]. apply Z.eqb_eq in E1.
    assert (Hi : In q (cat_sel nf m pix)) by (apply Hin; tauto).
    apply existsb_eqb_In in Hi. congruence.
Qed.

(* does a value arrive at a pixel that is already valid?  (every arriving value is valid) *)
Definition hitting (acc : V) (vs : list V) : bool :=
  match vs with
  | [] => false
  | _ :: r => valid acc || match r with [] => false | _ => true end
  end.

Lemma fold_none {A B} (f : option A -> B -> option A) (l : list B) :
  (forall b, f None b = None) -> fold_left f l None = None.
Proof. intros H. induction l as [|b r IH]; [reflexivity|]. cbn [fold_left]. rewrite H. exact IH. Qed.

Lemma cvals_valid (inputs : list (smap V)) q v : In v (cvals P inputs q) -> valid v = true.
Proof.
  induction inputs as [|m r IH]; [intros []|]. rewrite (cvals_cons P). intros H. apply in_app_or in H.
  destruct H as [H|H]; [|exact (IH H)].
  destruct (valid (read m q)) eqn:E; [|destruct H]. destruct H as [<-|[]]. exact E.
Qed.

Lemma one_pixel_chk (chk orm : bool) (nf : Z) (inputs : list (smap V)) : forall (sm : smap V) (pix : Z),
  wf sm -> npix V sm = N -> (forall m, In m inputs -> okin P N m) ->
  match cat_step_chk chk orm nf inputs (Some sm) pix with
  | Some sm' =>
      wf sm' /\ npix V sm' = N /\ blank sm' = blank sm /\
      (forall q, 0 <= q < N ->
         read sm' q = if q / nf =? pix then fold_left (ostep chk) (cvals P inputs q) (read sm q) else read sm q) /\
      (chk = true -> orm = false -> forall q, 0 <= q < N -> q / nf = pix ->
         hitting (read sm q) (cvals P inputs q) = false)
  | None => chk = true /\ orm = false /\
            exists q, 0 <= q < N /\ q / nf = pix /\ hitting (read sm q) (cvals P inputs q) = true
  end.
Proof.
  induction inputs as [|m r IH]; intros sm pix Ws Ns Hok; unfold CatChk.cat_step_chk; cbn [fold_left].
  - split; [exact Ws|]. split; [exact Ns|]. split; [reflexivity|]. split.
    + intros q Hq. destruct (q / nf =? pix); reflexivity.
    + intros _ _ q _ _. reflexivity.
  - pose proof (Hok m (or_introl eq_refl)) as Hm.
    destruct (cat_sel_spec nf m pix Hm) as [NDs Hsel].
    assert (Hrs : forall p, In p (cat_sel nf m pix) -> 0 <= p < N) by (intros p Hp; apply Hsel in Hp; tauto).
    pose proof (cat_in_spec chk orm sm m (cat_sel nf m pix) Ws Ns NDs Hrs) as Hin.
    destruct (cat_in chk orm sm m (cat_sel nf m pix)) as [sm1|] eqn:E1.
    + destruct Hin as [W1 [N1 [B1 [R1 H1]]]].
      specialize (IH sm1 pix W1 N1 (fun x Hx => Hok x (or_intror Hx))).
      unfold CatChk.cat_step_chk in IH.
      match goal with |- match ?X with _ => _ end => destruct X as [sm2|] eqn:E2 end.
      * destruct IH as [W2 [N2 [B2 [R2 H2]]]].
        split; [exact W2|]. split; [exact N2|]. split; [rewrite B2; exact B1|]. split.
        -- intros q Hq. rewrite (R2 q Hq), (R1 q Hq), (cat_sel_mem nf m pix q Hm Hq), (cvals_cons P), fold_left_app.
           destruct (q / nf =? pix); cbn [andb]; [|reflexivity].
           destruct (valid (read m q)); reflexivity.
        -- intros Hc Ho q Hq Hp. specialize (H2 Hc Ho q Hq Hp). specialize (H1 Hc Ho).
           rewrite (R1 q Hq), (cat_sel_mem nf m pix q Hm Hq) in H2.
           assert (Ep : (q / nf =? pix) = true) by (apply Z.eqb_eq; exact Hp). rewrite Ep in H2. cbn [andb] in H2.
           rewrite (cvals_cons P).
           destruct (valid (read m q)) eqn:Ev; cbn [app]; [|exact H2].
           assert (Hs : valid (read sm q) = false) by (apply H1; apply Hsel; tauto).
           unfold ostep in H2. rewrite Hs, andb_false_r in H2.
           destruct (cvals P r q) as [|x xs]; cbn [hitting] in *; [rewrite Hs; reflexivity|].
           rewrite Ev in H2. discriminate.
      * destruct IH as [Hc [Ho [q [Hq [Hp Hh]]]]]. split; [exact Hc|]. split; [exact Ho|].
        exists q. split; [exact Hq|]. split; [exact Hp|]. specialize (H1 Hc Ho).
        rewrite (R1 q Hq), (cat_sel_mem nf m pix q Hm Hq) in Hh.
        assert (Ep : (q / nf =? pix) = true) by (apply Z.eqb_eq; exact Hp). rewrite Ep in Hh. cbn [andb] in Hh.
        rewrite (cvals_cons P).
        destruct (valid (read m q)) eqn:Ev; cbn [app]; [|exact Hh].
        destruct (cvals P r q) as [|x xs]; cbn [hitting] in *; [discriminate|].
        apply orb_true_r.
    + rewrite fold_none by reflexivity.
      destruct Hin as [Hc [Ho [p [Hp Hv]]]]. split; [exact Hc|]. split; [exact Ho|].
      apply Hsel in Hp. destruct Hp as [Hr [Hpp Hvm]].
      exists p. split; [exact Hr|]. split; [exact Hpp|].
      rewrite (cvals_cons P), Hvm. cbn [app hitting]. rewrite Hv. reflexivity.
Qed.

(* ---- all visited coverage pixels ---- *)

Lemma existsb_eqb_tail_false (x pix : Z) (r : list Z) :
  ~ In pix r -> x = pix -> existsb (Z.eqb x) r = false.
Proof.
  intros Hn ->. destruct (existsb (Z.eqb pix) r) eqn:E; [|reflexivity].
  apply existsb_eqb_In in E. contradiction.
Qed.

Lemma all_pixels_chk (chk orm : bool) (nf : Z) (inputs : list (smap V)) (cov_pix : list Z) : forall (sm : smap V),
  wf sm -> npix V sm = N -> (forall m, In m inputs -> okin P N m) -> NoDup cov_pix ->
  match fold_left (cat_step_chk chk orm nf inputs) cov_pix (Some sm) with
  | Some sm' =>
      wf sm' /\ npix V sm' = N /\ blank sm' = blank sm /\
      (forall q, 0 <= q < N ->
         read sm' q = if existsb (Z.eqb (q / nf)) cov_pix
                      then fold_left (ostep chk) (cvals P inputs q) (read sm q) else read sm q) /\
      (chk = true -> orm = false -> forall q, 0 <= q < N -> existsb (Z.eqb (q / nf)) cov_pix = true ->
         hitting (read sm q) (cvals P inputs q) = false)
  | None => chk = true /\ orm = false /\
            exists q, 0 <= q < N /\ existsb (Z.eqb (q / nf)) cov_pix = true /\
                      hitting (read sm q) (cvals P inputs q) = true
  end.
Proof.
  induction cov_pix as [|pix r IH]; intros sm Ws Ns Hok ND; cbn [fold_left existsb].
  - split; [exact Ws|]. split; [exact Ns|]. split; [reflexivity|]. split; [reflexivity|].
    intros _ _ q _ Hf. discriminate.
  - inversion ND as [|x l Hnin ND']; subst x l.
    pose proof (one_pixel_chk chk orm nf inputs sm pix Ws Ns Hok) as H1.
    destruct (cat_step_chk chk orm nf inputs (Some sm) pix) as [sm1|] eqn:E1.
    + destruct H1 as [W1 [N1 [B1 [R1 F1]]]].
      specialize (IH sm1 W1 N1 Hok ND').
      match goal with |- match ?X with _ => _ end => destruct X as [sm2|] eqn:E2 end.
      * destruct IH as [W2 [N2 [B2 [R2 F2]]]].
        split; [exact W2|]. split; [exact N2|]. split; [rewrite B2; exact B1|]. split.
        -- intros q Hq. rewrite (R2 q Hq), (R1 q Hq).
           destruct (q / nf =? pix) eqn:E; cbn [orb]; [|reflexivity].
           apply Z.eqb_eq in E. rewrite (existsb_eqb_tail_false (q / nf) pix r Hnin E). reflexivity.
        -- intros Hc Ho q Hq Hex.
           destruct (q / nf =? pix) eqn:E; cbn [orb] in Hex.
           ++ apply Z.eqb_eq in E. exact (F1 Hc Ho q Hq E).
           ++ specialize (F2 Hc Ho q Hq Hex). rewrite (R1 q Hq), E in F2. exact F2.
      * destruct IH as [Hc [Ho [q [Hq [Hex Hh]]]]]. split; [exact Hc|]. split; [exact Ho|].
        exists q. split; [exact Hq|].
        destruct (q / nf =? pix) eqn:E; cbn [orb].
        -- apply Z.eqb_eq in E. rewrite (existsb_eqb_tail_false (q / nf) pix r Hnin E) in Hex. discriminate.
        -- split; [exact Hex|]. rewrite (R1 q Hq), E in Hh. exact Hh.
    + assert (En : fold_left (cat_step_chk chk orm nf inputs) r None = None).
      { apply fold_none. intros b. unfold CatChk.cat_step_chk. apply fold_none. reflexivity. }
      rewrite En. destruct H1 as [Hc [Ho [q [Hq [Hp Hh]]]]]. split; [exact Hc|]. split; [exact Ho|].
      exists q. split; [exact Hq|]. split; [|exact Hh].
      assert (E : (q / nf =? pix) = true) by (apply Z.eqb_eq; exact Hp). rewrite E. reflexivity.
Qed.

Lemma hitting_blank (bl : V) (vs : list V) :
  valid bl = false -> hitting bl vs = (2 <=? zlen vs).
Proof.
  intros Hb. destruct vs as [|a [|b r]]; cbn [hitting]; rewrite ?Hb; try reflexivity.
  cbn [orb]. symmetry. apply Z.leb_le. rewrite !zlen_cons. pose proof (zlen_nonneg r). lia.
Qed.

(* The routine, any visiting list without repetition that contains the coverage pixel of every valid input pixel *)
Theorem cat_chk_spec (chk orm : bool) (ncv nf : Z) (sentinel : V) (inputs : list (smap V)) (cov_pix : list Z) :
  0 <= ncv -> 0 < nf -> N = ncv * nf -> valid sentinel = false ->
  (forall m, In m inputs -> okin P N m) -> NoDup cov_pix ->
  (forall q, 0 <= q < N -> cvals P inputs q <> [] -> In (q / nf) cov_pix) ->
  match cat_chk chk orm ncv nf sentinel inputs cov_pix with
  | Some out =>
      wf out /\ npix V out = N /\ blank out = sentinel /\
      (forall q, 0 <= q < N -> read out q = fold_left (ostep chk) (cvals P inputs q) sentinel) /\
      (chk = true -> orm = false -> forall q, 0 <= q < N -> zlen (cvals P inputs q) <= 1)
  | None => chk = true /\ orm = false /\ exists q, 0 <= q < N /\ 2 <= zlen (cvals P inputs q)
  end.
Proof.
  intros Hn Hf EN Hs Hok ND Hcov. unfold CatChk.cat_chk.
  assert (W0 : wf (make_empty V ncv nf sentinel None)) by (apply (make_empty_wf P); try assumption; exact I).
  assert (N0 : npix V (make_empty V ncv nf sentinel None) = N) by (rewrite (npix_make_empty P) by exact Hn; lia).
  assert (R0 : forall q, 0 <= q < N -> read (make_empty V ncv nf sentinel None) q = sentinel).
  { intros q Hq. apply (make_empty_read P); try assumption; try exact I. lia. }
  assert (Hnot : forall q, 0 <= q < N -> existsb (Z.eqb (q / nf)) cov_pix = false -> cvals P inputs q = []).
  { intros q Hq E. destruct (cvals P inputs q) as [|v r] eqn:Ev; [reflexivity|].
    assert (Hin : In (q / nf) cov_pix) by (apply Hcov; [exact Hq|rewrite Ev; discriminate]).
    apply existsb_eqb_In in Hin. congruence. }
  pose proof (all_pixels_chk chk orm nf inputs cov_pix _ W0 N0 Hok ND) as H.
  match goal with |- match ?X with _ => _ end => destruct X as [out|] eqn:E end.
  - destruct H as [W1 [N1 [B1 [R1 F1]]]].
    split; [exact W1|]. split; [exact N1|]. split; [rewrite B1; reflexivity|]. split.
    + intros q Hq. rewrite (R1 q Hq), (R0 q Hq).
      destruct (existsb (Z.eqb (q / nf)) cov_pix) eqn:Ex; [reflexivity|].
      rewrite (Hnot q Hq Ex). reflexivity.
    + intros Hc Ho q Hq.
      destruct (existsb (Z.eqb (q / nf)) cov_pix) eqn:Ex.
      * specialize (F1 Hc Ho q Hq Ex). rewrite (R0 q Hq), (hitting_blank _ _ Hs) in F1.
        apply Z.leb_gt in F1. lia.
      * rewrite (Hnot q Hq Ex). cbn. lia.
  - destruct H as [Hc [Ho [q [Hq [_ Hh]]]]]. split; [exact Hc|]. split; [exact Ho|].
    exists q. split; [exact Hq|]. rewrite (R0 q Hq), (hitting_blank _ _ Hs) in Hh. apply Z.leb_le in Hh. exact Hh.
Qed.

(* with the visiting list the routine computes itself *)
Theorem cat_checked_routine_spec (chk orm : bool) (ncv nf : Z) (sentinel : V) (inputs : list (smap V)) :
  0 <= ncv -> 0 < nf -> N = ncv * nf -> valid sentinel = false ->
  (forall m, In m inputs -> okin P N m /\ nested P nf m) ->
  match cat_chk chk orm ncv nf sentinel inputs (cat_cov_pix V valid dv ncv nf inputs) with
  | Some out =>
      wf out /\ npix V out = N /\ blank out = sentinel /\
      (forall q, 0 <= q < N -> read out q = fold_left (ostep chk) (cvals P inputs q) sentinel) /\
      (chk = true -> orm = false -> forall q, 0 <= q < N -> zlen (cvals P inputs q) <= 1)
  | None => chk = true /\ orm = false /\ exists q, 0 <= q < N /\ 2 <= zlen (cvals P inputs q)
  end.
Proof.
  intros Hn Hf EN Hs Hok.
  destruct (cat_cov_pix_complete P N ncv nf inputs Hn Hf EN Hok) as [ND Hc].
  apply (cat_chk_spec chk orm ncv nf sentinel inputs _ Hn Hf EN Hs); [|exact ND|exact Hc].
  intros m Hin. apply (Hok m Hin).
Qed.

(* readable corollaries *)

(* overlap checking without or: the routine raises iff two inputs share a valid pixel *)
Corollary cat_raises_iff_overlap (ncv nf : Z) (sentinel : V) (inputs : list (smap V)) :
  0 <= ncv -> 0 < nf -> N = ncv * nf -> valid sentinel = false ->
  (forall m, In m inputs -> okin P N m /\ nested P nf m) ->
  cat_chk true false ncv nf sentinel inputs (cat_cov_pix V valid dv ncv nf inputs) = None <->
  exists q, 0 <= q < N /\ 2 <= zlen (cvals P inputs q).
Proof.
  intros Hn Hf EN Hs Hok.
  pose proof (cat_checked_routine_spec true false ncv nf sentinel inputs Hn Hf EN Hs Hok) as H.
  destruct (cat_chk true false ncv nf sentinel inputs (cat_cov_pix V valid dv ncv nf inputs)) as [out|].
  - destruct H as [_ [_ [_ [_ F]]]]. split; [discriminate|].
    intros [q [Hq Hl]]. specialize (F eq_refl eq_refl q Hq). lia.
  - destruct H as [_ [_ Hex]]. split; [intros _; exact Hex|reflexivity].
Qed.

(* or_overlap never raises *)
Corollary cat_or_never_raises (ncv nf : Z) (sentinel : V) (inputs : list (smap V)) :
  0 <= ncv -> 0 < nf -> N = ncv * nf -> valid sentinel = false ->
  (forall m, In m inputs -> okin P N m /\ nested P nf m) ->
  cat_chk true true ncv nf sentinel inputs (cat_cov_pix V valid dv ncv nf inputs) <> None.
Proof.
  intros Hn Hf EN Hs Hok.
  pose proof (cat_checked_routine_spec true true ncv nf sentinel inputs Hn Hf EN Hs Hok) as H.
  destruct (cat_chk true true ncv nf sentinel inputs (cat_cov_pix V valid dv ncv nf inputs)) as [out|]; [discriminate|].
  destruct H as [_ [Ho _]]. discriminate.
Qed.

End CatChkP.
