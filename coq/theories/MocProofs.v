(* MocProofs.v — UNIQ numbers decode to the (order, pixel) they encode; a cell expands to exactly
   the pixels whose ancestor it is; hence cells of different pixels' ancestors at one order are
   disjoint (C17). *)
From HS Require Import Prelude Moc.

Lemma pow4_pos n : 0 <= n -> 0 < 4 ^ n.
Proof. intros H. apply Z.pow_pos_nonneg; lia. Qed.

Lemma pow4_as_pow2 n : 0 <= n -> 4 ^ n = 2 ^ (2 * n).
Proof. intros H. rewrite Z.pow_mul_r by lia. reflexivity. Qed.

Theorem uniq_decode_encode order ipix :
  0 <= order -> 0 <= ipix < 12 * 4 ^ order ->
  uniq_order (uniq_of order ipix) = order /\ uniq_index (uniq_of order ipix) = ipix.
Proof.
  intros Ho Hi. pose proof (pow4_pos order Ho) as Hp.
  assert (Eo : uniq_order (uniq_of order ipix) = order).
  { unfold uniq_order, uniq_of.
    replace (4 * 4 ^ order + ipix) with (ipix + 4 ^ order * 4) by lia.
    rewrite Z.div_add by lia.
    assert (Hq : 0 <= ipix / 4 < 3 * 4 ^ order).
    { split; [apply Z.div_pos; lia|apply Z.div_lt_upper_bound; lia]. }
    assert (Hlog : 2 * order <= Z.log2 (ipix / 4 + 4 ^ order) < 2 * order + 2).
    { split.
      - apply Z.log2_le_pow2; [lia|]. rewrite <- pow4_as_pow2 by lia. lia.
      - apply Z.log2_lt_pow2; [lia|].
        replace (2 * order + 2) with (2 * (order + 1)) by lia. rewrite <- pow4_as_pow2 by lia.
        rewrite Z.pow_add_r by lia. lia. }
    symmetry. apply Z.div_unique with (Z.log2 (ipix / 4 + 4 ^ order) - 2 * order); lia. }
  split; [exact Eo|]. unfold uniq_index. rewrite Eo. unfold uniq_of. lia.
Qed.

(* the pixels of order mx below cell (l, q) are exactly those whose ancestor at order l is q *)
Theorem expansion_is_the_descendants mx l q p :
  0 <= l <= mx -> 0 <= p ->
  (q * 4 ^ (mx - l) <= p < (q + 1) * 4 ^ (mx - l)) <-> ancestor mx l p = q.
Proof.
  intros Hl Hp. unfold ancestor. pose proof (pow4_pos (mx - l) ltac:(lia)) as Hpow.
  split.
  - intros H. symmetry. apply Z.div_unique with (p - q * 4 ^ (mx - l)); lia.
  - intros <-. pose proof (Z.div_mod p (4 ^ (mx - l)) ltac:(lia)).
    pose proof (Z.mod_pos_bound p (4 ^ (mx - l)) Hpow). lia.
Qed.

(* two different cells of one order never share a pixel *)
Corollary cells_of_one_order_disjoint mx l q1 q2 p :
  0 <= l <= mx -> 0 <= p ->
  q1 * 4 ^ (mx - l) <= p < (q1 + 1) * 4 ^ (mx - l) ->
  q2 * 4 ^ (mx - l) <= p < (q2 + 1) * 4 ^ (mx - l) -> q1 = q2.
Proof.
  intros Hl Hp H1 H2.
  apply (expansion_is_the_descendants mx l q1 p Hl Hp) in H1.
  apply (expansion_is_the_descendants mx l q2 p Hl Hp) in H2. lia.
Qed.

(* a cell at a coarser order contains a cell at a finer order iff it is its ancestor: cells are
   nested or disjoint, never partially overlapping *)
Theorem ancestor_compose mx l1 l2 p :
  0 <= l1 <= l2 -> l2 <= mx -> 0 <= p ->
  ancestor l2 l1 (ancestor mx l2 p) = ancestor mx l1 p.
Proof.
  intros H1 H2 Hp. unfold ancestor.
  pose proof (pow4_pos (mx - l2) ltac:(lia)) as P1. pose proof (pow4_pos (l2 - l1) ltac:(lia)) as P2.
  rewrite Z.div_div by lia.
  f_equal. rewrite <- Z.pow_add_r by lia. f_equal. lia.
Qed.

(* a full cell: when the valid pixels are listed without repetition and as many of them lie
   below the cell as the cell has pixels, every pixel below the cell is valid *)
Theorem full_cell_all_valid mx l (vs : list Z) q p :
  0 <= l <= mx -> NoDup vs -> (forall x, In x vs -> 0 <= x) ->
  cell_full mx l vs q = true -> 0 <= q ->
  q * 4 ^ (mx - l) <= p < (q + 1) * 4 ^ (mx - l) -> In p vs.
Proof.
  intros Hl ND Hpos Hfull Hq Hp.
  unfold cell_full, cell_count in Hfull. apply Z.eqb_eq in Hfull.
  pose proof (pow4_pos (mx - l) ltac:(lia)) as Hpow.
  set (below := filter (fun x => ancestor mx l x =? q) vs) in *.
  assert (NDb : NoDup below) by (apply NoDup_filter; exact ND).
  assert (Hin : incl below (zrange (q * 4 ^ (mx - l)) ((q + 1) * 4 ^ (mx - l)))).
  { intros x Hx. apply filter_In in Hx. destruct Hx as [Hx Ea]. apply Z.eqb_eq in Ea.
    apply In_zrange. apply (expansion_is_the_descendants mx l q x Hl (Hpos x Hx)). exact Ea. }
  assert (Hlen : (length (zrange (q * 4 ^ (mx - l)) ((q + 1) * 4 ^ (mx - l))) <= length below)%nat).
  { unfold zcount, zlen in Hfull. fold below in Hfull.
    pose proof (zlen_zrange (q * 4 ^ (mx - l)) ((q + 1) * 4 ^ (mx - l))) as L. unfold zlen in L. lia. }
  pose proof (NoDup_length_incl NDb Hlen Hin) as Hrev.
  assert (Hpin : In p below) by (apply Hrev; apply In_zrange; exact Hp).
  apply filter_In in Hpin. apply Hpin.
Qed.
