(* PackedSum.v — the population count of a bit-packed view (packedBoolArray.py sum(), which n_valid of a
   bit-packed map is): edge bytes unpacked, masked outside the view and summed, middle bytes through the
   SWAR table.  Theorem: for every well-formed view (every alignment) the result is the number of set bits
   of the view (C05, C02). *)
From HS Require Import Prelude Packed PackedProofs PackedOps FracdetProofs.

(* ---- ranges ---- *)
Lemma zrange_nat_app lo n1 n2 : zrange_nat lo (n1 + n2) = zrange_nat lo n1 ++ zrange_nat (lo + Z.of_nat n1) n2.
Proof.
  revert lo. induction n1 as [|n IH]; intros lo; cbn [zrange_nat Nat.add app].
  - f_equal. lia.
  - f_equal. rewrite IH. f_equal. f_equal. lia.
Qed.

Lemma zrange_split a b c : a <= b -> b <= c -> zrange a c = zrange a b ++ zrange b c.
Proof.
  intros H1 H2. unfold zrange.
  replace (Z.to_nat (c - a)) with (Z.to_nat (b - a) + Z.to_nat (c - b))%nat by lia.
  rewrite zrange_nat_app. f_equal. f_equal. lia.
Qed.

Lemma zcount_split {f : Z -> bool} a b c : a <= b -> b <= c ->
  zcount f (zrange a c) = zcount f (zrange a b) + zcount f (zrange b c).
Proof. intros H1 H2. rewrite (zrange_split a b c H1 H2). apply zcount_app. Qed.

Lemma zcount_empty_range (f : Z -> bool) a b : b <= a -> zcount f (zrange a b) = 0.
Proof. intros H. unfold zrange. replace (Z.to_nat (b - a)) with O by lia. reflexivity. Qed.

(* bits of byte j, positions [lo, hi) of it, seen as bits of the buffer *)
Lemma count_in_byte data j lo hi :
  0 <= j -> 0 <= lo -> lo <= hi -> hi <= 8 ->
  zcount (bit data) (zrange (8 * j + lo) (8 * j + hi)) = masked_count (znth 0 data j) lo hi.
Proof.
  intros Hj Hlo Hlh Hhi. unfold masked_count.
  rewrite (zcount_zrange_shift (bit data) (8 * j + lo) (8 * j + hi)).
  rewrite (zcount_zrange_shift (Z.testbit (znth 0 data j)) lo hi).
  replace (8 * j + hi - (8 * j + lo)) with (hi - lo) by lia.
  apply zcount_ext. intros t Ht. apply In_zrange in Ht. unfold bit.
  replace ((8 * j + lo + t) / 8) with j by lia.
  replace ((8 * j + lo + t) mod 8) with (lo + t) by lia. reflexivity.
Qed.

Lemma popcount8_count b : popcount8 b = zcount (Z.testbit b) (zrange 0 8).
Proof.
  unfold popcount8. cbn [popcount_nat Z.of_nat Pos.of_succ_nat Pos.succ].
  change (zrange 0 8) with [0; 1; 2; 3; 4; 5; 6; 7].
  rewrite !zcount_cons, zcount_nil. lia.
Qed.

Lemma mid_sum_count data : forall n lo,
  0 <= lo -> (forall j, lo <= j < lo + Z.of_nat n -> 0 <= znth 0 data j < 256) ->
  forall acc,
  fold_left (fun acc j => acc + lut_entry (znth 0 data j)) (zrange_nat lo n) acc =
  acc + zcount (bit data) (zrange (8 * lo) (8 * (lo + Z.of_nat n))).
Proof.
  induction n as [|n IH]; intros lo Hlo Hb acc; cbn [zrange_nat fold_left].
  - rewrite zcount_empty_range by lia. lia.
  - rewrite IH by (try lia; intros j Hj; apply Hb; lia).
    rewrite (lut_popcount_all (znth 0 data lo)) by (apply Hb; lia).
    rewrite popcount8_count.
    rewrite (@zcount_split (bit data) (8 * lo) (8 * (lo + 1)) (8 * (lo + Z.of_nat (S n)))) by lia.
    pose proof (count_in_byte data lo 0 8 Hlo ltac:(lia) ltac:(lia) ltac:(lia)) as C.
    unfold masked_count in C. replace (8 * lo + 0) with (8 * lo) in C by lia.
    replace (8 * lo + 8) with (8 * (lo + 1)) in C by lia. rewrite C.
    replace (lo + 1 + Z.of_nat n) with (lo + Z.of_nat (S n)) by lia. lia.
Qed.

Theorem sum_view_spec (v : pview) (data : list Z) :
  view_ok v -> vds v = 0 -> vde v = zlen data -> 0 < vsize v -> bytes_ok data ->
  sum_view v data = zcount (bit data) (zrange (vsi v) (vst v)).
Proof.
  intros Hv Hds Hde Hsz Hb.
  assert (End : vndata v = zlen data) by (unfold vndata; lia).
  set (n := zlen data) in *.
  destruct Hv as [Hsi [Hst [Hnd Hinv]]]. unfold vsize in *. rewrite End in *.
  destruct Hinv as [Hz|Hinv]; [lia|].
  assert (Hn : 1 <= n) by lia.
  assert (Hmid : forall lo hi, 0 <= lo -> lo <= hi -> hi <= n ->
            mid_sum data lo hi = zcount (bit data) (zrange (8 * lo) (8 * hi))).
  { intros lo hi H0 H1 H2. unfold mid_sum, zrange at 1.
    rewrite (mid_sum_count data (Z.to_nat (hi - lo)) lo H0) by (intros j Hj; apply Hb; fold n; lia).
    replace (lo + Z.of_nat (Z.to_nat (hi - lo))) with hi by lia. lia. }
  assert (Hedge : forall j lo hi, 0 <= j -> 0 <= lo -> lo <= hi -> hi <= 8 ->
            masked_count (znth 0 data j) lo hi = zcount (bit data) (zrange (8 * j + lo) (8 * j + hi)))
    by (intros; symmetry; apply count_in_byte; assumption).
  unfold sum_view, extract_fml. rewrite End.
  destruct ((vsi v =? 0) && (vst v =? n * 8)) eqn:E1; cbv beta iota zeta delta [f_lo f_hi m_lo m_hi l_lo l_hi].
  - (* fully aligned *)
    cbn [Z.ltb Z.compare]. rewrite Hmid by lia. replace (vsi v) with 0 by lia. replace (vst v) with (8 * n) by lia.
    change (8 * 0) with 0. lia.
  - destruct (vsi v =? 0) eqn:E2.
    + destruct (vst v <? 8) eqn:E3; cbv beta iota zeta delta [f_lo f_hi m_lo m_hi l_lo l_hi].
      * (* short, aligned at 0: n = 1 *)
        assert (En1 : n = 1) by lia.
        assert (Emod : vst v mod 8 = vst v) by (apply Z.mod_small; lia). rewrite Emod.
        cbn [Z.ltb Z.compare].
        unfold mid_sum. change (zrange 0 0) with (@nil Z). cbn [fold_left].
        destruct (0 <? vst v) eqn:E4; [|lia].
        rewrite (Hedge (n - 1) 0 (vst v)) by lia. replace (vsi v) with 0 by lia.
        replace (8 * (n - 1) + 0) with 0 by lia. replace (8 * (n - 1) + vst v) with (vst v) by lia. lia.
      * (* aligned at 0, longer: middle [0, n-1), last [0, st mod 8) *)
        cbn [Z.ltb Z.compare]. rewrite Hmid by lia.
        assert (Est : vst v = 8 * (n - 1) + vst v mod 8) by lia.
        replace (vsi v) with 0 by lia.
        destruct (0 <? vst v mod 8) eqn:E4.
        -- rewrite (Hedge (n - 1) 0 (vst v mod 8)) by lia.
           rewrite (@zcount_split (bit data) 0 (8 * (n - 1)) (vst v)) by lia.
           replace (8 * (n - 1) + 0) with (8 * (n - 1)) by lia.
           rewrite <- Est. replace (8 * 0) with 0 by lia. lia.
        -- assert (vst v = 8 * (n - 1)) by lia.
           replace (8 * 0) with 0 by lia. replace (vst v) with (8 * (n - 1)) by lia. lia.
    + destruct (vst v =? n * 8) eqn:E3.
      * destruct (n =? 1) eqn:E4; cbv beta iota zeta delta [f_lo f_hi m_lo m_hi l_lo l_hi].
        -- (* one byte, aligned at the end *)
           assert (En1 : n = 1) by lia. cbn [Z.ltb Z.compare].
           destruct (vsi v <? 8) eqn:E5; [|lia].
           rewrite (Hedge 0 (vsi v) 8) by lia. unfold mid_sum. change (zrange 0 0) with (@nil Z). cbn [fold_left].
           replace (8 * 0 + vsi v) with (vsi v) by lia. replace (8 * 0 + 8) with (vst v) by lia. lia.
        -- cbn [Z.ltb Z.compare]. destruct (vsi v <? 8) eqn:E5; [|lia].
           rewrite (Hedge 0 (vsi v) 8) by lia. rewrite Hmid by lia.
           rewrite (@zcount_split (bit data) (vsi v) 8 (vst v)) by lia.
           replace (8 * 0 + vsi v) with (vsi v) by lia. replace (8 * 0 + 8) with 8 by lia.
           replace (8 * 1) with 8 by lia. replace (8 * n) with (vst v) by lia. lia.
      * destruct (n =? 1) eqn:E4; cbv beta iota zeta delta [f_lo f_hi m_lo m_hi l_lo l_hi].
        -- (* one byte, unaligned at both ends *)
           assert (En1 : n = 1) by lia. cbn [Z.ltb Z.compare].
           unfold mid_sum. change (zrange 0 0) with (@nil Z). cbn [fold_left].
           destruct (vsi v <? vst v) eqn:E5; [|lia].
           rewrite (Hedge 0 (vsi v) (vst v)) by lia.
           replace (8 * 0 + vsi v) with (vsi v) by lia. replace (8 * 0 + vst v) with (vst v) by lia. lia.
        -- (* first [si, 8), middle [1, n-1), last [0, st mod 8) *)
           destruct (vsi v <? 8) eqn:E5; [|lia].
           rewrite (Hedge 0 (vsi v) 8) by lia. rewrite Hmid by lia.
           assert (Est : vst v = 8 * (n - 1) + vst v mod 8) by lia.
           replace (8 * 0 + vsi v) with (vsi v) by lia. replace (8 * 0 + 8) with 8 by lia. replace (8 * 1) with 8 by lia.
           destruct (0 <? vst v mod 8) eqn:E6.
           ++ rewrite (Hedge (n - 1) 0 (vst v mod 8)) by lia.
              replace (8 * (n - 1) + 0) with (8 * (n - 1)) by lia. rewrite <- Est.
              rewrite (@zcount_split (bit data) (vsi v) 8 (vst v)) by lia.
              rewrite (@zcount_split (bit data) 8 (8 * (n - 1)) (vst v)) by lia. lia.
           ++ assert (vst v = 8 * (n - 1)) by lia.
              rewrite (@zcount_split (bit data) (vsi v) 8 (vst v)) by lia.
              replace (vst v) with (8 * (n - 1)) by lia. lia.
Qed.
