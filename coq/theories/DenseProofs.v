(* DenseProofs.v — HEALPix interchange at the layout level (C16): building a sparse map from a dense
   HEALPix array (HealSparseMap(healpix_map=A): coverage pixels of the valid entries pre-allocated, the
   valid entries written) gives a well-formed map that reads A[p] at every valid entry and the sentinel
   elsewhere; exporting it again (generate_healpix_map: invalid pixels become UNSEEN) reproduces A when
   A's invalid entries are UNSEEN. *)
From HS Require Import Prelude Cov Map Spec Params AtFold MapProofs UpdateProofs HistoryProofs MultiRefine.

Section Dense.
Variable P : params.
Notation V := (p_V P).
Notation valid := (p_valid P).
Notation dv := (p_dv P).
Notation wf := (wf P).
Notation read := (read V dv).
Notation upd := (update V dv (p_vadd P) (p_vor P) (p_vand P) (p_vzero P) (p_is_sent P) (p_sent_nonzero P)).

Variable isval : V -> bool.       (* the test of the constructor: entry > UNSEEN (or != sentinel) *)

Definition dense_pvs (A : list V) : list (Z * V) :=
  map (fun p => (p, znth dv A p)) (filter (fun p => isval (znth dv A p)) (zrange 0 (zlen A))).

Definition from_dense (ncv nf : Z) (sentinel : V) (covs : list Z) (A : list V) : smap V :=
  upd (make_empty V ncv nf sentinel (Some covs)) URepl (dense_pvs A) false.

(* generate_healpix_map *)
Definition to_dense (unseen : V) (m : smap V) : list V :=
  map (fun p => let v := read m p in if valid v then v else unseen) (zrange 0 (npix V m)).

Theorem from_dense_read (ncv nf : Z) (sentinel : V) (covs : list Z) (A : list V) :
  0 <= ncv -> 0 < nf -> zlen A = ncv * nf -> valid sentinel = false -> covpix_ok ncv (Some covs) ->
  wf (from_dense ncv nf sentinel covs A) /\
  npix V (from_dense ncv nf sentinel covs A) = ncv * nf /\
  forall p, 0 <= p < ncv * nf ->
    read (from_dense ncv nf sentinel covs A) p = if isval (znth dv A p) then znth dv A p else sentinel.
Proof.
  intros Hn Hf HA Hs Hc. unfold from_dense.
  set (m0 := make_empty V ncv nf sentinel (Some covs)).
  assert (W0 : wf m0) by (apply (make_empty_wf P); assumption).
  assert (N0 : npix V m0 = ncv * nf) by (apply (npix_make_empty P); exact Hn).
  set (sel := filter (fun p => isval (znth dv A p)) (zrange 0 (zlen A))).
  assert (NDs : NoDup sel) by (apply NoDup_filter, NoDup_zrange).
  assert (Hok : pvs_ok P m0 (dense_pvs A)).
  { intros pv Hpv. unfold dense_pvs in Hpv. apply in_map_iff in Hpv. destruct Hpv as [p [<- Hp]]. cbn [fst].
    apply filter_In in Hp. destruct Hp as [Hp _]. apply In_zrange in Hp. rewrite N0. lia. }
  split; [apply (update_wf P); assumption|].
  split; [rewrite (npix_update P); exact N0|].
  intros p Hp. rewrite (update_read P m0 URepl _ false p W0 Hok) by (rewrite N0; exact Hp).
  unfold dense_pvs. fold sel.
  destruct (vals_at_inj (fun q => q) (fun q => znth dv A q) sel p NDs (fun q _ E => E)) as [V1 V2].
  assert (R0 : read m0 p = sentinel) by (apply (make_empty_read P); assumption).
  unfold pt.
  destruct (isval (znth dv A p)) eqn:E.
  - assert (Hin : In p sel) by (apply filter_In; split; [apply In_zrange; lia|exact E]).
    rewrite (V1 Hin). reflexivity.
  - assert (Hnin : ~ In p sel) by (intros H; apply filter_In in H; destruct H as [_ H]; congruence).
    rewrite (V2 Hnin). cbn [fold_left]. exact R0.
Qed.

(* dense -> sparse -> dense: the array comes back when its invalid entries are UNSEEN and its valid
   entries differ from the map's sentinel *)
Theorem dense_sparse_dense (ncv nf : Z) (sentinel unseen : V) (covs : list Z) (A : list V) :
  0 <= ncv -> 0 < nf -> zlen A = ncv * nf -> valid sentinel = false -> covpix_ok ncv (Some covs) ->
  (forall p, 0 <= p < ncv * nf -> isval (znth dv A p) = true -> valid (znth dv A p) = true) ->
  (forall p, 0 <= p < ncv * nf -> isval (znth dv A p) = false -> znth dv A p = unseen) ->
  to_dense unseen (from_dense ncv nf sentinel covs A) = A.
Proof.
  intros Hn Hf HA Hs Hc Hv Hu.
  destruct (from_dense_read ncv nf sentinel covs A Hn Hf HA Hs Hc) as [_ [Np R]].
  unfold to_dense. rewrite Np.
  apply (znth_ext dv).
  - rewrite zlen_map, zlen_zrange. nia.
  - intros i Hi. rewrite zlen_map, zlen_zrange in Hi.
    assert (Hi' : 0 <= i < ncv * nf) by nia.
    rewrite (znth_map _ 0) by (rewrite zlen_zrange; lia). rewrite znth_zrange by lia.
    replace (0 + i) with i by lia. cbv zeta. rewrite (R i Hi').
    destruct (isval (znth dv A i)) eqn:E.
    + rewrite (Hv i Hi' E). reflexivity.
    + rewrite Hs. symmetry. apply Hu; assumption.
Qed.

End Dense.
