(* CatRefine.v — layout-level model of cat_healsparse_files (in-memory mode) and its refinement (C18).
   The routine builds ONE output map and, for every output coverage pixel in ascending order and every
   input in list order, assigns  sparse_map[valid_pixels] = in_map[valid_pixels]  for the input's valid
   pixels inside that coverage pixel (a 'replace' update that grows the coverage as it goes).
   Theorem: for well-formed inputs of one sky resolution (any coverage resolutions, any block orders),
   every pixel of the result holds the value of the LAST input valid there (the only one, when the valid
   sets are disjoint) and the sentinel where none is valid; the result is well formed. *)
From HS Require Import Prelude Cov Map Spec Ops Spec2 Params AtFold MapProofs UpdateProofs HistoryProofs
     LayoutProofs AccountProofs MultiRefine.

Section Cat.
Variable P : params.
Notation V := (p_V P).
Notation valid := (p_valid P).
Notation dv := (p_dv P).
Notation wf := (wf P).
Notation read := (read V dv).
Notation upd := (update V dv (p_vadd P) (p_vor P) (p_vand P) (p_vzero P) (p_is_sent P) (p_sent_nonzero P)).

Notation cat_pvs := (cat_pvs V valid dv).
Notation cat_step := (cat_step V valid dv (p_vadd P) (p_vor P) (p_vand P) (p_vzero P) (p_is_sent P) (p_sent_nonzero P)).
Notation cat_mem := (cat_mem V valid dv (p_vadd P) (p_vor P) (p_vand P) (p_vzero P) (p_is_sent P) (p_sent_nonzero P)).

(* the inputs valid at a pixel, in list order *)
Definition cvals (inputs : list (smap V)) (q : Z) : list V :=
  flat_map (fun m => if valid (read m q) then [read m q] else []) inputs.

Notation take := (fun (_ b : V) => b).

Variable N : Z.      (* number of sky pixels *)
Definition okin (m : smap V) : Prop := wf m /\ npix V m = N.

Lemma one_input (nf : Z) (sm m : smap V) (pix : Z) :
  wf sm -> npix V sm = N -> okin m ->
  let sm' := upd sm URepl (cat_pvs nf m pix) false in
  wf sm' /\ npix V sm' = N /\ blank sm' = blank sm /\
  forall q, 0 <= q < N ->
    read sm' q = if (q / nf =? pix) && valid (read m q) then read m q else read sm q.
Proof.
  intros Ws Ns [Wm Nm]. cbv zeta.
  destruct (valid_pixels_spec P m Wm) as [Evp [ND Hin]].
  match type of Evp with _ = Some ?l => set (vp := l) in * end.
  assert (Epvs : cat_pvs nf m pix = map (fun p => (p, read m p)) (filter (fun p => p / nf =? pix) vp))
    by (unfold Ops.cat_pvs; rewrite Evp; reflexivity).
  set (sel := filter (fun p => p / nf =? pix) vp) in *.
  assert (NDs : NoDup sel) by (apply NoDup_filter; exact ND).
  assert (Hok : pvs_ok P sm (cat_pvs nf m pix)).
  { rewrite Epvs. intros pv Hpv. apply in_map_iff in Hpv. destruct Hpv as [p [<- Hp]]. cbn [fst].
    apply filter_In in Hp. destruct Hp as [Hp _]. apply Hin in Hp. rewrite Ns, <- Nm. apply Hp. }
  split; [apply (update_wf P); assumption|].
  split; [rewrite (npix_update P); exact Ns|].
  split; [apply (blank_update P)|].
  intros q Hq. rewrite (update_read P sm URepl _ false q Ws Hok) by (rewrite Ns; exact Hq).
  rewrite Epvs.
  destruct (vals_at_inj (fun p => p) (fun p => read m p) sel q NDs (fun p _ E => E)) as [V1 V2].
  unfold pt.
  destruct ((q / nf =? pix) && valid (read m q)) eqn:E.
  - assert (Hs : In q sel).
    { apply filter_In. split; [|lia]. apply Hin. split; [rewrite Nm; exact Hq|].
      destruct (valid (read m q)); [reflexivity|rewrite andb_false_r in E; discriminate]. }
    rewrite (V1 Hs). reflexivity.
  - assert (Hs : ~ In q sel).
    { intros Hs. apply filter_In in Hs. destruct Hs as [Hv Hp]. apply Hin in Hv. destruct Hv as [_ Hv].
      rewrite Hv in E. lia. }
    rewrite (V2 Hs). reflexivity.
Qed.

Lemma cvals_cons m r q : cvals (m :: r) q = (if valid (read m q) then [read m q] else []) ++ cvals r q.
Proof. reflexivity. Qed.

Lemma one_pixel (nf : Z) (inputs : list (smap V)) : forall (sm : smap V) (pix : Z),
  wf sm -> npix V sm = N -> (forall m, In m inputs -> okin m) ->
  let sm' := cat_step nf inputs sm pix in
  wf sm' /\ npix V sm' = N /\ blank sm' = blank sm /\
  forall q, 0 <= q < N ->
    read sm' q = if q / nf =? pix then fold_left take (cvals inputs q) (read sm q) else read sm q.
Proof.
  induction inputs as [|m r IH]; intros sm pix Ws Ns Hok; cbv zeta; unfold Ops.cat_step; cbn [fold_left].
  - split; [exact Ws|]. split; [exact Ns|]. split; [reflexivity|].
    intros q Hq. destruct (q / nf =? pix); reflexivity.
  - destruct (one_input nf sm m pix Ws Ns (Hok m (or_introl eq_refl))) as [W1 [N1 [B1 R1]]].
    destruct (IH (upd sm URepl (cat_pvs nf m pix) false) pix W1 N1 (fun x Hx => Hok x (or_intror Hx)))
      as [W2 [N2 [B2 R2]]].
    unfold Ops.cat_step in *.
    split; [exact W2|]. split; [exact N2|]. split; [rewrite B2; exact B1|].
    intros q Hq. rewrite (R2 q Hq), (R1 q Hq), cvals_cons, fold_left_app.
    destruct (q / nf =? pix); cbn [andb]; [|reflexivity].
    destruct (valid (read m q)); reflexivity.
Qed.

Lemma all_pixels (nf : Z) (inputs : list (smap V)) (cov_pix : list Z) : forall (sm : smap V),
  wf sm -> npix V sm = N -> (forall m, In m inputs -> okin m) -> NoDup cov_pix ->
  let sm' := fold_left (cat_step nf inputs) cov_pix sm in
  wf sm' /\ npix V sm' = N /\ blank sm' = blank sm /\
  forall q, 0 <= q < N ->
    read sm' q = if existsb (Z.eqb (q / nf)) cov_pix then fold_left take (cvals inputs q) (read sm q)
                 else read sm q.
Proof.
  induction cov_pix as [|pix r IH]; intros sm Ws Ns Hok ND; cbv zeta; cbn [fold_left existsb].
  - split; [exact Ws|]. split; [exact Ns|]. split; reflexivity.
  - inversion ND as [|? ? Hnin ND']; subst.
    destruct (one_pixel nf inputs sm pix Ws Ns Hok) as [W1 [N1 [B1 R1]]].
    destruct (IH (cat_step nf inputs sm pix) W1 N1 Hok ND') as [W2 [N2 [B2 R2]]].
    split; [exact W2|]. split; [exact N2|]. split; [rewrite B2; exact B1|].
    intros q Hq. rewrite (R2 q Hq), (R1 q Hq).
    destruct (q / nf =? pix) eqn:E; cbn [orb].
    + assert (Er : existsb (Z.eqb (q / nf)) r = false).
      { destruct (existsb (Z.eqb (q / nf)) r) eqn:Er; [|reflexivity].
        apply existsb_exists in Er. destruct Er as [x [Hx Ex]]. assert (x = pix) by lia. subst x. contradiction. }
      rewrite Er. reflexivity.
    + reflexivity.
Qed.

(* fold of "take the new value" = the last listed value *)
Lemma fold_take_nonempty (vs : list V) (a b : V) : vs <> [] -> fold_left take vs a = fold_left take vs b.
Proof. destruct vs as [|v r]; [intros H; contradiction|]. intros _. reflexivity. Qed.

Theorem cat_mem_spec (ncv nf : Z) (sentinel : V) (inputs : list (smap V)) (cov_pix : list Z) :
  0 <= ncv -> 0 < nf -> N = ncv * nf -> valid sentinel = false ->
  (forall m, In m inputs -> okin m) -> NoDup cov_pix ->
  (* the coverage pixels visited include every one that holds a valid pixel of some input *)
  (forall q, 0 <= q < N -> cvals inputs q <> [] -> In (q / nf) cov_pix) ->
  let out := cat_mem ncv nf sentinel inputs cov_pix in
  wf out /\ npix V out = N /\ blank out = sentinel /\
  forall q, 0 <= q < N ->
    read out q = match cvals inputs q with [] => sentinel | _ => fold_left take (cvals inputs q) sentinel end.
Proof.
  intros Hn Hf EN Hs Hok ND Hcov. cbv zeta. unfold Ops.cat_mem.
  assert (W0 : wf (make_empty V ncv nf sentinel None)) by (apply (make_empty_wf P); try assumption; exact I).
  assert (N0 : npix V (make_empty V ncv nf sentinel None) = N) by (rewrite (npix_make_empty P) by exact Hn; lia).
  destruct (all_pixels nf inputs cov_pix _ W0 N0 Hok ND) as [W1 [N1 [B1 R1]]].
  split; [exact W1|]. split; [exact N1|]. split; [rewrite B1; reflexivity|].
  intros q Hq. rewrite (R1 q Hq).
  rewrite (make_empty_read P) by (try assumption; try exact I; lia).
  destruct (cvals inputs q) as [|v r] eqn:Ev.
  - destruct (existsb (Z.eqb (q / nf)) cov_pix); reflexivity.
  - assert (Hin : In (q / nf) cov_pix) by (apply Hcov; [exact Hq|rewrite Ev; discriminate]).
    assert (E : existsb (Z.eqb (q / nf)) cov_pix = true).
    { apply existsb_exists. exists (q / nf). split; [exact Hin|apply Z.eqb_refl]. }
    rewrite E. reflexivity.
Qed.

(* disjoint inputs: the value of the one input valid there *)
Corollary cat_mem_disjoint (ncv nf : Z) (sentinel : V) (inputs : list (smap V)) (cov_pix : list Z) q v :
  0 <= ncv -> 0 < nf -> N = ncv * nf -> valid sentinel = false ->
  (forall m, In m inputs -> okin m) -> NoDup cov_pix ->
  (forall q, 0 <= q < N -> cvals inputs q <> [] -> In (q / nf) cov_pix) ->
  0 <= q < N ->
  (cvals inputs q = [v] -> read (cat_mem ncv nf sentinel inputs cov_pix) q = v) /\
  (cvals inputs q = [] -> read (cat_mem ncv nf sentinel inputs cov_pix) q = sentinel).
Proof.
  intros Hn Hf EN Hs Hok ND Hcov Hq.
  destruct (cat_mem_spec ncv nf sentinel inputs cov_pix Hn Hf EN Hs Hok ND Hcov) as [_ [_ [_ R]]].
  split; intros E; rewrite (R q Hq), E; reflexivity.
Qed.

End Cat.
