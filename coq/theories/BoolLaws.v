(* BoolLaws.v — the dense specification of the boolean map operators (Spec2.d_bool_op) obeys the
   lattice laws wherever both coverages apply; pointwise facts used by C11. *)
From HS Require Import Prelude Cov Map Spec Ops Spec2.

Section BoolLaws.
Variable V : Type.
Variable dv : V.
Notation dmap := (dmap V).
Notation d_read := (d_read V dv).

Definition dwf (d : dmap) : Prop := 0 <= d_npix V d.

Lemma d_bool_op_read f (a b : dmap) p :
  0 <= p < d_npix V a ->
  d_read (d_bool_op V dv f a b) p =
  if d_cov V b p then f (d_read a p) (d_read b p) else d_read a p.
Proof.
  intros Hp. unfold Spec.d_read at 1, d_bool_op. cbn [dense].
  rewrite (znth_map _ 0) by (rewrite zlen_zrange; lia). rewrite znth_zrange by lia.
  rewrite Z.add_0_l. reflexivity.
Qed.

Lemma d_cov_map_read g (a : dmap) p :
  0 <= p < d_npix V a ->
  d_read (d_cov_map V dv g a) p = if d_cov V a p then g (d_read a p) else d_read a p.
Proof.
  intros Hp. unfold Spec.d_read at 1, d_cov_map. cbn [dense].
  rewrite (znth_map _ 0) by (rewrite zlen_zrange; lia). rewrite znth_zrange by lia.
  rewrite Z.add_0_l. reflexivity.
Qed.

(* a op b equals a outside b's coverage mask and the pixelwise operation inside it *)
Theorem bool_op_outside f (a b : dmap) p :
  0 <= p < d_npix V a -> d_cov V b p = false -> d_read (d_bool_op V dv f a b) p = d_read a p.
Proof. intros Hp Hc. rewrite d_bool_op_read by exact Hp. rewrite Hc. reflexivity. Qed.

Theorem bool_op_inside f (a b : dmap) p :
  0 <= p < d_npix V a -> d_cov V b p = true ->
  d_read (d_bool_op V dv f a b) p = f (d_read a p) (d_read b p).
Proof. intros Hp Hc. rewrite d_bool_op_read by exact Hp. rewrite Hc. reflexivity. Qed.

(* commutativity of the values where both coverages apply *)
Theorem bool_op_comm f (a b : dmap) p :
  (forall x y, f x y = f y x) ->
  0 <= p < d_npix V a -> 0 <= p < d_npix V b -> d_cov V a p = true -> d_cov V b p = true ->
  d_read (d_bool_op V dv f a b) p = d_read (d_bool_op V dv f b a) p.
Proof.
  intros Hf Ha Hb Ca Cb. rewrite !d_bool_op_read by assumption. rewrite Ca, Cb. apply Hf.
Qed.

(* coverage of the result: the union *)
Theorem bool_op_cov f (a b : dmap) c :
  0 <= c < d_ncov V a ->
  znth false (dcov (d_bool_op V dv f a b)) c = znth false (dcov a) c || znth false (dcov b) c.
Proof.
  intros Hc. unfold d_bool_op. cbn [dcov].
  rewrite (znth_map _ 0) by (rewrite zlen_zrange; lia). rewrite znth_zrange by lia.
  rewrite Z.add_0_l. reflexivity.
Qed.

End BoolLaws.

(* De Morgan and absorption for the cell-level boolean functions the executable model uses, and
   their lift to the dense operators on pixels inside both coverages *)
Section DeMorgan.
Variable V : Type.
Variable dv : V.
Variables (vand vor : V -> V -> V) (vnot : V -> V).
Hypothesis demorgan : forall x y, vnot (vand x y) = vor (vnot x) (vnot y).

Theorem bool_de_morgan (a b : dmap V) p :
  0 <= p < d_npix V a -> d_cov V b p = true -> d_cov V a p = true ->
  d_npix V b = d_npix V a -> d_nfine b = d_nfine a -> zlen (dcov b) = zlen (dcov a) ->
  d_read V dv (d_cov_map V dv vnot (d_bool_op V dv vand a b)) p =
  d_read V dv (d_bool_op V dv vor (d_cov_map V dv vnot a) (d_cov_map V dv vnot b)) p.
Proof.
  intros Hp Cb Ca En Enf El.
  assert (Hnp : d_npix V (d_bool_op V dv vand a b) = d_npix V a).
  { unfold Spec.d_npix, d_bool_op. cbn [dense]. rewrite zlen_map, zlen_zrange. unfold Spec.d_npix in *. pose proof (zlen_nonneg (dense a)). pose proof (zlen_nonneg (dense b)). lia. }
  assert (Hna : d_npix V (d_cov_map V dv vnot a) = d_npix V a).
  { unfold Spec.d_npix, d_cov_map. cbn [dense]. rewrite zlen_map, zlen_zrange. unfold Spec.d_npix in *. pose proof (zlen_nonneg (dense a)). pose proof (zlen_nonneg (dense b)). lia. }
  assert (Hnb : d_npix V (d_cov_map V dv vnot b) = d_npix V b).
  { unfold Spec.d_npix, d_cov_map. cbn [dense]. rewrite zlen_map, zlen_zrange. unfold Spec.d_npix in *. pose proof (zlen_nonneg (dense a)). pose proof (zlen_nonneg (dense b)). lia. }
  rewrite (d_cov_map_read V dv) by (rewrite Hnp; exact Hp).
  assert (Ccomb : d_cov V (d_bool_op V dv vand a b) p = true).
  { unfold d_cov. cbn [d_bool_op d_nfine dcov].
    assert (Hc : 0 <= p / d_nfine a < d_ncov V a \/ ~ (0 <= p / d_nfine a < d_ncov V a)) by lia.
    destruct Hc as [Hc|Hc].
    - rewrite (znth_map _ 0) by (rewrite zlen_zrange; lia). rewrite znth_zrange by lia. rewrite Z.add_0_l.
      unfold d_cov in Ca. rewrite Ca. reflexivity.
    - unfold d_cov in Ca. rewrite znth_out in Ca; [discriminate|]. unfold Spec.d_ncov in Hc. lia. }
  rewrite Ccomb. rewrite (d_bool_op_read V dv) by exact Hp. rewrite Cb.
  rewrite (d_bool_op_read V dv) by (rewrite Hna; exact Hp).
  assert (Cb' : d_cov V (d_cov_map V dv vnot b) p = true) by exact Cb.
  rewrite Cb'.
  rewrite !(d_cov_map_read V dv) by lia.
  rewrite Ca, Cb. apply demorgan.
Qed.

End DeMorgan.

Section Absorb.
Variable V : Type.
Variable dv : V.
Variables (vand vor : V -> V -> V).
Hypothesis absorb : forall x y, vor x (vand x y) = x.

Theorem bool_absorption (a b : dmap V) p :
  0 <= p < d_npix V a -> d_cov V b p = true -> d_cov V a p = true ->
  d_read V dv (d_bool_op V dv vor a (d_bool_op V dv vand a b)) p = d_read V dv a p.
Proof.
  intros Hp Cb Ca.
  rewrite (d_bool_op_read V dv) by exact Hp.
  assert (Cc : d_cov V (d_bool_op V dv vand a b) p = true).
  { unfold d_cov. cbn [d_bool_op d_nfine dcov].
    assert (Hc : 0 <= p / d_nfine a < d_ncov V a \/ ~ (0 <= p / d_nfine a < d_ncov V a)) by lia.
    destruct Hc as [Hc|Hc].
    - rewrite (znth_map _ 0) by (rewrite zlen_zrange; lia). rewrite znth_zrange by lia. rewrite Z.add_0_l.
      unfold d_cov in Ca. rewrite Ca. reflexivity.
    - unfold d_cov in Ca. rewrite znth_out in Ca; [discriminate|]. unfold Spec.d_ncov in Hc. lia. }
  rewrite Cc. rewrite (d_bool_op_read V dv) by exact Hp. rewrite Cb. apply absorb.
Qed.

End Absorb.
