(* Exec.v — executable instantiation of the generic model and the operation interpreter
   that the correspondence check runs (extracted to OCaml, and evaluated by vm_compute).
   Cells are [list Q]: one number for plain/boolean/wide-mask maps (a wide-mask row is the
   little-endian integer of its bytes), one number per field for record arrays.
   Wire format: an operation is a list of integer lists; the first list is [opcode]. *)
From Coq Require Import QArith.
From HS Require Import Prelude Cov Map Spec.
Open Scope Z_scope.

Definition cellv := list Q.

Definition qeqb (a b : Q) : bool := (Qnum a =? Qnum b) && (Pos.eqb (Qden a) (Qden b)).
Fixpoint veqb (a b : cellv) : bool :=
  match a, b with
  | [], [] => true
  | x :: s, y :: t => qeqb x y && veqb s t
  | _, _ => false
  end.

Definition q0 : Q := 0%Q.
Definition qadd (a b : Q) : Q := Qred (Qplus a b).
Definition qbit (f : Z -> Z -> Z) (a b : Q) : Q := Qmake (f (Qnum a) (Qnum b)) 1.

Fixpoint map2 {A} (f : A -> A -> A) (a b : list A) : list A :=
  match a, b with
  | x :: s, y :: t => f x y :: map2 f s t
  | _, _ => []
  end.

Definition v_add : cellv -> cellv -> cellv := map2 qadd.
Definition v_or : cellv -> cellv -> cellv := map2 (qbit Z.lor).
Definition v_and : cellv -> cellv -> cellv := map2 (qbit Z.land).

(* per-map constants *)
Record kinfo := mkk {
  k_prim : Z;            (* index of the primary field (0 for plain maps) *)
  k_sent : Q;            (* sentinel (of the primary field) *)
  k_nf : Z               (* number of fields *)
}.

Definition k_valid (k : kinfo) (v : cellv) : bool := negb (qeqb (znth q0 v (k_prim k)) (k_sent k)).
Definition k_is_sent (k : kinfo) (v : cellv) : bool := veqb v [k_sent k].
Definition k_sent_nonzero (k : kinfo) : bool := negb (qeqb (k_sent k) q0).
Definition k_zero (k : kinfo) : cellv := repeat q0 (Z.to_nat (k_nf k)).

Definition dcell : cellv := [].

Record hstate := mkh { h_k : kinfo; h_m : smap cellv; h_d : dmap cellv }.

Definition world := list (Z * hstate).

Fixpoint wget (w : world) (h : Z) : option hstate :=
  match w with
  | [] => None
  | (k, s) :: t => if k =? h then Some s else wget t h
  end.

Fixpoint wset (w : world) (h : Z) (s : hstate) : world :=
  match w with
  | [] => [(h, s)]
  | (k, s0) :: t => if k =? h then (h, s) :: t else (k, s0) :: wset t h s
  end.

(* ---- wire decoding helpers ---- *)
Definition grp (args : list (list Z)) (i : Z) : list Z := znth [] args i.
Definition gz (args : list (list Z)) (i j : Z) : Z := znth 0 (grp args i) j.

Definition mkq (n d : Z) : Q := Qmake n (Z.to_pos d).

Fixpoint qs_of (l : list Z) : list Q :=
  match l with
  | n :: d :: t => mkq n d :: qs_of t
  | _ => []
  end.

(* split a flat list into chunks of n (n >= 1) *)
Fixpoint chunks_fuel {A} (fuel : nat) (n : Z) (l : list A) : list (list A) :=
  match fuel with
  | O => []
  | S k => match l with
           | [] => []
           | _ => zfirstn n l :: chunks_fuel k n (zskipn n l)
           end
  end.
Definition chunks {A} (n : Z) (l : list A) : list (list A) := chunks_fuel (length l) n l.

Definition zs_of_q (q : Q) : list Z := [Qnum q; Zpos (Qden q)].
Definition zs_of_cell (v : cellv) : list Z := flat_map zs_of_q v.
Definition zs_of_cells (l : list cellv) : list Z := flat_map zs_of_cell l.
Definition zs_of_bools (l : list bool) : list Z := map (fun b : bool => if b then 1 else 0) l.

Definition uop_of (z : Z) : uop :=
  if z =? 1 then UAdd else if z =? 2 then UOr else if z =? 3 then UAnd else URepl.

(* ---- instantiated model functions ---- *)
Definition x_update (k : kinfo) :=
  update cellv dcell v_add v_or v_and (k_zero k) (k_is_sent k) (k_sent_nonzero k).
Definition x_dupdate (k : kinfo) :=
  d_update cellv dcell v_add v_or v_and (k_zero k) (k_is_sent k) (k_sent_nonzero k).

Definition x_values (m : smap cellv) : list cellv := map (read cellv dcell m) (zrange 0 (npix cellv m)).

Definition ok1 : list Z := [1].
Definition err (code : Z) : list (list Z) := [[0; code]].

Definition result := list (list Z).

(* ---- the interpreter ---- *)
Definition step (w : world) (op : list (list Z)) : world * result :=
  let code := gz op 0 0 in
  let h := gz op 1 0 in
  if code =? 1 then
    (* mk: [1];[h];[ncov nfine];[prim sent_n sent_d nfields];blank qs;[has_cov];covpix *)
    let ncov0 := gz op 2 0 in let nf0 := gz op 2 1 in
    let k := mkk (gz op 3 0) (mkq (gz op 3 1) (gz op 3 2)) (gz op 3 3) in
    let bl := qs_of (grp op 4) in
    let cp := if gz op 5 0 =? 1 then Some (grp op 6) else None in
    (wset w h (mkh k (make_empty cellv ncov0 nf0 bl cp) (d_make_empty cellv ncov0 nf0 bl cp)), [ok1])
  else
  match wget w h with
  | None => (w, err 1)
  | Some s =>
    let k := h_k s in let m := h_m s in let d := h_d s in
    if code =? 2 then
      (* upd: [2];[h];[op no_append];pixels;values (nfields qs per pixel) *)
      let o := uop_of (gz op 2 0) in
      let na := gz op 2 1 =? 1 in
      let vals := map qs_of (chunks (2 * k_nf k) (grp op 4)) in
      let pvs := combine (grp op 3) vals in
      (wset w h (mkh k (x_update k m o pvs na) (x_dupdate k d o pvs na)), [ok1])
    else if code =? 3 then
      (* values: all pixels, L1 reads then L0 dense *)
      (w, [ok1; zs_of_cells (x_values m); zs_of_cells (dense d)])
    else if code =? 4 then
      (w, [ok1; zs_of_bools (coverage_mask (nfine m) (idx m)); zs_of_bools (dcov d)])
    else if code =? 5 then
      match valid_pixels cellv (k_valid k) dcell m with
      | Some l => (w, [ok1; l; d_valid_pixels cellv (k_valid k) dcell d])
      | None => (w, [[0; 2]; []; d_valid_pixels cellv (k_valid k) dcell d])
      end
    else if code =? 6 then
      let (m', n) := n_valid cellv (k_valid k) m in
      (wset w h (mkh k m' d), [ok1; [n; d_n_valid cellv (k_valid k) d]])
    else if code =? 7 then
      (w, [ok1; idx m; zs_of_cells (sp m)])
    else if code =? 8 then
      (w, [ok1; [if wfb cellv (k_valid k) dcell veqb m then 1 else 0]])
    else if code =? 10 then
      (* coverage counts: L1 (block order through block_to_cov), L0 *)
      (w, [ok1; coverage_counts cellv (k_valid k) m; d_cov_counts cellv (k_valid k) dcell d])
    else if code =? 11 then
      (* fracdet numerators at r fine pixels per coarse: [11];[h];[r] ->
         L1: rebuilt index, group counts over storage; L0: counts per coarse pixel *)
      let r := gz op 2 0 in
      (w, [ok1; fracdet_idx cellv m r; group_counts cellv (k_valid k) m r;
           d_group_counts cellv (k_valid k) dcell d r])
    else if code =? 12 then
      (* per coverage pixel valid listing: [12];[h];[c] *)
      let c := gz op 2 0 in
      match valid_pixels_covpix cellv (k_valid k) dcell m c with
      | Some l => (w, [ok1; l; d_valid_pixels_covpix cellv (k_valid k) dcell d c])
      | None => (w, [[0; 2]; []; d_valid_pixels_covpix cellv (k_valid k) dcell d c])
      end
    else if code =? 13 then
      (* single coverage pixel map: [13];[h];[h'];[c] *)
      let h' := gz op 2 0 in let c := gz op 3 0 in
      let m' := if covered cellv m c then single_covpix cellv m c
                else make_empty cellv (ncov cellv m) (nfine m) (blank m) None in
      (wset w h' (mkh k m' (d_single_covpix cellv dcell d c)), [ok1])
    else (w, err 3)
  end.

(* stand-alone evaluation of the layout predicate on raw arrays taken from the implementation:
   [9];[nfine];idx;valid flags;block_to_cov *)
Definition layout_monitor (op : list (list Z)) : result :=
  let m := mkmap (gz op 1 0) (grp op 2) (map (fun z => z =? 1) (grp op 3)) false None in
  [ok1; [if layoutb_with bool (fun b => b) false (grp op 4) m then 1 else 0]].

Definition step_top (w : world) (op : list (list Z)) : world * result :=
  if gz op 0 0 =? 9 then (w, layout_monitor op) else step w op.

Fixpoint run (w : world) (ops : list (list (list Z))) : list result :=
  match ops with
  | [] => []
  | op :: r => let (w', out) := step_top w op in out :: run w' r
  end.
