(* Extraction of the executable model.  ExtrOcamlBasic only: Z, N, positive, Q and nat stay
   the Coq datatypes.  No Extract Constant of ours. *)
Require Extraction.
Require Import ExtrOcamlBasic.
From HS Require Import Prelude Exec Exec2.
Extraction Language OCaml.
Extraction "model.ml" step_top2 Z.mul Z.add Z.opp Z.div_eucl Z.eqb.
