(* Sharing.v — which of its references a map-producing operation's result shares with its (first)
   argument: the table the per-run check compares with the implementation (C09).  Theorems about it
   are in Heap.v. *)
From HS Require Import Prelude.

(* a producer allocates the result's references; [shares] says which of them are the argument's own
   reference instead of a fresh array *)
Record shares := mkshares { s_cov : bool; s_sp : bool; s_meta : bool }.


(* the result may share the (immutable) coverage object, never a mutable array *)
Definition no_mutable_sharing (s : shares) : bool := negb (s_sp s) && negb (s_meta s).


(* ---- the sharing table of the API: what each producer's result shares with its (first) argument, as
   (coverage object, storage array, metadata).  Compared on every run with the sharing the implementation's
   result actually has (identity of the coverage object, np.shares_memory of the storage, identity of the
   metadata).  Codes:
   0 copy, 1 scalar operator (copying form), 2 astype, 3 as_bit_packed_map, 4 degrade, 5 upgrade,
   6 apply_mask(in_place=False), 7 get_single(copy=True), 8 get_single(copy=False) [a view: documented],
   9 get_single_covpix_map, 10 multi-map operation, 11 boolean map operator (copying form), 12 invert (~),
   13 fracdet_map, 14 read after write, 15 make_empty_like, 16 boolean operator with a constant (copying) *)
Definition prod_shares (code : Z) : shares :=
  if code =? 8 then mkshares true true false                 (* the field view: coverage object and record storage *)
  else if (code =? 1) || (code =? 2) || (code =? 3) || (code =? 7) || (code =? 16)
       then mkshares true false false                        (* the immutable coverage object is handed on *)
  else mkshares false false false.

