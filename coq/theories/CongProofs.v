(* CongProofs.v — content-equal maps are interchangeable (C10): every operation with a proved
   L1 -> L0 refinement sends well-formed states with the same dense abstraction (whatever their
   block order, pre-allocated or cleared coverage pixels, or origin) to states with the same dense
   abstraction, and every accounting query answers the same. *)
From HS Require Import Prelude Cov Map Spec Ops Spec2 Params AtFold MapProofs UpdateProofs HistoryProofs
     LayoutProofs AccountProofs OpsProofs.

Section Cong.
Variable P : params.
Notation V := (p_V P).
Notation valid := (p_valid P).
Notation dv := (p_dv P).
Notation wf := (wf P).
Notation abs := (abs V dv).
Notation upd := (update V dv (p_vadd P) (p_vor P) (p_vand P) (p_vzero P) (p_is_sent P) (p_sent_nonzero P)).

Theorem update_congruence (m1 m2 : smap V) o pvs na :
  wf m1 -> wf m2 -> abs m1 = abs m2 -> pvs_ok P m1 pvs -> pvs_ok P m2 pvs ->
  abs (upd m1 o pvs na) = abs (upd m2 o pvs na).
Proof.
  intros W1 W2 E H1 H2. rewrite (update_refines P m1) by assumption.
  rewrite (update_refines P m2) by assumption. rewrite E. reflexivity.
Qed.

(* lifted to every continuation history of updates *)
Theorem history_congruence (hs : list (hop P)) (m1 m2 : smap V) :
  wf m1 -> wf m2 -> abs m1 = abs m2 -> hops_ok P (npix V m1) hs -> hops_ok P (npix V m2) hs ->
  abs (fold_left (hstep P) hs m1) = abs (fold_left (hstep P) hs m2).
Proof.
  intros W1 W2 E H1 H2.
  destruct (history_wf_refines P hs m1 W1 H1) as [_ [_ A1]].
  destruct (history_wf_refines P hs m2 W2 H2) as [_ [_ A2]].
  rewrite A1, A2, E. reflexivity.
Qed.

Theorem scalar_op_congruence g (m1 m2 : smap V) :
  wf m1 -> wf m2 -> abs m1 = abs m2 -> abs (map_valid V valid g m1) = abs (map_valid V valid g m2).
Proof. intros W1 W2 E. rewrite !(map_valid_refines P) by assumption. rewrite E. reflexivity. Qed.

Theorem invert_congruence g (m1 m2 : smap V) :
  wf m1 -> wf m2 -> abs m1 = abs m2 -> abs (tail_map V g m1) = abs (tail_map V g m2).
Proof. intros W1 W2 E. rewrite !(tail_map_refines P) by assumption. rewrite E. reflexivity. Qed.

Theorem apply_mask_congruence bad (m1 m2 : smap V) :
  wf m1 -> wf m2 -> abs m1 = abs m2 ->
  exists a b, apply_mask V valid dv bad m1 = Some a /\ apply_mask V valid dv bad m2 = Some b /\ abs a = abs b.
Proof.
  intros W1 W2 E.
  destruct (apply_mask_refines P bad m1 W1) as [a [Ea [_ Aa]]].
  destruct (apply_mask_refines P bad m2 W2) as [b [Eb [_ Ab]]].
  exists a, b. split; [exact Ea|]. split; [exact Eb|]. rewrite Aa, Ab, E. reflexivity.
Qed.

(* the count (n_valid, area, __str__) is the same *)
Theorem count_congruence (m1 m2 : smap V) :
  wf m1 -> wf m2 -> abs m1 = abs m2 -> count_valid V valid m1 = count_valid V valid m2.
Proof. intros W1 W2 E. rewrite !(count_valid_spec P) by assumption. rewrite E. reflexivity. Qed.

End Cong.

Theorem astype_congruence (P P' : params) conv nb (m1 m2 : smap (p_V P)) :
  wf P m1 -> wf P m2 -> abs (p_V P) (p_dv P) m1 = abs (p_V P) (p_dv P) m2 ->
  abs (p_V P') (p_dv P') (astype (p_V P) (p_V P') (p_valid P) conv nb m1) =
  abs (p_V P') (p_dv P') (astype (p_V P) (p_V P') (p_valid P) conv nb m2).
Proof. intros W1 W2 E. rewrite !(astype_refines P P') by assumption. rewrite E. reflexivity. Qed.
