(* RebuildProofs.v — the order-preserving rebuild of the coverage index used by degrade, upgrade
   and fracdet_map (make_from_pixels(nside_coverage, nside_new, block_to_cov_index)) keeps every
   coverage pixel on its block; degrade and upgrade refine their dense specifications (C07, C15). *)
From Coq Require Import Sorting.Sorted.
From HS Require Import Prelude Cov Map Spec Ops Spec2 Params AtFold MapProofs UpdateProofs HistoryProofs
     LayoutProofs AccountProofs OpsProofs.

(* ---- list facts ---- *)
Lemma zslice_map_znth {A} (d : A) (l : list A) a b :
  0 <= a -> a <= b -> b <= zlen l -> zslice l a b = map (znth d l) (zrange a b).
Proof.
  intros Ha Hab Hb. apply (znth_ext d).
  - unfold zslice. rewrite zlen_zfirstn, zlen_zskipn, zlen_map, zlen_zrange. lia.
  - intros i Hi. unfold zslice in *. rewrite zlen_zfirstn, zlen_zskipn in Hi.
    rewrite znth_zfirstn. destruct (i <? b - a) eqn:E; [|lia].
    rewrite znth_zskipn by lia. rewrite (znth_map _ 0) by (rewrite zlen_zrange; lia).
    rewrite znth_zrange by lia. f_equal. lia.
Qed.

Lemma combine_map {A B C} (f : A -> B) (g : A -> C) l :
  combine (map f l) (map g l) = map (fun x => (f x, g x)) l.
Proof. induction l as [|x t IH]; cbn [map combine]; [reflexivity|]. rewrite IH. reflexivity. Qed.

Lemma StronglySorted_lt_NoDup (key : Z -> Z) l : StronglySorted (klt key) l -> NoDup l.
Proof.
  induction 1 as [|x t Hs IH Hall]; constructor; [|exact IH].
  intro Hin. rewrite Forall_forall in Hall. specialize (Hall x Hin). unfold klt in Hall. lia.
Qed.

Lemma znth_flat_repeat {A} (d : A) (r : Z) (l : list A) i :
  0 < r -> 0 <= i < r * zlen l -> znth d (flat_map (fun v => zrepeat v r) l) i = znth d l (i / r).
Proof.
  intros Hr. revert i; induction l as [|x t IH]; intros i Hi.
  - rewrite zlen_nil in Hi. lia.
  - rewrite zlen_cons in Hi. cbn [flat_map]. rewrite znth_app, zlen_zrepeat.
    replace (Z.max 0 r) with r by lia.
    destruct (i <? r) eqn:E.
    + rewrite znth_zrepeat. destruct ((0 <=? i) && (i <? r)) eqn:E2; [|lia].
      rewrite Z.div_small by lia. reflexivity.
    + rewrite IH by lia. rewrite znth_cons.
      assert (1 <= i / r) by (apply Z.div_le_lower_bound; lia).
      destruct (i / r =? 0) eqn:E0; [lia|]. f_equal.
      replace i with ((i - r) + 1 * r) at 2 by lia. rewrite Z.div_add by lia. lia.
Qed.

Lemma zlen_flat_repeat {A} (r : Z) (l : list A) :
  0 <= r -> zlen (flat_map (fun v => zrepeat v r) l) = r * zlen l.
Proof.
  intros Hr. induction l as [|x t IH]; [rewrite zlen_nil; cbn; lia|].
  cbn [flat_map]. rewrite zlen_app, zlen_zrepeat, IH, zlen_cons. lia.
Qed.

Section Rebuild.
Variables P P' : params.
Notation V := (p_V P).
Notation W := (p_V P').

(* the reference map with the rebuilt index: make_empty(..., cov_pixels = block_to_cov) *)
Definition ref_map (m : smap V) (nf' : Z) (bl' : W) : smap W :=
  make_empty W (ncov V m) nf' bl' (Some (b2c P m)).

Lemma b2c_NoDup (m : smap V) : wf P m -> NoDup (b2c P m).
Proof. intros Wm. apply (StronglySorted_lt_NoDup (bkey P m)). apply b2c_sorted. exact Wm. Qed.

Lemma b2c_covpix_ok (m : smap V) : wf P m -> covpix_ok (ncov V m) (Some (b2c P m)).
Proof.
  intros Wm. split; [apply b2c_NoDup; exact Wm|].
  intros c Hc. apply In_b2c in Hc. apply Hc.
Qed.

Lemma ncov_nonneg (m : smap V) : 0 <= ncov V m.
Proof. apply zlen_nonneg. Qed.

Lemma ref_map_wf (m : smap V) nf' bl' :
  wf P m -> 0 < nf' -> p_valid P' bl' = false -> wf P' (ref_map m nf' bl').
Proof.
  intros Wm Hn Hb. apply (make_empty_wf P'); try assumption.
  - apply ncov_nonneg.
  - apply b2c_covpix_ok. exact Wm.
Qed.

Lemma ref_map_idx (m : smap V) nf' bl' : idx (ref_map m nf' bl') = rebuild_idx V m nf'.
Proof. reflexivity. Qed.

Lemma ref_map_ncov (m : smap V) nf' bl' : 0 < nf' -> ncov W (ref_map m nf' bl') = ncov V m.
Proof.
  intros Hn. pose proof (npix_make_empty P' (ncov V m) nf' bl' (Some (b2c P m)) (ncov_nonneg m)) as E.
  unfold Map.npix in E. unfold ref_map. cbn [nfine Map.make_empty] in *. nia.
Qed.

(* every coverage pixel keeps its block number *)
Lemma rebuild_off (m : smap V) nf' bl' c :
  wf P m -> 0 < nf' -> 0 <= c < ncov V m ->
  off W (ref_map m nf' bl') c = (off V m c / nfine m) * nf'.
Proof.
  intros Wm Hn Hc. pose proof (wf_nf P m Wm) as Hnf.
  unfold ref_map. rewrite (make_empty_some P') by (try apply ncov_nonneg; exact Hn).
  assert (Hnew : new_ok P' (make_empty W (ncov V m) nf' bl' None) (b2c P m)).
  { split; [apply b2c_NoDup; exact Wm|]. intros x Hx. apply In_b2c in Hx. destruct Hx as [Hx _].
    assert (E : ncov W (make_empty W (ncov V m) nf' bl' None) = ncov V m).
    { unfold Map.ncov, Map.make_empty; cbn [idx]. apply zlen_cov_make_empty. apply ncov_nonneg. }
    rewrite E. split; [exact Hx|]. apply covered_false_iff. rewrite (off_empty P') by exact Hx. exact Hn. }
  destruct (covered V m c) eqn:Hcov.
  - destruct (block_of_covered P m c Wm Hc Hcov) as [Hb Eo].
    pose proof (b2c_inverts P m c Wm Hc Hcov) as Einv.
    rewrite <- Einv at 1.
    rewrite (reserve_off_new P') by (try exact Hnew; rewrite zlen_b2c; lia).
    unfold Map.make_empty; cbn [sp nfine]. rewrite zlen_zrepeat.
    generalize (off V m c / nfine m). intros b. clear - Hn. nia.
  - assert (Hnin : ~ In c (b2c P m)).
    { intro Hin. apply In_b2c in Hin. destruct Hin as [_ Hin]. congruence. }
    rewrite (reserve_off_old P') by exact Hnin. rewrite (off_empty P') by exact Hc.
    apply covered_false_iff in Hcov.
    destruct (wf_off P m Wm c Hc) as [H0|[H1 _]]; [|lia]. rewrite H0. rewrite Z.div_0_l by lia. lia.
Qed.

(* a map built on the rebuilt index with storage of the right length and a blank overflow block *)
Definition built (m : smap V) (nf' : Z) (s' : list W) (bl' : W) : smap W :=
  mkmap nf' (rebuild_idx V m nf') s' bl' None.

Lemma built_wf (m : smap V) nf' s' bl' :
  wf P m -> 0 < nf' -> p_valid P' bl' = false ->
  zlen s' = (ncovered V m + 1) * nf' ->
  (forall i, 0 <= i < nf' -> znth (p_dv P') s' i = bl') ->
  wf P' (built m nf' s' bl').
Proof.
  intros Wm Hn Hb Hl Ho.
  apply (wf_transfer P' P' (ref_map m nf' bl')); try reflexivity.
  - apply ref_map_wf; assumption.
  - cbn [sp built]. unfold ref_map, Map.make_empty; cbn [sp]. rewrite zlen_zrepeat, zlen_b2c, Hl.
    pose proof (ncovered_nonneg P m). nia.
  - exact Ho.
  - exact Hb.
Qed.

Lemma built_cell (m : smap V) nf' s' bl' p :
  wf P m -> 0 < nf' -> 0 <= p < ncov V m * nf' ->
  cell W (built m nf' s' bl') p = (off V m (p / nf') / nfine m) * nf' + p mod nf'.
Proof.
  intros Wm Hn Hp.
  assert (Hc : 0 <= p / nf' < ncov V m).
  { split; [apply Z.div_pos; lia|apply Z.div_lt_upper_bound; lia]. }
  pose proof (rebuild_off m nf' bl' (p / nf') Wm Hn Hc) as E.
  unfold Map.off, cov_off in E |- *. unfold Map.cell, built; cbn [nfine idx].
  rewrite ref_map_idx in E. cbn [nfine ref_map Map.make_empty] in E.
  set (X := (znth 0 (idx m) (p / nf') + p / nf' * nfine m) / nfine m) in *. clearbody X.
  pose proof (Z.div_mod p nf'). lia.
Qed.

Lemma built_ncov (m : smap V) nf' s' bl' : 0 < nf' -> ncov W (built m nf' s' bl') = ncov V m.
Proof. intros Hn. rewrite <- (ref_map_ncov m nf' bl' Hn). reflexivity. Qed.

Lemma built_covmask (m : smap V) nf' (bl' : W) :
  wf P m -> 0 < nf' ->
  coverage_mask nf' (rebuild_idx V m nf') = coverage_mask (nfine m) (idx m).
Proof.
  intros Wm Hn. pose proof (wf_nf P m Wm) as Hnf.
  unfold coverage_mask.
  assert (El : zlen (rebuild_idx V m nf') = zlen (idx m)).
  { pose proof (ref_map_ncov m nf' bl' Hn) as E. unfold Map.ncov in E. rewrite ref_map_idx in E. exact E. }
  rewrite El. apply map_ext_in. intros c Hc. apply In_zrange in Hc.
  pose proof (rebuild_off m nf' bl' c Wm Hn Hc) as E.
  unfold Map.off in E. rewrite ref_map_idx in E. cbn [nfine ref_map Map.make_empty] in E.
  unfold cov_covered. rewrite E.
  fold (off V m c).
  destruct (wf_off P m Wm c Hc) as [H0|[H1 [H2 H3]]].
  - rewrite H0. rewrite Z.div_0_l by lia. lia.
  - apply Z.mod_divide in H3; [|lia]. destruct H3 as [b Eb]. rewrite Eb, Z.div_mul by lia.
    assert (1 <= b) by nia. nia.
Qed.

End Rebuild.

(* ---------------- degrade ---------------- *)
Section Degrade.
Variables P P' : params.
Notation V := (p_V P).
Notation W := (p_V P').

Variable red : list (V * W) -> W.
Variable r : Z.
Variable nb : W.

Lemma zlen_group_reduce2 (s : list V) (w : list W) :
  0 < r -> zlen (group_reduce2 V W red r s w) = zlen s / r.
Proof.
  intros Hr. unfold group_reduce2. rewrite zlen_map, zlen_zrange.
  pose proof (Z.div_pos (zlen s) r (zlen_nonneg s) Hr). lia.
Qed.

Lemma znth_group_reduce2 (s : list V) (w : list W) g :
  0 < r -> 0 <= g < zlen s / r -> zlen w = zlen s ->
  znth (p_dv P') (group_reduce2 V W red r s w) g =
  red (map (fun x => (znth (p_dv P) s x, znth (p_dv P') w x)) (zrange (g * r) ((g + 1) * r))).
Proof.
  intros Hr Hg Hw. unfold group_reduce2.
  rewrite (znth_map _ 0) by (rewrite zlen_zrange; lia). rewrite znth_zrange by lia. rewrite Z.add_0_l.
  assert (Hb : (g + 1) * r <= zlen s).
  { pose proof (Z.mul_div_le (zlen s) r Hr). nia. }
  rewrite (zslice_map_znth (p_dv P)) by nia.
  rewrite (zslice_map_znth (p_dv P')) by nia.
  rewrite combine_map. reflexivity.
Qed.

(* the weight storage is aligned with the map: cell x of the weights holds the weight of pixel x *)
Definition aligned (m : smap V) (wsp wd : list W) : Prop :=
  zlen wsp = zlen (sp m) /\
  forall x, 0 <= x < npix V m -> znth (p_dv P') wsp (cell V m x) = znth (p_dv P') wd x.

Theorem degrade2_wf (m : smap V) (wsp : list W) :
  wf P m -> 0 < r -> nfine m mod r = 0 -> p_valid P' nb = false ->
  wf P' (degrade2 V W red r nb m wsp).
Proof.
  intros Wm Hr Hdiv Hb. pose proof (wf_nf P m Wm) as Hnf.
  apply Z.mod_divide in Hdiv; [|lia]. destruct Hdiv as [nf' Enf].
  assert (Hn' : 0 < nf') by nia.
  unfold degrade2. rewrite Enf, Z.div_mul by lia.
  apply (built_wf P P'); try assumption.
  - rewrite zlen_app, zlen_zrepeat, zlen_zskipn, zlen_group_reduce2 by exact Hr.
    rewrite (wf_len P m Wm), Enf.
    replace ((ncovered V m + 1) * (nf' * r)) with ((ncovered V m + 1) * nf' * r) by lia.
    rewrite Z.div_mul by lia. pose proof (ncovered_nonneg P m). nia.
  - intros i Hi. rewrite znth_app, zlen_zrepeat.
    destruct (i <? Z.max 0 nf') eqn:E; [|lia].
    rewrite znth_zrepeat. destruct ((0 <=? i) && (i <? nf')) eqn:E2; [reflexivity|lia].
Qed.

Theorem degrade2_read (m : smap V) (wsp wd : list W) q :
  wf P m -> 0 < r -> nfine m mod r = 0 -> aligned m wsp wd ->
  0 <= q < npix V m / r ->
  read W (p_dv P') (degrade2 V W red r nb m wsp) q =
  if covered V m (q / (nfine m / r))
  then red (map (fun x => (read V (p_dv P) m x, znth (p_dv P') wd x)) (zrange (q * r) ((q + 1) * r)))
  else nb.
Proof.
  intros Wm Hr Hdiv [Hwl Hal] Hq. pose proof (wf_nf P m Wm) as Hnf.
  apply Z.mod_divide in Hdiv; [|lia]. destruct Hdiv as [nf' Enf].
  assert (Hn' : 0 < nf') by nia.
  assert (Enp : npix V m / r = ncov V m * nf').
  { unfold Map.npix. rewrite Enf. replace (ncov V m * (nf' * r)) with (ncov V m * nf' * r) by lia.
    apply Z.div_mul. lia. }
  rewrite Enp in Hq.
  unfold degrade2. rewrite Enf, Z.div_mul by lia.
  set (s := group_reduce2 V W red r (sp m) wsp).
  unfold Map.read. fold (built P P' m nf' (zrepeat nb nf' ++ zskipn nf' s) nb).
  rewrite (built_cell P P') by assumption.
  set (c := q / nf').
  assert (Hc : 0 <= c < ncov V m).
  { split; [apply Z.div_pos; lia|apply Z.div_lt_upper_bound; lia]. }
  pose proof (Z.mod_pos_bound q nf' Hn') as Hm.
  cbn [sp built].
  rewrite znth_app, zlen_zrepeat. replace (Z.max 0 nf') with nf' by lia.
  destruct (covered V m c) eqn:Hcov.
  - destruct (block_of_covered P m c Wm Hc Hcov) as [Hb Eo].
    set (b := off V m c / nfine m) in *.
    destruct (b * nf' + q mod nf' <? nf') eqn:E; [nia|].
    rewrite znth_zskipn by lia. replace (b * nf' + q mod nf' - nf' + Z.max 0 nf') with (b * nf' + q mod nf') by lia.
    assert (Hg : 0 <= b * nf' + q mod nf' < zlen (sp m) / r).
    { rewrite (wf_len P m Wm), Enf.
      replace ((ncovered V m + 1) * (nf' * r)) with ((ncovered V m + 1) * nf' * r) by lia.
      rewrite Z.div_mul by lia. nia. }
    unfold s. rewrite znth_group_reduce2 by assumption.
    f_equal.
    (* the storage group is the image of the children of q *)
    assert (Eq : q * r = c * nfine m + (q mod nf') * r).
    { rewrite Enf. unfold c. pose proof (Z.div_mod q nf'). nia. }
    transitivity (map (fun t => (znth (p_dv P) (sp m) ((b * nf' + q mod nf') * r + t),
                                  znth (p_dv P') wsp ((b * nf' + q mod nf') * r + t))) (zrange 0 r)).
    { apply (znth_ext (p_dv P, p_dv P')).
      - rewrite !zlen_map, !zlen_zrange. lia.
      - intros i Hi. rewrite zlen_map, zlen_zrange in Hi.
        rewrite (znth_map _ 0) by (rewrite zlen_zrange; lia).
        rewrite (znth_map _ 0) by (rewrite zlen_zrange; lia).
        rewrite !znth_zrange by lia. f_equal; f_equal; lia. }
    transitivity (map (fun t => (read V (p_dv P) m (q * r + t), znth (p_dv P') wd (q * r + t))) (zrange 0 r)).
    { apply map_ext_in. intros t Ht. apply In_zrange in Ht.
      assert (Hx : 0 <= q * r + t < npix V m).
      { unfold Map.npix. rewrite Enf. nia. }
      assert (Ecell : cell V m (q * r + t) = (b * nf' + q mod nf') * r + t).
      { rewrite (cell_eq P) by exact Hnf.
        assert (Ed : (q * r + t) / nfine m = c).
        { rewrite Eq. replace (c * nfine m + q mod nf' * r + t) with ((q mod nf' * r + t) + c * nfine m) by lia.
          rewrite Z.div_add by lia. rewrite Z.div_small; [lia|]. rewrite Enf. nia. }
        assert (Em : (q * r + t) mod nfine m = q mod nf' * r + t).
        { rewrite Eq. replace (c * nfine m + q mod nf' * r + t) with ((q mod nf' * r + t) + c * nfine m) by lia.
          rewrite Z.mod_add by lia. apply Z.mod_small. rewrite Enf. nia. }
        rewrite Ed, Em. fold b in Eo. rewrite Eo, Enf. lia. }
      unfold Map.read. rewrite Ecell. f_equal. rewrite <- Ecell. apply Hal. exact Hx. }
    apply (znth_ext (p_dv P, p_dv P')).
    + rewrite !zlen_map, !zlen_zrange. lia.
    + intros i Hi. rewrite zlen_map, zlen_zrange in Hi.
      rewrite (znth_map _ 0) by (rewrite zlen_zrange; lia).
      rewrite (znth_map _ 0) by (rewrite zlen_zrange; lia).
      rewrite !znth_zrange by lia. f_equal; f_equal; lia.
  - apply covered_false_iff in Hcov.
    destruct (wf_off P m Wm c Hc) as [H0|[H1 _]]; [|lia].
    fold c. rewrite H0. rewrite Z.div_0_l by lia.
    destruct (0 * nf' + q mod nf' <? nf') eqn:E; [|lia].
    rewrite znth_zrepeat. destruct ((0 <=? 0 * nf' + q mod nf') && (0 * nf' + q mod nf' <? nf')) eqn:E2; [reflexivity|lia].
Qed.

End Degrade.

(* ---------------- upgrade ---------------- *)
Section Upgrade.
Variable P : params.
Notation V := (p_V P).

Theorem upgrade_wf (r : Z) (m : smap V) : wf P m -> 0 < r -> wf P (upgrade V r m).
Proof.
  intros Wm Hr. pose proof (wf_nf P m Wm) as Hnf.
  unfold upgrade. apply (built_wf P P); try assumption.
  - nia.
  - exact (wf_blank P m Wm).
  - rewrite zlen_flat_repeat by lia. rewrite (wf_len P m Wm). lia.
  - intros i Hi. rewrite znth_flat_repeat.
    + apply (wf_over P m Wm). split; [apply Z.div_pos; lia|apply Z.div_lt_upper_bound; lia].
    + exact Hr.
    + pose proof (wf_len_ge P m Wm). nia.
Qed.

(* every child reads the value of its parent *)
Theorem upgrade_read (r : Z) (m : smap V) p :
  wf P m -> 0 < r -> 0 <= p < npix V m * r ->
  read V (p_dv P) (upgrade V r m) p = read V (p_dv P) m (p / r).
Proof.
  intros Wm Hr Hp. pose proof (wf_nf P m Wm) as Hnf.
  set (nf' := nfine m * r).
  assert (Hn' : 0 < nf') by (unfold nf'; nia).
  unfold upgrade. fold nf'. unfold Map.read.
  fold (built P P m nf' (flat_map (fun v => zrepeat v r) (sp m)) (blank m)).
  assert (Hp' : 0 <= p < ncov V m * nf') by (unfold nf', Map.npix in *; nia).
  rewrite (built_cell P P) by assumption. cbn [sp built].
  set (c := p / nf').
  assert (Hc : 0 <= c < ncov V m).
  { split; [apply Z.div_pos; lia|apply Z.div_lt_upper_bound; lia]. }
  pose proof (Z.mod_pos_bound p nf' Hn') as Hm.
  (* the parent pixel *)
  assert (Hpr : 0 <= p / r < npix V m).
  { split; [apply Z.div_pos; lia|apply Z.div_lt_upper_bound; lia]. }
  assert (Epc : (p / r) / nfine m = c).
  { rewrite Z.div_div by lia. unfold c, nf'. f_equal. lia. }
  assert (Epm : (p / r) mod nfine m = (p mod nf') / r).
  { unfold nf'. rewrite (Z.mul_comm (nfine m) r). rewrite Z.rem_mul_r by lia.
    rewrite (Z.mul_comm r), Z.div_add by lia.
    rewrite (Z.div_small (p mod r) r) by (apply Z.mod_pos_bound; lia). lia. }
  rewrite (cell_eq P) by exact Hnf. rewrite Epc, Epm.
  destruct (wf_off P m Wm c Hc) as [H0|[H1 [H2 H3]]].
  - rewrite H0. rewrite Z.div_0_l by lia.
    rewrite znth_flat_repeat; [|exact Hr|].
    + f_equal; lia.
    + pose proof (wf_len_ge P m Wm). unfold nf' in *. nia.
  - apply Z.mod_divide in H3; [|lia]. destruct H3 as [b Eb]. rewrite Eb, Z.div_mul by lia.
    rewrite znth_flat_repeat; [|exact Hr|].
    + f_equal. unfold nf'. replace (b * (nfine m * r) + p mod (nfine m * r)) with (p mod (nfine m * r) + (b * nfine m) * r) by lia.
      rewrite Z.div_add by lia. lia.
    + unfold nf' in *. rewrite Eb in H2. nia.
Qed.

End Upgrade.

(* ---------------- degrade after upgrade ---------------- *)
Section DegradeUpgrade.
Variable P : params.
Notation V := (p_V P).

Lemma npix_upgrade (r : Z) (m : smap V) : wf P m -> 0 < r -> npix V (upgrade V r m) = npix V m * r.
Proof.
  intros Wm Hr. pose proof (wf_nf P m Wm) as Hnf.
  unfold Map.npix. pose proof (built_ncov P P m (nfine m * r) (flat_map (fun v => zrepeat v r) (sp m)) (blank m) ltac:(nia)) as E.
  change (ncov V (upgrade V r m)) with (ncov V (built P P m (nfine m * r) (flat_map (fun v => zrepeat v r) (sp m)) (blank m))).
  rewrite E. cbn [upgrade nfine]. lia.
Qed.

Theorem degrade_upgrade_read (red : list (V * V) -> V) (r : Z) (m : smap V) (wsp wd : list V) q :
  wf P m -> 0 < r -> aligned P P (upgrade V r m) wsp wd -> 0 <= q < npix V m ->
  (forall v (l : list Z), l <> [] -> red (map (fun x => (v, znth (p_dv P) wd x)) l) = v) ->
  read V (p_dv P) (degrade2 V V red r (blank m) (upgrade V r m) wsp) q = read V (p_dv P) m q.
Proof.
  intros Wm Hr Hal Hq Hred. pose proof (wf_nf P m Wm) as Hnf.
  pose proof (upgrade_wf P r m Wm Hr) as Wu.
  assert (Enf : nfine (upgrade V r m) = nfine m * r) by reflexivity.
  rewrite (degrade2_read P P red r (blank m) (upgrade V r m) wsp wd q Wu Hr); try assumption.
  - rewrite Enf, Z.div_mul by lia.
    assert (Ecov : covered V (upgrade V r m) (q / nfine m) = covered V m (q / nfine m)).
    { pose proof (built_covmask P P m (nfine m * r) (blank m) Wm ltac:(nia)) as E.
      assert (Hc : 0 <= q / nfine m < ncov V m) by (apply (covpix_range P); assumption).
      pose proof (f_equal (fun l => znth false l (q / nfine m)) E) as E2. cbv beta in E2.
      unfold coverage_mask in E2.
      assert (El : zlen (rebuild_idx V m (nfine m * r)) = zlen (idx m)).
      { pose proof (built_ncov P P m (nfine m * r) (sp m) (blank m) ltac:(nia)) as E3. exact E3. }
      rewrite El in E2.
      rewrite !(znth_map _ 0) in E2 by (rewrite zlen_zrange; unfold Map.ncov in Hc; lia).
      rewrite !znth_zrange in E2 by (unfold Map.ncov in Hc; lia). rewrite Z.add_0_l in E2. exact E2. }
    rewrite Ecov. destruct (covered V m (q / nfine m)) eqn:Hcov.
    + transitivity (red (map (fun x => (read V (p_dv P) m q, znth (p_dv P) wd x)) (zrange (q * r) ((q + 1) * r)))).
      * f_equal. apply map_ext_in. intros x Hx. apply In_zrange in Hx. f_equal.
        rewrite (upgrade_read P) by (try assumption; nia). f_equal.
        symmetry. apply Z.div_unique with (x - q * r); lia.
      * apply Hred. intro E. pose proof (zlen_zrange (q * r) ((q + 1) * r)) as L. rewrite E, zlen_nil in L. nia.
    + symmetry. apply (read_uncovered P); assumption.
  - rewrite Enf. apply Z.mod_mul. lia.
  - rewrite npix_upgrade by assumption. rewrite Z.div_mul by lia. exact Hq.
Qed.

End DegradeUpgrade.
