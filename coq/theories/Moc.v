(* Moc.v — model of the multi-order coverage (MOC) writer and reader of io_map_fits.py (C17):
   UNIQ encoding, the merge of full cells level by level, decoding and expansion. *)
From HS Require Import Prelude.

Definition uniq_of (order ipix : Z) : Z := 4 * 4 ^ order + ipix.
(* io_map_fits.py:184-185  order = floor(log2(uniq // 4)) // 2 ; index = uniq - 4 * 4**order *)
Definition uniq_order (u : Z) : Z := Z.log2 (u / 4) / 2.
Definition uniq_index (u : Z) : Z := u - 4 * 4 ^ (uniq_order u).

(* ancestor of pixel p (at order mx) at order l *)
Definition ancestor (mx l p : Z) : Z := p / 4 ^ (mx - l).

(* number of valid pixels below cell (l, q) *)
Definition cell_count (mx l : Z) (vs : list Z) (q : Z) : Z := zcount (fun p => ancestor mx l p =? q) vs.
Definition cell_full (mx l : Z) (vs : list Z) (q : Z) : bool := cell_count mx l vs q =? 4 ^ (mx - l).

(* io_map_fits.py:661-671: orders mx-1 down to mn; at each order every pixel whose ancestor is full
   takes that ancestor's UNIQ number; the loop stops at the first order with no full cell.
   [levels] = [mx-1; mx-2; ...; mn] *)
Fixpoint moc_loop (mx : Z) (vs : list Z) (levels : list Z) (uq : list Z) : list Z :=
  match levels with
  | [] => uq
  | l :: r =>
    let full := map (fun p => cell_full mx l vs (ancestor mx l p)) vs in
    if existsb (fun b => b) full then
      moc_loop mx vs r (map (fun pfu => let '(p, f, u) := pfu in
                                         if (f : bool) then uniq_of l (ancestor mx l p) else u)
                            (combine (combine vs full) uq))
    else uq
  end.

Fixpoint levels_down (n : nat) (hi : Z) : list Z :=
  match n with O => [] | S k => hi :: levels_down k (hi - 1) end.

Fixpoint zinsert (x : Z) (l : list Z) : list Z :=
  match l with [] => [x] | y :: t => if x <? y then x :: l else if x =? y then l else y :: zinsert x t end.
Definition zsort_uniq (l : list Z) : list Z := fold_right zinsert [] l.

Definition moc_cells (mx mn : Z) (vs : list Z) : list Z :=
  zsort_uniq (moc_loop mx vs (levels_down (Z.to_nat (mx - mn)) (mx - 1)) (map (uniq_of mx) vs)).

(* reader: io_map_fits.py:187-200: every cell expanded to order mx (the largest order present) *)
Definition expand_cell (mx : Z) (u : Z) : list Z :=
  let o := uniq_order u in let i := uniq_index u in
  zrange (i * 4 ^ (mx - o)) ((i + 1) * 4 ^ (mx - o)).
Definition moc_expand (mx : Z) (us : list Z) : list Z := zsort_uniq (flat_map (expand_cell mx) us).
Definition moc_max_order (us : list Z) : Z := fold_left Z.max (map uniq_order us) 0.
