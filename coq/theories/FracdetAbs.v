(* FracdetAbs.v — fracdet_map at the level of the dense abstraction (C02, C10, C15): the fractional-detection
   map of m at any permitted resolution is a function of abs m alone — per coarse pixel the number of valid
   children, on the same coverage mask — whatever the block order of m.  Corollary: equal maps have equal
   fractional-detection maps. *)
From HS Require Import Prelude Cov Map Spec Ops Spec2 Params AtFold MapProofs UpdateProofs HistoryProofs
     LayoutProofs AccountProofs OpsProofs RebuildProofs FracdetProofs AbsRefine.

Section FracdetAbs.
Variable P : params.
Notation V := (p_V P).
Notation valid := (p_valid P).
Notation dv := (p_dv P).
Notation wf := (wf P).

Definition d_fracdet (d : dmap V) (r : Z) : dmap Z :=
  mkd (d_nfine d / r) (d_group_counts V valid dv d r) (dcov d) 0.

Theorem fracdet_refines (m : smap V) (r : Z) :
  wf m -> 0 < r -> nfine m mod r = 0 ->
  abs Z 0 (fracdet_map P m r) = d_fracdet (abs V dv m) r.
Proof.
  intros W Hr Hdiv. pose proof (wf_nf P m W) as Hnf.
  pose proof Hdiv as Hdiv0.
  apply Z.mod_divide in Hdiv; [|lia]. destruct Hdiv as [nf' Enf].
  assert (Hn' : 0 < nf') by nia.
  assert (Ediv : nfine m / r = nf') by (rewrite Enf; apply Z.div_mul; lia).
  assert (Enp : npix V m / r = ncov V m * nf').
  { unfold Map.npix. rewrite Enf. replace (ncov V m * (nf' * r)) with (ncov V m * nf' * r) by lia.
    apply Z.div_mul. lia. }
  unfold d_fracdet, Spec.d_group_counts.
  unfold Spec.abs at 1.
  assert (Enpf : npix Z (fracdet_map P m r) = npix V m / r).
  { unfold Map.npix at 1, Map.ncov, fracdet_map. cbn [idx nfine].
    change (fracdet_idx V m r) with (rebuild_idx V m (nfine m / r)). rewrite Ediv.
    pose proof (ref_map_ncov P P m nf' (blank m) Hn') as E. unfold Map.ncov in E. rewrite ref_map_idx in E.
    rewrite E, Enp. reflexivity. }
  rewrite Enpf. unfold fracdet_map at 2 3 4. cbn [nfine idx blank].
  cbn [Spec.abs d_nfine dense dcov d_blank].
  rewrite (d_npix_abs P m W).
  f_equal.
  - apply map_ext_in. intros q Hq. apply In_zrange in Hq.
    apply (fracdet_read P m r q W Hr Hdiv0 Hq).
  - change (fracdet_idx V m r) with (rebuild_idx V m (nfine m / r)). rewrite Ediv.
    apply (built_covmask P P m nf' (blank m) W Hn').
Qed.

Theorem fracdet_congruence (m1 m2 : smap V) (r : Z) :
  wf m1 -> wf m2 -> 0 < r -> nfine m1 mod r = 0 -> abs V dv m1 = abs V dv m2 ->
  abs Z 0 (fracdet_map P m1 r) = abs Z 0 (fracdet_map P m2 r).
Proof.
  intros W1 W2 Hr Hd E.
  assert (Enf : nfine m1 = nfine m2) by (apply (f_equal (@d_nfine V)) in E; exact E).
  rewrite (fracdet_refines m1 r W1 Hr Hd), (fracdet_refines m2 r W2 Hr ltac:(rewrite <- Enf; exact Hd)), E.
  reflexivity.
Qed.

End FracdetAbs.
