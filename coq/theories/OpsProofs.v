(* OpsProofs.v — refinement L1 -> L0 and invariant preservation for the operations of Ops.v that
   keep the coverage index: scalar operators, type conversion, invert / boolean constants,
   apply_mask (C12, C11 first half). *)
From HS Require Import Prelude Cov Map Spec Ops Spec2 Params AtFold MapProofs UpdateProofs LayoutProofs AccountProofs.

(* layout facts depend on (nfine, idx, length of storage) only: transfer of the invariant to a
   map of another cell type built on the same coverage index *)
Section Transfer.
Variables P P' : params.

Lemma wf_transfer (m : smap (p_V P)) (m' : smap (p_V P')) :
  wf P m ->
  nfine m' = nfine m -> idx m' = idx m -> zlen (sp m') = zlen (sp m) ->
  (forall i, 0 <= i < nfine m -> znth (p_dv P') (sp m') i = blank m') ->
  p_valid P' (blank m') = false ->
  wf P' m'.
Proof.
  intros [W1 W2 W3 W4 W5 W6] En Ei El Ho Hb.
  constructor.
  - rewrite En. exact W1.
  - unfold Map.ncovered, Map.covered, Map.ncov in *. rewrite En, Ei, El. exact W2.
  - rewrite En. exact Ho.
  - exact Hb.
  - unfold Map.off, Map.ncov in *. rewrite En, Ei, El. exact W5.
  - unfold Map.off, Map.ncov, Map.covered in *. rewrite En, Ei. exact W6.
Qed.

Lemma cell_transfer (m : smap (p_V P)) (m' : smap (p_V P')) p :
  nfine m' = nfine m -> idx m' = idx m -> cell (p_V P') m' p = cell (p_V P) m p.
Proof. intros En Ei. unfold Map.cell. rewrite En, Ei. reflexivity. Qed.

(* pointwise image of the storage: reads commute *)
Lemma read_map_sp (h : p_V P -> p_V P') (m : smap (p_V P)) (m' : smap (p_V P')) p :
  wf P m -> 0 <= p < npix (p_V P) m ->
  nfine m' = nfine m -> idx m' = idx m -> sp m' = map h (sp m) ->
  read (p_V P') (p_dv P') m' p = h (read (p_V P) (p_dv P) m p).
Proof.
  intros W Hp En Ei Es. unfold Map.read. rewrite (cell_transfer m m' p En Ei), Es.
  apply znth_map. apply (cell_range P); assumption.
Qed.

(* astype (and get_single(copy=True), as_bit_packed_map): same index, valid cells converted, all
   others set to the new sentinel *)
Theorem astype_wf conv nb (m : smap (p_V P)) :
  wf P m -> p_valid P' nb = false ->
  wf P' (astype (p_V P) (p_V P') (p_valid P) conv nb m).
Proof.
  intros W Hb. apply (wf_transfer m); try reflexivity; try assumption.
  - unfold astype; cbn [sp]. apply zlen_map.
  - intros i Hi. unfold astype; cbn [sp blank nfine].
    rewrite (znth_map _ (p_dv P)).
    + rewrite (wf_over P m W i Hi), (wf_blank P m W). reflexivity.
    + pose proof (wf_len P m W). pose proof (ncovered_nonneg P m). nia.
Qed.

Theorem astype_refines conv nb (m : smap (p_V P)) :
  wf P m ->
  abs (p_V P') (p_dv P') (astype (p_V P) (p_V P') (p_valid P) conv nb m) =
  d_astype (p_V P) (p_V P') (p_valid P) conv nb (abs (p_V P) (p_dv P) m).
Proof.
  intros W. unfold Spec.abs, d_astype. cbn [d_nfine dense dcov d_blank]. f_equal.
  assert (En : npix (p_V P') (astype (p_V P) (p_V P') (p_valid P) conv nb m) = npix (p_V P) m) by reflexivity.
  rewrite En, map_map. apply map_ext_in. intros p Hp. apply In_zrange in Hp.
  apply (read_map_sp (fun v => if p_valid P v then conv v else nb) m); try reflexivity; assumption.
Qed.

End Transfer.

Section SameType.
Variable P : params.
Notation V := (p_V P).
Notation valid := (p_valid P).
Notation dv := (p_dv P).
Notation wf := (wf P).
Notation read := (read V dv).
Notation abs := (abs V dv).

(* ---- scalar operators ---- *)
Theorem map_valid_wf g (m : smap V) : wf m -> wf (map_valid V valid g m).
Proof.
  intros W. apply (wf_transfer P P m); try reflexivity; try assumption.
  - unfold map_valid; cbn [sp]. apply zlen_map.
  - intros i Hi. unfold map_valid; cbn [sp blank].
    rewrite (znth_map _ dv).
    + rewrite (wf_over P m W i Hi), (wf_blank P m W). reflexivity.
    + pose proof (wf_len P m W). pose proof (ncovered_nonneg P m). nia.
  - exact (wf_blank P m W).
Qed.

Theorem map_valid_refines g (m : smap V) :
  wf m -> abs (map_valid V valid g m) = d_map_valid V valid g (abs m).
Proof.
  intros W. unfold Spec.abs, d_map_valid. cbn [d_nfine dense dcov d_blank]. f_equal.
  assert (En : npix V (map_valid V valid g m) = npix V m) by reflexivity.
  rewrite En, map_map. apply map_ext_in. intros p Hp. apply In_zrange in Hp.
  apply (read_map_sp P P (fun v => if valid v then g v else v) m); try reflexivity; assumption.
Qed.

(* exactly the valid pixels change, to g of their value; invalid pixels stay as they are *)
Corollary map_valid_read g (m : smap V) p :
  wf m -> 0 <= p < npix V m ->
  read (map_valid V valid g m) p = if valid (read m p) then g (read m p) else read m p.
Proof.
  intros W Hp. apply (read_map_sp P P (fun v => if valid v then g v else v) m); try reflexivity; assumption.
Qed.

(* ---- invert and boolean operators with a constant: every cell after the overflow block ---- *)
Lemma znth_tail_map g (m : smap V) i :
  0 <= i < zlen (sp m) -> 0 < nfine m ->
  znth dv (sp (tail_map V g m)) i = if i <? nfine m then znth dv (sp m) i else g (znth dv (sp m) i).
Proof.
  intros Hi Hn. unfold tail_map; cbn [sp]. rewrite znth_app, zlen_zfirstn.
  destruct (i <? nfine m) eqn:E.
  - destruct (i <? Z.max 0 (Z.min (nfine m) (zlen (sp m)))) eqn:E2; [|lia].
    rewrite znth_zfirstn, E. reflexivity.
  - destruct (i <? Z.max 0 (Z.min (nfine m) (zlen (sp m)))) eqn:E2; [lia|].
    assert (Hlen : nfine m <= zlen (sp m)) by lia.
    replace (Z.max 0 (Z.min (nfine m) (zlen (sp m)))) with (nfine m) by lia.
    rewrite (znth_map _ dv).
    + rewrite znth_zskipn by lia. f_equal. f_equal. lia.
    + rewrite zlen_zskipn. lia.
Qed.

Lemma zlen_tail_map g (m : smap V) :
  0 < nfine m -> nfine m <= zlen (sp m) -> zlen (sp (tail_map V g m)) = zlen (sp m).
Proof.
  intros Hn Hl. unfold tail_map; cbn [sp]. rewrite zlen_app, zlen_zfirstn, zlen_map, zlen_zskipn. lia.
Qed.

Lemma wf_len_ge (m : smap V) : wf m -> nfine m <= zlen (sp m).
Proof. intros W. pose proof (wf_len P m W). pose proof (ncovered_nonneg P m). pose proof (wf_nf P m W). nia. Qed.

Theorem tail_map_wf g (m : smap V) : wf m -> wf (tail_map V g m).
Proof.
  intros W. pose proof (wf_nf P m W) as Hn. pose proof (wf_len_ge m W) as Hl.
  apply (wf_transfer P P m); try reflexivity; try assumption.
  - apply zlen_tail_map; assumption.
  - intros i Hi. rewrite znth_tail_map by lia.
    destruct (i <? nfine m) eqn:E; [|lia]. cbn [blank tail_map]. apply (wf_over P m W); exact Hi.
  - exact (wf_blank P m W).
Qed.

Theorem tail_map_read g (m : smap V) p :
  wf m -> 0 <= p < npix V m ->
  read (tail_map V g m) p = if covered V m (p / nfine m) then g (read m p) else read m p.
Proof.
  intros W Hp. pose proof (wf_nf P m W) as Hn.
  unfold Map.read. rewrite (cell_transfer P P m (tail_map V g m) p eq_refl eq_refl).
  pose proof (cell_range P m p W Hp) as Hr.
  rewrite znth_tail_map by assumption.
  destruct (covered V m (p / nfine m)) eqn:Hc.
  - pose proof (cell_covered P m p W Hp Hc). destruct (cell V m p <? nfine m) eqn:E; [lia|reflexivity].
  - destruct (cell_uncovered P m p W Hp Hc) as [_ B]. destruct (cell V m p <? nfine m) eqn:E; [reflexivity|lia].
Qed.

Theorem tail_map_refines g (m : smap V) :
  wf m -> abs (tail_map V g m) = d_cov_map V dv g (abs m).
Proof.
  intros W. pose proof (wf_nf P m W) as Hn.
  unfold Spec.abs, d_cov_map. cbn [d_nfine dense dcov d_blank]. f_equal.
  assert (En : npix V (tail_map V g m) = npix V m) by reflexivity.
  rewrite En. unfold Spec.d_npix. cbn [dense]. rewrite zlen_map, zlen_zrange.
  pose proof (npix_nonneg P m W) as Hnp. rewrite Z.sub_0_r, Z.max_r by lia.
  apply map_ext_in. intros p Hp. apply In_zrange in Hp.
  rewrite tail_map_read by assumption.
  unfold d_cov, Spec.d_read. cbn [dcov d_nfine dense].
  rewrite (znth_coverage_mask P) by (apply (covpix_range P); assumption).
  rewrite (znth_map _ 0) by (rewrite zlen_zrange; lia).
  rewrite znth_zrange by lia. rewrite Z.add_0_l. reflexivity.
Qed.

(* inversion is its own inverse when the cell-level negation is (C11) *)
Theorem tail_map_involutive g (m : smap V) :
  wf m -> (forall v, g (g v) = v) ->
  abs (tail_map V g (tail_map V g m)) = abs m.
Proof.
  intros W Hg. pose proof (tail_map_wf g m W) as W1.
  unfold Spec.abs. cbn [tail_map nfine idx blank]. f_equal.
  change (npix V (tail_map V g (tail_map V g m))) with (npix V m).
  apply map_ext_in. intros p Hp. apply In_zrange in Hp.
  change (read (tail_map V g (tail_map V g m)) p = read m p).
  rewrite tail_map_read by assumption. rewrite tail_map_read by assumption.
  change (covered V (tail_map V g m) (p / nfine (tail_map V g m))) with (covered V m (p / nfine m)).
  destruct (covered V m (p / nfine m)); [apply Hg|reflexivity].
Qed.

(* ---- apply_mask ---- *)
Lemma fold_left_map_arg {A B C} (f : A -> B -> A) (g : C -> B) l a :
  fold_left (fun s x => f s (g x)) l a = fold_left f (map g l) a.
Proof. revert a; induction l as [|x t IH]; intros a; cbn [fold_left map]; [reflexivity|apply IH]. Qed.

Lemma znth_fold_zupd (nv : V) (l : list Z) : forall (s : list V) j,
  0 <= j < zlen s ->
  znth dv (fold_left (fun s i => zupd s i nv) l s) j =
  if existsb (Z.eqb j) l then nv else znth dv s j.
Proof.
  induction l as [|i t IH]; intros s j Hj; cbn [fold_left existsb]; [reflexivity|].
  rewrite IH by (rewrite zlen_zupd; exact Hj).
  destruct (existsb (Z.eqb j) t) eqn:Et.
  - rewrite orb_true_r. reflexivity.
  - rewrite orb_false_r. rewrite znth_zupd.
    destruct (j =? i) eqn:E.
    + destruct ((i =? j) && (0 <=? i) && (i <? zlen s)) eqn:E2; [reflexivity|lia].
    + destruct ((i =? j) && (0 <=? i) && (i <? zlen s)) eqn:E2; [lia|reflexivity].
Qed.

Lemma zlen_fold_zupd (nv : V) (l : list Z) : forall (s : list V),
  zlen (fold_left (fun s i => zupd s i nv) l s) = zlen s.
Proof. induction l as [|i t IH]; intros s; cbn [fold_left]; [reflexivity|]. rewrite IH, zlen_zupd. reflexivity. Qed.

Definition masked (bad : Z -> bool) (m : smap V) : list Z :=
  map (cell V m) (filter bad (map (pix P m) (valid_cells V valid dv m))).

Lemma apply_mask_unfold bad (m : smap V) :
  wf m ->
  apply_mask V valid dv bad m =
  Some (mkmap (nfine m) (idx m)
              (fold_left (fun s i => zupd s i (znth dv (sp m) 0)) (masked bad m) (sp m)) (blank m) None).
Proof.
  intros W. unfold apply_mask. rewrite (proj1 (valid_pixels_spec P m W)). cbv zeta.
  rewrite (fold_left_map_arg (fun s i => zupd s i (znth dv (sp m) 0)) (cell V m)). reflexivity.
Qed.

Lemma in_masked bad (m : smap V) q :
  wf m -> 0 <= q < npix V m ->
  existsb (Z.eqb (cell V m q)) (masked bad m) = valid (read m q) && bad q.
Proof.
  intros W Hq. destruct (valid_pixels_spec P m W) as [_ [_ Hmem]].
  destruct (existsb (Z.eqb (cell V m q)) (masked bad m)) eqn:E.
  - apply existsb_exists in E. destruct E as [c [Hc Ec]]. apply Z.eqb_eq in Ec.
    unfold masked in Hc. apply in_map_iff in Hc. destruct Hc as [p [Ep Hp]].
    apply filter_In in Hp. destruct Hp as [Hp Hb]. apply Hmem in Hp. destruct Hp as [Hr Hv].
    assert (p = q).
    { apply (cell_inj P m); try assumption.
      - apply (valid_implies_covered P); assumption.
      - rewrite Ep. symmetry. exact Ec. }
    subst p. rewrite Hv, Hb. reflexivity.
  - destruct (valid (read m q) && bad q) eqn:E2; [|reflexivity].
    apply andb_true_iff in E2. destruct E2 as [Hv Hb].
    assert (existsb (Z.eqb (cell V m q)) (masked bad m) = true); [|congruence].
    apply existsb_exists. exists (cell V m q). split; [|apply Z.eqb_refl].
    unfold masked. apply in_map. apply filter_In. split; [|exact Hb]. apply Hmem. split; assumption.
Qed.

Theorem apply_mask_read bad (m m' : smap V) q :
  wf m -> apply_mask V valid dv bad m = Some m' -> 0 <= q < npix V m ->
  read m' q = if valid (read m q) && bad q then blank m else read m q.
Proof.
  intros W E Hq. rewrite apply_mask_unfold in E by exact W. injection E as <-.
  unfold Map.read at 1. unfold Map.cell at 1. cbn [nfine idx sp]. fold (cell V m q).
  rewrite znth_fold_zupd by (apply (cell_range P); assumption).
  rewrite in_masked by assumption.
  destruct (valid (read m q) && bad q); [|reflexivity].
  apply (wf_over P m W). pose proof (wf_nf P m W). lia.
Qed.

Theorem apply_mask_wf bad (m m' : smap V) :
  wf m -> apply_mask V valid dv bad m = Some m' -> wf m'.
Proof.
  intros W E. rewrite apply_mask_unfold in E by exact W. injection E as <-.
  pose proof (wf_nf P m W) as Hn. pose proof (wf_len_ge m W) as Hl.
  apply (wf_transfer P P m); try reflexivity; try assumption.
  - cbn [sp]. apply zlen_fold_zupd.
  - intros i Hi. cbn [sp blank]. rewrite znth_fold_zupd by lia.
    destruct (existsb (Z.eqb i) (masked bad m)).
    + apply (wf_over P m W). lia.
    + apply (wf_over P m W). exact Hi.
  - exact (wf_blank P m W).
Qed.

(* apply_mask never fails on a well-formed map, and it invalidates exactly the valid pixels the
   mask selects *)
Theorem apply_mask_refines bad (m : smap V) :
  wf m ->
  exists m', apply_mask V valid dv bad m = Some m' /\ wf m' /\
             abs m' = d_apply_mask V valid dv bad (abs m).
Proof.
  intros W. pose proof (apply_mask_unfold bad m W) as E.
  eexists. split; [exact E|]. split; [apply (apply_mask_wf bad m); assumption|].
  pose proof (npix_nonneg P m W) as Hnp.
  unfold Spec.abs at 1, d_apply_mask. cbn [nfine idx blank d_nfine dcov d_blank]. f_equal.
  unfold Spec.abs, Spec.d_npix. cbn [dense]. rewrite zlen_map, zlen_zrange.
  replace (Z.max 0 (npix V m - 0)) with (npix V m) by lia.
  match goal with |- map _ (zrange 0 ?n) = _ => change n with (npix V m) end.
  apply map_ext_in. intros q Hq. apply In_zrange in Hq.
  rewrite (apply_mask_read bad m _ q W E Hq).
  unfold Spec.d_read. cbn [dense]. rewrite (znth_map _ 0) by (rewrite zlen_zrange; lia).
  rewrite znth_zrange by lia. rewrite Z.add_0_l. reflexivity.
Qed.

End SameType.
