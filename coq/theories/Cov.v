(* Cov.v — model of healsparse/healSparseCoverage.py (the coverage index).
   A coverage index is a list Z with one entry per coverage pixel.
   Source ranges are given next to every definition. *)
From HS Require Import Prelude.

(* healSparseCoverage.py:56-79 make_empty: idx[c] = -c*nfine *)
Definition cov_make_empty (ncov nfine : Z) : list Z :=
  map (fun c => - (c * nfine)) (zrange 0 ncov).

(* healSparseCoverage.py:107-117 initialize_pixels:
   idx[P] += arange(1, len(P)+1)*nfine  (NumPy fancy "+=": right-hand side is computed
   from the ORIGINAL array, then assigned; a repeated pixel keeps its last increment) *)
Fixpoint init_pixels_from (nfine : Z) (idx0 idx : list Z) (ps : list Z) (j : Z) : list Z :=
  match ps with
  | [] => idx
  | p :: r => init_pixels_from nfine idx0 (zupd idx p (znth 0 idx0 p + (j + 1) * nfine)) r (j + 1)
  end.

Definition initialize_pixels (nfine : Z) (idx ps : list Z) : list Z :=
  init_pixels_from nfine idx idx ps 0.

(* healSparseCoverage.py:82-105 make_from_pixels *)
Definition cov_make_from_pixels (ncov nfine : Z) (ps : list Z) : list Z :=
  initialize_pixels nfine (cov_make_empty ncov nfine) ps.

(* "the map without the offset": idx[c] + c*nfine  (healSparseCoverage.py:196-198, 251-253) *)
Definition cov_off (nfine : Z) (idx : list Z) (c : Z) : Z := znth 0 idx c + c * nfine.

(* healSparseCoverage.py:186-199 coverage_mask *)
Definition cov_covered (nfine : Z) (idx : list Z) (c : Z) : bool := nfine <=? cov_off nfine idx c.

Definition coverage_mask (nfine : Z) (idx : list Z) : list bool :=
  map (cov_covered nfine idx) (zrange 0 (zlen idx)).

Definition covered_pixels (nfine : Z) (idx : list Z) : list Z :=
  filter (cov_covered nfine idx) (zrange 0 (zlen idx)).

(* healSparseCoverage.py:119-152 append_pixels (always on a copy; check=False from the map):
   temp = idx + c*nfine; temp[new[j]] = j*nfine + size; idx' = temp - c*nfine *)
Fixpoint append_from (nfine size : Z) (idx : list Z) (ps : list Z) (j : Z) : list Z :=
  match ps with
  | [] => idx
  | p :: r => append_from nfine size (zupd idx p (j * nfine + size - p * nfine)) r (j + 1)
  end.

Definition append_pixels (nfine size : Z) (idx ps : list Z) : list Z :=
  append_from nfine size idx ps 0.

(* healSparseCoverage.py:247-259 _compute_block_to_cov_index:
   covered pixels sorted by block number (offset // nfine - 1).  Modelled as an insertion
   sort on the key; for a well-formed index keys are distinct, so any sort agrees. *)
Fixpoint insert_by (key : Z -> Z) (x : Z) (l : list Z) : list Z :=
  match l with
  | [] => [x]
  | y :: t => if key x <? key y then x :: l else y :: insert_by key x t
  end.

Definition sort_by (key : Z -> Z) (l : list Z) : list Z := fold_right (insert_by key) [] l.

Definition block_to_cov (nfine : Z) (idx : list Z) : list Z :=
  sort_by (fun c => cov_off nfine idx c / nfine - 1) (covered_pixels nfine idx).

(* Python indexing of a list with one integer: negative indices wrap once, otherwise IndexError *)
Definition py_get {A} (d : A) (l : list A) (i : Z) : option A :=
  let n := zlen l in
  let j := if i <? 0 then i + n else i in
  if (0 <=? j) && (j <? n) then Some (znth d l j) else None.

(* healSparseCoverage.py:170-184 cov_pixels_from_index: block_to_cov[(i // nfine) - 1] *)
Definition cov_pixels_from_index_with (b2c : list Z) (nfine : Z) (i : Z) : option Z :=
  py_get 0 b2c (i / nfine - 1).

Definition cov_pixels_from_index (nfine : Z) (idx : list Z) (i : Z) : option Z :=
  cov_pixels_from_index_with (block_to_cov nfine idx) nfine i.
