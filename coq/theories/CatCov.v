(* CatCov.v — the visiting list of the concatenation routine (C18).
   cat_healsparse_files builds a summary of the coverage pixels (at the OUTPUT coverage resolution) that any
   input touches and visits exactly those.  [Ops.cat_cov_pix] is that list as the routine computes it: for an
   input with the output's coverage resolution its covered pixels, for a coarser-covered input the output
   coverage pixels of its valid pixels, for a finer-covered input the parents of its covered pixels.
   Theorem: the list has no repetition and contains the coverage pixel of every sky pixel at which some
   input is valid — which is the hypothesis of [CatRefine.cat_mem_spec]; the corollary is the routine's
   specification with the list it computes itself. *)
From HS Require Import Prelude Cov Map Spec Ops Spec2 Params AtFold MapProofs UpdateProofs HistoryProofs
     LayoutProofs AccountProofs MultiRefine CatRefine.

Section CatCov.
Variable P : params.
Notation V := (p_V P).
Notation valid := (p_valid P).
Notation dv := (p_dv P).
Notation wf := (wf P).
Notation read := (read V dv).
Notation cat_mem := (cat_mem V valid dv (p_vadd P) (p_vor P) (p_vand P) (p_vzero P) (p_is_sent P) (p_sent_nonzero P)).
Notation cat_cov_of := (cat_cov_of V valid dv).
Notation cat_cov_pix := (cat_cov_pix V valid dv).

Variable N : Z.

(* the coverage resolutions of an input and of the output are nested (both are powers of four in HEALPix) *)
Definition nested (nf : Z) (m : smap V) : Prop :=
  exists k, 0 < k /\ (nf = k * nfine m \/ nfine m = k * nf).

Lemma div_parent (q a k : Z) : 0 < a -> 0 < k -> 0 <= q -> (q / a) * a / (k * a) = q / (k * a).
Proof.
  intros Ha Hk Hq.
  rewrite (Z.mul_comm k a). rewrite <- !Z.div_div by lia.
  rewrite Z.div_mul by lia. reflexivity.
Qed.

Lemma cov_of_complete (ncv nf : Z) (m : smap V) (q : Z) :
  0 < nf -> okin P N m -> nested nf m -> 0 <= q < N -> valid (read m q) = true ->
  In (q / nf) (cat_cov_of ncv nf m).
Proof.
  intros Hf [W Np] [k [Hk Hn]] Hq Hv. unfold Ops.cat_cov_of.
  pose proof (wf_nf P m W) as Hnf.
  assert (Hqm : 0 <= q < npix V m) by (rewrite Np; exact Hq).
  pose proof (valid_implies_covered P m q W Hqm Hv) as Hc.
  assert (Hcr : 0 <= q / nfine m < ncov V m).
  { unfold Map.npix in Hqm. split; [apply Z.div_pos; lia|apply Z.div_lt_upper_bound; nia]. }
  destruct (nfine m =? nf) eqn:E1.
  - apply Z.eqb_eq in E1. rewrite <- E1. apply (In_covered_pixels P). split; assumption.
  - destruct (nf <? nfine m) eqn:E2.
    + destruct (valid_pixels_spec P m W) as [Evp [_ Hin]]. rewrite Evp.
      apply in_map_iff. exists q. split; [reflexivity|]. apply Hin. split; assumption.
    + apply in_map_iff. exists (q / nfine m). split.
      * destruct Hn as [Hn|Hn].
        -- rewrite Hn. apply div_parent; lia.
        -- assert (k = 1) by nia. subst k. lia.
      * apply (In_covered_pixels P). split; assumption.
Qed.

Lemma cvals_nonempty (inputs : list (smap V)) q :
  cvals P inputs q <> [] -> exists m, In m inputs /\ valid (read m q) = true.
Proof.
  induction inputs as [|m r IH]; [intros H; contradiction H; reflexivity|].
  rewrite (cvals_cons P). destruct (valid (read m q)) eqn:Ev.
  - intros _. exists m. split; [left; reflexivity|exact Ev].
  - cbn [app]. intros H. destruct (IH H) as [m' [Hin Hv]]. exists m'. split; [right; exact Hin|exact Hv].
Qed.

Theorem cat_cov_pix_complete (ncv nf : Z) (inputs : list (smap V)) :
  0 <= ncv -> 0 < nf -> N = ncv * nf ->
  (forall m, In m inputs -> okin P N m /\ nested nf m) ->
  NoDup (cat_cov_pix ncv nf inputs) /\
  forall q, 0 <= q < N -> cvals P inputs q <> [] -> In (q / nf) (cat_cov_pix ncv nf inputs).
Proof.
  intros Hn Hf EN Hok. split.
  - unfold Ops.cat_cov_pix. apply NoDup_filter. apply NoDup_zrange.
  - intros q Hq Hne. destruct (cvals_nonempty inputs q Hne) as [m [Hin Hv]].
    destruct (Hok m Hin) as [Hokm Hnest].
    unfold Ops.cat_cov_pix. apply filter_In. split.
    + apply In_zrange. split; [apply Z.div_pos; lia|apply Z.div_lt_upper_bound; nia].
    + apply existsb_exists. exists m. split; [exact Hin|].
      apply existsb_eqb_In. apply (cov_of_complete ncv nf m q Hf Hokm Hnest Hq Hv).
Qed.

(* the routine with the visiting list it computes itself *)
Theorem cat_routine_spec (ncv nf : Z) (sentinel : V) (inputs : list (smap V)) :
  0 <= ncv -> 0 < nf -> N = ncv * nf -> valid sentinel = false ->
  (forall m, In m inputs -> okin P N m /\ nested nf m) ->
  let out := cat_mem ncv nf sentinel inputs (cat_cov_pix ncv nf inputs) in
  wf out /\ npix V out = N /\ blank out = sentinel /\
  forall q, 0 <= q < N ->
    read out q = match cvals P inputs q with [] => sentinel
                 | _ => fold_left (fun _ b => b) (cvals P inputs q) sentinel end.
Proof.
  intros Hn Hf EN Hs Hok.
  destruct (cat_cov_pix_complete ncv nf inputs Hn Hf EN Hok) as [ND Hc].
  apply (cat_mem_spec P N ncv nf sentinel inputs _ Hn Hf EN Hs); [|exact ND|exact Hc].
  intros m Hin. apply (Hok m Hin).
Qed.

End CatCov.
