(* Ops.v — L1 models of the map-producing and in-place operations of healSparseMap.py beyond
   update_values_pix: scalar operators, astype, invert / boolean operators, apply_mask,
   degrade / upgrade (order-preserving index rebuild), pixel-range updates, partial reads and
   the multi-map operations of operations.py.  Generic in the cell type(s). *)
From HS Require Import Prelude Cov Map.

(* overwrite l[start : start+len blk] with blk (NumPy slice assignment of equal length) *)
Definition zsplice {A} (l : list A) (start : Z) (blk : list A) : list A :=
  zfirstn start l ++ blk ++ zskipn (start + zlen blk) l.

Fixpoint map2 {A B C} (f : A -> B -> C) (a : list A) (b : list B) : list C :=
  match a, b with
  | x :: s, y :: t => f x y :: map2 f s t
  | _, _ => []
  end.

Section Ops1.
Variable V : Type.
Variable valid : V -> bool.
Variable dv : V.

Notation smap := (smap V).

(* healSparseMap.py _apply_operation (scalar operators): func(sp, other, out=sp, where=valid).
   The in-place form resets the cache; the copying form builds a new map on the same coverage
   index.  Both give this state. *)
Definition map_valid (g : V -> V) (m : smap) : smap :=
  mkmap (nfine m) (idx m) (map (fun v => if valid v then g v else v) (sp m)) (blank m) None.

(* invert / __invert__ and boolean operators with a constant: every cell after the overflow block *)
Definition tail_map (g : V -> V) (m : smap) : smap :=
  mkmap (nfine m) (idx m) (zfirstn (nfine m) (sp m) ++ map g (zskipn (nfine m) (sp m))) (blank m) None.

(* apply_mask: valid pixels whose mask value selects them are overwritten with cell 0 *)
Definition apply_mask (bad : Z -> bool) (m : smap) : option smap :=
  match valid_pixels V valid dv m with
  | None => None
  | Some vp =>
    let nv := znth dv (sp m) 0 in
    Some (mkmap (nfine m) (idx m)
                (fold_left (fun s p => zupd s (cell V m p) nv) (filter bad vp) (sp m))
                (blank m) None)
  end.

(* copy *)
Definition copy_map (m : smap) : smap := mkmap (nfine m) (idx m) (sp m) (blank m) None.

(* ---- order-preserving rebuild of the index (degrade, upgrade, fracdet_map):
   make_from_pixels(nside_coverage, nside_new, block_to_cov_index) ---- *)
Definition rebuild_idx (m : smap) (nf' : Z) : list Z :=
  cov_make_from_pixels (ncov V m) nf' (block_to_cov (nfine m) (idx m)).

(* ---- partial read (io_map_fits._read_healsparse_fits_file with pixels=):
   requested pixels filtered to the covered ones, sorted ascending; the overflow block followed by
   the block of each of them; index rebuilt from that sorted list ---- *)
Definition read_partial (m : smap) (req : list Z) : option smap :=
  let ps := filter (fun c => existsb (Z.eqb c) req) (covered_pixels (nfine m) (idx m)) in
  match ps with
  | [] => None                      (* RuntimeError: none of the pixels is in the coverage map *)
  | _ =>
    Some (mkmap (nfine m) (cov_make_from_pixels (ncov V m) (nfine m) ps)
                (zslice (sp m) 0 (nfine m) ++
                 flat_map (fun c => zslice (sp m) (off V m c) (off V m c + nfine m)) ps)
                (blank m) None)
  end.

(* ---- _update_values_pixel_ranges (healSparseMap.py), slice-wise writes ---- *)
Variables (vadd vor vand : V -> V -> V).
Variable vzero : V.
Variable is_sent : V -> bool.
Variable sent_nonzero : bool.

(* _do_operation_on_sparse_map_range *)
Definition range_op (o : uop) (value : V) (s : list V) (start stop : Z) : list V :=
  let blk := zslice s start stop in
  let blk' :=
    match o with
    | URepl => map (fun _ => value) blk
    | UAdd => map (fun v => vadd (if sent_nonzero && is_sent v then vzero else v) value) blk
    | UOr => map (fun v => vor v value) blk
    | UAnd => map (fun v => vand v value) blk
    end in
  if start <? stop then zsplice s start blk' else s.

(* rows are (a, b) half-open *)
Definition cov_lo (nf : Z) (r : Z * Z) : Z := fst r / nf.
Definition cov_hi (nf ncv : Z) (r : Z * Z) : Z :=
  let h := snd r / nf in if h =? ncv then ncv - 1 else h.

Definition ranges_cov_pixels (nf ncv : Z) (rows : list (Z * Z)) : list Z :=
  filter (fun c => existsb (fun r => (cov_lo nf r <=? c) && (c <=? cov_hi nf ncv r)) rows) (zrange 0 ncv).

Definition range_row (o : uop) (value : V) (no_append : bool) (covd : Z -> bool)
           (m : smap) (s : list V) (r : Z * Z) : list V :=
  let nf := nfine m in
  let c0 := cov_lo nf r in
  let c1 := cov_hi nf (ncov V m) r in
  let offv c := znth 0 (idx m) c in
  if c0 <? c1 then
    let s1 := if no_append && negb (covd c0) then s
              else range_op o value s (fst r + offv c0) (offv c0 + nf * (c0 + 1)) in
    let s2 := fold_left (fun s c => if no_append && negb (covd c) then s
                                    else range_op o value s (offv c + nf * c) (offv c + nf * c + nf))
                        (zrange (c0 + 1) c1) s1 in
    if no_append && negb (covd c1) then s2
    else range_op o value s2 (offv c1 + nf * c1) (snd r + offv c1)
  else
    if no_append && negb (covd c0) then s
    else range_op o value s (fst r + offv c0) (fst r + offv c0 + (snd r - fst r)).

Definition update_ranges (m : smap) (o : uop) (rows : list (Z * Z)) (value : V) (no_append : bool) : smap :=
  let nf := nfine m in
  let covd0 c := covered V m c in          (* cov_mask is taken BEFORE the reservation *)
  let want := ranges_cov_pixels nf (ncov V m) rows in
  let new := filter (fun c => negb (covd0 c)) want in
  let m1 := match new with
            | [] => m
            | _ => if no_append then m else reserve V dv m new
            end in
  mkmap nf (idx m1) (fold_left (range_row o value no_append covd0 m1) rows (sp m1)) (blank m1) None.

(* hpgeom.pixel_ranges_to_pixels *)
Definition expand_ranges (rows : list (Z * Z)) : list Z := flat_map (fun r => zrange (fst r) (snd r)) rows.

End Ops1.

Section Ops2.
Variables V W : Type.
Variable valid : V -> bool.
Variable dv : V.
Variable dw : W.

(* astype: valid cells converted, every other cell set to the new sentinel; same coverage index *)
Definition astype (conv : V -> W) (nb : W) (m : smap V) : smap W :=
  mkmap (nfine m) (idx m) (map (fun v => if valid v then conv v else nb) (sp m)) nb None.

(* _degrade: r = nfine_in / nfine_out children per coarse pixel; [red] reduces the cells of one
   group (it receives all r cells, valid or not); afterwards the overflow block is reset
   (fix F01); index rebuilt in block order *)
Definition group_reduce (red : list V -> W) (r : Z) (s : list V) : list W :=
  map (fun g => red (zslice s (g * r) ((g + 1) * r))) (zrange 0 (zlen s / r)).

Definition degrade (red : list V -> W) (r : Z) (nb : W) (m : smap V) : smap W :=
  let nf' := nfine m / r in
  let s := group_reduce red r (sp m) in
  mkmap nf' (rebuild_idx V m nf') (zrepeat nb nf' ++ zskipn nf' s) nb None.

(* weighted form: the weight storage [w] is aligned with the map storage *)
Definition group_reduce2 (red : list (V * W) -> W) (r : Z) (s : list V) (w : list W) : list W :=
  map (fun g => red (combine (zslice s (g * r) ((g + 1) * r)) (zslice w (g * r) ((g + 1) * r))))
      (zrange 0 (zlen s / r)).

Definition degrade2 (red : list (V * W) -> W) (r : Z) (nb : W) (m : smap V) (wsp : list W) : smap W :=
  let nf' := nfine m / r in
  let s := group_reduce2 red r (sp m) wsp in
  mkmap nf' (rebuild_idx V m nf') (zrepeat nb nf' ++ zskipn nf' s) nb None.

(* upgrade: np.repeat(sparse_map, r) *)
Definition upgrade (r : Z) (m : smap V) : smap V :=
  mkmap (nfine m * r) (rebuild_idx V m (nfine m * r))
        (flat_map (fun v => zrepeat v r) (sp m)) (blank m) None.

End Ops2.

Section BoolOps.
Variable V : Type.
Variable dv : V.
Variable vfalse : V.

(* _apply_boolean_map_operation with a map operand.  [f] is the pixelwise operation. *)
Definition new_cov_for (a b : smap V) : list Z :=
  filter (fun c => (covered V a c || covered V b c) && negb (covered V a c)) (zrange 0 (ncov V a)).

Definition run_pixels (b : smap V) : list Z := covered_pixels (nfine b) (idx b).

Definition bool_block (f : V -> V -> V) (b : smap V) (idx_src : list Z) (src : list V)
           (idx_t : list Z) (nf : Z) (t : list V) (c : Z) : list V :=
  let start_src := cov_off nf idx_src c in
  let start_other := off V b c in
  let start_t := cov_off nf idx_t c in
  zsplice t start_t (map2 f (zslice src start_src (start_src + nf))
                            (zslice (sp b) start_other (start_other + nf))).

(* in place: reserve, then operate block by block on the grown storage *)
Definition bool_map_op_inplace (f : V -> V -> V) (a b : smap V) : smap V :=
  let nf := nfine a in
  let a1 := reserve V dv a (new_cov_for a b) in
  let s := fold_left (fun t c => bool_block f b (idx a1) t (idx a1) nf t c) (run_pixels b) (sp a1) in
  mkmap nf (idx a1) s (blank a) None.

(* copying: appended index, zero buffer with the old storage copied in, then per block
   "copy from self, operate" *)
Definition bool_map_op_copy (f : V -> V -> V) (a b : smap V) : smap V :=
  let nf := nfine a in
  let new := new_cov_for a b in
  let idx_t := append_pixels nf (zlen (sp a)) (idx a) new in
  let ncomb := zcount (fun c => covered V a c || covered V b c) (zrange 0 (ncov V a)) in
  let t0 := sp a ++ zrepeat vfalse ((ncomb + 1) * nf - zlen (sp a)) in
  let s := fold_left (fun t c => bool_block f b (idx a) (sp a) idx_t nf t c) (run_pixels b) t0 in
  mkmap nf idx_t s (blank a) None.

End BoolOps.

Section MultiOps.
Variable V : Type.
Variable dv : V.

(* operations._apply_operation.  Every input comes with its own validity test (its own
   sentinel); the result takes the first map's resolution and the given output sentinel. *)
Definition vmap : Type := ((V -> bool) * smap V)%type.

Definition combined_mask (union : bool) (ms : list vmap) (c : Z) : bool :=
  match ms with
  | [] => false
  | m0 :: r => fold_left (fun acc m => if union then acc || covered V (snd m) c else acc && covered V (snd m) c)
                         r (covered V (snd m0) c)
  end.

Definition mm_one (f : V -> V -> V) (conv : V -> V) (fill_first : bool) (idx' : list Z)
           (st : option (list V * list Z)) (im : Z * vmap) : option (list V * list Z) :=
  match st with
  | None => None
  | Some (s, nt) =>
    let m := snd (snd im) in
    match valid_pixels V (fst (snd im)) dv m with
    | None => None
    | Some vp =>
      let cells := map (fun p => p + znth 0 idx' (p / nfine m)) vp in
      let vals := map (read V dv m) vp in
      let olds := map (znth dv s) cells in
      let news := if (fst im =? 0) && fill_first then map conv vals else map2 f olds vals in
      let s' := fold_left (fun t cv => zupd t (fst cv) (snd cv)) (combine cells news) s in
      let nt' := fold_left (fun t c => zupd t c (znth 0 t c + 1)) cells nt in
      Some (s', nt')
    end
  end.

Fixpoint number_from {A} (i : Z) (l : list A) : list (Z * A) :=
  match l with [] => [] | x :: t => (i, x) :: number_from (i + 1) t end.

Definition apply_operation (f : V -> V -> V) (conv : V -> V) (filler sentinel : V)
           (filler_is_sentinel : bool) (union fill_first : bool) (ms : list vmap) : option (smap V) :=
  match ms with
  | [] => None
  | m0 :: _ =>
    let nf := nfine (snd m0) in
    let ncv := ncov V (snd m0) in
    let cov_pix := filter (combined_mask union ms) (zrange 0 ncv) in
    match cov_pix with
    | [] => Some (make_empty V ncv nf sentinel None)
    | _ =>
      let idx' := cov_make_from_pixels ncv nf cov_pix in
      let len := (zlen cov_pix + 1) * nf in
      match fold_left (mm_one f conv fill_first idx') (number_from 0 ms)
                      (Some (zrepeat filler len, zrepeat 0 len)) with
      | None => None
      | Some (s, nt) =>
        let n := zlen ms in
        let s1 := if union
                  then (if filler_is_sentinel then s
                        else map2 (fun v t => if 0 <? t then v else sentinel) s nt)
                  else map2 (fun v t => if t =? n then v else sentinel) s nt in
        Some (mkmap nf idx' (zrepeat sentinel nf ++ zskipn nf s1) sentinel None)
      end
    end
  end.

End MultiOps.

(* ---- cat_healsparse_files (cat_healsparse_files.py, in-memory mode).  ONE output map; for every
   output coverage pixel in ascending order and every input in list order:
       sparse_map[valid_pixels] = in_map[valid_pixels]
   for the input's valid pixels inside that coverage pixel — a 'replace' update that grows the output
   coverage as it goes.  [cat_cov_pix] is the list of output coverage pixels the routine visits
   (cov_mask_summary): the input's covered pixels when the coverage resolutions match, the coverage
   pixels of its valid pixels when the output coverage is finer, the shifted covered pixels when it is
   coarser. ---- *)
Section CatOps.
Variable V : Type.
Variable valid : V -> bool.
Variable dv : V.
Variables (vadd vor vand : V -> V -> V).
Variable vzero : V.
Variable is_sent : V -> bool.
Variable sent_nonzero : bool.

Definition cat_pvs (nf : Z) (m : smap V) (pix : Z) : list (Z * V) :=
  match valid_pixels V valid dv m with
  | Some vp => map (fun p => (p, read V dv m p)) (filter (fun p => p / nf =? pix) vp)
  | None => []
  end.

Definition cat_step (nf : Z) (inputs : list (smap V)) (sm : smap V) (pix : Z) : smap V :=
  fold_left (fun sm m => update V dv vadd vor vand vzero is_sent sent_nonzero sm URepl (cat_pvs nf m pix) false)
            inputs sm.

Definition cat_mem (ncv nf : Z) (sentinel : V) (inputs : list (smap V)) (cov_pix : list Z) : smap V :=
  fold_left (cat_step nf inputs) cov_pix (make_empty V ncv nf sentinel None).

Definition cat_cov_of (ncv nf : Z) (m : smap V) : list Z :=
  if nfine m =? nf then covered_pixels (nfine m) (idx m)
  else if nf <? nfine m then
    (* the output coverage is finer than this input's: the coverage pixels of its valid pixels *)
    match valid_pixels V valid dv m with
    | Some vp => map (fun p => p / nf) vp
    | None => []
    end
  else map (fun c => c * nfine m / nf) (covered_pixels (nfine m) (idx m)).

Definition cat_cov_pix (ncv nf : Z) (inputs : list (smap V)) : list Z :=
  filter (fun c => existsb (fun m => existsb (Z.eqb c) (cat_cov_of ncv nf m)) inputs) (zrange 0 ncv).

End CatOps.
