(* FileRows.v — the row arithmetic of partial reads on flattened storage (C03, C19).
   A file stores the SPARSE extension flattened: a wide-mask cell occupies wmult consecutive bytes, eight
   bit-packed cells share one byte.  A partial read fetches, for the block at storage offset off (a multiple of
   nfine), the raw rows [off*wmult//wdiv, (off+nfine)*wmult//wdiv).  Theorem (one statement for both kinds): for
   units of constant width w, the raw slice [a*w, b*w) of the flattened storage is the flattening of the unit
   slice [a, b) — so the rows fetched are exactly the cells of the block, nothing of its neighbours. *)
From HS Require Import Prelude Packed.

Section Rows.
Context {A B : Type}.
Variable f : A -> list B.
Variable w : Z.
Variable dA : A.
Variable dB : B.
Hypothesis Hw : 0 < w.
Hypothesis Hf : forall x, zlen (f x) = w.

Lemma zlen_flat_map_w (l : list A) : zlen (flat_map f l) = w * zlen l.
Proof.
  induction l as [|x t IH]; cbn [flat_map]; [rewrite !zlen_nil; lia|].
  rewrite zlen_app, Hf, IH, zlen_cons. lia.
Qed.

Lemma znth_flat_map_w (l : list A) : forall k,
  0 <= k < w * zlen l -> znth dB (flat_map f l) k = znth dB (f (znth dA l (k / w))) (k mod w).
Proof.
  induction l as [|x t IH]; intros k Hk.
  - rewrite zlen_nil in Hk. lia.
  - cbn [flat_map]. rewrite znth_app, Hf, znth_cons. rewrite zlen_cons in Hk.
    destruct (k <? w) eqn:E.
    + rewrite Z.div_small by lia. rewrite Z.mod_small by lia. reflexivity.
    + assert (Hk' : 0 <= k - w < w * zlen t) by lia.
      rewrite (IH (k - w) Hk').
      assert (Ed : k / w = (k - w) / w + 1).
      { replace k with ((k - w) + 1 * w) at 1 by lia. rewrite Z.div_add by lia. reflexivity. }
      assert (Em : k mod w = (k - w) mod w).
      { replace k with ((k - w) + 1 * w) at 1 by lia. rewrite Z.mod_add by lia. reflexivity. }
      assert (Hq : 0 <= (k - w) / w) by (apply Z.div_pos; lia).
      rewrite Ed, Em. destruct ((k - w) / w + 1 =? 0) eqn:E0; [lia|].
      replace ((k - w) / w + 1 - 1) with ((k - w) / w) by lia. reflexivity.
Qed.

Lemma znth_zslice {C} (d : C) (l : list C) a b i :
  0 <= a -> 0 <= i < b - a -> znth d (zslice l a b) i = znth d l (i + a).
Proof.
  intros Ha Hi. unfold zslice. rewrite znth_zfirstn. destruct (i <? b - a) eqn:E; [|lia].
  rewrite znth_zskipn by lia. f_equal. lia.
Qed.

Lemma zlen_zslice {C} (l : list C) a b : 0 <= a <= b -> b <= zlen l -> zlen (zslice l a b) = b - a.
Proof. intros Ha Hb. unfold zslice. rewrite zlen_zfirstn, zlen_zskipn. lia. Qed.

Theorem rows_of_a_block (l : list A) (a b : Z) :
  0 <= a <= b -> b <= zlen l ->
  zslice (flat_map f l) (a * w) (b * w) = flat_map f (zslice l a b).
Proof.
  intros Ha Hb.
  assert (La : zlen (zslice l a b) = b - a) by (apply zlen_zslice; assumption).
  assert (Lf : zlen (flat_map f l) = w * zlen l) by apply zlen_flat_map_w.
  apply (znth_ext dB).
  - rewrite zlen_zslice by (rewrite ?Lf; nia). rewrite (zlen_flat_map_w (zslice l a b)). rewrite La. lia.
  - intros i Hi. rewrite zlen_zslice in Hi by (rewrite ?Lf; nia).
    rewrite znth_zslice by nia.
    assert (Hi' : 0 <= i < w * (b - a)) by lia.
    rewrite (znth_flat_map_w l (i + a * w)) by nia.
    rewrite (znth_flat_map_w (zslice l a b) i) by (rewrite La; exact Hi').
    rewrite Z.div_add by lia. rewrite Z.mod_add by lia.
    assert (Hq : 0 <= i / w < b - a).
    { split; [apply Z.div_pos; lia|apply Z.div_lt_upper_bound; lia]. }
    rewrite (znth_zslice dA l a b (i / w)) by lia. reflexivity.
Qed.

End Rows.

(* wide masks: a cell is its row of [width] bytes; the block at cell offset off is the byte rows
   [off * width, (off + nfine) * width)  (wmult = width, wdiv = 1) *)
Corollary wide_block_rows (width : Z) (row : Z -> list Z) (cells : list Z) (off nfine : Z) :
  0 < width -> (forall c, zlen (row c) = width) ->
  0 <= off -> 0 <= nfine -> off + nfine <= zlen cells ->
  zslice (flat_map row cells) (off * width) ((off + nfine) * width) = flat_map row (zslice cells off (off + nfine)).
Proof. intros Hw Hr H0 H1 H2. apply (rows_of_a_block row width 0 0 Hw Hr); lia. Qed.

(* bit-packed maps: eight cells per byte; the block at cell offset off (a multiple of 8, as nfine is) is the
   bytes [off / 8, (off + nfine) / 8)  (wmult = 1, wdiv = 8), and unpacking them gives exactly the block's cells *)
Definition unpack8 (b : Z) : list bool := map (Z.testbit b) bits8.

Corollary packed_block_rows (bytes : list Z) (off nfine : Z) :
  0 <= off -> 0 <= nfine -> off mod 8 = 0 -> nfine mod 8 = 0 -> off + nfine <= 8 * zlen bytes ->
  flat_map unpack8 (zslice bytes (off / 8) ((off + nfine) / 8)) =
  zslice (flat_map unpack8 bytes) off (off + nfine).
Proof.
  intros H0 H1 M0 M1 H2.
  assert (E0 : off = off / 8 * 8) by lia.
  assert (E1 : off + nfine = (off + nfine) / 8 * 8) by lia.
  rewrite E0 at 3. rewrite E1 at 2. symmetry.
  apply (rows_of_a_block unpack8 8 0 false); [lia|reflexivity|lia|lia].
Qed.
