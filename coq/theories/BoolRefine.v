(* BoolRefine.v — the block-copy implementation of the boolean map-with-map operators
   (_apply_boolean_map_operation, in place and copying) computes exactly the coverage-scoped
   pixelwise operation: a outside cov(b), f a b inside, coverage union; both forms agree; the
   layout invariant is kept (C11, C04). *)
From HS Require Import Prelude Cov Map Spec Ops Spec2 Params AtFold MapProofs UpdateProofs HistoryProofs
     LayoutProofs AccountProofs OpsProofs RangeProofs BlockFold.

Lemma zlen_map2 {A B C} (f : A -> B -> C) (l1 : list A) (l2 : list B) :
  zlen l1 = zlen l2 -> zlen (map2 f l1 l2) = zlen l1.
Proof.
  revert l2. induction l1 as [|x t IH]; intros l2 H.
  - reflexivity.
  - destruct l2 as [|y u].
    + rewrite zlen_cons, zlen_nil in H. pose proof (zlen_nonneg t). lia.
    + cbn [map2]. rewrite !zlen_cons in *. rewrite IH by lia. reflexivity.
Qed.

Lemma znth_map2 {A B C} (f : A -> B -> C) da db dc (l1 : list A) (l2 : list B) i :
  zlen l1 = zlen l2 -> 0 <= i < zlen l1 -> znth dc (map2 f l1 l2) i = f (znth da l1 i) (znth db l2 i).
Proof.
  revert l2 i. induction l1 as [|x t IH]; intros l2 i H Hi.
  - rewrite zlen_nil in Hi. lia.
  - destruct l2 as [|y u].
    + rewrite zlen_cons, zlen_nil in H. pose proof (zlen_nonneg t). lia.
    + cbn [map2]. rewrite !zlen_cons in *. rewrite !znth_cons. destruct (i =? 0) eqn:E; [reflexivity|]. apply IH; lia.
Qed.

Section BoolRefine.
Variable P : params.
Notation V := (p_V P).
Notation valid := (p_valid P).
Notation dv := (p_dv P).
Notation wf := (wf P).
Notation read := (read V dv).

Variable f : V -> V -> V.
Variables a b : smap V.
Hypothesis Wa : wf a.
Hypothesis Wb : wf b.
Hypothesis Enf : nfine b = nfine a.
Hypothesis Enc : ncov V b = ncov V a.

Notation nf := (nfine a).
Notation new := (new_cov_for V a b).

Lemma nf_pos : 0 < nf.
Proof. exact (wf_nf P a Wa). Qed.

Lemma new_ok_new : new_ok P a new.
Proof.
  split.
  - unfold new_cov_for. apply NoDup_filter. apply NoDup_zrange.
  - intros c Hc. unfold new_cov_for in Hc. apply filter_In in Hc. destruct Hc as [Hr Hb].
    apply In_zrange in Hr. split; [exact Hr|]. destruct (covered V a c); [|reflexivity].
    rewrite andb_false_r in Hb. discriminate.
Qed.

Definition a1 : smap V := reserve V dv a new.

Lemma a1_wf : wf a1.
Proof. apply (reserve_wf P); [exact Wa|exact new_ok_new]. Qed.

Lemma In_new c : In c new <-> 0 <= c < ncov V a /\ covered V a c = false /\ covered V b c = true.
Proof.
  unfold new_cov_for. rewrite filter_In, In_zrange. split.
  - intros [Hr Hb]. split; [exact Hr|]. destruct (covered V a c), (covered V b c); cbn in Hb; try discriminate; split; reflexivity.
  - intros [Hr [Ha Hb]]. split; [exact Hr|]. rewrite Ha, Hb. reflexivity.
Qed.

(* coverage of the result: the union *)
Lemma a1_covered c : 0 <= c < ncov V a -> covered V a1 c = covered V a c || covered V b c.
Proof.
  intros Hc. unfold a1. rewrite (reserve_covered P) by (try exact Wa; try exact new_ok_new; exact Hc).
  destruct (existsb (Z.eqb c) new) eqn:E.
  - apply existsb_eqb_In in E. apply In_new in E. destruct E as [_ [Ha Hb]]. rewrite Ha, Hb. reflexivity.
  - destruct (covered V a c) eqn:Ha; [reflexivity|]. cbn [orb].
    destruct (covered V b c) eqn:Hb; [|reflexivity].
    assert (existsb (Z.eqb c) new = true); [|congruence].
    apply existsb_eqb_In. apply In_new. tauto.
Qed.

Lemma a1_read q : 0 <= q < npix V a -> read a1 q = read a q.
Proof. intros Hq. apply (reserve_read P); [exact Wa|exact new_ok_new|exact Hq]. Qed.

Lemma a1_ncov : ncov V a1 = ncov V a.
Proof. apply (ncov_reserve P). Qed.

Lemma run_good c : In c (run_pixels V b) -> good P a1 c.
Proof.
  intros Hc. unfold run_pixels in Hc. apply (In_covered_pixels P) in Hc. destruct Hc as [Hr Hcov].
  rewrite Enc in Hr. split; [rewrite a1_ncov; exact Hr|]. rewrite a1_covered by exact Hr. rewrite Hcov. apply orb_true_r.
Qed.

Lemma run_NoDup : NoDup (run_pixels V b).
Proof. unfold run_pixels, covered_pixels. apply NoDup_filter. apply NoDup_zrange. Qed.

(* the block of b for a coverage pixel in range: nf cells, cell j = read b (c*nf + j) *)
Definition bblk (c : Z) : list V := zslice (sp b) (off V b c) (off V b c + nf).

Lemma bblk_len c : 0 <= c < ncov V a -> zlen (bblk c) = nf.
Proof.
  intros Hc. pose proof nf_pos. rewrite <- Enc in Hc. unfold bblk, zslice. rewrite zlen_zfirstn, zlen_zskipn.
  destruct (wf_off P b Wb c Hc) as [H0|[H1 [H2 _]]]; rewrite ?Enf in *.
  - pose proof (wf_len_ge P b Wb). rewrite Enf in *. lia.
  - lia.
Qed.

Lemma bblk_read c j : 0 <= c < ncov V a -> 0 <= j < nf -> znth dv (bblk c) j = read b (c * nf + j).
Proof.
  intros Hc Hj. pose proof nf_pos as Hn. rewrite <- Enc in Hc.
  assert (Hoff : 0 <= off V b c /\ off V b c + nf <= zlen (sp b)).
  { destruct (wf_off P b Wb c Hc) as [H0|[H1 [H2 _]]]; rewrite ?Enf in *; [|lia].
    pose proof (wf_len_ge P b Wb). rewrite Enf in *. lia. }
  unfold bblk, zslice. rewrite znth_zfirstn. destruct (j <? off V b c + nf - off V b c) eqn:E; [|lia].
  rewrite znth_zskipn by lia. unfold Map.read. rewrite (cell_eq P) by (rewrite Enf; exact Hn). rewrite Enf.
  replace ((c * nf + j) / nf) with c.
  - replace ((c * nf + j) mod nf) with j; [f_equal; lia|].
    symmetry. rewrite Z.add_comm, Z.mod_add by lia. apply Z.mod_small. lia.
  - symmetry. rewrite Z.add_comm, Z.div_add by lia. rewrite Z.div_small by lia. lia.
Qed.

(* ---- common consequence of fold_blocks_spec for a fold over the covered pixels of b ---- *)
Section Common.
Variable g : Z -> list V -> list V.
Hypothesis g_len : forall c l, good P a1 c -> zlen l = nfine a1 -> zlen (g c l) = nfine a1.
(* the value the new block of c has at position j, as a function of the ORIGINAL storage of a1 *)
Hypothesis g_val : forall c j, In c (run_pixels V b) -> 0 <= j < nf ->
  znth dv (g c (blk P a1 (sp a1) c)) j = f (read a (c * nf + j)) (read b (c * nf + j)).

Variable t0 : list V.
Hypothesis t0_eq : t0 = sp a1.

Definition result : smap V :=
  mkmap nf (idx a1) (fold_left (step_block P a1 g) (run_pixels V b) t0) (blank a) None.

Lemma result_facts :
  zlen (sp result) = zlen (sp a1) /\
  forall i,
    (forall c, In c (run_pixels V b) -> off V a1 c <= i < off V a1 c + nf ->
               znth dv (sp result) i = znth dv (g c (blk P a1 (sp a1) c)) (i - off V a1 c)) /\
    ((forall c, In c (run_pixels V b) -> ~ (off V a1 c <= i < off V a1 c + nf)) ->
     znth dv (sp result) i = znth dv (sp a1) i).
Proof.
  unfold result; cbn [sp]. subst t0.
  apply (fold_blocks_spec P a1 a1_wf g g_len (run_pixels V b) (sp a1) run_NoDup).
  - intros c Hc. apply run_good. exact Hc.
  - reflexivity.
  - intros c Hc i Hi. reflexivity.
Qed.

Theorem result_wf : wf result.
Proof.
  destruct result_facts as [L S]. pose proof nf_pos as Hn.
  apply (wf_transfer P P a1); try reflexivity.
  - exact a1_wf.
  - exact L.
  - intros i Hi. cbn [blank result]. destruct (S i) as [_ S2]. rewrite S2.
    + change (blank a) with (blank a1). apply (wf_over P a1 a1_wf). exact Hi.
    + intros c Hc Hin. destruct (good_block P a1 a1_wf c (run_good c Hc)) as [A _].
      change (nfine a1) with nf in *. lia.
  - exact (wf_blank P a Wa).
Qed.

Theorem result_read p :
  0 <= p < npix V a ->
  read result p = if covered V b (p / nf) then f (read a p) (read b p) else read a p.
Proof.
  intros Hp. destruct result_facts as [L S]. pose proof nf_pos as Hn.
  assert (Hc : 0 <= p / nf < ncov V a) by (apply (covpix_range P); [exact Hn|exact Hp]).
  pose proof (Z.mod_pos_bound p nf Hn) as Hm.
  assert (Hp1 : 0 <= p < npix V a1) by (unfold a1; rewrite (npix_reserve P); exact Hp).
  unfold Map.read at 1. unfold Map.cell. cbn [nfine idx result].
  change (p + znth 0 (idx a1) (p / nf)) with (cell V a1 p).
  pose proof (cell_eq P a1 p Hn) as Ecell. change (nfine a1) with nf in Ecell.
  destruct (S (cell V a1 p)) as [S1 S2].
  destruct (covered V b (p / nf)) eqn:Hcb.
  - assert (Hin : In (p / nf) (run_pixels V b)).
    { unfold run_pixels. apply (In_covered_pixels P). rewrite Enc. split; [exact Hc|exact Hcb]. }
    rewrite (S1 (p / nf) Hin) by lia.
    replace (cell V a1 p - off V a1 (p / nf)) with (p mod nf) by lia.
    rewrite g_val by assumption.
    replace (p / nf * nf + p mod nf) with p by (pose proof (Z.div_mod p nf); lia). reflexivity.
  - rewrite S2.
    + change (znth dv (sp a1) (cell V a1 p)) with (read a1 p). apply a1_read. exact Hp.
    + intros c Hcr Hin.
      assert (Gc : good P a1 c) by (apply run_good; exact Hcr).
      destruct (covered V a1 (p / nf)) eqn:Hca1.
      * assert (Gp : good P a1 (p / nf)) by (split; [rewrite a1_ncov; exact Hc|exact Hca1]).
        assert (Hne : p / nf <> c).
        { intro E. subst c. unfold run_pixels in Hcr. apply (In_covered_pixels P) in Hcr. destruct Hcr as [_ Hcr]. congruence. }
        apply (blocks_disjoint P a1 a1_wf (p / nf) c (cell V a1 p) Gp Gc Hne); [change (nfine a1) with nf; lia|exact Hin].
      * destruct (cell_uncovered P a1 p a1_wf Hp1 Hca1) as [_ B].
        destruct (good_block P a1 a1_wf c Gc) as [A _]. change (nfine a1) with nf in *. lia.
Qed.

Theorem result_covered c :
  0 <= c < ncov V a -> covered V result c = covered V a c || covered V b c.
Proof. intros Hc. change (covered V result c) with (covered V a1 c). apply a1_covered. exact Hc. Qed.

End Common.

(* ---- in place: each block is combined with b's block where it lies in the grown storage ---- *)
Definition g_inplace (c : Z) (l : list V) : list V := map2 f l (bblk c).

Lemma inplace_is_fold :
  bool_map_op_inplace V dv f a b = result g_inplace (sp a1).
Proof. reflexivity. Qed.

Lemma g_inplace_len c l : good P a1 c -> zlen l = nfine a1 -> zlen (g_inplace c l) = nfine a1.
Proof.
  intros [Hc _] Hl. rewrite a1_ncov in Hc. unfold g_inplace. rewrite zlen_map2; [exact Hl|].
  rewrite bblk_len by exact Hc. exact Hl.
Qed.

Lemma g_inplace_val c j : In c (run_pixels V b) -> 0 <= j < nf ->
  znth dv (g_inplace c (blk P a1 (sp a1) c)) j = f (read a (c * nf + j)) (read b (c * nf + j)).
Proof.
  intros Hc Hj. pose proof nf_pos as Hn. pose proof (run_good c Hc) as G.
  assert (Hr : 0 <= c < ncov V a) by (destruct G as [G _]; rewrite a1_ncov in G; exact G).
  unfold g_inplace.
  rewrite (znth_map2 f dv dv dv).
  - rewrite (znth_blk P a1 a1_wf) by (try exact G; try reflexivity; exact Hj).
    rewrite bblk_read by assumption. f_equal.
    assert (Hp : 0 <= c * nf + j < npix V a) by (unfold Map.npix; nia).
    rewrite <- a1_read by exact Hp. unfold Map.read. rewrite (cell_eq P) by exact Hn.
    change (nfine a1) with nf.
    replace ((c * nf + j) / nf) with c by (symmetry; rewrite Z.add_comm, Z.div_add by lia; rewrite Z.div_small by lia; lia).
    replace ((c * nf + j) mod nf) with j by (symmetry; rewrite Z.add_comm, Z.mod_add by lia; apply Z.mod_small; lia).
    reflexivity.
  - rewrite (zlen_blk P a1 a1_wf) by (try exact G; reflexivity). rewrite bblk_len by exact Hr. reflexivity.
  - rewrite (zlen_blk P a1 a1_wf) by (try exact G; reflexivity). exact Hj.
Qed.

Theorem inplace_wf : wf (bool_map_op_inplace V dv f a b).
Proof. rewrite inplace_is_fold. exact (result_wf g_inplace g_inplace_len g_inplace_val (sp a1) eq_refl). Qed.

Theorem inplace_read p : 0 <= p < npix V a ->
  read (bool_map_op_inplace V dv f a b) p = if covered V b (p / nf) then f (read a p) (read b p) else read a p.
Proof. intros Hp. rewrite inplace_is_fold. exact (result_read g_inplace g_inplace_len g_inplace_val (sp a1) eq_refl p Hp). Qed.

Theorem inplace_covered c : 0 <= c < ncov V a ->
  covered V (bool_map_op_inplace V dv f a b) c = covered V a c || covered V b c.
Proof. intros Hc. rewrite inplace_is_fold. first [exact (result_covered g_inplace (sp a1) c Hc) | exact (result_covered g_inplace g_inplace_len g_inplace_val (sp a1) eq_refl c Hc)]. Qed.

(* ---- copying: zero buffer with a's storage copied in, then every block of b's covered pixels is
   recomputed from a's ORIGINAL block (the overflow block for newly covered pixels) ---- *)
Definition ablk (c : Z) : list V := zslice (sp a) (off V a c) (off V a c + nf).

Lemma ablk_len c : 0 <= c < ncov V a -> zlen (ablk c) = nf.
Proof.
  intros Hc. pose proof nf_pos. unfold ablk, zslice. rewrite zlen_zfirstn, zlen_zskipn.
  destruct (wf_off P a Wa c Hc) as [H0|[H1 [H2 _]]].
  - pose proof (wf_len_ge P a Wa). lia.
  - lia.
Qed.

Lemma ablk_read c j : 0 <= c < ncov V a -> 0 <= j < nf -> znth dv (ablk c) j = read a (c * nf + j).
Proof.
  intros Hc Hj. pose proof nf_pos as Hn.
  assert (Hoff : 0 <= off V a c /\ off V a c + nf <= zlen (sp a)).
  { destruct (wf_off P a Wa c Hc) as [H0|[H1 [H2 _]]]; [|lia]. pose proof (wf_len_ge P a Wa). lia. }
  unfold ablk, zslice. rewrite znth_zfirstn. destruct (j <? off V a c + nf - off V a c) eqn:E; [|lia].
  rewrite znth_zskipn by lia. unfold Map.read. rewrite (cell_eq P) by exact Hn.
  replace ((c * nf + j) / nf) with c.
  - replace ((c * nf + j) mod nf) with j; [f_equal; lia|].
    symmetry. rewrite Z.add_comm, Z.mod_add by lia. apply Z.mod_small. lia.
  - symmetry. rewrite Z.add_comm, Z.div_add by lia. rewrite Z.div_small by lia. lia.
Qed.

Definition g_copy (c : Z) (l : list V) : list V := map2 f (ablk c) (bblk c).

Lemma g_copy_len c l : good P a1 c -> zlen l = nfine a1 -> zlen (g_copy c l) = nfine a1.
Proof.
  intros [Hc _] Hl. rewrite a1_ncov in Hc. unfold g_copy. rewrite zlen_map2.
  - apply ablk_len. exact Hc.
  - rewrite ablk_len, bblk_len by exact Hc. reflexivity.
Qed.

Lemma g_copy_val c j : In c (run_pixels V b) -> 0 <= j < nf ->
  znth dv (g_copy c (blk P a1 (sp a1) c)) j = f (read a (c * nf + j)) (read b (c * nf + j)).
Proof.
  intros Hc Hj. pose proof (run_good c Hc) as G.
  assert (Hr : 0 <= c < ncov V a) by (destruct G as [G _]; rewrite a1_ncov in G; exact G).
  unfold g_copy. rewrite (znth_map2 f dv dv dv).
  - rewrite ablk_read, bblk_read by assumption. reflexivity.
  - rewrite ablk_len, bblk_len by exact Hr. reflexivity.
  - rewrite ablk_len by exact Hr. exact Hj.
Qed.

Variable vfalse : V.
Hypothesis Hvf : vfalse = blank a.

Lemma ncomb_eq :
  zcount (fun c => covered V a c || covered V b c) (zrange 0 (ncov V a)) = ncovered V a + zlen new.
Proof.
  rewrite <- (ncovered_reserve P a new Wa new_ok_new). unfold Map.ncovered. fold a1. rewrite a1_ncov.
  apply zcount_ext. intros c Hc. apply In_zrange in Hc. symmetry. apply a1_covered. exact Hc.
Qed.

Lemma copy_is_fold :
  bool_map_op_copy V vfalse f a b = result g_copy (sp a1).
Proof.
  unfold bool_map_op_copy, result. f_equal. f_equal.
  unfold a1, Map.reserve. cbn [sp]. f_equal.
  rewrite ncomb_eq. rewrite (wf_over P a Wa 0) by (pose proof nf_pos; lia). rewrite Hvf.
  f_equal. rewrite (wf_len P a Wa). lia.
Qed.

Theorem copy_wf : wf (bool_map_op_copy V vfalse f a b).
Proof. rewrite copy_is_fold. exact (result_wf g_copy g_copy_len g_copy_val (sp a1) eq_refl). Qed.

Theorem copy_read p : 0 <= p < npix V a ->
  read (bool_map_op_copy V vfalse f a b) p = if covered V b (p / nf) then f (read a p) (read b p) else read a p.
Proof. intros Hp. rewrite copy_is_fold. exact (result_read g_copy g_copy_len g_copy_val (sp a1) eq_refl p Hp). Qed.

Theorem copy_covered c : 0 <= c < ncov V a ->
  covered V (bool_map_op_copy V vfalse f a b) c = covered V a c || covered V b c.
Proof. intros Hc. rewrite copy_is_fold. exact (result_covered g_copy (sp a1) c Hc). Qed.

(* the in-place form yields the same map, pixel for pixel, as the copying form *)
Theorem inplace_eq_copy p : 0 <= p < npix V a ->
  read (bool_map_op_inplace V dv f a b) p = read (bool_map_op_copy V vfalse f a b) p.
Proof. intros Hp. rewrite inplace_read, copy_read by exact Hp. reflexivity. Qed.

End BoolRefine.
