(* PackedCopy.v — byte-level model of _PackedBoolArray.copy and _PackedBoolArray.resize (model only;
   proofs in PackedCopyProofs.v).
   copy: the byte buffer of the view is duplicated and the padding of the first and of the last byte (the
   bits of those bytes outside the view) is cleared, by unpacking the byte, masking and packing it again.
   resize: the buffer is enlarged to ceil((newsize + start) / 8) bytes, new bytes zero (ndarray.resize, or
   the zero-filled fallback buffer when the array does not own its data); the logical stop index moves. *)
From HS Require Import Prelude Packed.

(* np.packbits of the unpacked byte after masking everything outside bits [lo, hi) *)
Definition mask_byte (lo hi b : Z) : Z :=
  pack8 (map (fun k => if (lo <=? k) && (k <? hi) then Z.testbit b k else false) bits8).

(* the case analysis of _extract_first_middle_last(mask_extra=True) as copy() uses it *)
Definition copy_view (v : pview) (data : list Z) : list Z :=
  let nd := vndata v in let si := vsi v in let st := vst v in
  if (si =? 0) && (st =? nd * 8) then data
  else if si =? 0 then zupd data (nd - 1) (mask_byte 0 (st mod 8) (znth 0 data (nd - 1)))
  else
    let b0 := if negb (st =? nd * 8) && (nd =? 1) then mask_byte si st (znth 0 data 0)
              else mask_byte si 8 (znth 0 data 0) in
    let d1 := zupd data 0 b0 in
    if (st =? nd * 8) || (nd =? 1) then d1
    else zupd d1 (nd - 1) (mask_byte 0 (st mod 8) (znth 0 data (nd - 1))).

(* None = ValueError (shrinking) *)
Definition resize_view (v : pview) (data : list Z) (newsize : Z) : option (pview * list Z) :=
  if newsize <? vsize v then None
  else if newsize =? vsize v then Some (v, data)
  else
    let tot := newsize + vsi v in
    let nsd := tot / 8 + (if tot mod 8 =? 0 then 0 else 1) in
    Some (mkview (vds v) (vds v + nsd) (vsi v) tot,
          zfirstn nsd data ++ repeat 0 (Z.to_nat (nsd - zlen data))).
