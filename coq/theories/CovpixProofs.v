(* CovpixProofs.v — the per-coverage-pixel interfaces of C02: valid_pixels_single_covpix lists exactly
   the valid pixels of the coverage pixel (the dense specification's list, in the same order), for any
   block order; get_single_covpix_map is the restriction of the map to that coverage pixel. *)
From HS Require Import Prelude Cov Map Spec Ops Spec2 Params AtFold MapProofs UpdateProofs HistoryProofs
     LayoutProofs AccountProofs OpsProofs FracdetProofs RangeProofs RangeRefine PartialProofs AbsRefine.

Section Covpix.
Variable P : params.
Notation V := (p_V P).
Notation valid := (p_valid P).
Notation dv := (p_dv P).
Notation wf := (wf P).
Notation read := (read V dv).
Notation abs := (abs V dv).

Lemma filter_map_comm {A B} (g : A -> B) (f : B -> bool) (l : list A) :
  filter f (map g l) = map g (filter (fun x => f (g x)) l).
Proof.
  induction l as [|x r IH]; cbn [map filter]; [reflexivity|].
  destruct (f (g x)); cbn [map]; rewrite IH; reflexivity.
Qed.

Lemma filter_ext_in' {A} (f g : A -> bool) (l : list A) :
  (forall x, In x l -> f x = g x) -> filter f l = filter g l.
Proof.
  induction l as [|x r IH]; intros H; cbn [filter]; [reflexivity|].
  rewrite (H x (or_introl eq_refl)), IH; [reflexivity|]. intros y Hy. apply H. right; exact Hy.
Qed.

(* valid_pixels_single_covpix(c): never raises on a well-formed map and returns exactly the valid pixels
   of coverage pixel c, in ascending order *)
Theorem valid_pixels_covpix_spec (m : smap V) (c : Z) :
  wf m -> 0 <= c < ncov V m ->
  valid_pixels_covpix V valid dv m c = Some (d_valid_pixels_covpix V valid dv (abs m) c).
Proof.
  intros W Hc. pose proof (wf_nf P m W) as Hnf. pose proof (npix_nonneg P m W) as Hnp.
  assert (Hrange : forall k, 0 <= k < nfine m -> 0 <= c * nfine m + k < npix V m).
  { intros k Hk. unfold Map.npix. nia. }
  assert (Hdiv : forall k, 0 <= k < nfine m -> (c * nfine m + k) / nfine m = c).
  { intros k Hk. rewrite Z.add_comm, Z.div_add by lia. rewrite Z.div_small by lia. lia. }
  unfold d_valid_pixels_covpix. unfold Spec.abs at 2 3. cbn [d_nfine].
  rewrite (zrange_shift (c * nfine m) ((c + 1) * nfine m)).
  replace ((c + 1) * nfine m - c * nfine m) with (nfine m) by lia.
  rewrite filter_map_comm.
  unfold valid_pixels_covpix.
  destruct (covered V m c) eqn:Hcov.
  - destruct (block_of_covered P m c W Hc Hcov) as [Hb Eoff].
    unfold cov_pixels_from_index, cov_pixels_from_index_with, py_get. fold (b2c P m).
    rewrite (zlen_b2c P).
    destruct (off V m c / nfine m - 1 <? 0) eqn:E1; [lia|].
    destruct ((0 <=? off V m c / nfine m - 1) && (off V m c / nfine m - 1 <? ncovered V m)) eqn:E2; [|lia].
    rewrite (b2c_inverts P m c W Hc Hcov).
    f_equal.
    assert (Eidx : off V m c = znth 0 (idx m) c + c * nfine m) by (unfold Map.off, cov_off; lia).
    rewrite (filter_ext_in' (fun k => valid (znth dv (sp m) (off V m c + k)))
                            (fun x => valid (d_read V dv (abs m) (c * nfine m + x)))).
    + apply map_ext. intros k. lia.
    + intros k Hk. apply In_zrange in Hk.
      rewrite (d_read_abs' P) by (apply Hrange; lia).
      unfold Map.read. f_equal. f_equal.
      rewrite (cell_eq P) by exact Hnf. rewrite Hdiv by lia.
      replace ((c * nfine m + k) mod nfine m) with k; [reflexivity|].
      rewrite (Z.add_comm (c * nfine m) k), Z.mod_add by lia. symmetry. apply Z.mod_small. lia.
  - f_equal. symmetry.
    rewrite (filter_ext_in' _ (fun _ => false)).
    + induction (zrange 0 (nfine m)) as [|x r IH]; [reflexivity|exact IH].
    + intros k Hk. apply In_zrange in Hk.
      rewrite (d_read_abs' P) by (apply Hrange; lia).
      rewrite (read_uncovered P m _ W) by (try (apply Hrange; lia); rewrite Hdiv by lia; exact Hcov).
      exact (wf_blank P m W).
Qed.

Lemma filter_comm {A} (f g : A -> bool) (l : list A) : filter g (filter f l) = filter f (filter g l).
Proof.
  induction l as [|x r IH]; cbn [filter]; [reflexivity|].
  destruct (f x) eqn:Ef; destruct (g x) eqn:Eg; cbn [filter]; rewrite ?Ef, ?Eg, IH; reflexivity.
Qed.

(* get_single_covpix_map(c) on a covered coverage pixel: the partial read of that one pixel *)
Lemma single_covpix_is_partial (m : smap V) (c : Z) :
  wf m -> 0 <= c < ncov V m -> covered V m c = true ->
  read_partial V m [c] = Some (single_covpix V m c).
Proof.
  intros W Hc Hcov. unfold read_partial.
  assert (E : filter (fun c0 => existsb (Z.eqb c0) [c]) (covered_pixels (nfine m) (idx m)) = [c]).
  { unfold covered_pixels. rewrite filter_comm.
    rewrite (filter_ext_in' (fun c0 => existsb (Z.eqb c0) [c]) (fun p => p =? c))
      by (intros x _; cbn [existsb]; apply orb_false_r).
    rewrite (RangeRefine.filter_eq_zrange c 0 (zlen (idx m))).
    unfold RangeRefine.hitpix. cbn [fst snd]. unfold Map.ncov in Hc.
    destruct ((0 <=? c) && (c <? zlen (idx m))) eqn:E; [|lia].
    cbn [filter]. change (cov_covered (nfine m) (idx m) c) with (covered V m c). rewrite Hcov. reflexivity. }
  rewrite E. unfold single_covpix. cbn [flat_map]. rewrite app_nil_r. reflexivity.
Qed.

(* so: well formed, every pixel of coverage pixel c reads as in m, every other pixel reads blank, and the
   coverage mask is {c} *)
Theorem single_covpix_spec (m : smap V) (c : Z) :
  wf m -> 0 <= c < ncov V m -> covered V m c = true ->
  wf (single_covpix V m c) /\
  abs (single_covpix V m c) = d_single_covpix V dv (abs m) c.
Proof.
  intros W Hc Hcov. pose proof (wf_nf P m W) as Hnf. pose proof (npix_nonneg P m W) as Hnp.
  destruct (read_partial_spec P m (single_covpix V m c) [c] W (single_covpix_is_partial m c W Hc Hcov))
    as [W' [Np [R C]]].
  split; [exact W'|].
  unfold d_single_covpix.
  change (abs (single_covpix V m c)) with
    (mkd (nfine m) (map (read (single_covpix V m c)) (zrange 0 (npix V (single_covpix V m c))))
         (coverage_mask (nfine m) (idx (single_covpix V m c))) (blank m)).
  assert (Ecov : znth false (dcov (abs m)) c = true).
  { unfold Spec.abs. cbn [dcov]. rewrite (znth_coverage_mask P) by exact Hc. exact Hcov. }
  f_equal.
  - rewrite Np, (d_npix_abs P m W).
    apply map_ext_in. intros p Hp. apply In_zrange in Hp.
    rewrite (R p Hp), Ecov, andb_true_r. unfold Spec.abs at 1 2. cbn [d_nfine d_blank].
    rewrite (d_read_abs' P) by exact Hp.
    assert (Hpc : 0 <= p / nfine m < ncov V m) by (apply (covpix_range P); assumption).
    cbn [existsb]. rewrite orb_false_r.
    destruct (p / nfine m =? c) eqn:E.
    + assert (Eq : p / nfine m = c) by lia. rewrite Eq, Hcov. cbn [andb].
      destruct ((c * nfine m <=? p) && (p <? (c + 1) * nfine m)) eqn:E2; [reflexivity|].
      exfalso. pose proof (Z.div_mod p (nfine m) ltac:(lia)). pose proof (Z.mod_pos_bound p (nfine m) Hnf). nia.
    + rewrite andb_false_r.
      destruct ((c * nfine m <=? p) && (p <? (c + 1) * nfine m)) eqn:E2; [|reflexivity].
      exfalso. assert (p / nfine m = c); [|lia].
      symmetry. apply Z.div_unique with (p - c * nfine m); lia.
  - rewrite (d_ncov_abs P).
    unfold coverage_mask.
    assert (En : zlen (idx (single_covpix V m c)) = ncov V m).
    { unfold Map.npix in Np. change (nfine (single_covpix V m c)) with (nfine m) in Np.
      change (zlen (idx (single_covpix V m c))) with (ncov V (single_covpix V m c)). nia. }
    rewrite En. apply map_ext_in. intros c' Hc'. apply In_zrange in Hc'.
    change (cov_covered (nfine m) (idx (single_covpix V m c)) c') with (covered V (single_covpix V m c) c').
    rewrite (C c' Hc'), Ecov, andb_true_r. cbn [existsb]. rewrite orb_false_r.
    destruct (c' =? c) eqn:E; [|apply andb_false_r].
    assert (c' = c) by lia. subst c'. rewrite Hcov. reflexivity.
Qed.

End Covpix.
