(* HistoryProofs.v — make_empty establishes the invariant; every history of updates from an
   empty map refines the dense history (C01) and keeps the layout invariant (C04). *)
From HS Require Import Prelude Cov Map Spec Params AtFold MapProofs UpdateProofs.

Lemma zupd_out {A} (l : list A) i v : i < 0 \/ zlen l <= i -> zupd l i v = l.
Proof.
  revert i; induction l as [|x t IH]; intros i H; cbn [zupd]; [reflexivity|].
  rewrite zlen_cons in H. pose proof (zlen_nonneg t).
  destruct (i =? 0) eqn:E; [lia|]. f_equal. apply IH. lia.
Qed.

Lemma zcount_false {A} (f : A -> bool) l : (forall x, In x l -> f x = false) -> zcount f l = 0.
Proof.
  induction l as [|x t IH]; intros H; [reflexivity|].
  rewrite zcount_cons, IH by (intros y Hy; apply H; right; exact Hy).
  rewrite (H x (or_introl eq_refl)). reflexivity.
Qed.

Lemma znth_cov_make_empty n nf c : 0 <= c < n -> znth 0 (cov_make_empty n nf) c = - (c * nf).
Proof.
  intros H. unfold cov_make_empty.
  rewrite (znth_map _ 0) by (rewrite zlen_zrange; lia). rewrite znth_zrange by lia. f_equal; lia.
Qed.

Lemma zlen_cov_make_empty n nf : 0 <= n -> zlen (cov_make_empty n nf) = n.
Proof. intros H. unfold cov_make_empty. rewrite zlen_map, zlen_zrange. lia. Qed.

(* initialize_pixels on the empty index is append_pixels with size = nfine *)
Lemma init_is_append nf n idx ps j :
  0 <= n -> zlen idx = n ->
  init_pixels_from nf (cov_make_empty n nf) idx ps j = append_from nf nf idx ps j.
Proof.
  intros Hn. revert idx j; induction ps as [|p r IH]; intros idx j Hl; cbn [init_pixels_from append_from]; [reflexivity|].
  destruct (Z_lt_dec p 0) as [Hneg|Hpos].
  - rewrite !zupd_out by lia. apply IH; exact Hl.
  - destruct (Z_le_dec n p) as [Hbig|Hsmall].
    + rewrite !zupd_out by lia. apply IH; exact Hl.
    + rewrite znth_cov_make_empty by lia.
      replace (- (p * nf) + (j + 1) * nf) with (j * nf + nf - p * nf) by lia.
      apply IH. rewrite zlen_zupd. exact Hl.
Qed.

Section HistoryProofs.
Variable P : params.
Notation V := (p_V P).
Notation valid := (p_valid P).
Notation dv := (p_dv P).
Notation smap := (smap V).
Notation ncov := (ncov V).
Notation npix := (npix V).
Notation covered := (covered V).
Notation off := (off V).
Notation ncovered := (ncovered V).
Notation read := (read V dv).
Notation make_empty := (make_empty V).
Notation reserve := (reserve V dv).
Notation wf := (wf P).
Notation update := (update V dv (p_vadd P) (p_vor P) (p_vand P) (p_vzero P) (p_is_sent P) (p_sent_nonzero P)).
Notation d_update := (d_update V dv (p_vadd P) (p_vor P) (p_vand P) (p_vzero P) (p_is_sent P) (p_sent_nonzero P)).
Notation abs := (abs V dv).
Notation pt := (pt P).
Notation vals_at := (vals_at V).

Lemma off_empty n nf bl c : 0 <= c < n -> off (make_empty n nf bl None) c = 0.
Proof.
  intros H. unfold Map.off, cov_off, Map.make_empty. cbn [nfine idx].
  rewrite znth_cov_make_empty by exact H. lia.
Qed.

Lemma make_empty_none_wf n nf bl :
  0 <= n -> 0 < nf -> valid bl = false -> wf (make_empty n nf bl None).
Proof.
  intros Hn Hnf Hb.
  assert (Hnc : ncov (make_empty n nf bl None) = n).
  { unfold Map.ncov, Map.make_empty; cbn [idx]. apply zlen_cov_make_empty; exact Hn. }
  assert (Hk : ncovered (make_empty n nf bl None) = 0).
  { unfold Map.ncovered. apply zcount_false. intros c Hc. apply In_zrange in Hc. rewrite Hnc in Hc.
    apply covered_false_iff. rewrite off_empty by exact Hc. exact Hnf. }
  constructor.
  - exact Hnf.
  - rewrite Hk. unfold Map.make_empty; cbn [sp nfine]. rewrite zlen_zrepeat. lia.
  - intros i Hi. unfold Map.make_empty in *; cbn [sp nfine blank] in *. rewrite znth_zrepeat.
    destruct ((0 <=? i) && (i <? nf)) eqn:E; [reflexivity|lia].
  - exact Hb.
  - intros c Hc. rewrite Hnc in Hc. left. apply off_empty; exact Hc.
  - intros c1 c2 H1 H2 Hc. rewrite Hnc in H1. apply covered_iff in Hc.
    rewrite off_empty in Hc by exact H1. change (nfine (make_empty n nf bl None)) with nf in Hc. lia.
Qed.

(* make_empty with pre-allocated coverage pixels = reserve on the empty map *)
Lemma make_empty_some n nf bl ps :
  0 <= n -> 0 < nf ->
  make_empty n nf bl (Some ps) = reserve (make_empty n nf bl None) ps.
Proof.
  intros Hn Hnf. unfold Map.make_empty, Map.reserve. cbn [nfine idx sp blank cache].
  f_equal.
  - unfold cov_make_from_pixels, initialize_pixels, append_pixels.
    rewrite (init_is_append nf n) by (try exact Hn; apply zlen_cov_make_empty; exact Hn).
    rewrite zlen_zrepeat. f_equal. lia.
  - rewrite znth_zrepeat. destruct ((0 <=? 0) && (0 <? nf)) eqn:E; [|lia].
    unfold zrepeat. rewrite <- repeat_app. f_equal.
    pose proof (zlen_nonneg ps). rewrite <- Z2Nat.inj_add by nia. f_equal. lia.
Qed.

Definition covpix_ok (n : Z) (cp : option (list Z)) : Prop :=
  match cp with
  | None => True
  | Some ps => NoDup ps /\ forall c, In c ps -> 0 <= c < n
  end.

Theorem make_empty_wf n nf bl cp :
  0 <= n -> 0 < nf -> valid bl = false -> covpix_ok n cp -> wf (make_empty n nf bl cp).
Proof.
  intros Hn Hnf Hb Hcp. destruct cp as [ps|]; [|apply make_empty_none_wf; assumption].
  rewrite make_empty_some by assumption.
  pose proof (make_empty_none_wf n nf bl Hn Hnf Hb) as W0.
  apply reserve_wf; [exact W0|]. destruct Hcp as [ND Hr]. split; [exact ND|].
  intros c Hc.
  assert (Hnc : ncov (make_empty n nf bl None) = n).
  { unfold Map.ncov, Map.make_empty; cbn [idx]. apply zlen_cov_make_empty; exact Hn. }
  rewrite Hnc. split; [apply Hr; exact Hc|].
  apply covered_false_iff. rewrite off_empty by (apply Hr; exact Hc). exact Hnf.
Qed.

Lemma npix_make_empty n nf bl cp : 0 <= n -> npix (make_empty n nf bl cp) = n * nf.
Proof.
  intros Hn. unfold Map.npix, Map.ncov. destruct cp as [ps|]; cbn [Map.make_empty idx nfine].
  - unfold cov_make_from_pixels, initialize_pixels.
    rewrite (init_is_append nf n) by (try exact Hn; apply zlen_cov_make_empty; exact Hn).
    rewrite zlen_append_from, zlen_cov_make_empty by exact Hn. reflexivity.
  - rewrite zlen_cov_make_empty by exact Hn. reflexivity.
Qed.

(* every pixel of a fresh map reads as the blank value *)
Theorem make_empty_read n nf bl cp q :
  0 <= n -> 0 < nf -> valid bl = false -> covpix_ok n cp -> 0 <= q < n * nf ->
  read (make_empty n nf bl cp) q = bl.
Proof.
  intros Hn Hnf Hb Hcp Hq.
  pose proof (make_empty_none_wf n nf bl Hn Hnf Hb) as W0.
  assert (Hnp : npix (make_empty n nf bl None) = n * nf) by (apply npix_make_empty; exact Hn).
  assert (Hnc : ncov (make_empty n nf bl None) = n).
  { unfold Map.ncov, Map.make_empty; cbn [idx]. apply zlen_cov_make_empty; exact Hn. }
  assert (R0 : read (make_empty n nf bl None) q = bl).
  { change bl with (blank (make_empty n nf bl None)) at 2.
    apply (read_uncovered P); [exact W0|rewrite Hnp; exact Hq|].
    apply covered_false_iff. rewrite off_empty; [exact Hnf|].
    assert (Hq' : 0 <= q < npix (make_empty n nf bl None)) by (rewrite Hnp; exact Hq).
    pose proof (covpix_range P (make_empty n nf bl None) q Hnf Hq') as Hr.
    rewrite Hnc in Hr. exact Hr. }
  destruct cp as [ps|]; [|exact R0].
  rewrite make_empty_some by assumption.
  rewrite (reserve_read P); [exact R0|exact W0| |rewrite Hnp; exact Hq].
  destruct Hcp as [ND Hr]. split; [exact ND|]. intros c Hc. rewrite Hnc. split; [apply Hr; exact Hc|].
  apply covered_false_iff. rewrite off_empty by (apply Hr; exact Hc). exact Hnf.
Qed.


(* the fresh map is the fresh dense array *)
Theorem make_empty_refines n nf bl cp :
  0 <= n -> 0 < nf -> valid bl = false -> covpix_ok n cp ->
  abs (make_empty n nf bl cp) = d_make_empty V n nf bl cp.
Proof.
  intros Hn Hnf Hb Hcp.
  pose proof (make_empty_none_wf n nf bl Hn Hnf Hb) as W0.
  assert (Hnc0 : ncov (make_empty n nf bl None) = n).
  { unfold Map.ncov, Map.make_empty; cbn [idx]. apply zlen_cov_make_empty; exact Hn. }
  assert (Hnfine : nfine (make_empty n nf bl cp) = nf) by (destruct cp; reflexivity).
  assert (Hnc : ncov (make_empty n nf bl cp) = n).
  { pose proof (npix_make_empty n nf bl cp Hn) as E. unfold Map.npix in E.
    rewrite Hnfine in E. nia. }
  unfold Spec.abs, Spec.d_make_empty.
  assert (Hblank : blank (make_empty n nf bl cp) = bl) by (destruct cp; reflexivity).
  rewrite Hnfine, Hblank. f_equal.
  - apply (znth_ext dv).
    + rewrite zlen_map, zlen_zrange, zlen_zrepeat, npix_make_empty by exact Hn. lia.
    + intros q Hq. rewrite zlen_map, zlen_zrange, npix_make_empty in Hq by exact Hn.
      rewrite (znth_map _ 0) by (rewrite zlen_zrange, npix_make_empty by exact Hn; lia).
      rewrite znth_zrange by (rewrite npix_make_empty by exact Hn; lia). rewrite Z.add_0_l.
      rewrite make_empty_read by (try assumption; lia).
      rewrite znth_zrepeat. destruct ((0 <=? q) && (q <? n * nf)) eqn:E; [reflexivity|lia].
  - unfold coverage_mask. fold (ncov (make_empty n nf bl cp)). rewrite Hnc.
    apply map_ext_in. intros c Hc. apply In_zrange in Hc.
    destruct cp as [ps|].
    + rewrite make_empty_some by assumption.
      change (cov_covered nf (idx (reserve (make_empty n nf bl None) ps)) c)
        with (covered (reserve (make_empty n nf bl None) ps) c).
      rewrite (reserve_covered P); [| exact W0 | | rewrite Hnc0; exact Hc].
      * assert (covered (make_empty n nf bl None) c = false) as ->; [|reflexivity].
        apply covered_false_iff. rewrite off_empty by exact Hc. exact Hnf.
      * destruct Hcp as [ND Hr]. split; [exact ND|]. intros c' Hc'. rewrite Hnc0. split; [apply Hr; exact Hc'|].
        apply covered_false_iff. rewrite off_empty by (apply Hr; exact Hc'). exact Hnf.
    + change (cov_covered nf (idx (make_empty n nf bl None)) c) with (covered (make_empty n nf bl None) c).
      apply covered_false_iff. rewrite off_empty by exact Hc. exact Hnf.
Qed.

(* ---- histories ---- *)
Record hop := mkhop { h_o : uop; h_pvs : list (Z * V); h_na : bool }.

Definition hstep (m : smap) (h : hop) : smap := update m (h_o h) (h_pvs h) (h_na h).
Definition dstep (d : dmap V) (h : hop) : dmap V := d_update d (h_o h) (h_pvs h) (h_na h).

Definition hops_ok (np : Z) (hs : list hop) : Prop :=
  forall h, In h hs -> forall pv, In pv (h_pvs h) -> 0 <= fst pv < np.

Theorem history_wf_refines hs : forall m,
  wf m -> hops_ok (npix m) hs ->
  wf (fold_left hstep hs m) /\
  npix (fold_left hstep hs m) = npix m /\
  abs (fold_left hstep hs m) = fold_left dstep hs (abs m).
Proof.
  induction hs as [|h r IH]; intros m W H; cbn [fold_left].
  - split; [exact W|]. split; reflexivity.
  - assert (Hok : pvs_ok P m (h_pvs h)) by (intros pv Hpv; apply (H h); [left; reflexivity|exact Hpv]).
    pose proof (update_wf P m (h_o h) (h_pvs h) (h_na h) W Hok) as W1.
    pose proof (npix_update P m (h_o h) (h_pvs h) (h_na h)) as N1.
    destruct (IH (hstep m h)) as [W2 [N2 A2]].
    + exact W1.
    + unfold hstep. rewrite N1. intros h' Hh'. apply H. right; exact Hh'.
    + split; [exact W2|]. split.
      * rewrite N2. exact N1.
      * rewrite A2. unfold hstep, dstep at 2. rewrite (update_refines P) by assumption. reflexivity.
Qed.

(* a pixel that no update of the history addresses still reads as the blank value *)
Lemma update_read_untouched m o pvs na q :
  wf m -> pvs_ok P m pvs -> 0 <= q < npix m ->
  (forall pv, In pv pvs -> fst pv <> q) ->
  read (update m o pvs na) q = read m q.
Proof.
  intros W H Hq Hn. rewrite (update_read P) by assumption.
  rewrite vals_at_none; [apply pt_nil|].
  intros iv Hin. apply Hn. destruct na; [|exact Hin].
  unfold UpdateProofs.incov in Hin. apply filter_In in Hin. apply Hin.
Qed.

Theorem never_written_reads_blank hs : forall m q,
  wf m -> hops_ok (npix m) hs -> 0 <= q < npix m ->
  (forall h, In h hs -> forall pv, In pv (h_pvs h) -> fst pv <> q) ->
  read (fold_left hstep hs m) q = read m q.
Proof.
  induction hs as [|h r IH]; intros m q W H Hq Hn; cbn [fold_left]; [reflexivity|].
  assert (Hok : pvs_ok P m (h_pvs h)) by (intros pv Hpv; apply (H h); [left; reflexivity|exact Hpv]).
  pose proof (npix_update P m (h_o h) (h_pvs h) (h_na h)) as N1.
  rewrite IH.
  - unfold hstep. apply update_read_untouched; try assumption. apply Hn. left; reflexivity.
  - apply update_wf; assumption.
  - unfold hstep. rewrite N1. intros h' Hh'. apply H. right; exact Hh'.
  - unfold hstep. rewrite N1. exact Hq.
  - intros h' Hh'. apply Hn. right; exact Hh'.
Qed.

(* C01, top level: any history from make_empty reads exactly like the dense array *)
Theorem history_from_empty n nf bl cp hs :
  0 <= n -> 0 < nf -> valid bl = false -> covpix_ok n cp -> hops_ok (n * nf) hs ->
  wf (fold_left hstep hs (make_empty n nf bl cp)) /\
  abs (fold_left hstep hs (make_empty n nf bl cp)) = fold_left dstep hs (d_make_empty V n nf bl cp).
Proof.
  intros Hn Hnf Hb Hcp Hh.
  pose proof (make_empty_wf n nf bl cp Hn Hnf Hb Hcp) as W.
  destruct (history_wf_refines hs (make_empty n nf bl cp) W) as [W2 [_ A]].
  - rewrite npix_make_empty by exact Hn. exact Hh.
  - split; [exact W2|]. rewrite A. rewrite make_empty_refines by assumption. reflexivity.
Qed.

End HistoryProofs.
