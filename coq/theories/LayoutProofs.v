(* LayoutProofs.v — the block -> coverage-pixel table inverts the index on every well-formed
   map, and well-formed maps satisfy the published layout predicate [layoutb] (the same boolean
   function the harness evaluates on the implementation's raw arrays).  C04, and the basis of
   C02's valid_pixels. *)
From Coq Require Import Sorting.Sorted.
From HS Require Import Prelude Cov Map Spec Params AtFold MapProofs.

(* ---------- insertion sort by key ---------- *)
Section Sort.
Variable key : Z -> Z.

Lemma In_insert_by x a l : In x (insert_by key a l) <-> x = a \/ In x l.
Proof.
  induction l as [|y t IH]; cbn [insert_by].
  - cbn. intuition.
  - destruct (key a <? key y); cbn [In]; [intuition|]. rewrite IH. intuition.
Qed.

Lemma In_sort_by x l : In x (sort_by key l) <-> In x l.
Proof.
  induction l as [|y t IH]; cbn [sort_by fold_right]; [reflexivity|].
  fold (sort_by key t). rewrite In_insert_by, IH. cbn. intuition.
Qed.

Lemma zlen_insert_by a l : zlen (insert_by key a l) = zlen l + 1.
Proof.
  induction l as [|y t IH]; cbn [insert_by]; [reflexivity|].
  destruct (key a <? key y); rewrite !zlen_cons; [reflexivity|]. rewrite IH. reflexivity.
Qed.

Lemma zlen_sort_by l : zlen (sort_by key l) = zlen l.
Proof.
  induction l as [|y t IH]; cbn [sort_by fold_right]; [reflexivity|].
  fold (sort_by key t). rewrite zlen_insert_by, IH, zlen_cons. reflexivity.
Qed.

Definition klt (a b : Z) : Prop := key a < key b.

Lemma insert_by_sorted a l :
  StronglySorted klt l -> (forall y, In y l -> key a <> key y) ->
  StronglySorted klt (insert_by key a l).
Proof.
  induction l as [|y t IH]; intros S D; cbn [insert_by].
  - constructor; constructor.
  - inversion S as [|? ? St Fy]; subst.
    destruct (key a <? key y) eqn:E.
    + constructor; [exact S|]. constructor; [unfold klt; lia|].
      rewrite Forall_forall in *. intros z Hz. specialize (Fy z Hz). unfold klt in *. lia.
    + constructor.
      * apply IH; [exact St|]. intros z Hz. apply D. right; exact Hz.
      * rewrite Forall_forall in *. intros z Hz. apply (proj1 (In_insert_by z a t)) in Hz. destruct Hz as [->|Hz].
        -- specialize (D y (or_introl eq_refl)). unfold klt. lia.
        -- apply Fy; exact Hz.
Qed.

Lemma sort_by_sorted l :
  NoDup l -> (forall x y, In x l -> In y l -> key x = key y -> x = y) ->
  StronglySorted klt (sort_by key l).
Proof.
  induction l as [|a t IH]; intros ND Inj; cbn [sort_by fold_right]; [constructor|].
  fold (sort_by key t). inversion ND as [|? ? Hnin ND']; subst.
  apply insert_by_sorted.
  - apply IH; [exact ND'|]. intros x y Hx Hy. apply Inj; right; assumption.
  - intros y Hy E. apply (proj1 (In_sort_by y t)) in Hy. apply Hnin.
    rewrite (Inj a y); [exact Hy|left; reflexivity|right; exact Hy|exact E].
Qed.

(* a strictly increasing list of integers inside [a, b) is no longer than b - a ... *)
Lemma ss_len l : forall a b,
  StronglySorted klt l -> (forall x, In x l -> a <= key x < b) -> zlen l <= Z.max 0 (b - a).
Proof.
  induction l as [|h t IH]; intros a b S R; [rewrite zlen_nil; lia|].
  rewrite zlen_cons. inversion S as [|? ? St Fh]; subst.
  assert (a <= key h < b) by (apply R; left; reflexivity).
  specialize (IH (key h + 1) b St).
  assert (zlen t <= Z.max 0 (b - (key h + 1))).
  { apply IH. intros x Hx. rewrite Forall_forall in Fh. specialize (Fh x Hx). unfold klt in Fh.
    specialize (R x (or_intror Hx)). lia. }
  lia.
Qed.

(* ... and when it has exactly b - a elements its i-th key is a + i *)
Lemma ss_exact l : forall a b,
  StronglySorted klt l -> (forall x, In x l -> a <= key x < b) -> zlen l = b - a ->
  forall i, 0 <= i < zlen l -> key (znth 0 l i) = a + i.
Proof.
  induction l as [|h t IH]; intros a b S R L i Hi; [rewrite zlen_nil in Hi; lia|].
  rewrite zlen_cons in *. inversion S as [|? ? St Fh]; subst.
  assert (Hh : a <= key h < b) by (apply R; left; reflexivity).
  assert (Rt : forall x, In x t -> key h + 1 <= key x < b).
  { intros x Hx. rewrite Forall_forall in Fh. specialize (Fh x Hx). unfold klt in Fh.
    specialize (R x (or_intror Hx)). lia. }
  pose proof (ss_len t (key h + 1) b St Rt) as Hl.
  pose proof (zlen_nonneg t).
  assert (key h = a) by lia.
  rewrite znth_cons. destruct (i =? 0) eqn:E; [lia|].
  rewrite (IH (a + 1) b St); [lia| |lia|lia].
  intros x Hx. specialize (Rt x Hx). lia.
Qed.

End Sort.

(* ---------- the table inverts the index ---------- *)
Section Layout.
Variable P : params.
Notation V := (p_V P).
Notation valid := (p_valid P).
Notation dv := (p_dv P).
Notation smap := (smap V).
Notation ncov := (ncov V).
Notation npix := (npix V).
Notation covered := (covered V).
Notation off := (off V).
Notation ncovered := (ncovered V).
Notation cell := (cell V).
Notation read := (read V dv).
Notation wf := (wf P).

Definition bkey (m : smap) (c : Z) : Z := off m c / nfine m - 1.
Definition b2c (m : smap) : list Z := block_to_cov (nfine m) (idx m).

Lemma b2c_eq m : b2c m = sort_by (bkey m) (covered_pixels (nfine m) (idx m)).
Proof. reflexivity. Qed.

Lemma In_covered_pixels m c : In c (covered_pixels (nfine m) (idx m)) <-> 0 <= c < ncov m /\ covered m c = true.
Proof. unfold covered_pixels. rewrite filter_In, In_zrange. reflexivity. Qed.

Lemma zlen_covered_pixels m : zlen (covered_pixels (nfine m) (idx m)) = ncovered m.
Proof. reflexivity. Qed.

Lemma In_b2c m c : In c (b2c m) <-> 0 <= c < ncov m /\ covered m c = true.
Proof. rewrite b2c_eq, In_sort_by. apply In_covered_pixels. Qed.

Lemma zlen_b2c m : zlen (b2c m) = ncovered m.
Proof. rewrite b2c_eq, zlen_sort_by. apply zlen_covered_pixels. Qed.

(* the block number of a covered pixel *)
Lemma block_of_covered m c :
  wf m -> 0 <= c < ncov m -> covered m c = true ->
  1 <= off m c / nfine m <= ncovered m /\ off m c = (off m c / nfine m) * nfine m.
Proof.
  intros W Hc Hcov. pose proof (wf_nf P m W) as Hnf. pose proof (wf_len P m W) as Hlen.
  apply covered_iff in Hcov.
  destruct (wf_off P m W c Hc) as [H0|[H1 [H2 H3]]]; [lia|].
  apply Z.mod_divide in H3; [|lia]. destruct H3 as [b Eb]. rewrite Eb.
  rewrite Z.div_mul by lia. split; [|reflexivity]. nia.
Qed.

Lemma bkey_range m c :
  wf m -> In c (b2c m) -> 0 <= bkey m c < ncovered m.
Proof.
  intros W Hin. apply In_b2c in Hin. destruct Hin as [Hc Hcov].
  pose proof (block_of_covered m c W Hc Hcov). unfold bkey. lia.
Qed.

Lemma bkey_inj m x y :
  wf m -> In x (covered_pixels (nfine m) (idx m)) -> In y (covered_pixels (nfine m) (idx m)) ->
  bkey m x = bkey m y -> x = y.
Proof.
  intros W Hx Hy E. apply In_covered_pixels in Hx. apply In_covered_pixels in Hy.
  destruct Hx as [Hxr Hxc]. destruct Hy as [Hyr Hyc].
  destruct (block_of_covered m x W Hxr Hxc) as [_ Ex].
  destruct (block_of_covered m y W Hyr Hyc) as [_ Ey].
  apply (wf_inj P m W); try assumption. unfold bkey in E. rewrite Ex, Ey. f_equal. lia.
Qed.

Lemma b2c_sorted m : wf m -> StronglySorted (klt (bkey m)) (b2c m).
Proof.
  intros W. rewrite b2c_eq. apply sort_by_sorted.
  - unfold covered_pixels. apply NoDup_filter. apply NoDup_zrange.
  - intros x y Hx Hy. apply bkey_inj; assumption.
Qed.

(* the i-th entry of the table is the pixel that owns block i+1 *)
Theorem b2c_key m i :
  wf m -> 0 <= i < ncovered m -> bkey m (znth 0 (b2c m) i) = i.
Proof.
  intros W Hi.
  rewrite (ss_exact (bkey m) (b2c m) 0 (ncovered m)); [lia|apply b2c_sorted; exact W| | |].
  - intros x Hx. apply bkey_range; assumption.
  - rewrite zlen_b2c. lia.
  - rewrite zlen_b2c. exact Hi.
Qed.

Theorem b2c_block m b :
  wf m -> 1 <= b <= ncovered m ->
  let c := znth 0 (b2c m) (b - 1) in
  0 <= c < ncov m /\ covered m c = true /\ off m c = b * nfine m.
Proof.
  intros W Hb c.
  assert (Hin : In c (b2c m)) by (apply znth_In; rewrite zlen_b2c; lia).
  apply In_b2c in Hin. destruct Hin as [Hc Hcov]. split; [exact Hc|]. split; [exact Hcov|].
  pose proof (b2c_key m (b - 1) W) as K. fold c in K. unfold bkey in K.
  destruct (block_of_covered m c W Hc Hcov) as [_ E]. rewrite E. f_equal. lia.
Qed.

Theorem b2c_inverts m c :
  wf m -> 0 <= c < ncov m -> covered m c = true ->
  znth 0 (b2c m) (off m c / nfine m - 1) = c.
Proof.
  intros W Hc Hcov.
  destruct (block_of_covered m c W Hc Hcov) as [Hb E].
  destruct (b2c_block m (off m c / nfine m) W Hb) as [Hc' [Hcov' E']].
  apply (wf_inj P m W); try assumption. rewrite E'. symmetry. exact E.
Qed.

(* ---------- wf implies the published layout predicate ---------- *)
Theorem wf_layoutb m : wf m -> layoutb V valid dv m = true.
Proof.
  intros W. pose proof (wf_nf P m W) as Hnf. pose proof (wf_len P m W) as Hlen.
  pose proof (ncovered_nonneg P m) as Hk.
  unfold Map.layoutb, Map.layoutb_with. fold (b2c m).
  repeat (apply andb_true_iff; split).
  - lia.
  - fold (ncovered m). lia.
  - apply forallb_forall. intros i Hi. apply In_zrange in Hi.
    rewrite (wf_over P m W) by lia. rewrite (wf_blank P m W). reflexivity.
  - apply forallb_forall. intros c Hc. apply In_zrange in Hc. fold (ncov m) in Hc.
    fold (off m c). fold (ncovered m).
    destruct (wf_off P m W c Hc) as [H0|[H1 [H2 H3]]].
    + rewrite H0. reflexivity.
    + apply orb_true_iff. right.
      apply Z.mod_divide in H3; [|lia]. destruct H3 as [b Eb].
      assert (off m c / nfine m = b) as Eq by (rewrite Eb; apply Z.div_mul; lia).
      assert (off m c mod nfine m = 0) as Em by (rewrite Eb; apply Z.mod_mul; lia).
      rewrite Eq, Em. assert (b <= ncovered m) by nia. lia.
  - apply forallb_forall. intros [c1 o1] H1. apply forallb_forall. intros [c2 o2] H2.
    apply in_map_iff in H1. destruct H1 as [c1' [E1 R1]]. apply in_map_iff in H2. destruct H2 as [c2' [E2 R2]].
    inversion E1; subst. inversion E2; subst. cbn [fst snd].
    apply In_zrange in R1. apply In_zrange in R2.
    destruct (c1 =? c2) eqn:Ec; [reflexivity|]. cbn [orb].
    destruct (nfine m <=? Map.off V m c1) eqn:Ecov; [|reflexivity]. cbn [negb orb].
    destruct (Map.off V m c1 =? Map.off V m c2) eqn:Eo; [|reflexivity].
    exfalso. assert (c1 = c2); [|lia].
    apply (wf_inj P m W); try assumption; lia.
  - rewrite zlen_b2c. fold (ncovered m). lia.
  - apply forallb_forall. intros c Hc. apply In_zrange in Hc. fold (ncov m) in Hc.
    destruct (Map.covered V m c) eqn:Ecov; [|reflexivity]. cbn [negb orb].
    fold (off m c).
    destruct (block_of_covered m c W Hc Ecov) as [Hb _].
    pose proof (b2c_inverts m c W Hc Ecov) as Hi.
    assert (znth (-1) (b2c m) (off m c / nfine m - 1) = znth 0 (b2c m) (off m c / nfine m - 1)) as ->.
    { assert (0 <= off m c / nfine m - 1 < zlen (b2c m)) as Hr by (rewrite zlen_b2c; lia).
      destruct (In_znth (-1) (b2c m) _ (znth_In 0 (b2c m) _ Hr)) as [j [Hj Ej]].
      clear - Hr. generalize (off m c / nfine m - 1) Hr. generalize (b2c m).
      induction l as [|x t IH]; intros i Hi; [rewrite zlen_nil in Hi; lia|].
      rewrite zlen_cons in Hi. rewrite !znth_cons. destruct (i =? 0) eqn:E; [reflexivity|]. apply IH. lia. }
    rewrite Hi. lia.
Qed.

End Layout.
