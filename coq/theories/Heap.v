(* Heap.v — a small heap model for C09: maps are OBJECTS holding references to arrays (coverage index,
   storage, metadata) in a heap; a mutation through an object either writes an array the object
   references in place, or rebinds one of the object's references to a freshly allocated array
   (resize / append).  A producer is described by which of the result's references are fresh and which
   are the argument's own (sharing table [prod_shares], compared on every run with the sharing the
   implementation's result actually has: np.shares_memory of the arrays, identity of the metadata).
   Theorem: two objects whose references are disjoint stay independent under every history of
   mutations of either — whatever the mutations write. *)
From HS Require Import Prelude Sharing.

Section Heap.
Variable A : Type.                      (* array contents (opaque) *)

(* an object: its three references *)
Record obj := mkobj { o_cov : Z; o_sp : Z; o_meta : Z }.

Definition locs (o : obj) : list Z := [o_cov o; o_sp o; o_meta o].

(* the heap: contents per location, and the allocation pointer (every location >= next is free) *)
Record heap := mkheap { cells : Z -> A; next : Z }.

Definition live (h : heap) (o : obj) : Prop := forall l, In l (locs o) -> l < next h.

Definition hwrite (h : heap) (l : Z) (a : A) : heap :=
  mkheap (fun k => if k =? l then a else cells h k) (next h).

(* which reference a mutation touches *)
Inductive field := FCov | FSp | FMeta.

Definition get_field (o : obj) (f : field) : Z :=
  match f with FCov => o_cov o | FSp => o_sp o | FMeta => o_meta o end.
Definition set_field (o : obj) (f : field) (l : Z) : obj :=
  match f with
  | FCov => mkobj l (o_sp o) (o_meta o)
  | FSp => mkobj (o_cov o) l (o_meta o)
  | FMeta => mkobj (o_cov o) (o_sp o) l
  end.

(* a mutation through an object: in-place write of one referenced array, or reallocation of one
   reference (the new array gets arbitrary contents computed from the heap) *)
Inductive mut :=
| MWrite (f : field) (g : heap -> A)       (* arr[...] = ... *)
| MRealloc (f : field) (g : heap -> A).    (* self.arr = new array *)

Definition apply_mut (h : heap) (o : obj) (m : mut) : heap * obj :=
  match m with
  | MWrite f g => (hwrite h (get_field o f) (g h), o)
  | MRealloc f g => (mkheap (fun k => if k =? next h then g h else cells h k) (next h + 1),
                     set_field o f (next h))
  end.

Fixpoint apply_muts (h : heap) (o : obj) (ms : list mut) : heap * obj :=
  match ms with
  | [] => (h, o)
  | m :: r => let (h1, o1) := apply_mut h o m in apply_muts h1 o1 r
  end.

(* coverage-index objects are immutable in the implementation (growth copies the object and rebinds the
   map's reference: HealSparseCoverage.append_pixels(copy=True)), so two maps may share one.  A mutation
   is [cov_immutable] when it never writes a coverage object in place; the per-run check verifies this
   of every mutating call (same object afterwards => same contents). *)
Definition cov_immutable (m : mut) : Prop := match m with MWrite FCov _ => False | _ => True end.

(* the mutable references of the two objects are distinct, and no mutable reference of one is the
   coverage reference of the other; the coverage references themselves may coincide *)
Definition mlocs (o : obj) : list Z := [o_sp o; o_meta o].
Definition separate (o1 o2 : obj) : Prop :=
  (forall l, In l (mlocs o1) -> ~ In l (locs o2)) /\ (forall l, In l (mlocs o2) -> ~ In l (locs o1)).

(* what can be observed through an object: the contents of the arrays it references *)
Definition observe (h : heap) (o : obj) : list A := map (cells h) (locs o).

Lemma In_locs_field o f : In (get_field o f) (locs o).
Proof. destruct f; cbn; tauto. Qed.

Lemma separate_sym o1 o2 : separate o1 o2 -> separate o2 o1.
Proof. intros [A1 A2]. split; assumption. Qed.

(* one mutation through o1 leaves everything observed through a separate live o2 untouched, keeps both
   live and separate *)
Lemma mut_frame h o1 o2 m :
  live h o1 -> live h o2 -> separate o1 o2 -> cov_immutable m ->
  let (h', o1') := apply_mut h o1 m in
  live h' o1' /\ live h' o2 /\ separate o1' o2 /\ observe h' o2 = observe h o2.
Proof.
  intros L1 L2 [S1 S2] Hm. destruct m as [f g|f g]; cbn [apply_mut].
  - split; [exact L1|]. split; [exact L2|]. split; [split; assumption|].
    unfold observe. apply map_ext_in. intros l Hl. cbn [hwrite cells].
    destruct (l =? get_field o1 f) eqn:E; [|reflexivity].
    exfalso. assert (l = get_field o1 f) by lia. subst l.
    destruct f; cbn [get_field cov_immutable] in *; [exact Hm| |].
    + apply (S1 (o_sp o1)); [cbn; tauto|exact Hl].
    + apply (S1 (o_meta o1)); [cbn; tauto|exact Hl].
  - assert (Hfresh : forall l, In l (locs o2) -> l <> next h) by (intros l Hl; pose proof (L2 l Hl); lia).
    assert (Hfresh1 : forall l, In l (locs o1) -> l <> next h) by (intros l Hl; pose proof (L1 l Hl); lia).
    split.
    { intros l Hl. cbn [next]. destruct f; cbn in Hl; destruct Hl as [<-|[<-|[<-|[]]]]; cbn [o_cov o_sp o_meta];
        try lia; (match goal with |- ?x < _ => assert (x < next h) by (apply L1; cbn; tauto) end; lia). }
    split.
    { intros l Hl. cbn [next]. pose proof (L2 l Hl). lia. }
    split.
    { split.
      - intros l Hl Hl2. destruct f; cbn in Hl; destruct Hl as [<-|[<-|[]]]; cbn [o_cov o_sp o_meta] in *;
          try (apply (Hfresh _ Hl2); reflexivity);
          try (apply (S1 (o_sp o1)); [cbn; tauto|exact Hl2]);
          try (apply (S1 (o_meta o1)); [cbn; tauto|exact Hl2]).
      - intros l Hl Hl1. destruct f; cbn in Hl1; destruct Hl1 as [<-|[<-|[<-|[]]]]; cbn [o_cov o_sp o_meta] in *;
          try (apply (Hfresh (next h)); [cbn in Hl; cbn; tauto|reflexivity]);
          try (apply (S2 _ Hl); cbn; tauto). }
    unfold observe. apply map_ext_in. intros l Hl. cbn [cells].
    destruct (l =? next h) eqn:E; [|reflexivity].
    exfalso. apply (Hfresh l Hl). lia.
Qed.

(* any history of mutations through o1 *)
Theorem muts_frame (ms : list mut) : forall h o1 o2,
  live h o1 -> live h o2 -> separate o1 o2 -> Forall cov_immutable ms ->
  let (h', o1') := apply_muts h o1 ms in
  live h' o1' /\ live h' o2 /\ separate o1' o2 /\ observe h' o2 = observe h o2.
Proof.
  induction ms as [|m r IH]; intros h o1 o2 L1 L2 D Hm; cbn [apply_muts].
  - split; [exact L1|]. split; [exact L2|]. split; [exact D|reflexivity].
  - inversion Hm as [|? ? Hm1 Hmr]; subst.
    pose proof (mut_frame h o1 o2 m L1 L2 D Hm1) as F.
    destruct (apply_mut h o1 m) as [h1 o1'] eqn:E1.
    destruct F as [L1' [L2' [D' O']]].
    pose proof (IH h1 o1' o2 L1' L2' D' Hmr) as G.
    destruct (apply_muts h1 o1' r) as [h2 o1''].
    destruct G as [A1 [A2 [A3 A4]]].
    split; [exact A1|]. split; [exact A2|]. split; [exact A3|]. rewrite A4. exact O'.
Qed.

(* interleaved histories of mutations of either object.  [true]: the mutation goes through o1. *)
Fixpoint apply_both (h : heap) (o1 o2 : obj) (ms : list (bool * mut)) : heap * obj * obj :=
  match ms with
  | [] => (h, o1, o2)
  | (true, m) :: r => let (h1, o1') := apply_mut h o1 m in apply_both h1 o1' o2 r
  | (false, m) :: r => let (h1, o2') := apply_mut h o2 m in apply_both h1 o1 o2' r
  end.

Theorem independent_histories (ms : list (bool * mut)) : forall h o1 o2,
  live h o1 -> live h o2 -> separate o1 o2 -> Forall (fun bm => cov_immutable (snd bm)) ms ->
  let '(h', o1', o2') := apply_both h o1 o2 ms in
  live h' o1' /\ live h' o2' /\ separate o1' o2'.
Proof.
  induction ms as [|[b m] r IH]; intros h o1 o2 L1 L2 D Hm; cbn [apply_both].
  - split; [exact L1|]. split; [exact L2|exact D].
  - inversion Hm as [|? ? Hm1 Hmr]; subst. cbn [snd] in Hm1. destruct b.
    + pose proof (mut_frame h o1 o2 m L1 L2 D Hm1) as F.
      destruct (apply_mut h o1 m) as [h1 o1'].
      destruct F as [L1' [L2' [D' _]]]. apply IH; assumption.
    + pose proof (mut_frame h o2 o1 m L2 L1 (separate_sym _ _ D) Hm1) as F.
      destruct (apply_mut h o2 m) as [h1 o2'].
      destruct F as [L2' [L1' [D' _]]]. apply IH; try assumption. apply separate_sym. exact D'.
Qed.

(* a step through one side never changes what is observed through the other *)
Theorem other_side_unchanged h o1 o2 m :
  live h o1 -> live h o2 -> separate o1 o2 -> cov_immutable m ->
  observe (fst (apply_mut h o1 m)) o2 = observe h o2.
Proof.
  intros L1 L2 D Hm. pose proof (mut_frame h o1 o2 m L1 L2 D Hm) as F.
  destruct (apply_mut h o1 m) as [h1 o1']. cbn [fst]. apply F.
Qed.

(* ---- producers ---- *)
Definition produce (h : heap) (arg : obj) (s : shares) (ccov csp cmeta : A) : heap * obj :=
  let n := next h in
  let r := mkobj (if s_cov s then o_cov arg else n)
                 (if s_sp s then o_sp arg else n + 1)
                 (if s_meta s then o_meta arg else n + 2) in
  (mkheap (fun k => if (k =? n) && negb (s_cov s) then ccov
                    else if (k =? n + 1) && negb (s_sp s) then csp
                    else if (k =? n + 2) && negb (s_meta s) then cmeta
                    else cells h k) (n + 3), r).

(* a producer without mutable sharing returns an object separate from its argument (and from every
   other live object whose coverage object is not the one handed on), leaves every live object's
   observation unchanged, and keeps everything live *)
Theorem result_is_isolated h arg s ccov csp cmeta :
  live h arg -> o_cov arg <> o_sp arg -> o_cov arg <> o_meta arg -> no_mutable_sharing s = true ->
  let (h', r) := produce h arg s ccov csp cmeta in
  live h' r /\ live h' arg /\ separate r arg /\ observe h' arg = observe h arg.
Proof.
  intros La Hd1 Hd2 Hs. unfold no_mutable_sharing in Hs.
  assert (Ha : forall l, In l (locs arg) -> l < next h) by exact La.
  assert (H1 : o_cov arg < next h) by (apply Ha; cbn; tauto).
  assert (H2 : o_sp arg < next h) by (apply Ha; cbn; tauto).
  assert (H3 : o_meta arg < next h) by (apply Ha; cbn; tauto).
  destruct s as [c [|] [|]]; cbn in Hs; try discriminate.
  unfold produce. cbn [s_cov s_sp s_meta negb andb].
  split.
  { intros l Hl. cbn [next]. cbn in Hl. destruct c; cbn in Hl; intuition lia. }
  split; [intros l Hl; cbn [next]; pose proof (Ha l Hl); lia|].
  split.
  - split.
    + intros l Hl Hl2. cbn in Hl. pose proof (Ha l Hl2). intuition lia.
    + intros l Hl Hl2. cbn in Hl. cbn in Hl2. destruct c; cbn in Hl2; intuition lia.
  - unfold observe. apply map_ext_in. intros l Hl. pose proof (Ha l Hl). cbn [cells].
    rewrite !andb_true_r.
    destruct ((l =? next h) && negb c) eqn:E1; [lia|]. destruct (l =? next h + 1) eqn:E2; [lia|].
    destruct (l =? next h + 2) eqn:E3; [lia|reflexivity].
Qed.

End Heap.

Theorem copying_producers_share_no_mutable_state code :
  code <> 8 -> no_mutable_sharing (prod_shares code) = true.
Proof.
  intros H. unfold prod_shares. destruct (code =? 8) eqn:E; [lia|].
  destruct ((code =? 1) || (code =? 2) || (code =? 3) || (code =? 7) || (code =? 16)); reflexivity.
Qed.
