(* MultiRefine.v — the multi-map operations (operations._apply_operation: sum_union, product_intersection,
   and_union, max_intersection, ...) refine the dense specification Spec2.d_apply_operation:
   on well-formed inputs of one resolution the operation never fails, its result is well-formed, and
   the result's dense abstraction is exactly the per-pixel fold of the specification (C06). *)
From HS Require Import Prelude Cov Map Spec Ops Spec2 Params AtFold MapProofs UpdateProofs HistoryProofs
     LayoutProofs AccountProofs OpsProofs PartialProofs BoolRefine.

(* ---- a generic sequential "update at index" fold and its pointwise characterisation ---- *)
Section GFold.
Variables (A B : Type) (da : A) (u : A -> B -> A).

Definition gfold (l : list A) (ivs : list (Z * B)) : list A :=
  fold_left (fun t iv => zupd t (fst iv) (u (znth da t (fst iv)) (snd iv))) ivs l.

Lemma zlen_gfold ivs : forall l, zlen (gfold l ivs) = zlen l.
Proof.
  induction ivs as [|[i v] r IH]; intros l; unfold gfold in *; cbn [fold_left fst snd]; [reflexivity|].
  rewrite IH, zlen_zupd. reflexivity.
Qed.

Lemma gfold_pointwise ivs : forall l j,
  0 <= j < zlen l ->
  znth da (gfold l ivs) j = fold_left u (vals_at B j ivs) (znth da l j).
Proof.
  induction ivs as [|[i v] r IH]; intros l j Hj; unfold gfold in *; cbn [fold_left fst snd vals_at]; [reflexivity|].
  rewrite IH by (rewrite zlen_zupd; exact Hj).
  destruct (i =? j) eqn:E.
  - assert (i = j) by lia; subst i. rewrite znth_zupd_same by exact Hj. reflexivity.
  - rewrite znth_zupd_other by lia. reflexivity.
Qed.
End GFold.

(* the values addressed to (g q) when each listed pixel p is sent to cell (g p), g injective towards q *)
Lemma vals_at_inj {B} (g : Z -> Z) (h : Z -> B) (vp : list Z) q :
  NoDup vp -> (forall p, In p vp -> g p = g q -> p = q) ->
  (In q vp -> vals_at B (g q) (map (fun p => (g p, h p)) vp) = [h q]) /\
  (~ In q vp -> vals_at B (g q) (map (fun p => (g p, h p)) vp) = []).
Proof.
  induction vp as [|p r IH]; intros ND Hinj; cbn [map vals_at].
  - split; [intros []|reflexivity].
  - inversion ND as [|? ? Hnin ND']; subst.
    destruct (IH ND' (fun p' Hp' => Hinj p' (or_intror Hp'))) as [IH1 IH2].
    split.
    + intros [->|Hin].
      * rewrite Z.eqb_refl. rewrite IH2 by exact Hnin. reflexivity.
      * destruct (g p =? g q) eqn:E.
        -- exfalso. assert (p = q) by (apply Hinj; [left; reflexivity|lia]). subst p. contradiction.
        -- apply IH1; exact Hin.
    + intros Hn. destruct (g p =? g q) eqn:E.
      * exfalso. apply Hn. left. apply Hinj; [left; reflexivity|lia].
      * apply IH2. intros Hin. apply Hn. right; exact Hin.
Qed.

Lemma combine_map_map {A B C} (g : A -> B) (h : A -> C) (l : list A) :
  combine (map g l) (map h l) = map (fun x => (g x, h x)) l.
Proof. induction l as [|x r IH]; cbn [map combine]; [reflexivity|]. rewrite IH. reflexivity. Qed.

Lemma map2_map_map {A B C D} (f : B -> C -> D) (g : A -> B) (h : A -> C) (l : list A) :
  map2 f (map g l) (map h l) = map (fun x => f (g x) (h x)) l.
Proof. induction l as [|x r IH]; cbn [map map2]; [reflexivity|]. rewrite IH. reflexivity. Qed.

Lemma count_as_gfold (cells : list Z) : forall nt,
  fold_left (fun t c => zupd t c (znth 0 t c + 1)) cells nt =
  gfold Z unit 0 (fun t _ => t + 1) nt (map (fun c => (c, tt)) cells).
Proof.
  induction cells as [|c r IH]; intros nt; unfold gfold in *; cbn [map fold_left fst snd]; [reflexivity|].
  rewrite IH. reflexivity.
Qed.

Lemma fold_or_existsb {A} (h : A -> bool) (l : list A) : forall a,
  fold_left (fun acc x => acc || h x) l a = a || existsb h l.
Proof.
  induction l as [|x r IH]; intros a; cbn [fold_left existsb]; [rewrite orb_false_r; reflexivity|].
  rewrite IH. rewrite orb_assoc. reflexivity.
Qed.

Lemma fold_and_forallb {A} (h : A -> bool) (l : list A) : forall a,
  fold_left (fun acc x => acc && h x) l a = a && forallb h l.
Proof.
  induction l as [|x r IH]; intros a; cbn [fold_left forallb]; [rewrite andb_true_r; reflexivity|].
  rewrite IH. rewrite andb_assoc. reflexivity.
Qed.

Section Multi.
Variable P : params.
Notation V := (p_V P).
Notation dv := (p_dv P).

(* the same element parameters with another validity test (every input has its own sentinel) *)
Definition with_valid (v : V -> bool) : params :=
  mkparams V v dv (p_vadd P) (p_vor P) (p_vand P) (p_vzero P) (p_is_sent P) (p_sent_nonzero P) (p_zns P).

Notation read := (read V dv).
Notation abs := (abs V dv).

Variable f : V -> V -> V.
Variable conv : V -> V.
Variables filler sentinel : V.
Variable ff : bool.
Variable vout : V -> bool.
Hypothesis vout_sent : vout sentinel = false.

Variables ncv nf : Z.
Hypothesis Hncv : 0 <= ncv.
Hypothesis Hnf : 0 < nf.

(* an admissible input: well-formed under its own validity test, of the common resolution *)
Definition okmap (vm : vmap V) : Prop :=
  wf (with_valid (fst vm)) (snd vm) /\ nfine (snd vm) = nf /\ ncov V (snd vm) = ncv.

Section WithPs.
Variable ps : list Z.
Hypothesis ps_nodup : NoDup ps.
Hypothesis ps_range : forall c, In c ps -> 0 <= c < ncv.

Definition M0 : smap V := make_empty V ncv nf sentinel (Some ps).
Notation idx' := (cov_make_from_pixels ncv nf ps).
Notation len := ((zlen ps + 1) * nf).
Notation g := (cell V M0).

Lemma M0_wf : wf (with_valid vout) M0.
Proof. apply (make_empty_wf (with_valid vout)); try assumption. split; assumption. Qed.

Lemma M0_idx : idx M0 = idx'.
Proof. reflexivity. Qed.

Lemma M0_nf : nfine M0 = nf.
Proof. reflexivity. Qed.

Lemma M0_npix : npix V M0 = ncv * nf.
Proof. apply (npix_make_empty (with_valid vout)). exact Hncv. Qed.

Lemma M0_len : zlen (sp M0) = len.
Proof.
  unfold M0, Map.make_empty. cbn [sp]. rewrite zlen_zrepeat. pose proof (zlen_nonneg ps). nia.
Qed.

Lemma M0_covered c : 0 <= c < ncv -> (covered V M0 c = true <-> In c ps).
Proof.
  intros Hc. split.
  - intros Hcov. destruct (in_dec Z.eq_dec c ps) as [Hin|Hnin]; [exact Hin|].
    exfalso. apply (covered_iff (with_valid vout)) in Hcov.
    pose proof (make_empty_some_off_other (with_valid vout) ncv nf sentinel ps c Hncv Hnf Hc Hnin) as E.
    change (off V M0 c = 0) in E. change (nf <= off V M0 c) in Hcov. lia.
  - intros Hin. destruct (In_znth 0 ps c Hin) as [j [Hj Ej]].
    apply (covered_iff (with_valid vout)).
    pose proof (make_empty_some_off (with_valid vout) ncv nf sentinel ps j Hncv Hnf ps_nodup ps_range Hj) as E.
    rewrite Ej in E. change (off V M0 c = (j + 1) * nf) in E. change (nf <= off V M0 c). nia.
Qed.

Definition good (p : Z) : Prop := 0 <= p < ncv * nf /\ In (p / nf) ps.

Lemma good_covered p : good p -> covered V M0 (p / nf) = true.
Proof. intros [Hp Hin]. apply M0_covered; [apply ps_range|]; exact Hin. Qed.

Lemma good_cell p : good p -> nf <= g p < len.
Proof.
  intros G. pose proof (cell_covered (with_valid vout) M0 p M0_wf) as H. cbn [p_V with_valid p_dv] in H.
  rewrite M0_npix, M0_len in H. change (nfine M0) with nf in H.
  apply H; [exact (proj1 G)|apply good_covered; exact G].
Qed.

Lemma g_inj p q : good q -> 0 <= p < ncv * nf -> g p = g q -> p = q.
Proof.
  intros G Hp E. symmetry.
  pose proof (cell_inj (with_valid vout) M0 q p M0_wf) as H. cbn [p_V with_valid p_dv] in H. rewrite M0_npix in H.
  change (nfine M0) with nf in H.
  apply H; [exact (proj1 G)|exact Hp|apply good_covered; exact G|symmetry; exact E].
Qed.

(* ---- one input map ---- *)
Definition stepA (im : Z * vmap V) (a : V) (p : Z) : V :=
  let v := read (snd (snd im)) p in
  if fst (snd im) v then (if (fst im =? 0) && ff then conv v else f a v) else a.

Definition stepT (im : Z * vmap V) (t : Z) (p : Z) : Z :=
  t + (if fst (snd im) (read (snd (snd im)) p) then 1 else 0).

Lemma mm_one_step (i : Z) (vm : vmap V) (s : list V) (nt : list Z) :
  okmap vm -> zlen s = len -> zlen nt = len ->
  exists s' nt',
    mm_one V dv f conv ff idx' (Some (s, nt)) (i, vm) = Some (s', nt') /\
    zlen s' = len /\ zlen nt' = len /\
    forall p, good p ->
      znth dv s' (g p) = stepA (i, vm) (znth dv s (g p)) p /\
      znth 0 nt' (g p) = stepT (i, vm) (znth 0 nt (g p)) p.
Proof.
  intros [W [En Ec]] Hs Hnt. destruct vm as [v m]. cbn [fst snd] in *.
  destruct (valid_pixels_spec (with_valid v) m W) as [Evp [ND Hin]].
  cbn [p_V p_valid p_dv with_valid] in Evp, ND, Hin.
  match type of Evp with _ = Some ?l => set (vp := l) in * end.
  unfold mm_one. cbn [fst snd].
  rewrite Evp.
  assert (Ecells : map (fun p => p + znth 0 idx' (p / nfine m)) vp = map g vp).
  { apply map_ext. intros p. unfold Map.cell. rewrite En. reflexivity. }
  rewrite Ecells.
  set (hh := fun p => if (i =? 0) && ff then conv (read m p) else f (znth dv s (g p)) (read m p)).
  assert (Enews : (if (i =? 0) && ff then map conv (map (read m) vp)
                   else map2 f (map (znth dv s) (map g vp)) (map (read m) vp)) = map hh vp).
  { unfold hh. destruct ((i =? 0) && ff).
    - rewrite map_map. reflexivity.
    - rewrite (map_map g (znth dv s)). rewrite map2_map_map. reflexivity. }
  rewrite Enews, combine_map_map, count_as_gfold, map_map.
  change (fold_left (fun (t : list V) (cv : Z * V) => zupd t (fst cv) (snd cv))
                    (map (fun x => (g x, hh x)) vp) s)
    with (gfold V V dv (fun _ x => x) s (map (fun x => (g x, hh x)) vp)).
  eexists. eexists. split; [reflexivity|].
  split; [rewrite zlen_gfold; exact Hs|]. split; [rewrite zlen_gfold; exact Hnt|].
  intros p G. pose proof (good_cell p G) as Hc.
  assert (Hinj : forall p', In p' vp -> g p' = g p -> p' = p).
  { intros p' Hp' E. apply g_inj; [exact G| |exact E].
    apply Hin in Hp'. destruct Hp' as [R _]. unfold Map.npix in R. rewrite En, Ec in R. exact R. }
  destruct (vals_at_inj g hh vp p ND Hinj) as [V1 V2].
  destruct (vals_at_inj g (fun _ => tt) vp p ND Hinj) as [U1 U2].
  rewrite !gfold_pointwise by lia.
  unfold stepA, stepT. cbn [fst snd].
  destruct (v (read m p)) eqn:Ev.
  - assert (Hp : In p vp).
    { apply Hin. split; [|exact Ev]. destruct G as [R _]. unfold Map.npix. rewrite En, Ec. exact R. }
    rewrite V1, U1 by exact Hp. cbn [fold_left]. split; reflexivity.
  - assert (Hp : ~ In p vp).
    { intros Hp. apply Hin in Hp. destruct Hp as [_ Hv]. rewrite Hv in Ev. discriminate. }
    rewrite V2, U2 by exact Hp. cbn [fold_left]. split; [reflexivity|lia].
Qed.

(* ---- all input maps ---- *)
Definition A_fold (ims : list (Z * vmap V)) (a : V) (p : Z) : V := fold_left (fun a im => stepA im a p) ims a.
Definition T_fold (ims : list (Z * vmap V)) (t : Z) (p : Z) : Z := fold_left (fun t im => stepT im t p) ims t.

Lemma fold_maps ims : forall s nt,
  (forall im, In im ims -> okmap (snd im)) -> zlen s = len -> zlen nt = len ->
  exists s' nt',
    fold_left (mm_one V dv f conv ff idx') ims (Some (s, nt)) = Some (s', nt') /\
    zlen s' = len /\ zlen nt' = len /\
    forall p, good p ->
      znth dv s' (g p) = A_fold ims (znth dv s (g p)) p /\
      znth 0 nt' (g p) = T_fold ims (znth 0 nt (g p)) p.
Proof.
  induction ims as [|[i vm] r IH]; intros s nt Hok Hs Hnt; cbn [fold_left].
  - exists s, nt. split; [reflexivity|]. split; [exact Hs|]. split; [exact Hnt|].
    intros p _. split; reflexivity.
  - destruct (mm_one_step i vm s nt (Hok (i, vm) (or_introl eq_refl)) Hs Hnt) as [s1 [nt1 [E [L1 [L2 Hst]]]]].
    rewrite E.
    destruct (IH s1 nt1 (fun im Him => Hok im (or_intror Him)) L1 L2) as [s2 [nt2 [E2 [K1 [K2 Hst2]]]]].
    exists s2, nt2. split; [exact E2|]. split; [exact K1|]. split; [exact K2|].
    intros p G. destruct (Hst2 p G) as [a b]. destruct (Hst p G) as [c d].
    rewrite a, b, c, d. unfold A_fold, T_fold. cbn [fold_left]. split; reflexivity.
Qed.

(* the result map built from the final storage *)
Definition result (s1 : list V) : smap V :=
  mkmap nf idx' (zrepeat sentinel nf ++ zskipn nf s1) sentinel None.

Lemma result_wf s1 : zlen s1 = len -> wf (with_valid vout) (result s1).
Proof.
  intros Hl. pose proof (zlen_nonneg ps) as Hps.
  apply (wf_transfer (with_valid vout) (with_valid vout) M0); try reflexivity.
  - exact M0_wf.
  - etransitivity; [|symmetry; exact M0_len]. unfold result. cbn [sp p_V with_valid]. rewrite zlen_app, zlen_zrepeat, zlen_zskipn, Hl.
    assert (nf <= (zlen ps + 1) * nf) by nia. lia.
  - intros i Hi. unfold result. cbn [sp blank p_dv with_valid]. change (nfine M0) with nf in Hi.
    rewrite znth_app. rewrite zlen_zrepeat.
    destruct (i <? Z.max 0 nf) eqn:E; [|lia].
    rewrite znth_zrepeat. destruct ((0 <=? i) && (i <? nf)) eqn:E2; [reflexivity|lia].
  - exact vout_sent.
Qed.

Lemma result_read_good s1 p : good p -> zlen s1 = len -> read (result s1) p = znth dv s1 (g p).
Proof.
  intros G Hl. pose proof (good_cell p G) as Hc.
  unfold Map.read. change (Map.cell V (result s1) p) with (g p). unfold result. cbn [sp].
  rewrite znth_app, zlen_zrepeat. destruct (g p <? Z.max 0 nf) eqn:E; [lia|].
  rewrite znth_zskipn by lia. f_equal; lia.
Qed.

Lemma result_read_bad s1 p : 0 <= p < ncv * nf -> ~ In (p / nf) ps -> read (result s1) p = sentinel.
Proof.
  intros Hp Hn.
  pose proof (cell_uncovered (with_valid vout) M0 p M0_wf) as H. cbn [p_V with_valid p_dv] in H.
  rewrite M0_npix in H. change (nfine M0) with nf in H.
  destruct H as [_ Hc]; [exact Hp| |].
  { destruct (covered V M0 (p / nf)) eqn:Ec; [|reflexivity]. exfalso. apply Hn.
    apply M0_covered; [|exact Ec].
    split; [apply Z.div_pos; lia|apply Z.div_lt_upper_bound; lia]. }
  unfold Map.read. change (Map.cell V (result s1) p) with (g p). unfold result. cbn [sp].
  rewrite znth_app, zlen_zrepeat. destruct (g p <? Z.max 0 nf) eqn:E; [|lia].
  rewrite znth_zrepeat. destruct ((0 <=? g p) && (g p <? nf)) eqn:E2; [reflexivity|lia].
Qed.

Lemma result_covered s1 c : 0 <= c < ncv -> (covered V (result s1) c = true <-> In c ps).
Proof. intros Hc. change (covered V (result s1) c) with (covered V M0 c). apply M0_covered; exact Hc. Qed.

End WithPs.

(* ---- the inputs valid at a pixel, in list order ---- *)
Definition vals (ms : list (vmap V)) (p : Z) : list V :=
  flat_map (fun vm : vmap V => if fst vm (read (snd vm) p) then [read (snd vm) p] else []) ms.

Lemma vals_cons vm r p :
  vals (vm :: r) p = (if fst vm (read (snd vm) p) then [read (snd vm) p] else []) ++ vals r p.
Proof. reflexivity. Qed.

Lemma A_fold_cons im r a p : A_fold (im :: r) a p = A_fold r (stepA im a p) p.
Proof. reflexivity. Qed.

Lemma T_fold_cons im r t p : T_fold (im :: r) t p = T_fold r (stepT im t p) p.
Proof. reflexivity. Qed.

Lemma T_fold_vals ms p : forall i t, T_fold (number_from i ms) t p = t + zlen (vals ms p).
Proof.
  induction ms as [|vm r IH]; intros i t; cbn [number_from].
  - unfold T_fold, vals. cbn [fold_left flat_map]. rewrite zlen_nil. lia.
  - rewrite T_fold_cons, IH, vals_cons, zlen_app. unfold stepT. cbn [fst snd].
    destruct (fst vm (read (snd vm) p)); rewrite ?zlen_cons, ?zlen_nil; lia.
Qed.

Lemma A_fold_vals ms p : forall i a,
  ff = false \/ 0 < i -> A_fold (number_from i ms) a p = fold_left f (vals ms p) a.
Proof.
  induction ms as [|vm r IH]; intros i a Hi; cbn [number_from].
  - reflexivity.
  - rewrite A_fold_cons, IH by (destruct Hi; [left; assumption|right; lia]).
    rewrite vals_cons, fold_left_app. unfold stepA. cbn [fst snd].
    assert (E : (i =? 0) && ff = false) by (destruct Hi as [->|Hi]; [apply andb_false_r|destruct (i =? 0) eqn:E0; [lia|reflexivity]]).
    rewrite E. destruct (fst vm (read (snd vm) p)); reflexivity.
Qed.

Lemma A_fold_first vm r p a :
  ff = true -> fst vm (read (snd vm) p) = true ->
  A_fold (number_from 0 (vm :: r)) a p = fold_left f (vals r p) (conv (read (snd vm) p)).
Proof.
  intros Hff Hv. cbn [number_from]. rewrite A_fold_cons, A_fold_vals by (right; lia).
  unfold stepA. cbn [fst snd]. rewrite Hv, Hff. reflexivity.
Qed.

Lemma zlen_vals_le ms p : zlen (vals ms p) <= zlen ms.
Proof.
  induction ms as [|vm r IH]; [apply Z.le_refl|].
  rewrite vals_cons, zlen_app, zlen_cons.
  destruct (fst vm (read (snd vm) p)); rewrite ?zlen_cons, ?zlen_nil; lia.
Qed.

Lemma vals_missing ms p :
  (exists vm, In vm ms /\ fst vm (read (snd vm) p) = false) -> zlen (vals ms p) < zlen ms.
Proof.
  induction ms as [|vm r IH]; intros [x [Hin Hx]]; [destruct Hin|].
  rewrite vals_cons, zlen_app, zlen_cons. pose proof (zlen_vals_le r p).
  destruct Hin as [->|Hin].
  - rewrite Hx, zlen_nil. apply Z.lt_succ_r. exact H.
  - assert (zlen (vals r p) < zlen r) by (apply IH; exists x; split; assumption).
    destruct (fst vm (read (snd vm) p)); rewrite ?zlen_cons, ?zlen_nil; lia.
Qed.

Lemma vals_none ms p : (forall vm, In vm ms -> fst vm (read (snd vm) p) = false) -> vals ms p = [].
Proof.
  induction ms as [|vm r IH]; intros H; [reflexivity|].
  rewrite vals_cons, (H vm (or_introl eq_refl)), IH; [reflexivity|].
  intros x Hx. apply H. right; exact Hx.
Qed.

Lemma vals_all ms p : zlen (vals ms p) = zlen ms -> forall vm, In vm ms -> fst vm (read (snd vm) p) = true.
Proof.
  intros E vm Hin. destruct (fst vm (read (snd vm) p)) eqn:Ev; [reflexivity|].
  exfalso. assert (zlen (vals ms p) < zlen ms) by (apply vals_missing; exists vm; split; assumption). lia.
Qed.

(* the per-pixel value of the specification, over the concrete inputs *)
Definition spec_value (union : bool) (ms : list (vmap V)) (p : Z) : V :=
  let vs := vals ms p in
  if union then match vs with [] => sentinel | _ => fold_left f vs filler end
  else if zlen vs =? zlen ms
       then (if ff then match vs with [] => sentinel | v0 :: r => fold_left f r (conv v0) end
             else fold_left f vs filler)
       else sentinel.

Definition cmask (union : bool) (ms : list (vmap V)) (c : Z) : bool :=
  if union then existsb (fun vm : vmap V => covered V (snd vm) c) ms
  else forallb (fun vm : vmap V => covered V (snd vm) c) ms.

Lemma combined_mask_cmask union vm0 r c : combined_mask V union (vm0 :: r) c = cmask union (vm0 :: r) c.
Proof.
  unfold combined_mask, cmask. destruct union; cbv iota; cbn [existsb forallb].
  - apply (fold_or_existsb (fun vm : vmap V => covered V (snd vm) c)).
  - apply (fold_and_forallb (fun vm : vmap V => covered V (snd vm) c)).
Qed.

Lemma existsb_false_all {A} (h : A -> bool) l : existsb h l = false -> forall x, In x l -> h x = false.
Proof.
  intros E x Hin. destruct (h x) eqn:Ex; [|reflexivity].
  assert (existsb h l = true) by (apply existsb_exists; exists x; split; assumption). congruence.
Qed.

Lemma forallb_false_ex {A} (h : A -> bool) l : forallb h l = false -> exists x, In x l /\ h x = false.
Proof.
  induction l as [|x r IH]; cbn [forallb]; [discriminate|].
  destruct (h x) eqn:Ex; cbn [andb].
  - intros E. destruct (IH E) as [y [Hy Ey]]. exists y. split; [right; exact Hy|exact Ey].
  - intros _. exists x. split; [left; reflexivity|exact Ex].
Qed.

Lemma invalid_uncovered vm p :
  okmap vm -> 0 <= p < ncv * nf -> covered V (snd vm) (p / nf) = false -> fst vm (read (snd vm) p) = false.
Proof.
  intros [W [En Ec]] Hp Hc.
  pose proof (read_uncovered (with_valid (fst vm)) (snd vm) p W) as H. cbn [p_V p_dv with_valid] in H.
  rewrite H; [exact (wf_blank (with_valid (fst vm)) (snd vm) W)| |rewrite En; exact Hc].
  unfold Map.npix. rewrite En, Ec. exact Hp.
Qed.

(* outside the combined coverage the specification's value is the sentinel *)
Lemma spec_value_bad union ms p :
  (forall vm, In vm ms -> okmap vm) -> (union = true -> ff = false) -> 0 <= p < ncv * nf ->
  cmask union ms (p / nf) = false -> spec_value union ms p = sentinel.
Proof.
  intros Hok Hu Hp Hc. unfold spec_value, cmask in *. cbv zeta. destruct union.
  - rewrite vals_none; [reflexivity|]. intros vm Hin.
    apply invalid_uncovered; [apply Hok; exact Hin|exact Hp|].
    apply (existsb_false_all _ _ Hc vm Hin).
  - destruct (forallb_false_ex _ _ Hc) as [vm [Hin Hv]].
    assert (zlen (vals ms p) < zlen ms).
    { apply vals_missing. exists vm. split; [exact Hin|].
      apply invalid_uncovered; [apply Hok; exact Hin|exact Hp|exact Hv]. }
    destruct (zlen (vals ms p) =? zlen ms) eqn:E; [lia|reflexivity].
Qed.

(* ---- the value stored at a pixel of the combined coverage ---- *)
Lemma final_value union fis vm0 r (s : list V) (nt : list Z) j p :
  let ms := vm0 :: r in
  (union = true -> ff = false) -> (fis = true -> filler = sentinel) ->
  zlen s = zlen nt -> 0 <= j < zlen s ->
  znth dv s j = A_fold (number_from 0 ms) filler p ->
  znth 0 nt j = T_fold (number_from 0 ms) 0 p ->
  znth dv (if union
           then (if fis then s else map2 (fun v t => if 0 <? t then v else sentinel) s nt)
           else map2 (fun v t => if t =? zlen ms then v else sentinel) s nt) j
  = spec_value union ms p.
Proof.
  intros ms Hu Hf Hl Hj EA ET. rewrite T_fold_vals in ET. unfold spec_value. cbv zeta.
  destruct union.
  - rewrite A_fold_vals in EA by (left; apply Hu; reflexivity).
    destruct fis.
    + rewrite EA. destruct (vals ms p) eqn:Ev; [|reflexivity]. cbn [fold_left]. apply Hf; reflexivity.
    + rewrite (znth_map2 _ dv 0 dv) by assumption. rewrite EA, ET.
      destruct (vals ms p) eqn:Ev.
      * rewrite zlen_nil. reflexivity.
      * rewrite zlen_cons. pose proof (zlen_nonneg l). destruct (0 <? 0 + (zlen l + 1)) eqn:E; [reflexivity|lia].
  - rewrite (znth_map2 _ dv 0 dv) by assumption. rewrite ET.
    replace (0 + zlen (vals ms p)) with (zlen (vals ms p)) by lia.
    destruct (zlen (vals ms p) =? zlen ms) eqn:E; [|reflexivity].
    destruct (Bool.bool_dec ff true) as [Eff|Eff].
    + assert (Hv : fst vm0 (read (snd vm0) p) = true).
      { apply (vals_all ms p); [lia|left; reflexivity]. }
      rewrite EA. unfold ms. rewrite A_fold_first by assumption.
      rewrite vals_cons, Hv, Eff. reflexivity.
    + apply Bool.not_true_is_false in Eff. rewrite EA. rewrite Eff at 1.
      apply A_fold_vals. left; exact Eff.
Qed.

Lemma In_number_from {A} (l : list A) : forall i im, In im (number_from i l) -> In (snd im) l.
Proof.
  induction l as [|x r IH]; intros i im; cbn [number_from]; [intros []|].
  intros [<-|H]; [left; reflexivity|right; apply (IH (i + 1)); exact H].
Qed.

(* ---- relation to the dense specification ---- *)
Lemma d_read_abs (m : smap V) p : 0 <= p < npix V m -> d_read V dv (abs m) p = read m p.
Proof.
  intros Hp. unfold Spec.d_read, Spec.abs. cbn [dense].
  rewrite (znth_map _ 0) by (rewrite zlen_zrange; lia). rewrite znth_zrange by lia. f_equal; lia.
Qed.

Definition dsof (ms : list (vmap V)) : list (vdmap V) := map (fun vm : vmap V => (fst vm, abs (snd vm))) ms.

Lemma d_vals_at_abs ms p :
  (forall vm, In vm ms -> okmap vm) -> 0 <= p < ncv * nf -> d_vals_at V dv (dsof ms) p = vals ms p.
Proof.
  intros Hok Hp. induction ms as [|vm r IH]; [reflexivity|].
  unfold d_vals_at, dsof in *. cbn [map flat_map fst snd]. rewrite vals_cons.
  destruct (Hok vm (or_introl eq_refl)) as [_ [En Ec]].
  rewrite d_read_abs by (unfold Map.npix; rewrite En, Ec; exact Hp).
  f_equal. apply IH. intros x Hx. apply Hok. right; exact Hx.
Qed.

Lemma fold_cov_map (union : bool) c (r : list (vmap V)) :
  (forall vm, In vm r -> znth false (dcov (abs (snd vm))) c = covered V (snd vm) c) ->
  forall a,
  fold_left (fun acc (d : vdmap V) => if union then acc || znth false (dcov (snd d)) c
                                      else acc && znth false (dcov (snd d)) c)
            (map (fun vm : vmap V => (fst vm, abs (snd vm))) r) a =
  fold_left (fun acc (m : vmap V) => if union then acc || covered V (snd m) c else acc && covered V (snd m) c) r a.
Proof.
  induction r as [|x t IH]; intros H a; cbn [map fold_left fst snd]; [reflexivity|].
  rewrite (H x (or_introl eq_refl)). apply IH. intros vm Hin. apply H. right; exact Hin.
Qed.

Lemma d_mm_cov_cmask union vm0 r c :
  (forall vm, In vm (vm0 :: r) -> okmap vm) -> 0 <= c < ncv ->
  d_mm_cov V union (dsof (vm0 :: r)) c = cmask union (vm0 :: r) c.
Proof.
  intros Hok Hc. rewrite <- combined_mask_cmask. unfold d_mm_cov, combined_mask, dsof. cbn [map fst snd].
  assert (Hcov : forall vm, In vm (vm0 :: r) -> znth false (dcov (abs (snd vm))) c = covered V (snd vm) c).
  { intros vm Hin. destruct (Hok vm Hin) as [_ [En Ec]]. unfold Spec.abs. cbn [dcov].
    apply (znth_coverage_mask (with_valid (fst vm))). cbn [p_V with_valid]. rewrite Ec. exact Hc. }
  rewrite (Hcov vm0 (or_introl eq_refl)).
  apply fold_cov_map. intros vm Hin. apply Hcov. right; exact Hin.
Qed.

Lemma spec_eq union vm0 r (m' : smap V) :
  let ms := vm0 :: r in
  (forall vm, In vm ms -> okmap vm) ->
  nfine m' = nf -> ncov V m' = ncv -> blank m' = sentinel ->
  (forall p, 0 <= p < ncv * nf -> read m' p = spec_value union ms p) ->
  (forall c, 0 <= c < ncv -> covered V m' c = cmask union ms c) ->
  d_apply_operation V dv f conv filler sentinel union ff (dsof ms) = Some (abs m').
Proof.
  intros ms Hok En Ec Eb Hread Hcov.
  destruct (Hok vm0 (or_introl eq_refl)) as [W0 [En0 Ec0]].
  assert (Hnp : 0 <= ncv * nf) by nia.
  unfold d_apply_operation. change (dsof ms) with ((fst vm0, abs (snd vm0)) :: dsof r) at 1.
  cbv beta iota zeta. cbn [snd].
  f_equal.
  change (abs m') with (mkd (nfine m') (map (read m') (zrange 0 (npix V m'))) (coverage_mask (nfine m') (idx m')) (blank m')).
  f_equal.
  - unfold Spec.abs. cbn [d_nfine]. rewrite En0, En. reflexivity.
  - unfold Spec.d_npix, Spec.abs at 1. cbn [dense]. rewrite zlen_map, zlen_zrange.
    unfold Map.npix. rewrite En, Ec, En0, Ec0. replace (Z.max 0 (ncv * nf - 0)) with (ncv * nf) by lia.
    apply map_ext_in. intros p Hp. apply In_zrange in Hp.
    rewrite d_vals_at_abs by assumption. unfold dsof. rewrite zlen_map.
    rewrite Hread by exact Hp. reflexivity.
  - unfold Spec.d_ncov, Spec.abs at 1. cbn [dcov].
    rewrite (zlen_coverage_mask (with_valid (fst vm0))). cbn [p_V with_valid]. rewrite Ec0.
    unfold coverage_mask. change (zlen (idx m')) with (ncov V m'). rewrite Ec.
    apply map_ext_in. intros c Hc. apply In_zrange in Hc.
    etransitivity; [apply (d_mm_cov_cmask union vm0 r c); assumption|]. symmetry. apply Hcov. exact Hc.
  - symmetry; exact Eb.
Qed.

(* ---- the theorem ---- *)
Theorem apply_operation_refines (union fis : bool) (ms : list (vmap V)) :
  ms <> [] -> (forall vm, In vm ms -> okmap vm) ->
  (union = true -> ff = false) -> (fis = true -> filler = sentinel) ->
  exists m',
    apply_operation V dv f conv filler sentinel fis union ff ms = Some m' /\
    wf (with_valid vout) m' /\
    d_apply_operation V dv f conv filler sentinel union ff (dsof ms) = Some (abs m').
Proof.
  intros Hne Hok Hu Hf. destruct ms as [|vm0 r]; [contradiction|].
  destruct (Hok vm0 (or_introl eq_refl)) as [W0 [En0 Ec0]].
  assert (Hnp : 0 <= ncv * nf) by nia.
  unfold apply_operation. rewrite En0, Ec0.
  remember (filter (combined_mask V union (vm0 :: r)) (zrange 0 ncv)) as ps eqn:Eps.
  assert (ps_in : forall c, In c ps <-> 0 <= c < ncv /\ cmask union (vm0 :: r) c = true).
  { intros c. rewrite Eps, filter_In, In_zrange, combined_mask_cmask. reflexivity. }
  assert (ps_nodup : NoDup ps) by (rewrite Eps; apply NoDup_filter, NoDup_zrange).
  assert (ps_range : forall c, In c ps -> 0 <= c < ncv) by (intros c Hc; apply ps_in in Hc; tauto).
  assert (Hbad : forall p, 0 <= p < ncv * nf -> ~ In (p / nf) ps -> spec_value union (vm0 :: r) p = sentinel).
  { intros p Hp Hn. apply spec_value_bad; try assumption.
    destruct (cmask union (vm0 :: r) (p / nf)) eqn:E; [|reflexivity].
    exfalso. apply Hn. apply ps_in. split; [|exact E].
    split; [apply Z.div_pos; lia|apply Z.div_lt_upper_bound; lia]. }
  clear Eps. destruct ps as [|c0 ps'].
  - (* empty combined coverage *)
    eexists. split; [reflexivity|]. split.
    + apply (make_empty_wf (with_valid vout)); try assumption. exact I.
    + apply spec_eq; try assumption; try reflexivity.
      * unfold Map.ncov, Map.make_empty. cbn [idx]. apply zlen_cov_make_empty. exact Hncv.
      * intros p Hp. rewrite Hbad by (try exact Hp; intros []).
        apply (make_empty_read (with_valid vout)); try assumption. exact I.
      * intros c Hc. transitivity false.
        -- apply (covered_false_iff (with_valid vout)).
           rewrite (off_empty (with_valid vout)) by exact Hc. exact Hnf.
        -- destruct (cmask union (vm0 :: r) c) eqn:E; [|reflexivity].
           exfalso. apply (proj2 (ps_in c)). split; assumption.
  - (* non-empty combined coverage *)
    set (ps := c0 :: ps') in *.
    pose proof (zlen_nonneg ps) as Hps.
    destruct (fold_maps ps ps_nodup ps_range (number_from 0 (vm0 :: r))
                        (zrepeat filler ((zlen ps + 1) * nf)) (zrepeat 0 ((zlen ps + 1) * nf)))
      as [s [nt [E [Ls [Lnt Hst]]]]].
    + intros im Him. apply Hok. apply (In_number_from _ _ _ Him).
    + rewrite zlen_zrepeat. nia.
    + rewrite zlen_zrepeat. nia.
    + rewrite E.
      match goal with |- exists m', Some (mkmap nf _ (_ ++ zskipn nf ?s1) _ _) = _ /\ _ =>
        change (exists m', Some (result ps s1) = Some m' /\ wf (with_valid vout) m' /\
                  d_apply_operation V dv f conv filler sentinel union ff (dsof (vm0 :: r)) = Some (abs m'));
        set (S1 := s1)
      end.
      assert (L1 : zlen S1 = (zlen ps + 1) * nf).
      { unfold S1. destruct union; [destruct fis|]; rewrite ?zlen_map2; congruence. }
      exists (result ps S1). split; [reflexivity|]. split; [apply result_wf; assumption|].
      apply spec_eq; try assumption; try reflexivity.
      * unfold result, Map.ncov. cbn [idx]. change (ncov V (M0 ps) = ncv).
        pose proof (M0_npix ps) as Hn. unfold Map.npix in Hn. change (nfine (M0 ps)) with nf in Hn. nia.
      * intros p Hp. destruct (in_dec Z.eq_dec (p / nf) ps) as [Hin|Hnin].
        -- assert (G : good ps p) by (split; assumption).
           rewrite result_read_good by assumption.
           pose proof (good_cell ps ps_nodup ps_range p G) as Hc.
           destruct (Hst p G) as [HA HT].
           rewrite znth_zrepeat in HA. rewrite znth_zrepeat in HT.
           destruct ((0 <=? cell V (M0 ps) p) && (cell V (M0 ps) p <? (zlen ps + 1) * nf)) eqn:Eb; [|lia].
           unfold S1. apply final_value; try assumption; try lia.
        -- rewrite result_read_bad by assumption. symmetry. apply Hbad; assumption.
      * intros c Hc. destruct (cmask union (vm0 :: r) c) eqn:Ecm.
        -- apply result_covered; try assumption. apply ps_in. split; assumption.
        -- destruct (covered V (result ps S1) c) eqn:Ecv; [|reflexivity].
           apply result_covered in Ecv; try assumption. apply ps_in in Ecv. destruct Ecv as [_ Ecv]. congruence.
Qed.

End Multi.
