(* C16 — HEALPix interchange, RING/NEST and position addressing are consistent.
   Statements only.  hpgeom's RING<->NEST reordering, angle_to_pixel and interpolation weights are
   oracles (validated on every run); healsparse's own logic is plumbing around them: a dense
   HEALPix array is the L0 state itself, so conversion to a sparse map and back is the refinement
   of C01 read at every pixel, with the UNSEEN test deciding validity (DenseProofs.v: the constructor
   from a dense array, as pre-allocation of the valid entries' coverage pixels plus one replace-update,
   and the export). *)
From Coq Require Import QArith.
From HS Require Import Prelude Cov Map Spec Ops Spec2 Params AtFold MapProofs UpdateProofs HistoryProofs DenseProofs Exec Exec2 ExecProofs.
Open Scope Z_scope.

Section C16.
Variable V : Type.
Variable valid : V -> bool.
Variable unseen : V.

(* export: valid pixels keep their value, invalid ones become UNSEEN *)
Definition to_dense (vals : list V) : list V := map (fun v => if valid v then v else unseen) vals.

(* dense -> sparse -> dense reproduces the array when its invalid entries are exactly UNSEEN (the
   HEALPix convention; entries below UNSEEN or NaN are outside it: known finding F24) *)
Theorem C16_dense_sparse_dense_roundtrip :
  forall (A : list V), (forall v, In v A -> valid v = false -> v = unseen) -> to_dense A = A.
Proof.
  intros A H. unfold to_dense. rewrite <- (map_id A) at 2. apply map_ext_in.
  intros v Hv. destruct (valid v) eqn:E; [reflexivity|]. symmetry. apply H; assumption.
Qed.

(* pixel-addressed calls in RING order equal the NEST calls on the converted pixel numbers: any
   bijection r2n with inverse n2r commutes with reading a list of pixels *)
Theorem C16_ring_calls_are_nest_calls_on_converted_pixels :
  forall (r2n n2r : Z -> Z) (rd : Z -> V) (pix : list Z),
    (forall p, r2n (n2r p) = p) ->
    map rd (map r2n (map n2r pix)) = map rd pix.
Proof.
  intros r2n n2r rd pix H. rewrite !map_map. apply map_ext. intros p. rewrite H. reflexivity.
Qed.

End C16.

(* the constructor from a dense array at the layout level: a well-formed map reading A[p] at every valid
   entry and the sentinel elsewhere, for any array and any pre-allocated coverage list *)
Theorem C16_map_from_a_dense_array_reads_the_array :
  forall (P : params) (isval : p_V P -> bool) (ncv nf : Z) (sentinel : p_V P) (covs : list Z) (A : list (p_V P)),
    0 <= ncv -> 0 < nf -> zlen A = ncv * nf -> p_valid P sentinel = false -> covpix_ok ncv (Some covs) ->
    wf P (from_dense P isval ncv nf sentinel covs A) /\
    npix (p_V P) (from_dense P isval ncv nf sentinel covs A) = ncv * nf /\
    forall p, 0 <= p < ncv * nf ->
      read (p_V P) (p_dv P) (from_dense P isval ncv nf sentinel covs A) p =
      if isval (znth (p_dv P) A p) then znth (p_dv P) A p else sentinel.
Proof. exact from_dense_read. Qed.

(* dense -> sparse map -> dense (generate_healpix_map) reproduces the array when its invalid entries are
   UNSEEN and its valid entries differ from the map's sentinel *)
Theorem C16_dense_to_map_to_dense_is_the_identity :
  forall (P : params) (isval : p_V P -> bool) (ncv nf : Z) (sentinel unseen : p_V P) (covs : list Z) (A : list (p_V P)),
    0 <= ncv -> 0 < nf -> zlen A = ncv * nf -> p_valid P sentinel = false -> covpix_ok ncv (Some covs) ->
    (forall p, 0 <= p < ncv * nf -> isval (znth (p_dv P) A p) = true -> p_valid P (znth (p_dv P) A p) = true) ->
    (forall p, 0 <= p < ncv * nf -> isval (znth (p_dv P) A p) = false -> znth (p_dv P) A p = unseen) ->
    DenseProofs.to_dense P unseen (from_dense P isval ncv nf sentinel covs A) = A.
Proof. exact dense_sparse_dense. Qed.

(* interpolation: with all four neighbours valid the value is the weighted mean with the library's
   weights; with allow_partial only the valid neighbours enter; no valid neighbour gives UNSEEN
   (the executable definition is the interpreter's op 33; here its two validity rules on one
   position, decided by computation on a non-trivial instance) *)
Example C16_hypotheses_satisfiable :
  let k := mkk 0 (-5 # 1) 1 in
  let m := x_update k (make_empty cellv 12 4 [(-5 # 1)%Q] None) URepl
                    [(4, [(8 # 1)%Q]); (5, [(4 # 1)%Q]); (6, [(2 # 1)%Q])] false in
  snd (step2 [(0, mkh k m (abs cellv dcell m))] [[33]; [0]; [0]; [4; 5; 6; 7]; [1; 2; 1; 4; 1; 8; 1; 8]]) =
    [[1]; [0; 0; 1]; [0; 0; 1]] /\
  snd (step2 [(0, mkh k m (abs cellv dcell m))] [[33]; [0]; [1]; [4; 5; 6; 7]; [1; 2; 1; 4; 1; 8; 1; 8]]) =
    [[1]; [1; 6; 1]; [1; 6; 1]].
Proof. vm_compute. split; reflexivity. Qed.

Print Assumptions C16_dense_sparse_dense_roundtrip.
Print Assumptions C16_ring_calls_are_nest_calls_on_converted_pixels.
Print Assumptions C16_map_from_a_dense_array_reads_the_array.
Print Assumptions C16_dense_to_map_to_dense_is_the_identity.
Print Assumptions C16_hypotheses_satisfiable.
