(* C08 — Pixel-range and geometry updates equal the explicit-pixel update.
   Statements only; proofs in RangeProofs.v and RangeRefine.v.  The dense specification of a range
   update IS the explicit-pixel update of the pixels the ranges contain (the interpreter's op 23
   computes d_update over expand_ranges); the slice path Ops.update_ranges is compared with it on
   every run for every alignment class.  Proved here: what the ranges contain, that the coverage
   pixels reserved by the slice path are a superset of the needed ones, that one slice-wise
   operation changes exactly the cells of its slice, and the composition over all rows and all
   blocks: on every well-formed map the slice path reads, at every pixel, as the explicit-pixel
   update of the pixels the ranges contain, and keeps the layout.  The one exclusion ('add' on a
   map with non-zero sentinel needs non-overlapping ranges) is exact: with overlapping ranges the
   two paths differ (finding F36), shown by the refuted statement below. *)
From Coq Require Import QArith.
From HS Require Import Prelude Cov Map Spec Ops Spec2 Params AtFold MapProofs RangeProofs RangeRefine RangeAbs Exec Exec2 ExecProofs.
Open Scope Z_scope.

Theorem C08_ranges_contain :
  forall rows p, In p (expand_ranges rows) <-> exists r, In r rows /\ fst r <= p < snd r.
Proof. exact In_expand_ranges. Qed.

Theorem C08_reserved_coverage_is_a_superset :
  forall nf ncv rows p, 0 < nf -> In p (expand_ranges rows) -> 0 <= p < ncv * nf ->
    In (p / nf) (ranges_cov_pixels nf ncv rows).
Proof. exact ranges_cov_superset. Qed.

Theorem C08_slice_operation_pointwise :
  forall (P : params) o value (s : list (p_V P)) start stop i,
    0 <= start -> stop <= zlen s ->
    znth (p_dv P) (range_op (p_V P) (p_vadd P) (p_vor P) (p_vand P) (p_vzero P) (p_is_sent P) (p_sent_nonzero P)
                            o value s start stop) i =
    if (start <=? i) && (i <? stop) then range_elem P o value (znth (p_dv P) s i) else znth (p_dv P) s i.
Proof. exact range_op_pointwise. Qed.

(* all rows, all blocks, any block order, any number of ranges: the slice path = the explicit-pixel
   update of the contained pixels, at every pixel *)
Theorem C08_range_update_equals_explicit_pixel_update :
  forall (P : params) o (value : p_V P) (m : smap (p_V P)) (na : bool) (rows : list (Z * Z)) q,
    MapProofs.wf P m -> (forall r, In r rows -> row_ok P m r) ->
    (o = UAdd -> p_sent_nonzero P = true -> NoDup (expand_ranges rows)) ->
    0 <= q < npix (p_V P) m ->
    read (p_V P) (p_dv P)
         (update_ranges (p_V P) (p_dv P) (p_vadd P) (p_vor P) (p_vand P) (p_vzero P) (p_is_sent P)
                        (p_sent_nonzero P) m o rows value na) q =
    read (p_V P) (p_dv P)
         (update (p_V P) (p_dv P) (p_vadd P) (p_vor P) (p_vand P) (p_vzero P) (p_is_sent P)
                 (p_sent_nonzero P) m o (map (fun p => (p, value)) (expand_ranges rows)) na) q.
Proof. exact ranges_eq_pixels. Qed.

Theorem C08_range_update_keeps_layout :
  forall (P : params) o (value : p_V P) (m : smap (p_V P)) (na : bool) (rows : list (Z * Z)),
    MapProofs.wf P m -> (forall r, In r rows -> row_ok P m r) ->
    MapProofs.wf P (update_ranges (p_V P) (p_dv P) (p_vadd P) (p_vor P) (p_vand P) (p_vzero P) (p_is_sent P)
                                  (p_sent_nonzero P) m o rows value na).
Proof. intros P o value m na rows W H. exact (ranges_wf P o value m W na rows H). Qed.

(* the exclusion above is needed: 'add' of -1 over the overlapping ranges [2,6) and [4,8) on a map
   whose sentinel is -1 — the slice path re-tests "cell = sentinel" before the second row (finding
   F36, replayed against the implementation on every run) *)
Theorem C08_overlapping_add_with_nonzero_sentinel_refuted :
  let k := mkk 0 (-1 # 1) 1 in
  let m0 := make_empty cellv 3 4 [(-1 # 1)%Q] (Some [0; 1]) in
  let v := [(-1 # 1)%Q] in
  let rows := [(2, 6); (4, 8)] in
  exists q,
    veqb (read cellv dcell (update_ranges cellv dcell v_add v_or v_and (k_zero k) (k_is_sent k) (k_sent_nonzero k) m0 UAdd rows v false) q)
         (read cellv dcell (x_update k m0 UAdd (map (fun p => (p, v)) (expand_ranges rows)) false) q) = false.
Proof. exists 4. vm_compute. reflexivity. Qed.

(* every alignment of one range against the block edges and the last pixel, on a 48-pixel map,
   every operation: the slice path and the explicit-pixel path give the same dense array
   (finite domain, decided completely by computation) *)
Definition c08_ops := [URepl; UAdd].
Definition c08_agree (o : uop) (a b : Z) : bool :=
  let k := mkk 0 (-5 # 1) 1 in
  let m0 := x_update k (make_empty cellv 12 4 [(-5 # 1)%Q] None) URepl [(5, [(1 # 1)%Q]); (30, [(2 # 1)%Q])] false in
  let v := [(3 # 1)%Q] in
  let m1 := update_ranges cellv dcell v_add v_or v_and (k_zero k) (k_is_sent k) (k_sent_nonzero k) m0 o [(a, b)] v false in
  let m2 := x_update k m0 o (map (fun p => (p, v)) (zrange a b)) false in
  forallb (fun p => veqb (read cellv dcell m1 p) (read cellv dcell m2 p)) (zrange 0 48).

Theorem C08_single_range_all_alignments :
  forallb (fun o => forallb (fun a => forallb (fun b => c08_agree o a b) (zrange a 49)) (zrange 0 48)) c08_ops = true.
Proof. vm_compute. reflexivity. Qed.

(* C08: rows starting in an uncovered coverage pixel, crossing block edges, ending at the last pixel *)
Example C08_rows_hypotheses_satisfiable :
  let k := mkk 0 (-5 # 1) 1 in
  let m := x_update k (make_empty cellv 12 4 [(-5 # 1)%Q] None) URepl [(45, [(7 # 1)%Q])] false in
  forall r, In r [(2, 11); (40, 48); (7, 7)] -> row_ok (xparams k) m r.
Proof.
  intros k m.
  assert (E : npix cellv m = 48) by (vm_compute; reflexivity).
  intros r [<-|[<-|[<-|[]]]]; unfold row_ok; cbn [fst snd p_V xparams]; rewrite E; lia.
Qed.


(* the whole result of the slice path as a function of the dense abstraction: the values of the explicit-pixel
   update of the contained pixels, and a coverage mask holding the old coverage plus EVERY coverage pixel a
   range touches (a superset of what the explicit-pixel route reserves: the one difference the two routes may show) *)
Theorem C08_range_update_refines_the_dense_range_update :
  forall (P : params) (m : smap (p_V P)) (o : uop) (rows : list (Z * Z)) (value : p_V P) (na : bool),
    MapProofs.wf P m -> (forall r, In r rows -> row_ok P m r) ->
    (o = UAdd -> p_sent_nonzero P = true -> NoDup (expand_ranges rows)) ->
    abs (p_V P) (p_dv P)
        (update_ranges (p_V P) (p_dv P) (p_vadd P) (p_vor P) (p_vand P) (p_vzero P) (p_is_sent P) (p_sent_nonzero P)
                       m o rows value na) =
    d_update_ranges P (abs (p_V P) (p_dv P) m) o rows value na.
Proof. exact ranges_refines. Qed.

Print Assumptions C08_ranges_contain.
Print Assumptions C08_reserved_coverage_is_a_superset.
Print Assumptions C08_slice_operation_pointwise.
Print Assumptions C08_range_update_equals_explicit_pixel_update.
Print Assumptions C08_range_update_keeps_layout.
Print Assumptions C08_overlapping_add_with_nonzero_sentinel_refuted.
Print Assumptions C08_single_range_all_alignments.
Print Assumptions C08_rows_hypotheses_satisfiable.
Print Assumptions C08_range_update_refines_the_dense_range_update.
