(* C17 — A MOC written from a map covers exactly the map's valid pixels.
   Statements only; proofs in MocProofs.v.  The writer model Moc.moc_cells and the reader model
   Moc.moc_expand are executable and compared with the UNIQ column actually written and with the
   map read back on every run. *)
From HS Require Import Prelude Moc MocProofs.
Open Scope Z_scope.

(* a UNIQ number decodes (floor(log2(u/4))/2, u - 4*4^order) to the order and pixel it encodes *)
Theorem C17_uniq_decode_encode :
  forall order ipix, 0 <= order -> 0 <= ipix < 12 * 4 ^ order ->
    uniq_order (uniq_of order ipix) = order /\ uniq_index (uniq_of order ipix) = ipix.
Proof. exact uniq_decode_encode. Qed.

(* the reader expands a cell to exactly the pixels whose ancestor it is *)
Theorem C17_expansion_is_the_descendants :
  forall mx l q p, 0 <= l <= mx -> 0 <= p ->
    (q * 4 ^ (mx - l) <= p < (q + 1) * 4 ^ (mx - l)) <-> ancestor mx l p = q.
Proof. exact expansion_is_the_descendants. Qed.

(* cells are nested or disjoint: two cells of one order never share a pixel, and the ancestor of
   an ancestor is the ancestor *)
Theorem C17_cells_of_one_order_are_disjoint :
  forall mx l q1 q2 p, 0 <= l <= mx -> 0 <= p ->
    q1 * 4 ^ (mx - l) <= p < (q1 + 1) * 4 ^ (mx - l) ->
    q2 * 4 ^ (mx - l) <= p < (q2 + 1) * 4 ^ (mx - l) -> q1 = q2.
Proof. exact cells_of_one_order_disjoint. Qed.

Theorem C17_ancestors_compose :
  forall mx l1 l2 p, 0 <= l1 <= l2 -> l2 <= mx -> 0 <= p ->
    ancestor l2 l1 (ancestor mx l2 p) = ancestor mx l1 p.
Proof. exact ancestor_compose. Qed.

(* a cell is merged only when its EXACT child count is 4^depth (fix F09): then every pixel below
   it is valid, so the expansion of a written cell adds no pixel — at any depth *)
Theorem C17_a_full_cell_contains_only_valid_pixels :
  forall mx l (vs : list Z) q p,
    0 <= l <= mx -> NoDup vs -> (forall x, In x vs -> 0 <= x) ->
    cell_full mx l vs q = true -> 0 <= q ->
    q * 4 ^ (mx - l) <= p < (q + 1) * 4 ^ (mx - l) -> In p vs.
Proof. exact full_cell_all_valid. Qed.

(* the executable writer + reader reproduce a valid set with full and nearly full cells *)
Example C17_hypotheses_satisfiable :
  let vs := zrange 16 32 ++ [40; 41; 42] ++ zrange 64 128 in
  moc_cells 3 0 vs = [uniq_of 0 1; uniq_of 1 1; uniq_of 3 40; uniq_of 3 41; uniq_of 3 42] /\
  moc_expand 3 (moc_cells 3 0 vs) = vs /\
  cell_full 3 2 vs 2 = false.
Proof. vm_compute. repeat split; reflexivity. Qed.

Print Assumptions C17_uniq_decode_encode.
Print Assumptions C17_expansion_is_the_descendants.
Print Assumptions C17_cells_of_one_order_are_disjoint.
Print Assumptions C17_ancestors_compose.
Print Assumptions C17_a_full_cell_contains_only_valid_pixels.
Print Assumptions C17_hypotheses_satisfiable.
