(* C17 — A MOC written from a map covers exactly the map's valid pixels.
   Statements only; proofs in MocProofs.v (cell arithmetic) and MocRefine.v (the writer loop, for
   every valid set and every pair of orders).  The writer model Moc.moc_cells and the reader model
   Moc.moc_expand are executable and compared with the UNIQ column actually written and with the
   map read back on every run. *)
From HS Require Import Prelude Moc MocProofs MocRefine MocReader.
Open Scope Z_scope.

(* a UNIQ number decodes (floor(log2(u/4))/2, u - 4*4^order) to the order and pixel it encodes *)
Theorem C17_uniq_decode_encode :
  forall order ipix, 0 <= order -> 0 <= ipix < 12 * 4 ^ order ->
    uniq_order (uniq_of order ipix) = order /\ uniq_index (uniq_of order ipix) = ipix.
Proof. exact uniq_decode_encode. Qed.

(* the reader expands a cell to exactly the pixels whose ancestor it is *)
Theorem C17_expansion_is_the_descendants :
  forall mx l q p, 0 <= l <= mx -> 0 <= p ->
    (q * 4 ^ (mx - l) <= p < (q + 1) * 4 ^ (mx - l)) <-> ancestor mx l p = q.
Proof. exact expansion_is_the_descendants. Qed.

(* cells are nested or disjoint: two cells of one order never share a pixel, and the ancestor of
   an ancestor is the ancestor *)
Theorem C17_cells_of_one_order_are_disjoint :
  forall mx l q1 q2 p, 0 <= l <= mx -> 0 <= p ->
    q1 * 4 ^ (mx - l) <= p < (q1 + 1) * 4 ^ (mx - l) ->
    q2 * 4 ^ (mx - l) <= p < (q2 + 1) * 4 ^ (mx - l) -> q1 = q2.
Proof. exact cells_of_one_order_disjoint. Qed.

Theorem C17_ancestors_compose :
  forall mx l1 l2 p, 0 <= l1 <= l2 -> l2 <= mx -> 0 <= p ->
    ancestor l2 l1 (ancestor mx l2 p) = ancestor mx l1 p.
Proof. exact ancestor_compose. Qed.

(* a cell is merged only when its EXACT child count is 4^depth (fix F09): then every pixel below
   it is valid, so the expansion of a written cell adds no pixel — at any depth *)
Theorem C17_a_full_cell_contains_only_valid_pixels :
  forall mx l (vs : list Z) q p,
    0 <= l <= mx -> NoDup vs -> (forall x, In x vs -> 0 <= x) ->
    cell_full mx l vs q = true -> 0 <= q ->
    q * 4 ^ (mx - l) <= p < (q + 1) * 4 ^ (mx - l) -> In p vs.
Proof. exact full_cell_all_valid. Qed.

(* ---- the writer loop, for every valid set: sum-degrade level by level from the map's order down
   to the coverage order, replace every pixel under a full cell by that cell, stop at the first
   level without a full cell, remove duplicates.  [vs] is the list of valid pixels (no repetition,
   inside the sphere at order mx), mn the coverage order. ---- *)

(* the cells written, expanded at the original order, are exactly the valid pixels *)
Theorem C17_written_cells_cover_exactly_the_valid_pixels :
  forall mx mn (vs : list Z),
    0 <= mn <= mx -> NoDup vs -> (forall x, In x vs -> 0 <= x < 12 * 4 ^ mx) ->
    forall x, In x (moc_expand mx (moc_cells mx mn vs)) <-> In x vs.
Proof. exact moc_covers_exactly. Qed.

(* two written cells that share a pixel are the same cell: the cells are pairwise disjoint *)
Theorem C17_written_cells_pairwise_disjoint :
  forall mx mn (vs : list Z),
    0 <= mn <= mx -> NoDup vs -> (forall x, In x vs -> 0 <= x < 12 * 4 ^ mx) ->
    forall u1 u2 x, In u1 (moc_cells mx mn vs) -> In u2 (moc_cells mx mn vs) ->
      In x (expand_cell mx u1) -> In x (expand_cell mx u2) -> u1 = u2.
Proof. exact moc_cells_disjoint. Qed.

(* no cell is coarser than the coverage order (nor finer than the map) *)
Theorem C17_no_cell_coarser_than_the_coverage_order :
  forall mx mn (vs : list Z),
    0 <= mn <= mx -> NoDup vs -> (forall x, In x vs -> 0 <= x < 12 * 4 ^ mx) ->
    forall u, In u (moc_cells mx mn vs) -> mn <= uniq_order u <= mx.
Proof. exact moc_cells_order. Qed.

(* each pixel ends in the coarsest full cell above it that is not coarser than the coverage order;
   the early exit of the loop loses nothing, because fullness is inherited by descendants *)
Theorem C17_each_pixel_ends_in_its_coarsest_full_ancestor :
  forall mx mn (vs : list Z),
    0 <= mn <= mx -> NoDup vs -> (forall x, In x vs -> 0 <= x < 12 * 4 ^ mx) ->
    forall p, In p vs ->
      exists k, mn <= k <= mx /\ final_u mx mn vs p = uniq_of k (ancestor mx k p) /\
                fullx mx vs k p /\ forall k', mn <= k' < k -> full mx vs k' p = false.
Proof. exact moc_cell_is_coarsest_full_ancestor. Qed.

(* the reader works at the finest order PRESENT in the file (coarser than the map's when every pixel was
   merged): on the sky that makes no difference — a pixel of the original order is valid iff its ancestor
   at the reader's order is set in the map read back *)
Theorem C17_reader_order_is_immaterial :
  forall mx mn (vs : list Z),
    0 <= mn <= mx -> NoDup vs -> (forall x, In x vs -> 0 <= x < 12 * 4 ^ mx) ->
    forall x, 0 <= x ->
      (In x vs <-> In (ancestor mx (moc_max_order (moc_cells mx mn vs)) x)
                      (moc_expand (moc_max_order (moc_cells mx mn vs)) (moc_cells mx mn vs))).
Proof. exact reader_at_its_own_order_covers_the_same_sky. Qed.

(* the executable writer + reader reproduce a valid set with full and nearly full cells *)
Example C17_hypotheses_satisfiable :
  let vs := zrange 16 32 ++ [40; 41; 42] ++ zrange 64 128 in
  moc_cells 3 0 vs = [uniq_of 0 1; uniq_of 1 1; uniq_of 3 40; uniq_of 3 41; uniq_of 3 42] /\
  moc_expand 3 (moc_cells 3 0 vs) = vs /\
  cell_full 3 2 vs 2 = false.
Proof. vm_compute. repeat split; reflexivity. Qed.

Fixpoint nodupb (l : list Z) : bool :=
  match l with [] => true | x :: t => negb (existsb (Z.eqb x) t) && nodupb t end.
Lemma nodupb_sound l : nodupb l = true -> NoDup l.
Proof.
  induction l as [|x t IH]; cbn [nodupb]; intros H; constructor.
  - intros Hin. apply andb_prop in H. destruct H as [H _].
    assert (existsb (Z.eqb x) t = true) by (apply existsb_exists; exists x; split; [exact Hin|apply Z.eqb_refl]).
    rewrite H0 in H. discriminate.
  - apply IH. apply andb_prop in H. apply H.
Qed.

(* C17: a valid set with a full cell and a nearly full one *)
Example C17_writer_hypotheses_satisfiable :
  let vs := zrange 16 32 ++ [40; 41; 42] ++ zrange 64 128 in
  0 <= 0 <= 3 /\ NoDup vs /\ (forall x, In x vs -> 0 <= x < 12 * 4 ^ 3) /\
  moc_max_order (moc_cells 3 0 vs) = 3.
Proof.
  cbv zeta. split; [lia|]. split.
  - apply nodupb_sound. vm_compute. reflexivity.
  - split; [|vm_compute; reflexivity].
    intros x Hx. assert (H : forallb (fun x => (0 <=? x) && (x <? 12 * 4 ^ 3)) (zrange 16 32 ++ [40; 41; 42] ++ zrange 64 128) = true) by (vm_compute; reflexivity).
    rewrite forallb_forall in H. specialize (H x Hx). lia.
Qed.

Print Assumptions C17_uniq_decode_encode.
Print Assumptions C17_expansion_is_the_descendants.
Print Assumptions C17_cells_of_one_order_are_disjoint.
Print Assumptions C17_ancestors_compose.
Print Assumptions C17_a_full_cell_contains_only_valid_pixels.
Print Assumptions C17_written_cells_cover_exactly_the_valid_pixels.
Print Assumptions C17_written_cells_pairwise_disjoint.
Print Assumptions C17_no_cell_coarser_than_the_coverage_order.
Print Assumptions C17_each_pixel_ends_in_its_coarsest_full_ancestor.
Print Assumptions C17_reader_order_is_immaterial.
Print Assumptions C17_hypotheses_satisfiable.
Print Assumptions C17_writer_hypotheses_satisfiable.
