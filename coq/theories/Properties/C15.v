(* C15 — Changing resolution is consistent: upgrade, finer-pixel lookup, fracdet.
   Statements only; proofs in RebuildProofs.v. *)
From Coq Require Import QArith.
From HS Require Import Prelude Cov Map Spec Ops Spec2 Params AtFold MapProofs UpdateProofs HistoryProofs
     LayoutProofs AccountProofs OpsProofs RebuildProofs FracdetProofs CongRefine FracdetAbs Exec Exec2 ExecProofs.
Open Scope Z_scope.

Section C15.
Variable P : params.
Notation V := (p_V P).

(* upgrading replicates every pixel's value or invalidity to all of its children (child p of
   parent p / r), for every block order of the source *)
Theorem C15_upgrade_replicates :
  forall (r : Z) (m : smap V) p, wf P m -> 0 < r -> 0 <= p < npix V m * r ->
    read V (p_dv P) (upgrade V r m) p = read V (p_dv P) m (p / r).
Proof. exact (upgrade_read P). Qed.

(* the same at the level of the whole map: the abstraction of the upgraded map is the dense upgrade
   (resolution, every pixel, coverage mask, blank value) *)
Theorem C15_upgrade_refines :
  forall (r : Z) (m : smap V), wf P m -> 0 < r ->
    abs V (p_dv P) (upgrade V r m) = d_upgrade V (p_dv P) r (abs V (p_dv P) m).
Proof. exact (upgrade_refines P). Qed.

Theorem C15_upgrade_keeps_layout :
  forall (r : Z) (m : smap V), wf P m -> 0 < r -> wf P (upgrade V r m).
Proof. exact (upgrade_wf P). Qed.

(* degrading the upgraded map back with any reduction that returns v on r copies of v (mean,
   median, minimum, maximum) restores the original, pixel for pixel *)
Theorem C15_degrade_of_upgrade_is_identity :
  forall (red : list (V * V) -> V) (r : Z) (m : smap V) (wsp wd : list V) q,
    wf P m -> 0 < r -> aligned P P (upgrade V r m) wsp wd -> 0 <= q < npix V m ->
    (forall v (l : list Z), l <> [] -> red (map (fun x => (v, znth (p_dv P) wd x)) l) = v) ->
    read V (p_dv P) (degrade2 V V red r (blank m) (upgrade V r m) wsp) q = read V (p_dv P) m q.
Proof. exact (degrade_upgrade_read P). Qed.

(* the fractional-detection map at any permitted resolution is exactly the number of valid
   children of each pixel (over the number of children), and at the coverage resolution it
   coincides with the coverage-fraction map *)
Theorem C15_fracdet_is_the_fraction_of_valid_children :
  forall (m : smap V) r q, wf P m -> 0 < r -> nfine m mod r = 0 -> 0 <= q < npix V m / r ->
    read Z 0 (fracdet_map P m r) q = d_group_count V (p_valid P) (p_dv P) (abs V (p_dv P) m) r q.
Proof. exact (fracdet_read P). Qed.

Theorem C15_fracdet_at_coverage_resolution_is_the_coverage_map :
  forall (m : smap V) c, wf P m -> 0 <= c < ncov V m ->
    read Z 0 (fracdet_map P m (nfine m)) c = znth 0 (coverage_counts V (p_valid P) m) c.
Proof.
  intros m c W Hc. pose proof (wf_nf P m W) as Hnf.
  assert (Hms : nfine m mod nfine m = 0) by (apply Z.mod_same; lia).
  rewrite (fracdet_read P m (nfine m) c W Hnf Hms).
  - rewrite (coverage_counts_spec P m c W Hc). reflexivity.
  - unfold Map.npix. rewrite Z.div_mul by lia. exact Hc.
Qed.

End C15.

Example C15_hypotheses_satisfiable :
  let k := mkk 0 (-5 # 1) 1 in
  let m := x_update k (make_empty cellv 12 4 [(-5 # 1)%Q] None) URepl
                    [(45, [(7 # 1)%Q]); (3, [(9 # 2)%Q])] false in
  wf (xparams k) m /\ read cellv dcell (upgrade cellv 4 m) 183 = [(7 # 1)%Q] /\
  read cellv dcell (upgrade cellv 4 m) 179 = [(-5 # 1)%Q].
Proof.
  cbv zeta. split; [|split; vm_compute; reflexivity].
  apply x_update_wf.
  - apply (make_empty_wf (xparams (mkk 0 (-5 # 1) 1))); [lia|lia|reflexivity|exact I].
  - intros pv [<-|[<-|[]]]; (split; [apply Z.leb_le|apply Z.ltb_lt]; vm_compute; reflexivity).
Qed.

(* the whole fractional-detection map as a function of the dense abstraction: per coarse pixel the number of
   valid children, on the same coverage mask, whatever the block order *)
Theorem C15_fracdet_map_refines_the_dense_count :
  forall (P : params) (m : smap (p_V P)) (r : Z),
    MapProofs.wf P m -> 0 < r -> nfine m mod r = 0 ->
    abs Z 0 (fracdet_map P m r) = d_fracdet P (abs (p_V P) (p_dv P) m) r.
Proof. exact fracdet_refines. Qed.

(* looking a map up with pixel numbers of a finer resolution (get_values_pix(pixels, nside=finer) shifts the
   numbers down and reads): the value of the containing pixel, i.e. the lookup on the upgraded map *)
Theorem C15_finer_lookup_is_the_lookup_on_the_upgraded_map :
  forall (P : params) (r : Z) (m : smap (p_V P)) p,
    MapProofs.wf P m -> 0 < r -> 0 <= p < npix (p_V P) m * r ->
    read (p_V P) (p_dv P) m (p / r) = read (p_V P) (p_dv P) (upgrade (p_V P) r m) p.
Proof. intros P r m p W Hr Hp. symmetry. exact (upgrade_read P r m p W Hr Hp). Qed.

Print Assumptions C15_upgrade_replicates.
Print Assumptions C15_upgrade_refines.
Print Assumptions C15_upgrade_keeps_layout.
Print Assumptions C15_degrade_of_upgrade_is_identity.
Print Assumptions C15_fracdet_is_the_fraction_of_valid_children.
Print Assumptions C15_fracdet_at_coverage_resolution_is_the_coverage_map.
Print Assumptions C15_hypotheses_satisfiable.
Print Assumptions C15_fracdet_map_refines_the_dense_count.
Print Assumptions C15_finer_lookup_is_the_lookup_on_the_upgraded_map.
