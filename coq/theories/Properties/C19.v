(* C19 — Degrade-on-read equals reading and then degrading.
   Statements only.  The on-read path is modelled as what it computes: the partial read of the
   requested covered coverage pixels (all covered ones when no subset is given) followed by the
   per-block reduction; the theorem is the composition of C03 (partial read = restriction) and C07
   (degrade reduces exactly the children): coarse pixel q of the result is the reduction of the
   children of q in the ORIGINAL map when its coverage pixel was covered and requested, the output
   sentinel otherwise.  The implementation's two paths are compared with each other and with this
   model on every run. *)
From Coq Require Import QArith.
From HS Require Import Prelude Cov Map Spec Ops Spec2 Params AtFold MapProofs UpdateProofs HistoryProofs
     LayoutProofs AccountProofs OpsProofs RebuildProofs PartialProofs RdegRefine Exec Exec2 ExecProofs.
Open Scope Z_scope.

Section C19.
Variables P P' : params.
Notation V := (p_V P).
Notation W := (p_V P').

Theorem C19_degrade_of_partial_read :
  forall (red : list (V * W) -> W) (r : Z) (nb : W) (m m' : smap V) (req : list Z) (wsp wd : list W) q,
    wf P m -> read_partial V m req = Some m' ->
    0 < r -> nfine m mod r = 0 -> aligned P P' m' wsp wd -> 0 <= q < npix V m / r ->
    read W (p_dv P') (degrade2 V W red r nb m' wsp) q =
    if covered V m (q / (nfine m / r)) && existsb (Z.eqb (q / (nfine m / r))) req
    then red (map (fun x => (read V (p_dv P) m' x, znth (p_dv P') wd x)) (zrange (q * r) ((q + 1) * r)))
    else nb.
Proof.
  intros red r nb m m' req wsp wd q Wm E Hr Hdiv Hal Hq.
  destruct (read_partial_spec P m m' req Wm E) as [W' [Enp [_ Hcov]]].
  assert (Enf : nfine m' = nfine m).
  { unfold read_partial in E. destruct (filter _ _); [discriminate|]. injection E as <-. reflexivity. }
  rewrite (degrade2_read P P' red r nb m' wsp wd q W' Hr); try assumption.
  - rewrite Enf.
    pose proof (wf_nf P m Wm) as Hnf.
    apply Z.mod_divide in Hdiv; [|lia]. destruct Hdiv as [nf' Enf'].
    assert (Hn' : 0 < nf') by nia.
    assert (Hc : 0 <= q / (nfine m / r) < ncov V m).
    { rewrite Enf', Z.div_mul by lia. unfold Map.npix in Hq. rewrite Enf' in Hq.
      replace (ncov V m * (nf' * r)) with (ncov V m * nf' * r) in Hq by lia. rewrite Z.div_mul in Hq by lia.
      split; [apply Z.div_pos; lia|apply Z.div_lt_upper_bound; lia]. }
    rewrite (Hcov _ Hc). reflexivity.
  - rewrite Enf. exact Hdiv.
  - rewrite Enp. exact Hq.
Qed.

(* the on-read routine as it is written — block by block over the requested covered coverage pixels in
   ascending order, each block (and weight block) reduced and stored as the next block of an output indexed
   by make_from_pixels of that list — returns THE SAME map, index and storage, as the in-memory degrade of
   the partial read with the weight blocks laid out in the same order *)
Theorem C19_on_read_routine_is_degrade_of_the_partial_read :
  forall (red : list (V * W) -> W) (r : Z), 0 < r ->
  forall (nb : W) (m m' : smap V) (wblk : Z -> list W) (wovf : list W) (req : list Z),
    wf P m -> nfine m mod r = 0 -> read_partial V m req = Some m' ->
    zlen wovf = nfine m -> (forall c, In c (selected P m req) -> zlen (wblk c) = nfine m) ->
    rdeg P P' red r nb m wblk req =
    Some (degrade2 V W red r nb m' (wovf ++ flat_map wblk (selected P m req))).
Proof. exact (rdeg_is_degrade_of_partial_read P P'). Qed.

End C19.

Example C19_hypotheses_satisfiable :
  let k := mkk 0 (-5 # 1) 1 in
  let m := x_update k (make_empty cellv 12 4 [(-5 # 1)%Q] None) URepl
                    [(45, [(7 # 1)%Q]); (3, [(9 # 2)%Q]); (44, [(1 # 1)%Q])] false in
  let kout := mkk 0 (-9 # 1) 1 in
  match read_partial cellv m [11; 5] with
  | Some m' =>
    x_values (degrade2 cellv cellv (red_cells k 0 kout [(-9 # 1)%Q]) 4 [(-9 # 1)%Q] m' (map (fun _ => [q0]) (sp m'))) =
    [[(-9#1)%Q]; [(-9#1)%Q]; [(-9#1)%Q]; [(-9#1)%Q]; [(-9#1)%Q]; [(-9#1)%Q]; [(-9#1)%Q]; [(-9#1)%Q];
     [(-9#1)%Q]; [(-9#1)%Q]; [(-9#1)%Q]; [(4#1)%Q]]
  | None => False
  end.
Proof. vm_compute. reflexivity. Qed.

Print Assumptions C19_degrade_of_partial_read.
Print Assumptions C19_on_read_routine_is_degrade_of_the_partial_read.
Print Assumptions C19_hypotheses_satisfiable.
