(* C11 — Boolean mask algebra follows the documented coverage-scoped semantics.
   Statements only; proofs in OpsProofs.v (inversion / constants, L1 -> L0), BoolLaws.v (the algebra
   of the dense specification d_bool_op), BoolRefine.v / AbsRefine.v (the block-copy implementation
   of the map-with-map operators, Ops.bool_map_op_inplace / bool_map_op_copy, refines d_bool_op for
   all well-formed operands of one resolution, and the in-place form equals the copying form).  The
   implementation is compared with model and specification on every run. *)
From Coq Require Import QArith.
From HS Require Import Prelude Cov Map Spec Ops Spec2 Params AtFold MapProofs UpdateProofs HistoryProofs
     LayoutProofs AccountProofs OpsProofs BoolLaws BoolRefine AbsRefine Exec Exec2 ExecProofs.
Open Scope Z_scope.

Section C11.
Variable P : params.
Notation V := (p_V P).

(* invert (g = negation) and the operators with a boolean constant (g = fun v => f v c) change
   exactly the pixels inside the coverage mask *)
Theorem C11_invert_and_constants_refine :
  forall (g : V -> V) (m : smap V), wf P m ->
    abs V (p_dv P) (tail_map V g m) = d_cov_map V (p_dv P) g (abs V (p_dv P) m).
Proof. exact (tail_map_refines P). Qed.

Theorem C11_invert_pointwise :
  forall (g : V -> V) (m : smap V) p, wf P m -> 0 <= p < npix V m ->
    read V (p_dv P) (tail_map V g m) p =
    if covered V m (p / nfine m) then g (read V (p_dv P) m p) else read V (p_dv P) m p.
Proof. exact (tail_map_read P). Qed.

Theorem C11_invert_keeps_layout :
  forall (g : V -> V) (m : smap V), wf P m -> wf P (tail_map V g m).
Proof. exact (tail_map_wf P). Qed.

(* inversion is its own inverse *)
Theorem C11_double_inversion :
  forall (g : V -> V) (m : smap V), wf P m -> (forall v, g (g v) = v) ->
    abs V (p_dv P) (tail_map V g (tail_map V g m)) = abs V (p_dv P) m.
Proof. exact (tail_map_involutive P). Qed.

(* a op b (copying form) and a op= b (in-place form), as implemented block by block through the
   coverage index with growth of the left operand's coverage: both are well formed, both have the
   dense specification d_bool_op of the operands as their abstraction — so they are equal *)
Theorem C11_in_place_operator_refines :
  forall (f : V -> V -> V) (a b : smap V),
    wf P a -> wf P b -> nfine b = nfine a -> ncov V b = ncov V a ->
    wf P (bool_map_op_inplace V (p_dv P) f a b) /\
    abs V (p_dv P) (bool_map_op_inplace V (p_dv P) f a b) =
      d_bool_op V (p_dv P) f (abs V (p_dv P) a) (abs V (p_dv P) b).
Proof. exact (bool_inplace_refines P). Qed.

Theorem C11_copying_operator_refines :
  forall (f : V -> V -> V) (a b : smap V) (vfalse : V),
    wf P a -> wf P b -> nfine b = nfine a -> ncov V b = ncov V a -> vfalse = blank a ->
    wf P (bool_map_op_copy V vfalse f a b) /\
    abs V (p_dv P) (bool_map_op_copy V vfalse f a b) =
      d_bool_op V (p_dv P) f (abs V (p_dv P) a) (abs V (p_dv P) b).
Proof. exact (bool_copy_refines P). Qed.

Theorem C11_in_place_equals_copying :
  forall (f : V -> V -> V) (a b : smap V) (vfalse : V),
    wf P a -> wf P b -> nfine b = nfine a -> ncov V b = ncov V a -> vfalse = blank a ->
    abs V (p_dv P) (bool_map_op_inplace V (p_dv P) f a b) = abs V (p_dv P) (bool_map_op_copy V vfalse f a b).
Proof. exact (bool_inplace_abs_eq_copy P). Qed.

End C11.

Section C11_spec.
Variable V : Type.
Variable dv : V.

(* a op b: a outside b's coverage, pixelwise inside, union of the coverage masks *)
Theorem C11_outside_coverage :
  forall f (a b : dmap V) p, 0 <= p < d_npix V a -> d_cov V b p = false ->
    d_read V dv (d_bool_op V dv f a b) p = d_read V dv a p.
Proof. exact (bool_op_outside V dv). Qed.

Theorem C11_inside_coverage :
  forall f (a b : dmap V) p, 0 <= p < d_npix V a -> d_cov V b p = true ->
    d_read V dv (d_bool_op V dv f a b) p = f (d_read V dv a p) (d_read V dv b p).
Proof. exact (bool_op_inside V dv). Qed.

Theorem C11_coverage_union :
  forall f (a b : dmap V) c, 0 <= c < d_ncov V a ->
    znth false (dcov (d_bool_op V dv f a b)) c = znth false (dcov a) c || znth false (dcov b) c.
Proof. exact (bool_op_cov V dv). Qed.

Theorem C11_commutative_where_both_cover :
  forall f (a b : dmap V) p, (forall x y, f x y = f y x) ->
    0 <= p < d_npix V a -> 0 <= p < d_npix V b -> d_cov V a p = true -> d_cov V b p = true ->
    d_read V dv (d_bool_op V dv f a b) p = d_read V dv (d_bool_op V dv f b a) p.
Proof. exact (bool_op_comm V dv). Qed.

Theorem C11_de_morgan :
  forall (vand vor : V -> V -> V) (vnot : V -> V),
    (forall x y, vnot (vand x y) = vor (vnot x) (vnot y)) ->
    forall (a b : dmap V) p,
    0 <= p < d_npix V a -> d_cov V b p = true -> d_cov V a p = true ->
    d_npix V b = d_npix V a -> d_nfine b = d_nfine a -> zlen (dcov b) = zlen (dcov a) ->
    d_read V dv (d_cov_map V dv vnot (d_bool_op V dv vand a b)) p =
    d_read V dv (d_bool_op V dv vor (d_cov_map V dv vnot a) (d_cov_map V dv vnot b)) p.
Proof. intros vand vor vnot H. exact (bool_de_morgan V dv vand vor vnot H). Qed.

Theorem C11_absorption :
  forall (vand vor : V -> V -> V), (forall x y, vor x (vand x y) = x) ->
    forall (a b : dmap V) p, 0 <= p < d_npix V a -> d_cov V b p = true -> d_cov V a p = true ->
    d_read V dv (d_bool_op V dv vor a (d_bool_op V dv vand a b)) p = d_read V dv a p.
Proof. intros vand vor H. exact (bool_absorption V dv vand vor H). Qed.

End C11_spec.

(* the cell-level boolean functions of the executable model satisfy the hypotheses above on
   boolean cells *)
Definition bcell (b : bool) : cellv := [if b then 1%Q else 0%Q].
Definition x_not (v : cellv) : cellv := lift1 (fun x => if qnz x then q0 else 1%Q) v.
Definition x_and := lift2 (qfun 5).
Definition x_or := lift2 (qfun 6).

Theorem C11_exec_boolean_functions :
  forall x y : bool,
    x_and (bcell x) (bcell y) = bcell (x && y) /\ x_or (bcell x) (bcell y) = bcell (x || y) /\
    x_not (bcell x) = bcell (negb x) /\ x_not (x_not (bcell x)) = bcell x /\
    x_not (x_and (bcell x) (bcell y)) = x_or (x_not (bcell x)) (x_not (bcell y)) /\
    x_or (bcell x) (x_and (bcell x) (bcell y)) = bcell x.
Proof. intros [|] [|]; vm_compute; repeat split; reflexivity. Qed.

Example C11_hypotheses_satisfiable :
  let k := mkk 0 0 1 in
  let a := x_update k (make_empty cellv 12 8 [q0] None) URepl [(45, [1%Q]); (3, [1%Q])] false in
  let b := x_update k (make_empty cellv 12 8 [q0] None) URepl [(46, [1%Q]); (80, [1%Q])] false in
  x_values (bool_map_op_copy cellv [q0] x_or a b) = dense (d_bool_op cellv dcell x_or (abs cellv dcell a) (abs cellv dcell b)) /\
  x_values (bool_map_op_inplace cellv dcell x_or a b) = x_values (bool_map_op_copy cellv [q0] x_or a b) /\
  x_values (tail_map cellv x_not a) = dense (d_cov_map cellv dcell x_not (abs cellv dcell a)).
Proof. vm_compute. repeat split; reflexivity. Qed.

Print Assumptions C11_invert_and_constants_refine.
Print Assumptions C11_invert_pointwise.
Print Assumptions C11_invert_keeps_layout.
Print Assumptions C11_double_inversion.
Print Assumptions C11_in_place_operator_refines.
Print Assumptions C11_copying_operator_refines.
Print Assumptions C11_in_place_equals_copying.
Print Assumptions C11_outside_coverage.
Print Assumptions C11_inside_coverage.
Print Assumptions C11_coverage_union.
Print Assumptions C11_commutative_where_both_cover.
Print Assumptions C11_de_morgan.
Print Assumptions C11_absorption.
Print Assumptions C11_exec_boolean_functions.
Print Assumptions C11_hypotheses_satisfiable.
