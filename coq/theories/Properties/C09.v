(* C09 — Operations that return new maps never disturb, or stay tied to, their inputs.
   Statements only.  In the model every operation is a FUNCTION from the states of its arguments
   to the state of its result: an operation cannot change an argument, and a later change of
   either side cannot be seen through the other, by construction.  What has to be shown is that
   the implementation agrees with such a functional model along two-phase histories; that is the
   per-run correspondence of this property (harness/gens2.gen_c09).  The theorems below state the
   functional reading for the world of the interpreter: a step that writes handle [hout] leaves the
   state bound to every other handle untouched.

   Sharing itself is modelled in Heap.v: maps are objects referencing arrays (coverage object, storage,
   metadata) in a heap; a mutation writes a referenced array in place or rebinds a reference to a fresh
   array; coverage objects are never written in place (checked on every mutating call of a C09 history).
   Two objects whose mutable references are separate stay independent under every interleaving of
   mutations of either; a producer whose result shares no mutable reference (Sharing.prod_shares: every
   producer except the documented field view) returns such an object.  The table is compared on every
   run with what the implementation's result actually shares (identity of the coverage object,
   np.shares_memory of the storage, identity of the metadata). *)
From Coq Require Import QArith.
From HS Require Import Prelude Cov Map Spec Ops Spec2 Exec Exec2 Sharing Heap.
Open Scope Z_scope.

Lemma wget_wset_other w h h' s : h <> h' -> wget (wset w h s) h' = wget w h'.
Proof.
  intros Hne. induction w as [|[k s0] t IH]; cbn [wset wget].
  - destruct (h =? h') eqn:E; [lia|reflexivity].
  - destruct (k =? h) eqn:E1; cbn [wget].
    + destruct (h =? h') eqn:E2; [lia|]. destruct (k =? h') eqn:E3; [lia|reflexivity].
    + destruct (k =? h') eqn:E3; [reflexivity|exact IH].
Qed.

Lemma wget_wset_same w h s : wget (wset w h s) h = Some s.
Proof.
  induction w as [|[k s0] t IH]; cbn [wset wget].
  - rewrite Z.eqb_refl. reflexivity.
  - destruct (k =? h) eqn:E1; cbn [wget]; [rewrite Z.eqb_refl; reflexivity|rewrite E1; exact IH].
Qed.

(* binding a result never disturbs any other map of the world *)
Theorem C09_result_binding_is_frame_preserving :
  forall (w : world) hout s h, hout <> h -> wget (wset w hout s) h = wget w h.
Proof. intros w hout s h. apply wget_wset_other. Qed.

(* a copying producer (here: copy, scalar operator, astype, degrade, upgrade, boolean operator
   with a constant — the single-argument producers of the interpreter) leaves its argument's
   binding unchanged when the result is bound to a different handle *)
Theorem C09_single_argument_producers_leave_the_argument :
  forall (w : world) (op : list (list Z)) code h hout s,
    gz op 0 0 = code -> gz op 1 0 = h -> gz op 2 0 = hout ->
    In code [14; 16; 17; 20; 21; 24; 26] -> hout <> h -> wget w h = Some s ->
    wget (fst (step2 w op)) h = Some s.
Proof.
  intros w op code h hout s Ec Eh Eo Hcode Hne Hs.
  unfold step2. cbv zeta. rewrite Ec, Eh, Eo.
  assert (Hlt : (code <? 14) = false) by (cbn in Hcode; intuition lia).
  assert (H19 : (code =? 19) = false) by (cbn in Hcode; intuition lia).
  rewrite Hlt, H19, Hs.
  cbn in Hcode.
  destruct Hcode as [<-|[<-|[<-|[<-|[<-|[<-|[<-|[]]]]]]]]; cbn [Z.eqb Pos.eqb];
    try (cbn [fst]; rewrite wget_wset_other by exact Hne; exact Hs).
  (* degrade: the weights handle may be absent (error: world unchanged) or present *)
  destruct (gz op 5 0 <? 0);
    [cbn [fst]; rewrite wget_wset_other by exact Hne; exact Hs|].
  destruct (wget w (gz op 5 0));
    cbn [fst]; [rewrite wget_wset_other by exact Hne; exact Hs|exact Hs].
Qed.

(* ---- sharing (heap model) ---- *)

(* a mutation through one map never changes what is observed through a separate one *)
Theorem C09_mutation_is_invisible_through_a_separate_map :
  forall (A : Type) (h : heap A) (o1 o2 : obj) (m : mut A),
    live A h o1 -> live A h o2 -> separate o1 o2 -> cov_immutable A m ->
    observe A (fst (apply_mut A h o1 m)) o2 = observe A h o2.
Proof. exact other_side_unchanged. Qed.

(* any history of mutations (in-place writes, reallocation = growth / resize) of one map *)
Theorem C09_any_history_of_mutations_is_invisible :
  forall (A : Type) (ms : list (mut A)) (h : heap A) (o1 o2 : obj),
    live A h o1 -> live A h o2 -> separate o1 o2 -> Forall (cov_immutable A) ms ->
    let (h', o1') := apply_muts A h o1 ms in
    live A h' o1' /\ live A h' o2 /\ separate o1' o2 /\ observe A h' o2 = observe A h o2.
Proof. exact muts_frame. Qed.

(* interleaved histories of both maps keep them separate *)
Theorem C09_interleaved_histories_stay_separate :
  forall (A : Type) (ms : list (bool * mut A)) (h : heap A) (o1 o2 : obj),
    live A h o1 -> live A h o2 -> separate o1 o2 -> Forall (fun bm => cov_immutable A (snd bm)) ms ->
    let '(h', o1', o2') := apply_both A h o1 o2 ms in
    live A h' o1' /\ live A h' o2' /\ separate o1' o2'.
Proof. exact independent_histories. Qed.

(* a producer that shares no mutable reference returns a map separate from its argument and leaves the
   argument's observation unchanged *)
Theorem C09_result_without_mutable_sharing_is_isolated :
  forall (A : Type) (h : heap A) (arg : obj) (s : shares) (ccov csp cmeta : A),
    live A h arg -> o_cov arg <> o_sp arg -> o_cov arg <> o_meta arg -> no_mutable_sharing s = true ->
    let (h', r) := produce A h arg s ccov csp cmeta in
    live A h' r /\ live A h' arg /\ separate r arg /\ observe A h' arg = observe A h arg.
Proof. exact result_is_isolated. Qed.

(* every producer of the API except the documented field view shares no mutable reference *)
Theorem C09_only_the_field_view_shares_mutable_state :
  forall code, code <> 8 -> no_mutable_sharing (prod_shares code) = true.
Proof. exact copying_producers_share_no_mutable_state. Qed.

Example C09_hypotheses_satisfiable :
  let w0 : world := [] in
  let (w1, _) := step2 w0 [[1]; [0]; [12; 4]; [0; -5; 1; 1]; [-5; 1]; [0]; []] in
  let (w2, _) := step2 w1 [[2]; [0]; [0; 0]; [3; 17]; [7; 1; 9; 2]] in
  let (w3, _) := step2 w2 [[24]; [0]; [1]] in
  let (w4, _) := step2 w3 [[2]; [1]; [0; 0]; [40]; [1; 1]] in
  match wget w4 0, wget w2 0 with
  | Some a, Some b => x_values (h_m a) = x_values (h_m b) /\ idx (h_m a) = idx (h_m b)
  | _, _ => False
  end.
Proof. vm_compute. split; reflexivity. Qed.

(* C09: two live objects with separate mutable references sharing one coverage object *)
Example C09_heap_hypotheses_satisfiable :
  let h := mkheap Z (fun _ => 0) 6 in
  let o1 := mkobj 0 1 2 in let o2 := mkobj 0 4 5 in
  live Z h o1 /\ live Z h o2 /\ separate o1 o2 /\ o_cov o1 <> o_sp o1 /\ o_cov o1 <> o_meta o1 /\
  no_mutable_sharing (prod_shares 1) = true /\ no_mutable_sharing (prod_shares 8) = false.
Proof.
  cbv zeta. split; [intros l Hl; cbn in Hl; cbn; lia|]. split; [intros l Hl; cbn in Hl; cbn; lia|].
  split; [split; intros l Hl Hl2; cbn in Hl, Hl2; lia|]. cbn. repeat split; lia || reflexivity.
Qed.

Print Assumptions C09_result_binding_is_frame_preserving.
Print Assumptions C09_single_argument_producers_leave_the_argument.
Print Assumptions C09_mutation_is_invisible_through_a_separate_map.
Print Assumptions C09_any_history_of_mutations_is_invisible.
Print Assumptions C09_interleaved_histories_stay_separate.
Print Assumptions C09_result_without_mutable_sharing_is_isolated.
Print Assumptions C09_only_the_field_view_shares_mutable_state.
Print Assumptions C09_hypotheses_satisfiable.
Print Assumptions C09_heap_hypotheses_satisfiable.
