(* C09 — Operations that return new maps never disturb, or stay tied to, their inputs.
   Statements only.  In the model every operation is a FUNCTION from the states of its arguments
   to the state of its result: an operation cannot change an argument, and a later change of
   either side cannot be seen through the other, by construction.  What has to be shown is that
   the implementation agrees with such a functional model along two-phase histories; that is the
   per-run correspondence of this property (harness/gens2.gen_c09).  The theorems below state the
   functional reading for the world of the interpreter: a step that writes handle [hout] leaves the
   state bound to every other handle untouched. *)
From Coq Require Import QArith.
From HS Require Import Prelude Cov Map Spec Ops Spec2 Exec Exec2.
Open Scope Z_scope.

Lemma wget_wset_other w h h' s : h <> h' -> wget (wset w h s) h' = wget w h'.
Proof.
  intros Hne. induction w as [|[k s0] t IH]; cbn [wset wget].
  - destruct (h =? h') eqn:E; [lia|reflexivity].
  - destruct (k =? h) eqn:E1; cbn [wget].
    + destruct (h =? h') eqn:E2; [lia|]. destruct (k =? h') eqn:E3; [lia|reflexivity].
    + destruct (k =? h') eqn:E3; [reflexivity|exact IH].
Qed.

Lemma wget_wset_same w h s : wget (wset w h s) h = Some s.
Proof.
  induction w as [|[k s0] t IH]; cbn [wset wget].
  - rewrite Z.eqb_refl. reflexivity.
  - destruct (k =? h) eqn:E1; cbn [wget]; [rewrite Z.eqb_refl; reflexivity|rewrite E1; exact IH].
Qed.

(* binding a result never disturbs any other map of the world *)
Theorem C09_result_binding_is_frame_preserving :
  forall (w : world) hout s h, hout <> h -> wget (wset w hout s) h = wget w h.
Proof. intros w hout s h. apply wget_wset_other. Qed.

(* a copying producer (here: copy, scalar operator, astype, degrade, upgrade, boolean operator
   with a constant — the single-argument producers of the interpreter) leaves its argument's
   binding unchanged when the result is bound to a different handle *)
Theorem C09_single_argument_producers_leave_the_argument :
  forall (w : world) (op : list (list Z)) code h hout s,
    gz op 0 0 = code -> gz op 1 0 = h -> gz op 2 0 = hout ->
    In code [14; 16; 17; 20; 21; 24; 26] -> hout <> h -> wget w h = Some s ->
    wget (fst (step2 w op)) h = Some s.
Proof.
  intros w op code h hout s Ec Eh Eo Hcode Hne Hs.
  unfold step2. cbv zeta. rewrite Ec, Eh, Eo.
  assert (Hlt : (code <? 14) = false) by (cbn in Hcode; intuition lia).
  assert (H19 : (code =? 19) = false) by (cbn in Hcode; intuition lia).
  rewrite Hlt, H19, Hs.
  cbn in Hcode.
  destruct Hcode as [<-|[<-|[<-|[<-|[<-|[<-|[<-|[]]]]]]]]; cbn [Z.eqb Pos.eqb];
    try (cbn [fst]; rewrite wget_wset_other by exact Hne; exact Hs).
  (* degrade: the weights handle may be absent (error: world unchanged) or present *)
  destruct (gz op 5 0 <? 0);
    [cbn [fst]; rewrite wget_wset_other by exact Hne; exact Hs|].
  destruct (wget w (gz op 5 0));
    cbn [fst]; [rewrite wget_wset_other by exact Hne; exact Hs|exact Hs].
Qed.

Example C09_hypotheses_satisfiable :
  let w0 : world := [] in
  let (w1, _) := step2 w0 [[1]; [0]; [12; 4]; [0; -5; 1; 1]; [-5; 1]; [0]; []] in
  let (w2, _) := step2 w1 [[2]; [0]; [0; 0]; [3; 17]; [7; 1; 9; 2]] in
  let (w3, _) := step2 w2 [[24]; [0]; [1]] in
  let (w4, _) := step2 w3 [[2]; [1]; [0; 0]; [40]; [1; 1]] in
  match wget w4 0, wget w2 0 with
  | Some a, Some b => x_values (h_m a) = x_values (h_m b) /\ idx (h_m a) = idx (h_m b)
  | _, _ => False
  end.
Proof. vm_compute. split; reflexivity. Qed.

Print Assumptions C09_result_binding_is_frame_preserving.
Print Assumptions C09_single_argument_producers_leave_the_argument.
Print Assumptions C09_hypotheses_satisfiable.
