(* C12 — Scalar operators, masking and type conversion act on exactly the valid pixels.
   Statements only; proofs in OpsProofs.v. *)
From Coq Require Import QArith.
From HS Require Import Prelude Cov Map Spec Ops Spec2 Params AtFold MapProofs UpdateProofs LayoutProofs
     HistoryProofs AccountProofs OpsProofs Exec Exec2 ExecProofs.
Open Scope Z_scope.

Section C12.
Variable P : params.
Notation V := (p_V P).

(* map (op) scalar, in place or copying (both forms are the same function of the state): the
   result denotes the dense array in which exactly the valid pixels were replaced by g(value) *)
Theorem C12_scalar_operator_refines :
  forall (g : V -> V) (m : smap V), wf P m ->
    abs V (p_dv P) (map_valid V (p_valid P) g m) = d_map_valid V (p_valid P) g (abs V (p_dv P) m).
Proof. exact (map_valid_refines P). Qed.

Theorem C12_scalar_operator_pointwise :
  forall (g : V -> V) (m : smap V) p, wf P m -> 0 <= p < npix V m ->
    read V (p_dv P) (map_valid V (p_valid P) g m) p =
    if p_valid P (read V (p_dv P) m p) then g (read V (p_dv P) m p) else read V (p_dv P) m p.
Proof. exact (map_valid_read P). Qed.

Theorem C12_scalar_operator_keeps_layout :
  forall (g : V -> V) (m : smap V), wf P m -> wf P (map_valid V (p_valid P) g m).
Proof. exact (map_valid_wf P). Qed.

(* apply_mask never fails on a well-formed map and invalidates exactly the valid pixels the
   mask selects (bad), nothing else *)
Theorem C12_apply_mask_refines :
  forall (bad : Z -> bool) (m : smap V), wf P m ->
    exists m', apply_mask V (p_valid P) (p_dv P) bad m = Some m' /\ wf P m' /\
               abs V (p_dv P) m' = d_apply_mask V (p_valid P) (p_dv P) bad (abs V (p_dv P) m).
Proof. exact (apply_mask_refines P). Qed.

Theorem C12_apply_mask_pointwise :
  forall (bad : Z -> bool) (m m' : smap V) q,
    wf P m -> apply_mask V (p_valid P) (p_dv P) bad m = Some m' -> 0 <= q < npix V m ->
    read V (p_dv P) m' q =
    if p_valid P (read V (p_dv P) m q) && bad q then blank m else read V (p_dv P) m q.
Proof. exact (apply_mask_read P). Qed.

End C12.

(* type conversion (also get_single(copy=True) and as_bit_packed_map): valid cells converted,
   every other pixel re-expressed in the new sentinel; the layout is kept *)
Theorem C12_astype_refines :
  forall (P P' : params) (conv : p_V P -> p_V P') (nb : p_V P') (m : smap (p_V P)), wf P m ->
    abs (p_V P') (p_dv P') (astype (p_V P) (p_V P') (p_valid P) conv nb m) =
    d_astype (p_V P) (p_V P') (p_valid P) conv nb (abs (p_V P) (p_dv P) m).
Proof. exact astype_refines. Qed.

Theorem C12_astype_keeps_layout :
  forall (P P' : params) (conv : p_V P -> p_V P') (nb : p_V P') (m : smap (p_V P)),
    wf P m -> p_valid P' nb = false -> wf P' (astype (p_V P) (p_V P') (p_valid P) conv nb m).
Proof. exact astype_wf. Qed.

(* non-vacuity on the executable instance: a reachable map, "* 2" and a mask *)
Example C12_hypotheses_satisfiable :
  let k := mkk 0 (-5 # 1) 1 in
  let m := x_update k (make_empty cellv 12 4 [(-5 # 1)%Q] None) URepl
                    [(45, [(7 # 1)%Q]); (3, [(9 # 2)%Q])] false in
  wf (xparams k) m /\
  x_values (map_valid cellv (k_valid k) (lift1 (fun x => qmul x (2 # 1))) m) =
  dense (d_map_valid cellv (k_valid k) (lift1 (fun x => qmul x (2 # 1))) (abs cellv dcell m)) /\
  read cellv dcell (map_valid cellv (k_valid k) (lift1 (fun x => qmul x (2 # 1))) m) 3 = [(9 # 1)%Q].
Proof.
  cbv zeta. split; [|split; vm_compute; reflexivity].
  apply x_update_wf.
  - apply (make_empty_wf (xparams (mkk 0 (-5 # 1) 1))); [lia|lia|reflexivity|exact I].
  - intros pv [<-|[<-|[]]]; (split; [apply Z.leb_le|apply Z.ltb_lt]; vm_compute; reflexivity).
Qed.

Print Assumptions C12_scalar_operator_refines.
Print Assumptions C12_scalar_operator_pointwise.
Print Assumptions C12_scalar_operator_keeps_layout.
Print Assumptions C12_apply_mask_refines.
Print Assumptions C12_apply_mask_pointwise.
Print Assumptions C12_astype_refines.
Print Assumptions C12_astype_keeps_layout.
Print Assumptions C12_hypotheses_satisfiable.
