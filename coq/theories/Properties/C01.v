(* C01 — A sparse map reads and writes exactly like a dense HEALPix array.
   Statements only: every theorem is closed by [exact <lemma>] and followed by
   Print Assumptions.  Proofs: AtFold.v, MapProofs.v, UpdateProofs.v, HistoryProofs.v. *)
From Coq Require Import QArith.
From HS Require Import Prelude Cov Map Spec Params AtFold MapProofs UpdateProofs HistoryProofs Exec ExecProofs.
Open Scope Z_scope.

Section C01.
Variable P : params.
Notation V := (p_V P).
Notation upd := (update V (p_dv P) (p_vadd P) (p_vor P) (p_vand P) (p_vzero P) (p_is_sent P) (p_sent_nonzero P)).
Notation dupd := (d_update V (p_dv P) (p_vadd P) (p_vor P) (p_vand P) (p_vzero P) (p_is_sent P) (p_sent_nonzero P)).

(* One call of update_values_pix (any operation, any pixel list incl. duplicates, growth in
   any order, clearing with None) on any well-formed map: every pixel of the result, read
   through pixel + cov_index[pixel >> shift], equals the dense array given the same update,
   and the coverage masks agree. *)
Theorem C01_update_refines :
  forall (m : smap V) (o : uop) (pvs : list (Z * V)) (no_append : bool),
    wf P m -> pvs_ok P m pvs ->
    abs V (p_dv P) (upd m o pvs no_append) = dupd (abs V (p_dv P) m) o pvs no_append.
Proof. exact (update_refines P). Qed.

(* pointwise form: the value of pixel q after the call is the fold of exactly the values
   addressed to q (sentinel -> 0 first for 'add' with a non-zero sentinel) *)
Theorem C01_update_read :
  forall (m : smap V) o pvs na q,
    wf P m -> pvs_ok P m pvs -> 0 <= q < npix V m ->
    read V (p_dv P) (upd m o pvs na) q =
    pt P o (read V (p_dv P) m q) (vals_at V q (if na then incov P m pvs else pvs)).
Proof. exact (update_read P). Qed.

(* every history from make_empty (optionally with pre-allocated coverage pixels): the sparse
   map IS the dense array given the same history *)
Theorem C01_history_from_empty :
  forall n nf (bl : V) cp (hs : list (hop P)),
    0 <= n -> 0 < nf -> p_valid P bl = false -> covpix_ok n cp -> hops_ok P (n * nf) hs ->
    wf P (fold_left (hstep P) hs (make_empty V n nf bl cp)) /\
    abs V (p_dv P) (fold_left (hstep P) hs (make_empty V n nf bl cp)) =
    fold_left (dstep P) hs (d_make_empty V n nf bl cp).
Proof. exact (history_from_empty P). Qed.

(* pixels never written read as the blank (sentinel) value *)
Theorem C01_never_written_reads_blank :
  forall (hs : list (hop P)) (m : smap V) q,
    wf P m -> hops_ok P (npix V m) hs -> 0 <= q < npix V m ->
    (forall h, In h hs -> forall pv, In pv (h_pvs P h) -> fst pv <> q) ->
    read V (p_dv P) (fold_left (hstep P) hs m) q = read V (p_dv P) m q.
Proof. exact (never_written_reads_blank P). Qed.

Theorem C01_fresh_map_reads_blank :
  forall n nf (bl : V) cp q,
    0 <= n -> 0 < nf -> p_valid P bl = false -> covpix_ok n cp -> 0 <= q < n * nf ->
    read V (p_dv P) (make_empty V n nf bl cp) q = bl.
Proof. exact (make_empty_read P). Qed.

End C01.

(* the same for the functions the correspondence runner executes *)
Theorem C01_exec_update_refines :
  forall k m o pvs na,
    wf (xparams k) m -> pvs_ok (xparams k) m pvs ->
    Spec.abs cellv dcell (x_update k m o pvs na) = x_dupdate k (Spec.abs cellv dcell m) o pvs na.
Proof. exact x_update_refines. Qed.

(* non-vacuity: a concrete non-trivial reachable state satisfies the hypotheses *)
Example C01_hypotheses_satisfiable :
  let k := mkk 0 (-5 # 1) 1 in
  let m0 := make_empty cellv 12 4 [(-5 # 1)%Q] (Some [7; 2]) in
  wf (xparams k) m0 /\
  pvs_ok (xparams k) m0 [(5, [(7 # 1)%Q]); (40, [(9 # 2)%Q]); (5, [(1 # 1)%Q])] /\
  read cellv dcell (x_update k m0 UAdd [(5, [(7 # 1)%Q]); (40, [(9 # 2)%Q]); (5, [(1 # 1)%Q])] false) 5 = [(8 # 1)%Q].
Proof.
  cbv zeta. split; [|split].
  - apply (make_empty_wf (xparams (mkk 0 (-5 # 1) 1)) 12 4 [(-5 # 1)%Q] (Some [7; 2])); [lia|lia|reflexivity|].
    split; [repeat constructor; cbn; intuition lia|]. intros c [<-|[<-|[]]]; lia.
  - intros pv [<-|[<-|[<-|[]]]]; (split; [apply Z.leb_le|apply Z.ltb_lt]; vm_compute; reflexivity).
  - vm_compute. reflexivity.
Qed.

Print Assumptions C01_update_refines.
Print Assumptions C01_update_read.
Print Assumptions C01_history_from_empty.
Print Assumptions C01_never_written_reads_blank.
Print Assumptions C01_fresh_map_reads_blank.
Print Assumptions C01_exec_update_refines.
Print Assumptions C01_hypotheses_satisfiable.
