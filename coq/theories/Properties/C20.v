(* C20 — Random points fall inside the map's valid footprint, in the requested number (partial).
   Statements only.  The generators are modelled as functions of the pseudo-random draws (oracle:
   NumPy RandomState, replayed by the harness): the fast generator returns the fine pixels
   (coarse << shift) + sub; the rejection generator keeps the first n candidates that fall on a
   valid pixel.  Proved: count, containment of the fine pixel in the chosen valid pixel, every
   sub-pixel reachable with the exclusive upper bound 2^shift (fix F16), the rejection loop returns
   at most n indices, all of them accepted, in order.  Not provable here (labelled partial): the
   floating-point bounding range of make_uniform_randoms (known finding F25) and the statistical
   reading of non-starvation, which are addressed by the per-run occupancy tests only. *)
From Coq Require Import QArith.
From HS Require Import Prelude Cov Map Spec Ops Spec2 Exec Exec2.
Open Scope Z_scope.

(* the fine pixel drawn by the fast generator is a child of the chosen valid pixel *)
Theorem C20_fast_point_is_inside_the_chosen_pixel :
  forall shift coarse sub, 0 <= shift -> 0 <= sub < 2 ^ shift -> 0 <= coarse ->
    Z.shiftr (Z.shiftl coarse shift + sub) shift = coarse.
Proof.
  intros shift coarse sub Hs Hsub Hc.
  rewrite Z.shiftl_mul_pow2, Z.shiftr_div_pow2 by lia.
  rewrite Z.add_comm, Z.div_add by (apply Z.pow_nonzero; lia).
  rewrite Z.div_small by lia. lia.
Qed.

(* every child is reachable: each fine pixel of a valid pixel is (coarse << shift) + sub for a sub
   in the half-open range [0, 2^shift) that randint(0, 2^shift) draws from *)
Theorem C20_every_sub_pixel_is_reachable :
  forall shift coarse fine, 0 <= shift -> 0 <= coarse -> Z.shiftr fine shift = coarse -> 0 <= fine ->
    exists sub, 0 <= sub < 2 ^ shift /\ fine = Z.shiftl coarse shift + sub.
Proof.
  intros shift coarse fine Hs Hc E Hf. exists (fine mod 2 ^ shift).
  assert (Hp : 0 < 2 ^ shift) by (apply Z.pow_pos_nonneg; lia).
  split; [apply Z.mod_pos_bound; exact Hp|].
  rewrite Z.shiftl_mul_pow2 by lia. rewrite <- E, Z.shiftr_div_pow2 by lia.
  pose proof (Z.div_mod fine (2 ^ shift)). lia.
Qed.

(* the number of points of the fast generator is the number of draws *)
Theorem C20_fast_count :
  forall shift (coarse sub : list Z), length coarse = length sub ->
    length (fast_pixels shift coarse sub) = length coarse.
Proof.
  intros shift coarse. induction coarse as [|c t IH]; intros [|s u] H; cbn in *; try reflexivity; try discriminate.
  f_equal. apply IH. congruence.
Qed.

(* the rejection loop: at most n indices, every one of them points at an accepted candidate *)
Theorem C20_rejection_loop_sound :
  forall (n : nat) (flags : list Z) i0,
    (length (accept n i0 flags) <= n)%nat /\
    forall j, In j (accept n i0 flags) -> i0 <= j /\ znth 0 flags (j - i0) = 1.
Proof.
  intros n flags. revert n. induction flags as [|f r IH]; intros n i0.
  - destruct n; cbn; split; try lia; intros j [].
  - destruct n as [|k]; [cbn; split; [lia|intros j []]|].
    cbn [accept]. destruct (f =? 1) eqn:E.
    + destruct (IH k (i0 + 1)) as [L S]. split; [cbn [length]; lia|].
      intros j [<-|Hj].
      * split; [lia|]. rewrite Z.sub_diag. cbn [znth]. rewrite Z.eqb_refl. lia.
      * destruct (S j Hj) as [H1 H2]. split; [lia|]. rewrite znth_cons.
        destruct (j - i0 =? 0) eqn:E0; [lia|]. replace (j - i0 - 1) with (j - (i0 + 1)) by lia. exact H2.
    + destruct (IH (S k) (i0 + 1)) as [L S]. split; [exact L|].
      intros j Hj. destruct (S j Hj) as [H1 H2]. split; [lia|]. rewrite znth_cons.
      destruct (j - i0 =? 0) eqn:E0; [lia|]. replace (j - i0 - 1) with (j - (i0 + 1)) by lia. exact H2.
Qed.

(* exactly n points when the stream holds at least n valid candidates *)
Theorem C20_rejection_loop_count :
  forall (n : nat) (flags : list Z) i0,
    (n <= length (filter (Z.eqb 1) flags))%nat -> length (accept n i0 flags) = n.
Proof.
  intros n flags. revert n. induction flags as [|f r IH]; intros n i0 H.
  - cbn in H. destruct n; [reflexivity|lia].
  - destruct n as [|k]; [reflexivity|]. cbn [accept]. cbn [filter] in H.
    rewrite (Z.eqb_sym 1 f) in H. destruct (f =? 1) eqn:E.
    + cbn [length] in *. f_equal. apply IH. lia.
    + apply IH. exact H.
Qed.

Example C20_hypotheses_satisfiable :
  fast_pixels 2 [5; 9] [3; 0] = [23; 36] /\ accept 2 0 [0; 1; 0; 1; 1] = [1; 3].
Proof. vm_compute. split; reflexivity. Qed.

Print Assumptions C20_fast_point_is_inside_the_chosen_pixel.
Print Assumptions C20_every_sub_pixel_is_reachable.
Print Assumptions C20_fast_count.
Print Assumptions C20_rejection_loop_sound.
Print Assumptions C20_rejection_loop_count.
Print Assumptions C20_hypotheses_satisfiable.
