(* C03 — Writing a map and reading it back returns the same map (full, partial, coverage).
   Statements only; proofs in PartialProofs.v.  The file is modelled as the pair (coverage index,
   storage) that the writer serialises unchanged (the container — astropy FITS — is an oracle whose
   store/load round trip is exercised on every run for every dtype, with and without compression):
   a full read returns the same index and storage (Ops.copy_map); a partial read is
   Ops.read_partial. *)
From Coq Require Import QArith.
From HS Require Import Prelude Cov Map Spec Ops Spec2 Params AtFold MapProofs UpdateProofs HistoryProofs
     LayoutProofs AccountProofs OpsProofs PartialProofs Exec Exec2 ExecProofs PartialRefine Packed FileRows.
Open Scope Z_scope.

Section C03.
Variable P : params.
Notation V := (p_V P).

(* reading only selected coverage pixels (any order, covered or not) gives a well-formed map that
   is exactly the restriction of the map to the covered ones among them: same value inside, blank
   outside, coverage mask = covered /\ requested *)
Theorem C03_partial_read_is_the_restriction :
  forall (m m' : smap V) (req : list Z),
    wf P m -> read_partial V m req = Some m' ->
    wf P m' /\ npix V m' = npix V m /\
    (forall p, 0 <= p < npix V m ->
       read V (p_dv P) m' p =
       if covered V m (p / nfine m) && existsb (Z.eqb (p / nfine m)) req then read V (p_dv P) m p else blank m) /\
    (forall c, 0 <= c < ncov V m -> covered V m' c = covered V m c && existsb (Z.eqb c) req).
Proof. exact (read_partial_spec P). Qed.

(* the read is rejected exactly when none of the requested pixels is covered *)
Theorem C03_partial_read_rejected_iff_nothing_covered :
  forall (m : smap V) (req : list Z), read_partial V m req = None <-> selected P m req = [].
Proof. exact (read_partial_none P). Qed.

(* a full read: the same index and storage, hence the same dense content, layout and every later
   behaviour (the model of every later operation is a function of this state) *)
Theorem C03_full_read_is_the_same_state :
  forall (m : smap V), idx (copy_map V m) = idx m /\ sp (copy_map V m) = sp m /\
                       nfine (copy_map V m) = nfine m /\ blank (copy_map V m) = blank m.
Proof. intros m. repeat split. Qed.

(* the same at the level of the whole map: the abstraction of the map read with pixels=req is the
   restriction of the abstraction (resolution, every pixel, coverage mask, blank) *)
Theorem C03_partial_read_refines_the_restriction :
  forall (m m' : smap V) (req : list Z),
    wf P m -> read_partial V m req = Some m' ->
    abs V (p_dv P) m' = d_restrict V (p_dv P) req (abs V (p_dv P) m).
Proof. exact (read_partial_refines P). Qed.

End C03.

Example C03_hypotheses_satisfiable :
  let k := mkk 0 (-5 # 1) 1 in
  let m := x_update k (make_empty cellv 12 4 [(-5 # 1)%Q] None) URepl
                    [(45, [(7 # 1)%Q]); (3, [(9 # 2)%Q]); (20, [(1 # 1)%Q])] false in
  wf (xparams k) m /\
  match read_partial cellv m [11; 2; 0] with
  | Some m' => x_values m' = dense (d_restrict cellv dcell [11; 2; 0] (abs cellv dcell m)) /\
               read cellv dcell m' 45 = [(7 # 1)%Q] /\ read cellv dcell m' 20 = [(-5 # 1)%Q]
  | None => False
  end.
Proof.
  cbv zeta. split; [|vm_compute; repeat split; reflexivity].
  apply x_update_wf.
  - apply (make_empty_wf (xparams (mkk 0 (-5 # 1) 1))); [lia|lia|reflexivity|exact I].
  - intros pv [<-|[<-|[<-|[]]]]; (split; [apply Z.leb_le|apply Z.ltb_lt]; vm_compute; reflexivity).
Qed.

(* ---- the row arithmetic of partial reads on the flattened SPARSE extension ---- *)
(* units of constant width w (a wide-mask cell = its wmult bytes; a byte = its 8 bit-packed cells): the raw slice
   [a*w, b*w) of the flattened storage is the flattening of the unit slice [a, b): the rows fetched for a block
   are exactly that block's cells *)
Theorem C03_rows_fetched_for_a_block_are_its_cells :
  forall (A B : Type) (f : A -> list B) (w : Z) (dA : A) (dB : B),
    0 < w -> (forall x, zlen (f x) = w) ->
    forall (l : list A) (a b : Z), 0 <= a <= b -> b <= zlen l ->
      zslice (flat_map f l) (a * w) (b * w) = flat_map f (zslice l a b).
Proof. intros A B f w dA dB Hw Hf l a b. exact (rows_of_a_block f w dA dB Hw Hf l a b). Qed.

Theorem C03_wide_mask_block_rows :
  forall (width : Z) (row : Z -> list Z) (cells : list Z) (off nfine : Z),
    0 < width -> (forall c, zlen (row c) = width) ->
    0 <= off -> 0 <= nfine -> off + nfine <= zlen cells ->
    zslice (flat_map row cells) (off * width) ((off + nfine) * width) = flat_map row (zslice cells off (off + nfine)).
Proof. exact wide_block_rows. Qed.

Theorem C03_bit_packed_block_rows :
  forall (bytes : list Z) (off nfine : Z),
    0 <= off -> 0 <= nfine -> off mod 8 = 0 -> nfine mod 8 = 0 -> off + nfine <= 8 * zlen bytes ->
    flat_map unpack8 (zslice bytes (off / 8) ((off + nfine) / 8)) =
    zslice (flat_map unpack8 bytes) off (off + nfine).
Proof. exact packed_block_rows. Qed.

Print Assumptions C03_partial_read_is_the_restriction.
Print Assumptions C03_partial_read_rejected_iff_nothing_covered.
Print Assumptions C03_full_read_is_the_same_state.
Print Assumptions C03_partial_read_refines_the_restriction.
Print Assumptions C03_hypotheses_satisfiable.
Print Assumptions C03_rows_fetched_for_a_block_are_its_cells.
Print Assumptions C03_wide_mask_block_rows.
Print Assumptions C03_bit_packed_block_rows.
