(* C02 — All validity accounting interfaces agree, at every point in a map's history.
   Statements only; proofs in AccountProofs.v, FracdetProofs.v and CovpixProofs.v (on top of the C01/C04
   development). *)
From Coq Require Import QArith.
From HS Require Import Prelude Cov Map Spec Ops Spec2 Params AtFold MapProofs UpdateProofs HistoryProofs LayoutProofs AccountProofs OpsProofs RebuildProofs FracdetProofs CovpixProofs CacheProofs Exec ExecProofs.
Open Scope Z_scope.

Section C02.
Variable P : params.
Notation V := (p_V P).

(* valid_pixels (storage indices mapped back through the block -> coverage table) never raises
   on a well-formed map and lists, without repetition, exactly the pixels whose value is valid *)
Theorem C02_valid_pixels_is_the_valid_set :
  forall (m : smap V), wf P m ->
    valid_pixels V (p_valid P) (p_dv P) m = Some (map (pix P m) (valid_cells V (p_valid P) (p_dv P) m)) /\
    NoDup (map (pix P m) (valid_cells V (p_valid P) (p_dv P) m)) /\
    forall p, In p (map (pix P m) (valid_cells V (p_valid P) (p_dv P) m)) <->
              (0 <= p < npix V m /\ p_valid P (read V (p_dv P) m p) = true).
Proof. exact (valid_pixels_spec P). Qed.

(* n_valid (the quantity that is computed and memoised) is the number of valid pixels of the
   dense array the map denotes *)
Theorem C02_count_is_dense_count :
  forall (m : smap V), wf P m ->
    count_valid V (p_valid P) m = d_n_valid V (p_valid P) (abs V (p_dv P) m).
Proof. exact (count_valid_spec P). Qed.

(* the coverage mask contains every coverage pixel that holds a valid pixel *)
Theorem C02_valid_pixel_is_covered :
  forall (m : smap V) p, wf P m -> 0 <= p < npix V m ->
    p_valid P (read V (p_dv P) m p) = true -> covered V m (p / nfine m) = true.
Proof. exact (valid_implies_covered P). Qed.

(* an earlier query never makes a later answer stale: after ANY interleaving of updates and
   count queries from a well-formed state with a sound memo, the memo is sound, and the next
   count query returns the number of valid pixels of the dense array given the same updates *)
Theorem C02_cache_never_stale :
  forall (ops : list (aop P)) (m : smap V),
    wf P m -> cache_ok P m -> (forall a, In a ops -> aop_ok P (npix V m) a) ->
    let m' := fold_left (astep P) ops m in
    wf P m' /\ cache_ok P m' /\ npix V m' = npix V m /\
    abs V (p_dv P) m' = fold_left (dastep P) ops (abs V (p_dv P) m) /\
    snd (n_valid V (p_valid P) m') = d_n_valid V (p_valid P) (abs V (p_dv P) m').
Proof. exact (cache_history P). Qed.

(* coverage_map[c] * nfine = the number of valid pixels of coverage pixel c, for every block
   order (after fix F26) *)
Theorem C02_coverage_map_counts_the_valid_pixels :
  forall (m : smap V) c, wf P m -> 0 <= c < ncov V m ->
    znth 0 (coverage_counts V (p_valid P) m) c = d_cov_count V (p_valid P) (p_dv P) (abs V (p_dv P) m) c.
Proof. exact (coverage_counts_spec P). Qed.

(* fracdet_map(n)[q] * children = the number of valid children of q, at every permitted
   resolution and for every block order; the fracdet map is itself a well-formed map whose valid
   pixels are those with a positive count *)
Theorem C02_fracdet_counts_the_valid_children :
  forall (m : smap V) r q, wf P m -> 0 < r -> nfine m mod r = 0 -> 0 <= q < npix V m / r ->
    read Z 0 (fracdet_map P m r) q = d_group_count V (p_valid P) (p_dv P) (abs V (p_dv P) m) r q.
Proof. exact (fracdet_read P). Qed.

Theorem C02_fracdet_map_is_well_formed :
  forall (m : smap V) r, wf P m -> 0 < r -> nfine m mod r = 0 -> wf count_params (fracdet_map P m r).
Proof. exact (fracdet_wf P). Qed.

(* valid_pixels_single_covpix(c) never raises on a well-formed map and lists exactly the valid pixels of
   coverage pixel c (the dense listing, in the same ascending order), covered or not, any block order *)
Theorem C02_per_coverage_pixel_listing_is_the_valid_set_of_that_pixel :
  forall (m : smap V) (c : Z), wf P m -> 0 <= c < ncov V m ->
    valid_pixels_covpix V (p_valid P) (p_dv P) m c =
    Some (d_valid_pixels_covpix V (p_valid P) (p_dv P) (abs V (p_dv P) m) c).
Proof. exact (valid_pixels_covpix_spec P). Qed.

(* get_single_covpix_map(c) of a covered coverage pixel is well formed and is the restriction of the map
   to that coverage pixel (values, blank elsewhere, coverage mask {c}) *)
Theorem C02_single_coverage_pixel_map_is_the_restriction :
  forall (m : smap V) (c : Z), wf P m -> 0 <= c < ncov V m -> covered V m c = true ->
    wf P (single_covpix V m c) /\
    abs V (p_dv P) (single_covpix V m c) = d_single_covpix V (p_dv P) (abs V (p_dv P) m) c.
Proof. exact (single_covpix_spec P). Qed.

(* the memo is empty (hence never stale) after every other mutating or map-producing operation of the
   model: scalar operators, invert / boolean constants, apply_mask, pixel-range updates, boolean
   map-with-map operators (both forms), upgrade, copy — the next query recounts the new state *)
Theorem C02_memo_is_dropped_by_every_operation :
  forall (m b : smap V) g bad o rows value na f vfalse r m',
    cache_ok P (map_valid V (p_valid P) g m) /\
    cache_ok P (tail_map V g m) /\
    (apply_mask V (p_valid P) (p_dv P) bad m = Some m' -> cache_ok P m') /\
    cache_ok P (update_ranges V (p_dv P) (p_vadd P) (p_vor P) (p_vand P) (p_vzero P) (p_is_sent P)
                              (p_sent_nonzero P) m o rows value na) /\
    cache_ok P (bool_map_op_inplace V (p_dv P) f m b) /\
    cache_ok P (bool_map_op_copy V vfalse f m b) /\
    cache_ok P (upgrade V r m) /\
    cache_ok P (copy_map V m).
Proof.
  intros m b g bad o rows value na f vfalse r m'.
  repeat split.
  - apply (scalar_operator_cache_ok P).
  - apply (invert_cache_ok P).
  - apply (apply_mask_cache_ok P).
  - apply (range_update_cache_ok P).
  - apply (boolean_in_place_cache_ok P).
  - apply (boolean_copy_cache_ok P).
  - apply (upgrade_cache_ok P).
  - apply (copy_cache_ok P).
Qed.

Theorem C02_query_after_any_operation_recounts :
  forall (m' : smap V), cache_ok P m' -> snd (n_valid V (p_valid P) m') = count_valid V (p_valid P) m'.
Proof. exact (query_after_any_operation P). Qed.

End C02.

Example C02_hypotheses_satisfiable :
  let k := mkk 0 (-5 # 1) 1 in
  let m := x_update k (make_empty cellv 12 4 [(-5 # 1)%Q] (Some [7; 2])) URepl
                    [(45, [(7 # 1)%Q]); (3, [(9 # 2)%Q]); (30, [(-5 # 1)%Q])] false in
  valid_pixels cellv (k_valid k) dcell m = Some [3; 45] /\
  snd (n_valid cellv (k_valid k) (fst (n_valid cellv (k_valid k) m))) = 2.
Proof. vm_compute. split; reflexivity. Qed.

Print Assumptions C02_valid_pixels_is_the_valid_set.
Print Assumptions C02_count_is_dense_count.
Print Assumptions C02_valid_pixel_is_covered.
Print Assumptions C02_cache_never_stale.
Print Assumptions C02_coverage_map_counts_the_valid_pixels.
Print Assumptions C02_fracdet_counts_the_valid_children.
Print Assumptions C02_fracdet_map_is_well_formed.
Print Assumptions C02_per_coverage_pixel_listing_is_the_valid_set_of_that_pixel.
Print Assumptions C02_single_coverage_pixel_map_is_the_restriction.
Print Assumptions C02_memo_is_dropped_by_every_operation.
Print Assumptions C02_query_after_any_operation_recounts.
Print Assumptions C02_hypotheses_satisfiable.
