(* C13 — A wide-mask map behaves as a per-pixel set of bit positions.
   Statements only; proofs in WideProofs.v (cell level) and WideMaps.v (lifted to maps through the
   update theorem of C01: the or/and updates that set_bits_pix / clear_bits_pix / update_values_pix with
   packed rows perform are pointwise folds of the values addressed to a pixel). *)
From Coq Require Import QArith.
From HS Require Import Prelude Cov Map Spec Ops Spec2 Params AtFold MapProofs UpdateProofs HistoryProofs
     Packed PackedOps WideProofs WideMaps WideRow WideBytes Exec Exec2 ExecProofs.
Open Scope Z_scope.

(* the packed value of a bit list has exactly the listed bits *)
Theorem C13_packed_value_is_the_bit_set :
  forall l b, 0 <= b -> (forall x, In x l -> 0 <= x) -> Z.testbit (bits_val l) b = existsb (Z.eqb b) l.
Proof. exact testbit_bits_val. Qed.

(* set_bits: per pixel, the union with the bit list (every bit position, byte boundaries included) *)
Theorem C13_set_bits_is_union :
  forall v l b, 0 <= b -> (forall x, In x l -> 0 <= x) ->
    Z.testbit (Z.lor v (bits_val l)) b = Z.testbit v b || existsb (Z.eqb b) l.
Proof. exact set_bits_spec. Qed.

(* clear_bits: per pixel, the difference, for every bit below the width W *)
Theorem C13_clear_bits_is_difference :
  forall v l b W, 0 <= b < W -> (forall x, In x l -> 0 <= x) ->
    Z.testbit (Z.land v (Z.land (Z.ones W) (Z.lnot (bits_val l)))) b =
    Z.testbit v b && negb (existsb (Z.eqb b) l).
Proof. exact clear_bits_spec. Qed.

(* check_bits: true iff the pixel's set meets the bit list *)
Theorem C13_check_bits_is_intersection_test :
  forall v l, 0 <= v -> (forall x, In x l -> 0 <= x) ->
    (0 <? Z.land v (bits_val l)) = existsb (Z.testbit v) l.
Proof. exact check_bits_spec. Qed.

(* a pixel is invalid (all bytes zero) iff its set is empty *)
Theorem C13_valid_iff_nonempty :
  forall v, 0 <= v -> (v = 0 <-> forall b, 0 <= b -> Z.testbit v b = false).
Proof. exact valid_iff_some_bit. Qed.

(* the reported width 8*((maxbits-1)//8+1) holds every requested bit, and a geometry's width
   (largest bit + 1) holds every bit of its value *)
Theorem C13_width_holds_requested_bits :
  forall maxbits, 1 <= maxbits -> maxbits <= 8 * ((maxbits - 1) / 8 + 1) < maxbits + 8.
Proof. exact width_holds_maxbits. Qed.

Theorem C13_geometry_width_fits :
  forall (l : list Z) (mx : Z), (forall x, In x l -> 0 <= x <= mx) ->
    forall x, In x l -> x < 8 * ((mx + 1 - 1) / 8 + 1).
Proof. exact geom_width_fits. Qed.

(* lifted to maps: after an 'or' update with the packed value, bit b of pixel q is set iff it was
   set before or q was addressed and b is in the list (exec instance of C01_update_read) *)
(* ---- map level (cells = the integer of the packed row; any well-formed map, any block order) ---- *)

(* update_values_pix(pixels, rows, operation='or'): union with every row addressed to the pixel —
   repeated pixels with different rows accumulate *)
Theorem C13_or_update_is_union_per_pixel :
  forall (m : smap Z) (pvs : list (Z * Z)) (q b : Z),
    wf wide_params m -> pvs_ok wide_params m pvs -> 0 <= q < npix Z m ->
    Z.testbit (read Z 0 (update Z 0 Z.add Z.lor Z.land 0 (fun v => v =? 0) false m UOr pvs false) q) b =
    Z.testbit (read Z 0 m q) b || existsb (fun v => Z.testbit v b) (vals_at Z q pvs).
Proof. exact or_update_is_union. Qed.

Theorem C13_and_update_is_intersection_per_pixel :
  forall (m : smap Z) (pvs : list (Z * Z)) (q b : Z),
    wf wide_params m -> pvs_ok wide_params m pvs -> 0 <= q < npix Z m ->
    Z.testbit (read Z 0 (update Z 0 Z.add Z.lor Z.land 0 (fun v => v =? 0) false m UAnd pvs false) q) b =
    Z.testbit (read Z 0 m q) b && forallb (fun v => Z.testbit v b) (vals_at Z q pvs).
Proof. exact and_update_is_intersection. Qed.

(* set_bits_pix / clear_bits_pix on a map: bit b of pixel q afterwards *)
Theorem C13_set_bits_pix_on_a_map :
  forall (m : smap Z) (ps bits : list Z) (q b : Z),
    wf wide_params m -> (forall p, In p ps -> 0 <= p < npix Z m) -> 0 <= q < npix Z m ->
    0 <= b -> (forall x, In x bits -> 0 <= x) ->
    Z.testbit (read Z 0 (update Z 0 Z.add Z.lor Z.land 0 (fun v => v =? 0) false m UOr
                                (map (fun p => (p, bits_val bits)) ps) false) q) b =
    Z.testbit (read Z 0 m q) b || (existsb (Z.eqb q) ps && existsb (Z.eqb b) bits).
Proof. exact set_bits_pix_spec. Qed.

Theorem C13_clear_bits_pix_on_a_map :
  forall (m : smap Z) (ps bits : list Z) (q b W : Z),
    wf wide_params m -> (forall p, In p ps -> 0 <= p < npix Z m) -> 0 <= q < npix Z m ->
    0 <= b < W -> (forall x, In x bits -> 0 <= x) ->
    Z.testbit (read Z 0 (update Z 0 Z.add Z.lor Z.land 0 (fun v => v =? 0) false m UAnd
                                (map (fun p => (p, Z.land (Z.ones W) (Z.lnot (bits_val bits)))) ps) false) q) b =
    Z.testbit (read Z 0 m q) b && negb (existsb (Z.eqb q) ps && existsb (Z.eqb b) bits).
Proof. exact clear_bits_pix_spec. Qed.

Example C13_hypotheses_satisfiable :
  let k := mkk 0 0 1 in
  let m0 := make_empty cellv 12 4 [q0] None in
  let m1 := x_update k m0 UOr [(5, [qz (bits_val [0; 8; 15])]); (40, [qz (bits_val [7])])] false in
  let m2 := x_update k m1 UAnd [(5, [qz (Z.land (Z.ones 16) (Z.lnot (bits_val [8])))])] false in
  map (fun b => Z.testbit (Qnum (hd1 (read cellv dcell m2 5))) b) [0; 7; 8; 15; 16] = [true; false; false; true; false] /\
  k_valid k (read cellv dcell m2 40) = true /\ k_valid k (read cellv dcell m2 6) = false.
Proof. vm_compute. repeat split; reflexivity. Qed.

(* ---- the stored bytes: a wide-mask cell is a row of uint8, the model's cell its little-endian integer ---- *)

(* bit k of the integer is bit (k mod 8) of byte (k / 8) of the row: byte boundaries are nothing special *)
Theorem C13_integer_bit_is_row_bit :
  forall (l : list Z) k, bytes_ok l -> 0 <= k -> Z.testbit (le_int l) k = bit l k.
Proof. exact testbit_le_int. Qed.

(* the row built from a bit list (np.packbits of the boolean array with the listed positions True) has exactly
   the listed bits, and its integer is the packed value of the list *)
Theorem C13_row_of_a_bit_list_has_exactly_the_listed_bits :
  forall bits width k, 0 <= k < 8 * width -> bit (bitvals_to_packed bits width) k = existsb (Z.eqb k) bits.
Proof. exact bitvals_to_packed_bit. Qed.

Theorem C13_row_of_a_bit_list_is_its_packed_value :
  forall bits width, 0 <= width -> (forall b, In b bits -> 0 <= b < 8 * width) ->
    le_int (bitvals_to_packed bits width) = bits_val bits.
Proof. exact bitvals_row_is_bits_val. Qed.

(* NumPy's bytewise | and & on rows are | and & of the integers *)
Theorem C13_bytewise_or_of_rows_is_set_union :
  forall (a b : list Z), zlen a = zlen b -> bytes_ok a -> bytes_ok b ->
    bytes_ok (zip_with Z.lor a b) /\ le_int (zip_with Z.lor a b) = Z.lor (le_int a) (le_int b).
Proof. exact rows_or_is_integer_or. Qed.

Theorem C13_bytewise_and_of_rows_is_set_intersection :
  forall (a b : list Z), zlen a = zlen b -> bytes_ok a -> bytes_ok b ->
    bytes_ok (zip_with Z.land a b) /\ le_int (zip_with Z.land a b) = Z.land (le_int a) (le_int b).
Proof. exact rows_and_is_integer_and. Qed.

(* a pixel is valid iff some byte of its row is non-zero iff its integer is non-zero *)
Theorem C13_row_is_zero_iff_its_integer_is_zero :
  forall (l : list Z), bytes_ok l -> (le_int l = 0 <-> forall j, 0 <= j < zlen l -> znth 0 l j = 0).
Proof. exact row_zero_iff_integer_zero. Qed.

Example C13_rows_hypotheses_satisfiable :
  bitvals_to_packed [0; 9; 17] 3 = [1; 2; 2] /\ le_int [1; 2; 2] = bits_val [0; 9; 17].
Proof. exact wide_bytes_example. Qed.

Print Assumptions C13_packed_value_is_the_bit_set.
Print Assumptions C13_set_bits_is_union.
Print Assumptions C13_clear_bits_is_difference.
Print Assumptions C13_check_bits_is_intersection_test.
Print Assumptions C13_valid_iff_nonempty.
Print Assumptions C13_width_holds_requested_bits.
Print Assumptions C13_geometry_width_fits.
Print Assumptions C13_or_update_is_union_per_pixel.
Print Assumptions C13_and_update_is_intersection_per_pixel.
Print Assumptions C13_set_bits_pix_on_a_map.
Print Assumptions C13_clear_bits_pix_on_a_map.
Print Assumptions C13_hypotheses_satisfiable.
Print Assumptions C13_integer_bit_is_row_bit.
Print Assumptions C13_row_of_a_bit_list_has_exactly_the_listed_bits.
Print Assumptions C13_row_of_a_bit_list_is_its_packed_value.
Print Assumptions C13_bytewise_or_of_rows_is_set_union.
Print Assumptions C13_bytewise_and_of_rows_is_set_intersection.
Print Assumptions C13_row_is_zero_iff_its_integer_is_zero.
Print Assumptions C13_rows_hypotheses_satisfiable.
