(* C07 — Degrading reduces exactly the (valid) children of each coarse pixel.
   Statements only; proofs in RebuildProofs.v.  The reduction [red] receives the r children of a
   coarse pixel (value, weight) in pixel order; the executable instance (Exec2.red_cells) drops
   the invalid ones before reducing (NaN masking), except for the bitwise and/or reductions. *)
From Coq Require Import QArith.
From HS Require Import Prelude Cov Map Spec Ops Spec2 Params AtFold MapProofs UpdateProofs HistoryProofs
     LayoutProofs AccountProofs OpsProofs RebuildProofs CongRefine Rehouse DegradeCoarse Exec Exec2 ExecProofs.
Open Scope Z_scope.

Section C07.
Variables P P' : params.
Notation V := (p_V P).
Notation W := (p_V P').

(* coarse pixel q of the degraded map holds the reduction of exactly the r children
   [q*r, (q+1)*r) of q (values read from the source map, weights from the aligned weight map) when
   its coverage pixel is covered, and the output sentinel otherwise: for every block order of the
   source, every r dividing nfine (so both sides of the coverage resolution after re-housing) *)
Theorem C07_degrade_reduces_the_children :
  forall (red : list (V * W) -> W) (r : Z) (nb : W) (m : smap V) (wsp wd : list W) q,
    wf P m -> 0 < r -> nfine m mod r = 0 -> aligned P P' m wsp wd -> 0 <= q < npix V m / r ->
    read W (p_dv P') (degrade2 V W red r nb m wsp) q =
    if covered V m (q / (nfine m / r))
    then red (map (fun x => (read V (p_dv P) m x, znth (p_dv P') wd x)) (zrange (q * r) ((q + 1) * r)))
    else nb.
Proof. exact (degrade2_read P P'). Qed.

(* the same at the level of the whole map: the abstraction of the degraded map is the dense weighted
   degrade of the abstraction ([wd] = the weights per sky pixel, [wsp] = the same weights in the storage
   order of m) *)
Theorem C07_degrade_refines :
  forall (red : list (V * W) -> W) (r : Z) (nb : W) (m : smap V) (wsp wd : list W),
    wf P m -> 0 < r -> nfine m mod r = 0 -> aligned P P' m wsp wd -> zlen wd = npix V m ->
    abs W (p_dv P') (degrade2 V W red r nb m wsp) = d_degrade2 V W red r nb (abs V (p_dv P) m) wd.
Proof. exact (degrade2_refines P P'). Qed.

(* the degraded map obeys the layout invariant (overflow block reset to the sentinel included) *)
Theorem C07_degrade_keeps_layout :
  forall (red : list (V * W) -> W) (r : Z) (nb : W) (m : smap V) (wsp : list W),
    wf P m -> 0 < r -> nfine m mod r = 0 -> p_valid P' nb = false ->
    wf P' (degrade2 V W red r nb m wsp).
Proof. exact (degrade2_wf P P'). Qed.

(* the coverage mask is unchanged by the order-preserving rebuild of the index *)
Theorem C07_degrade_keeps_coverage :
  forall (m : smap V) nf' (bl' : W), wf P m -> 0 < nf' ->
    coverage_mask nf' (rebuild_idx V m nf') = coverage_mask (nfine m) (idx m).
Proof. exact (built_covmask P P'). Qed.

End C07.

(* the executable reduction drops invalid children: a coarse pixel with no valid child gets the
   output sentinel in every field for the NaN-masked reductions *)
Theorem C07_no_valid_child_is_invalid :
  forall k code kout nb (cw : list (cellv * cellv)),
    (code =? 8) || (code =? 9) = false -> (code =? 5) || (code =? 6) = false ->
    (forall c, In c cw -> k_valid k (fst c) = false) -> zlen nb = k_nf kout -> 0 <= k_nf kout ->
    red_cells k code kout nb cw = nb.
Proof.
  intros k code kout nb cw H89 H56 Hinv Hlen Hnf. unfold red_cells. rewrite H89.
  assert (E : filter (fun c => k_valid k (fst c)) cw = []).
  { induction cw as [|c t IH]; [reflexivity|]. cbn [filter]. rewrite (Hinv c (or_introl eq_refl)).
    apply IH. intros c' Hc'. apply Hinv. right; exact Hc'. }
  rewrite E. cbn [map]. unfold reduce_q.
  apply orb_false_iff in H56. destruct H56 as [H5 H6]. rewrite H5, H6.
  apply (znth_ext q0).
  - rewrite zlen_map, zlen_zrange. lia.
  - intros i Hi. rewrite zlen_map, zlen_zrange in Hi.
    rewrite (znth_map _ 0) by (rewrite zlen_zrange; lia). rewrite znth_zrange by lia. f_equal; lia.
Qed.

Example C07_hypotheses_satisfiable :
  let k := mkk 0 (-5 # 1) 1 in
  let m := x_update k (make_empty cellv 12 4 [(-5 # 1)%Q] None) URepl
                    [(45, [(7 # 1)%Q]); (3, [(9 # 2)%Q]); (44, [(1 # 1)%Q])] false in
  let kout := mkk 0 (-9 # 1) 1 in
  let wsp := map (fun _ => [q0]) (sp m) in
  wf (xparams k) m /\ nfine m mod 4 = 0 /\
  x_values (degrade2 cellv cellv (red_cells k 0 kout [(-9 # 1)%Q]) 4 [(-9 # 1)%Q] m wsp) =
  [[(9#2)%Q]; [(-9#1)%Q]; [(-9#1)%Q]; [(-9#1)%Q]; [(-9#1)%Q]; [(-9#1)%Q]; [(-9#1)%Q]; [(-9#1)%Q];
   [(-9#1)%Q]; [(-9#1)%Q]; [(-9#1)%Q]; [(4#1)%Q]].
Proof.
  cbv zeta. split; [|split; vm_compute; reflexivity].
  apply x_update_wf.
  - apply (make_empty_wf (xparams (mkk 0 (-5 # 1) 1))); [lia|lia|reflexivity|exact I].
  - intros pv [<-|[<-|[<-|[]]]]; (split; [apply Z.leb_le|apply Z.ltb_lt]; vm_compute; reflexivity).
Qed.

(* degrading below the coverage resolution: the map is first re-housed on an empty map with the coarser
   coverage resolution (valid pixels assigned), then degraded as usual.  The re-housed map is well formed and
   IS "an equal map built with that coarser coverage resolution": same pixel count and sentinel, at every pixel
   the original value where valid and the sentinel elsewhere — so the degrade theorems above apply to it *)
Theorem C07_rehousing_gives_an_equal_map_with_the_coarser_coverage :
  forall (P : params) (n' nf' : Z) (m : smap (p_V P)),
    MapProofs.wf P m -> 0 <= n' -> 0 < nf' -> n' * nf' = npix (p_V P) m ->
    let m' := rehouse P n' nf' m in
    MapProofs.wf P m' /\ npix (p_V P) m' = npix (p_V P) m /\ nfine m' = nf' /\ blank m' = blank m /\
    (forall q, 0 <= q < npix (p_V P) m ->
       read (p_V P) (p_dv P) m' q = if p_valid P (read (p_V P) (p_dv P) m q) then read (p_V P) (p_dv P) m q else blank m) /\
    (forall q, 0 <= q < npix (p_V P) m ->
       p_valid P (read (p_V P) (p_dv P) m' q) = p_valid P (read (p_V P) (p_dv P) m q)).
Proof. exact rehouse_spec. Qed.

(* the interpreter's re-housing (op 22 without pre-allocated coverage pixels) is this function *)
Theorem C07_interpreter_rehousing_is_the_model :
  forall (k : kinfo) (n' nf' : Z) (m : smap cellv),
    x_update k (make_empty cellv n' nf' (blank m) None) URepl (Exec2.valid_pvs k m) false =
    rehouse (xparams k) n' nf' m.
Proof. intros. reflexivity. Qed.

(* "the result is the same ... as for an equal map built with that coarser coverage resolution": for a reduction
   that looks only at the valid children, two well-formed maps with the same valid pixels and values — any
   coverage resolutions, block orders, contents of invalid cells — degrade to the same value at every coarse
   pixel both cover (where one does not cover it there is no valid child: the sentinel for the masked
   reductions, 0 / 1 for sum / prod inside covered coverage pixels, the caveat of the property) *)
Theorem C07_maps_equal_on_their_valid_pixels_degrade_alike :
  forall (P P' : params) (red : list (p_V P * p_V P') -> p_V P') (r : Z) (nb : p_V P')
         (m1 m2 : smap (p_V P)) (wsp1 wsp2 wd : list (p_V P')) (q : Z),
    MapProofs.wf P m1 -> MapProofs.wf P m2 -> 0 < r -> nfine m1 mod r = 0 -> nfine m2 mod r = 0 ->
    aligned P P' m1 wsp1 wd -> aligned P P' m2 wsp2 wd ->
    valid_only P P' red -> valid_equal P m1 m2 ->
    0 <= q < npix (p_V P) m1 / r ->
    covered (p_V P) m1 (q / (nfine m1 / r)) = true -> covered (p_V P) m2 (q / (nfine m2 / r)) = true ->
    read (p_V P') (p_dv P') (degrade2 (p_V P) (p_V P') red r nb m1 wsp1) q =
    read (p_V P') (p_dv P') (degrade2 (p_V P) (p_V P') red r nb m2 wsp2) q.
Proof. exact degrade_of_valid_equal_maps. Qed.

(* in particular re-house-then-degrade (what degrade does below the coverage resolution) against the original *)
Theorem C07_degrade_after_rehousing_equals_degrade :
  forall (P P' : params) (red : list (p_V P * p_V P') -> p_V P') (r : Z) (nb : p_V P')
         (n' nf' : Z) (m : smap (p_V P)) (wsp wsp' wd : list (p_V P')) (q : Z),
    MapProofs.wf P m -> 0 <= n' -> 0 < nf' -> n' * nf' = npix (p_V P) m -> 0 < r -> nfine m mod r = 0 -> nf' mod r = 0 ->
    aligned P P' m wsp wd -> aligned P P' (rehouse P n' nf' m) wsp' wd ->
    valid_only P P' red -> 0 <= q < npix (p_V P) m / r ->
    covered (p_V P) m (q / (nfine m / r)) = true -> covered (p_V P) (rehouse P n' nf' m) (q / (nf' / r)) = true ->
    read (p_V P') (p_dv P') (degrade2 (p_V P) (p_V P') red r nb (rehouse P n' nf' m) wsp') q =
    read (p_V P') (p_dv P') (degrade2 (p_V P) (p_V P') red r nb m wsp) q.
Proof. exact degrade_after_rehousing. Qed.

(* every executable reduction but the bitwise and / or (which fold all children) looks only at the valid children *)
Theorem C07_executable_reductions_look_only_at_valid_children :
  forall (k kout : kinfo) (code : Z) (nb : cellv),
    (code =? 8) || (code =? 9) = false ->
    valid_only (xparams k) (xparams kout) (red_cells k code kout nb).
Proof. exact executable_reductions_are_valid_only. Qed.

Print Assumptions C07_degrade_reduces_the_children.
Print Assumptions C07_degrade_refines.
Print Assumptions C07_degrade_keeps_layout.
Print Assumptions C07_degrade_keeps_coverage.
Print Assumptions C07_no_valid_child_is_invalid.
Print Assumptions C07_hypotheses_satisfiable.
Print Assumptions C07_rehousing_gives_an_equal_map_with_the_coarser_coverage.
Print Assumptions C07_interpreter_rehousing_is_the_model.
Print Assumptions C07_maps_equal_on_their_valid_pixels_degrade_alike.
Print Assumptions C07_degrade_after_rehousing_equals_degrade.
Print Assumptions C07_executable_reductions_look_only_at_valid_children.
