(* C10 — Maps with equal content are interchangeable, however they were produced.
   Statements only; proofs in CongProofs.v.  "Equal content" is equality of the dense abstraction
   (resolution, blank value, coverage mask and the value of every pixel); the premise wf holds for
   every map produced by an operation proved to preserve it (make_empty with or without
   pre-allocation, updates in any order, clears, scalar/boolean-constant operators, astype, field
   copies, apply_mask, degrade, upgrade, partial and full reads).  Representation facts outside the
   model (array ownership, byte order, array subclass) are covered by the implementation-twin
   correspondence of this property (harness/gens2.gen_c10). *)
From HS Require Import Prelude Cov Map Spec Ops Spec2 Params AtFold MapProofs UpdateProofs HistoryProofs
     LayoutProofs AccountProofs OpsProofs CongProofs.
Open Scope Z_scope.

Section C10.
Variable P : params.
Notation V := (p_V P).
Notation upd := (update V (p_dv P) (p_vadd P) (p_vor P) (p_vand P) (p_vzero P) (p_is_sent P) (p_sent_nonzero P)).

Theorem C10_updates_on_equal_maps_give_equal_maps :
  forall (m1 m2 : smap V) o pvs na,
    wf P m1 -> wf P m2 -> abs V (p_dv P) m1 = abs V (p_dv P) m2 -> pvs_ok P m1 pvs -> pvs_ok P m2 pvs ->
    abs V (p_dv P) (upd m1 o pvs na) = abs V (p_dv P) (upd m2 o pvs na).
Proof. exact (update_congruence P). Qed.

Theorem C10_every_update_history_preserves_equality :
  forall (hs : list (hop P)) (m1 m2 : smap V),
    wf P m1 -> wf P m2 -> abs V (p_dv P) m1 = abs V (p_dv P) m2 ->
    hops_ok P (npix V m1) hs -> hops_ok P (npix V m2) hs ->
    abs V (p_dv P) (fold_left (hstep P) hs m1) = abs V (p_dv P) (fold_left (hstep P) hs m2).
Proof. exact (history_congruence P). Qed.

Theorem C10_scalar_operators_preserve_equality :
  forall g (m1 m2 : smap V), wf P m1 -> wf P m2 -> abs V (p_dv P) m1 = abs V (p_dv P) m2 ->
    abs V (p_dv P) (map_valid V (p_valid P) g m1) = abs V (p_dv P) (map_valid V (p_valid P) g m2).
Proof. exact (scalar_op_congruence P). Qed.

Theorem C10_invert_and_constants_preserve_equality :
  forall g (m1 m2 : smap V), wf P m1 -> wf P m2 -> abs V (p_dv P) m1 = abs V (p_dv P) m2 ->
    abs V (p_dv P) (tail_map V g m1) = abs V (p_dv P) (tail_map V g m2).
Proof. exact (invert_congruence P). Qed.

Theorem C10_apply_mask_preserves_equality :
  forall bad (m1 m2 : smap V), wf P m1 -> wf P m2 -> abs V (p_dv P) m1 = abs V (p_dv P) m2 ->
    exists a b, apply_mask V (p_valid P) (p_dv P) bad m1 = Some a /\
                apply_mask V (p_valid P) (p_dv P) bad m2 = Some b /\ abs V (p_dv P) a = abs V (p_dv P) b.
Proof. exact (apply_mask_congruence P). Qed.

Theorem C10_equal_maps_have_equal_counts :
  forall (m1 m2 : smap V), wf P m1 -> wf P m2 -> abs V (p_dv P) m1 = abs V (p_dv P) m2 ->
    count_valid V (p_valid P) m1 = count_valid V (p_valid P) m2.
Proof. exact (count_congruence P). Qed.

End C10.

Theorem C10_conversions_preserve_equality :
  forall (P P' : params) conv nb (m1 m2 : smap (p_V P)),
    wf P m1 -> wf P m2 -> abs (p_V P) (p_dv P) m1 = abs (p_V P) (p_dv P) m2 ->
    abs (p_V P') (p_dv P') (astype (p_V P) (p_V P') (p_valid P) conv nb m1) =
    abs (p_V P') (p_dv P') (astype (p_V P) (p_V P') (p_valid P) conv nb m2).
Proof. exact astype_congruence. Qed.

Print Assumptions C10_updates_on_equal_maps_give_equal_maps.
Print Assumptions C10_every_update_history_preserves_equality.
Print Assumptions C10_scalar_operators_preserve_equality.
Print Assumptions C10_invert_and_constants_preserve_equality.
Print Assumptions C10_apply_mask_preserves_equality.
Print Assumptions C10_equal_maps_have_equal_counts.
Print Assumptions C10_conversions_preserve_equality.
