(* C10 — Maps with equal content are interchangeable, however they were produced.
   Statements only; proofs in CongProofs.v.  "Equal content" is equality of the dense abstraction
   (resolution, blank value, coverage mask and the value of every pixel); the premise wf holds for
   every map produced by an operation proved to preserve it (make_empty with or without
   pre-allocation, updates in any order, clears, scalar/boolean-constant operators, astype, field
   copies, apply_mask, degrade, upgrade, partial and full reads, boolean map-with-map operators, multi-map
   operations).  Representation facts outside the
   model (array ownership, byte order, array subclass) are covered by the implementation-twin
   correspondence of this property (harness/gens2.gen_c10). *)
From HS Require Import Prelude Cov Map Spec Ops Spec2 Params AtFold MapProofs UpdateProofs HistoryProofs
     LayoutProofs AccountProofs OpsProofs RebuildProofs FracdetProofs CongProofs MultiRefine CongRefine PartialRefine
     RangeProofs RangeRefine RangeAbs FracdetAbs Rehouse.
Open Scope Z_scope.

Section C10.
Variable P : params.
Notation V := (p_V P).
Notation upd := (update V (p_dv P) (p_vadd P) (p_vor P) (p_vand P) (p_vzero P) (p_is_sent P) (p_sent_nonzero P)).

Theorem C10_updates_on_equal_maps_give_equal_maps :
  forall (m1 m2 : smap V) o pvs na,
    wf P m1 -> wf P m2 -> abs V (p_dv P) m1 = abs V (p_dv P) m2 -> pvs_ok P m1 pvs -> pvs_ok P m2 pvs ->
    abs V (p_dv P) (upd m1 o pvs na) = abs V (p_dv P) (upd m2 o pvs na).
Proof. exact (update_congruence P). Qed.

Theorem C10_every_update_history_preserves_equality :
  forall (hs : list (hop P)) (m1 m2 : smap V),
    wf P m1 -> wf P m2 -> abs V (p_dv P) m1 = abs V (p_dv P) m2 ->
    hops_ok P (npix V m1) hs -> hops_ok P (npix V m2) hs ->
    abs V (p_dv P) (fold_left (hstep P) hs m1) = abs V (p_dv P) (fold_left (hstep P) hs m2).
Proof. exact (history_congruence P). Qed.

Theorem C10_scalar_operators_preserve_equality :
  forall g (m1 m2 : smap V), wf P m1 -> wf P m2 -> abs V (p_dv P) m1 = abs V (p_dv P) m2 ->
    abs V (p_dv P) (map_valid V (p_valid P) g m1) = abs V (p_dv P) (map_valid V (p_valid P) g m2).
Proof. exact (scalar_op_congruence P). Qed.

Theorem C10_invert_and_constants_preserve_equality :
  forall g (m1 m2 : smap V), wf P m1 -> wf P m2 -> abs V (p_dv P) m1 = abs V (p_dv P) m2 ->
    abs V (p_dv P) (tail_map V g m1) = abs V (p_dv P) (tail_map V g m2).
Proof. exact (invert_congruence P). Qed.

Theorem C10_apply_mask_preserves_equality :
  forall bad (m1 m2 : smap V), wf P m1 -> wf P m2 -> abs V (p_dv P) m1 = abs V (p_dv P) m2 ->
    exists a b, apply_mask V (p_valid P) (p_dv P) bad m1 = Some a /\
                apply_mask V (p_valid P) (p_dv P) bad m2 = Some b /\ abs V (p_dv P) a = abs V (p_dv P) b.
Proof. exact (apply_mask_congruence P). Qed.

Theorem C10_equal_maps_have_equal_counts :
  forall (m1 m2 : smap V), wf P m1 -> wf P m2 -> abs V (p_dv P) m1 = abs V (p_dv P) m2 ->
    count_valid V (p_valid P) m1 = count_valid V (p_valid P) m2.
Proof. exact (count_congruence P). Qed.

End C10.

Theorem C10_conversions_preserve_equality :
  forall (P P' : params) conv nb (m1 m2 : smap (p_V P)),
    wf P m1 -> wf P m2 -> abs (p_V P) (p_dv P) m1 = abs (p_V P) (p_dv P) m2 ->
    abs (p_V P') (p_dv P') (astype (p_V P) (p_V P') (p_valid P) conv nb m1) =
    abs (p_V P') (p_dv P') (astype (p_V P) (p_V P') (p_valid P) conv nb m2).
Proof. exact astype_congruence. Qed.

(* ---- operations whose refinement is proved in RebuildProofs / BoolRefine / MultiRefine ---- *)
Theorem C10_upgrade_preserves_equality :
  forall (P : params) (r : Z) (m1 m2 : smap (p_V P)),
    wf P m1 -> wf P m2 -> 0 < r -> abs (p_V P) (p_dv P) m1 = abs (p_V P) (p_dv P) m2 ->
    abs (p_V P) (p_dv P) (upgrade (p_V P) r m1) = abs (p_V P) (p_dv P) (upgrade (p_V P) r m2).
Proof. exact upgrade_congruence. Qed.

(* weighted degrade: content-equal maps, the same weights per sky pixel — each laid out in the storage
   order of its own map (what re-housing the weight map achieves) *)
Theorem C10_weighted_degrade_preserves_equality :
  forall (P P' : params) (red : list (p_V P * p_V P') -> p_V P') (r : Z) (nb : p_V P')
         (m1 m2 : smap (p_V P)) (w1 w2 wd : list (p_V P')),
    wf P m1 -> wf P m2 -> 0 < r -> nfine m1 mod r = 0 ->
    aligned P P' m1 w1 wd -> aligned P P' m2 w2 wd -> zlen wd = npix (p_V P) m1 ->
    abs (p_V P) (p_dv P) m1 = abs (p_V P) (p_dv P) m2 ->
    abs (p_V P') (p_dv P') (degrade2 (p_V P) (p_V P') red r nb m1 w1) =
    abs (p_V P') (p_dv P') (degrade2 (p_V P) (p_V P') red r nb m2 w2).
Proof. exact degrade_congruence. Qed.

(* boolean map-with-map operators: either form, on either pair of content-equal operands *)
Theorem C10_boolean_map_operators_preserve_equality :
  forall (P : params) (f : p_V P -> p_V P -> p_V P) (a1 b1 a2 b2 : smap (p_V P)) (vfalse : p_V P),
    wf P a1 -> wf P b1 -> nfine b1 = nfine a1 -> ncov (p_V P) b1 = ncov (p_V P) a1 ->
    wf P a2 -> wf P b2 -> nfine b2 = nfine a2 -> ncov (p_V P) b2 = ncov (p_V P) a2 ->
    vfalse = blank a2 ->
    abs (p_V P) (p_dv P) a1 = abs (p_V P) (p_dv P) a2 -> abs (p_V P) (p_dv P) b1 = abs (p_V P) (p_dv P) b2 ->
    abs (p_V P) (p_dv P) (bool_map_op_inplace (p_V P) (p_dv P) f a1 b1) =
      abs (p_V P) (p_dv P) (bool_map_op_inplace (p_V P) (p_dv P) f a2 b2) /\
    abs (p_V P) (p_dv P) (bool_map_op_inplace (p_V P) (p_dv P) f a1 b1) =
      abs (p_V P) (p_dv P) (bool_map_op_copy (p_V P) vfalse f a2 b2).
Proof. exact bool_op_congruence. Qed.

(* multi-map operations: input lists with equal abstractions (and validity tests) *)
Theorem C10_multi_map_operations_preserve_equality :
  forall (P : params) (f : p_V P -> p_V P -> p_V P) (conv : p_V P -> p_V P) (filler sentinel : p_V P) (ff : bool)
         (vout : p_V P -> bool) ncv nf (union fis : bool) (ms1 ms2 : list (vmap (p_V P))),
    vout sentinel = false -> 0 <= ncv -> 0 < nf ->
    ms1 <> [] -> (forall vm, In vm ms1 -> okmap P ncv nf vm) ->
    ms2 <> [] -> (forall vm, In vm ms2 -> okmap P ncv nf vm) ->
    (union = true -> ff = false) -> (fis = true -> filler = sentinel) ->
    dsof P ms1 = dsof P ms2 ->
    exists m1 m2,
      apply_operation (p_V P) (p_dv P) f conv filler sentinel fis union ff ms1 = Some m1 /\
      apply_operation (p_V P) (p_dv P) f conv filler sentinel fis union ff ms2 = Some m2 /\
      abs (p_V P) (p_dv P) m1 = abs (p_V P) (p_dv P) m2.
Proof. exact apply_operation_congruence. Qed.

(* reading selected coverage pixels of content-equal maps (files): both rejected or both accepted with
   content-equal results *)
Theorem C10_partial_reads_preserve_equality :
  forall (P : params) (m1 m2 : smap (p_V P)) (req : list Z),
    wf P m1 -> wf P m2 -> abs (p_V P) (p_dv P) m1 = abs (p_V P) (p_dv P) m2 ->
    match read_partial (p_V P) m1 req, read_partial (p_V P) m2 req with
    | Some a, Some b => abs (p_V P) (p_dv P) a = abs (p_V P) (p_dv P) b
    | None, None => True
    | _, _ => False
    end.
Proof. exact read_partial_congruence. Qed.

(* range updates (the slice path) on equal maps give equal maps, coverage mask included *)
Theorem C10_range_updates_preserve_equality :
  forall (P : params) (m1 m2 : smap (p_V P)) (o : uop) (rows : list (Z * Z)) (value : p_V P) (na : bool),
    MapProofs.wf P m1 -> MapProofs.wf P m2 -> abs (p_V P) (p_dv P) m1 = abs (p_V P) (p_dv P) m2 ->
    (forall r, In r rows -> row_ok P m1 r) -> (forall r, In r rows -> row_ok P m2 r) ->
    (o = UAdd -> p_sent_nonzero P = true -> NoDup (expand_ranges rows)) ->
    abs (p_V P) (p_dv P)
        (update_ranges (p_V P) (p_dv P) (p_vadd P) (p_vor P) (p_vand P) (p_vzero P) (p_is_sent P) (p_sent_nonzero P)
                       m1 o rows value na) =
    abs (p_V P) (p_dv P)
        (update_ranges (p_V P) (p_dv P) (p_vadd P) (p_vor P) (p_vand P) (p_vzero P) (p_is_sent P) (p_sent_nonzero P)
                       m2 o rows value na).
Proof. exact ranges_congruence. Qed.

(* equal maps have equal fractional-detection maps at every permitted resolution *)
Theorem C10_fracdet_maps_of_equal_maps_are_equal :
  forall (P : params) (m1 m2 : smap (p_V P)) (r : Z),
    MapProofs.wf P m1 -> MapProofs.wf P m2 -> 0 < r -> nfine m1 mod r = 0 ->
    abs (p_V P) (p_dv P) m1 = abs (p_V P) (p_dv P) m2 ->
    abs Z 0 (fracdet_map P m1 r) = abs Z 0 (fracdet_map P m2 r).
Proof. exact fracdet_congruence. Qed.

(* re-housing on a coarser coverage resolution (the first step of degrading below the coverage resolution)
   of equal maps gives maps that read the same everywhere *)
Theorem C10_rehoused_equal_maps_read_the_same :
  forall (P : params) (n' nf' : Z) (m1 m2 : smap (p_V P)),
    MapProofs.wf P m1 -> MapProofs.wf P m2 -> 0 <= n' -> 0 < nf' -> n' * nf' = npix (p_V P) m1 ->
    abs (p_V P) (p_dv P) m1 = abs (p_V P) (p_dv P) m2 ->
    forall q, 0 <= q < npix (p_V P) m1 ->
      read (p_V P) (p_dv P) (rehouse P n' nf' m1) q = read (p_V P) (p_dv P) (rehouse P n' nf' m2) q.
Proof. exact rehouse_congruence. Qed.

Print Assumptions C10_updates_on_equal_maps_give_equal_maps.
Print Assumptions C10_every_update_history_preserves_equality.
Print Assumptions C10_scalar_operators_preserve_equality.
Print Assumptions C10_invert_and_constants_preserve_equality.
Print Assumptions C10_apply_mask_preserves_equality.
Print Assumptions C10_equal_maps_have_equal_counts.
Print Assumptions C10_upgrade_preserves_equality.
Print Assumptions C10_weighted_degrade_preserves_equality.
Print Assumptions C10_boolean_map_operators_preserve_equality.
Print Assumptions C10_multi_map_operations_preserve_equality.
Print Assumptions C10_partial_reads_preserve_equality.
Print Assumptions C10_conversions_preserve_equality.
Print Assumptions C10_range_updates_preserve_equality.
Print Assumptions C10_fracdet_maps_of_equal_maps_are_equal.
Print Assumptions C10_rehoused_equal_maps_read_the_same.
