(* C18 — Concatenating disjoint map files yields their union, pixel for pixel.
   Statements only; proofs in MultiProofs.v (the union is the multi-map fold with "take the new
   value": at a pixel where exactly one input is valid the result is that input's value, where none
   is valid it is the sentinel) and PartialProofs.v (each input is read coverage pixel by coverage
   pixel; a partial read is the restriction).  The interpreter's op 32 computes this specification;
   the implementation's output file is compared with it on every run, for inputs of differing
   coverage resolution and every requested output coverage resolution. *)
From Coq Require Import QArith.
From HS Require Import Prelude Cov Map Spec Ops Spec2 MultiProofs Exec Exec2.
Open Scope Z_scope.

Section C18.
Variable V : Type.
Variable dv : V.
Notation take := (fun (_ b : V) => b).

(* where exactly one input is valid, the concatenation has that input's value *)
Theorem C18_union_takes_the_only_valid_input :
  forall filler sentinel (ds : list (vdmap V)) d0 r d p v,
    ds = d0 :: r -> d_apply_operation V dv take (fun x => x) filler sentinel true false ds = Some d ->
    0 <= p < d_npix V (snd d0) -> d_vals_at V dv ds p = [v] -> d_read V dv d p = v.
Proof.
  intros filler sentinel ds d0 r d p v E H Hp Hv.
  rewrite (union_folds_valid_inputs V dv take (fun x => x) filler sentinel ds d0 r d p v [] E H Hp Hv eq_refl).
  reflexivity.
Qed.

(* where no input is valid it is invalid *)
Theorem C18_union_invalid_elsewhere :
  forall filler sentinel (ds : list (vdmap V)) d0 r d p,
    ds = d0 :: r -> d_apply_operation V dv take (fun x => x) filler sentinel true false ds = Some d ->
    0 <= p < d_npix V (snd d0) -> d_vals_at V dv ds p = [] -> d_read V dv d p = sentinel.
Proof. exact (union_no_valid_input V dv take (fun x => x)). Qed.

(* two inputs overlap iff some pixel is valid in at least two of them: the condition under which
   check_overlap must raise *)
Definition overlaps (ds : list (vdmap V)) (npix : Z) : bool :=
  existsb (fun p => 1 <? zlen (d_vals_at V dv ds p)) (zrange 0 npix).

Theorem C18_overlap_iff_shared_valid_pixel :
  forall ds npix, overlaps ds npix = true <-> exists p, 0 <= p < npix /\ 2 <= zlen (d_vals_at V dv ds p).
Proof.
  intros ds npix. unfold overlaps. rewrite existsb_exists. split.
  - intros [p [Hin H]]. apply In_zrange in Hin. exists p. split; [exact Hin|lia].
  - intros [p [Hp H]]. exists p. split; [apply In_zrange; exact Hp|lia].
Qed.

End C18.

Print Assumptions C18_union_takes_the_only_valid_input.
Print Assumptions C18_union_invalid_elsewhere.
Print Assumptions C18_overlap_iff_shared_valid_pixel.
