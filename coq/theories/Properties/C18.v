(* C18 — Concatenating disjoint map files yields their union, pixel for pixel.
   Statements only; proofs in MultiProofs.v (the union is the multi-map fold with "take the new
   value": at a pixel where exactly one input is valid the result is that input's value, where none
   is valid it is the sentinel) and PartialProofs.v (each input is read coverage pixel by coverage
   pixel; a partial read is the restriction) and CatRefine.v (the routine's own data flow in in-memory
   mode — one output map, for every output coverage pixel and every input a 'replace' update of the
   input's valid pixels inside it — gives, for any inputs, the value of the last input valid at each
   pixel and the sentinel elsewhere, and a well-formed map), CatCov.v (the visiting list the routine computes
   from the inputs' coverage contains every needed coverage pixel, for any mix of coverage resolutions) and
   CatChkProofs.v (check_overlap raises iff two inputs share a valid pixel; or_overlap never raises and
   or-s the inputs in list order).  The interpreter's ops 32 and 36 compute both levels;
   the implementation's output file is compared with it on every run, for inputs of differing
   coverage resolution and every requested output coverage resolution. *)
From Coq Require Import QArith.
From HS Require Import Prelude Cov Map Spec Ops Spec2 Params MapProofs MultiProofs CatRefine CatCov CatChk CatChkProofs WideProofs WideMaps CatOrInt Exec Exec2.
Open Scope Z_scope.

Section C18.
Variable V : Type.
Variable dv : V.
Notation take := (fun (_ b : V) => b).

(* where exactly one input is valid, the concatenation has that input's value *)
Theorem C18_union_takes_the_only_valid_input :
  forall filler sentinel (ds : list (vdmap V)) d0 r d p v,
    ds = d0 :: r -> d_apply_operation V dv take (fun x => x) filler sentinel true false ds = Some d ->
    0 <= p < d_npix V (snd d0) -> d_vals_at V dv ds p = [v] -> d_read V dv d p = v.
Proof.
  intros filler sentinel ds d0 r d p v E H Hp Hv.
  rewrite (union_folds_valid_inputs V dv take (fun x => x) filler sentinel ds d0 r d p v [] E H Hp Hv eq_refl).
  reflexivity.
Qed.

(* where no input is valid it is invalid *)
Theorem C18_union_invalid_elsewhere :
  forall filler sentinel (ds : list (vdmap V)) d0 r d p,
    ds = d0 :: r -> d_apply_operation V dv take (fun x => x) filler sentinel true false ds = Some d ->
    0 <= p < d_npix V (snd d0) -> d_vals_at V dv ds p = [] -> d_read V dv d p = sentinel.
Proof. exact (union_no_valid_input V dv take (fun x => x)). Qed.

(* two inputs overlap iff some pixel is valid in at least two of them: the condition under which
   check_overlap must raise *)
Definition overlaps (ds : list (vdmap V)) (npix : Z) : bool :=
  existsb (fun p => 1 <? zlen (d_vals_at V dv ds p)) (zrange 0 npix).

Theorem C18_overlap_iff_shared_valid_pixel :
  forall ds npix, overlaps ds npix = true <-> exists p, 0 <= p < npix /\ 2 <= zlen (d_vals_at V dv ds p).
Proof.
  intros ds npix. unfold overlaps. rewrite existsb_exists. split.
  - intros [p [Hin H]]. apply In_zrange in Hin. exists p. split; [exact Hin|lia].
  - intros [p [Hp H]]. exists p. split; [apply In_zrange; exact Hp|lia].
Qed.

End C18.

(* the routine itself (layout level), for every list of well-formed inputs of one sky resolution — any
   coverage resolutions, any block orders, any visiting list that contains the needed coverage pixels *)
Theorem C18_concatenation_routine_is_well_formed_and_pointwise :
  forall (P : params) (N ncv nf : Z) (sentinel : p_V P) (inputs : list (smap (p_V P))) (cov_pix : list Z),
    0 <= ncv -> 0 < nf -> N = ncv * nf -> p_valid P sentinel = false ->
    (forall m, In m inputs -> okin P N m) -> NoDup cov_pix ->
    (forall q, 0 <= q < N -> cvals P inputs q <> [] -> In (q / nf) cov_pix) ->
    let out := cat_mem (p_V P) (p_valid P) (p_dv P) (p_vadd P) (p_vor P) (p_vand P) (p_vzero P) (p_is_sent P)
                       (p_sent_nonzero P) ncv nf sentinel inputs cov_pix in
    MapProofs.wf P out /\ npix (p_V P) out = N /\ blank out = sentinel /\
    forall q, 0 <= q < N ->
      read (p_V P) (p_dv P) out q =
      match cvals P inputs q with [] => sentinel | _ => fold_left (fun _ b => b) (cvals P inputs q) sentinel end.
Proof. exact cat_mem_spec. Qed.

(* pairwise disjoint valid sets: the value of the one input valid there, the sentinel elsewhere *)
Theorem C18_concatenation_of_disjoint_inputs :
  forall (P : params) (N ncv nf : Z) (sentinel : p_V P) (inputs : list (smap (p_V P))) (cov_pix : list Z) q v,
    0 <= ncv -> 0 < nf -> N = ncv * nf -> p_valid P sentinel = false ->
    (forall m, In m inputs -> okin P N m) -> NoDup cov_pix ->
    (forall q, 0 <= q < N -> cvals P inputs q <> [] -> In (q / nf) cov_pix) ->
    0 <= q < N ->
    let out := cat_mem (p_V P) (p_valid P) (p_dv P) (p_vadd P) (p_vor P) (p_vand P) (p_vzero P) (p_is_sent P)
                       (p_sent_nonzero P) ncv nf sentinel inputs cov_pix in
    (cvals P inputs q = [v] -> read (p_V P) (p_dv P) out q = v) /\
    (cvals P inputs q = [] -> read (p_V P) (p_dv P) out q = sentinel).
Proof. exact cat_mem_disjoint. Qed.

(* the visiting list the routine computes itself (covered pixels of same-resolution inputs, coverage pixels of
   the valid pixels of coarser-covered inputs, parents of the covered pixels of finer-covered inputs) has no
   repetition and contains the coverage pixel of every pixel at which some input is valid *)
Theorem C18_visiting_list_is_complete :
  forall (P : params) (N ncv nf : Z) (inputs : list (smap (p_V P))),
    0 <= ncv -> 0 < nf -> N = ncv * nf ->
    (forall m, In m inputs -> okin P N m /\ nested P nf m) ->
    NoDup (cat_cov_pix (p_V P) (p_valid P) (p_dv P) ncv nf inputs) /\
    forall q, 0 <= q < N -> cvals P inputs q <> [] ->
      In (q / nf) (cat_cov_pix (p_V P) (p_valid P) (p_dv P) ncv nf inputs).
Proof. exact cat_cov_pix_complete. Qed.

(* hence the routine as a whole, for any combination of input coverage resolutions and output coverage resolution *)
Theorem C18_concatenation_routine_with_its_own_visiting_list :
  forall (P : params) (N ncv nf : Z) (sentinel : p_V P) (inputs : list (smap (p_V P))),
    0 <= ncv -> 0 < nf -> N = ncv * nf -> p_valid P sentinel = false ->
    (forall m, In m inputs -> okin P N m /\ nested P nf m) ->
    let out := cat_mem (p_V P) (p_valid P) (p_dv P) (p_vadd P) (p_vor P) (p_vand P) (p_vzero P) (p_is_sent P)
                       (p_sent_nonzero P) ncv nf sentinel inputs
                       (cat_cov_pix (p_V P) (p_valid P) (p_dv P) ncv nf inputs) in
    MapProofs.wf P out /\ npix (p_V P) out = N /\ blank out = sentinel /\
    forall q, 0 <= q < N ->
      read (p_V P) (p_dv P) out q =
      match cvals P inputs q with [] => sentinel | _ => fold_left (fun _ b => b) (cvals P inputs q) sentinel end.
Proof. exact cat_routine_spec. Qed.

(* with check_overlap (chk) and or_overlap on integer maps (orm): the routine raises (None) only when checking
   without or, and then two inputs share a valid pixel; otherwise the result is well formed and holds at every
   pixel the inputs valid there folded in list order (or-ed onto an already valid value when checking, taken
   otherwise), and when checking without or no pixel is valid in two inputs *)
Theorem C18_checked_concatenation :
  forall (P : params) (N : Z) (chk orm : bool) (ncv nf : Z) (sentinel : p_V P) (inputs : list (smap (p_V P))),
    0 <= ncv -> 0 < nf -> N = ncv * nf -> p_valid P sentinel = false ->
    (forall m, In m inputs -> okin P N m /\ nested P nf m) ->
    match cat_chk (p_V P) (p_valid P) (p_dv P) (p_vadd P) (p_vor P) (p_vand P) (p_vzero P) (p_is_sent P)
                  (p_sent_nonzero P) chk orm ncv nf sentinel inputs
                  (cat_cov_pix (p_V P) (p_valid P) (p_dv P) ncv nf inputs) with
    | Some out =>
        MapProofs.wf P out /\ npix (p_V P) out = N /\ blank out = sentinel /\
        (forall q, 0 <= q < N -> read (p_V P) (p_dv P) out q = fold_left (ostep P chk) (cvals P inputs q) sentinel) /\
        (chk = true -> orm = false -> forall q, 0 <= q < N -> zlen (cvals P inputs q) <= 1)
    | None => chk = true /\ orm = false /\ exists q, 0 <= q < N /\ 2 <= zlen (cvals P inputs q)
    end.
Proof. exact cat_checked_routine_spec. Qed.

(* an error is raised iff two inputs share a valid pixel ... *)
Theorem C18_check_overlap_raises_iff_inputs_share_a_valid_pixel :
  forall (P : params) (N ncv nf : Z) (sentinel : p_V P) (inputs : list (smap (p_V P))),
    0 <= ncv -> 0 < nf -> N = ncv * nf -> p_valid P sentinel = false ->
    (forall m, In m inputs -> okin P N m /\ nested P nf m) ->
    cat_chk (p_V P) (p_valid P) (p_dv P) (p_vadd P) (p_vor P) (p_vand P) (p_vzero P) (p_is_sent P)
            (p_sent_nonzero P) true false ncv nf sentinel inputs
            (cat_cov_pix (p_V P) (p_valid P) (p_dv P) ncv nf inputs) = None <->
    exists q, 0 <= q < N /\ 2 <= zlen (cvals P inputs q).
Proof. exact cat_raises_iff_overlap. Qed.

(* ... except that integer maps can instead be or-ed on request *)
Theorem C18_or_overlap_never_raises :
  forall (P : params) (N ncv nf : Z) (sentinel : p_V P) (inputs : list (smap (p_V P))),
    0 <= ncv -> 0 < nf -> N = ncv * nf -> p_valid P sentinel = false ->
    (forall m, In m inputs -> okin P N m /\ nested P nf m) ->
    cat_chk (p_V P) (p_valid P) (p_dv P) (p_vadd P) (p_vor P) (p_vand P) (p_vzero P) (p_is_sent P)
            (p_sent_nonzero P) true true ncv nf sentinel inputs
            (cat_cov_pix (p_V P) (p_valid P) (p_dv P) ncv nf inputs) <> None.
Proof. exact cat_or_never_raises. Qed.

(* or_overlap on zero-sentinel integer / wide-mask maps: bit b of the result at a pixel is set iff it is set in
   some input valid there — the plain bitwise or of the inputs *)
Theorem C18_or_overlap_is_the_bitwise_or_of_the_inputs :
  forall (N ncv nf : Z) (inputs : list (smap Z)) out,
    0 <= ncv -> 0 < nf -> N = ncv * nf ->
    (forall m, In m inputs -> okin wide_params N m /\ nested wide_params nf m) ->
    cat_chk Z (fun v => negb (v =? 0)) 0 Z.add Z.lor Z.land 0 (fun v => v =? 0) false
            true true ncv nf 0 inputs (cat_cov_pix Z (fun v => negb (v =? 0)) 0 ncv nf inputs) = Some out ->
    forall q b, 0 <= q < N ->
      Z.testbit (read Z 0 out q) b = existsb (fun v => Z.testbit v b) (cvals wide_params inputs q).
Proof. exact or_overlap_is_bitwise_or. Qed.

Print Assumptions C18_union_takes_the_only_valid_input.
Print Assumptions C18_union_invalid_elsewhere.
Print Assumptions C18_concatenation_routine_is_well_formed_and_pointwise.
Print Assumptions C18_concatenation_of_disjoint_inputs.
Print Assumptions C18_overlap_iff_shared_valid_pixel.
Print Assumptions C18_visiting_list_is_complete.
Print Assumptions C18_concatenation_routine_with_its_own_visiting_list.
Print Assumptions C18_checked_concatenation.
Print Assumptions C18_check_overlap_raises_iff_inputs_share_a_valid_pixel.
Print Assumptions C18_or_overlap_never_raises.
Print Assumptions C18_or_overlap_is_the_bitwise_or_of_the_inputs.
