(* C14 — Record-array maps keep all fields under the validity of the primary field.
   Statements only.  A record cell is the list of its field values; validity looks at the primary
   field only.  Whole-record reads/writes are C01 at V = record; get_single(copy=True) is astype
   with the field projection (OpsProofs); a write through a field view is the whole-record replace
   of the addressed pixels with that one field changed (ViewProofs.v: map-level theorems for any
   well-formed parent and any duplicate-free pixel list). *)
From Coq Require Import QArith.
From HS Require Import Prelude Cov Map Spec Ops Spec2 Params AtFold MapProofs UpdateProofs HistoryProofs
     LayoutProofs AccountProofs OpsProofs ViewProofs Exec Exec2 ExecProofs.
Open Scope Z_scope.

(* a pixel is valid iff its primary field differs from the sentinel *)
Theorem C14_valid_iff_primary :
  forall k v, k_valid k v = negb (qeqb (znth q0 v (k_prim k)) (k_sent k)).
Proof. reflexivity. Qed.

(* a whole-record read returns every field exactly as last written (replace of one pixel) *)
Theorem C14_record_read_last_written :
  forall (P : params) (m : smap (p_V P)) pvs na q,
    wf P m -> pvs_ok P m pvs -> 0 <= q < npix (p_V P) m ->
    read (p_V P) (p_dv P) (update (p_V P) (p_dv P) (p_vadd P) (p_vor P) (p_vand P) (p_vzero P) (p_is_sent P)
                                  (p_sent_nonzero P) m URepl pvs na) q =
    pt P URepl (read (p_V P) (p_dv P) m q) (vals_at (p_V P) q (if na then incov P m pvs else pvs)).
Proof. intros P m pvs na q. exact (update_read P m URepl pvs na q). Qed.

(* a single-field copy: that field at exactly the parent's valid pixels, the field's sentinel
   elsewhere; same layout *)
Theorem C14_field_copy_refines :
  forall (P P' : params) (proj : p_V P -> p_V P') (nb : p_V P') (m : smap (p_V P)), wf P m ->
    abs (p_V P') (p_dv P') (astype (p_V P) (p_V P') (p_valid P) proj nb m) =
    d_astype (p_V P) (p_V P') (p_valid P) proj nb (abs (p_V P) (p_dv P) m).
Proof. exact astype_refines. Qed.

(* a write through a field view changes only that field of the addressed record *)
Theorem C14_view_write_changes_one_field :
  forall (v : cellv) (j i : Z) (x : Q),
    znth q0 (zupd v j x) i = if (j =? i) && (0 <=? j) && (j <? zlen v) then x else znth q0 v i.
Proof. intros v j i x. apply znth_zupd. Qed.

(* the same on maps: view[pixels] = x replaces, at each addressed pixel, the stored record by the same
   record with the field set; the result is well formed and every other pixel is untouched *)
Theorem C14_view_write_on_a_map :
  forall (P : params) (F : Type) (setf : p_V P -> F -> p_V P) (m : smap (p_V P)) (ps : list Z) (x : Z -> F),
    wf P m -> NoDup ps -> (forall p, In p ps -> 0 <= p < npix (p_V P) m) ->
    wf P (view_write P F setf m ps x) /\ npix (p_V P) (view_write P F setf m ps x) = npix (p_V P) m /\
    forall q, 0 <= q < npix (p_V P) m ->
      read (p_V P) (p_dv P) (view_write P F setf m ps x) q =
      if existsb (Z.eqb q) ps then setf (read (p_V P) (p_dv P) m q) (x q) else read (p_V P) (p_dv P) m q.
Proof. exact view_write_spec. Qed.

(* every observation of a record that the field setter does not change — any other field, and validity
   when the field is not the primary one — is unchanged at every pixel of the parent *)
Theorem C14_view_write_leaves_the_other_fields_and_validity :
  forall (P : params) (F : Type) (setf : p_V P -> F -> p_V P) (A : Type) (obs : p_V P -> A)
         (m : smap (p_V P)) (ps : list Z) (x : Z -> F) q,
    wf P m -> NoDup ps -> (forall p, In p ps -> 0 <= p < npix (p_V P) m) -> 0 <= q < npix (p_V P) m ->
    (forall v y, obs (setf v y) = obs v) ->
    obs (read (p_V P) (p_dv P) (view_write P F setf m ps x) q) = obs (read (p_V P) (p_dv P) m q).
Proof. exact view_write_preserves. Qed.

(* the view guard of the property: a write through a view to a pixel that is invalid in the parent
   is rejected and leaves the parent unchanged (the L0 branch of the interpreter's op 27) *)
Theorem C14_rejected_view_write_leaves_parent_unchanged :
  forall k (d : dmap cellv) (pix : list Z) (guard : Z -> bool) pvs,
    existsb guard pix = true ->
    (if existsb guard pix then d else x_dupdate k d URepl pvs false) = d.
Proof. intros k d pix guard pvs H. rewrite H. reflexivity. Qed.

Example C14_hypotheses_satisfiable :
  let k := mkk 1 (-5 # 1) 3 in
  let bl := [(-9 # 1)%Q; (-5 # 1)%Q; (-7 # 1)%Q] in
  let m := x_update k (make_empty cellv 12 4 bl None) URepl
                    [(45, [(1 # 1)%Q; (2 # 1)%Q; (3 # 1)%Q]); (3, [(4 # 1)%Q; (-5 # 1)%Q; (6 # 1)%Q])] false in
  wf (xparams k) m /\
  read cellv dcell m 45 = [(1 # 1)%Q; (2 # 1)%Q; (3 # 1)%Q] /\ k_valid k (read cellv dcell m 45) = true /\
  k_valid k (read cellv dcell m 3) = false /\
  read cellv dcell (astype cellv cellv (k_valid k) (fun v => [znth q0 v 2]) [(-7 # 1)%Q] m) 45 = [(3 # 1)%Q] /\
  read cellv dcell (astype cellv cellv (k_valid k) (fun v => [znth q0 v 2]) [(-7 # 1)%Q] m) 3 = [(-7 # 1)%Q].
Proof.
  cbv zeta. split; [|repeat split; vm_compute; reflexivity].
  apply x_update_wf.
  - apply (make_empty_wf (xparams (mkk 1 (-5 # 1) 3))); [lia|lia|reflexivity|exact I].
  - intros pv [<-|[<-|[]]]; (split; [apply Z.leb_le|apply Z.ltb_lt]; vm_compute; reflexivity).
Qed.

Print Assumptions C14_valid_iff_primary.
Print Assumptions C14_record_read_last_written.
Print Assumptions C14_field_copy_refines.
Print Assumptions C14_view_write_changes_one_field.
Print Assumptions C14_view_write_on_a_map.
Print Assumptions C14_view_write_leaves_the_other_fields_and_validity.
Print Assumptions C14_rejected_view_write_leaves_parent_unchanged.
Print Assumptions C14_hypotheses_satisfiable.
