(* C05 — Bit-packed boolean maps are indistinguishable from ordinary boolean maps.
   Statements only; proofs in PackedProofs.v.  The map-level layout theorems (C01, C02, C04, C11)
   are generic in the cell type and hold at V = bool whatever the storage; what is specific to the
   packed storage is the addressing of bits through slice views, proved here for every alignment
   and nesting depth, and compared with the implementation's view objects on every run. *)
From HS Require Import Prelude Packed PackedProofs.
Open Scope Z_scope.

(* a slice [a, b) of a well-formed view is a well-formed view of b - a bits whose bit 0 is the
   parent's bit a of the same root buffer; it stays inside the parent's bytes *)
Theorem C05_slice_addresses_the_requested_bits :
  forall (v w : pview) (a b : Z),
    view_ok v -> 0 <= a -> a <= b -> b <= vsize v -> slice_view v (Some a) (Some b) = Some w ->
    view_ok w /\ vsize w = b - a /\ abs_bit w 0 = abs_bit v a /\ vds v <= vds w /\ (a < b -> vde w <= vde v).
Proof. exact slice_view_spec. Qed.

(* every legal slice is accepted (the defect repaired by fix F37 made some raise) *)
Theorem C05_legal_slices_never_raise :
  forall (v : pview) (a b : Z), 0 <= a -> a <= b -> b <= vsize v -> exists w, slice_view v (Some a) (Some b) = Some w.
Proof. exact slice_view_total. Qed.

(* slices of slices compose like NumPy's *)
Theorem C05_nested_slices_compose :
  forall (v w u : pview) (a b c d : Z),
    view_ok v -> 0 <= a -> a <= b -> b <= vsize v -> 0 <= c -> c <= d -> d <= b - a ->
    slice_view v (Some a) (Some b) = Some w -> slice_view w (Some c) (Some d) = Some u ->
    vsize u = d - c /\ abs_bit u 0 = abs_bit v (a + c).
Proof. exact slice_view_nested. Qed.

(* the first/middle/last decomposition used by every bulk operation covers exactly the bits of the
   view, in three non-overlapping byte groups *)
Theorem C05_decomposition_covers_exactly_the_view :
  forall (v : pview) (k : Z), view_ok v -> 0 < vsize v -> 0 <= k < 8 * vndata v ->
    fml_covers (vndata v) (extract_fml v) k = ((vsi v <=? k) && (k <? vst v)).
Proof. exact extract_fml_covers. Qed.

Theorem C05_decomposition_parts_are_disjoint :
  forall (v : pview), view_ok v -> 0 < vsize v ->
    let d := extract_fml v in let nd := vndata v in
    (f_lo d < f_hi d -> m_lo d < m_hi d -> 1 <= m_lo d) /\
    (m_lo d < m_hi d -> l_lo d < l_hi d -> m_hi d <= nd - 1) /\
    (f_lo d < f_hi d -> l_lo d < l_hi d -> 1 <= nd - 1) /\
    0 <= f_lo d /\ f_hi d <= 8 /\ 0 <= l_lo d /\ l_hi d <= 8 /\ 0 <= m_lo d /\ m_hi d <= nd.
Proof. exact extract_fml_disjoint. Qed.

(* the table behind sum(): every byte value *)
Theorem C05_population_count_table : forall x, 0 <= x < 256 -> lut_entry x = popcount8 x.
Proof. exact lut_popcount_all. Qed.

Example C05_hypotheses_satisfiable :
  view_ok (mkview 0 8 0 64) /\
  slice_view (mkview 0 8 0 64) (Some 3) (Some 40) = Some (mkview 0 5 3 40) /\
  slice_view (mkview 0 5 3 40) (Some 2) (Some 3) = Some (mkview 0 1 5 6).
Proof. unfold view_ok, vsize, vndata. cbn. repeat split; try lia; reflexivity. Qed.

Print Assumptions C05_slice_addresses_the_requested_bits.
Print Assumptions C05_legal_slices_never_raise.
Print Assumptions C05_nested_slices_compose.
Print Assumptions C05_decomposition_covers_exactly_the_view.
Print Assumptions C05_decomposition_parts_are_disjoint.
Print Assumptions C05_population_count_table.
Print Assumptions C05_hypotheses_satisfiable.
