(* C05 — Bit-packed boolean maps are indistinguishable from ordinary boolean maps.
   Statements only; proofs in PackedProofs.v (views), PackedOps.v (the byte-level bulk and
   index-array operations), PackedSum.v (sum) and PackedCopyProofs.v (copy, resize).  The map-level layout theorems (C01, C02, C04, C11)
   are generic in the cell type and hold at V = bool whatever the storage; what is specific to the
   packed storage is the addressing of bits through slice views, proved here for every alignment
   and nesting depth, and compared with the implementation's view objects on every run. *)
From HS Require Import Prelude Packed PackedProofs PackedOps PackedSum PackedCopy PackedCopyProofs.
Open Scope Z_scope.

(* a slice [a, b) of a well-formed view is a well-formed view of b - a bits whose bit 0 is the
   parent's bit a of the same root buffer; it stays inside the parent's bytes *)
Theorem C05_slice_addresses_the_requested_bits :
  forall (v w : pview) (a b : Z),
    view_ok v -> 0 <= a -> a <= b -> b <= vsize v -> slice_view v (Some a) (Some b) = Some w ->
    view_ok w /\ vsize w = b - a /\ abs_bit w 0 = abs_bit v a /\ vds v <= vds w /\ (a < b -> vde w <= vde v).
Proof. exact slice_view_spec. Qed.

(* every legal slice is accepted (the defect repaired by fix F37 made some raise) *)
Theorem C05_legal_slices_never_raise :
  forall (v : pview) (a b : Z), 0 <= a -> a <= b -> b <= vsize v -> exists w, slice_view v (Some a) (Some b) = Some w.
Proof. exact slice_view_total. Qed.

(* slices of slices compose like NumPy's *)
Theorem C05_nested_slices_compose :
  forall (v w u : pview) (a b c d : Z),
    view_ok v -> 0 <= a -> a <= b -> b <= vsize v -> 0 <= c -> c <= d -> d <= b - a ->
    slice_view v (Some a) (Some b) = Some w -> slice_view w (Some c) (Some d) = Some u ->
    vsize u = d - c /\ abs_bit u 0 = abs_bit v (a + c).
Proof. exact slice_view_nested. Qed.

(* the first/middle/last decomposition used by every bulk operation covers exactly the bits of the
   view, in three non-overlapping byte groups *)
Theorem C05_decomposition_covers_exactly_the_view :
  forall (v : pview) (k : Z), view_ok v -> 0 < vsize v -> 0 <= k < 8 * vndata v ->
    fml_covers (vndata v) (extract_fml v) k = ((vsi v <=? k) && (k <? vst v)).
Proof. exact extract_fml_covers. Qed.

Theorem C05_decomposition_parts_are_disjoint :
  forall (v : pview), view_ok v -> 0 < vsize v ->
    let d := extract_fml v in let nd := vndata v in
    (f_lo d < f_hi d -> m_lo d < m_hi d -> 1 <= m_lo d) /\
    (m_lo d < m_hi d -> l_lo d < l_hi d -> m_hi d <= nd - 1) /\
    (f_lo d < f_hi d -> l_lo d < l_hi d -> 1 <= nd - 1) /\
    0 <= f_lo d /\ f_hi d <= 8 /\ 0 <= l_lo d /\ l_hi d <= 8 /\ 0 <= m_lo d /\ m_hi d <= nd.
Proof. exact extract_fml_disjoint. Qed.

(* the table behind sum(): every byte value *)
Theorem C05_population_count_table : forall x, 0 <= x < 256 -> lut_entry x = popcount8 x.
Proof. exact lut_popcount_all. Qed.

(* every bulk operation (slice assignment of a boolean / array / aligned packed operand, &= |= ^= with
   a boolean or an aligned packed operand, invert), as implemented on the bytes — edge bytes unpacked,
   modified on their bit range and packed again, middle bytes operated on whole — changes exactly the
   bits of the view, each to the boolean operation of its old value and the operand's bit, and leaves
   every other bit of the buffer (padding, neighbours' bits in shared bytes) unchanged: for every
   well-formed view, i.e. every alignment and length *)
Theorem C05_bulk_operations_change_exactly_the_bits_of_the_view :
  forall (o : bop) (v : pview) (data : list Z) (ob : Z -> Z),
    view_ok v -> vds v = 0 -> vde v = zlen data -> 0 < vsize v -> bytes_ok data ->
    (forall j, 0 <= ob j < 256) ->
    let data' := bulk_op o v data ob in
    zlen data' = zlen data /\ bytes_ok data' /\
    forall k, 0 <= k < 8 * zlen data ->
      Z.testbit (znth 0 data' (k / 8)) (k mod 8) =
      if (vsi v <=? k) && (k <? vst v)
      then bfun o (Z.testbit (znth 0 data (k / 8)) (k mod 8)) (Z.testbit (ob (k / 8)) (k mod 8))
      else Z.testbit (znth 0 data (k / 8)) (k mod 8).
Proof. exact bulk_op_spec. Qed.

(* index-array assignment (np.bitwise_or.at / np.bitwise_and.at on the bytes): exactly the listed bits
   end set (cleared), repeated locations included, every other bit keeps its value; reading a bit
   through the mask test returns it *)
Theorem C05_set_bits_at_locations :
  forall (locs : list Z) data k,
    (forall p, In p locs -> 0 <= p < 8 * zlen data) -> 0 <= k < 8 * zlen data ->
    zlen (set_bits locs data) = zlen data /\
    bit (set_bits locs data) k = existsb (Z.eqb k) locs || bit data k.
Proof. exact set_bits_spec. Qed.

Theorem C05_clear_bits_at_locations :
  forall (locs : list Z) data k,
    (forall p, In p locs -> 0 <= p < 8 * zlen data) -> 0 <= k < 8 * zlen data ->
    zlen (clear_bits locs data) = zlen data /\
    bit (clear_bits locs data) k = negb (existsb (Z.eqb k) locs) && bit data k.
Proof. exact clear_bits_spec. Qed.

Theorem C05_test_bit_at_location : forall t p, 0 <= p -> test_bit_at t p = bit t p.
Proof. exact test_bit_at_spec. Qed.

(* sum() of a view — what n_valid of a bit-packed map returns — is the number of set bits of the view, for
   every alignment: masked edge bytes + table look-ups of the middle bytes *)
Theorem C05_sum_is_the_number_of_set_bits_of_the_view :
  forall (v : pview) (data : list Z),
    view_ok v -> vds v = 0 -> vde v = zlen data -> 0 < vsize v -> bytes_ok data ->
    sum_view v data = zcount (bit data) (zrange (vsi v) (vst v)).
Proof. exact sum_view_spec. Qed.

(* copy(): the new buffer holds every bit of the view and nothing else — the padding of the edge bytes, which
   in a view of a larger array holds the neighbours' bits, is cleared — for every alignment and length *)
Theorem C05_copy_keeps_the_view_and_clears_the_padding :
  forall (v : pview) (data : list Z),
    view_ok v -> vds v = 0 -> vde v = zlen data -> 0 < vsize v -> bytes_ok data ->
    let data' := copy_view v data in
    zlen data' = zlen data /\ bytes_ok data' /\
    forall k, 0 <= k < 8 * zlen data ->
      bit data' k = (vsi v <=? k) && (k <? vst v) && bit data k.
Proof. exact copy_view_spec. Qed.

(* resize(newsize) of an array whose padding is clear: old bits kept, every new position reads False, the
   enlarged view is well formed and its padding is clear again; shrinking is rejected, same size is a no-op *)
Theorem C05_resize_keeps_old_bits_and_appends_false :
  forall (v : pview) (data : list Z) (newsize : Z),
    0 <= vsi v <= 7 -> vsi v <= vst v -> vds v = 0 -> vde v = zlen data ->
    8 * zlen data - 7 <= vst v <= 8 * zlen data ->
    bytes_ok data -> tail_clean v data -> vsize v < newsize ->
    exists v' data',
      resize_view v data newsize = Some (v', data') /\
      view_ok v' /\ vds v' = 0 /\ vde v' = zlen data' /\ vsi v' = vsi v /\ vsize v' = newsize /\
      bytes_ok data' /\ tail_clean v' data' /\
      (forall k, 0 <= k < vst v -> bit data' k = bit data k) /\
      (forall k, vst v <= k < 8 * zlen data' -> bit data' k = false).
Proof. exact resize_view_spec. Qed.

Theorem C05_resize_rejects_shrinking :
  forall (v : pview) (data : list Z) (newsize : Z), newsize < vsize v -> resize_view v data newsize = None.
Proof. exact resize_view_shrink. Qed.

(* where the clear padding comes from: a fresh array, a copy; and what keeps it: the bulk and index operations *)
Theorem C05_padding_is_clear_after_copy :
  forall (v : pview) (data : list Z),
    view_ok v -> vds v = 0 -> vde v = zlen data -> 0 < vsize v -> bytes_ok data ->
    tail_clean v (copy_view v data).
Proof. exact copy_view_tail_clean. Qed.

Theorem C05_bulk_operations_keep_the_padding_clear :
  forall (o : bop) (v : pview) (data : list Z) (ob : Z -> Z),
    view_ok v -> vds v = 0 -> vde v = zlen data -> 0 < vsize v -> bytes_ok data ->
    (forall j, 0 <= ob j < 256) ->
    tail_clean v data -> tail_clean v (bulk_op o v data ob).
Proof. exact bulk_op_tail_clean. Qed.

Example C05_copy_resize_hypotheses_satisfiable :
  let v := mkview 0 2 3 14 in
  let data := [255; 255] in
  copy_view v data = [248; 63] /\
  resize_view v (copy_view v data) 21 = Some (mkview 0 3 3 24, [248; 63; 0]).
Proof. exact copy_resize_example. Qed.

Example C05_hypotheses_satisfiable :
  view_ok (mkview 0 8 0 64) /\
  slice_view (mkview 0 8 0 64) (Some 3) (Some 40) = Some (mkview 0 5 3 40) /\
  slice_view (mkview 0 5 3 40) (Some 2) (Some 3) = Some (mkview 0 1 5 6).
Proof. unfold view_ok, vsize, vndata. cbn. repeat split; try lia; reflexivity. Qed.

(* C05: an unaligned 13-bit view (bits 3..16 of a 2-byte buffer) meets the hypotheses; xor with a packed operand *)
Example C05_byte_level_hypotheses_satisfiable :
  let v := mkview 0 2 3 16 in
  let data := [173; 90] in
  view_ok v /\ vds v = 0 /\ vde v = zlen data /\ 0 < vsize v /\ bytes_ok data /\
  bulk_op BXor v data (fun j => znth 0 [255; 15] j) = [85; 85] /\
  sum_view v data = 7 /\ set_bits [3; 3; 12] [0; 0] = [8; 16].
Proof.
  cbv zeta. split; [unfold view_ok, vsize, vndata; cbn; lia|].
  split; [reflexivity|]. split; [reflexivity|]. split; [unfold vsize; cbn; lia|].
  split.
  - intros j Hj. change (zlen [173; 90]) with 2 in Hj.
    assert (j = 0 \/ j = 1) as [->| ->] by lia; cbn; lia.
  - vm_compute. repeat split; reflexivity.
Qed.


Print Assumptions C05_slice_addresses_the_requested_bits.
Print Assumptions C05_legal_slices_never_raise.
Print Assumptions C05_nested_slices_compose.
Print Assumptions C05_decomposition_covers_exactly_the_view.
Print Assumptions C05_decomposition_parts_are_disjoint.
Print Assumptions C05_population_count_table.
Print Assumptions C05_bulk_operations_change_exactly_the_bits_of_the_view.
Print Assumptions C05_set_bits_at_locations.
Print Assumptions C05_clear_bits_at_locations.
Print Assumptions C05_test_bit_at_location.
Print Assumptions C05_sum_is_the_number_of_set_bits_of_the_view.
Print Assumptions C05_hypotheses_satisfiable.
Print Assumptions C05_byte_level_hypotheses_satisfiable.
Print Assumptions C05_copy_keeps_the_view_and_clears_the_padding.
Print Assumptions C05_resize_keeps_old_bits_and_appends_false.
Print Assumptions C05_resize_rejects_shrinking.
Print Assumptions C05_padding_is_clear_after_copy.
Print Assumptions C05_bulk_operations_keep_the_padding_clear.
Print Assumptions C05_copy_resize_hypotheses_satisfiable.
