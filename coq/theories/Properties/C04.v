(* C04 — Every reachable map obeys the published storage layout.
   Statements only; proofs in MapProofs.v, UpdateProofs.v, HistoryProofs.v, LayoutProofs.v. *)
From Coq Require Import QArith.
From HS Require Import Prelude Cov Map Spec Params AtFold MapProofs UpdateProofs HistoryProofs LayoutProofs Exec ExecProofs.
Open Scope Z_scope.

Section C04.
Variable P : params.
Notation V := (p_V P).
Notation upd := (update V (p_dv P) (p_vadd P) (p_vor P) (p_vand P) (p_vzero P) (p_is_sent P) (p_sent_nonzero P)).

(* a fresh map (with or without pre-allocated coverage pixels) is well formed *)
Theorem C04_make_empty_wf :
  forall n nf (bl : V) cp,
    0 <= n -> 0 < nf -> p_valid P bl = false -> covpix_ok n cp -> wf P (make_empty V n nf bl cp).
Proof. exact (make_empty_wf P). Qed.

(* update_values_pix (in-coverage write, growth, tail write) preserves the invariant *)
Theorem C04_update_wf :
  forall (m : smap V) o pvs na, wf P m -> pvs_ok P m pvs -> wf P (upd m o pvs na).
Proof. exact (update_wf P). Qed.

(* growth alone (used by the range path and the boolean operators) preserves it *)
Theorem C04_reserve_wf :
  forall (m : smap V) new, wf P m -> new_ok P m new -> wf P (reserve V (p_dv P) m new).
Proof. exact (reserve_wf P). Qed.

(* the invariant implies the published layout predicate: storage length (covered+1)*nfine,
   overflow block invalid, every coverage pixel maps to block 0 or to its own aligned block
   in [1, covered], injectively, and the block table inverts the index.  [layoutb] is the
   boolean function that the harness evaluates on the implementation's raw arrays. *)
Theorem C04_wf_implies_published_layout :
  forall (m : smap V), wf P m -> layoutb V (p_valid P) (p_dv P) m = true.
Proof. exact (wf_layoutb P). Qed.

(* every state reachable from make_empty by any history of updates satisfies the layout *)
Theorem C04_reachable_layout :
  forall n nf (bl : V) cp (hs : list (hop P)),
    0 <= n -> 0 < nf -> p_valid P bl = false -> covpix_ok n cp -> hops_ok P (n * nf) hs ->
    layoutb V (p_valid P) (p_dv P) (fold_left (hstep P) hs (make_empty V n nf bl cp)) = true.
Proof.
  intros n nf bl cp hs Hn Hnf Hb Hcp Hh. apply (wf_layoutb P).
  exact (proj1 (history_from_empty P n nf bl cp hs Hn Hnf Hb Hcp Hh)).
Qed.

(* distinct sky pixels never share a storage cell *)
Theorem C04_distinct_cells :
  forall (m : smap V) p q,
    wf P m -> 0 <= p < npix V m -> 0 <= q < npix V m ->
    covered V m (p / nfine m) = true -> cell V m p = cell V m q -> p = q.
Proof. exact (cell_inj P). Qed.

(* the block -> coverage pixel table inverts the index, in both directions *)
Theorem C04_block_table_inverts :
  forall (m : smap V) c,
    wf P m -> 0 <= c < ncov V m -> covered V m c = true ->
    znth 0 (block_to_cov (nfine m) (idx m)) (off V m c / nfine m - 1) = c.
Proof. exact (b2c_inverts P). Qed.

Theorem C04_every_block_owned :
  forall (m : smap V) b,
    wf P m -> 1 <= b <= ncovered V m ->
    let c := znth 0 (block_to_cov (nfine m) (idx m)) (b - 1) in
    0 <= c < ncov V m /\ covered V m c = true /\ off V m c = b * nfine m.
Proof. exact (b2c_block P). Qed.

End C04.

Example C04_hypotheses_satisfiable :
  let k := mkk 0 (-5 # 1) 1 in
  let m := x_update k (make_empty cellv 12 4 [(-5 # 1)%Q] (Some [7; 2])) URepl
                    [(45, [(7 # 1)%Q]); (3, [(9 # 2)%Q])] false in
  layoutb cellv (k_valid k) dcell m = true /\ ncovered cellv m = 4.
Proof. vm_compute. split; reflexivity. Qed.

Print Assumptions C04_make_empty_wf.
Print Assumptions C04_update_wf.
Print Assumptions C04_reserve_wf.
Print Assumptions C04_wf_implies_published_layout.
Print Assumptions C04_reachable_layout.
Print Assumptions C04_distinct_cells.
Print Assumptions C04_block_table_inverts.
Print Assumptions C04_every_block_owned.
Print Assumptions C04_hypotheses_satisfiable.
