(* C04 — Every reachable map obeys the published storage layout.
   Statements only; proofs in MapProofs.v, UpdateProofs.v, HistoryProofs.v, LayoutProofs.v and, for the
   producers other than the explicit-pixel update, OpsProofs.v, RebuildProofs.v, FracdetProofs.v,
   PartialProofs.v, RangeRefine.v, BoolRefine.v and MultiRefine.v. *)
From Coq Require Import QArith.
From HS Require Import Prelude Cov Map Spec Ops Spec2 Params AtFold MapProofs UpdateProofs HistoryProofs LayoutProofs
     OpsProofs RebuildProofs FracdetProofs PartialProofs RangeRefine BoolRefine MultiRefine Exec ExecProofs.
Open Scope Z_scope.

Section C04.
Variable P : params.
Notation V := (p_V P).
Notation upd := (update V (p_dv P) (p_vadd P) (p_vor P) (p_vand P) (p_vzero P) (p_is_sent P) (p_sent_nonzero P)).

(* a fresh map (with or without pre-allocated coverage pixels) is well formed *)
Theorem C04_make_empty_wf :
  forall n nf (bl : V) cp,
    0 <= n -> 0 < nf -> p_valid P bl = false -> covpix_ok n cp -> wf P (make_empty V n nf bl cp).
Proof. exact (make_empty_wf P). Qed.

(* update_values_pix (in-coverage write, growth, tail write) preserves the invariant *)
Theorem C04_update_wf :
  forall (m : smap V) o pvs na, wf P m -> pvs_ok P m pvs -> wf P (upd m o pvs na).
Proof. exact (update_wf P). Qed.

(* growth alone (used by the range path and the boolean operators) preserves it *)
Theorem C04_reserve_wf :
  forall (m : smap V) new, wf P m -> new_ok P m new -> wf P (reserve V (p_dv P) m new).
Proof. exact (reserve_wf P). Qed.

(* the invariant implies the published layout predicate: storage length (covered+1)*nfine,
   overflow block invalid, every coverage pixel maps to block 0 or to its own aligned block
   in [1, covered], injectively, and the block table inverts the index.  [layoutb] is the
   boolean function that the harness evaluates on the implementation's raw arrays. *)
Theorem C04_wf_implies_published_layout :
  forall (m : smap V), wf P m -> layoutb V (p_valid P) (p_dv P) m = true.
Proof. exact (wf_layoutb P). Qed.

(* every state reachable from make_empty by any history of updates satisfies the layout *)
Theorem C04_reachable_layout :
  forall n nf (bl : V) cp (hs : list (hop P)),
    0 <= n -> 0 < nf -> p_valid P bl = false -> covpix_ok n cp -> hops_ok P (n * nf) hs ->
    layoutb V (p_valid P) (p_dv P) (fold_left (hstep P) hs (make_empty V n nf bl cp)) = true.
Proof.
  intros n nf bl cp hs Hn Hnf Hb Hcp Hh. apply (wf_layoutb P).
  exact (proj1 (history_from_empty P n nf bl cp hs Hn Hnf Hb Hcp Hh)).
Qed.

(* distinct sky pixels never share a storage cell *)
Theorem C04_distinct_cells :
  forall (m : smap V) p q,
    wf P m -> 0 <= p < npix V m -> 0 <= q < npix V m ->
    covered V m (p / nfine m) = true -> cell V m p = cell V m q -> p = q.
Proof. exact (cell_inj P). Qed.

(* the block -> coverage pixel table inverts the index, in both directions *)
Theorem C04_block_table_inverts :
  forall (m : smap V) c,
    wf P m -> 0 <= c < ncov V m -> covered V m c = true ->
    znth 0 (block_to_cov (nfine m) (idx m)) (off V m c / nfine m - 1) = c.
Proof. exact (b2c_inverts P). Qed.

Theorem C04_every_block_owned :
  forall (m : smap V) b,
    wf P m -> 1 <= b <= ncovered V m ->
    let c := znth 0 (block_to_cov (nfine m) (idx m)) (b - 1) in
    0 <= c < ncov V m /\ covered V m c = true /\ off V m c = b * nfine m.
Proof. exact (b2c_block P). Qed.

End C04.

(* ---- every other producer of a map keeps the invariant (hence, by
   C04_wf_implies_published_layout, the published layout) ---- *)
Theorem C04_scalar_operator_wf :
  forall (P : params) (g : p_V P -> p_V P) (m : smap (p_V P)),
    wf P m -> wf P (map_valid (p_V P) (p_valid P) g m).
Proof. exact map_valid_wf. Qed.

Theorem C04_invert_and_constants_wf :
  forall (P : params) (g : p_V P -> p_V P) (m : smap (p_V P)), wf P m -> wf P (tail_map (p_V P) g m).
Proof. exact tail_map_wf. Qed.

Theorem C04_astype_wf :
  forall (P P' : params) (conv : p_V P -> p_V P') (nb : p_V P') (m : smap (p_V P)),
    wf P m -> p_valid P' nb = false -> wf P' (astype (p_V P) (p_V P') (p_valid P) conv nb m).
Proof. exact astype_wf. Qed.

Theorem C04_apply_mask_wf :
  forall (P : params) (bad : Z -> bool) (m m' : smap (p_V P)),
    wf P m -> apply_mask (p_V P) (p_valid P) (p_dv P) bad m = Some m' -> wf P m'.
Proof. exact apply_mask_wf. Qed.

Theorem C04_degrade_wf :
  forall (P P' : params) (red : list (p_V P * p_V P') -> p_V P') (r : Z) (nb : p_V P') (m : smap (p_V P))
         (wsp : list (p_V P')),
    wf P m -> 0 < r -> nfine m mod r = 0 -> p_valid P' nb = false ->
    wf P' (degrade2 (p_V P) (p_V P') red r nb m wsp).
Proof. exact degrade2_wf. Qed.

Theorem C04_upgrade_wf :
  forall (P : params) (r : Z) (m : smap (p_V P)), wf P m -> 0 < r -> wf P (upgrade (p_V P) r m).
Proof. exact upgrade_wf. Qed.

Theorem C04_fracdet_map_wf :
  forall (P : params) (m : smap (p_V P)) (r : Z),
    wf P m -> 0 < r -> nfine m mod r = 0 -> wf count_params (fracdet_map P m r).
Proof. exact fracdet_wf. Qed.

Theorem C04_partial_read_wf :
  forall (P : params) (m m' : smap (p_V P)) (req : list Z),
    wf P m -> read_partial (p_V P) m req = Some m' -> wf P m'.
Proof. intros P m m' req W E. exact (proj1 (read_partial_spec P m m' req W E)). Qed.

Theorem C04_range_update_wf :
  forall (P : params) o (value : p_V P) (m : smap (p_V P)) (na : bool) (rows : list (Z * Z)),
    wf P m -> (forall r, In r rows -> row_ok P m r) ->
    wf P (update_ranges (p_V P) (p_dv P) (p_vadd P) (p_vor P) (p_vand P) (p_vzero P) (p_is_sent P)
                        (p_sent_nonzero P) m o rows value na).
Proof. intros P o value m na rows W H. exact (ranges_wf P o value m W na rows H). Qed.

Theorem C04_boolean_map_operator_in_place_wf :
  forall (P : params) (f : p_V P -> p_V P -> p_V P) (a b : smap (p_V P)),
    wf P a -> wf P b -> nfine b = nfine a -> ncov (p_V P) b = ncov (p_V P) a ->
    wf P (bool_map_op_inplace (p_V P) (p_dv P) f a b).
Proof. exact inplace_wf. Qed.

Theorem C04_boolean_map_operator_copy_wf :
  forall (P : params) (f : p_V P -> p_V P -> p_V P) (a b : smap (p_V P)),
    wf P a -> wf P b -> nfine b = nfine a -> ncov (p_V P) b = ncov (p_V P) a ->
    forall vfalse, vfalse = blank a -> wf P (bool_map_op_copy (p_V P) vfalse f a b).
Proof. exact copy_wf. Qed.

Theorem C04_multi_map_operation_wf :
  forall (P : params) (f : p_V P -> p_V P -> p_V P) (conv : p_V P -> p_V P) (filler sentinel : p_V P)
         (ff : bool) (vout : p_V P -> bool),
    vout sentinel = false ->
    forall ncv nf, 0 <= ncv -> 0 < nf ->
    forall (union fis : bool) (ms : list (vmap (p_V P))) m',
      ms <> [] -> (forall vm, In vm ms -> okmap P ncv nf vm) ->
      (union = true -> ff = false) -> (fis = true -> filler = sentinel) ->
      apply_operation (p_V P) (p_dv P) f conv filler sentinel fis union ff ms = Some m' ->
      wf (with_valid P vout) m'.
Proof.
  intros P f conv filler sentinel ff vout Hv ncv nf Hn Hf union fis ms m' Hne Hok Hu Hfs E.
  destruct (apply_operation_refines P f conv filler sentinel ff vout Hv ncv nf Hn Hf union fis ms Hne Hok Hu Hfs)
    as [m1 [E1 [W1 _]]].
  rewrite E in E1. injection E1 as <-. exact W1.
Qed.

Example C04_hypotheses_satisfiable :
  let k := mkk 0 (-5 # 1) 1 in
  let m := x_update k (make_empty cellv 12 4 [(-5 # 1)%Q] (Some [7; 2])) URepl
                    [(45, [(7 # 1)%Q]); (3, [(9 # 2)%Q])] false in
  layoutb cellv (k_valid k) dcell m = true /\ ncovered cellv m = 4.
Proof. vm_compute. split; reflexivity. Qed.

Print Assumptions C04_make_empty_wf.
Print Assumptions C04_update_wf.
Print Assumptions C04_reserve_wf.
Print Assumptions C04_wf_implies_published_layout.
Print Assumptions C04_reachable_layout.
Print Assumptions C04_distinct_cells.
Print Assumptions C04_block_table_inverts.
Print Assumptions C04_every_block_owned.
Print Assumptions C04_scalar_operator_wf.
Print Assumptions C04_invert_and_constants_wf.
Print Assumptions C04_astype_wf.
Print Assumptions C04_apply_mask_wf.
Print Assumptions C04_degrade_wf.
Print Assumptions C04_upgrade_wf.
Print Assumptions C04_fracdet_map_wf.
Print Assumptions C04_partial_read_wf.
Print Assumptions C04_range_update_wf.
Print Assumptions C04_boolean_map_operator_in_place_wf.
Print Assumptions C04_boolean_map_operator_copy_wf.
Print Assumptions C04_multi_map_operation_wf.
Print Assumptions C04_hypotheses_satisfiable.
