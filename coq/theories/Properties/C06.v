(* C06 — Union/intersection map arithmetic folds exactly the inputs valid at each pixel.
   Statements only; proofs in MultiProofs.v (the dense specification d_apply_operation) and
   MultiRefine.v (the layout-level model Ops.apply_operation of operations._apply_operation refines
   that specification for every list of well-formed inputs of one resolution, in any block order).
   The implementation is compared with both on every run. *)
From Coq Require Import QArith.
From HS Require Import Prelude Cov Map Spec Ops Spec2 Params MapProofs UpdateProofs HistoryProofs MultiProofs MultiRefine Exec Exec2 ExecProofs.
Open Scope Z_scope.

Section C06.
Variable V : Type.
Variable dv : V.

(* union: valid iff valid in at least one input; the value is the operation folded, in list
   order, over exactly the inputs valid there (the filler, a left identity, drops out) *)
Theorem C06_union_folds_the_valid_inputs :
  forall f conv filler sentinel (ds : list (vdmap V)) d0 r d p v vs,
    ds = d0 :: r -> d_apply_operation V dv f conv filler sentinel true false ds = Some d ->
    0 <= p < d_npix V (snd d0) -> d_vals_at V dv ds p = v :: vs -> f filler v = v ->
    d_read V dv d p = fold_left f vs v.
Proof. exact (union_folds_valid_inputs V dv). Qed.

Theorem C06_union_invalid_where_no_input_is_valid :
  forall f conv filler sentinel (ds : list (vdmap V)) d0 r d p,
    ds = d0 :: r -> d_apply_operation V dv f conv filler sentinel true false ds = Some d ->
    0 <= p < d_npix V (snd d0) -> d_vals_at V dv ds p = [] -> d_read V dv d p = sentinel.
Proof. exact (union_no_valid_input V dv). Qed.

(* intersection: valid iff valid in all inputs; the fold is over all of them *)
Theorem C06_intersection_folds_all_inputs :
  forall f conv filler sentinel (ds : list (vdmap V)) d0 r d p v vs,
    ds = d0 :: r -> d_apply_operation V dv f conv filler sentinel false false ds = Some d ->
    0 <= p < d_npix V (snd d0) -> d_vals_at V dv ds p = v :: vs -> zlen (v :: vs) = zlen ds -> f filler v = v ->
    d_read V dv d p = fold_left f vs v.
Proof. exact (intersection_folds_all_inputs V dv). Qed.

Theorem C06_intersection_invalid_where_an_input_is_missing :
  forall f conv filler sentinel ff (ds : list (vdmap V)) d0 r d p,
    ds = d0 :: r -> d_apply_operation V dv f conv filler sentinel false ff ds = Some d ->
    0 <= p < d_npix V (snd d0) -> zlen (d_vals_at V dv ds p) <> zlen ds -> d_read V dv d p = sentinel.
Proof. exact (intersection_missing_input V dv). Qed.

End C06.

(* the layout-level algorithm (combined coverage index, per-input scatter through the new index,
   touch counters, final invalidation, overflow reset) never fails on well-formed inputs of one
   resolution, returns a well-formed map, and that map's dense abstraction is the specification
   applied to the abstractions of the inputs — each input under its own validity test *)
Theorem C06_apply_operation_refines_the_specification :
  forall (P : params) (f : p_V P -> p_V P -> p_V P) (conv : p_V P -> p_V P) (filler sentinel : p_V P)
         (ff : bool) (vout : p_V P -> bool),
    vout sentinel = false ->
    forall ncv nf, 0 <= ncv -> 0 < nf ->
    forall (union fis : bool) (ms : list (vmap (p_V P))),
      ms <> [] -> (forall vm, In vm ms -> okmap P ncv nf vm) ->
      (union = true -> ff = false) -> (fis = true -> filler = sentinel) ->
      exists m',
        apply_operation (p_V P) (p_dv P) f conv filler sentinel fis union ff ms = Some m' /\
        MapProofs.wf (with_valid P vout) m' /\
        d_apply_operation (p_V P) (p_dv P) f conv filler sentinel union ff (dsof P ms) =
          Some (abs (p_V P) (p_dv P) m').
Proof. exact apply_operation_refines. Qed.

(* the seeds of the named operations are left identities of the element functions *)
Theorem C06_sum_seed_is_identity : forall v, canonical v -> qfun 0 q0 v = v.
Proof. exact sum_identity. Qed.
Theorem C06_product_seed_is_identity : forall v, canonical v -> qfun 2 1%Q v = v.
Proof. exact product_identity. Qed.
Theorem C06_or_seed_is_identity : forall z, qfun 6 (qz 0) (qz z) = qz z.
Proof. exact or_identity. Qed.
Theorem C06_xor_seed_is_identity : forall z, qfun 7 (qz 0) (qz z) = qz z.
Proof. exact xor_identity. Qed.
Theorem C06_and_seed_is_identity_signed : forall z, qfun 5 (qz (-1)) (qz z) = qz z.
Proof. exact and_identity_signed. Qed.
Theorem C06_and_seed_is_identity_unsigned :
  forall W z, 0 <= z < 2 ^ W -> 0 <= W -> qfun 5 (qz (Z.ones W)) (qz z) = qz z.
Proof. exact and_identity_unsigned. Qed.
Theorem C06_max_seed_is_identity : forall lo v, qle lo v = true -> qfun 8 lo v = v.
Proof. exact max_identity. Qed.
Theorem C06_min_seed_is_identity : forall hi v, qle hi v = false -> qfun 9 hi v = v.
Proof. exact min_identity. Qed.
(* 0 is not an identity of max: the witness of the defect repaired by fix F03 *)
Theorem C06_max_zero_seed_refuted : exists v, qfun 8 q0 v <> v.
Proof. exact max_zero_filler_refuted. Qed.

Example C06_hypotheses_satisfiable :
  let k := mkk 0 (-5 # 1) 1 in
  let a := x_update k (make_empty cellv 12 4 [(-5 # 1)%Q] None) URepl [(45, [(7 # 1)%Q]); (3, [(-9 # 1)%Q])] false in
  let b := x_update k (make_empty cellv 12 4 [(-5 # 1)%Q] None) URepl [(45, [(-2 # 1)%Q]); (9, [(1 # 1)%Q])] false in
  let lo := [(-1000 # 1)%Q] in
  match apply_operation cellv dcell (lift2 (qfun 8)) (fun v => v) lo [(-5 # 1)%Q] false true false
                        [(k_valid k, a); (k_valid k, b)],
        d_apply_operation cellv dcell (lift2 (qfun 8)) (fun v => v) lo [(-5 # 1)%Q] true false
                          [(k_valid k, abs cellv dcell a); (k_valid k, abs cellv dcell b)] with
  | Some m, Some d => x_values m = dense d /\ read cellv dcell m 3 = [(-9 # 1)%Q] /\ read cellv dcell m 45 = [(7 # 1)%Q]
  | _, _ => False
  end.
Proof. vm_compute. repeat split; reflexivity. Qed.

(* C06: two maps filled in different orders are admissible inputs of the refinement theorem *)
Example C06_refinement_hypotheses_satisfiable :
  let k := mkk 0 (-5 # 1) 1 in
  let e := make_empty cellv 12 4 [(-5 # 1)%Q] None in
  let a := x_update k e URepl [(45, [(7 # 1)%Q]); (3, [(-9 # 1)%Q])] false in
  let b := x_update k e URepl [(3, [(1 # 1)%Q]); (45, [(-2 # 1)%Q]); (9, [(1 # 1)%Q])] false in
  okmap (xparams k) 12 4 (k_valid k, a) /\ okmap (xparams k) 12 4 (k_valid k, b) /\
  [(k_valid k, a); (k_valid k, b)] <> [].
Proof.
  cbv zeta.
  assert (We : wf (xparams (mkk 0 (-5 # 1) 1)) (make_empty cellv 12 4 [(-5 # 1)%Q] None))
    by (apply (make_empty_wf (xparams (mkk 0 (-5 # 1) 1))); [lia|lia|reflexivity|exact I]).
  split; [|split; [|discriminate]].
  - split; [|split; vm_compute; reflexivity].
    change (wf (xparams (mkk 0 (-5 # 1) 1)) (x_update (mkk 0 (-5 # 1) 1) (make_empty cellv 12 4 [(-5 # 1)%Q] None) URepl [(45, [(7 # 1)%Q]); (3, [(-9 # 1)%Q])] false)).
    apply x_update_wf; [exact We|].
    intros pv [<-|[<-|[]]]; (split; [apply Z.leb_le|apply Z.ltb_lt]; vm_compute; reflexivity).
  - split; [|split; vm_compute; reflexivity].
    change (wf (xparams (mkk 0 (-5 # 1) 1)) (x_update (mkk 0 (-5 # 1) 1) (make_empty cellv 12 4 [(-5 # 1)%Q] None) URepl [(3, [(1 # 1)%Q]); (45, [(-2 # 1)%Q]); (9, [(1 # 1)%Q])] false)).
    apply x_update_wf; [exact We|].
    intros pv [<-|[<-|[<-|[]]]]; (split; [apply Z.leb_le|apply Z.ltb_lt]; vm_compute; reflexivity).
Qed.


Print Assumptions C06_union_folds_the_valid_inputs.
Print Assumptions C06_union_invalid_where_no_input_is_valid.
Print Assumptions C06_intersection_folds_all_inputs.
Print Assumptions C06_intersection_invalid_where_an_input_is_missing.
Print Assumptions C06_apply_operation_refines_the_specification.
Print Assumptions C06_sum_seed_is_identity.
Print Assumptions C06_product_seed_is_identity.
Print Assumptions C06_or_seed_is_identity.
Print Assumptions C06_xor_seed_is_identity.
Print Assumptions C06_and_seed_is_identity_signed.
Print Assumptions C06_and_seed_is_identity_unsigned.
Print Assumptions C06_max_seed_is_identity.
Print Assumptions C06_min_seed_is_identity.
Print Assumptions C06_max_zero_seed_refuted.
Print Assumptions C06_hypotheses_satisfiable.
Print Assumptions C06_refinement_hypotheses_satisfiable.
