(* PartialProofs.v — reading selected coverage pixels of a written map (read_partial: the covered
   requested pixels in ascending order, overflow block + their blocks, index rebuilt from that list)
   yields exactly the restriction of the map to those coverage pixels; a full read returns the same
   index and storage (C03, and the first half of C19). *)
From HS Require Import Prelude Cov Map Spec Ops Spec2 Params AtFold MapProofs UpdateProofs HistoryProofs
     LayoutProofs AccountProofs OpsProofs.

Lemma znth_flat_map_blocks {A} (d : A) (f : Z -> list A) (n : Z) (ps : list Z) : forall j t,
  0 < n -> (forall c, In c ps -> zlen (f c) = n) -> 0 <= j < zlen ps -> 0 <= t < n ->
  znth d (flat_map f ps) (j * n + t) = znth d (f (znth 0 ps j)) t.
Proof.
  induction ps as [|c r IH]; intros j t Hn Hl Hj Ht.
  - rewrite zlen_nil in Hj. lia.
  - rewrite zlen_cons in Hj. cbn [flat_map]. rewrite znth_app, (Hl c (or_introl eq_refl)).
    rewrite znth_cons. destruct (j =? 0) eqn:E.
    + assert (j = 0) by lia. subst j. destruct (0 * n + t <? n) eqn:E2; [|lia]. f_equal; lia.
    + destruct (j * n + t <? n) eqn:E2; [nia|].
      replace (j * n + t - n) with ((j - 1) * n + t) by lia.
      apply IH; try assumption; try lia. intros c' Hc'. apply Hl. right; exact Hc'.
Qed.

Lemma zlen_flat_map_blocks {A} (f : Z -> list A) (n : Z) (ps : list Z) :
  (forall c, In c ps -> zlen (f c) = n) -> zlen (flat_map f ps) = zlen ps * n.
Proof.
  induction ps as [|c r IH]; intros Hl; [rewrite zlen_nil; cbn; reflexivity|].
  cbn [flat_map]. rewrite zlen_app, zlen_cons, (Hl c (or_introl eq_refl)), IH; [lia|].
  intros c' Hc'. apply Hl. right; exact Hc'.
Qed.

Section Partial.
Variable P : params.
Notation V := (p_V P).
Notation valid := (p_valid P).
Notation dv := (p_dv P).
Notation wf := (wf P).
Notation read := (read V dv).
Notation abs := (abs V dv).

(* offsets of make_empty(cov_pixels = ps): the j-th listed pixel owns block j+1 *)
Lemma make_empty_some_off n nf (bl : V) ps j :
  0 <= n -> 0 < nf -> NoDup ps -> (forall c, In c ps -> 0 <= c < n) -> 0 <= j < zlen ps ->
  off V (make_empty V n nf bl (Some ps)) (znth 0 ps j) = (j + 1) * nf.
Proof.
  intros Hn Hnf ND Hr Hj. rewrite (make_empty_some P) by assumption.
  assert (Hnew : new_ok P (make_empty V n nf bl None) ps).
  { split; [exact ND|]. intros x Hx.
    assert (E : ncov V (make_empty V n nf bl None) = n).
    { unfold Map.ncov, Map.make_empty; cbn [idx]. apply zlen_cov_make_empty. exact Hn. }
    rewrite E. split; [apply Hr; exact Hx|]. apply covered_false_iff.
    rewrite (off_empty P) by (apply Hr; exact Hx). exact Hnf. }
  rewrite (reserve_off_new P) by assumption.
  unfold Map.make_empty; cbn [sp nfine]. rewrite zlen_zrepeat. lia.
Qed.

Lemma make_empty_some_off_other n nf (bl : V) ps c :
  0 <= n -> 0 < nf -> 0 <= c < n -> ~ In c ps ->
  off V (make_empty V n nf bl (Some ps)) c = 0.
Proof.
  intros Hn Hnf Hc Hnin. rewrite (make_empty_some P) by assumption.
  rewrite (reserve_off_old P) by exact Hnin. apply (off_empty P). exact Hc.
Qed.

Definition selected (m : smap V) (req : list Z) : list Z :=
  filter (fun c => existsb (Z.eqb c) req) (covered_pixels (nfine m) (idx m)).

Lemma In_selected m req c :
  In c (selected m req) <-> 0 <= c < ncov V m /\ covered V m c = true /\ In c req.
Proof.
  unfold selected. rewrite filter_In, (In_covered_pixels P). rewrite existsb_eqb_In. tauto.
Qed.

Lemma selected_NoDup m req : NoDup (selected m req).
Proof. unfold selected, covered_pixels. apply NoDup_filter. apply NoDup_filter. apply NoDup_zrange. Qed.

Definition partial_sp (m : smap V) (ps : list Z) : list V :=
  zslice (sp m) 0 (nfine m) ++ flat_map (fun c => zslice (sp m) (off V m c) (off V m c + nfine m)) ps.

Lemma block_len m c :
  wf m -> 0 <= c < ncov V m -> covered V m c = true ->
  zlen (zslice (sp m) (off V m c) (off V m c + nfine m)) = nfine m.
Proof.
  intros W Hc Hcov. pose proof (wf_nf P m W) as Hnf. apply covered_iff in Hcov.
  destruct (wf_off P m W c Hc) as [H0|[H1 [H2 _]]]; [lia|].
  unfold zslice. rewrite zlen_zfirstn, zlen_zskipn. lia.
Qed.

Theorem read_partial_spec (m m' : smap V) (req : list Z) :
  wf m -> read_partial V m req = Some m' ->
  wf m' /\ npix V m' = npix V m /\
  (forall p, 0 <= p < npix V m ->
     read m' p = if covered V m (p / nfine m) && existsb (Z.eqb (p / nfine m)) req then read m p else blank m) /\
  (forall c, 0 <= c < ncov V m ->
     covered V m' c = covered V m c && existsb (Z.eqb c) req).
Proof.
  intros W E. pose proof (wf_nf P m W) as Hnf. assert (Hncov : 0 <= ncov V m) by apply zlen_nonneg.
  unfold read_partial in E. fold (selected m req) in E.
  destruct (selected m req) as [|c0 r0] eqn:Esel; [discriminate|]. rewrite <- Esel in E.
  injection E as <-.
  set (ps := selected m req).
  fold (partial_sp m ps).
  assert (NDps : NoDup ps) by apply selected_NoDup.
  assert (Hps : forall c, In c ps -> 0 <= c < ncov V m) by (intros c Hc; apply In_selected in Hc; apply Hc).
  assert (Hblk : forall c, In c ps -> zlen (zslice (sp m) (off V m c) (off V m c + nfine m)) = nfine m).
  { intros c Hc. apply In_selected in Hc. apply block_len; tauto. }
  set (M0 := make_empty V (ncov V m) (nfine m) (blank m) (Some ps)).
  assert (W0 : wf M0).
  { apply (make_empty_wf P); try assumption. exact (wf_blank P m W). split; assumption. }
  set (m' := mkmap (nfine m) (cov_make_from_pixels (ncov V m) (nfine m) ps) (partial_sp m ps) (blank m) None).
  assert (Hlen0 : zlen (zslice (sp m) 0 (nfine m)) = nfine m).
  { unfold zslice. rewrite zlen_zfirstn, zlen_zskipn. pose proof (wf_len_ge P m W). lia. }
  assert (Hlen : zlen (partial_sp m ps) = (zlen ps + 1) * nfine m).
  { unfold partial_sp. rewrite zlen_app, Hlen0, (zlen_flat_map_blocks _ (nfine m)) by exact Hblk. lia. }
  assert (Hover : forall i, 0 <= i < nfine m -> znth dv (partial_sp m ps) i = blank m).
  { intros i Hi. unfold partial_sp. rewrite znth_app, Hlen0. destruct (i <? nfine m) eqn:Ei; [|lia].
    unfold zslice. rewrite znth_zfirstn. destruct (i <? nfine m - 0) eqn:E2; [|lia].
    rewrite znth_zskipn by lia. replace (i + Z.max 0 0) with i by lia. apply (wf_over P m W). exact Hi. }
  assert (W' : wf m').
  { apply (wf_transfer P P M0); try reflexivity; try assumption.
    - cbn [sp m']. rewrite Hlen. unfold M0, Map.make_empty; cbn [sp]. rewrite zlen_zrepeat.
      pose proof (zlen_nonneg ps). nia.
    - exact (wf_blank P m W). }
  assert (Encov : ncov V m' = ncov V m).
  { change (ncov V m') with (ncov V M0). unfold M0.
    pose proof (npix_make_empty P (ncov V m) (nfine m) (blank m) (Some ps) Hncov) as E.
    unfold Map.npix in E. cbn [nfine Map.make_empty] in E.
    apply (Z.mul_cancel_r _ _ (nfine m)); [lia|exact E]. }
  assert (Enpix : npix V m' = npix V m) by (unfold Map.npix; rewrite Encov; reflexivity).
  (* offsets of the new map *)
  assert (Hoff_in : forall j, 0 <= j < zlen ps -> off V m' (znth 0 ps j) = (j + 1) * nfine m).
  { intros j Hj. change (off V m' (znth 0 ps j)) with (off V M0 (znth 0 ps j)).
    apply make_empty_some_off; assumption. }
  assert (Hoff_out : forall c, 0 <= c < ncov V m -> ~ In c ps -> off V m' c = 0).
  { intros c Hc Hn. change (off V m' c) with (off V M0 c). apply make_empty_some_off_other; assumption. }
  split; [exact W'|]. split; [exact Enpix|]. split.
  - intros p Hp.
    assert (Hc : 0 <= p / nfine m < ncov V m) by (apply (covpix_range P); assumption).
    pose proof (Z.mod_pos_bound p (nfine m) Hnf) as Hm.
    unfold Map.read at 1. rewrite (cell_eq P) by exact Hnf. change (nfine m') with (nfine m). cbn [sp m'].
    destruct (covered V m (p / nfine m) && existsb (Z.eqb (p / nfine m)) req) eqn:Ek.
    + apply andb_true_iff in Ek. destruct Ek as [Hcov Hreq].
      assert (Hin : In (p / nfine m) ps).
      { apply In_selected. split; [exact Hc|]. split; [exact Hcov|]. apply existsb_eqb_In. exact Hreq. }
      destruct (In_pos ps _ Hin) as [j [Hj Ej]].
      rewrite <- Ej at 1. rewrite Hoff_in by exact Hj.
      unfold partial_sp. rewrite znth_app, Hlen0.
      destruct ((j + 1) * nfine m + p mod nfine m <? nfine m) eqn:E2; [nia|].
      replace ((j + 1) * nfine m + p mod nfine m - nfine m) with (j * nfine m + p mod nfine m) by lia.
      rewrite (znth_flat_map_blocks dv _ (nfine m)) by (try assumption; lia).
      rewrite Ej. unfold zslice. rewrite znth_zfirstn.
      destruct (p mod nfine m <? off V m (p / nfine m) + nfine m - off V m (p / nfine m)) eqn:E3; [|lia].
      apply covered_iff in Hcov. rewrite znth_zskipn by lia.
      unfold Map.read. rewrite (cell_eq P) by exact Hnf. f_equal. lia.
    + assert (Hnin : ~ In (p / nfine m) ps).
      { intro Hin. apply In_selected in Hin. destruct Hin as [_ [Hcov Hreq]].
        apply existsb_eqb_In in Hreq. rewrite Hcov, Hreq in Ek. discriminate. }
      rewrite Hoff_out by assumption. rewrite Z.add_0_l. apply Hover. exact Hm.
  - intros c Hc.
    destruct (covered V m c && existsb (Z.eqb c) req) eqn:Ek.
    + apply andb_true_iff in Ek. destruct Ek as [Hcov Hreq].
      assert (Hin : In c ps).
      { apply In_selected. split; [exact Hc|]. split; [exact Hcov|]. apply existsb_eqb_In. exact Hreq. }
      destruct (In_pos ps _ Hin) as [j [Hj Ej]].
      apply covered_iff. rewrite <- Ej, Hoff_in by exact Hj. change (nfine m') with (nfine m). nia.
    + assert (Hnin : ~ In c ps).
      { intro Hin. apply In_selected in Hin. destruct Hin as [_ [Hcov Hreq]].
        apply existsb_eqb_In in Hreq. rewrite Hcov, Hreq in Ek. discriminate. }
      apply covered_false_iff. rewrite Hoff_out by assumption. change (nfine m') with (nfine m). lia.
Qed.

(* the read is rejected exactly when none of the requested pixels is covered *)
Theorem read_partial_none (m : smap V) (req : list Z) :
  read_partial V m req = None <-> selected m req = [].
Proof.
  unfold read_partial. fold (selected m req). destruct (selected m req); split; intros H; try reflexivity; discriminate.
Qed.

End Partial.
