(* CatChk.v — the concatenation routine with overlap checking (model only; proofs in CatChkProofs.v).
   cat_healsparse_files(check_overlap=, or_overlap=): before an input's valid pixels inside the current
   output coverage pixel are assigned, the routine asks whether any of them is already valid in the output;
   if so it raises, unless the maps are integer maps and or_overlap was requested: then the pixels already
   valid get  in | out  and the others the input's value (two separate assignments, the second only when
   there is such a pixel). *)
From HS Require Import Prelude Cov Map Ops.

Section CatChk.
Variable V : Type.
Variable valid : V -> bool.
Variable dv : V.
Variables (vadd vor vand : V -> V -> V).
Variable vzero : V.
Variable is_sent : V -> bool.
Variable sent_nonzero : bool.

Notation upd := (update V dv vadd vor vand vzero is_sent sent_nonzero).

(* the input's valid pixels inside output coverage pixel [pix] *)
Definition cat_sel (nf : Z) (m : smap V) (pix : Z) : list Z :=
  match valid_pixels V valid dv m with
  | Some vp => filter (fun p => p / nf =? pix) vp
  | None => []
  end.

(* one input into the output; None = the routine raises *)
Definition cat_in (chk ormode : bool) (sm m : smap V) (sel : list Z) : option (smap V) :=
  let hit := fun p => valid (read V dv sm p) in
  if chk && existsb hit sel then
    if ormode then
      let filled := filter hit sel in
      let empty := filter (fun p => negb (hit p)) sel in
      let sm1 := upd sm URepl (map (fun p => (p, vor (read V dv m p) (read V dv sm p))) filled) false in
      Some (match empty with
            | [] => sm1
            | _ => upd sm1 URepl (map (fun p => (p, read V dv m p)) empty) false
            end)
    else None
  else Some (upd sm URepl (map (fun p => (p, read V dv m p)) sel) false).

Definition cat_step_chk (chk ormode : bool) (nf : Z) (inputs : list (smap V)) (osm : option (smap V)) (pix : Z)
  : option (smap V) :=
  fold_left (fun osm m => match osm with
                          | None => None
                          | Some sm => cat_in chk ormode sm m (cat_sel nf m pix)
                          end) inputs osm.

Definition cat_chk (chk ormode : bool) (ncv nf : Z) (sentinel : V) (inputs : list (smap V)) (cov_pix : list Z)
  : option (smap V) :=
  fold_left (cat_step_chk chk ormode nf inputs) cov_pix (Some (make_empty V ncv nf sentinel None)).

End CatChk.
