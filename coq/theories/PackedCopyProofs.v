(* PackedCopyProofs.v — copy() and resize() of the packed boolean array (C05).
   copy: every bit of the view is kept, every other bit of the new buffer — the padding of the edge bytes,
   i.e. whatever a neighbouring view stored there — is cleared; the source is not touched.
   resize: on a buffer whose padding after the view is clear (a fresh array, a copy, and anything the bulk or
   index operations made of those) the old bits are kept, the new positions read False, the new view is well
   formed and its padding is clear again. *)
From HS Require Import Prelude Packed PackedProofs PackedOps PackedCopy.

Lemma znth_map_bits8 (f : Z -> bool) k : 0 <= k < 8 -> znth false (map f bits8) k = f k.
Proof. intros Hk. destruct (in_bits8 k Hk) as [->|[->|[->|[->|[->|[->|[->| ->]]]]]]]; reflexivity. Qed.

Lemma mask_byte_spec lo hi b k :
  0 <= k < 8 -> Z.testbit (mask_byte lo hi b) k = (lo <=? k) && (k <? hi) && Z.testbit b k.
Proof.
  intros Hk. unfold mask_byte. rewrite testbit_pack8 by lia. rewrite znth_map_bits8 by exact Hk.
  destruct ((lo <=? k) && (k <? hi)); reflexivity.
Qed.

Lemma mask_byte_range lo hi b : 0 <= mask_byte lo hi b < 256.
Proof. unfold mask_byte. apply (pack8_bound (map _ bits8)). Qed.

Definition tail_clean (v : pview) (data : list Z) : Prop :=
  forall k, vst v <= k < 8 * zlen data -> bit data k = false.

Theorem copy_view_spec (v : pview) (data : list Z) :
  view_ok v -> vds v = 0 -> vde v = zlen data -> 0 < vsize v -> bytes_ok data ->
  let data' := copy_view v data in
  zlen data' = zlen data /\ bytes_ok data' /\
  forall k, 0 <= k < 8 * zlen data ->
    bit data' k = (vsi v <=? k) && (k <? vst v) && bit data k.
Proof.
  intros [Hsi [Hst [Hnd Hinv]]] Hds Hde Hsz Hb. cbv zeta.
  assert (End : vndata v = zlen data) by (unfold vndata; lia).
  unfold vsize in *. destruct Hinv as [Hz|Hinv]; [lia|]. rewrite End in Hinv.
  set (n := zlen data) in *.
  assert (Hn : 1 <= n) by lia.
  unfold copy_view. cbv zeta. rewrite End. fold n.
  destruct ((vsi v =? 0) && (vst v =? n * 8)) eqn:E1.
  - split; [reflexivity|]. split; [exact Hb|].
    intros k Hk. destruct ((vsi v <=? k) && (k <? vst v)) eqn:E; [reflexivity|lia].
  - destruct (vsi v =? 0) eqn:E2.
    + (* aligned at the start: only the last byte is masked *)
      split; [apply zlen_zupd|]. split.
      * intros j Hj. rewrite zlen_zupd in Hj. rewrite znth_zupd.
        destruct ((n - 1 =? j) && (0 <=? n - 1) && (n - 1 <? zlen data)); [apply mask_byte_range|apply Hb; exact Hj].
      * intros k Hk. unfold bit. rewrite znth_zupd. fold n.
        assert (Hi : 0 <= k mod 8 < 8) by lia.
        destruct ((n - 1 =? k / 8) && (0 <=? n - 1) && (n - 1 <? n)) eqn:E3.
        -- rewrite mask_byte_spec by exact Hi.
           assert (Ek : k / 8 = n - 1) by lia. rewrite Ek.
           destruct ((0 <=? k mod 8) && (k mod 8 <? vst v mod 8)) eqn:E4;
             destruct ((vsi v <=? k) && (k <? vst v)) eqn:E5; try reflexivity; lia.
        -- destruct ((vsi v <=? k) && (k <? vst v)) eqn:E5; [reflexivity|lia].
    + (* not aligned at the start *)
      set (b0 := if negb (vst v =? n * 8) && (n =? 1) then mask_byte (vsi v) (vst v) (znth 0 data 0)
                 else mask_byte (vsi v) 8 (znth 0 data 0)).
      assert (Hb0 : 0 <= b0 < 256) by (unfold b0; destruct (negb (vst v =? n * 8) && (n =? 1)); apply mask_byte_range).
      assert (Tb0 : forall i, 0 <= i < 8 ->
                Z.testbit b0 i = (vsi v <=? i) && (i <? vst v) && Z.testbit (znth 0 data 0) i).
      { intros i Hi. unfold b0. destruct (negb (vst v =? n * 8) && (n =? 1)) eqn:E; rewrite mask_byte_spec by exact Hi.
        - reflexivity.
        - destruct ((vsi v <=? i) && (i <? 8)) eqn:Ea; destruct ((vsi v <=? i) && (i <? vst v)) eqn:Eb;
            try reflexivity; lia. }
      destruct ((vst v =? n * 8) || (n =? 1)) eqn:E3.
      * split; [apply zlen_zupd|]. split.
        -- intros j Hj. rewrite zlen_zupd in Hj. rewrite znth_zupd.
           destruct ((0 =? j) && (0 <=? 0) && (0 <? zlen data)); [exact Hb0|apply Hb; exact Hj].
        -- intros k Hk. unfold bit. rewrite znth_zupd. fold n.
           assert (Hi : 0 <= k mod 8 < 8) by lia.
           destruct ((0 =? k / 8) && (0 <=? 0) && (0 <? n)) eqn:E4.
           ++ rewrite Tb0 by exact Hi. assert (Ek : k / 8 = 0) by lia. rewrite Ek.
              assert (Ekk : k mod 8 = k) by lia. rewrite Ekk. reflexivity.
           ++ destruct ((vsi v <=? k) && (k <? vst v)) eqn:E5; [reflexivity|lia].
      * split; [rewrite !zlen_zupd; reflexivity|]. split.
        -- intros j Hj. rewrite !zlen_zupd in Hj. rewrite !znth_zupd. rewrite zlen_zupd.
           destruct ((n - 1 =? j) && (0 <=? n - 1) && (n - 1 <? zlen data)); [apply mask_byte_range|].
           destruct ((0 =? j) && (0 <=? 0) && (0 <? zlen data)); [exact Hb0|apply Hb; exact Hj].
        -- intros k Hk. unfold bit. rewrite !znth_zupd. rewrite zlen_zupd. fold n.
           assert (Hi : 0 <= k mod 8 < 8) by lia.
           destruct ((n - 1 =? k / 8) && (0 <=? n - 1) && (n - 1 <? n)) eqn:E4.
           ++ rewrite mask_byte_spec by exact Hi.
              assert (Ek : k / 8 = n - 1) by lia. rewrite Ek.
              destruct ((0 <=? k mod 8) && (k mod 8 <? vst v mod 8)) eqn:E5;
                destruct ((vsi v <=? k) && (k <? vst v)) eqn:E6; try reflexivity; lia.
           ++ destruct ((0 =? k / 8) && (0 <=? 0) && (0 <? n)) eqn:E5.
              ** rewrite Tb0 by exact Hi. assert (Ek : k / 8 = 0) by lia. rewrite Ek.
                 assert (Ekk : k mod 8 = k) by lia. rewrite Ekk.
                 destruct ((vsi v <=? k) && (k <? vst v)) eqn:E6; [reflexivity|lia].
              ** destruct ((vsi v <=? k) && (k <? vst v)) eqn:E6; [reflexivity|lia].
Qed.

(* the copy's padding is clear, whatever the source's padding held *)
Corollary copy_view_tail_clean (v : pview) (data : list Z) :
  view_ok v -> vds v = 0 -> vde v = zlen data -> 0 < vsize v -> bytes_ok data ->
  tail_clean v (copy_view v data).
Proof.
  intros Hv Hds Hde Hsz Hb. destruct (copy_view_spec v data Hv Hds Hde Hsz Hb) as [L [_ R]].
  intros k Hk. rewrite L in Hk. pose proof Hv as [Hsi [Hst _]].
  rewrite R by lia. destruct ((vsi v <=? k) && (k <? vst v)) eqn:E; [lia|reflexivity].
Qed.

(* a fresh array (np.zeros) has clear padding *)
Lemma bit_zeros n k : bit (repeat 0 n) k = false.
Proof.
  unfold bit. rewrite znth_repeat.
  destruct ((0 <=? k / 8) && (k / 8 <? Z.of_nat n)); apply Z.testbit_0_l.
Qed.

Lemma fresh_tail_clean (v : pview) n : tail_clean v (repeat 0 n).
Proof. intros k _. apply bit_zeros. Qed.

(* the bulk operations keep the padding (they change no bit outside the view) *)
Lemma bulk_op_tail_clean (o : bop) (v : pview) (data : list Z) (ob : Z -> Z) :
  view_ok v -> vds v = 0 -> vde v = zlen data -> 0 < vsize v -> bytes_ok data ->
  (forall j, 0 <= ob j < 256) ->
  tail_clean v data -> tail_clean v (bulk_op o v data ob).
Proof.
  intros Hv Hds Hde Hsz Hb Hob Ht.
  destruct (bulk_op_spec o v data ob Hv Hds Hde Hsz Hb Hob) as [L [_ R]].
  intros k Hk. rewrite L in Hk. pose proof Hv as [Hsi [Hst _]]. unfold bit.
  rewrite R by lia. destruct ((vsi v <=? k) && (k <? vst v)) eqn:E; [lia|]. apply Ht. exact Hk.
Qed.

(* so do the index-array operations, whose locations lie inside the view *)
Lemma zlen_set_bits (locs : list Z) : forall data, zlen (set_bits locs data) = zlen data.
Proof.
  unfold set_bits. induction locs as [|p r IH]; intros data; cbn [fold_left]; [reflexivity|].
  rewrite IH. apply zlen_set_bit_at.
Qed.

Lemma set_bits_tail_clean (v : pview) (locs data : list Z) :
  0 <= vsi v <= vst v -> (forall p, In p locs -> vsi v <= p < vst v) -> vst v <= 8 * zlen data ->
  tail_clean v data -> tail_clean v (set_bits locs data).
Proof.
  intros Hsi Hl Hst Ht k Hk. rewrite zlen_set_bits in Hk.
  assert (Hl' : forall p, In p locs -> 0 <= p < 8 * zlen data) by (intros p Hp; specialize (Hl p Hp); lia).
  destruct (set_bits_spec locs data k Hl') as [_ R]; [lia|].
  rewrite R. rewrite (Ht k) by lia.
  destruct (existsb (Z.eqb k) locs) eqn:E; [|reflexivity].
  apply existsb_exists in E. destruct E as [p [Hp E]]. specialize (Hl p Hp). lia.
Qed.

(* ---- resize ---- *)
Lemma resize_view_shrink (v : pview) (data : list Z) (newsize : Z) :
  newsize < vsize v -> resize_view v data newsize = None.
Proof. intros H. unfold resize_view. destruct (newsize <? vsize v) eqn:E; [reflexivity|lia]. Qed.

Lemma resize_view_same (v : pview) (data : list Z) :
  resize_view v data (vsize v) = Some (v, data).
Proof.
  unfold resize_view. destruct (vsize v <? vsize v) eqn:E; [lia|].
  destruct (vsize v =? vsize v) eqn:E2; [reflexivity|lia].
Qed.

Theorem resize_view_spec (v : pview) (data : list Z) (newsize : Z) :
  0 <= vsi v <= 7 -> vsi v <= vst v -> vds v = 0 -> vde v = zlen data ->
  8 * zlen data - 7 <= vst v <= 8 * zlen data ->
  bytes_ok data -> tail_clean v data -> vsize v < newsize ->
  exists v' data',
    resize_view v data newsize = Some (v', data') /\
    view_ok v' /\ vds v' = 0 /\ vde v' = zlen data' /\ vsi v' = vsi v /\ vsize v' = newsize /\
    bytes_ok data' /\ tail_clean v' data' /\
    (forall k, 0 <= k < vst v -> bit data' k = bit data k) /\
    (forall k, vst v <= k < 8 * zlen data' -> bit data' k = false).
Proof.
  intros Hsi Hst Hds Hde Htight Hb Ht Hgrow.
  unfold resize_view. unfold vsize in *.
  destruct (newsize <? vst v - vsi v) eqn:E1; [lia|].
  destruct (newsize =? vst v - vsi v) eqn:E2; [lia|].
  cbv zeta.
  set (tot := newsize + vsi v).
  set (nsd := tot / 8 + (if tot mod 8 =? 0 then 0 else 1)).
  set (n := zlen data) in *.
  pose proof (zlen_nonneg data) as Hn0. fold n in Hn0.
  assert (Hnsd : 8 * nsd - 7 <= tot <= 8 * nsd).
  { unfold nsd. destruct (tot mod 8 =? 0) eqn:E; lia. }
  assert (Hge : n <= nsd) by lia.
  set (data' := zfirstn nsd data ++ repeat 0 (Z.to_nat (nsd - zlen data))).
  assert (L' : zlen data' = nsd).
  { unfold data'. rewrite zlen_app, zlen_zfirstn. fold n. unfold zlen at 1. rewrite repeat_length.
    rewrite Z2Nat.id by lia. lia. }
  assert (R' : forall j, 0 <= j -> znth 0 data' j = if j <? n then znth 0 data j else 0).
  { intros j Hj. unfold data'. rewrite znth_app, zlen_zfirstn. fold n.
    replace (Z.max 0 (Z.min nsd n)) with n by lia.
    destruct (j <? n) eqn:E.
    - rewrite znth_zfirstn. destruct (j <? nsd) eqn:E3; [reflexivity|lia].
    - rewrite znth_repeat. destruct ((0 <=? j - n) && (j - n <? Z.of_nat (Z.to_nat (nsd - n)))); reflexivity. }
  assert (B' : forall k, 0 <= k -> bit data' k = if k <? 8 * n then bit data k else false).
  { intros k Hk. unfold bit. rewrite R' by lia.
    destruct (k / 8 <? n) eqn:E; destruct (k <? 8 * n) eqn:E3; try lia; [reflexivity|apply Z.testbit_0_l]. }
  exists (mkview (vds v) (vds v + nsd) (vsi v) tot), data'.
  split; [reflexivity|].
  split.
  { unfold view_ok, vsize, vndata. cbn [vsi vst vds vde]. unfold tot in *. lia. }
  cbn [vsi vst vds vde].
  split; [exact Hds|]. split; [rewrite L'; lia|]. split; [reflexivity|]. split; [unfold tot; lia|].
  split.
  { intros j Hj. rewrite L' in Hj. rewrite R' by lia. destruct (j <? n) eqn:E; [apply Hb; fold n; lia|lia]. }
  assert (Hnew : forall k, vst v <= k < 8 * zlen data' -> bit data' k = false).
  { intros k Hk. rewrite B' by lia. destruct (k <? 8 * n) eqn:E; [|reflexivity]. apply Ht. fold n. lia. }
  split.
  { intros k Hk. cbn [vst] in Hk. apply Hnew. unfold tot in Hk. lia. }
  split; [|exact Hnew].
  intros k Hk. rewrite B' by lia. destruct (k <? 8 * n) eqn:E; [reflexivity|lia].
Qed.

(* non-vacuity: an unaligned view of 11 bits starting at bit 3, copied and resized to 21 bits *)
Example copy_resize_example :
  let v := mkview 0 2 3 14 in
  let data := [255; 255] in
  copy_view v data = [248; 63] /\
  resize_view v (copy_view v data) 21 = Some (mkview 0 3 3 24, [248; 63; 0]).
Proof. vm_compute. split; reflexivity. Qed.
