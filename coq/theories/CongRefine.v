(* CongRefine.v — abstraction-level refinement of upgrade and (weighted) degrade, and congruence of
   the operations whose refinement is proved in RebuildProofs / BoolRefine / MultiRefine: maps with
   equal dense abstractions (whatever their block order or origin) are sent to maps with equal
   dense abstractions (C10, C15, C07). *)
From HS Require Import Prelude Cov Map Spec Ops Spec2 Params AtFold MapProofs UpdateProofs HistoryProofs
     LayoutProofs AccountProofs OpsProofs RebuildProofs BoolRefine MultiRefine AbsRefine.

Section Upgrade.
Variable P : params.
Notation V := (p_V P).
Notation dv := (p_dv P).
Notation abs := (abs V dv).

Theorem upgrade_refines (r : Z) (m : smap V) :
  wf P m -> 0 < r -> abs (upgrade V r m) = d_upgrade V dv r (abs m).
Proof.
  intros Wm Hr. pose proof (wf_nf P m Wm) as Hnf. pose proof (npix_nonneg P m Wm) as Hnp.
  unfold d_upgrade.
  change (abs (upgrade V r m)) with
    (mkd (nfine m * r) (map (read V dv (upgrade V r m)) (zrange 0 (npix V (upgrade V r m))))
         (coverage_mask (nfine m * r) (rebuild_idx V m (nfine m * r))) (blank m)).
  f_equal.
  - rewrite (npix_upgrade P r m Wm Hr), (d_npix_abs P m Wm).
    apply map_ext_in. intros p Hp. apply In_zrange in Hp.
    rewrite (upgrade_read P r m p Wm Hr Hp).
    symmetry. apply (d_read_abs' P).
    split; [apply Z.div_pos; lia|apply Z.div_lt_upper_bound; lia].
  - apply (built_covmask P P m (nfine m * r) (blank m) Wm). nia.
Qed.

Theorem upgrade_congruence (r : Z) (m1 m2 : smap V) :
  wf P m1 -> wf P m2 -> 0 < r -> abs m1 = abs m2 -> abs (upgrade V r m1) = abs (upgrade V r m2).
Proof. intros W1 W2 Hr E. rewrite !upgrade_refines by assumption. rewrite E. reflexivity. Qed.

End Upgrade.

Section Degrade.
Variables P P' : params.
Notation V := (p_V P).
Notation W := (p_V P').
Variable red : list (V * W) -> W.
Variable r : Z.
Variable nb : W.

(* [wd] is the dense array of weights (one per sky pixel), [wsp] the same weights in the storage
   order of m (what the implementation multiplies by) *)
Theorem degrade2_refines (m : smap V) (wsp wd : list W) :
  wf P m -> 0 < r -> nfine m mod r = 0 -> aligned P P' m wsp wd -> zlen wd = npix V m ->
  abs W (p_dv P') (degrade2 V W red r nb m wsp) = d_degrade2 V W red r nb (abs V (p_dv P) m) wd.
Proof.
  intros Wm Hr Hdiv Hal Hwd. pose proof (wf_nf P m Wm) as Hnf. pose proof (npix_nonneg P m Wm) as Hnp.
  assert (Hdiv' := Hdiv). apply Z.mod_divide in Hdiv'; [|lia]. destruct Hdiv' as [nf' Enf].
  assert (Hn' : 0 < nf') by nia.
  assert (Ediv : nfine m / r = nf') by (rewrite Enf; apply Z.div_mul; lia).
  assert (Enp : npix V m / r = ncov V m * nf').
  { unfold Map.npix. rewrite Enf. replace (ncov V m * (nf' * r)) with (ncov V m * nf' * r) by lia.
    apply Z.div_mul. lia. }
  unfold d_degrade2.
  change (abs W (p_dv P') (degrade2 V W red r nb m wsp)) with
    (mkd (nfine m / r)
         (map (read W (p_dv P') (degrade2 V W red r nb m wsp)) (zrange 0 (npix W (degrade2 V W red r nb m wsp))))
         (coverage_mask (nfine m / r) (rebuild_idx V m (nfine m / r))) nb).
  assert (Enpd : npix W (degrade2 V W red r nb m wsp) = npix V m / r).
  { unfold Map.npix at 1. unfold degrade2. cbn [nfine idx].
    change (ncov W {| nfine := nfine m / r; idx := rebuild_idx V m (nfine m / r);
                      sp := zrepeat nb (nfine m / r) ++ zskipn (nfine m / r) (group_reduce2 V W red r (sp m) wsp);
                      blank := nb; cache := None |})
      with (ncov W (built P P' m (nfine m / r) (zrepeat nb (nfine m / r) ++ zskipn (nfine m / r) (group_reduce2 V W red r (sp m) wsp)) nb)).
    rewrite (built_ncov P P') by lia. rewrite Ediv, Enp. reflexivity. }
  f_equal.
  - rewrite Enpd, (d_npix_abs P m Wm).
    apply map_ext_in. intros q Hq. apply In_zrange in Hq.
    rewrite (degrade2_read P P' red r nb m wsp wd q Wm Hr Hdiv Hal) by lia.
    unfold Spec.abs. cbn [dcov d_nfine dense].
    assert (Hqc : 0 <= q / (nfine m / r) < ncov V m).
    { rewrite Ediv. split; [apply Z.div_pos; lia|apply Z.div_lt_upper_bound; lia]. }
    rewrite (znth_coverage_mask P m _ Hqc).
    destruct (covered V m (q / (nfine m / r))); [|reflexivity].
    f_equal.
    assert (Hb : (q + 1) * r <= npix V m).
    { assert (q + 1 <= npix V m / r) by lia.
      assert (npix V m = (npix V m / r) * r).
      { rewrite Enp. unfold Map.npix. rewrite Enf. ring. }
      nia. }
    assert (Hlen : zlen (map (read V (p_dv P) m) (zrange 0 (npix V m))) = npix V m)
      by (rewrite zlen_map, zlen_zrange; lia).
    assert (H0 : 0 <= q * r) by nia. assert (H1 : q * r <= (q + 1) * r) by nia.
    rewrite (zslice_map_znth (p_dv P)) by (try assumption; rewrite Hlen; exact Hb).
    rewrite (zslice_map_znth (p_dv P')) by (try assumption; rewrite Hwd; exact Hb).
    rewrite combine_map. apply map_ext_in. intros x Hx. apply In_zrange in Hx.
    f_equal. rewrite (znth_map _ 0) by (rewrite zlen_zrange; nia).
    rewrite znth_zrange by nia. f_equal; lia.
  - unfold Spec.abs. cbn [dcov]. rewrite Ediv. apply (built_covmask P P' m nf' nb Wm Hn').
Qed.

End Degrade.

Section Cong2.
Variable P : params.
Notation V := (p_V P).
Notation dv := (p_dv P).
Notation wf := (wf P).
Notation abs := (abs V dv).

(* boolean map-with-map operators: either form on either pair of content-equal operands *)
Theorem bool_op_congruence (f : V -> V -> V) (a1 b1 a2 b2 : smap V) (vfalse : V) :
  wf a1 -> wf b1 -> nfine b1 = nfine a1 -> ncov V b1 = ncov V a1 ->
  wf a2 -> wf b2 -> nfine b2 = nfine a2 -> ncov V b2 = ncov V a2 ->
  vfalse = blank a2 ->
  abs a1 = abs a2 -> abs b1 = abs b2 ->
  abs (bool_map_op_inplace V dv f a1 b1) = abs (bool_map_op_inplace V dv f a2 b2) /\
  abs (bool_map_op_inplace V dv f a1 b1) = abs (bool_map_op_copy V vfalse f a2 b2).
Proof.
  intros Wa1 Wb1 En1 Ec1 Wa2 Wb2 En2 Ec2 Hv Ea Eb.
  rewrite (proj2 (bool_inplace_refines P f a1 b1 Wa1 Wb1 En1 Ec1)).
  rewrite (proj2 (bool_inplace_refines P f a2 b2 Wa2 Wb2 En2 Ec2)).
  rewrite (proj2 (bool_copy_refines P f a2 b2 vfalse Wa2 Wb2 En2 Ec2 Hv)).
  rewrite Ea, Eb. split; reflexivity.
Qed.

(* multi-map operations: lists of inputs with equal abstractions (and validity tests) *)
Theorem apply_operation_congruence (f : V -> V -> V) (conv : V -> V) (filler sentinel : V) (ff : bool)
        (vout : V -> bool) ncv nf (union fis : bool) (ms1 ms2 : list (vmap V)) :
  vout sentinel = false -> 0 <= ncv -> 0 < nf ->
  ms1 <> [] -> (forall vm, In vm ms1 -> okmap P ncv nf vm) ->
  ms2 <> [] -> (forall vm, In vm ms2 -> okmap P ncv nf vm) ->
  (union = true -> ff = false) -> (fis = true -> filler = sentinel) ->
  dsof P ms1 = dsof P ms2 ->
  exists m1 m2,
    apply_operation V dv f conv filler sentinel fis union ff ms1 = Some m1 /\
    apply_operation V dv f conv filler sentinel fis union ff ms2 = Some m2 /\
    abs m1 = abs m2.
Proof.
  intros Hv Hn Hf N1 O1 N2 O2 Hu Hs E.
  destruct (apply_operation_refines P f conv filler sentinel ff vout Hv ncv nf Hn Hf union fis ms1 N1 O1 Hu Hs)
    as [m1 [E1 [_ A1]]].
  destruct (apply_operation_refines P f conv filler sentinel ff vout Hv ncv nf Hn Hf union fis ms2 N2 O2 Hu Hs)
    as [m2 [E2 [_ A2]]].
  exists m1, m2. split; [exact E1|]. split; [exact E2|].
  rewrite E in A1. rewrite A1 in A2. congruence.
Qed.

End Cong2.

(* weighted degrade: content-equal maps with the same dense weights, each with the weights laid out
   in its own storage order *)
Theorem degrade_congruence (P P' : params) (red : list (p_V P * p_V P') -> p_V P') (r : Z) (nb : p_V P')
        (m1 m2 : smap (p_V P)) (w1 w2 wd : list (p_V P')) :
  wf P m1 -> wf P m2 -> 0 < r -> nfine m1 mod r = 0 ->
  aligned P P' m1 w1 wd -> aligned P P' m2 w2 wd -> zlen wd = npix (p_V P) m1 ->
  abs (p_V P) (p_dv P) m1 = abs (p_V P) (p_dv P) m2 ->
  abs (p_V P') (p_dv P') (degrade2 (p_V P) (p_V P') red r nb m1 w1) =
  abs (p_V P') (p_dv P') (degrade2 (p_V P) (p_V P') red r nb m2 w2).
Proof.
  intros W1 W2 Hr Hd A1 A2 Hl E.
  assert (En : nfine m1 = nfine m2) by (apply (f_equal d_nfine) in E; exact E).
  assert (Enp : npix (p_V P) m1 = npix (p_V P) m2).
  { rewrite <- (d_npix_abs P m1 W1), <- (d_npix_abs P m2 W2), E. reflexivity. }
  rewrite (degrade2_refines P P' red r nb m1 w1 wd W1 Hr Hd A1 Hl).
  rewrite (degrade2_refines P P' red r nb m2 w2 wd W2 Hr) by (try assumption; congruence).
  rewrite E. reflexivity.
Qed.
