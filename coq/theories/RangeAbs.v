(* RangeAbs.v — the slice path of pixel-range updates at the level of the dense abstraction (C08, C10).
   abs (update_ranges m ...) is a function of abs m alone: the values of the explicit-pixel update of the
   contained pixels, and a coverage mask that holds, besides the old coverage, EVERY coverage pixel a range
   touches (unless no_append) — a superset of what the explicit-pixel update reserves, which is exactly the
   difference the property allows between the two routes.  Corollary: equal maps stay equal under range
   updates, whatever their storage order. *)
From HS Require Import Prelude Cov Map Spec Ops Spec2 Params AtFold MapProofs UpdateProofs HistoryProofs
     LayoutProofs AccountProofs OpsProofs RangeProofs BlockFold RangeRefine AbsRefine.

Section RangeAbs.
Variable P : params.
Notation V := (p_V P).
Notation dv := (p_dv P).
Notation wf := (wf P).
Notation abs := (abs V dv).
Notation upd_r := (update_ranges V dv (p_vadd P) (p_vor P) (p_vand P) (p_vzero P) (p_is_sent P) (p_sent_nonzero P)).
Notation upd := (update V dv (p_vadd P) (p_vor P) (p_vand P) (p_vzero P) (p_is_sent P) (p_sent_nonzero P)).
Notation d_upd := (d_update V dv (p_vadd P) (p_vor P) (p_vand P) (p_vzero P) (p_is_sent P) (p_sent_nonzero P)).

(* the dense specification of a range update *)
Definition d_update_ranges (d : dmap V) (o : uop) (rows : list (Z * Z)) (value : V) (na : bool) : dmap V :=
  let du := d_upd d o (map (fun p => (p, value)) (expand_ranges rows)) na in
  mkd (d_nfine d) (dense du)
      (if na then dcov d
       else map (fun c => znth false (dcov d) c ||
                          existsb (Z.eqb c) (ranges_cov_pixels (d_nfine d) (d_ncov V d) rows))
                (zrange 0 (d_ncov V d)))
      (d_blank d).

Lemma existsb_eqb_filter' (f : Z -> bool) (l : list Z) q :
  existsb (Z.eqb q) (filter f l) = existsb (Z.eqb q) l && f q.
Proof.
  induction l as [|x r IH]; [reflexivity|]. cbn [filter existsb].
  destruct (f x) eqn:Ef; cbn [existsb]; rewrite IH.
  - destruct (q =? x) eqn:E; cbn [orb]; [|reflexivity]. apply Z.eqb_eq in E. subst x. rewrite Ef. reflexivity.
  - destruct (q =? x) eqn:E; cbn [orb]; [|reflexivity]. apply Z.eqb_eq in E. subst x. rewrite Ef.
    rewrite andb_false_r. destruct (existsb (Z.eqb q) r); reflexivity.
Qed.

Theorem ranges_refines (m : smap V) (o : uop) (rows : list (Z * Z)) (value : V) (na : bool) :
  wf m -> (forall r, In r rows -> row_ok P m r) ->
  (o = UAdd -> p_sent_nonzero P = true -> NoDup (expand_ranges rows)) ->
  abs (upd_r m o rows value na) = d_update_ranges (abs m) o rows value na.
Proof.
  intros W Hrows Hadd.
  set (pvs := map (fun p => (p, value)) (expand_ranges rows)).
  assert (Hok : pvs_ok P m pvs).
  { intros pv Hpv. apply in_map_iff in Hpv. destruct Hpv as [p [<- Hp]]. cbn [fst].
    apply In_expand_ranges in Hp. destruct Hp as [r [Hr Hp]]. destruct (Hrows r Hr) as [R0 [R1 [R2 R3]]]. lia. }
  pose proof (update_refines P m o pvs na W Hok) as RU.
  unfold d_update_ranges. cbv zeta. fold pvs. rewrite <- RU.
  change (upd_r m o rows value na) with (result_r P o value m na rows).
  unfold Spec.abs at 1. rewrite (result_r_eq P o value m na rows). cbn [nfine idx blank].
  assert (Enp : npix V {| nfine := nfine m; idx := idx (m1 P m na rows); sp := final_sp P o value m na rows;
                          blank := blank m; cache := None |} = npix V m).
  { unfold Map.npix, Map.ncov. cbn [idx nfine]. pose proof (m1_ncov P m na rows) as E. unfold Map.ncov in E.
    rewrite E. reflexivity. }
  rewrite Enp. rewrite <- (result_r_eq P o value m na rows).
  cbn [Spec.abs d_nfine d_blank dense dcov]. f_equal.
  - (* values *)
    rewrite (npix_update P). apply map_ext_in. intros q Hq. apply In_zrange in Hq.
    apply (ranges_eq_pixels P o value m na rows q W Hrows Hadd Hq).
  - (* coverage *)
    rewrite (d_ncov_abs P m).
    set (want := ranges_cov_pixels (nfine m) (ncov V m) rows).
    set (new := filter (fun c => negb (covered V m c)) want).
    pose proof (new_ok_r P m rows) as NO. fold want new in NO.
    destruct na.
    + destruct (m1_cases P m true rows) as [E|[E _]]; [rewrite E; reflexivity|discriminate].
    + apply (znth_ext false).
      * unfold coverage_mask. rewrite !zlen_map, !zlen_zrange.
        pose proof (m1_ncov P m false rows) as E. unfold Map.ncov in E. rewrite E. unfold Map.ncov. reflexivity.
      * intros c Hc. unfold coverage_mask in Hc. rewrite zlen_map, zlen_zrange in Hc.
        pose proof (m1_ncov P m false rows) as E. unfold Map.ncov in E. rewrite E in Hc.
        pose proof (zlen_nonneg (idx m)) as Hz.
        assert (Hc' : 0 <= c < ncov V m) by (unfold Map.ncov; lia).
        rewrite (znth_map _ 0) by (rewrite zlen_zrange; unfold Map.ncov; lia).
        rewrite znth_zrange by (unfold Map.ncov; lia). rewrite Z.add_0_l.
        rewrite (znth_coverage_mask P m c Hc').
        pose proof (m1_nfine P m false rows) as Enf.
        transitivity (covered V (m1 P m false rows) c).
        { rewrite <- Enf. apply (znth_coverage_mask P (m1 P m false rows)). rewrite (m1_ncov P). exact Hc'. }
        assert (Enew : existsb (Z.eqb c) new = existsb (Z.eqb c) want && negb (covered V m c))
          by (unfold new; apply existsb_eqb_filter').
        destruct (m1_cases P m false rows) as [E1|[_ E1]]; rewrite E1.
        -- (* nothing new: every wanted pixel is covered already *)
           destruct (existsb (Z.eqb c) want) eqn:Ew; [|rewrite orb_false_r; reflexivity].
           destruct (covered V m c) eqn:Ec; [reflexivity|].
           exfalso. unfold m1 in E1. fold want new in E1.
           destruct new as [|x t] eqn:En.
           ++ cbn [andb negb] in Enew. cbn in Enew. discriminate.
           ++ (* m = reserve m (x :: t) is impossible: x becomes covered *)
              destruct (proj2 NO x (or_introl eq_refl)) as [Hx Hux].
              pose proof (reserve_covered P m (x :: t) x W NO Hx) as RC.
              rewrite E1 in RC. rewrite Hux in RC. cbn [existsb orb] in RC. rewrite Z.eqb_refl in RC. discriminate.
        -- fold want new. rewrite (reserve_covered P m new c W NO Hc'). rewrite Enew.
           destruct (covered V m c); destruct (existsb (Z.eqb c) want); reflexivity.
Qed.

(* equal maps stay equal under range updates (any storage order on either side) *)
Theorem ranges_congruence (m1 m2 : smap V) (o : uop) (rows : list (Z * Z)) (value : V) (na : bool) :
  wf m1 -> wf m2 -> abs m1 = abs m2 ->
  (forall r, In r rows -> row_ok P m1 r) -> (forall r, In r rows -> row_ok P m2 r) ->
  (o = UAdd -> p_sent_nonzero P = true -> NoDup (expand_ranges rows)) ->
  abs (upd_r m1 o rows value na) = abs (upd_r m2 o rows value na).
Proof.
  intros W1 W2 E H1 H2 Hadd.
  rewrite (ranges_refines m1 o rows value na W1 H1 Hadd), (ranges_refines m2 o rows value na W2 H2 Hadd), E.
  reflexivity.
Qed.

End RangeAbs.
