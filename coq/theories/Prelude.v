(* Prelude: Z-indexed lists with the conventions the healsparse model uses.
   Everything here is executable (extracted) and has a pointwise characterisation
   lemma; later files reason only through those lemmas. *)
From Coq Require Export ZArith List Bool Lia ZifyBool ZifyNat ZifyN.
Export ListNotations.
Open Scope Z_scope.

Ltac Zify.zify_post_hook ::= Z.to_euclidean_division_equations.

Section Lists.
Context {A : Type}.

(* element at a Z index, default outside [0, len) *)
Fixpoint znth (d : A) (l : list A) (i : Z) : A :=
  match l with
  | [] => d
  | x :: t => if i =? 0 then x else znth d t (i - 1)
  end.

(* functional update at a Z index; no-op outside [0, len) *)
Fixpoint zupd (l : list A) (i : Z) (v : A) : list A :=
  match l with
  | [] => []
  | x :: t => if i =? 0 then v :: t else x :: zupd t (i - 1) v
  end.

Definition zlen (l : list A) : Z := Z.of_nat (length l).

Fixpoint zfirstn (n : Z) (l : list A) : list A :=
  match l with
  | [] => []
  | x :: t => if n <=? 0 then [] else x :: zfirstn (n - 1) t
  end.

Fixpoint zskipn (n : Z) (l : list A) : list A :=
  match l with
  | [] => []
  | x :: t => if n <=? 0 then l else zskipn (n - 1) t
  end.

Definition zslice (l : list A) (a b : Z) : list A := zfirstn (b - a) (zskipn a l).

Definition zrepeat (v : A) (n : Z) : list A := repeat v (Z.to_nat n).

Lemma zlen_nonneg l : 0 <= zlen l.
Proof. unfold zlen; lia. Qed.

Lemma zlen_cons x l : zlen (x :: l) = zlen l + 1.
Proof. unfold zlen; cbn [length]; lia. Qed.

Lemma zlen_nil : zlen (@nil A) = 0.
Proof. reflexivity. Qed.

Lemma zlen_app l1 l2 : zlen (l1 ++ l2) = zlen l1 + zlen l2.
Proof. unfold zlen; rewrite app_length; lia. Qed.

Lemma zlen_zrepeat v n : zlen (zrepeat v n) = Z.max 0 n.
Proof. unfold zlen, zrepeat; rewrite repeat_length; lia. Qed.

Lemma znth_out d l i : i < 0 \/ zlen l <= i -> znth d l i = d.
Proof.
  revert i; induction l as [|x t IH]; intros i H; cbn [znth]; [reflexivity|].
  rewrite zlen_cons in H. pose proof (zlen_nonneg t).
  destruct (i =? 0) eqn:E; [lia|]. apply IH; lia.
Qed.

Lemma znth_cons d x t i : znth d (x :: t) i = if i =? 0 then x else znth d t (i - 1).
Proof. reflexivity. Qed.

Lemma zlen_zupd l i v : zlen (zupd l i v) = zlen l.
Proof.
  revert i; induction l as [|x t IH]; intros i; cbn [zupd]; [reflexivity|].
  destruct (i =? 0); rewrite !zlen_cons; [reflexivity|]. rewrite IH; reflexivity.
Qed.

Lemma znth_zupd d l i v j :
  znth d (zupd l i v) j =
  if (i =? j) && (0 <=? i) && (i <? zlen l) then v else znth d l j.
Proof.
  revert i j; induction l as [|x t IH]; intros i j; cbn [zupd znth].
  - rewrite zlen_nil. destruct ((i =? j) && (0 <=? i) && (i <? 0)) eqn:E; [lia|reflexivity].
  - rewrite zlen_cons. pose proof (zlen_nonneg t).
    destruct (i =? 0) eqn:Ei; cbn [znth].
    + destruct (j =? 0) eqn:Ej.
      * destruct ((i =? j) && (0 <=? i) && (i <? zlen t + 1)) eqn:E; [reflexivity|lia].
      * destruct ((i =? j) && (0 <=? i) && (i <? zlen t + 1)) eqn:E; [lia|reflexivity].
    + destruct (j =? 0) eqn:Ej.
      * destruct ((i =? j) && (0 <=? i) && (i <? zlen t + 1)) eqn:E; [lia|reflexivity].
      * rewrite IH.
        destruct ((i - 1 =? j - 1) && (0 <=? i - 1) && (i - 1 <? zlen t)) eqn:E1;
        destruct ((i =? j) && (0 <=? i) && (i <? zlen t + 1)) eqn:E2; try reflexivity; lia.
Qed.

Lemma znth_zupd_same d l i v : 0 <= i < zlen l -> znth d (zupd l i v) i = v.
Proof.
  intros H. rewrite znth_zupd.
  destruct ((i =? i) && (0 <=? i) && (i <? zlen l)) eqn:E; [reflexivity|lia].
Qed.

Lemma znth_zupd_other d l i v j : i <> j -> znth d (zupd l i v) j = znth d l j.
Proof.
  intros H. rewrite znth_zupd.
  destruct ((i =? j) && (0 <=? i) && (i <? zlen l)) eqn:E; [lia|reflexivity].
Qed.

Lemma znth_app d l1 l2 i :
  znth d (l1 ++ l2) i = if i <? zlen l1 then znth d l1 i else znth d l2 (i - zlen l1).
Proof.
  revert i; induction l1 as [|x t IH]; intros i; cbn [app znth].
  - rewrite zlen_nil, Z.sub_0_r.
    destruct (i <? 0) eqn:E; [|reflexivity].
    apply znth_out; lia.
  - rewrite zlen_cons. pose proof (zlen_nonneg t).
    destruct (i =? 0) eqn:E0.
    + destruct (i <? zlen t + 1) eqn:E; [reflexivity|lia].
    + rewrite IH.
      destruct (i - 1 <? zlen t) eqn:E1; destruct (i <? zlen t + 1) eqn:E2; try lia; try reflexivity.
      f_equal; lia.
Qed.

Lemma znth_repeat d v n i : znth d (repeat v n) i = if (0 <=? i) && (i <? Z.of_nat n) then v else d.
Proof.
  revert i; induction n as [|n IH]; intros i; cbn [repeat znth].
  - change (Z.of_nat 0) with 0. destruct ((0 <=? i) && (i <? 0)) eqn:E; [lia|reflexivity].
  - rewrite Nat2Z.inj_succ. destruct (i =? 0) eqn:E0.
    + destruct ((0 <=? i) && (i <? Z.succ (Z.of_nat n))) eqn:E; [reflexivity|lia].
    + rewrite IH.
      destruct ((0 <=? i - 1) && (i - 1 <? Z.of_nat n)) eqn:E1;
      destruct ((0 <=? i) && (i <? Z.succ (Z.of_nat n))) eqn:E2; try reflexivity; lia.
Qed.

Lemma znth_zrepeat d v n i : znth d (zrepeat v n) i = if (0 <=? i) && (i <? n) then v else d.
Proof.
  unfold zrepeat. rewrite znth_repeat.
  destruct ((0 <=? i) && (i <? Z.of_nat (Z.to_nat n))) eqn:E1;
  destruct ((0 <=? i) && (i <? n)) eqn:E2; try reflexivity; lia.
Qed.

Lemma zlen_zfirstn n l : zlen (zfirstn n l) = Z.max 0 (Z.min n (zlen l)).
Proof.
  revert n; induction l as [|x t IH]; intros n; cbn [zfirstn].
  - rewrite zlen_nil; lia.
  - rewrite zlen_cons. pose proof (zlen_nonneg t).
    destruct (n <=? 0) eqn:E; [rewrite zlen_nil; lia|].
    rewrite zlen_cons, IH; lia.
Qed.

Lemma znth_zfirstn d n l i : znth d (zfirstn n l) i = if i <? n then znth d l i else d.
Proof.
  revert n i; induction l as [|x t IH]; intros n i; cbn [zfirstn znth].
  - destruct (i <? n); reflexivity.
  - destruct (n <=? 0) eqn:E; cbn [znth].
    + destruct (i <? n) eqn:E1; [|reflexivity].
      destruct (i =? 0) eqn:E0; [lia|]. symmetry; apply znth_out; lia.
    + destruct (i =? 0) eqn:E0.
      * destruct (i <? n) eqn:E1; [reflexivity|lia].
      * rewrite IH. destruct (i - 1 <? n - 1) eqn:E1; destruct (i <? n) eqn:E2; try reflexivity; lia.
Qed.

Lemma zlen_zskipn n l : zlen (zskipn n l) = Z.max 0 (zlen l - Z.max 0 n).
Proof.
  revert n; induction l as [|x t IH]; intros n; cbn [zskipn].
  - rewrite zlen_nil; lia.
  - pose proof (zlen_nonneg t).
    destruct (n <=? 0) eqn:E; [rewrite zlen_cons; lia|].
    rewrite zlen_cons, IH; lia.
Qed.

Lemma znth_zskipn d n l i : 0 <= i -> znth d (zskipn n l) i = znth d l (i + Z.max 0 n).
Proof.
  revert n i; induction l as [|x t IH]; intros n i Hi; cbn [zskipn].
  - reflexivity.
  - destruct (n <=? 0) eqn:E.
    + f_equal; lia.
    + rewrite IH by lia. cbn [znth].
      destruct (i + Z.max 0 n =? 0) eqn:E0; [lia|]. f_equal; lia.
Qed.

Lemma zfirstn_zskipn n l : zfirstn n l ++ zskipn n l = l.
Proof.
  revert n; induction l as [|x t IH]; intros n; cbn [zfirstn zskipn]; [reflexivity|].
  destruct (n <=? 0); [reflexivity|]. cbn [app]. rewrite IH; reflexivity.
Qed.

(* extensionality through znth *)
Lemma znth_ext d l1 l2 :
  zlen l1 = zlen l2 -> (forall i, 0 <= i < zlen l1 -> znth d l1 i = znth d l2 i) -> l1 = l2.
Proof.
  revert l2; induction l1 as [|x t IH]; intros [|y u] Hl H.
  - reflexivity.
  - rewrite zlen_nil, zlen_cons in Hl. pose proof (zlen_nonneg u); lia.
  - rewrite zlen_nil, zlen_cons in Hl. pose proof (zlen_nonneg t); lia.
  - rewrite !zlen_cons in Hl. pose proof (zlen_nonneg t).
    f_equal.
    + specialize (H 0). cbn [znth] in H. rewrite Z.eqb_refl in H. apply H. rewrite zlen_cons; lia.
    + apply IH; [lia|]. intros i Hi. specialize (H (i + 1)).
      cbn [znth] in H. destruct (i + 1 =? 0) eqn:E; [lia|].
      replace (i + 1 - 1) with i in H by lia. apply H. rewrite zlen_cons; lia.
Qed.

Lemma znth_In d l i : 0 <= i < zlen l -> In (znth d l i) l.
Proof.
  revert i; induction l as [|x t IH]; intros i H.
  - rewrite zlen_nil in H; lia.
  - rewrite zlen_cons in H. cbn [znth]. destruct (i =? 0) eqn:E; [left; reflexivity|].
    right; apply IH; lia.
Qed.

Lemma In_znth d l x : In x l -> exists i, 0 <= i < zlen l /\ znth d l i = x.
Proof.
  induction l as [|y t IH]; intros H; [contradiction|].
  destruct H as [->|H].
  - exists 0. rewrite zlen_cons. pose proof (zlen_nonneg t). split; [lia|reflexivity].
  - destruct (IH H) as [i [Hi Hx]]. exists (i + 1). rewrite zlen_cons. split; [lia|].
    cbn [znth]. destruct (i + 1 =? 0) eqn:E; [lia|]. replace (i + 1 - 1) with i by lia. exact Hx.
Qed.

End Lists.

Arguments zlen_nil : clear implicits.

Lemma zlen_map {A B} (f : A -> B) l : zlen (map f l) = zlen l.
Proof. unfold zlen; rewrite map_length; reflexivity. Qed.

Lemma znth_map {A B} (f : A -> B) da db l i :
  0 <= i < zlen l -> znth db (map f l) i = f (znth da l i).
Proof.
  revert i; induction l as [|x t IH]; intros i H.
  - rewrite (@zlen_nil A) in H; lia.
  - rewrite zlen_cons in H. cbn [map znth]. destruct (i =? 0) eqn:E; [reflexivity|]. apply IH; lia.
Qed.

(* [lo, lo+1, ..., lo+n-1] *)
Fixpoint zrange_nat (lo : Z) (n : nat) : list Z :=
  match n with O => [] | S k => lo :: zrange_nat (lo + 1) k end.

Definition zrange (lo hi : Z) : list Z := zrange_nat lo (Z.to_nat (hi - lo)).

Lemma zlen_zrange_nat lo n : zlen (zrange_nat lo n) = Z.of_nat n.
Proof. revert lo; induction n as [|n IH]; intros lo; cbn [zrange_nat]; [reflexivity|]. rewrite zlen_cons, IH; lia. Qed.

Lemma zlen_zrange lo hi : zlen (zrange lo hi) = Z.max 0 (hi - lo).
Proof. unfold zrange; rewrite zlen_zrange_nat; lia. Qed.

Lemma znth_zrange_nat d lo n i : 0 <= i < Z.of_nat n -> znth d (zrange_nat lo n) i = lo + i.
Proof.
  revert lo i; induction n as [|n IH]; intros lo i H; [lia|].
  cbn [zrange_nat znth]. destruct (i =? 0) eqn:E; [lia|]. rewrite IH; lia.
Qed.

Lemma znth_zrange d lo hi i : 0 <= i < hi - lo -> znth d (zrange lo hi) i = lo + i.
Proof. intros H; unfold zrange; apply znth_zrange_nat; lia. Qed.

Lemma In_zrange_nat lo n x : In x (zrange_nat lo n) <-> lo <= x < lo + Z.of_nat n.
Proof.
  revert lo; induction n as [|n IH]; intros lo; cbn [zrange_nat In].
  - lia.
  - rewrite IH. lia.
Qed.

Lemma In_zrange lo hi x : In x (zrange lo hi) <-> lo <= x < hi.
Proof. unfold zrange; rewrite In_zrange_nat; lia. Qed.

Lemma NoDup_zrange_nat lo n : NoDup (zrange_nat lo n).
Proof.
  revert lo; induction n as [|n IH]; intros lo; cbn [zrange_nat]; constructor.
  - rewrite In_zrange_nat; lia.
  - apply IH.
Qed.

Lemma NoDup_zrange lo hi : NoDup (zrange lo hi).
Proof. apply NoDup_zrange_nat. Qed.

(* counting *)
Definition zcount {A} (f : A -> bool) (l : list A) : Z := zlen (filter f l).

Lemma zcount_nil {A} (f : A -> bool) : zcount f [] = 0.
Proof. reflexivity. Qed.

Lemma zcount_cons {A} (f : A -> bool) x l : zcount f (x :: l) = (if f x then 1 else 0) + zcount f l.
Proof. unfold zcount; cbn [filter]. destruct (f x); [rewrite zlen_cons; lia|lia]. Qed.

Lemma zcount_app {A} (f : A -> bool) l1 l2 : zcount f (l1 ++ l2) = zcount f l1 + zcount f l2.
Proof. unfold zcount; rewrite filter_app, zlen_app; reflexivity. Qed.

Lemma zcount_nonneg {A} (f : A -> bool) l : 0 <= zcount f l.
Proof. apply zlen_nonneg. Qed.

Lemma zcount_le {A} (f : A -> bool) l : zcount f l <= zlen l.
Proof.
  induction l as [|x t IH]; [unfold zcount, zlen; cbn; lia|].
  rewrite zcount_cons, zlen_cons. destruct (f x); lia.
Qed.

Lemma zcount_ext {A} (f g : A -> bool) l : (forall x, In x l -> f x = g x) -> zcount f l = zcount g l.
Proof.
  induction l as [|x t IH]; intros H; [reflexivity|].
  rewrite !zcount_cons. f_equal.
  - rewrite (H x (or_introl eq_refl)). reflexivity.
  - apply IH. intros y Hy. apply H. right; exact Hy.
Qed.

Lemma zcount_map {A B} (g : A -> B) (f : B -> bool) l : zcount f (map g l) = zcount (fun x => f (g x)) l.
Proof.
  induction l as [|x t IH]; [reflexivity|]. cbn [map]. rewrite !zcount_cons, IH; reflexivity.
Qed.
