(* RangeRefine.v — the slice path of pixel-range updates (_update_values_pixel_ranges) equals the
   explicit-pixel update of the pixels the ranges contain, pixel for pixel, for every operation,
   value, prior state and alignment of the ranges against the block edges (C08). *)
From HS Require Import Prelude Cov Map Spec Ops Spec2 Params AtFold MapProofs UpdateProofs HistoryProofs
     LayoutProofs AccountProofs OpsProofs RangeProofs BlockFold.

Lemma NoDup_app_tail {A} (l1 l2 : list A) : NoDup (l1 ++ l2) -> NoDup l2.
Proof. induction l1 as [|x t IH]; cbn [app]; intros H; [exact H|]. inversion H; subst. apply IH. assumption. Qed.

Section RangeRefine.
Variable P : params.
Notation V := (p_V P).
Notation valid := (p_valid P).
Notation dv := (p_dv P).
Notation wf := (wf P).
Notation read := (read V dv).
Notation rop := (range_op V (p_vadd P) (p_vor P) (p_vand P) (p_vzero P) (p_is_sent P) (p_sent_nonzero P)).

Variable o : uop.
Variable value : V.
Notation elem := (range_elem P o value).

Lemma zlen_rop (s : list V) start stop :
  0 <= start -> stop <= zlen s -> zlen (rop o value s start stop) = zlen s.
Proof.
  intros Hs Hl. unfold range_op. destruct (start <? stop) eqn:E; [|reflexivity].
  assert (Hb : forall (g : V -> V), zlen (map g (zslice s start stop)) = stop - start).
  { intros g. rewrite zlen_map. unfold zslice. rewrite zlen_zfirstn, zlen_zskipn. lia. }
  destruct o; rewrite (zlen_zsplice P) by (rewrite ?Hb; lia); reflexivity.
Qed.

(* a storage cell belongs to the block of coverage pixel c iff the pixel stored there lies in c *)
Section Blocks.
Variable m : smap V.
Hypothesis W : wf m.
Notation nf := (nfine m).

Lemma cell_in_block q c :
  0 <= q < npix V m -> covered V m (q / nf) = true -> good P m c ->
  (off V m c <= cell V m q < off V m c + nf) <-> c = q / nf.
Proof.
  intros Hq Hcov G. pose proof (wf_nf P m W) as Hn.
  pose proof (Z.mod_pos_bound q nf Hn) as Hm.
  assert (Gq : good P m (q / nf)) by (split; [apply (covpix_range P); assumption|exact Hcov]).
  rewrite (cell_eq P) by exact Hn.
  split.
  - intros Hin. destruct (Z.eq_dec c (q / nf)) as [E|Hne]; [exact E|exfalso].
    apply (blocks_disjoint P m W (q / nf) c (off V m (q / nf) + q mod nf) Gq G); [congruence|lia|exact Hin].
  - intros ->. lia.
Qed.

Lemma overflow_not_in_block i c : 0 <= i < nf -> good P m c -> ~ (off V m c <= i < off V m c + nf).
Proof. intros Hi G. destruct (good_block P m W c G) as [A _]. lia. Qed.

End Blocks.

(* a fold of slice operations, pointwise *)
Definition hit_slice (sl : Z * Z) (i : Z) : bool := (fst sl <=? i) && (i <? snd sl).

Lemma fold_slices_pointwise (sls : list (Z * Z)) : forall (s : list V),
  (forall sl, In sl sls -> 0 <= fst sl /\ snd sl <= zlen s) ->
  zlen (fold_left (fun t sl => rop o value t (fst sl) (snd sl)) sls s) = zlen s /\
  forall i, znth dv (fold_left (fun t sl => rop o value t (fst sl) (snd sl)) sls s) i =
            fold_left (fun v sl => if hit_slice sl i then elem v else v) sls (znth dv s i).
Proof.
  induction sls as [|sl r IH]; intros s Hb; cbn [fold_left]; [split; reflexivity|].
  destruct (Hb sl (or_introl eq_refl)) as [B1 B2].
  assert (L1 : zlen (rop o value s (fst sl) (snd sl)) = zlen s) by (apply zlen_rop; assumption).
  destruct (IH (rop o value s (fst sl) (snd sl))) as [L S].
  - intros sl' Hsl'. rewrite L1. apply Hb. right; exact Hsl'.
  - split; [rewrite L; exact L1|]. intros i. rewrite S.
    rewrite (range_op_pointwise P) by assumption. reflexivity.
Qed.

(* ---- one row of the range array as a list of slices ---- *)
Definition skipc (na : bool) (covd : Z -> bool) (c : Z) : bool := na && negb (covd c).
Definition noslice : Z * Z := (0, 0).

Definition row_slices (na : bool) (covd : Z -> bool) (m : smap V) (r : Z * Z) : list (Z * Z) :=
  let nf := nfine m in
  let c0 := cov_lo nf r in
  let c1 := cov_hi nf (ncov V m) r in
  let offv c := znth 0 (idx m) c in
  if c0 <? c1 then
    (if skipc na covd c0 then noslice else (fst r + offv c0, offv c0 + nf * (c0 + 1))) ::
    map (fun c => if skipc na covd c then noslice else (offv c + nf * c, offv c + nf * c + nf)) (zrange (c0 + 1) c1) ++
    [if skipc na covd c1 then noslice else (offv c1 + nf * c1, snd r + offv c1)]
  else
    [if skipc na covd c0 then noslice else (fst r + offv c0, fst r + offv c0 + (snd r - fst r))].

Lemma rop_noslice (s : list V) : rop o value s (fst noslice) (snd noslice) = s.
Proof. unfold range_op, noslice. cbn [fst snd]. reflexivity. Qed.

Lemma fold_left_ext_in {A B} (f g : A -> B -> A) (l : list B) a :
  (forall x y, In y l -> f x y = g x y) -> fold_left f l a = fold_left g l a.
Proof.
  revert a. induction l as [|y t IH]; intros a H; cbn [fold_left]; [reflexivity|].
  rewrite (H a y (or_introl eq_refl)). apply IH. intros x y' Hy'. apply H. right; exact Hy'.
Qed.

Lemma range_row_as_slices na covd (m : smap V) (s : list V) (r : Z * Z) :
  range_row V (p_vadd P) (p_vor P) (p_vand P) (p_vzero P) (p_is_sent P) (p_sent_nonzero P) o value na covd m s r =
  fold_left (fun t sl => rop o value t (fst sl) (snd sl)) (row_slices na covd m r) s.
Proof.
  unfold range_row, row_slices. cbv zeta.
  destruct (cov_lo (nfine m) r <? cov_hi (nfine m) (ncov V m) r) eqn:E.
  - cbn [fold_left]. rewrite fold_left_app. cbn [fold_left].
    fold (skipc na covd (cov_lo (nfine m) r)). fold (skipc na covd (cov_hi (nfine m) (ncov V m) r)).
    assert (E1 : (if skipc na covd (cov_lo (nfine m) r) then s
                  else rop o value s (fst r + znth 0 (idx m) (cov_lo (nfine m) r))
                           (znth 0 (idx m) (cov_lo (nfine m) r) + nfine m * (cov_lo (nfine m) r + 1))) =
                 rop o value s
                     (fst (if skipc na covd (cov_lo (nfine m) r) then noslice
                           else (fst r + znth 0 (idx m) (cov_lo (nfine m) r),
                                 znth 0 (idx m) (cov_lo (nfine m) r) + nfine m * (cov_lo (nfine m) r + 1))))
                     (snd (if skipc na covd (cov_lo (nfine m) r) then noslice
                           else (fst r + znth 0 (idx m) (cov_lo (nfine m) r),
                                 znth 0 (idx m) (cov_lo (nfine m) r) + nfine m * (cov_lo (nfine m) r + 1))))).
    { destruct (skipc na covd (cov_lo (nfine m) r)); [rewrite rop_noslice; reflexivity|reflexivity]. }
    rewrite E1. clear E1.
    set (s1 := rop o value s _ _).
    rewrite <- (fold_left_map_arg
                  (fun t sl => rop o value t (fst sl) (snd sl))
                  (fun c => if skipc na covd c then noslice
                            else (znth 0 (idx m) c + nfine m * c, znth 0 (idx m) c + nfine m * c + nfine m))).
    rewrite (fold_left_ext_in
               (fun s0 c => if na && negb (covd c) then s0
                            else rop o value s0 (znth 0 (idx m) c + nfine m * c) (znth 0 (idx m) c + nfine m * c + nfine m))
               (fun s0 c => rop o value s0
                                (fst (if skipc na covd c then noslice
                                      else (znth 0 (idx m) c + nfine m * c, znth 0 (idx m) c + nfine m * c + nfine m)))
                                (snd (if skipc na covd c then noslice
                                      else (znth 0 (idx m) c + nfine m * c, znth 0 (idx m) c + nfine m * c + nfine m))))).
    + set (s2 := fold_left _ _ s1).
      destruct (skipc na covd (cov_hi (nfine m) (ncov V m) r)); [rewrite rop_noslice; reflexivity|reflexivity].
    + intros x c _. fold (skipc na covd c). destruct (skipc na covd c); [rewrite rop_noslice; reflexivity|reflexivity].
  - cbn [fold_left]. fold (skipc na covd (cov_lo (nfine m) r)).
    destruct (skipc na covd (cov_lo (nfine m) r)); [rewrite rop_noslice; reflexivity|reflexivity].
Qed.

Lemma fold_one_hit {A} (h : Z -> bool) (g : A -> A) (x : Z) (l : list Z) : forall v,
  NoDup l -> (forall c, In c l -> h c = true -> c = x) ->
  fold_left (fun v c => if h c then g v else v) l v = if existsb h l then g v else v.
Proof.
  induction l as [|c t IH]; intros v ND Hx; cbn [fold_left existsb]; [reflexivity|].
  inversion ND as [|? ? Hnin ND']; subst.
  destruct (h c) eqn:Ec; cbn [orb].
  - assert (c = x) by (apply Hx; [left; reflexivity|exact Ec]). subst c.
    rewrite IH by (try exact ND'; intros c' Hc'; apply Hx; right; exact Hc').
    assert (E : existsb h t = false).
    { destruct (existsb h t) eqn:E; [|reflexivity]. apply existsb_exists in E. destruct E as [c' [Hc' Eh]].
      assert (c' = x) by (apply Hx; [right; exact Hc'|exact Eh]). subst c'. contradiction. }
    rewrite E. reflexivity.
  - apply IH; [exact ND'|]. intros c' Hc'. apply Hx. right; exact Hc'.
Qed.

(* ---- basic facts about one row ---- *)
Section RowBasics.
Variable m : smap V.
Hypothesis W : wf m.
Notation nf := (nfine m).
Variable r : Z * Z.
Notation a := (fst r).
Notation b := (snd r).
Hypothesis Hab : 0 <= a /\ a <= b /\ b <= npix V m /\ a < npix V m.
Notation c0 := (cov_lo nf r).
Notation c1 := (cov_hi nf (ncov V m) r).

Lemma nf_pos_r0 : 0 < nf.
Proof. exact (wf_nf P m W). Qed.

Lemma c0_range0 : 0 <= c0 < ncov V m.
Proof.
  pose proof nf_pos_r0. unfold cov_lo. destruct Hab as [H0 [H1 [H2 H3]]]. unfold Map.npix in *.
  split; [apply Z.div_pos; lia|apply Z.div_lt_upper_bound; lia].
Qed.

Lemma c1_facts0 : c0 <= c1 < ncov V m /\ c1 * nf <= b /\ b <= (c1 + 1) * nf.
Proof.
  pose proof nf_pos_r0 as Hn. pose proof c0_range0 as Hc0. destruct Hab as [H0 [H1 [H2 H3]]].
  unfold cov_hi, cov_lo in *. unfold Map.npix in *.
  assert (Hb : 0 <= b / nf <= ncov V m).
  { split; [apply Z.div_pos; lia|]. apply Z.div_le_upper_bound; [lia|]. lia. }
  assert (Hmono : a / nf <= b / nf) by (apply Z.div_le_mono; lia).
  pose proof (Z.div_mod b nf ltac:(lia)) as Eb. pose proof (Z.mod_pos_bound b nf Hn) as Mb.
  destruct (b / nf =? ncov V m) eqn:E.
  - assert (b = ncov V m * nf) by nia. split; [lia|]. split; nia.
  - split; [lia|]. split; nia.
Qed.

End RowBasics.

(* ---- the effect of one row on one stored pixel ---- *)
Section Row.
Variable m : smap V.                      (* the map after the reservation *)
Hypothesis W : wf m.
Variable na : bool.
Variable covd : Z -> bool.                (* coverage BEFORE the reservation *)
Notation nf := (nfine m).
Notation okc := (fun c => negb (skipc na covd c)).

Variable r : Z * Z.
Notation a := (fst r).
Notation b := (snd r).
Hypothesis Hab : 0 <= a /\ a <= b /\ b <= npix V m /\ a < npix V m.
Notation c0 := (cov_lo nf r).
Notation c1 := (cov_hi nf (ncov V m) r).
(* every coverage pixel the row touches and does not skip is covered after the reservation *)
Hypothesis Hres : forall c, c0 <= c <= c1 -> okc c = true -> covered V m c = true.

Notation nf_pos_r := (nf_pos_r0 m W).
Notation c0_range := (c0_range0 m W r Hab).
Notation c1_facts := (c1_facts0 m W r Hab).

Lemma good_of c : c0 <= c <= c1 -> okc c = true -> good P m c.
Proof.
  intros Hc Hok. destruct c1_facts as [[A B] _]. pose proof c0_range.
  split; [lia|apply Hres; assumption].
Qed.

(* slices are inside the storage *)
Lemma row_slices_bounds (s : list V) :
  zlen s = zlen (sp m) -> forall sl, In sl (row_slices na covd m r) -> 0 <= fst sl /\ snd sl <= zlen s.
Proof.
  intros Hl sl Hsl. pose proof nf_pos_r as Hn. destruct c1_facts as [[A B] [C D]]. pose proof c0_range as Hc0.
  destruct Hab as [H0 [H1 [H2 H3]]].
  assert (Ea : c0 * nf <= a < (c0 + 1) * nf).
  { unfold cov_lo. pose proof (Z.div_mod a nf ltac:(lia)). pose proof (Z.mod_pos_bound a nf Hn). nia. }
  unfold row_slices in Hsl. cbv zeta in Hsl.
  assert (Hgb : forall c, c0 <= c <= c1 -> okc c = true ->
                nf <= znth 0 (idx m) c + nf * c /\ znth 0 (idx m) c + nf * c + nf <= zlen s).
  { intros c Hc Hok. destruct (good_block P m W c (good_of c Hc Hok)) as [G1 [G2 _]].
    unfold Map.off, cov_off in *. rewrite Hl. lia. }
  destruct (c0 <? c1) eqn:E.
  - destruct Hsl as [<-|Hsl].
    + destruct (skipc na covd c0) eqn:Es; [unfold noslice; cbn; pose proof (zlen_nonneg s); lia|].
      destruct (Hgb c0 ltac:(lia) ltac:(cbv beta; rewrite Es; reflexivity)) as [G1 G2]. cbn [fst snd]. nia.
    + apply in_app_or in Hsl. destruct Hsl as [Hsl|[<-|[]]].
      * apply in_map_iff in Hsl. destruct Hsl as [c [<- Hc]]. apply In_zrange in Hc.
        destruct (skipc na covd c) eqn:Es; [unfold noslice; cbn; pose proof (zlen_nonneg s); lia|].
        destruct (Hgb c ltac:(lia) ltac:(cbv beta; rewrite Es; reflexivity)) as [G1 G2]. cbn [fst snd]. lia.
      * destruct (skipc na covd c1) eqn:Es; [unfold noslice; cbn; pose proof (zlen_nonneg s); lia|].
        destruct (Hgb c1 ltac:(lia) ltac:(cbv beta; rewrite Es; reflexivity)) as [G1 G2]. cbn [fst snd]. nia.
  - destruct Hsl as [<-|[]].
    destruct (skipc na covd c0) eqn:Es; [unfold noslice; cbn; pose proof (zlen_nonneg s); lia|].
    destruct (Hgb c0 ltac:(lia) ltac:(cbv beta; rewrite Es; reflexivity)) as [G1 G2]. cbn [fst snd].
    assert (c1 = c0) by lia. nia.
Qed.

(* ---- which stored pixels a row changes ---- *)
Section RowEffect.
Variable q : Z.
Hypothesis Hq : 0 <= q < npix V m.
Hypothesis Hcq : covered V m (q / nf) = true.
Notation cq := (q / nf).
Notation rq := (q mod nf).
Notation i := (cell V m q).

Lemma hit_block_slice c lo hi :
  good P m c -> 0 <= lo -> hi <= nf ->
  hit_slice (off V m c + lo, off V m c + hi) i = (c =? cq) && (lo <=? rq) && (rq <? hi).
Proof.
  intros G Hlo Hhi. pose proof nf_pos_r as Hn. pose proof (Z.mod_pos_bound q nf Hn) as Hm.
  pose proof (cell_in_block m W q c Hq Hcq G) as Hblk.
  pose proof (cell_eq P m q Hn) as Ecell.
  unfold hit_slice. cbn [fst snd].
  destruct (c =? cq) eqn:E.
  - assert (c = cq) by lia. subst c. rewrite Ecell. cbn [andb].
    destruct ((off V m cq + lo <=? off V m cq + rq) && (off V m cq + rq <? off V m cq + hi)) eqn:E1;
    destruct ((lo <=? rq) && (rq <? hi)) eqn:E2; try reflexivity; lia.
  - cbn [andb].
    destruct ((off V m c + lo <=? i) && (i <? off V m c + hi)) eqn:E1; [|reflexivity].
    exfalso. assert (c = cq); [|lia]. apply Hblk. lia.
Qed.

Lemma hit_noslice : hit_slice noslice i = false.
Proof.
  pose proof nf_pos_r as Hn. unfold hit_slice, noslice. cbn [fst snd].
  destruct ((0 <=? i) && (i <? 0)) eqn:E; [lia|reflexivity].
Qed.

Definition in_row : bool := (a <=? q) && (q <? b) && okc cq.

Theorem row_effect (v0 : V) :
  fold_left (fun v sl => if hit_slice sl i then elem v else v) (row_slices na covd m r) v0 =
  if in_row then elem v0 else v0.
Proof.
  pose proof nf_pos_r as Hn. destruct c1_facts as [[A B] [C D]]. pose proof c0_range as Hc0.
  destruct Hab as [H0 [H1 [H2 H3]]].
  assert (Ea : c0 * nf <= a < (c0 + 1) * nf).
  { unfold cov_lo. pose proof (Z.div_mod a nf ltac:(lia)). pose proof (Z.mod_pos_bound a nf Hn). nia. }
  pose proof (Z.div_mod q nf ltac:(lia)) as Eq. pose proof (Z.mod_pos_bound q nf Hn) as Mq.
  unfold row_slices. cbv zeta.
  assert (Eoff : forall c, znth 0 (idx m) c + nf * c = off V m c) by (intros c; unfold Map.off, cov_off; lia).
  destruct (c0 <? c1) eqn:E.
  - cbn [fold_left]. rewrite fold_left_app. cbn [fold_left].
    (* first slice *)
    set (h1 := hit_slice (if skipc na covd c0 then noslice
                          else (a + znth 0 (idx m) c0, znth 0 (idx m) c0 + nf * (c0 + 1))) i).
    assert (Eh1 : h1 = okc c0 && (c0 =? cq) && (a <=? q)).
    { unfold h1. destruct (skipc na covd c0) eqn:Es; [rewrite hit_noslice; reflexivity|].
      replace (a + znth 0 (idx m) c0) with (off V m c0 + (a - c0 * nf)) by (rewrite <- Eoff; lia).
      replace (znth 0 (idx m) c0 + nf * (c0 + 1)) with (off V m c0 + nf) by (rewrite <- Eoff; lia).
      assert (G : good P m c0) by (apply good_of; [lia|cbv beta; rewrite Es; reflexivity]).
      rewrite (hit_block_slice c0 (a - c0 * nf) nf G) by lia.
      cbn [negb andb]. destruct (c0 =? cq) eqn:Ec; [|reflexivity]. cbn [andb].
      destruct ((a - c0 * nf <=? rq) && (rq <? nf)) eqn:E1; destruct (a <=? q) eqn:E2; try reflexivity; nia. }
    (* middle slices *)
    set (hm := fun c => hit_slice (if skipc na covd c then noslice
                                   else (znth 0 (idx m) c + nf * c, znth 0 (idx m) c + nf * c + nf)) i).
    assert (Ehm : forall c, c0 < c < c1 -> hm c = okc c && (c =? cq)).
    { intros c Hc. unfold hm. destruct (skipc na covd c) eqn:Es; [rewrite hit_noslice; reflexivity|].
      rewrite Eoff. replace (off V m c) with (off V m c + 0) at 1 by lia.
      assert (G : good P m c) by (apply good_of; [lia|cbv beta; rewrite Es; reflexivity]).
      rewrite (hit_block_slice c 0 nf G) by lia.
      cbn [negb andb]. destruct (c =? cq); [|reflexivity]. cbn [andb].
      destruct ((0 <=? rq) && (rq <? nf)) eqn:E1; [reflexivity|lia]. }
    rewrite <- (fold_left_map_arg (fun v (sl : Z * Z) => if hit_slice sl i then elem v else v)
                  (fun c => if skipc na covd c then noslice
                            else (znth 0 (idx m) c + nf * c, znth 0 (idx m) c + nf * c + nf))).
    change (fun (s0 : V) (x : Z) => if hit_slice (if skipc na covd x then noslice
                                                  else (znth 0 (idx m) x + nf * x, znth 0 (idx m) x + nf * x + nf)) i
                                    then elem s0 else s0)
      with (fun (s0 : V) (x : Z) => if hm x then elem s0 else s0).
    rewrite (fold_one_hit hm elem cq).
    2: apply NoDup_zrange.
    2: { intros c Hc Hh. apply In_zrange in Hc. rewrite Ehm in Hh by lia.
         apply andb_true_iff in Hh. destruct Hh as [_ Hh]. lia. }
    set (h2 := existsb hm (zrange (c0 + 1) c1)).
    assert (Eh2 : h2 = okc cq && (c0 <? cq) && (cq <? c1)).
    { unfold h2. destruct (existsb hm (zrange (c0 + 1) c1)) eqn:Ex.
      - apply existsb_exists in Ex. destruct Ex as [c [Hc Hh]]. apply In_zrange in Hc.
        rewrite Ehm in Hh by lia. apply andb_true_iff in Hh. destruct Hh as [Hok Hh].
        assert (c = cq) by lia. subst c. rewrite Hok. cbn [andb].
        destruct ((c0 <? cq) && (cq <? c1)) eqn:E1; [reflexivity|lia].
      - destruct (okc cq && (c0 <? cq) && (cq <? c1)) eqn:E1; [|reflexivity].
        exfalso. assert (existsb hm (zrange (c0 + 1) c1) = true); [|congruence].
        apply existsb_exists. exists cq. split; [apply In_zrange; lia|].
        rewrite Ehm by lia. apply andb_true_iff in E1. destruct E1 as [E1 _].
        apply andb_true_iff in E1. destruct E1 as [E1 _]. rewrite E1, Z.eqb_refl. reflexivity. }
    (* last slice *)
    set (h3 := hit_slice (if skipc na covd c1 then noslice
                          else (znth 0 (idx m) c1 + nf * c1, b + znth 0 (idx m) c1)) i).
    assert (Eh3 : h3 = okc c1 && (c1 =? cq) && (q <? b)).
    { unfold h3. destruct (skipc na covd c1) eqn:Es; [rewrite hit_noslice; reflexivity|].
      replace (znth 0 (idx m) c1 + nf * c1) with (off V m c1 + 0) by (rewrite <- Eoff; lia).
      replace (b + znth 0 (idx m) c1) with (off V m c1 + (b - c1 * nf)) by (rewrite <- Eoff; lia).
      assert (G : good P m c1) by (apply good_of; [lia|cbv beta; rewrite Es; reflexivity]).
      rewrite (hit_block_slice c1 0 (b - c1 * nf) G) by lia.
      cbn [negb andb]. destruct (c1 =? cq) eqn:Ec; [|reflexivity]. cbn [andb].
      destruct ((0 <=? rq) && (rq <? b - c1 * nf)) eqn:E1; destruct (q <? b) eqn:E2; try reflexivity; nia. }
    unfold in_row.
    assert (K1 : cq < c0 -> q < a) by nia.
    assert (K2 : c0 < cq -> a <= q) by nia.
    assert (K3 : cq < c1 -> q < b) by nia.
    assert (K4 : c1 < cq -> b <= q) by nia.
    assert (Et : (a <=? q) && (q <? b) && okc cq = h1 || h2 || h3).
    { rewrite Eh1, Eh2, Eh3. cbv beta.
      assert (J0 : c0 = cq -> skipc na covd c0 = skipc na covd cq) by (intros ->; reflexivity).
      assert (J1 : c1 = cq -> skipc na covd c1 = skipc na covd cq) by (intros ->; reflexivity).
      revert J0 J1. generalize (skipc na covd c0) (skipc na covd c1) (skipc na covd cq). intros s0 s1 sq J0 J1.
      clear - K1 K2 K3 K4 J0 J1 E.
      destruct s0, s1, sq; cbn [negb andb orb];
        try (specialize (J0)); try (specialize (J1));
        destruct (c0 =? cq) eqn:X0; destruct (c1 =? cq) eqn:X1;
        try (assert (c0 = cq) by lia); try (assert (c1 = cq) by lia);
        try (exfalso; (discriminate (J0 ltac:(assumption)) || discriminate (J1 ltac:(assumption))));
        cbn [andb orb]; lia. }
    rewrite Et.
    (* the three hits are mutually exclusive *)
    assert (X12 : h1 = true -> h2 = false).
    { rewrite Eh1, Eh2. intros Hh. apply andb_true_iff in Hh. destruct Hh as [Hh _]. apply andb_true_iff in Hh. destruct Hh as [_ Hh].
      destruct (c0 <? cq) eqn:X; [lia|]. rewrite andb_false_r. reflexivity. }
    assert (X13 : h1 = true -> h3 = false).
    { rewrite Eh1, Eh3. intros Hh. apply andb_true_iff in Hh. destruct Hh as [Hh _]. apply andb_true_iff in Hh. destruct Hh as [_ Hh].
      destruct (c1 =? cq) eqn:X; [lia|]. rewrite andb_false_r. reflexivity. }
    assert (X23 : h2 = true -> h3 = false).
    { rewrite Eh2, Eh3. intros Hh. apply andb_true_iff in Hh. destruct Hh as [_ Hh].
      destruct (c1 =? cq) eqn:X; [lia|]. rewrite andb_false_r. reflexivity. }
    destruct h1 eqn:G1.
    + rewrite (X12 eq_refl), (X13 eq_refl). reflexivity.
    + destruct h2 eqn:G2.
      * rewrite (X23 eq_refl). reflexivity.
      * destruct h3; reflexivity.
  - (* the row lies within one coverage pixel *)
    cbn [fold_left]. assert (Ec : c1 = c0) by lia.
    set (h := hit_slice (if skipc na covd c0 then noslice
                         else (a + znth 0 (idx m) c0, a + znth 0 (idx m) c0 + (b - a))) i).
    assert (K1 : cq < c0 -> q < a) by nia.
    assert (K4 : c0 < cq -> b <= q) by nia.
    assert (M1 : cq = c0 -> (a - c0 * nf <= rq <-> a <= q)) by (intros Hc; rewrite <- Hc; lia).
    assert (M2 : cq = c0 -> (rq < b - c0 * nf <-> q < b)) by (intros Hc; rewrite <- Hc; lia).
    assert (Eh : h = in_row).
    { unfold h, in_row. cbv beta.
      assert (J0 : c0 = cq -> skipc na covd c0 = skipc na covd cq) by (intros ->; reflexivity).
      destruct (skipc na covd c0) eqn:Es.
      - rewrite hit_noslice.
        destruct (c0 =? cq) eqn:X0.
        + assert (c0 = cq) by lia. rewrite <- (J0 H). cbn [negb]. rewrite andb_false_r. reflexivity.
        + destruct ((a <=? q) && (q <? b)) eqn:X; [|reflexivity]. exfalso. lia.
      - replace (a + znth 0 (idx m) c0) with (off V m c0 + (a - c0 * nf)) by (rewrite <- Eoff; lia).
        replace (off V m c0 + (a - c0 * nf) + (b - a)) with (off V m c0 + (b - c0 * nf)) by lia.
        assert (G : good P m c0) by (apply good_of; [lia|cbv beta; rewrite Es; reflexivity]).
        rewrite (hit_block_slice c0 (a - c0 * nf) (b - c0 * nf) G) by nia.
        destruct (c0 =? cq) eqn:X0.
        + assert (c0 = cq) by lia. rewrite <- (J0 H). cbn [negb andb]. rewrite andb_true_r.
          destruct ((a - c0 * nf <=? rq) && (rq <? b - c0 * nf)) eqn:E1;
          destruct ((a <=? q) && (q <? b)) eqn:E2; try reflexivity; exfalso; lia.
        + cbn [andb]. destruct ((a <=? q) && (q <? b)) eqn:E2; [|reflexivity]. exfalso. lia. }
    rewrite Eh. reflexivity.
Qed.

End RowEffect.

(* the overflow block is never touched by a row *)
Lemma row_overflow (v0 : V) j :
  0 <= j < nf ->
  fold_left (fun v sl => if hit_slice sl j then elem v else v) (row_slices na covd m r) v0 = v0.
Proof.
  intros Hj. pose proof nf_pos_r as Hn.
  assert (Hnone : forall sl, In sl (row_slices na covd m r) -> hit_slice sl j = false).
  { intros sl Hsl. destruct c1_facts as [[A B] [C D]]. pose proof c0_range as Hc0.
    destruct Hab as [H0 [H1 [H2 H3]]].
    assert (Ea : c0 * nf <= a < (c0 + 1) * nf).
    { unfold cov_lo. pose proof (Z.div_mod a nf ltac:(lia)). pose proof (Z.mod_pos_bound a nf Hn). nia. }
    assert (Hgb : forall c, c0 <= c <= c1 -> okc c = true -> nf <= znth 0 (idx m) c + nf * c).
    { intros c Hc Hok. destruct (good_block P m W c (good_of c Hc Hok)) as [G1 _].
      unfold Map.off, cov_off in *. lia. }
    unfold row_slices in Hsl. cbv zeta in Hsl. unfold hit_slice.
    destruct (c0 <? c1) eqn:E.
    - destruct Hsl as [<-|Hsl].
      + destruct (skipc na covd c0) eqn:Es; [unfold noslice; cbn; lia|].
        pose proof (Hgb c0 ltac:(lia) ltac:(cbv beta; rewrite Es; reflexivity)). cbn [fst snd]. nia.
      + apply in_app_or in Hsl. destruct Hsl as [Hsl|[<-|[]]].
        * apply in_map_iff in Hsl. destruct Hsl as [c [<- Hc]]. apply In_zrange in Hc.
          destruct (skipc na covd c) eqn:Es; [unfold noslice; cbn; lia|].
          pose proof (Hgb c ltac:(lia) ltac:(cbv beta; rewrite Es; reflexivity)). cbn [fst snd]. lia.
        * destruct (skipc na covd c1) eqn:Es; [unfold noslice; cbn; lia|].
          pose proof (Hgb c1 ltac:(lia) ltac:(cbv beta; rewrite Es; reflexivity)). cbn [fst snd]. lia.
    - destruct Hsl as [<-|[]].
      destruct (skipc na covd c0) eqn:Es; [unfold noslice; cbn; lia|].
      pose proof (Hgb c0 ltac:(lia) ltac:(cbv beta; rewrite Es; reflexivity)). cbn [fst snd]. nia. }
  revert v0. induction (row_slices na covd m r) as [|sl t IH]; intros v0; cbn [fold_left]; [reflexivity|].
  rewrite (Hnone sl (or_introl eq_refl)). apply IH. intros sl' Hsl'. apply Hnone. right; exact Hsl'.
Qed.

End Row.

(* ---------------- all rows ---------------- *)
Section Whole.
Variable m : smap V.
Hypothesis W : wf m.
Variable na : bool.
Variable rows : list (Z * Z).
Notation nf := (nfine m).

Definition row_ok (r : Z * Z) : Prop := 0 <= fst r /\ fst r <= snd r /\ snd r <= npix V m /\ fst r < npix V m.
Hypothesis Hrows : forall r, In r rows -> row_ok r.

Notation covd0 := (covered V m).
Notation want := (ranges_cov_pixels nf (ncov V m) rows).
Notation new := (filter (fun c => negb (covd0 c)) want).

Definition m1 : smap V :=
  match new with
  | [] => m
  | _ => if na then m else reserve V dv m new
  end.

Lemma new_ok_r : new_ok P m new.
Proof.
  split.
  - apply NoDup_filter. unfold ranges_cov_pixels. apply NoDup_filter. apply NoDup_zrange.
  - intros c Hc. apply filter_In in Hc. destruct Hc as [Hw Hu]. unfold ranges_cov_pixels in Hw.
    apply filter_In in Hw. destruct Hw as [Hr _]. apply In_zrange in Hr. split; [exact Hr|].
    destruct (covd0 c); [discriminate|reflexivity].
Qed.

Lemma m1_cases : m1 = m \/ (na = false /\ m1 = reserve V dv m new).
Proof. unfold m1. destruct new; [left; reflexivity|]. destruct na; [left; reflexivity|right; split; reflexivity]. Qed.

Lemma m1_wf : wf m1.
Proof. destruct m1_cases as [->|[_ ->]]; [exact W|apply (reserve_wf P); [exact W|exact new_ok_r]]. Qed.

Lemma m1_nfine : nfine m1 = nf.
Proof. destruct m1_cases as [->|[_ ->]]; reflexivity. Qed.

Lemma m1_ncov : ncov V m1 = ncov V m.
Proof. destruct m1_cases as [->|[_ ->]]; [reflexivity|apply (ncov_reserve P)]. Qed.

Lemma m1_npix : npix V m1 = npix V m.
Proof. unfold Map.npix. rewrite m1_ncov, m1_nfine. reflexivity. Qed.

Lemma m1_read q : 0 <= q < npix V m -> read m1 q = read m q.
Proof. intros Hq. destruct m1_cases as [->|[_ ->]]; [reflexivity|apply (reserve_read P); [exact W|exact new_ok_r|exact Hq]]. Qed.

Lemma m1_blank : blank m1 = blank m.
Proof. destruct m1_cases as [->|[_ ->]]; reflexivity. Qed.

Lemma m1_covered_mono c : 0 <= c < ncov V m -> covd0 c = true -> covered V m1 c = true.
Proof.
  intros Hc Hcov. destruct m1_cases as [->|[_ ->]]; [exact Hcov|].
  rewrite (reserve_covered P) by (try exact W; try exact new_ok_r; exact Hc). rewrite Hcov. reflexivity.
Qed.

Notation okc := (fun c => negb (skipc na covd0 c)).

(* a coverage pixel touched by a row and not skipped is covered after the reservation *)
Lemma touched_covered r c :
  In r rows -> cov_lo nf r <= c <= cov_hi nf (ncov V m) r -> 0 <= c < ncov V m -> okc c = true -> covered V m1 c = true.
Proof.
  intros Hr Hc Hrange Hok. destruct (covd0 c) eqn:Hcov; [apply m1_covered_mono; assumption|].
  assert (Hna : na = false).
  { cbv beta in Hok. unfold skipc in Hok. rewrite Hcov in Hok. destruct na; [discriminate|reflexivity]. }
  assert (Hw : In c want).
  { unfold ranges_cov_pixels. apply filter_In. split; [apply In_zrange; exact Hrange|].
    apply existsb_exists. exists r. split; [exact Hr|]. lia. }
  assert (Hn : In c new) by (apply filter_In; split; [exact Hw|rewrite Hcov; reflexivity]).
  unfold m1. destruct new as [|x t] eqn:En; [contradiction|]. rewrite Hna. rewrite <- En in *.
  rewrite (reserve_covered P) by (try exact W; try exact new_ok_r; exact Hrange).
  assert (E : existsb (Z.eqb c) new = true) by (apply existsb_eqb_In; exact Hn).
  rewrite E. apply orb_true_r.
Qed.

Definition final_sp : list V :=
  fold_left (range_row V (p_vadd P) (p_vor P) (p_vand P) (p_vzero P) (p_is_sent P) (p_sent_nonzero P) o value na covd0 m1)
            rows (sp m1).

Definition in_row_b (r : Z * Z) (q : Z) : bool := (fst r <=? q) && (q <? snd r) && okc (q / nf).

Lemma rows_fold (rs : list (Z * Z)) : forall (s : list V),
  (forall r, In r rs -> In r rows) -> zlen s = zlen (sp m1) ->
  let s' := fold_left (range_row V (p_vadd P) (p_vor P) (p_vand P) (p_vzero P) (p_is_sent P) (p_sent_nonzero P) o value na covd0 m1) rs s in
  zlen s' = zlen (sp m1) /\
  (forall j, 0 <= j < nf -> znth dv s' j = znth dv s j) /\
  (forall q, 0 <= q < npix V m -> covered V m1 (q / nf) = true ->
     znth dv s' (cell V m1 q) = fold_left (fun v r => if in_row_b r q then elem v else v) rs (znth dv s (cell V m1 q))).
Proof.
  induction rs as [|r t IH]; intros s Hin Hl; cbn [fold_left].
  - cbv zeta. split; [exact Hl|]. split; intros; reflexivity.
  - assert (Hr : In r rows) by (apply Hin; left; reflexivity).
    destruct (Hrows r Hr) as [R0 [R1 [R2 R3]]].
    assert (Hab : 0 <= fst r /\ fst r <= snd r /\ snd r <= npix V m1 /\ fst r < npix V m1)
      by (rewrite m1_npix; repeat split; assumption).
    assert (Hres : forall c, cov_lo (nfine m1) r <= c <= cov_hi (nfine m1) (ncov V m1) r ->
                   (fun c => negb (skipc na covd0 c)) c = true -> covered V m1 c = true).
    { intros c Hc Hok. rewrite m1_nfine, m1_ncov in Hc.
      assert (Hrange : 0 <= c < ncov V m).
      { pose proof (c0_range0 m1 m1_wf r Hab) as A0. pose proof (c1_facts0 m1 m1_wf r Hab) as [[A1 A2] _].
        rewrite m1_nfine, m1_ncov in A0, A1, A2. lia. }
      apply (touched_covered r c Hr Hc Hrange Hok). }
    rewrite range_row_as_slices.
    destruct (fold_slices_pointwise (row_slices na covd0 m1 r) s) as [L1 S1].
    { apply (row_slices_bounds m1 m1_wf na covd0 r Hab Hres s Hl). }
    set (s1 := fold_left (fun t0 sl => rop o value t0 (fst sl) (snd sl)) (row_slices na covd0 m1 r) s) in *.
    destruct (IH s1) as [L2 [O2 Q2]].
    + intros r' Hr'. apply Hin. right; exact Hr'.
    + rewrite L1. exact Hl.
    + cbv zeta. split; [exact L2|]. split.
      * intros j Hj. rewrite O2 by exact Hj. rewrite S1.
        apply (row_overflow m1 m1_wf na covd0 r Hab Hres). rewrite m1_nfine. exact Hj.
      * intros q Hq Hcq. rewrite Q2 by assumption. f_equal. rewrite S1.
        assert (Hq1 : 0 <= q < npix V m1) by (rewrite m1_npix; exact Hq).
        assert (Hcq1 : covered V m1 (q / nfine m1) = true) by (rewrite m1_nfine; exact Hcq).
        rewrite (row_effect m1 m1_wf na covd0 r Hab Hres q Hq1 Hcq1).
        unfold in_row, in_row_b. rewrite m1_nfine. reflexivity.
Qed.

Definition result_r : smap V := update_ranges V dv (p_vadd P) (p_vor P) (p_vand P) (p_vzero P) (p_is_sent P) (p_sent_nonzero P) m o rows value na.

Lemma result_r_eq : result_r = mkmap nf (idx m1) final_sp (blank m) None.
Proof.
  unfold result_r, update_ranges, final_sp, m1. cbv zeta.
  destruct new as [|x t]; [reflexivity|]. destruct na; reflexivity.
Qed.

Theorem ranges_wf : wf result_r.
Proof.
  rewrite result_r_eq. destruct (rows_fold rows (sp m1) (fun r H => H) eq_refl) as [L [O _]].
  apply (wf_transfer P P m1); try reflexivity.
  - exact m1_wf.
  - cbn [nfine]. symmetry. exact m1_nfine.
  - exact L.
  - intros j Hj. cbn [sp blank]. rewrite m1_nfine in Hj. fold final_sp in O. rewrite O by exact Hj.
    rewrite <- m1_blank. apply (wf_over P m1 m1_wf). rewrite m1_nfine. exact Hj.
  - exact (wf_blank P m W).
Qed.

(* every pixel: the operation applied once for every row that contains it (and is not skipped) *)
Theorem ranges_read q :
  0 <= q < npix V m ->
  read result_r q = fold_left (fun v r => if in_row_b r q then elem v else v) rows (read m q).
Proof.
  intros Hq. rewrite result_r_eq. pose proof (wf_nf P m W) as Hn.
  destruct (rows_fold rows (sp m1) (fun r H => H) eq_refl) as [L [O Q]]. fold final_sp in L, O, Q.
  unfold Map.read at 1. unfold Map.cell. cbn [nfine idx sp].
  assert (Ecell : q + znth 0 (idx m1) (q / nf) = cell V m1 q) by (unfold Map.cell; rewrite m1_nfine; reflexivity).
  rewrite Ecell.
  destruct (covered V m1 (q / nf)) eqn:Hcov.
  - rewrite Q by assumption. change (znth dv (sp m1) (cell V m1 q)) with (read m1 q). rewrite m1_read by exact Hq. reflexivity.
  - assert (Hq1 : 0 <= q < npix V m1) by (rewrite m1_npix; exact Hq).
    assert (Hcov1 : covered V m1 (q / nfine m1) = false) by (rewrite m1_nfine; exact Hcov).
    destruct (cell_uncovered P m1 q m1_wf Hq1 Hcov1) as [_ B]. rewrite m1_nfine in B.
    rewrite O by exact B.
    change (znth dv (sp m1) (cell V m1 q)) with (read m1 q). rewrite m1_read by exact Hq.
    (* no row can contain q: its coverage pixel would have been covered *)
    assert (Hnone : forall r, In r rows -> in_row_b r q = false).
    { intros r Hr. destruct (in_row_b r q) eqn:E; [|reflexivity]. exfalso.
      unfold in_row_b in E. apply andb_true_iff in E. destruct E as [E Hok]. apply andb_true_iff in E. destruct E as [E1 E2].
      destruct (Hrows r Hr) as [R0 [R1 [R2 R3]]].
      assert (Hab : 0 <= fst r /\ fst r <= snd r /\ snd r <= npix V m /\ fst r < npix V m) by (repeat split; assumption).
      pose proof (c1_facts0 m W r Hab) as [[A1 A2] [A3 A4]]. pose proof (c0_range0 m W r Hab) as A0.
      assert (Hc : cov_lo nf r <= q / nf <= cov_hi nf (ncov V m) r).
      { unfold cov_lo in *. split.
        - apply Z.div_le_mono; lia.
        - assert (q / nf < cov_hi nf (ncov V m) r + 1); [|lia]. apply Z.div_lt_upper_bound; nia. }
      assert (Hrange : 0 <= q / nf < ncov V m) by (apply (covpix_range P); assumption).
      pose proof (touched_covered r (q / nf) Hr Hc Hrange Hok). congruence. }
    clear - Hnone. revert Hnone. generalize (read m q). induction rows as [|r t IH]; intros v Hnone; cbn [fold_left]; [reflexivity|].
    rewrite (Hnone r (or_introl eq_refl)). apply IH. intros r' Hr'. apply Hnone. right; exact Hr'.
Qed.

End Whole.

(* ---------------- the slice path equals the explicit-pixel update ---------------- *)
Definition hitpix (r : Z * Z) (q : Z) : bool := (fst r <=? q) && (q <? snd r).

Lemma filter_eq_zrange_nat q n : forall lo,
  filter (fun p => p =? q) (zrange_nat lo n) = if (lo <=? q) && (q <? lo + Z.of_nat n) then [q] else [].
Proof.
  induction n as [|n IH]; intros lo; cbn [zrange_nat filter].
  - destruct ((lo <=? q) && (q <? lo + Z.of_nat 0)) eqn:E; [lia|reflexivity].
  - rewrite IH. destruct (lo =? q) eqn:E0.
    + assert (lo = q) by lia. subst lo.
      destruct ((q + 1 <=? q) && (q <? q + 1 + Z.of_nat n)) eqn:E1; [lia|].
      destruct ((q <=? q) && (q <? q + Z.of_nat (S n))) eqn:E2; [reflexivity|lia].
    + destruct ((lo + 1 <=? q) && (q <? lo + 1 + Z.of_nat n)) eqn:E1;
      destruct ((lo <=? q) && (q <? lo + Z.of_nat (S n))) eqn:E2; try reflexivity; lia.
Qed.

Lemma filter_eq_zrange q a b : filter (fun p => p =? q) (zrange a b) = if hitpix (a, b) q then [q] else [].
Proof.
  unfold zrange, hitpix. cbn [fst snd]. rewrite filter_eq_zrange_nat.
  destruct ((a <=? q) && (q <? a + Z.of_nat (Z.to_nat (b - a)))) eqn:E1;
  destruct ((a <=? q) && (q <? b)) eqn:E2; try reflexivity; lia.
Qed.

Lemma vals_at_const q (l : list Z) :
  vals_at V q (map (fun p => (p, value)) l) = map (fun _ => value) (filter (fun p => p =? q) l).
Proof.
  induction l as [|p t IH]; cbn [map vals_at filter]; [reflexivity|].
  destruct (p =? q); cbn [map]; rewrite IH; reflexivity.
Qed.

Definition row_vals (rows : list (Z * Z)) (q : Z) : list V :=
  flat_map (fun r => if hitpix r q then [value] else []) rows.

Lemma vals_at_expand rows q :
  vals_at V q (map (fun p => (p, value)) (expand_ranges rows)) = row_vals rows q.
Proof.
  rewrite vals_at_const. unfold expand_ranges, row_vals.
  induction rows as [|[a b] t IH]; cbn [flat_map]; [reflexivity|].
  rewrite filter_app, map_app, IH. f_equal. cbn [fst snd]. rewrite filter_eq_zrange.
  destruct (hitpix (a, b) q); reflexivity.
Qed.

(* operations without the sentinel reset: one application per containing row, in row order *)
Lemma rowfold_generic rows q : forall v0,
  (o = UAdd -> p_sent_nonzero P = false) ->
  fold_left (fun v r => if hitpix r q then elem v else v) rows v0 = pt P o v0 (row_vals rows q).
Proof.
  intros v0 Hno.
  assert (Eelem : forall v, elem v = opfun V (p_vadd P) (p_vor P) (p_vand P) o v value).
  { intros v. unfold range_elem. destruct o; cbn [opfun]; try reflexivity. rewrite (Hno eq_refl). reflexivity. }
  assert (Ept : forall v l, pt P o v l = fold_left (opfun V (p_vadd P) (p_vor P) (p_vand P) o) l v).
  { intros v l. unfold pt. destruct o; try reflexivity. rewrite (Hno eq_refl). reflexivity. }
  rewrite Ept. revert v0. unfold row_vals.
  induction rows as [|r t IH]; intros v0; cbn [fold_left flat_map]; [reflexivity|].
  rewrite fold_left_app, IH. destruct (hitpix r q); cbn [fold_left]; [rewrite Eelem|]; reflexivity.
Qed.

Lemma nohit_tail rows q v :
  (forall r, In r rows -> hitpix r q = false) ->
  fold_left (fun v r => if hitpix r q then elem v else v) rows v = v /\ row_vals rows q = [].
Proof.
  revert v. induction rows as [|r t IH]; intros v H; cbn [fold_left]; [split; reflexivity|].
  rewrite (H r (or_introl eq_refl)). unfold row_vals. cbn [flat_map]. rewrite (H r (or_introl eq_refl)). cbn [app].
  apply IH. intros r' Hr'. apply H. right; exact Hr'.
Qed.

(* 'add' with a non-zero sentinel: equal when no pixel lies in two rows (F36 otherwise) *)
Lemma rowfold_add rows q : forall v0,
  o = UAdd -> p_sent_nonzero P = true -> NoDup (expand_ranges rows) ->
  fold_left (fun v r => if hitpix r q then elem v else v) rows v0 = pt P o v0 (row_vals rows q).
Proof.
  intros v0 Ho Hs ND. revert v0.
  induction rows as [|r t IH]; intros v0; cbn [fold_left].
  - unfold row_vals. cbn [flat_map]. rewrite (pt_nil P). reflexivity.
  - unfold expand_ranges in ND. cbn [flat_map] in ND.
    destruct (hitpix r q) eqn:Eh.
    + assert (Hin : In q (zrange (fst r) (snd r))) by (apply In_zrange; unfold hitpix in Eh; lia).
      assert (Hnone : forall r', In r' t -> hitpix r' q = false).
      { intros r' Hr'. destruct (hitpix r' q) eqn:E; [|reflexivity]. exfalso.
        assert (Hin' : In q (flat_map (fun r0 => zrange (fst r0) (snd r0)) t)).
        { apply in_flat_map. exists r'. split; [exact Hr'|]. apply In_zrange. unfold hitpix in E. lia. }
        clear - ND Hin Hin'. induction (zrange (fst r) (snd r)) as [|x l IHl]; [contradiction|].
        cbn [app] in ND. inversion ND as [|? ? Hnin ND']; subst. destruct Hin as [<-|Hin].
        - apply Hnin. apply in_or_app. right; exact Hin'.
        - apply IHl; assumption. }
      destruct (nohit_tail t q (elem v0) Hnone) as [E1 E2]. rewrite E1.
      unfold row_vals. cbn [flat_map]. rewrite Eh. fold (row_vals t q). rewrite E2. cbn [app].
      unfold pt, range_elem. rewrite Ho, Hs. cbn [negb andb fold_left opfun]. reflexivity.
    + unfold row_vals. cbn [flat_map]. rewrite Eh. cbn [app]. fold (row_vals t q). apply IH.
      apply NoDup_app_tail in ND. exact ND.
Qed.

Theorem ranges_eq_pixels (m : smap V) (na : bool) (rows : list (Z * Z)) q :
  wf m -> (forall r, In r rows -> row_ok m r) ->
  (o = UAdd -> p_sent_nonzero P = true -> NoDup (expand_ranges rows)) ->
  0 <= q < npix V m ->
  read (update_ranges V dv (p_vadd P) (p_vor P) (p_vand P) (p_vzero P) (p_is_sent P) (p_sent_nonzero P) m o rows value na) q =
  read (update V dv (p_vadd P) (p_vor P) (p_vand P) (p_vzero P) (p_is_sent P) (p_sent_nonzero P) m o
               (map (fun p => (p, value)) (expand_ranges rows)) na) q.
Proof.
  intros W Hrows Hadd Hq. pose proof (wf_nf P m W) as Hn.
  pose proof (ranges_read m W na rows Hrows q Hq) as L. unfold result_r in L. rewrite L. clear L.
  assert (Hok : pvs_ok P m (map (fun p => (p, value)) (expand_ranges rows))).
  { intros pv Hpv. apply in_map_iff in Hpv. destruct Hpv as [p [<- Hp]]. cbn [fst].
    apply In_expand_ranges in Hp. destruct Hp as [r [Hr Hp]]. destruct (Hrows r Hr) as [R0 [R1 [R2 R3]]]. lia. }
  rewrite (update_read P m o _ na q W Hok Hq).
  set (okq := negb (skipc na (covered V m) (q / nfine m))).
  assert (Efold : fold_left (fun v r => if in_row_b m na r q then elem v else v) rows (read m q) =
                  if okq then fold_left (fun v r => if hitpix r q then elem v else v) rows (read m q) else read m q).
  { unfold in_row_b. fold okq. destruct okq.
    - apply fold_left_ext_in. intros v r _. unfold hitpix. rewrite andb_true_r. reflexivity.
    - transitivity (fold_left (fun (v : V) (_ : Z * Z) => v) rows (read m q)).
      + apply fold_left_ext_in. intros v r _. rewrite andb_false_r. reflexivity.
      + generalize (read m q). clear. induction rows as [|r t IH]; intros v; cbn [fold_left]; [reflexivity|apply IH]. }
  rewrite Efold. clear Efold.
  assert (Evals : vals_at V q (if na then incov P m (map (fun p => (p, value)) (expand_ranges rows))
                               else map (fun p => (p, value)) (expand_ranges rows)) =
                  if okq then row_vals rows q else []).
  { unfold okq, skipc. destruct na; cbn [andb negb].
    - unfold incov. destruct (covered V m (q / nfine m)) eqn:Hc; cbn [negb].
      + rewrite vals_at_filter; [apply vals_at_expand|]. intros pv _ E. unfold Map.pix_covered. rewrite E. exact Hc.
      + apply vals_at_filter_none. intros pv _ E. unfold Map.pix_covered. rewrite E. exact Hc.
    - apply vals_at_expand. }
  rewrite Evals. clear Evals.
  destruct okq; [|rewrite (pt_nil P); reflexivity].
  assert (Ho : o = UAdd \/ o <> UAdd) by (destruct o; [right|left|right|right]; congruence).
  destruct Ho as [Ho|Ho].
  - assert (Hs : p_sent_nonzero P = true \/ p_sent_nonzero P = false) by (destruct (p_sent_nonzero P); [left|right]; reflexivity).
    destruct Hs as [Hs|Hs].
    + apply rowfold_add; [exact Ho|exact Hs|apply Hadd; assumption].
    + apply rowfold_generic. intros _. exact Hs.
  - apply rowfold_generic. intros Ho'. contradiction.
Qed.

End RangeRefine.
