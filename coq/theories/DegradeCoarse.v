(* DegradeCoarse.v — degrade of two maps that agree on their valid pixels (C07, last clause).
   For a reduction that looks only at the valid children (every reduction of the library does: the values of
   invalid children are masked before reducing), two well-formed maps of one sky resolution that have the same
   valid pixels with the same values — whatever their coverage resolutions, block orders and whatever invalid
   cells hold — degrade to the same value at every coarse pixel that both cover.  With [Rehouse.rehouse_spec]
   this is the property's clause: degrading below the coverage resolution (re-house, then degrade) gives what
   degrading an equal map built with the coarser coverage resolution gives. *)
From HS Require Import Prelude Cov Map Spec Ops Spec2 Params AtFold MapProofs UpdateProofs HistoryProofs
     LayoutProofs AccountProofs RebuildProofs MultiRefine Rehouse.

Section DegradeCoarse.
Variables P P' : params.
Notation V := (p_V P).
Notation W := (p_V P').
Notation valid := (p_valid P).
Notation dv := (p_dv P).
Notation wf := (wf P).
Notation read := (read V dv).

Variable red : list (V * W) -> W.
Variable r : Z.
Variable nb : W.

Definition valid_only : Prop :=
  forall l l' : list (V * W),
    filter (fun c => valid (fst c)) l = filter (fun c => valid (fst c)) l' -> red l = red l'.

(* same valid pixels, same values there *)
Definition valid_equal (m1 m2 : smap V) : Prop :=
  npix V m1 = npix V m2 /\
  forall x, 0 <= x < npix V m1 ->
    valid (read m1 x) = valid (read m2 x) /\ (valid (read m1 x) = true -> read m1 x = read m2 x).

Lemma filter_children (f g : Z -> V) (w : Z -> W) (l : list Z) :
  (forall x, In x l -> valid (f x) = valid (g x) /\ (valid (f x) = true -> f x = g x)) ->
  filter (fun c => valid (fst c)) (map (fun x => (f x, w x)) l) =
  filter (fun c => valid (fst c)) (map (fun x => (g x, w x)) l).
Proof.
  induction l as [|x t IH]; intros H; [reflexivity|]. cbn [map filter fst].
  destruct (H x (or_introl eq_refl)) as [Hv He].
  rewrite <- Hv. destruct (valid (f x)) eqn:E.
  - rewrite (He eq_refl). f_equal. apply IH. intros y Hy. apply H. right; exact Hy.
  - apply IH. intros y Hy. apply H. right; exact Hy.
Qed.

Theorem degrade_of_valid_equal_maps (m1 m2 : smap V) (wsp1 wsp2 wd : list W) (q : Z) :
  wf m1 -> wf m2 -> 0 < r -> nfine m1 mod r = 0 -> nfine m2 mod r = 0 ->
  aligned P P' m1 wsp1 wd -> aligned P P' m2 wsp2 wd ->
  valid_only -> valid_equal m1 m2 ->
  0 <= q < npix V m1 / r ->
  covered V m1 (q / (nfine m1 / r)) = true -> covered V m2 (q / (nfine m2 / r)) = true ->
  Map.read W (p_dv P') (degrade2 V W red r nb m1 wsp1) q = Map.read W (p_dv P') (degrade2 V W red r nb m2 wsp2) q.
Proof.
  intros W1 W2 Hr D1 D2 A1 A2 Hvo [Enp Heq] Hq C1 C2.
  rewrite (degrade2_read P P' red r nb m1 wsp1 wd q W1 Hr D1 A1 Hq).
  rewrite (degrade2_read P P' red r nb m2 wsp2 wd q W2 Hr D2 A2 ltac:(rewrite <- Enp; exact Hq)).
  rewrite C1, C2. apply Hvo. apply filter_children.
  intros x Hx. apply In_zrange in Hx. apply Heq.
  pose proof (npix_nonneg P m1 W1) as Hn.
  assert (Hb : (q + 1) * r <= npix V m1).
  { pose proof (Z.mul_div_le (npix V m1) r Hr). nia. }
  nia.
Qed.

(* the re-housed map and the original agree on their valid pixels *)
Lemma rehouse_valid_equal (n' nf' : Z) (m : smap V) :
  wf m -> 0 <= n' -> 0 < nf' -> n' * nf' = npix V m -> valid_equal m (rehouse P n' nf' m).
Proof.
  intros Wm Hn Hnf EN. destruct (rehouse_spec P n' nf' m Wm Hn Hnf EN) as [_ [Np [_ [_ [R Vd]]]]].
  split; [symmetry; exact Np|].
  intros x Hx. split; [symmetry; apply Vd; exact Hx|].
  intros Hv. rewrite (R x Hx), Hv. reflexivity.
Qed.

(* degrading below the coverage resolution: re-house on the coarser coverage, then degrade — the same value as
   degrading the original wherever both cover the coarse pixel *)
Corollary degrade_after_rehousing (n' nf' : Z) (m : smap V) (wsp wsp' wd : list W) (q : Z) :
  wf m -> 0 <= n' -> 0 < nf' -> n' * nf' = npix V m -> 0 < r -> nfine m mod r = 0 -> nf' mod r = 0 ->
  aligned P P' m wsp wd -> aligned P P' (rehouse P n' nf' m) wsp' wd ->
  valid_only -> 0 <= q < npix V m / r ->
  covered V m (q / (nfine m / r)) = true -> covered V (rehouse P n' nf' m) (q / (nf' / r)) = true ->
  Map.read W (p_dv P') (degrade2 V W red r nb (rehouse P n' nf' m) wsp') q =
  Map.read W (p_dv P') (degrade2 V W red r nb m wsp) q.
Proof.
  intros Wm Hn Hnf EN Hr D1 D2 A1 A2 Hvo Hq C1 C2.
  destruct (rehouse_spec P n' nf' m Wm Hn Hnf EN) as [W' [Np [Enf _]]].
  symmetry.
  apply (degrade_of_valid_equal_maps m (rehouse P n' nf' m) wsp wsp' wd q); try assumption.
  - rewrite Enf. exact D2.
  - apply rehouse_valid_equal; assumption.
  - rewrite Enf. exact C2.
Qed.

End DegradeCoarse.

(* the executable reductions (mean, median, std, max, min, sum, prod, wmean: every code but the bitwise and/or,
   which fold all children) look only at the valid children *)
From Coq Require Import QArith.
From HS Require Import Exec Exec2 ExecProofs.
Open Scope Z_scope.

Lemma filter_idem {A} (f : A -> bool) (l : list A) : filter f (filter f l) = filter f l.
Proof.
  induction l as [|x t IH]; [reflexivity|]. cbn [filter]. destruct (f x) eqn:E; [|exact IH].
  cbn [filter]. rewrite E, IH. reflexivity.
Qed.

Theorem executable_reductions_are_valid_only (k kout : kinfo) (code : Z) (nb : cellv) :
  (code =? 8) || (code =? 9) = false ->
  valid_only (xparams k) (xparams kout) (red_cells k code kout nb).
Proof.
  intros H89 l l' E. unfold red_cells. rewrite H89. cbv zeta.
  change (filter (fun c : cellv * cellv => k_valid k (fst c)) l =
          filter (fun c : cellv * cellv => k_valid k (fst c)) l') in E.
  rewrite E. reflexivity.
Qed.
