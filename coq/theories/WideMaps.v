(* WideMaps.v — the per-cell set semantics of WideProofs.v lifted to maps through the update theorem
   (C13): on a wide-mask map (cells = the little-endian integer of the packed row, validity = non-zero)
   set_bits_pix / clear_bits_pix / update_values_pix with packed rows and operation or / and change,
   at every pixel and every bit position, exactly what set union / intersection prescribe — for any
   pixel list, repeated pixels with different rows included. *)
From HS Require Import Prelude Cov Map Spec Params AtFold MapProofs UpdateProofs WideProofs.

Definition wide_zns : false = true -> (0 =? 0) = false.
Proof. intros H. discriminate H. Defined.

(* cells are non-negative integers; a cell is valid iff some bit is set; the sentinel is 0 *)
Definition wide_params : params :=
  mkparams Z (fun v => negb (v =? 0)) 0 Z.add Z.lor Z.land 0 (fun v => v =? 0) false wide_zns.

Notation wupd := (update Z 0 Z.add Z.lor Z.land 0 (fun v => v =? 0) false).
Notation wread := (read Z 0).

Lemma testbit_fold_lor_vals (vs : list Z) : forall acc b,
  Z.testbit (fold_left Z.lor vs acc) b = Z.testbit acc b || existsb (fun v => Z.testbit v b) vs.
Proof.
  induction vs as [|v t IH]; intros acc b; cbn [fold_left existsb]; [rewrite orb_false_r; reflexivity|].
  rewrite IH, Z.lor_spec, orb_assoc. reflexivity.
Qed.

Lemma testbit_fold_land_vals (vs : list Z) : forall acc b,
  Z.testbit (fold_left Z.land vs acc) b = Z.testbit acc b && forallb (fun v => Z.testbit v b) vs.
Proof.
  induction vs as [|v t IH]; intros acc b; cbn [fold_left forallb]; [rewrite andb_true_r; reflexivity|].
  rewrite IH, Z.land_spec, andb_assoc. reflexivity.
Qed.

(* update_values_pix(pixels, rows, operation='or'): every pixel's set becomes the union of its old set
   and the sets of all the rows addressed to it *)
Theorem or_update_is_union (m : smap Z) (pvs : list (Z * Z)) (q b : Z) :
  wf wide_params m -> pvs_ok wide_params m pvs -> 0 <= q < npix Z m ->
  Z.testbit (wread (wupd m UOr pvs false) q) b =
  Z.testbit (wread m q) b || existsb (fun v => Z.testbit v b) (vals_at Z q pvs).
Proof.
  intros W H Hq. pose proof (update_read wide_params m UOr pvs false q W H Hq) as R.
  cbn [p_V p_dv p_vadd p_vor p_vand p_vzero p_is_sent p_sent_nonzero wide_params] in R. rewrite R.
  unfold pt. cbn [p_sent_nonzero wide_params opfun p_vor]. apply testbit_fold_lor_vals.
Qed.

(* operation='and': intersection with every row addressed to it *)
Theorem and_update_is_intersection (m : smap Z) (pvs : list (Z * Z)) (q b : Z) :
  wf wide_params m -> pvs_ok wide_params m pvs -> 0 <= q < npix Z m ->
  Z.testbit (wread (wupd m UAnd pvs false) q) b =
  Z.testbit (wread m q) b && forallb (fun v => Z.testbit v b) (vals_at Z q pvs).
Proof.
  intros W H Hq. pose proof (update_read wide_params m UAnd pvs false q W H Hq) as R.
  cbn [p_V p_dv p_vadd p_vor p_vand p_vzero p_is_sent p_sent_nonzero wide_params] in R. rewrite R.
  unfold pt. cbn [p_sent_nonzero wide_params opfun p_vand]. apply testbit_fold_land_vals.
Qed.

Lemma vals_at_const_map (ps : list Z) (v : Z) q :
  vals_at Z q (map (fun p => (p, v)) ps) = repeat v (count_occ Z.eq_dec ps q).
Proof.
  induction ps as [|p r IH]; cbn [map vals_at count_occ]; [reflexivity|].
  destruct (p =? q) eqn:E; destruct (Z.eq_dec p q) as [Eq|Ne]; try lia; cbn [repeat]; rewrite IH; reflexivity.
Qed.

Lemma existsb_repeat {A} (f : A -> bool) (v : A) n : existsb f (repeat v n) = negb (Nat.eqb n 0) && f v.
Proof.
  induction n as [|n IH]; cbn [repeat existsb Nat.eqb negb andb]; [reflexivity|].
  rewrite IH. destruct (f v); [reflexivity|]. rewrite andb_false_r. reflexivity.
Qed.

Lemma forallb_repeat {A} (f : A -> bool) (v : A) n : forallb f (repeat v n) = Nat.eqb n 0 || f v.
Proof.
  induction n as [|n IH]; cbn [repeat forallb Nat.eqb orb]; [reflexivity|].
  rewrite IH. destruct (f v); [rewrite orb_true_r; reflexivity|reflexivity].
Qed.

Lemma count_occ_pos (ps : list Z) q : negb (Nat.eqb (count_occ Z.eq_dec ps q) 0) = existsb (Z.eqb q) ps.
Proof.
  induction ps as [|p r IH]; cbn [count_occ existsb]; [reflexivity|].
  destruct (Z.eq_dec p q) as [Eq|Ne].
  - subst p. rewrite Z.eqb_refl. reflexivity.
  - destruct (q =? p) eqn:E; [lia|]. exact IH.
Qed.

(* set_bits_pix(pixels, bits): bit b of pixel q is set afterwards iff it was set or (q is listed and
   b is one of the bits) — every bit position, byte boundaries included *)
Theorem set_bits_pix_spec (m : smap Z) (ps bits : list Z) (q b : Z) :
  wf wide_params m -> (forall p, In p ps -> 0 <= p < npix Z m) -> 0 <= q < npix Z m ->
  0 <= b -> (forall x, In x bits -> 0 <= x) ->
  Z.testbit (wread (wupd m UOr (map (fun p => (p, bits_val bits)) ps) false) q) b =
  Z.testbit (wread m q) b || (existsb (Z.eqb q) ps && existsb (Z.eqb b) bits).
Proof.
  intros W Hps Hq Hb Hbits.
  rewrite or_update_is_union; try assumption.
  - rewrite vals_at_const_map, existsb_repeat, count_occ_pos, testbit_bits_val by assumption. reflexivity.
  - intros pv Hin. apply in_map_iff in Hin. destruct Hin as [p [<- Hp]]. cbn [fst]. apply Hps. exact Hp.
Qed.

(* clear_bits_pix(pixels, bits) below the width W: and with the complement of the bits *)
Theorem clear_bits_pix_spec (m : smap Z) (ps bits : list Z) (q b W : Z) :
  wf wide_params m -> (forall p, In p ps -> 0 <= p < npix Z m) -> 0 <= q < npix Z m ->
  0 <= b < W -> (forall x, In x bits -> 0 <= x) ->
  Z.testbit (wread (wupd m UAnd (map (fun p => (p, Z.land (Z.ones W) (Z.lnot (bits_val bits)))) ps) false) q) b =
  Z.testbit (wread m q) b && negb (existsb (Z.eqb q) ps && existsb (Z.eqb b) bits).
Proof.
  intros Wf Hps Hq Hb Hbits.
  rewrite and_update_is_intersection; try assumption.
  - rewrite vals_at_const_map, forallb_repeat.
    rewrite Z.land_spec, Z.lnot_spec, Z.ones_spec_low, testbit_bits_val by (try lia; exact Hbits).
    rewrite <- (count_occ_pos ps q).
    destruct (Nat.eqb (count_occ Z.eq_dec ps q) 0); cbn [negb andb orb]; [rewrite andb_true_r; reflexivity|].
    reflexivity.
  - intros pv Hin. apply in_map_iff in Hin. destruct Hin as [p [<- Hp]]. cbn [fst]. apply Hps. exact Hp.
Qed.

(* a pixel is valid afterwards iff its set is non-empty *)
Theorem wide_valid_iff_nonempty (v : Z) :
  0 <= v -> (p_valid wide_params v = true <-> exists b, 0 <= b /\ Z.testbit v b = true).
Proof.
  intros Hv. cbn [p_valid wide_params]. split.
  - intros H. assert (Hne : v <> 0) by lia.
    destruct (Z.eq_dec v 0) as [E|_]; [contradiction|].
    assert (Hpos : 0 < v) by lia.
    exists (Z.log2 v). split; [apply Z.log2_nonneg|apply Z.bit_log2; exact Hpos].
  - intros [b [Hb T]]. destruct (v =? 0) eqn:E; [|reflexivity].
    assert (v = 0) by lia. subst v. rewrite Z.bits_0 in T. discriminate.
Qed.
